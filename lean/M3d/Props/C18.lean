import M3d.Lemmas.ParamNum
import M3d.Lemmas.ParamGrow
import M3d.Lemmas.ParamEuler
import M3d.Lemmas.ParamDisc
import M3d.Lemmas.ParamNear
import M3d.Lemmas.ParamHist
import M3d.Lemmas.ParamExt
import M3d.Lemmas.ParamOutside
import M3d.Lemmas.ParamQT
import M3d.Lemmas.ParamSparse
import M3d.Lemmas.ParamCG
import M3d.Lemmas.ParamMirror
import Mathlib.Algebra.Module.LinearMap.Basic
import Mathlib.Tactic.NormNum
import Mathlib.Algebra.Order.Field.Rat
import Mathlib.Analysis.Real.Sqrt
/-!
# C18 — Surface parameterisations are valid, disjoint and invertible

Theorems about the models of `/repo/model3d/parameterization.go` in `M3d/Model/Param.lean`
(tied to the code by the correspondence harness `harness/cmd/c18`; see `notes/C18.md`).
Combinatorial statements hold for every policy (priority function, queue choice, stopping rule,
split index), numeric ones over every linear ordered field (so for ℚ, which the driver executes,
and ℝ).
-/
namespace M3d.C18
open M3d.Surface M3d.Param M3d.Sparse M3d.CG

variable {K : Type} [Field K] [LinearOrder K] [IsStrictOrderedRing K]

/-! ## Chart decomposition (`MeshToPlaneGraphs`, `SplitPlaneGraph`, `nextMeshPlaneGraphs`) -/

/-- **No triangle is lost or duplicated.**  For every policy `P` — every priority function, every
choice of the first triangle and of the queue node, every `maxSize`/`maxArea` stopping rule, every
split index of the sphere case — and every growth fuel, running the outer loop of
`MeshToPlaneGraphsLimited`/`SplitPlaneGraph` at least `|m|` times yields charts whose
concatenation is a permutation of the input mesh `m`: the loop terminates with nothing left (every
call of `nextMeshPlaneGraphs` removes at least one triangle) and every triangle ends in a chart. -/
theorem charts_partition (P : Policy) (hasExisting : Bool) (fuel n : Nat) (m : List Tri) (hn : m.length ≤ n) :
    (planeGraphs P hasExisting fuel n m).flatten.Perm m :=
  planeGraphs_perm P hasExisting fuel n m hn

/-- … hence, for a mesh without repeated faces, every triangle is in exactly one chart, once. -/
theorem charts_exactly_once (P : Policy) (hasExisting : Bool) (fuel n : Nat) (m : List Tri) (hn : m.length ≤ n)
    (hnd : m.Nodup) :
    (planeGraphs P hasExisting fuel n m).flatten.Nodup ∧
    ∀ t, t ∈ m ↔ ∃ c ∈ planeGraphs P hasExisting fuel n m, t ∈ c := by
  have hp := charts_partition P hasExisting fuel n m hn
  refine ⟨hp.nodup_iff.mpr hnd, fun t => ?_⟩
  rw [← hp.mem_iff, List.mem_flatten]

example : (planeGraphs (prioPolicy (fun _ t => (t.1 : Int)) (fun _ => (1 : Rat)) 0 none) false 100 4
    [(0, 1, 2), (0, 2, 3), (0, 3, 1), (1, 3, 2)]).length = 2 := by decide

/-- **The tracked boundary is the boundary of the chart, after every step.**  Whatever the policy
and the number `k` of iterations of the priority loop executed after the first triangle `t1`:
the segment set `segments` has no duplicate and contains exactly the segments used an odd number
of times by the chart's triangles, and the reference count `vertices[v]` equals the number of
tracked segments ending at `v`.  In a sub-mesh of an edge-manifold mesh (no segment used more than
twice) "odd" is "exactly once": the tracked set is exactly the chart's boundary. -/
theorem boundary_refcount_invariant (P : Policy) (m : List Tri) (t1 : Tri) (ht1 : t1 ∈ m) (k : Nat) :
    let st := growLoop P k (addTriangle P.prio (GState.init m) t1)
    st.bd.segs.Nodup ∧
    (∀ e, e ∈ st.bd.segs ↔ (segsAll st.tris).count e % 2 = 1) ∧
    (∀ v, st.bd.refcount v = (Param.ends st.bd.segs).count v) ∧
    ((∀ e, (segsAll st.tris).count e ≤ 2) → ∀ e, e ∈ st.bd.segs ↔ (segsAll st.tris).count e = 1) := by
  intro st
  have h0 := addTriangle_inv P.prio (GInv.init m) t1 (by simpa [GState.init] using ht1) (by simp [GState.init])
  have h : BdInv st.bd (segsAll st.tris) := (growLoop_inv P k _ h0).bd
  refine ⟨h.nodup, h.parity, fun v => h.vperm.count_eq v, ?_⟩
  intro hman e
  rw [h.parity e]
  have := hman e
  omega

/-- The queue never holds a triangle that already left the mesh, and chart ++ remaining mesh is
always a permutation of the input (the loop invariant behind `charts_partition`). -/
theorem growth_invariant (P : Policy) (m : List Tri) (t1 : Tri) (ht1 : t1 ∈ m) (k : Nat) :
    let st := growLoop P k (addTriangle P.prio (GState.init m) t1)
    (st.tris ++ st.rest).Perm m ∧ (∀ q ∈ st.queue, q.tri ∈ st.rest) ∧ (st.queue.map (·.tri)).Nodup := by
  intro st
  have h0 := addTriangle_inv P.prio (GInv.init m) t1 (by simpa [GState.init] using ht1) (by simp [GState.init])
  have h := growLoop_inv P k _ h0
  exact ⟨h.perm, h.qsub, h.qnodup⟩

/-- **A growth step keeps the Euler characteristic of a disc** (`_partial`: the Euler part and the
no-pinch part of `growth_keeps_disc` are proved — this theorem and `growth_keeps_boundary_simple`;
that the boundary stays ONE cycle is not derived combinatorially, it follows from `χ = 1` +
connectedness by the classification of surfaces and is checked on every real chart by the proved
decider `isDisc_sound`).

`ts` is the chart with tracked boundary `b`; the new non-degenerate triangle `(x,y,z)` shares
`k ≥ 1` segments with the boundary and passes the `wouldDivideBoundary` test; chart and triangle
lie in an edge-manifold mesh (no segment used more than twice) that is vertex-manifold (a corner
with reference count 0 is not yet a chart vertex).  Then `V − E + F` is unchanged for `k = 1`
(one new vertex, two new edges) and `k = 2` (one new edge), and grows by one for `k = 3` (the chart
closes into a sphere: the case `nextMeshPlaneGraphs` splits by cumulative area). -/
theorem growth_keeps_disc_partial (ts : List Tri) (b : Bd) (x y z : Nat) (h : BdInv b (segsAll ts))
    (hxy : x ≠ y) (hyz : y ≠ z) (hzx : z ≠ x)
    (hman : ∀ e, (segsAll (ts ++ [(x, y, z)])).count e ≤ 2)
    (hsat : ∀ v ∈ triVerts (x, y, z), b.refcount v = 0 → v ∉ vertsAll ts)
    (hshare : 1 ≤ sharedCount b (x, y, z)) (hwd : wouldDivide b (x, y, z) = false) :
    euler (ts ++ [(x, y, z)]) = euler ts + (if sharedCount b (x, y, z) = 3 then 1 else 0) :=
  euler_step ts b x y z h hxy hyz hzx hman hsat hshare hwd

/-- Non-vacuity: the second triangle of a square glued to the first along one edge. -/
example : euler ([(0, 1, 2)] ++ [(0, 2, 3)]) = euler [(0, 1, 2)] + 0 := by decide

/-- **The `wouldDivideBoundary` test never lets the boundary pinch.**  If every vertex has
reference count 0 or 2 — the tracked boundary is a disjoint union of simple closed curves — and
the new non-degenerate triangle passes the test, the same holds after `addTriangle`.  (Without
the test a triangle touching the boundary at a lone vertex would raise that count to 4.) -/
theorem growth_keeps_boundary_simple (b : Bd) (l : List Edge) (x y z : Nat) (h : BdInv b l)
    (hxy : x ≠ y) (hyz : y ≠ z) (hzx : z ≠ x)
    (hreg : ∀ v, b.refcount v = 0 ∨ b.refcount v = 2) (hwd : wouldDivide b (x, y, z) = false) :
    ∀ v, (b.addTri (x, y, z)).refcount v = 0 ∨ (b.addTri (x, y, z)).refcount v = 2 :=
  refcount_step b l x y z h hxy hyz hzx hreg hwd

/-- **The disc decider run on every real chart is sound**: `isDisc ts = true` proves that `ts` has
no degenerate face, uses every directed edge once, has a cycle or a path as every vertex link, is
connected, has exactly one simple boundary cycle and `V − E + F = 1`. -/
theorem disc_decider_sound (ts : List Tri) (h : isDisc ts = true) : Disc ts := isDisc_sound ts h

example : isDisc [(0, 1, 2), (0, 2, 3)] = true := by decide
example : isDisc [(0, 1, 2), (0, 2, 3), (0, 3, 1), (1, 3, 2)] = false := by decide

/-! ## The convex-combination system (`floater97`) -/

/-- **Every interior vertex is the weighted mean of its neighbours.**  `nbs` are the neighbours of
the centre `i` (variables or fixed boundary positions) with their weights; if `(x, y)` satisfies
the row `floaterRow nbs` assembled by `floater97` (diagonal −1, off-diagonals `wⱼ`, right-hand side
`−Σ wⱼ bⱼ` over boundary neighbours), the weights are non-negative (Go panics otherwise) and sum
to 1 (Go panics beyond `1e-4`; the library's weight functions normalise), then `(xᵢ, yᵢ)` is the
convex combination `Σ wⱼ pⱼ` of the neighbours' positions, which is their weighted mean. -/
theorem floater_row_convex_comb (nbs : List (Nb K)) (i : Nat) (x y : Nat → K)
    (hx : rowLhs (floaterRow nbs) i x = (floaterRow nbs).bias.x)
    (hy : rowLhs (floaterRow nbs) i y = (floaterRow nbs).bias.y)
    (hsum : totalWeight nbs = 1) :
    x i = wsum (nbPairsX nbs x) ∧ y i = wsum (nbPairsY nbs y) ∧
    wtot (nbPairsX nbs x) = 1 ∧ wtot (nbPairsY nbs y) = 1 ∧
    x i = weightedMean (nbPairsX nbs x) ∧ y i = weightedMean (nbPairsY nbs y) := by
  obtain ⟨h1, h2⟩ := floaterRow_solution nbs i x y hx hy
  have t1 : wtot (nbPairsX nbs x) = 1 := by rw [← totalWeight_eq]; exact hsum
  have t2 : wtot (nbPairsY nbs y) = 1 := by rw [← wtot_nbPairsXY nbs x y]; exact t1
  refine ⟨h1, h2, t1, t2, ?_, ?_⟩
  · unfold weightedMean; rw [t1, div_one]; exact h1
  · unfold weightedMean; rw [t2, div_one]; exact h2

example : rowLhs (floaterRow [Nb.fixed (⟨1, 0⟩ : V2 Rat) (1/2), Nb.fixed ⟨0, 1⟩ (1/2)]) 0 (fun _ => 1/2) =
    (floaterRow [Nb.fixed (⟨1, 0⟩ : V2 Rat) (1/2), Nb.fixed ⟨0, 1⟩ (1/2)]).bias.x := by decide +kernel

/-! ### The sparse matrix behind the system (`numerical.SparseMatrix`) -/

omit [LinearOrder K] [IsStrictOrderedRing K] in
/-- **Every row of a `SparseMatrix` owns its entries, however many there are.**  After ANY sequence `ops` of
`Set(row, col, value)` calls on `NewSparseMatrix(n)` — rows filled one after the other as `floater97` does, or
interleaved, rows of any length — row `i` enumerates (`Iterate`) exactly the calls with `row = i`, in the order they
were made, and component `i` of `Apply(x)` is `Σ x[col] · value` over exactly those calls: no entry spills into, or is
overwritten by, another row. -/
theorem sparse_rows_independent (n : Nat) (ops : List (Nat × Nat × K)) (x : List K) (i : Nat) (hi : i < n)
    (hx : i < x.length) :
    (SM.build n ops).entries i = ((ops.filter fun o => o.1 == i).map fun o => (o.2.1, o.2.2)) ∧
    ((SM.build n ops).apply x).getD i 0 = ((ops.filter fun o => o.1 == i).map fun o => x.getD o.2.1 0 * o.2.2).sum :=
  ⟨SM.entries_build n ops i hi, SM.apply_build n ops x i hi hx⟩

/-- Non-vacuity: row 0 receives 20 entries (all ones), then row 1 receives its own two: row 0 still sums 20 values. -/
example : ((SM.build 2 (((List.range 20).map fun j => (0, j, (1 : Rat))) ++ [(1, 1, -1), (1, 0, 1 / 2)])).apply
    ((List.range 20).map fun j => (j : Rat))) = [190, -1] ++ List.replicate 18 0 := by decide +kernel

omit [LinearOrder K] [IsStrictOrderedRing K] in
/-- **`Apply` computes `A·x`.**  For a matrix in the representation invariant whose row `i` has all its columns
inside the vector: component `i` of `Apply(x)` is `Σⱼ A[i][j]·x[j]` over ALL columns `j`, where `A[i][j]` (`SM.entry`) is
the value `Set` at `(i, j)` (`0` if none; the sum if the position was set more than once, which the documentation
of `Set` excludes). -/
theorem sparse_apply_is_matrix_product (s : SM K) (x : List K) (i : Nat) (hi : i < x.length)
    (hc : ∀ cv ∈ s.entries i, cv.1 < x.length) :
    (s.apply x).getD i 0 = ((List.range x.length).map fun j => s.entry i j * x.getD j 0).sum :=
  SM.apply_eq_matrix_product s x i hi hc

omit [LinearOrder K] [IsStrictOrderedRing K] in
/-- **`Apply` is a linear operator**: `A(x + y) = A x + A y` for vectors of equal length (`Vec.Add`) and
`A(x·c) = (A x)·c` (`Vec.Scale`) — the hypothesis under which `bicgstab_residual_invariant` speaks about the operator
`matrix.Apply` that `floater97` hands to the solver. -/
theorem sparse_apply_linear (s : SM K) (x y : List K) (h : x.length = y.length) (c : K) :
    s.apply (List.zipWith (· + ·) x y) = List.zipWith (· + ·) (s.apply x) (s.apply y) ∧
    s.apply (x.map (· * c)) = (s.apply x).map (· * c) :=
  SM.apply_linear s x y h c

omit [LinearOrder K] [IsStrictOrderedRing K] in
/-- **`Transpose()` is the transposed matrix and `Permute(perm)` the matrix with rows and columns permuted.**
`Aᵀ[j][i] = A[i][j]`, and row `j` of the transpose lists the entries of column `j` by ascending row; for `perm` a
permutation of `0..n−1` ("the result of applying the permutation to the list `[0...n-1]`") and a row whose columns
are `< n`: `Permute(perm)[i][k] = A[perm[i]][perm[k]]`. -/
theorem sparse_transpose_permute (s : SM K) :
    (∀ i j, i < s.size → j < s.size → s.transpose.entry j i = s.entry i j) ∧
    (∀ j, j < s.size → s.transpose.entries j =
      (List.range s.size).flatMap fun i => ((s.entries i).filter fun jx => jx.1 == j).map fun jx => (i, jx.2)) ∧
    (∀ (perm : List Nat) (i k pi pk : Nat), perm.Perm (List.range perm.length) → perm[i]? = some pi → perm[k]? = some pk →
      (∀ cv ∈ s.entries pi, cv.1 < perm.length) → (s.permute perm).entry i k = s.entry pi pk) :=
  ⟨fun i j hi hj => SM.entry_transpose s i j hi hj, fun j hj => SM.entries_transpose s j hj,
   fun perm i k pi pk hp hi hk hc => SM.entry_permute s perm hp i k pi pk hi hk hc⟩

/-- Non-vacuity: a 3×3 matrix with 5 entries; its transpose read row by row, and a cyclic permutation. -/
example : let m : SM Rat := SM.build 3 [(0, 2, 5), (0, 0, 1), (1, 1, 2), (2, 0, 3), (2, 1, 4)]
    m.transpose.entries 0 = [(0, 1), (2, 3)] ∧ m.transpose.entry 2 0 = 5 ∧ m.entry 0 2 = 5 ∧
    (m.permute [1, 2, 0]).entries 1 = [(2, 3), (0, 4)] ∧ m.apply [1, 10, 100] = [501, 20, 43] := by decide +kernel

omit [LinearOrder K] [IsStrictOrderedRing K] in
/-- **The operator `floater97` hands to the solver IS the system of the mesh, for every valence.**  `floaterSystem`
is the system of the mesh `ts` with boundary positions `bpos` and weights `w` (one row per vertex without a
boundary position: what the `system` kind compares, exactly, with the real assembled operator); `floaterMatrix`
is the `SparseMatrix` the `Set` calls of `floater97` build for it.  Component `k` of `matrix.Apply` at the
positions `x` of the unknowns is the left-hand side `−x(c) + Σ wⱼ x(j)` (over all interior neighbours `j` of the
`k`-th unknown `c`) of row `k` — the closure hypothesis of `floaterMatrix_apply` holds for every mesh
(`floaterSystem_closed`). -/
theorem floater_operator_is_the_system (ts : List Tri) (bpos : Nat → Option (V2 K)) (w : Nat → Nat → Option K)
    (sys : List (Nat × Row K)) (h : floaterSystem ts bpos w = some sys) (x : Nat → K) (k c : Nat) (r : Row K)
    (hk : sys[k]? = some (c, r)) :
    ((floaterMatrix sys).apply ((sys.map Prod.fst).map x)).getD k 0 = rowLhs r c x :=
  floaterMatrix_apply sys (floaterSystem_closed ts bpos w sys h).2.2 x k c r hk

/-- Non-vacuity: the fan of four triangles around vertex 2 over the square (the fixed case of the harness). -/
example : (floaterSystem [(2, 0, 1), (2, 1, 4), (2, 3, 0), (2, 4, 3)]
    (fun v => if v = 2 then none else some (⟨(v : Rat), 1⟩ : V2 Rat)) (fun _ _ => some (1 / 4 : Rat))).isSome = true := by
  decide +kernel

/-- **A solution of the system `floater97` hands to the solver places every interior vertex at the weighted mean of
its neighbours — for every valence.**  `nbss` lists the interior vertices in the order of `nonBoundary`, each with
its neighbours (interior = variable, or boundary = fixed position) and weights; every interior neighbour is itself
an unknown; the weights of a vertex sum to 1.  `floaterMatrix` is the `SparseMatrix` built by the `Set` calls of
`floater97` (`Set(k, k, −1)`, then `Set(k, index(neighbour), weight)` per interior neighbour).  If `x`, `y` solve
`matrix.Apply(x) = bias` for both coordinates — what `SolveLinearSystem(matrix.Apply, bias1d, …)` is asked to
return — then every interior vertex lies at the weighted mean of ALL its neighbours.  (Through
`floaterMatrix_apply`: component `k` of `Apply` is the row `floaterRow` of the `k`-th vertex whatever the number of
its neighbours, then `floater_row_convex_comb`.) -/
theorem floater_solution_is_weighted_mean (nbss : List (Nat × List (Nb K))) (x y : Nat → K)
    (hcl : ∀ cn ∈ nbss, ∀ j w, Nb.var j w ∈ cn.2 → j ∈ nbss.map Prod.fst)
    (hsum : ∀ cn ∈ nbss, totalWeight cn.2 = 1)
    (hx : (floaterMatrix (nbss.map fun cn => (cn.1, floaterRow cn.2))).apply ((nbss.map Prod.fst).map x) =
      nbss.map fun cn => (floaterRow cn.2).bias.x)
    (hy : (floaterMatrix (nbss.map fun cn => (cn.1, floaterRow cn.2))).apply ((nbss.map Prod.fst).map y) =
      nbss.map fun cn => (floaterRow cn.2).bias.y) :
    ∀ cn ∈ nbss, x cn.1 = weightedMean (nbPairsX cn.2 x) ∧ y cn.1 = weightedMean (nbPairsY cn.2 y) := by
  intro cn hcn
  obtain ⟨k, hk⟩ := List.getElem?_of_mem hcn
  have hfst : (nbss.map fun cn => (cn.1, floaterRow cn.2)).map Prod.fst = nbss.map Prod.fst := by
    rw [List.map_map]; rfl
  have hsk : (nbss.map fun cn => (cn.1, floaterRow cn.2))[k]? = some (cn.1, floaterRow cn.2) := by
    rw [List.getElem?_map, hk]; rfl
  have hcl' : ∀ cr ∈ (nbss.map fun cn => (cn.1, floaterRow cn.2)), ∀ jw ∈ cr.2.offs,
      jw.1 ∈ (nbss.map fun cn => (cn.1, floaterRow cn.2)).map Prod.fst := by
    intro cr hcr jw hjw
    obtain ⟨cn', hcn', rfl⟩ := List.mem_map.1 hcr
    rw [hfst]
    simp only [floaterRow_offs, List.mem_filterMap] at hjw
    obtain ⟨nb, hnb, he⟩ := hjw
    cases nb with
    | var j w =>
      simp only [Option.some.injEq] at he
      subst he
      exact hcl cn' hcn' j w hnb
    | fixed p w => simp at he
  have ax := floaterMatrix_apply _ hcl' x k cn.1 (floaterRow cn.2) hsk
  have ay := floaterMatrix_apply _ hcl' y k cn.1 (floaterRow cn.2) hsk
  rw [hfst] at ax ay
  rw [hx] at ax
  rw [hy] at ay
  have bx : (nbss.map fun cn => (floaterRow cn.2).bias.x).getD k 0 = (floaterRow cn.2).bias.x := by
    rw [List.getD_eq_getElem?_getD, List.getElem?_map, hk]; rfl
  have by' : (nbss.map fun cn => (floaterRow cn.2).bias.y).getD k 0 = (floaterRow cn.2).bias.y := by
    rw [List.getD_eq_getElem?_getD, List.getElem?_map, hk]; rfl
  rw [bx] at ax
  rw [by'] at ay
  have h := floater_row_convex_comb cn.2 cn.1 x y ax.symm ay.symm (hsum cn hcn)
  exact ⟨h.2.2.2.2.1, h.2.2.2.2.2⟩

/-- Non-vacuity: two interior vertices 0 and 1 that are neighbours of each other, each with one boundary neighbour
(at `(0,0)` resp. `(3,3)`), all weights `1/2`: `x = y = (1, 2)` solves the assembled system. -/
example : (floaterMatrix ([(0, [Nb.var 1 (1/2 : Rat), Nb.fixed ⟨0, 0⟩ (1/2)]), (1, [Nb.var 0 (1/2), Nb.fixed ⟨3, 3⟩ (1/2)])].map
      fun cn => (cn.1, floaterRow cn.2))).apply ([0, 1].map fun v => if v = 0 then (1 : Rat) else 2) =
    [(0, [Nb.var 1 (1/2 : Rat), Nb.fixed ⟨0, 0⟩ (1/2)]), (1, [Nb.var 0 (1/2), Nb.fixed ⟨3, 3⟩ (1/2)])].map
      fun cn => (floaterRow cn.2).bias.x := by decide +kernel


/-! ### The iterative solver (`numerical.BiCGSTAB`, `BiCGSTABSolver.SolveLinearSystem`) -/

omit [LinearOrder K] [IsStrictOrderedRing K] in
/-- **BiCGSTAB tracks the true residual, and its `terminate` flag means "exact".**  `A` is a linear operator on a
vector space over `K` (for `floater97`: `matrix.Apply`, linear by `sparse_apply_is_matrix_product`), `b` the
right-hand side, `guess` the optional initial guess; the inner product `dot` and the error sums are arbitrary, the
test `v.Norm() == 0` (`nz`) only succeeds on the zero vector, and `A` is non-singular.  After ANY number `k` of calls of
`Iter()`: as long as the flag is not set, the residual vector `r` the method works with is the true residual
`b − A·x` of the current solution `x`; once the flag is set — the exit `r.Norm() == 0` or the exit `t.Norm() == 0`
after the first half-step, which stores `h` — the current solution is exact: `A·x = b`. -/
theorem bicgstab_residual_invariant {V : Type} [AddCommGroup V] [Module K V] (A : V →ₗ[K] V) (b : V) (guess : Option V)
    (dot : V → V → K) (nz : V → Bool) (errs : V → K × K) (len : V → K) (isEmpty : V → Bool)
    (hnz : ∀ v, nz v = true → v = 0) (hinj : ∀ v, A v = 0 → v = 0) (k : Nat) :
    let st := iterN (modOps dot nz errs len isEmpty) A k (init (modOps dot nz errs len isEmpty) A b guess)
    (st.terminate = false → st.r = b - A st.x) ∧ (st.terminate = true → A st.x = b) :=
  iterN_inv dot nz errs len isEmpty A b hnz hinj k _ (init_inv dot nz errs len isEmpty A b guess)

omit [LinearOrder K] [IsStrictOrderedRing K] in
/-- **What `SolveLinearSystem` returns.**  For a non-empty system and `MaxIters > 0`: the returned vector is the
solution after `j + 1 ≤ MaxIters` calls of `Iter()`; if the loop left before the budget was used up, the stopping
test (`sqErr < MSETolerance·n` or `absErr < MAETolerance·n`, evaluated on the TRUE residual `A·sol − b`) had passed
on exactly that vector; and if BiCGSTAB had set its `terminate` flag by then, the vector is an exact solution. -/
theorem bicgstab_solver_returns_an_iterate {V : Type} [AddCommGroup V] [Module K V] (A : V →ₗ[K] V) (b : V)
    (guess : Option V) (dot : V → V → K) (nz : V → Bool) (errs : V → K × K) (len : V → K) (isEmpty : V → Bool)
    (isNaN : K → Bool) (lt : K → K → Bool) (maxIters : Nat) (mseTol maeTol : K) (tolOn : Bool) (sol : V)
    (hnz : ∀ v, nz v = true → v = 0) (hinj : ∀ v, A v = 0 → v = 0) (hne : isEmpty b = false) (hmax : 0 < maxIters)
    (h : solve (modOps dot nz errs len isEmpty) isNaN lt A b guess maxIters mseTol maeTol tolOn = some sol) :
    ∃ j, j < maxIters ∧
      sol = (iterN (modOps dot nz errs len isEmpty) A (j + 1) (init (modOps dot nz errs len isEmpty) A b guess)).x ∧
      (j + 1 < maxIters → tolOn = true ∧
        stopTest (modOps dot nz errs len isEmpty) isNaN lt A b mseTol maeTol sol = some true) ∧
      ((iterN (modOps dot nz errs len isEmpty) A (j + 1) (init (modOps dot nz errs len isEmpty) A b guess)).terminate = true →
        A sol = b) := by
  unfold solve at h
  rw [show (modOps dot nz errs len isEmpty).isEmpty b = false from hne] at h
  simp only [Bool.false_eq_true, if_false] at h
  rcases solveLoop_spec _ isNaN lt A b mseTol maeTol tolOn maxIters _ _ sol h with ⟨h0, _⟩ | ⟨j, hj, hs, ht⟩
  · omega
  · refine ⟨j, hj, hs, ht, fun hterm => ?_⟩
    rw [hs]
    exact (bicgstab_residual_invariant A b guess dot nz errs len isEmpty hnz hinj (j + 1)).2 hterm

/-- Non-vacuity: the 1×1 system `2·x = 4` over ℚ: one call of `Iter()` leaves through the `t.Norm() == 0` exit with
the exact solution `h = 2`. -/
example : let o : VOps ℚ ℚ := modOps (fun u v => u * v) (fun v => v == 0) (fun v => (v * v, |v|)) (fun _ => 1) (fun _ => false)
    let A : ℚ →ₗ[ℚ] ℚ := (2 : ℚ) • LinearMap.id
    (iterN o A 1 (init o A 4 none)).x = 2 ∧ (iterN o A 1 (init o A 4 none)).terminate = true := by
  norm_num [iterN, iter, init, modOps, exitT, fullStep, tOf, sOf, hOf, vOf, pOf, alphaOf, rhoOf, wOf]

/-- **A solve never touches the caller's boundary map, however many solves share it.**  `h` is the
heap of `CoordMap`s, `bref` the boundary pointer every solve of the history receives, `sols` one
solution oracle per solve (different weightings, `Floater97` followed by the solves of
`StretchMinimizingParameterization`, … — whatever the solver returned).  After the whole history:
every map that existed before — in particular `*bref` — is unchanged; there is one fresh result
map per solve; and the `k`-th result is the boundary map extended by the `k`-th solution: it equals
the boundary map on the boundary and holds the solved position at every other mesh vertex (so the
set of unknowns of every solve is the same: the vertices without an entry in the ORIGINAL boundary
map, and the weighted-mean equation of `floater_row_convex_comb` is about this call's weights). -/
theorem floater_history_keeps_boundary {β : Type} (h : Heap β) (bref : Nat) (verts : List Nat) (sols : List (Nat → β))
    (hb : bref < h.length) (hwf : ((h.get bref).map Prod.fst).Nodup) :
    (solveHist bref verts h sols).1.get bref = h.get bref ∧
    (∀ r, r < h.length → (solveHist bref verts h sols).1.get r = h.get r) ∧
    List.Forall₂ (fun sol rr => h.length ≤ rr ∧
        (∀ v p, (h.get bref).load v = some p → ((solveHist bref verts h sols).1.get rr).load v = some p) ∧
        (∀ v, (h.get bref).load v = none → v ∈ verts → ((solveHist bref verts h sols).1.get rr).load v = some (sol v)) ∧
        (∀ v, (h.get bref).load v = none → v ∉ verts → ((solveHist bref verts h sols).1.get rr).load v = none))
      sols (solveHist bref verts h sols).2 := by
  obtain ⟨h1, _, h3⟩ := solveHist_spec bref verts sols h hb hwf
  refine ⟨h1 bref hb, h1, h3.imp ?_⟩
  intro sol rr ⟨a1, _, a3⟩
  refine ⟨a1, fun v p hv => ?_, fun v hv hm => ?_, fun v hv hm => ?_⟩
  · rw [a3 v]; simp [resultSpec, hv]
  · rw [a3 v]; simp [resultSpec, hv, hm]
  · rw [a3 v]; simp [resultSpec, hv, hm]

/-- Non-vacuity: two solves over the boundary map `{0 ↦ 10, 1 ↦ 11}` of a mesh with vertices 0, 1, 2. -/
example : (solveHist 0 [0, 1, 2] [[(0, 10), (1, 11)]] [fun _ => (7 : Nat), fun _ => 8]) =
    ([[(0, 10), (1, 11)], [(0, 10), (1, 11), (2, 7)], [(0, 10), (1, 11), (2, 8)]], [1, 2]) := by decide

/-- **A weighted mean with non-negative weights lies in the axis-aligned hull of its points.** -/
theorem weighted_mean_in_hull (l : List (K × K)) (lo hi : K) (hw : ∀ q ∈ l, 0 ≤ q.1) (hpos : 0 < wtot l)
    (hlo : ∀ q ∈ l, lo ≤ q.2) (hhi : ∀ q ∈ l, q.2 ≤ hi) :
    lo ≤ weightedMean l ∧ weightedMean l ≤ hi :=
  weightedMean_mem_hull l lo hi hw hpos hlo hhi

/-- **Discrete maximum principle.**  `V` is the vertex set, `B` the boundary predicate, `nbr i` the
weighted neighbours of interior vertex `i` (positive weights summing to 1, neighbours in `V`), `val`
a coordinate of a solution (every interior vertex is the weighted mean of its neighbours) and every
interior vertex is connected to the boundary.  Then the maximum of `val` is attained on the
boundary: every vertex is `≤` some boundary vertex.  (Applied to `±x`, `±y`, and to any linear
functional: the parameterisation stays inside the convex hull of the boundary polygon.) -/
theorem discrete_maximum_principle (V : List Nat) (B : Nat → Prop) (nbr : Nat → List (K × Nat)) (val : Nat → K)
    (hclosed : ∀ i ∈ V, ¬ B i → ∀ q ∈ nbr i, q.2 ∈ V)
    (hpos : ∀ i ∈ V, ¬ B i → ∀ q ∈ nbr i, 0 < q.1)
    (hsum : ∀ i ∈ V, ¬ B i → wtot ((nbr i).map fun q => (q.1, val q.2)) = 1)
    (hmean : ∀ i ∈ V, ¬ B i → val i = wsum ((nbr i).map fun q => (q.1, val q.2)))
    (hreach : ∀ i ∈ V, ¬ B i → ReachB nbr B i) :
    ∀ v ∈ V, ∃ b ∈ V, B b ∧ val v ≤ val b := by
  intro v hv
  obtain ⟨m, hm, hmax⟩ := exists_max_of_ne_nil V val (List.ne_nil_of_mem hv)
  by_cases hB : B m
  · exact ⟨m, hm, hB, hmax v hv⟩
  · obtain ⟨b, hb, hBb, hval⟩ := max_reaches_boundary V B nbr val hclosed hpos hsum hmean (val m) hmax m
      (hreach m hm hB) hm hB rfl
    exact ⟨b, hb, hBb, by rw [hval]; exact hmax v hv⟩

/-- **Arc-length placement is strictly monotone.**  `CircleBoundary` places boundary vertex `i+1`
at the angle `2π · tᵢ` with `tᵢ = (l₀+…+lᵢ)/Σl`.  For positive segment lengths the parameters are
strictly increasing and lie in `(0, 1]`: the boundary vertices go to distinct points that follow each
other once around the (strictly convex) circle / p-norm circle, i.e. to a convex polygon in the
order of the boundary cycle. -/
theorem arc_params_increasing (ls : List K) (hpos : ∀ l ∈ ls, 0 < l) (hne : ls ≠ []) :
    (arcParams ls).Pairwise (· < ·) ∧ ∀ t ∈ arcParams ls, 0 < t ∧ t ≤ 1 := by
  have htot : 0 < ls.foldl (· + ·) 0 := by
    cases ls with
    | nil => exact absurd rfl hne
    | cons l r =>
      have h1 := runSums_gt (l :: r) 0 hpos (0 + l) (by simp [runSums])
      have h2 := runSums_le_total (l :: r) 0 hpos (0 + l) (by simp [runSums])
      exact lt_of_lt_of_le h1 h2
  unfold arcParams
  simp only
  constructor
  · rw [List.pairwise_map]
    exact (runSums_pairwise ls 0 hpos).imp fun {a b} hab => div_lt_div_of_pos_right hab htot
  · intro t ht
    obtain ⟨x, hx, rfl⟩ := List.mem_map.mp ht
    exact ⟨div_pos (runSums_gt ls 0 hpos x hx) htot, (div_le_one htot).mpr (runSums_le_total ls 0 hpos x hx)⟩

/-! ## The UV validity checker (run in ℚ on the real solver and atlas outputs) -/

/-- **Soundness of `uvValid`.**  If the checker accepts, then either the triangles as given or all
of them with two corners swapped (i.e. all clockwise) are: strictly counter-clockwise (so all UV
triangles have the same non-zero orientation — none is flipped or degenerate), pairwise
interior-disjoint (no point is a strict convex combination of the corners of two of them), and
have all corners in `[lo, hi]²`.  Tutte's theorem itself (convex boundary + positive weights ⇒ no
flip) is NOT proved; this decider is run in exact arithmetic on every real output instead. -/
theorem uvValid_sound (lo hi : K) (ts : List (Tri2 K)) (h : uvValid lo hi ts = true) :
    UVValidCCW lo hi ts ∨ UVValidCCW lo hi (ts.map Tri2.flip) := by
  simp only [uvValid, Bool.or_eq_true] at h
  rcases h with h | h
  · exact Or.inl (uvValidCCW_sound lo hi ts h)
  · exact Or.inr (uvValidCCW_sound lo hi _ h)

example : uvValid (0 : Rat) 1 [⟨⟨0, 0⟩, ⟨1, 0⟩, ⟨1, 1⟩⟩, ⟨⟨0, 0⟩, ⟨1, 1⟩, ⟨0, 1⟩⟩] = true := by decide +kernel
example : uvValid (0 : Rat) 1 [⟨⟨0, 0⟩, ⟨1, 0⟩, ⟨1, 1⟩⟩, ⟨⟨1, 0⟩, ⟨1, 1⟩, ⟨0, 1⟩⟩] = false := by decide +kernel

/-! ## The atlas (`newParamQuadTree`, `Joined`, `ToBounds`) -/

/-- **Quad-tree cells are disjoint and inside the root; borders shrink them inside their cells.**
For every tree shape and every valid root rectangle: the cells assigned to different leaves have
disjoint interiors, every cell lies in the root, and (for a border `≥ 0`) the target rectangle of
every chart — its cell shrunk by the border, as `Joined` passes to `ToBounds` — lies inside its
cell, hence inside the root, and target rectangles of different charts are interior-disjoint
whenever they are valid (`min ≤ max`; otherwise `ToBounds` panics). -/
theorem quadtree_cells_disjoint_in_unit (t : QT) (r : Rect K) (hv : r.Valid) (border : K) (hb : 0 ≤ border) :
    (cells r t).Pairwise (fun c d => c.2.IntDisj d.2) ∧
    (∀ c ∈ cells r t, c.2.Valid ∧ c.2.Sub r) ∧
    (∀ c ∈ joined border r t, c.2.Sub r) ∧
    (joined border r t).Pairwise (fun c d => c.2.Valid → d.2.Valid → c.2.IntDisj d.2) := by
  refine ⟨cells_pairwise t r hv, cells_sub t r hv, ?_, ?_⟩
  · intro c hc
    obtain ⟨c0, hc0, rfl⟩ := List.mem_map.mp hc
    exact (shrink_sub c0.2 border hb).trans (cells_sub t r hv c0 hc0).2
  · unfold joined
    rw [List.pairwise_map]
    exact (cells_pairwise t r hv).imp fun {c d} hcd vc vd =>
      hcd.mono (shrink_sub c.2 border hb) (shrink_sub d.2 border hb) vc vd

example : (joined (1/8 : Rat) ⟨⟨0, 0⟩, ⟨1, 1⟩⟩ (.n4 (.leaf 0) (.leaf 1) (.n2 (.leaf 2) (.leaf 3)) .empty)).length = 4 := by
  decide +kernel


/-- **Every chart gets exactly one cell of the atlas.**  `PackMeshUVMaps` sorts the charts by decreasing 3-D area
(`sortDesc`), builds the quad tree (`buildParamQuadTree`: greedy four-way assignment by the smallest total area,
recursively) and `Joined` hands every leaf its cell.  For charts of positive area the recursion terminates —
the first four charts go to four different piles, so every pile is strictly smaller than the list; fuel
`length + 1`, what the driver uses, suffices — and the chart ids of the cells are a permutation of the chart
ids: no chart is left without a cell and none gets two.  Together with `quadtree_cells_disjoint_in_unit`: the
charts land in pairwise disjoint rectangles inside the target box.  (Five or more charts of area 0 in one pile
make the Go recursion run forever: observation (a) of notes/C18.md.) -/
theorem atlas_every_chart_gets_one_cell (ps : List (Nat × K)) (hp : ∀ p ∈ ps, 0 < p.2) (border : K) (r : Rect K) :
    ((joined border r (buildQT (ps.length + 1) (sortDesc ps))).map Prod.fst).Perm (ps.map Prod.fst) := by
  rw [joined_ids]
  have hperm := sortDesc_perm ps
  have h := buildQT_ids_perm (ps.length + 1) (sortDesc ps)
    (fun p hpm => hp p (hperm.mem_iff.1 hpm)) (by rw [hperm.length_eq]; exact Nat.lt_succ_self _)
  exact h.trans (hperm.map _)

/-- Non-vacuity: six charts with distinct positive areas. -/
example : ((joined (1/16 : Rat) ⟨⟨0, 0⟩, ⟨1, 1⟩⟩
    (buildQT 7 (sortDesc [(0, 3), (1, 7), (2, 1), (3, 5), (4, 2), (5, 9)]))).map Prod.fst) = [5, 1, 3, 2, 0, 4] := by
  decide +kernel

/-- **The automatic atlas covers every triangle exactly once.**  `BuildAutomaticUVMap` decomposes the
mesh with `MeshToPlaneGraphsLimited` and hands every disc to `handleDisc`, which either appends it
to the atlas or replaces it by the pieces of `SplitPlaneGraph` (recursively, for every recursion
bound).  Whatever the stretch / area / validity oracle `want` decides — in particular for an
over-stretched disc that cannot be split any further (tiny area share, single triangle, depth
limit) — the appended charts'
concatenation is a permutation of the mesh: no triangle is left without a chart, none is in two.
Both decompositions are instances of `planeGraphs` (`charts_partition`), for every policy. -/
theorem atlas_covers_every_triangle_once (P Q : Policy) (fuel dfuel : Nat) (want : Nat → List Tri → Bool) (m : List Tri) :
    (atlasCharts (fun m => planeGraphs P false fuel m.length m) (fun d => planeGraphs Q true fuel d.length d)
      want dfuel m).flatten.Perm m :=
  atlasCharts_perm _ _ want dfuel m (charts_partition P false fuel m.length m (Nat.le_refl _))
    (fun d => charts_partition Q true fuel d.length d (Nat.le_refl _))

/-- … stated for any decomposition functions that partition their input. -/
theorem atlas_recursion_partitions (first split : List Tri → List (List Tri)) (want : Nat → List Tri → Bool) (dfuel : Nat)
    (m : List Tri) (hf : (first m).flatten.Perm m) (hs : ∀ d, (split d).flatten.Perm d) :
    (atlasCharts first split want dfuel m).flatten.Perm m ∧
    (m.Nodup → (atlasCharts first split want dfuel m).flatten.Nodup) := by
  have hp := atlasCharts_perm first split want dfuel m hf hs
  exact ⟨hp, fun hnd => hp.nodup_iff.mpr hnd⟩

/-- Non-vacuity: a disc of two triangles that the oracle always wants split ends as two single-triangle charts. -/
example : atlasCharts (fun m => [m]) (fun d => d.map fun t => [t]) (fun _ _ => true) 8 [(0, 1, 2), (0, 2, 3)] =
    [[(0, 1, 2)], [(0, 2, 3)]] := by decide

/-- **`ToBounds` is an affine map of the chart's bounding box onto its cell.**  Per coordinate:
it is `c ↦ s·c + t` with `s = (max−min)/(oldMax−oldMin)`, sends `oldMin ↦ min` and (box
non-degenerate) `oldMax ↦ max`, maps the old interval into the new one, and is inverted by the
`ToBounds` of the opposite direction when both boxes are non-degenerate — an affine bijection. -/
theorem to_bounds_affine (omin omax nmin nmax : K) (ho : omin < omax) (hn : nmin < nmax) :
    (∀ c, toBounds1 omin omax nmin nmax c =
      ((nmax - nmin) / (omax - omin)) * c + (nmin - omin * ((nmax - nmin) / (omax - omin)))) ∧
    toBounds1 omin omax nmin nmax omin = nmin ∧ toBounds1 omin omax nmin nmax omax = nmax ∧
    (∀ c, omin ≤ c → c ≤ omax → nmin ≤ toBounds1 omin omax nmin nmax c ∧ toBounds1 omin omax nmin nmax c ≤ nmax) ∧
    (∀ c, toBounds1 nmin nmax omin omax (toBounds1 omin omax nmin nmax c) = c) ∧
    (∀ c, toBounds1 omin omax nmin nmax (toBounds1 nmin nmax omin omax c) = c) :=
  ⟨fun c => toBounds1_affine omin omax nmin nmax c, toBounds1_lo omin omax nmin nmax,
   toBounds1_hi omin omax nmin nmax (ne_of_gt ho),
   fun c h1 h2 => toBounds1_mem omin omax nmin nmax c ho (le_of_lt hn) h1 h2,
   fun c => toBounds1_inverse omin omax nmin nmax c (ne_of_gt ho) (ne_of_gt hn),
   fun c => toBounds1_inverse nmin nmax omin omax c (ne_of_gt hn) (ne_of_gt ho)⟩

/-! ## `MapFn` -/

/-- **Barycentric round trip.**  For a non-degenerate UV triangle `u` and the UV point
`p = αA' + βB' + γC'` (`α+β+γ = 1`), `Triangle.Barycentric` (as `NewTriangle` sets it up:
adjugate divided by the determinant) returns exactly `(α, β, γ)`, and `MapFn` returns
`Triangle.AtBarycentric` of the 3-D triangle, i.e. `αA + βB + γC`: the point with the same
barycentric position in the corresponding triangle. -/
theorem mapfn_barycentric_roundtrip (u : Tri2 K) (t : Tri3 K) (α β γ : K) (hsum : α + β + γ = 1)
    (hdet : u.orient ≠ 0) :
    bary2 u (atBary2 u (α, β, γ)) = (α, β, γ) ∧
    atBary3 t (bary2 u (atBary2 u (α, β, γ))) =
      ⟨α * t.a.x + β * t.b.x + γ * t.c.x, α * t.a.y + β * t.b.y + γ * t.c.y, α * t.a.z + β * t.b.z + γ * t.c.z⟩ := by
  have h := bary2_roundtrip u α β γ hsum (by simpa [Tri2.orient, orient] using hdet)
  exact ⟨h, by rw [h, atBary3_eq]⟩

/-- **… also when the UV corners run clockwise.**  The round trip above asks for a non-degenerate UV
triangle, not for a counter-clockwise one: for a mirrored chart (V pointing down, a U-mirrored half of
a symmetric model) or a triangle stored with its corners the other way round, `Barycentric` returns
the weights `(α, β, γ)` *in the stored corner order*, and `AtBarycentric` of the 3-D triangle — same
stored order — is `αA + βB + γC`. -/
theorem mapfn_clockwise_roundtrip (u : Tri2 K) (t : Tri3 K) (α β γ : K) (hsum : α + β + γ = 1)
    (hcw : u.orient < 0) :
    bary2 u (atBary2 u (α, β, γ)) = (α, β, γ) ∧
    atBary3 t (bary2 u (atBary2 u (α, β, γ))) =
      ⟨α * t.a.x + β * t.b.x + γ * t.c.x, α * t.a.y + β * t.b.y + γ * t.c.y, α * t.a.z + β * t.b.z + γ * t.c.z⟩ :=
  mapfn_barycentric_roundtrip u t α β γ hsum (ne_of_lt hcw)

example : (⟨⟨0, 0⟩, ⟨0, 1⟩, ⟨1, 0⟩⟩ : Tri2 Rat).orient < 0 ∧
    bary2 (⟨⟨0, 0⟩, ⟨0, 1⟩, ⟨1, 0⟩⟩ : Tri2 Rat) ⟨1 / 4, 1 / 2⟩ = (1 / 4, 1 / 2, 1 / 4) := by decide +kernel

omit [LinearOrder K] [IsStrictOrderedRing K] in
/-- **The answer does not depend on how the chart lies in the UV plane.**  Send a UV triangle and the
query through the same invertible affine map `f` of the plane — a mirror (`det f = −1`), a rotation,
the rescaling of `ToBounds`, any composition: `Triangle.Barycentric` computes the same three weights,
so `MapFn` interpolates the same 3-D point.  In particular a mirrored map must answer the mirrored
query with the point the original map gives. -/
theorem mapfn_barycentric_affine_invariant (f : Aff2 K) (hf : f.det ≠ 0) (u : Tri2 K) (t : Tri3 K) (p : V2 K) :
    bary2 (Tri2.mapAff f u) (f.apply p) = bary2 u p ∧
    atBary3 t (bary2 (Tri2.mapAff f u) (f.apply p)) = atBary3 t (bary2 u p) := by
  rw [bary2_mapAff f hf]; exact ⟨rfl, rfl⟩

/-- **A mirrored map gives the same answers (whole containment branch).**  For the V mirror
`v ↦ c − v` (`c = 1`: image convention), the U mirror `u ↦ c − u` and the transposition `u ↔ v` — they
generate the symmetries of the square — `MapFn` of the mirrored map at the mirrored query returns the
same 3-D point and the same triangle index as `MapFn` of the original map at the original query:
the bounding-box pre-test, the containment test and the weights all agree, for every list of UV
triangles (any orientation, any order) and every query. -/
theorem mapfn_mirrored_map_same_answer (c : K) (uv : List (Tri2 K)) (t3 : List (Tri3 K)) (p : V2 K) :
    mapFn (uv.map (Tri2.mapAff (Aff2.mirrorV c))) t3 ((Aff2.mirrorV c).apply p) = mapFn uv t3 p ∧
    mapFn (uv.map (Tri2.mapAff (Aff2.mirrorU c))) t3 ((Aff2.mirrorU c).apply p) = mapFn uv t3 p ∧
    mapFn (uv.map (Tri2.mapAff Aff2.transpose)) t3 ((Aff2.transpose (K := K)).apply p) = mapFn uv t3 p :=
  ⟨mapFn_mapAff _ (by rw [det_mirrorV]; norm_num) (inBounds2_mirrorV c) uv t3 p,
   mapFn_mapAff _ (by rw [det_mirrorU]; norm_num) (inBounds2_mirrorU c) uv t3 p,
   mapFn_mapAff _ (by rw [det_transpose]; norm_num) inBounds2_transpose uv t3 p⟩

example : mapFn [(⟨⟨0, 1⟩, ⟨1, 1⟩, ⟨0, 0⟩⟩ : Tri2 Rat)] [⟨⟨0, 0, 0⟩, ⟨4, 0, 0⟩, ⟨0, 8, 0⟩⟩] ⟨1 / 4, 1 / 2⟩ =
      some (⟨1, 4, 0⟩, 0) ∧
    mapFn [(⟨⟨0, 0⟩, ⟨1, 0⟩, ⟨0, 1⟩⟩ : Tri2 Rat)] [⟨⟨0, 0, 0⟩, ⟨4, 0, 0⟩, ⟨0, 8, 0⟩⟩] ⟨1 / 4, 1 / 2⟩ =
      some (⟨1, 4, 0⟩, 0) := by decide +kernel

/-- **The weights belong to the stored corner order.**  Exchanging corners 1 and 2 of the UV triangle
exchanges the weights 1 and 2.  Applied to the 3-D triangle with the same two corners exchanged this
is the same 3-D point (a consistently relabelled map is the same map); applied to the 3-D triangle in
its ORIGINAL order it is the point moved by `(w₂ − w₁)·(B − C)` — a different point unless the query
lies on the median through corner 0 or `B = C`.  So a lookup structure that reorders the corners of a
clockwise UV triangle has to reorder the 3-D corners as well. -/
theorem mapfn_weights_follow_corner_order (u : Tri2 K) (t : Tri3 K) (p : V2 K) :
    bary2 u.flip p = ((bary2 u p).1, (bary2 u p).2.2, (bary2 u p).2.1) ∧
    atBary3 t.flip (bary2 u.flip p) = atBary3 t (bary2 u p) ∧
    atBary3 t (bary2 u.flip p) =
      ⟨(atBary3 t (bary2 u p)).x + ((bary2 u p).2.2 - (bary2 u p).2.1) * (t.b.x - t.c.x),
       (atBary3 t (bary2 u p)).y + ((bary2 u p).2.2 - (bary2 u p).2.1) * (t.b.y - t.c.y),
       (atBary3 t (bary2 u p)).z + ((bary2 u p).2.2 - (bary2 u p).2.1) * (t.b.z - t.c.z)⟩ := by
  refine ⟨bary2_flip u p, ?_, ?_⟩
  · rw [bary2_flip]
    exact atBary3_flip t _ _ _
  · rw [bary2_flip]
    obtain ⟨w0, w1, w2⟩ := bary2 u p
    rw [atBary3_eq, atBary3_eq]
    simp only [V3.mk.injEq]
    refine ⟨?_, ?_, ?_⟩ <;> ring

omit [IsStrictOrderedRing K] in
/-- `findContains` only returns a triangle of the list whose computed barycentric coordinates of
the query are all `≥ 0`; `mapFn` interpolates in the 3-D triangle with the same index. -/
theorem mapfn_returns_containing (uv : List (Tri2 K)) (p : V2 K) (i : Nat) (w : K × K × K)
    (h : findContains uv p = some (i, w)) :
    ∃ u, uv[i]? = some u ∧ w = bary2 u p ∧ 0 ≤ w.1 ∧ 0 ≤ w.2.1 ∧ 0 ≤ w.2.2 := by
  unfold findContains at h
  have key : ∀ (l : List (Tri2 K)) (k : Nat), findContains.go p k l = some (i, w) →
      ∃ u, l[i - k]? = some u ∧ k ≤ i ∧ w = bary2 u p ∧ 0 ≤ w.1 ∧ 0 ≤ w.2.1 ∧ 0 ≤ w.2.2 := by
    intro l
    induction l with
    | nil => intro k hk; simp [findContains.go] at hk
    | cons t r ih =>
      intro k hk
      simp only [findContains.go] at hk
      split at hk
      · rename_i hc
        simp only [Option.some.injEq, Prod.mk.injEq] at hk
        obtain ⟨rfl, rfl⟩ := hk
        simp only [Bool.and_eq_true, Bool.not_eq_true', decide_eq_false_iff_not, not_lt] at hc
        exact ⟨t, by simp, Nat.le_refl _, rfl, hc.1.1.2, hc.1.2, hc.2⟩
      · obtain ⟨u, hu, hk1, hw⟩ := ih (k + 1) hk
        refine ⟨u, ?_, by omega, hw⟩
        have : i - k = (i - (k + 1)) + 1 := by omega
        rw [this, List.getElem?_cons_succ]; exact hu
  obtain ⟨u, hu, _, hw⟩ := key uv 0 h
  exact ⟨u, by simpa using hu, hw⟩

/-! ## `MapFn` for a UV point outside every UV triangle: the nearest triangle -/

omit [Field K] [IsStrictOrderedRing K] in
/-- **The pruned nearest search equals the linear scan, for every sound bound.**  `nearestGo` is
`tri2dLookup.findNearest`: at every inner node the child with the smaller bound value is searched
first and the loop `break`s at the first child whose bound value exceeds the best key so far.
For every hierarchy `t`, every bound function `lb` and key function `key` such that each node's
bound value is at most the key of every item below it: the search is the linear scan
(`scanBest`: first item of smallest key) over a permutation of the items — the order in which this
query visits them — and returns an item whose key is smallest among ALL items.  (Instance of the
generic `Prune.Forest.search_eq_foldl` of C08.) -/
theorem mapfn_nearest_search_eq_scan {ι β : Type} (lb : β → K) (key : ι → K) (t : NTree ι β)
    (hs : t.Sound fun b i => lb b ≤ key i) :
    nearestGo lb key t none = scanBest key (Prune.Forest.items (NTree.kids lb t)) ∧
    (Prune.Forest.items (NTree.kids lb t)).Perm t.items ∧
    ∃ i, nearestGo lb key t none = some (i, key i) ∧ i ∈ t.items ∧ ∀ j ∈ t.items, key i ≤ key j := by
  have hperm := kids_items_perm lb t
  have hne : Prune.Forest.items (NTree.kids lb t) ≠ [] := fun h0 =>
    NTree.items_ne_nil t (List.Perm.eq_nil (h0 ▸ hperm.symm))
  obtain ⟨i, he, hm, hall⟩ := scanBest_min key _ hne
  refine ⟨nearestGo_eq_scan lb key t hs, hperm, i, ?_, hperm.mem_iff.1 hm, fun j hj => hall j (hperm.mem_iff.2 hj)⟩
  rw [nearestGo_eq_scan lb key t hs, he]

/-- Non-vacuity: three items under sound bounds; the second child is searched first and the first is pruned. -/
example : nearestGo (fun b : Nat => b) (fun i : Nat => i) (.node 0 (.node 5 (.leaf 7 7) (.leaf 5 5)) (.leaf 2 2)) none = some (2, 2) := by
  decide

/-- **The hierarchy `newTri2dLookup` builds is sound for the `Rect.SDF` bound, for every query and
every order of the triangles**: its items are the triangles in the given order and every node's
bound value `rectLB` is at most the squared boundary distance of every triangle below it. -/
theorem mapfn_lookup_tree_sound (f : Nat) (l : List (Tri2 K × Nat)) (t : NTree (Tri2 K × Nat) (Rect K)) (p : V2 K)
    (h : buildTree (fun (it : Tri2 K × Nat) => triBounds it.1) Rect.join f l = some t) :
    t.items = l ∧ t.Sound (fun r it => rectLB r p ≤ (triNearest it.1 p).1) :=
  tri2dTree_sound f l t p h

/-- **`MapFn` at a point outside every UV triangle returns the NEAREST triangle and its nearest
point.**  If no UV triangle contains `p` (`findContains = none`) and `Find` returns triangle `i` with
coordinates `w`, then `w` are the barycentric coordinates `genericSDF` reports for triangle `i` —
non-negative, summing to 1, i.e. a point of that triangle, at squared distance `(triNearest u p).1`
from `p` — and no triangle of the map has a boundary point closer to `p` than that. -/
theorem mapfn_outside_returns_nearest (ts : List (Tri2 K)) (p : V2 K) (i : Nat) (w : K × K × K)
    (hout : findContains ts p = none) (h : findUV ts p = some (i, w)) :
    ∃ u, ts[i]? = some u ∧ w = (triNearest u p).2 ∧
      0 ≤ w.1 ∧ 0 ≤ w.2.1 ∧ 0 ≤ w.2.2 ∧ w.1 + w.2.1 + w.2.2 = 1 ∧
      dist2 (atBary2 u w) p = (triNearest u p).1 ∧
      ∀ u' ∈ ts, (triNearest u p).1 ≤ (triNearest u' p).1 := by
  unfold findUV at h
  rw [hout] at h
  simp only at h
  split at h
  · exact absurd h (by simp)
  · rename_i tree htree
    obtain ⟨hitems, hsound⟩ := tri2dTree_sound _ _ tree p htree
    obtain ⟨_, _, it, he, hm, hall⟩ := mapfn_nearest_search_eq_scan (fun r => rectLB r p)
      (fun (it : Tri2 K × Nat) => (triNearest it.1 p).1) tree hsound
    rw [he] at h
    simp only [Option.map_some, Option.some.injEq, Prod.mk.injEq] at h
    obtain ⟨rfl, rfl⟩ := h
    rw [hitems] at hm hall
    obtain ⟨b1, b2, b3, b4, b5⟩ := triNearest_point it.1 p
    refine ⟨it.1, List.mem_zipIdx_iff_getElem?.1 hm, rfl, b1, b2, b3, b4, b5.symm, ?_⟩
    intro u' hu'
    obtain ⟨k, hk⟩ := List.getElem?_of_mem hu'
    exact hall (u', k) (List.mk_mem_zipIdx_iff_getElem?.2 hk)

/-- Non-vacuity: two triangles, a query to the right of both; the nearer one (index 1) and the corner (1,0). -/
example : findUV [⟨⟨-2, 0⟩, ⟨-1, 0⟩, ⟨-2, 1⟩⟩, ⟨⟨0, 0⟩, ⟨1, 0⟩, ⟨0, 1⟩⟩] (⟨3, 0⟩ : V2 Rat) = some (1, (0, 1, 0)) := by
  decide +kernel

/-- **The point `MapFn` uses is the nearest point of the triangle.**  For a triangle with
non-degenerate edges and a query `p` outside it — barycentric coordinates `(a,b,c)`, summing to 1,
with a negative entry — no point `q` of the SOLID triangle (coordinates `(α,β,γ) ≥ 0` summing to 1),
and in particular no point of its three edges, is closer to `p` than the point `genericSDF`
reports (whose squared distance is `(triNearest t p).1`, `mapfn_outside_returns_nearest`).  Together
with that theorem: for a UV point outside every UV triangle `MapFn` interpolates at the nearest
point of the whole triangulation. -/
theorem mapfn_nearest_point_closest (t : Tri2 K)
    (hab : 0 < dot2 (t.b.sub t.a) (t.b.sub t.a)) (hbc : 0 < dot2 (t.c.sub t.b) (t.c.sub t.b))
    (hca : 0 < dot2 (t.a.sub t.c) (t.a.sub t.c))
    (a b c : K) (habc : a + b + c = 1) (hneg : a < 0 ∨ b < 0 ∨ c < 0) :
    (∀ α β γ : K, 0 ≤ α → 0 ≤ β → 0 ≤ γ → α + β + γ = 1 →
      (triNearest t (atBary2 t (a, b, c))).1 ≤ dist2 (atBary2 t (α, β, γ)) (atBary2 t (a, b, c))) ∧
    (∀ s : K, 0 ≤ s → s ≤ 1 →
      (triNearest t (atBary2 t (a, b, c))).1 ≤ dist2 (segPoint t.a t.b (1 - s, s)) (atBary2 t (a, b, c)) ∧
      (triNearest t (atBary2 t (a, b, c))).1 ≤ dist2 (segPoint t.b t.c (1 - s, s)) (atBary2 t (a, b, c)) ∧
      (triNearest t (atBary2 t (a, b, c))).1 ≤ dist2 (segPoint t.c t.a (1 - s, s)) (atBary2 t (a, b, c))) :=
  ⟨fun α β γ hα hβ hγ hsum => triNearest_le_solid t hab hbc hca a b c α β γ habc hneg hα hβ hγ hsum,
   fun s hs0 hs1 => triNearest_min t _ hab hbc hca s hs0 hs1⟩

/-- Non-vacuity: the unit right triangle and the query (2, 0) = 2·B − A (coordinates (−1, 2, 0)):
the reported squared distance is 1 (corner B). -/
example : (triNearest (⟨⟨0, 0⟩, ⟨1, 0⟩, ⟨0, 1⟩⟩ : Tri2 Rat) (atBary2 ⟨⟨0, 0⟩, ⟨1, 0⟩, ⟨0, 1⟩⟩ (-1, 2, 0))).1 = 1 := by
  decide +kernel

/-- **"No triangle contains the query" means the query is outside every triangle.**  If the containment scan of
`MapFn` finds nothing, every UV triangle of non-zero area gives the query a negative barycentric coordinate
(the coordinates sum to 1 and reproduce the query) — the hypothesis `hneg` of `mapfn_nearest_point_closest`:
the bounding-box pre-test of `findContains` never rejects a point with non-negative coordinates. -/
theorem mapfn_none_means_outside (ts : List (Tri2 K)) (p : V2 K) (h : findContains ts p = none)
    (t : Tri2 K) (ht : t ∈ ts) (hdet : t.orient ≠ 0) :
    ((bary2 t p).1 < 0 ∨ (bary2 t p).2.1 < 0 ∨ (bary2 t p).2.2 < 0) ∧
    (bary2 t p).1 + (bary2 t p).2.1 + (bary2 t p).2.2 = 1 ∧ atBary2 t (bary2 t p) = p :=
  findContains_none_outside ts p h t ht hdet

/-- **`MapFn` at a point outside the UV triangulation interpolates at the nearest point of the WHOLE
triangulation.**  All UV triangles have non-zero area, no triangle contains `p`, and `Find` returns triangle
`i` with coordinates `w`: then no point of any SOLID triangle of the map (coordinates `(α,β,γ) ≥ 0` summing
to 1) is closer to `p` than the point `atBary2 u w` that `MapFn` maps back to 3-D.  (Combines
`mapfn_outside_returns_nearest`, `mapfn_none_means_outside` and `mapfn_nearest_point_closest`.) -/
theorem mapfn_outside_nearest_point_of_atlas (ts : List (Tri2 K)) (p : V2 K) (i : Nat) (w : K × K × K)
    (hnd : ∀ t ∈ ts, t.orient ≠ 0)
    (hout : findContains ts p = none) (h : findUV ts p = some (i, w)) :
    ∃ u, ts[i]? = some u ∧ 0 ≤ w.1 ∧ 0 ≤ w.2.1 ∧ 0 ≤ w.2.2 ∧ w.1 + w.2.1 + w.2.2 = 1 ∧
      ∀ t ∈ ts, ∀ α β γ : K, 0 ≤ α → 0 ≤ β → 0 ≤ γ → α + β + γ = 1 →
        dist2 (atBary2 u w) p ≤ dist2 (atBary2 t (α, β, γ)) p := by
  obtain ⟨u, hu, _, w1, w2, w3, w4, hd, hall⟩ := mapfn_outside_returns_nearest ts p i w hout h
  refine ⟨u, hu, w1, w2, w3, w4, fun t ht α β γ hα hβ hγ hsum => ?_⟩
  obtain ⟨hneg, hs, hp⟩ := findContains_none_outside ts p hout t ht (hnd t ht)
  obtain ⟨e1, e2, e3⟩ := edges_pos_of_orient t (hnd t ht)
  have key := triNearest_le_solid t e1 e2 e3 (bary2 t p).1 (bary2 t p).2.1 (bary2 t p).2.2 α β γ hs hneg hα hβ hγ hsum
  rw [show ((bary2 t p).1, (bary2 t p).2.1, (bary2 t p).2.2) = bary2 t p from rfl, hp] at key
  rw [hd]
  exact le_trans (hall t ht) key

/-- Non-vacuity: the query (3, 0) is outside both triangles of the earlier example (negative coordinates). -/
example : findContains [⟨⟨-2, 0⟩, ⟨-1, 0⟩, ⟨-2, 1⟩⟩, ⟨⟨0, 0⟩, ⟨1, 0⟩, ⟨0, 1⟩⟩] (⟨3, 0⟩ : V2 Rat) = none ∧
    (bary2 (⟨⟨0, 0⟩, ⟨1, 0⟩, ⟨0, 1⟩⟩ : Tri2 Rat) ⟨3, 0⟩).1 < 0 := by
  decide +kernel

/-! ## `ExtendBoundaryUVs`: the post-processing of the boundary ears

`M3d/Model/ParamExt.lean` models the loop; `math.Sqrt` is the uninterpreted `HasSqrt.sqrt` with the hypothesis
`SqrtSpec` (the non-negative square root of non-negative numbers; true of `Real.sqrt`). -/

open M3d.GenPrelude in
/-- **`ExtendBoundaryUVs` moves an ear apex straight away from the opposite edge — it cannot flip the ear,
whichever way round the parameterisation runs.**  `uv0, uv1, uv2` are the UVs of three consecutive boundary
vertices that span one triangle (an ear, apex `uv1`), the opposite edge `uv0 uv2` is non-degenerate, and the
apex lies on the same side of the line through the ORIGIN parallel to the opposite edge as of the opposite edge
itself (`earCross · originCross > 0`; see `extend_boundary_origin_side`: true at every vertex of a convex
boundary polygon around the origin, clockwise or counter-clockwise — the documented precondition "centred
around the origin").  If the loop body stores `q` for the apex (`extendEar = some q`, `maxDist > 0`), then:
the ear keeps its strict orientation (no flip), its height over the opposite edge is strictly larger than
before (twice the area grows by at most `maxDist · |uv2 − uv0|`), the foot of the apex on the opposite edge
does not move, and the apex moves by at most `maxDist`. -/
theorem extend_boundary_ear_moves_away [HasSqrt K] (hs : SqrtSpec K) (p0 p1 p2 : V3 K) (uv0 uv1 uv2 q : V2 K)
    (maxDist : K) (hmd : 0 < maxDist) (he : 0 < dot2 (uv2.sub uv0) (uv2.sub uv0))
    (hside : 0 < earCross uv0 uv1 uv2 * originCross uv0 uv1 uv2)
    (h : extendEar p0 p1 p2 uv0 uv1 uv2 maxDist = some q) :
    0 < earCross uv0 uv1 uv2 * earCross uv0 q uv2 ∧
    |earCross uv0 uv1 uv2| < |earCross uv0 q uv2| ∧
    |earCross uv0 q uv2| ≤ |earCross uv0 uv1 uv2| + maxDist * norm2 (uv2.sub uv0) ∧
    dot2 (uv2.sub uv0) (q.sub uv0) = dot2 (uv2.sub uv0) (uv1.sub uv0) ∧
    dist2 q uv1 ≤ maxDist * maxDist := by
  obtain ⟨hr, rfl⟩ := extendEar_some p0 p1 p2 uv0 uv1 uv2 maxDist q h
  have hL : 0 < norm2 (uv2.sub uv0) := by
    unfold norm2; exact sqrt_pos_of_pos hs _ (by simpa [dot2] using he)
  obtain ⟨hx0, hx1⟩ := extraDist_bounds uv0 uv2 _ _ maxDist hmd hr (by simpa [segLen2] using hL)
  obtain ⟨a1, a2, a3, a4⟩ := pushOut_away hs uv0 uv1 uv2 _ (le_of_lt hx0) he hside
  refine ⟨a1, ?_, ?_, a3, ?_⟩
  · rw [a2]; linarith [mul_pos hx0 hL]
  · rw [a2]; linarith [mul_le_mul_of_nonneg_right hx1 (le_of_lt hL)]
  · rw [a4]; exact mul_le_mul hx1 hx1 (le_of_lt hx0) (le_of_lt hmd)

/-- … the same for any amount `extra ≥ 0`, with the exact values: the height grows by exactly `extra`. -/
theorem extend_boundary_push_exact [M3d.GenPrelude.HasSqrt K] (hs : SqrtSpec K) (uv0 uv1 uv2 : V2 K) (extra : K)
    (h0 : 0 ≤ extra) (he : 0 < dot2 (uv2.sub uv0) (uv2.sub uv0))
    (hside : 0 < earCross uv0 uv1 uv2 * originCross uv0 uv1 uv2) :
    0 < earCross uv0 uv1 uv2 * earCross uv0 (pushOut uv0 uv1 uv2 extra) uv2 ∧
    |earCross uv0 (pushOut uv0 uv1 uv2 extra) uv2| = |earCross uv0 uv1 uv2| + extra * norm2 (uv2.sub uv0) ∧
    dist2 (pushOut uv0 uv1 uv2 extra) uv1 = extra * extra := by
  obtain ⟨a1, a2, _, a4⟩ := pushOut_away hs uv0 uv1 uv2 extra h0 he hside
  exact ⟨a1, a2, a4⟩

/-- Non-vacuity over ℝ with `Real.sqrt`: the ear `(1,−1), (2,0), (1,1)` of a clockwise boundary around the
origin (`earCross = −2`, `originCross = −4`) pushed by `1/2` lands at `(5/2, 0)`: twice the area goes from
`−2` to `−3`. -/
example : ∃ _ : M3d.GenPrelude.HasSqrt ℝ, SqrtSpec ℝ ∧
    0 < earCross (⟨1, -1⟩ : V2 ℝ) ⟨2, 0⟩ ⟨1, 1⟩ * originCross (⟨1, -1⟩ : V2 ℝ) ⟨2, 0⟩ ⟨1, 1⟩ ∧
    |earCross (⟨1, -1⟩ : V2 ℝ) (pushOut ⟨1, -1⟩ ⟨2, 0⟩ ⟨1, 1⟩ (1 / 2)) ⟨1, 1⟩| = 3 := by
  refine ⟨⟨Real.sqrt⟩, ?_, ?_⟩
  · exact fun x hx => ⟨Real.mul_self_sqrt hx, Real.sqrt_nonneg x⟩
  · let _ : M3d.GenPrelude.HasSqrt ℝ := ⟨Real.sqrt⟩
    have hs : SqrtSpec ℝ := fun x hx => ⟨Real.mul_self_sqrt hx, Real.sqrt_nonneg x⟩
    have hside : 0 < earCross (⟨1, -1⟩ : V2 ℝ) ⟨2, 0⟩ ⟨1, 1⟩ * originCross (⟨1, -1⟩ : V2 ℝ) ⟨2, 0⟩ ⟨1, 1⟩ := by
      norm_num [earCross, originCross]
    refine ⟨hside, ?_⟩
    obtain ⟨_, a2, _⟩ := extend_boundary_push_exact hs (⟨1, -1⟩ : V2 ℝ) ⟨2, 0⟩ ⟨1, 1⟩ (1 / 2) (by norm_num)
      (by norm_num [dot2, V2.sub]) hside
    rw [a2]
    have h4 : norm2 ((⟨1, 1⟩ : V2 ℝ).sub ⟨1, -1⟩) = 2 := by
      show Real.sqrt _ = 2
      rw [show ((⟨1, 1⟩ : V2 ℝ).sub ⟨1, -1⟩).x * ((⟨1, 1⟩ : V2 ℝ).sub ⟨1, -1⟩).x +
        ((⟨1, 1⟩ : V2 ℝ).sub ⟨1, -1⟩).y * ((⟨1, 1⟩ : V2 ℝ).sub ⟨1, -1⟩).y = 2 * 2 by norm_num [V2.sub]]
      exact Real.sqrt_mul_self (by norm_num)
    rw [h4]
    norm_num [earCross]

omit [LinearOrder K] [IsStrictOrderedRing K] in
/-- **Where the origin has to be** for `extend_boundary_ear_moves_away`: with `O` the origin,
`earCross · originCross = orient(uv0,uv1,uv2) · (orient(uv0,uv1,O) + orient(uv1,uv2,O))`: the turn of the boundary
at the apex times the position of the origin relative to the two boundary edges at the apex. -/
theorem extend_boundary_origin_identity (uv0 uv1 uv2 : V2 K) :
    earCross uv0 uv1 uv2 * originCross uv0 uv1 uv2 =
      orient uv0 uv1 uv2 * (orient uv0 uv1 ⟨0, 0⟩ + orient uv1 uv2 ⟨0, 0⟩) := by
  simp only [earCross, originCross, orient]
  ring

/-- Hence the side condition holds at a convex corner of a boundary polygon that has the origin on the inner
side of both edges at the corner (strictly of one): for a COUNTER-CLOCKWISE boundary (left turn, origin to the
left) and, just the same, for a CLOCKWISE one (right turn, origin to the right) — e.g. a V-flipped
`Floater97` solution or a user-supplied clockwise boundary map. -/
theorem extend_boundary_origin_side (uv0 uv1 uv2 : V2 K) :
    (0 < orient uv0 uv1 uv2 → 0 ≤ orient uv0 uv1 ⟨0, 0⟩ → 0 ≤ orient uv1 uv2 ⟨0, 0⟩ →
      0 < orient uv0 uv1 ⟨0, 0⟩ + orient uv1 uv2 ⟨0, 0⟩ → 0 < earCross uv0 uv1 uv2 * originCross uv0 uv1 uv2) ∧
    (orient uv0 uv1 uv2 < 0 → orient uv0 uv1 ⟨0, 0⟩ ≤ 0 → orient uv1 uv2 ⟨0, 0⟩ ≤ 0 →
      orient uv0 uv1 ⟨0, 0⟩ + orient uv1 uv2 ⟨0, 0⟩ < 0 → 0 < earCross uv0 uv1 uv2 * originCross uv0 uv1 uv2) := by
  rw [extend_boundary_origin_identity]
  exact ⟨fun h1 _ _ h2 => mul_pos h1 h2, fun h1 _ _ h2 => mul_pos_of_neg_of_neg h1 h2⟩

example : 0 < orient (⟨1, -1⟩ : V2 Rat) ⟨2, 0⟩ ⟨1, 1⟩ ∧ 0 < orient (⟨1, -1⟩ : V2 Rat) ⟨2, 0⟩ ⟨0, 0⟩ ∧
    0 < orient (⟨2, 0⟩ : V2 Rat) ⟨1, 1⟩ ⟨0, 0⟩ := by decide +kernel

omit [IsStrictOrderedRing K] in
/-- **`ExtendBoundaryUVs` writes nothing but ear apexes.**  Whatever the mesh, the boundary cycle, the 3-D
positions and `maxDist`: an entry of `param` whose key is not an ear apex of the boundary cycle — every interior
vertex, every boundary vertex that is not the apex of an ear, any other key — is the same after the loop. -/
theorem extend_boundary_moves_only_ears [M3d.GenPrelude.HasSqrt K] (ts : List Tri) (pos : Nat → V3 K) (seq : List Nat)
    (maxDist : K) (param : AMap (V2 K)) (v : Nat) (hv : v ∉ earApexes ts seq) :
    (extendBoundary ts pos seq maxDist param).load v = param.load v :=
  extendBoundary_frame ts pos seq maxDist param v hv

/-- Non-vacuity: the square `(0,1,2), (0,2,3)` with boundary cycle `0,1,2,3` has the ear apexes 1 and 3. -/
example : earApexes [(0, 1, 2), (0, 2, 3)] [0, 1, 2, 3] = [1, 3] := by decide

/-- **`ExtendBoundaryUVs` commutes with every linear isometry of the UV plane** (rotations about the origin,
reflections in lines through the origin: matrix `(a b; c d)` with orthonormal columns): extending the
transformed map gives the transform of the extended map — the function treats a clockwise (V-flipped, mirrored,
rotated) parameterisation exactly as it treats the counter-clockwise one.  No property of `sqrt` is needed. -/
theorem extend_boundary_commutes_with_isometries [M3d.GenPrelude.HasSqrt K] (a b c d : K) (hO : Ortho a b c d)
    (ts : List Tri) (pos : Nat → V3 K) (seq : List Nat) (maxDist : K) (param : AMap (V2 K)) :
    extendBoundary ts pos seq maxDist (AMap.mapVals (V2.lin a b c d) param) =
      AMap.mapVals (V2.lin a b c d) (extendBoundary ts pos seq maxDist param) :=
  extendBoundary_lin hO ts pos seq maxDist param

/-- Non-vacuity: the V flip `(x, y) ↦ (x, −y)` and the rotation by the Pythagorean angle `(3/5, 4/5)`. -/
example : Ortho (1 : Rat) 0 0 (-1) ∧ Ortho (3 / 5 : Rat) (-4 / 5) (4 / 5) (3 / 5) := by
  constructor <;> constructor <;> norm_num

end M3d.C18
