import M3d.Model.Marching
import M3d.Gen.McTable
import M3d.Props.C01Bitmap
import M3d.Lemmas.MsLift3
import M3d.Lemmas.McLift3
/-!
# C01 — meshing always outputs a closed, consistently oriented manifold

Property theorems only.  The lookup tables are `M3d.Gen.mcTable` / `M3d.Gen.msTable`,
REGENERATED from /repo on every run; each theorem below is decided by the Lean kernel over the
whole finite configuration space the property quantifies over ("all 256 (16 in 2D) cell
configurations and every way neighbouring cells can meet across a shared face [or] edge").
-/
namespace M3d.C01
open M3d.Marching M3d.Gen

theorem mc_table_has_256_rows : mcTable.length = 256 := by decide +kernel

/-- Every triangle of every row joins three distinct cube edges whose ends are labelled
differently, and every sign-changing cube edge carries a mesh vertex. -/
theorem mc_rows_wellformed :
    ∀ cfg, cfg < 256 → rowWellFormed cfg (getRow mcTable cfg) = true := by
  have h : (List.range 256).all (fun cfg => rowWellFormed cfg (getRow mcTable cfg)) = true := by
    decide +kernel
  intro cfg hc
  exact List.all_eq_true.1 h cfg (List.mem_range.2 hc)

/-- Inside one cell, mesh edges that do not lie in a cube face cancel in opposite pairs. -/
theorem mc_cell_interior_balanced :
    ∀ cfg, cfg < 256 → interiorBalanced (getRow mcTable cfg) = true := by
  have h : (List.range 256).all (fun cfg => interiorBalanced (getRow mcTable cfg)) = true := by
    decide +kernel
  intro cfg hc
  exact List.all_eq_true.1 h cfg (List.mem_range.2 hc)

/-- What a cell draws on each of its six faces depends only on that face's four corner labels. -/
theorem mc_face_determined :
    ∀ cfg, cfg < 256 → faceDetermined mcTable cfg = true := by
  have h : (List.range 256).all (fun cfg => faceDetermined mcTable cfg) = true := by
    decide +kernel
  intro cfg hc
  exact List.all_eq_true.1 h cfg (List.mem_range.2 hc)

/-- For every axis and every labelling of a shared lattice face, the two cells meeting there draw
exactly each other's reversed edges (each once), and nothing on a uniformly labelled face — so
every mesh edge lying in a lattice face is shared by exactly two triangles traversing it in
opposite directions, and nothing is left open on the (empty) outer layer. -/
theorem mc_face_opposite :
    ∀ k, k < 3 → ∀ fb, fb < 16 → faceOpposite mcTable k fb = true := by
  have h : (List.range 3).all (fun k => (List.range 16).all fun fb => faceOpposite mcTable k fb) = true := by
    decide +kernel
  intro k hk fb hf
  exact List.all_eq_true.1 (List.all_eq_true.1 h k (List.mem_range.2 hk)) fb (List.mem_range.2 hf)

/-- Around the vertex on any sign-changing cube edge the cell's triangles form ONE simple path
that runs from one of the two cube faces through that edge to the other, sweeping
counter-clockwise about the inside→outside direction: no pinched vertices (the four cells round a
lattice edge chain into a single cycle) and normals point from the contained to the excluded
side. -/
theorem mc_fan_is_outward_path :
    ∀ cfg, cfg < 256 → fansOk cfg (getRow mcTable cfg) = true := by
  have h : (List.range 256).all (fun cfg => fansOk cfg (getRow mcTable cfg)) = true := by
    decide +kernel
  intro cfg hc
  exact List.all_eq_true.1 h cfg (List.mem_range.2 hc)

theorem ms_table_has_16_rows : msTable.length = 16 := by decide +kernel

/-- Marching squares: every segment joins two distinct sign-changing square edges and every such
edge is used exactly once in the cell. -/
theorem ms_rows_wellformed :
    ∀ cfg, cfg < 16 → msRowWellFormed cfg (getRow msTable cfg) = true := by
  have h : (List.range 16).all (fun cfg => msRowWellFormed cfg (getRow msTable cfg)) = true := by
    decide +kernel
  intro cfg hc
  exact List.all_eq_true.1 h cfg (List.mem_range.2 hc)

/-- Marching squares orientation rule (see `msRoleRule`): start/end roles alternate across every
lattice edge — one incoming and one outgoing segment per vertex — with the contained side on the
right of every segment, i.e. normals point to the excluded side. -/
theorem ms_role_rule :
    ∀ cfg, cfg < 16 → msRoleRule cfg (getRow msTable cfg) = true := by
  have h : (List.range 16).all (fun cfg => msRoleRule cfg (getRow msTable cfg)) = true := by
    decide +kernel
  intro cfg hc
  exact List.all_eq_true.1 h cfg (List.mem_range.2 hc)

/-- The single-row and row-pair facts of the regenerated marching-squares table that the lift
below consumes (kernel-decided: 16 rows, 2 × 256 row pairs across a shared lattice edge). -/
theorem ms_local_ok : msLocalOk msTable = true := by decide +kernel

/-- **Marching squares is watertight on EVERY lattice** (the local→global lift, mechanised): for
every lattice size and every labelling whose outer layer is outside, in the mesh assembled from
the regenerated table every point of the plane starts as many segments as it ends, and at most
one — every mesh vertex has exactly one incoming and one outgoing segment.  `msMesh` is the
function the driver runs and that the correspondence compares with `MarchingSquares` /
`MarchingSquaresFilter` triangle-for-triangle. -/
theorem ms_closed_on_every_lattice (nx ny : Nat) (lab : Nat → Nat → Bool)
    (hb : ∀ x y, (x = 0 ∨ y = 0 ∨ nx ≤ x ∨ ny ≤ y) → lab x y = false) (v : GV2) :
    cnt false (msMesh msTable nx ny lab) v = cnt true (msMesh msTable nx ny lab) v ∧
    cnt false (msMesh msTable nx ny lab) v ≤ 1 :=
  ms_in_out_one ms_local_ok nx ny lab hb v

/-- Non-vacuity: a 2×2-cell lattice with only the centre point inside gives a 4-segment loop. -/
example :
    let lab : Nat → Nat → Bool := fun x y => x == 1 && y == 1
    (msMesh msTable 2 2 lab).length = 4 ∧
      cnt false (msMesh msTable 2 2 lab) (1, 2) = 1 ∧ cnt true (msMesh msTable 2 2 lab) (1, 2) = 1 := by
  decide

/-- **Bitmap outlining is watertight at every lattice corner** (kernel-decided over all 65 536
labellings of the 4×4 pixels around a corner, in 16 parallel chunks — `M3d/Props/C01Bitmap/`): each
mesh vertex sitting at that corner (the corner itself or one of its four pulled-in copies) has
exactly one incoming and one outgoing segment.  A pixel only puts vertices at its own four corners
and only reads its 3×3 neighbourhood, so this covers every vertex of `Bitmap.Mesh` on every
bitmap (pixels outside the image read as false). -/
theorem bitmap_in_out_one : ∀ w, w < 65536 → windowOk w = true := bitmap_in_out_one_aux

/-- The local facts of the regenerated 256-row marching-cubes table that the 3-D lift below
consumes (`mcLocalOk`, kernel-decided): row 0 is empty; in every row every directed triangle side
joins two distinct cube-edge midpoints, and a side lying in no face plane of the cell occurs exactly
once, as does its reverse (256 rows); what a row draws in the plane of each of its six faces is what
the representative row with the same four face-corner labels draws there (256 × 6); and for each
axis and each of the 16 labellings of a shared lattice face, the lower cell's far-face count of
`p → q` plus the upper cell's near-face count equals the same sum for `q → p` and is at most one
(3 × 16 × 81 position pairs). -/
theorem mc_local_ok : mcLocalOk mcTable = true := by decide +kernel

/-- **Every edge of the marching-cubes mesh is shared by exactly two triangles that traverse it in
opposite directions, on EVERY lattice** (first half of the 3-D statement; the local→global lift,
mechanised in `Lemmas/McLift{,2,3}.lean`): for every lattice size and every labelling whose outer
layer is outside, in the mesh assembled from the regenerated table the number of triangle sides
running `U → V` equals the number running `V → U`, and is at most one, for every pair of points
`U`, `V` (doubled lattice coordinates).  `mcMesh` is the function the driver runs and that the
correspondence compares with `MarchingCubes` / `MarchingCubesFilter` triangle-for-triangle.  Proof:
a cell contributes the row's local count when `U`, `V` both lie in its 3×3×3 box and nothing
otherwise; per axis the cell coordinate is determined unless `U`, `V` share an even coordinate, so
the triple sum over the lattice has one term (interior edge: cancels inside the cell), two terms
(the two cells across a lattice face: cancel by `okFacePair` since both see the same four face
labels; on the outer layer the face is all-outside and empty), or only zero terms (`U`, `V` on a
common lattice line). -/
theorem mc_edges_balanced_on_every_lattice (nx ny nz : Nat) (lab : Nat → Nat → Nat → Bool)
    (hb : ∀ x y z, (x = 0 ∨ y = 0 ∨ z = 0 ∨ nx ≤ x ∨ ny ≤ y ∨ nz ≤ z) → lab x y z = false)
    (U V : GV) :
    ecnt (mcMesh mcTable nx ny nz lab) (U, V) = ecnt (mcMesh mcTable nx ny nz lab) (V, U) ∧
    ecnt (mcMesh mcTable nx ny nz lab) (U, V) ≤ 1 :=
  mc_edges_balanced mc_local_ok nx ny nz lab hb U V

/-- Non-vacuity: a 2×2×2-cell lattice with only the centre point inside gives the 8-triangle
octahedron; each of its 24 directed sides occurs once and its reverse occurs once. -/
example :
    let lab : Nat → Nat → Nat → Bool := fun x y z => x == 1 && y == 1 && z == 1
    let m := mcMesh mcTable 2 2 2 lab
    m.length = 8 ∧ (m.flatMap gsides).length = 24 ∧
      ((m.flatMap gsides).all fun d => ecnt m d == 1 && ecnt m (d.2, d.1) == 1) = true := by
  decide

end M3d.C01
