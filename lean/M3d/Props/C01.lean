import M3d.Model.Marching
import M3d.Gen.McTable
import M3d.Props.C01Bitmap
import M3d.Lemmas.MsLift3
import M3d.Lemmas.McLift3
import M3d.Lemmas.C01C2F
import M3d.Lemmas.SoupFast
import M3d.Lemmas.BitmapLift
import M3d.Lemmas.McFan5
import M3d.Lemmas.C01Search
import M3d.Lemmas.C01Conj
import M3d.Lemmas.C01ConjProbe
import M3d.Lemmas.C01Polytope
import Mathlib.Algebra.Order.Field.Rat
import Mathlib.Tactic.NormNum
import Mathlib.Tactic.FinCases
import M3d.Lemmas.RectMeshOrient
import M3d.Lemmas.RectMeshClosed
import M3d.Lemmas.MeshRect
import M3d.Lemmas.C01Round6
/-!
# C01 — meshing always outputs a closed, consistently oriented manifold

Property theorems only.  The lookup tables are `M3d.Gen.mcTable` / `M3d.Gen.msTable`,
REGENERATED from /repo on every run; each theorem below is decided by the Lean kernel over the
whole finite configuration space the property quantifies over ("all 256 (16 in 2D) cell
configurations and every way neighbouring cells can meet across a shared face [or] edge").
-/
namespace M3d.C01
open M3d.Marching M3d.Gen M3d.Partition M3d.C2F

theorem mc_table_has_256_rows : mcTable.length = 256 := by decide +kernel

/-- Every triangle of every row joins three distinct cube edges whose ends are labelled
differently, and every sign-changing cube edge carries a mesh vertex. -/
theorem mc_rows_wellformed :
    ∀ cfg, cfg < 256 → rowWellFormed cfg (getRow mcTable cfg) = true := by
  have h : (List.range 256).all (fun cfg => rowWellFormed cfg (getRow mcTable cfg)) = true := by
    decide +kernel
  intro cfg hc
  exact List.all_eq_true.1 h cfg (List.mem_range.2 hc)

/-- Inside one cell, mesh edges that do not lie in a cube face cancel in opposite pairs. -/
theorem mc_cell_interior_balanced :
    ∀ cfg, cfg < 256 → interiorBalanced (getRow mcTable cfg) = true := by
  have h : (List.range 256).all (fun cfg => interiorBalanced (getRow mcTable cfg)) = true := by
    decide +kernel
  intro cfg hc
  exact List.all_eq_true.1 h cfg (List.mem_range.2 hc)

/-- What a cell draws on each of its six faces depends only on that face's four corner labels. -/
theorem mc_face_determined :
    ∀ cfg, cfg < 256 → faceDetermined mcTable cfg = true := by
  have h : (List.range 256).all (fun cfg => faceDetermined mcTable cfg) = true := by
    decide +kernel
  intro cfg hc
  exact List.all_eq_true.1 h cfg (List.mem_range.2 hc)

/-- For every axis and every labelling of a shared lattice face, the two cells meeting there draw
exactly each other's reversed edges (each once), and nothing on a uniformly labelled face — so
every mesh edge lying in a lattice face is shared by exactly two triangles traversing it in
opposite directions, and nothing is left open on the (empty) outer layer. -/
theorem mc_face_opposite :
    ∀ k, k < 3 → ∀ fb, fb < 16 → faceOpposite mcTable k fb = true := by
  have h : (List.range 3).all (fun k => (List.range 16).all fun fb => faceOpposite mcTable k fb) = true := by
    decide +kernel
  intro k hk fb hf
  exact List.all_eq_true.1 (List.all_eq_true.1 h k (List.mem_range.2 hk)) fb (List.mem_range.2 hf)

/-- Around the vertex on any sign-changing cube edge the cell's triangles form ONE simple path
that runs from one of the two cube faces through that edge to the other, sweeping
counter-clockwise about the inside→outside direction: no pinched vertices (the four cells round a
lattice edge chain into a single cycle) and normals point from the contained to the excluded
side. -/
theorem mc_fan_is_outward_path :
    ∀ cfg, cfg < 256 → fansOk cfg (getRow mcTable cfg) = true := by
  have h : (List.range 256).all (fun cfg => fansOk cfg (getRow mcTable cfg)) = true := by
    decide +kernel
  intro cfg hc
  exact List.all_eq_true.1 h cfg (List.mem_range.2 hc)

theorem ms_table_has_16_rows : msTable.length = 16 := by decide +kernel

/-- Marching squares: every segment joins two distinct sign-changing square edges and every such
edge is used exactly once in the cell. -/
theorem ms_rows_wellformed :
    ∀ cfg, cfg < 16 → msRowWellFormed cfg (getRow msTable cfg) = true := by
  have h : (List.range 16).all (fun cfg => msRowWellFormed cfg (getRow msTable cfg)) = true := by
    decide +kernel
  intro cfg hc
  exact List.all_eq_true.1 h cfg (List.mem_range.2 hc)

/-- Marching squares orientation rule (see `msRoleRule`): start/end roles alternate across every
lattice edge — one incoming and one outgoing segment per vertex — with the contained side on the
right of every segment, i.e. normals point to the excluded side. -/
theorem ms_role_rule :
    ∀ cfg, cfg < 16 → msRoleRule cfg (getRow msTable cfg) = true := by
  have h : (List.range 16).all (fun cfg => msRoleRule cfg (getRow msTable cfg)) = true := by
    decide +kernel
  intro cfg hc
  exact List.all_eq_true.1 h cfg (List.mem_range.2 hc)

/-- The single-row and row-pair facts of the regenerated marching-squares table that the lift
below consumes (kernel-decided: 16 rows, 2 × 256 row pairs across a shared lattice edge). -/
theorem ms_local_ok : msLocalOk msTable = true := by decide +kernel

/-- **Marching squares is watertight on EVERY lattice** (the local→global lift, mechanised): for
every lattice size and every labelling whose outer layer is outside, in the mesh assembled from
the regenerated table every point of the plane starts as many segments as it ends, and at most
one — every mesh vertex has exactly one incoming and one outgoing segment.  `msMesh` is the
function the driver runs and that the correspondence compares with `MarchingSquares` /
`MarchingSquaresFilter` triangle-for-triangle. -/
theorem ms_closed_on_every_lattice (nx ny : Nat) (lab : Nat → Nat → Bool)
    (hb : ∀ x y, (x = 0 ∨ y = 0 ∨ nx ≤ x ∨ ny ≤ y) → lab x y = false) (v : GV2) :
    cnt false (msMesh msTable nx ny lab) v = cnt true (msMesh msTable nx ny lab) v ∧
    cnt false (msMesh msTable nx ny lab) v ≤ 1 :=
  ms_in_out_one ms_local_ok nx ny lab hb v

/-- Non-vacuity: a 2×2-cell lattice with only the centre point inside gives a 4-segment loop. -/
example :
    let lab : Nat → Nat → Bool := fun x y => x == 1 && y == 1
    (msMesh msTable 2 2 lab).length = 4 ∧
      cnt false (msMesh msTable 2 2 lab) (1, 2) = 1 ∧ cnt true (msMesh msTable 2 2 lab) (1, 2) = 1 := by
  decide

/-- **Bitmap outlining is watertight at every lattice corner** (kernel-decided over all 65 536
labellings of the 4×4 pixels around a corner, in 16 parallel chunks — `M3d/Props/C01Bitmap/`): each
mesh vertex sitting at that corner (the corner itself or one of its four pulled-in copies) has
exactly one incoming and one outgoing segment.  A pixel only puts vertices at its own four corners
and only reads its 3×3 neighbourhood, so this covers every vertex of `Bitmap.Mesh` on every
bitmap (pixels outside the image read as false). -/
theorem bitmap_in_out_one : ∀ w, w < 65536 → windowOk w = true := bitmap_in_out_one_aux

/-- **Bitmap outlining is watertight on EVERY bitmap** (the local→global lift, mechanised in
`Lemmas/BitmapLift.lean`): for every image size and every bitmap (as the model sees it: shifted by one
pixel, false outside `[1,w] × [1,h]`), every end point of every segment of `bitmapMesh g w h` — the function
the driver runs and that the correspondence compares with `Bitmap.Mesh` segment-for-segment — has exactly one
outgoing and exactly one incoming segment (`inOutOne`, the verdict the driver prints as `inout=`).  Proof:
what a pixel draws is a function of the nine pixels round it placed at the pixel's position
(`pixelSegs_local`); at a point near lattice corner `(cx, cy)` only the four pixels round that corner
contribute (`cnt_mesh_corner`: everything else is at least a pixel away, pixels outside the image are false
and draw nothing); the 4×4 pixels round the corner, read as a window number, have the same nine-pixel
neighbourhoods and hence the same four counts (`pixel_eq_window`), which `bitmap_in_out_one` says are one and
one.  (The bound on `w, h` is the model's packing of quarter-pixel points into 16 bits per coordinate.) -/
theorem bitmap_closed_on_every_bitmap (g : Nat → Nat → Bool) (w h : Nat) (hw : w < 15999) (hh : h < 15999)
    (hg : ∀ i j, (i = 0 ∨ j = 0 ∨ w < i ∨ h < j) → g i j = false) :
    inOutOne (bitmapMesh g w h) = true :=
  Bitmap.bitmap_lift bitmap_in_out_one g w h hw hh hg

/-- Non-vacuity: two pixels touching diagonally give two separate 4-segment loops (the shared corner is
pulled into each pixel), 8 segments in all. -/
example :
    let g : Nat → Nat → Bool := fun i j => (i == 1 && j == 1) || (i == 2 && j == 2)
    (bitmapMesh g 2 2).length = 8 ∧ inOutOne (bitmapMesh g 2 2) = true := by
  decide

/-- The local facts of the regenerated 256-row marching-cubes table that the 3-D lift below
consumes (`mcLocalOk`, kernel-decided): row 0 is empty; in every row every directed triangle side
joins two distinct cube-edge midpoints, and a side lying in no face plane of the cell occurs exactly
once, as does its reverse (256 rows); what a row draws in the plane of each of its six faces is what
the representative row with the same four face-corner labels draws there (256 × 6); and for each
axis and each of the 16 labellings of a shared lattice face, the lower cell's far-face count of
`p → q` plus the upper cell's near-face count equals the same sum for `q → p` and is at most one
(3 × 16 × 81 position pairs). -/
theorem mc_local_ok : mcLocalOk mcTable = true := by decide +kernel

/-- **Every edge of the marching-cubes mesh is shared by exactly two triangles that traverse it in
opposite directions, on EVERY lattice** (first half of the 3-D statement; the local→global lift,
mechanised in `Lemmas/McLift{,2,3}.lean`): for every lattice size and every labelling whose outer
layer is outside, in the mesh assembled from the regenerated table the number of triangle sides
running `U → V` equals the number running `V → U`, and is at most one, for every pair of points
`U`, `V` (doubled lattice coordinates).  `mcMesh` is the function the driver runs and that the
correspondence compares with `MarchingCubes` / `MarchingCubesFilter` triangle-for-triangle.  Proof:
a cell contributes the row's local count when `U`, `V` both lie in its 3×3×3 box and nothing
otherwise; per axis the cell coordinate is determined unless `U`, `V` share an even coordinate, so
the triple sum over the lattice has one term (interior edge: cancels inside the cell), two terms
(the two cells across a lattice face: cancel by `okFacePair` since both see the same four face
labels; on the outer layer the face is all-outside and empty), or only zero terms (`U`, `V` on a
common lattice line). -/
theorem mc_edges_balanced_on_every_lattice (nx ny nz : Nat) (lab : Nat → Nat → Nat → Bool)
    (hb : ∀ x y z, (x = 0 ∨ y = 0 ∨ z = 0 ∨ nx ≤ x ∨ ny ≤ y ∨ nz ≤ z) → lab x y z = false)
    (U V : GV) :
    ecnt (mcMesh mcTable nx ny nz lab) (U, V) = ecnt (mcMesh mcTable nx ny nz lab) (V, U) ∧
    ecnt (mcMesh mcTable nx ny nz lab) (U, V) ≤ 1 :=
  mc_edges_balanced mc_local_ok nx ny nz lab hb U V

/-- The local facts of the regenerated 256-row table that the fan lift consumes (`mcFanLocalOk`,
kernel-decided): every row is well formed, and round the vertex on every sign-changing cube edge the row's
triangles form the simple path `fanPath` — the arcs are exactly its consecutive pairs, its first vertex lies
only on the START face and its last only on the END face of `seFaces` (the two faces through the edge, ordered
counter-clockwise about the inside→outside direction), all others on neither (256 rows × 12 edges). -/
theorem mc_fan_local_ok : mcFanLocalOk mcTable = true := by decide +kernel

/-- **No vertex of the marching-cubes mesh pinches two sheets together, on EVERY lattice** (second half of the
3-D statement; the local→global lift, mechanised in `Lemmas/McFan{1,…,5}.lean`): for every lattice size, every
labelling whose outer layer is outside and every position `V` (doubled lattice coordinates), the link of `V` in
the mesh assembled from the regenerated table — one directed edge `p → q` per triangle `(V, p, q)` incident to
`V` — is either empty (`V` is no mesh vertex) or a rearrangement of the edges of ONE simple closed cycle: the
triangles round `V` form a single fan.  Proof: one cell contributes the placed fan arcs of the cube edge sitting
at `V` (`glink_cellTris`); only the four cells round the lattice edge contain `V` (`inBox_four`,
`glink_mcMesh_perm`), and with an empty outer layer all four are cells of the lattice (`ring_arith`); in each of
them the fan is a simple path from its start face to its end face (`mc_fan_local_ok`), and going round the edge
the end face of one cell is the start face of the next (`se_facts`); a position common to two of the cells lies on
their shared face (`adj_step`, `diag_step`), so the paths meet only at their ends — where they do meet, because
every link vertex with an incoming arc has an outgoing one (`mc_edges_balanced_on_every_lattice`) — and four
paths that chain head-to-tail are one cycle (`fan_cycle_of_four`, `glue4`).  Together with
`mc_edges_balanced_on_every_lattice` this is the closed-manifold statement for `MarchingCubes`,
`MarchingCubesFilter` and (under the documented cover) `MarchingCubesC2F`; the orientation clause
(normals from the contained to the excluded side) is the per-cell `mc_fan_is_outward_path`, a triangle's
orientation being decided inside its cell. -/
theorem mc_fans_one_cycle_on_every_lattice (nx ny nz : Nat) (lab : Nat → Nat → Nat → Bool)
    (hb : ∀ x y z, (x = 0 ∨ y = 0 ∨ z = 0 ∨ nx ≤ x ∨ ny ≤ y ∨ nz ≤ z) → lab x y z = false)
    (V : GV) (hne : glink V (mcMesh mcTable nx ny nz lab) ≠ []) :
    GFanCycle (glink V (mcMesh mcTable nx ny nz lab)) :=
  mc_fan_cycle mc_local_ok mc_fan_local_ok nx ny nz lab hb V hne

/-- Non-vacuity: in the octahedron round one inside point the vertex below the point has a link of four arcs. -/
example :
    let lab : Nat → Nat → Nat → Bool := fun x y z => x == 1 && y == 1 && z == 1
    (glink (2, 2, 1) (mcMesh mcTable 2 2 2 lab)).length = 4 := by
  decide

/-- Non-vacuity: a 2×2×2-cell lattice with only the centre point inside gives the 8-triangle
octahedron; each of its 24 directed sides occurs once and its reverse occurs once. -/
example :
    let lab : Nat → Nat → Nat → Bool := fun x y z => x == 1 && y == 1 && z == 1
    let m := mcMesh mcTable 2 2 2 lab
    m.length = 8 ∧ (m.flatMap gsides).length = 24 ∧
      ((m.flatMap gsides).all fun d => ecnt m d == 1 && ecnt m (d.2, d.1) == 1) = true := by
  decide

/-! ## The coarse-to-fine members of the two families (`MarchingSquaresC2F`, `MarchingCubesC2F`)

Documented contract (model2d/marching.go, model3d/mc.go): "computes a coarse mesh for the solid, then uses
that mesh to compute a fine mesh more efficiently.  The extraSpace argument, if non-zero, is extra space to
consider around the coarse mesh.  It can be increased in the case where the solid has fine details that
are totally missed by the coarse mesh."  So a feature the coarse pass does not see at all and that is
further than `extraSpace` from everything it does see may be lost (documented); but everything within the
caller's `extraSpace` — plus the built-in margin that bridges one coarse cell — of the coarse mesh must be
meshed, and then the output has to be watertight like every other member of the family.  Precisely, with
`bigDelta = m·smallDelta` and `E·smallDelta ≤ extraSpace`:

  **documented cover** `seenAll2/3 m (m+E)`: every fine cell with a sign change lies, in the max-norm,
  within `E` fine steps plus one coarse spacing of a coarse cell with a sign change.

A solid the coarse lattice samples inside and outside around each of its features (e.g. every `Rect` that
is its own bounding box, whatever the ratio) satisfies it with `E = 0`; a thin feature between the coarse
lattice lines is covered by an `extraSpace` that reaches its far end.  The driver evaluates the cover on
every `msc2f`/`mcc2f` case and answers with the plain fine mesh.  The expansion the code really applies
is REGENERATED from the source and shown to satisfy `hM` in `M3d.Lemmas.C01MarginTie`. -/

/-- **`MarchingSquaresC2F` is closed under the documented cover.**  For every ratio `m`, every `E`,
every solid (through its two lattice labellings, the fine one with an empty outer layer), every worker
schedule and every block filter `g` that keeps a block whenever a coarse-mesh vertex lies in its bounds
grown by `M`: if the cover `seenAll2 m (m+E)` holds, the coarse mesh has a vertex on every coarse
sign-change cell (true of marching squares, `M3d.C12.coarse_mixed_cell_has_vertex2`, and preserved by
`msSearch`, `M3d.C12.c2f_search_stays_on_edge`) and `M ≥ E·δ + 2·bigDelta`, then the C2F face multiset is
the plain fine one (`M3d.C12.c2f_ms_sound`) and therefore every point starts as many segments as it ends,
and at most one (`ms_closed_on_every_lattice`). -/
theorem c2f_ms_closed_under_documented_cover {K : Type} [Field K] [LinearOrder K] [IsStrictOrderedRing K]
    (m E nx ny cnx cny : Nat) (labF labC : Nat → Nat → Bool)
    (hb : ∀ x y, (x = 0 ∨ y = 0 ∨ nx ≤ x ∨ ny ≤ y) → labF x y = false)
    (g : Block2 → Bool) (sched : List (List Block2))
    (hs : Schedule2 (blockQueue2 g (rootBlock2 nx ny)) sched)
    (hseen : seenAll2 m (m + E) labF labC nx ny cnx cny = true)
    (fx fy δ ε M : K) (hδ : 0 ≤ δ) (hε : 0 ≤ ε) (verts : List (K × K))
    (hverts : ∀ J ∈ coarseMixed2 labC cnx cny, ∃ v ∈ verts,
      (C12.coarseCoord fx δ m J.1 ≤ v.1 ∧ v.1 ≤ C12.coarseCoord fx δ m J.1 + (m : K) * δ) ∧
      (C12.coarseCoord fy δ m J.2 ≤ v.2 ∧ v.2 ≤ C12.coarseCoord fy δ m J.2 + (m : K) * δ))
    (hM : (E : K) * δ + 2 * ((m : K) * δ) ≤ M)
    (hg : ∀ b, C12.C2FKeeps2 verts fx fy δ ε M b → g b = true) (v : GV2) :
    cnt false (msFilterMesh msTable labF g sched) v = cnt true (msFilterMesh msTable labF g sched) v ∧
    cnt false (msFilterMesh msTable labF g sched) v ≤ 1 := by
  have hp := C12.c2f_ms_sound m (m + E) nx ny cnx cny labF labC g sched hs hseen fx fy δ ε M hδ hε verts
    hverts (by push_cast; linarith) hg
  exact closed_of_perm_msMesh ms_local_ok nx ny labF hb _ hp v

/-- **`MarchingCubesC2F` is edge-balanced under the documented cover** (3-D twin): every directed edge of
the C2F output occurs at most once and its reverse exactly as often — every edge is shared by exactly two
triangles that traverse it in opposite directions (`M3d.C12.c2f_mc_sound` +
`mc_edges_balanced_on_every_lattice`). -/
theorem c2f_mc_edges_balanced_under_documented_cover {K : Type} [Field K] [LinearOrder K]
    [IsStrictOrderedRing K]
    (m E nx ny nz cnx cny cnz : Nat) (labF labC : Nat → Nat → Nat → Bool)
    (hb : ∀ x y z, (x = 0 ∨ y = 0 ∨ z = 0 ∨ nx ≤ x ∨ ny ≤ y ∨ nz ≤ z) → labF x y z = false)
    (g : Block → Bool) (sched : List (List Block))
    (hs : Schedule (blockQueue g (rootBlock nx ny nz)) sched)
    (hseen : seenAll3 m (m + E) labF labC nx ny nz cnx cny cnz = true)
    (fx fy fz δ ε M : K) (hδ : 0 ≤ δ) (hε : 0 ≤ ε) (verts : List (K × K × K))
    (hverts : ∀ J ∈ coarseMixed3 labC cnx cny cnz, ∃ v ∈ verts,
      (C12.coarseCoord fx δ m J.1 ≤ v.1 ∧ v.1 ≤ C12.coarseCoord fx δ m J.1 + (m : K) * δ) ∧
      (C12.coarseCoord fy δ m J.2.1 ≤ v.2.1 ∧ v.2.1 ≤ C12.coarseCoord fy δ m J.2.1 + (m : K) * δ) ∧
      (C12.coarseCoord fz δ m J.2.2 ≤ v.2.2 ∧ v.2.2 ≤ C12.coarseCoord fz δ m J.2.2 + (m : K) * δ))
    (hM : (E : K) * δ + 2 * ((m : K) * δ) ≤ M)
    (hg : ∀ b, C12.C2FKeeps3 verts fx fy fz δ ε M b → g b = true) (U V : GV) :
    ecnt (mcFilterMesh mcTable labF g sched) (U, V) = ecnt (mcFilterMesh mcTable labF g sched) (V, U) ∧
    ecnt (mcFilterMesh mcTable labF g sched) (U, V) ≤ 1 := by
  have hp := C12.c2f_mc_sound m (m + E) nx ny nz cnx cny cnz labF labC g sched hs hseen fx fy fz δ ε M hδ hε
    verts hverts (by push_cast; linarith) hg
  exact balanced_of_perm_mcMesh mc_local_ok nx ny nz labF hb _ hp U V

/-- … and **no vertex of the `MarchingCubesC2F` output pinches two sheets** under the documented cover: the link
of every position in the C2F face multiset is empty or one simple closed cycle
(`M3d.C12.c2f_mc_sound` + `mc_fans_one_cycle_on_every_lattice`; links only depend on the face multiset). -/
theorem c2f_mc_fans_one_cycle_under_documented_cover {K : Type} [Field K] [LinearOrder K]
    [IsStrictOrderedRing K]
    (m E nx ny nz cnx cny cnz : Nat) (labF labC : Nat → Nat → Nat → Bool)
    (hb : ∀ x y z, (x = 0 ∨ y = 0 ∨ z = 0 ∨ nx ≤ x ∨ ny ≤ y ∨ nz ≤ z) → labF x y z = false)
    (g : Block → Bool) (sched : List (List Block))
    (hs : Schedule (blockQueue g (rootBlock nx ny nz)) sched)
    (hseen : seenAll3 m (m + E) labF labC nx ny nz cnx cny cnz = true)
    (fx fy fz δ ε M : K) (hδ : 0 ≤ δ) (hε : 0 ≤ ε) (verts : List (K × K × K))
    (hverts : ∀ J ∈ coarseMixed3 labC cnx cny cnz, ∃ v ∈ verts,
      (C12.coarseCoord fx δ m J.1 ≤ v.1 ∧ v.1 ≤ C12.coarseCoord fx δ m J.1 + (m : K) * δ) ∧
      (C12.coarseCoord fy δ m J.2.1 ≤ v.2.1 ∧ v.2.1 ≤ C12.coarseCoord fy δ m J.2.1 + (m : K) * δ) ∧
      (C12.coarseCoord fz δ m J.2.2 ≤ v.2.2 ∧ v.2.2 ≤ C12.coarseCoord fz δ m J.2.2 + (m : K) * δ))
    (hM : (E : K) * δ + 2 * ((m : K) * δ) ≤ M)
    (hg : ∀ b, C12.C2FKeeps3 verts fx fy fz δ ε M b → g b = true) (V : GV)
    (hne : glink V (mcFilterMesh mcTable labF g sched) ≠ []) :
    GFanCycle (glink V (mcFilterMesh mcTable labF g sched)) := by
  have hp := C12.c2f_mc_sound m (m + E) nx ny nz cnx cny cnz labF labC g sched hs hseen fx fy fz δ ε M hδ hε
    verts hverts (by push_cast; linarith) hg
  have hl : (glink V (mcFilterMesh mcTable labF g sched)).Perm (glink V (mcMesh mcTable nx ny nz labF)) :=
    hp.filterMap _
  have hne' : glink V (mcMesh mcTable nx ny nz labF) ≠ [] := fun h => hne (List.Perm.eq_nil (h ▸ hl))
  obtain ⟨l, hl1, hl2⟩ := mc_fans_one_cycle_on_every_lattice nx ny nz labF hb V hne'
  exact ⟨l, hl1, hl.trans hl2⟩

/-- Non-vacuity of the cover: a 1×1 fine-cell blob on a 6×6-cell fine lattice, ratio 2 (coarse lattice
4×4 cells): the coarse lattice samples the same point, the cover holds with `E = 0`; and a cover that
needs the caller's `extraSpace`: a fine-only feature 6 fine steps away from the only coarse sign change
is not covered with `E = 0` but is with `E = 4`. -/
example : seenAll2 2 (2 + 0) (fun x y => x == 3 && y == 3) (fun x y => x == 2 && y == 2) 6 6 4 4 = true := by
  decide

example :
    let labF : Nat → Nat → Bool := fun x y => (x == 1 && y == 1) || (x == 12 && y == 1)
    let labC : Nat → Nat → Bool := fun x y => x == 1 && y == 1
    seenAll2 2 (2 + 0) labF labC 14 4 8 3 = false ∧ seenAll2 2 (2 + 8) labF labC 14 4 8 3 = true := by
  decide

/-! ## The searched members of the two families

`MarchingCubesSearch`, `MarchingCubesSearchFilter`, `MarchingCubesConj`, `MarchingCubesC2F` and the mesh of
`MarchingCubesInterior` (all through `mcSearch` / `mcSearchPoint`, model3d/mc.go), `MarchingSquaresSearch(+Filter)`,
`…Conj`, `…C2F` (`msSearch`, model2d/marching.go): the lattice mesh with every vertex moved ALONG ITS OWN LATTICE EDGE
to the midpoint of the interval that is left after `iters` bisections (`M3d.Bisect.mcSearchPoint … .1`,
`msSearchPoint`; whole-mesh models `M3d.C01Search.searchMesh / searchMesh2`).  The solid is an arbitrary function of
the point — what it answers between the lattice points is not constrained in any way. -/

open M3d.C01Search in
/-- **The searched vertex lies STRICTLY inside its lattice edge** — for every containment function along the edge,
every number of iterations: never on a lattice point.  (The last probe known to be inside — the second component,
which `MarchingCubesInterior` reports in its `interior` map — does NOT have this property: it is the lattice corner
itself when no probe was inside, see `interior_probe_collapses` below.) -/
theorem search_vertex_strictly_inside_edge {K : Type} [Field K] [LinearOrder K] [IsStrictOrderedRing K]
    (P : K → Bool) (lo hi : K) (iters : Nat) (h : lo < hi) :
    lo < (M3d.Bisect.mcSearchPoint P lo hi iters).1 ∧ (M3d.Bisect.mcSearchPoint P lo hi iters).1 < hi :=
  mcSearchPoint_strict P lo hi iters h

open M3d.C01Search in
/-- **Distinct lattice positions are searched to distinct points** (lattice `o + k·δ` per axis, `δ > 0`): a
coordinate that is a lattice value is never strictly between two consecutive lattice values, and the open
intervals of different lattice edges are disjoint.  So `mcSearch` never merges two vertices — no degenerate
triangle, no edge used twice, no two fans pinched together. -/
theorem search_positions_distinct {K : Type} [Field K] [LinearOrder K] [IsStrictOrderedRing K]
    (o : K × K × K) (δ : K) (hδ : 0 < δ) (solid : K × K × K → Bool) (iters : Nat) :
    Function.Injective (searchPos o δ solid iters) :=
  searchPos_injective o δ hδ solid iters

open M3d.C01Search in
/-- **Every edge of a SEARCHED marching-cubes mesh is shared by exactly two triangles that traverse it in opposite
directions, on every lattice, for every solid and every iteration count**: for every pair of points `p q` of
space, the number of triangle sides of `searchMesh … (mcMesh mcTable nx ny nz lab)` running `p → q` equals the
number running `q → p` and is at most one (`mc_edges_balanced_on_every_lattice` transported along the injective
vertex map). -/
theorem mc_search_edges_balanced_on_every_lattice {K : Type} [Field K] [LinearOrder K] [IsStrictOrderedRing K]
    (nx ny nz : Nat) (lab : Nat → Nat → Nat → Bool)
    (hb : ∀ x y z, (x = 0 ∨ y = 0 ∨ z = 0 ∨ nx ≤ x ∨ ny ≤ y ∨ nz ≤ z) → lab x y z = false)
    (o : K × K × K) (δ : K) (hδ : 0 < δ) (solid : K × K × K → Bool) (iters : Nat) (p q : K × K × K) :
    pecnt (searchMesh o δ solid iters (mcMesh mcTable nx ny nz lab)) (p, q) =
      pecnt (searchMesh o δ solid iters (mcMesh mcTable nx ny nz lab)) (q, p) ∧
    pecnt (searchMesh o δ solid iters (mcMesh mcTable nx ny nz lab)) (p, q) ≤ 1 := by
  unfold searchMesh
  refine balanced_map _ (searchPos_injective o δ hδ solid iters) _ (fun U V => ?_) p q
  rw [← ecnt_eq_pecnt, ← ecnt_eq_pecnt]
  exact mc_edges_balanced_on_every_lattice nx ny nz lab hb U V

open M3d.C01Search in
/-- … and **no vertex of a searched marching-cubes mesh pinches two sheets**: the link of every point of space in
the searched mesh is empty or the edges of ONE simple closed cycle (`mc_fans_one_cycle_on_every_lattice`
transported along the injective vertex map). -/
theorem mc_search_fans_one_cycle_on_every_lattice {K : Type} [Field K] [LinearOrder K] [IsStrictOrderedRing K]
    (nx ny nz : Nat) (lab : Nat → Nat → Nat → Bool)
    (hb : ∀ x y z, (x = 0 ∨ y = 0 ∨ z = 0 ∨ nx ≤ x ∨ ny ≤ y ∨ nz ≤ z) → lab x y z = false)
    (o : K × K × K) (δ : K) (hδ : 0 < δ) (solid : K × K × K → Bool) (iters : Nat) (p : K × K × K)
    (hne : plink p (searchMesh o δ solid iters (mcMesh mcTable nx ny nz lab)) ≠ []) :
    PFanCycle (plink p (searchMesh o δ solid iters (mcMesh mcTable nx ny nz lab))) := by
  unfold searchMesh at hne ⊢
  refine fans_map _ (searchPos_injective o δ hδ solid iters) _ (fun V hV => ?_) p hne
  rw [← glink_eq_plink] at hV ⊢
  exact (gfanCycle_iff _).1 (mc_fans_one_cycle_on_every_lattice nx ny nz lab hb V hV)

open M3d.C01Search in
/-- **A searched marching-squares outline is closed**: at every point of the plane as many segments of
`searchMesh2 … (msMesh msTable nx ny lab)` start as end, and at most one (`ms_closed_on_every_lattice` transported;
`np` — which end `msSearch` takes for the inside one, read off a segment normal — is arbitrary). -/
theorem ms_search_closed_on_every_lattice {K : Type} [Field K] [LinearOrder K] [IsStrictOrderedRing K]
    (nx ny : Nat) (lab : Nat → Nat → Bool)
    (hb : ∀ x y, (x = 0 ∨ y = 0 ∨ nx ≤ x ∨ ny ≤ y) → lab x y = false)
    (o : K × K) (δ : K) (hδ : 0 < δ) (solid : K × K → Bool) (np : GV2 → Bool) (iters : Nat) (p : K × K) :
    pcnt false (searchMesh2 o δ solid np iters (msMesh msTable nx ny lab)) p =
      pcnt true (searchMesh2 o δ solid np iters (msMesh msTable nx ny lab)) p ∧
    pcnt false (searchMesh2 o δ solid np iters (msMesh msTable nx ny lab)) p ≤ 1 := by
  unfold searchMesh2
  refine closed_map _ (searchPos2_injective o δ hδ solid np iters) _ (fun v => ?_) p
  rw [← cnt_eq_pcnt, ← cnt_eq_pcnt]
  exact ms_closed_on_every_lattice nx ny lab hb v

/-! ### The Conj members (`MarchingCubesConj`, `MarchingSquaresConj`)

The searched mesh of the TRANSFORMED solid is mapped back, vertex by vertex, through the inverse `g` of the joined
transform (`mesh.Transform(joined.Inverse())`), and then every face is reversed (`InvertNormals`) if the mapped mesh
came out inside out: its signed volume (`mcSignedVolume`) / signed area (`msSignedArea`), measured from one of its
own vertices `o`, is negative — `M3d.C01Search.conjMesh g o` / `conjMesh2 g o`.  (Before /repo d1d50a8 the faces were
never reversed and a mirror image in the transform list returned the surface inside out.) -/

open M3d.C01Search in
/-- **`MarchingCubesConj` is edge-balanced for EVERY injective map back** (every inverse of a `Transform` is one),
orientation-preserving or not, whatever the sign test decides and wherever the volume is measured from: every
directed edge at most once and its reverse exactly as often, at every pair of points. -/
theorem mc_conj_edges_balanced_on_every_lattice {K : Type} [Field K] [LinearOrder K] [IsStrictOrderedRing K]
    (nx ny nz : Nat) (lab : Nat → Nat → Nat → Bool)
    (hb : ∀ x y z, (x = 0 ∨ y = 0 ∨ z = 0 ∨ nx ≤ x ∨ ny ≤ y ∨ nz ≤ z) → lab x y z = false)
    (o : K × K × K) (δ : K) (hδ : 0 < δ) (solid : K × K × K → Bool) (iters : Nat)
    (g : K × K × K → K × K × K) (hg : Function.Injective g) (ref p q : K × K × K) :
    pecnt (conjMesh g ref (searchMesh o δ solid iters (mcMesh mcTable nx ny nz lab))) (p, q) =
      pecnt (conjMesh g ref (searchMesh o δ solid iters (mcMesh mcTable nx ny nz lab))) (q, p) ∧
    pecnt (conjMesh g ref (searchMesh o δ solid iters (mcMesh mcTable nx ny nz lab))) (p, q) ≤ 1 := by
  unfold searchMesh
  refine conjMesh_balanced g hg ref _ (searchPos_injective o δ hδ solid iters) _ (fun U V => ?_) p q
  rw [← ecnt_eq_pecnt, ← ecnt_eq_pecnt]
  exact mc_edges_balanced_on_every_lattice nx ny nz lab hb U V

open M3d.C01Search in
/-- … and **every vertex fan of `MarchingCubesConj` is one cycle**, for every injective map back and either outcome
of the sign test (a reversed simple cycle is a simple cycle; lattice triangles have three distinct vertices,
`mc_rows_wellformed`). -/
theorem mc_conj_fans_one_cycle_on_every_lattice {K : Type} [Field K] [LinearOrder K] [IsStrictOrderedRing K]
    (nx ny nz : Nat) (lab : Nat → Nat → Nat → Bool)
    (hb : ∀ x y z, (x = 0 ∨ y = 0 ∨ z = 0 ∨ nx ≤ x ∨ ny ≤ y ∨ nz ≤ z) → lab x y z = false)
    (o : K × K × K) (δ : K) (hδ : 0 < δ) (solid : K × K × K → Bool) (iters : Nat)
    (g : K × K × K → K × K × K) (hg : Function.Injective g) (ref p : K × K × K)
    (hne : plink p (conjMesh g ref (searchMesh o δ solid iters (mcMesh mcTable nx ny nz lab))) ≠ []) :
    PFanCycle (plink p (conjMesh g ref (searchMesh o δ solid iters (mcMesh mcTable nx ny nz lab)))) := by
  unfold searchMesh at hne ⊢
  refine conjMesh_fans g hg ref _ (searchPos_injective o δ hδ solid iters) _ ?_ (fun V hV => ?_) p hne
  · intro t ht
    obtain ⟨h1, h2, h3⟩ := mcMesh_tri_distinct mcTable mc_rows_wellformed nx ny nz lab t ht
    exact ⟨h1, h2, h3⟩
  · rw [← glink_eq_plink] at hV ⊢
    exact (gfanCycle_iff _).1 (mc_fans_one_cycle_on_every_lattice nx ny nz lab hb V hV)

open M3d.C01Search in
/-- **`MarchingSquaresConj`** stays a closed outline under every injective map back and either outcome of the sign
test (reversing every segment exchanges in- and out-degree). -/
theorem ms_conj_closed_on_every_lattice {K : Type} [Field K] [LinearOrder K] [IsStrictOrderedRing K]
    (nx ny : Nat) (lab : Nat → Nat → Bool)
    (hb : ∀ x y, (x = 0 ∨ y = 0 ∨ nx ≤ x ∨ ny ≤ y) → lab x y = false)
    (o : K × K) (δ : K) (hδ : 0 < δ) (solid : K × K → Bool) (np : GV2 → Bool) (iters : Nat)
    (g : K × K → K × K) (hg : Function.Injective g) (ref p : K × K) :
    pcnt false (conjMesh2 g ref (searchMesh2 o δ solid np iters (msMesh msTable nx ny lab))) p =
      pcnt true (conjMesh2 g ref (searchMesh2 o δ solid np iters (msMesh msTable nx ny lab))) p ∧
    pcnt false (conjMesh2 g ref (searchMesh2 o δ solid np iters (msMesh msTable nx ny lab))) p ≤ 1 := by
  unfold searchMesh2
  refine conjMesh2_closed g hg ref _ (searchPos2_injective o δ hδ solid np iters) _ (fun v => ?_) p
  rw [← cnt_eq_pcnt, ← cnt_eq_pcnt]
  exact ms_closed_on_every_lattice nx ny lab hb v

open M3d.C01Search in
/-- **The sign test of `MarchingCubesConj` reverses the faces exactly when the map back reverses orientation**, for
EVERY invertible affine map back `g : p ↦ L p + w` (`Aff3`: `Translate`, `Scale`, `VecScale`, `Matrix3Transform`, their
inverses and all their compositions, `Aff3.comp` / `Aff3.det_comp`), every closed triangle soup of positive signed volume
in the transformed space, and every point `ref` the volume is measured from: the result is, triangle for triangle,
`conjTri g` of the input — mapped back, and reversed iff `det L < 0`.  (The signed volume of a closed soup is
multiplied by `det L` under the map and does not depend on the reference point, `vol6At_affine`.)  Its signed volume
is positive from wherever it is measured. -/
theorem conj_flip_iff_reversing {K : Type} [Field K] [LinearOrder K] [IsStrictOrderedRing K]
    (g : Aff3 K) (hd : g.det ≠ 0) (ref ref' : K × K × K) (ts : List ((K × K × K) × (K × K × K) × (K × K × K)))
    (hclosed : ∀ p q, pecnt ts (p, q) = pecnt ts (q, p)) (hvol : 0 < vol6 ts) :
    conjMesh g.apply ref ts = ts.map (conjTri g) ∧ 0 < vol6At ref' (conjMesh g.apply ref ts) :=
  ⟨conjMesh_eq g hd ref ts hclosed hvol, conjMesh_vol_pos g hd ref ref' ts hclosed hvol⟩

open M3d.C01Search in
/-- **Normals of `MarchingCubesConj` point the way they did in the transformed space, for every invertible affine map
back**: if a direction `v` lies on the normal side of a triangle `t` of the transformed space (`normal(t) · v > 0`: `v`
leaves the transformed solid through `t`), then the mapped-back direction `L v` lies on the normal side of the
triangle returned for `t`.  The solid of the original space is the image of the transformed one under `g`, so
the normals point from its contained to its excluded side.  Without the reversal (`conjTri` replaced by the bare
map) this fails for every `g` with `det L < 0`: `ndot_map`. -/
theorem conj_normals_follow_the_solid {K : Type} [Field K] [LinearOrder K] [IsStrictOrderedRing K]
    (g : Aff3 K) (hd : g.det ≠ 0) (t : (K × K × K) × (K × K × K) × (K × K × K)) (v : K × K × K)
    (h : 0 < ndot t v) : 0 < ndot (conjTri g t) (g.lin v) :=
  conjTri_outward g hd t v h

open M3d.C01Search in
/-- 2-D twins for `MarchingSquaresConj` (`Aff2`; the contained side is on the right of every segment: shoelace sum
negative, `ndot2 s v > 0` iff `v` points to the excluded side). -/
theorem conj2_flip_iff_reversing {K : Type} [Field K] [LinearOrder K] [IsStrictOrderedRing K]
    (g : Aff2 K) (hd : g.det ≠ 0) (ref ref' : K × K) (ss : List ((K × K) × (K × K)))
    (hclosed : ∀ v, pcnt false ss v = pcnt true ss v) (hvol : shoe2 ss < 0) :
    conjMesh2 g.apply ref ss = ss.map (conjSeg g) ∧ shoe2At ref' (conjMesh2 g.apply ref ss) < 0 :=
  ⟨conjMesh2_eq g hd ref ss hclosed hvol, conjMesh2_shoe_neg g hd ref ref' ss hclosed hvol⟩

open M3d.C01Search in
/-- … and a direction on the excluded side of a segment of the transformed plane (`ndot2 s v > 0`: to the left of the
segment) is, mapped back, on the excluded side of the segment `MarchingSquaresConj` returns for it, for every invertible
affine map back. -/
theorem conj2_normals_follow_the_solid {K : Type} [Field K] [LinearOrder K] [IsStrictOrderedRing K]
    (g : Aff2 K) (hd : g.det ≠ 0) (s : (K × K) × (K × K)) (v : K × K)
    (h : 0 < ndot2 s v) : 0 < ndot2 (conjSeg g s) (g.lin v) :=
  conjSeg_outward g hd s v h

open M3d.C01Search in
/-- **`MarchingCubesConj` is outward on every lattice, for every invertible affine transform list**
(orientation-preserving or not) — PARTIAL in one hypothesis: `hvol`, the searched mesh of the transformed solid has
positive signed volume.  (Closedness of that mesh is `mc_search_edges_balanced_on_every_lattice`; that its triangles
face outward is per cell `mc_fan_is_outward_path`; the positivity of the total volume is not mechanised for all
lattices — the driver evaluates the exact volume of the lattice mesh on every `mc`/`mcs`/`mcj` case and that of the real
mesh on every `soup3` case.)  Conclusion: the result is the searched mesh mapped back, every triangle reversed iff
`det L < 0`; its signed volume is positive; every direction on the normal side of a triangle of the transformed space
is, mapped back, on the normal side of the returned triangle.
Full statement without `hvol`: not proved. -/
theorem mc_conj_outward_on_every_lattice_partial {K : Type} [Field K] [LinearOrder K] [IsStrictOrderedRing K]
    (nx ny nz : Nat) (lab : Nat → Nat → Nat → Bool)
    (hb : ∀ x y z, (x = 0 ∨ y = 0 ∨ z = 0 ∨ nx ≤ x ∨ ny ≤ y ∨ nz ≤ z) → lab x y z = false)
    (o : K × K × K) (δ : K) (hδ : 0 < δ) (solid : K × K × K → Bool) (iters : Nat)
    (g : Aff3 K) (hd : g.det ≠ 0) (ref ref' : K × K × K)
    (hvol : 0 < vol6 (searchMesh o δ solid iters (mcMesh mcTable nx ny nz lab))) :
    conjMesh g.apply ref (searchMesh o δ solid iters (mcMesh mcTable nx ny nz lab)) =
      (searchMesh o δ solid iters (mcMesh mcTable nx ny nz lab)).map (conjTri g) ∧
    0 < vol6At ref' (conjMesh g.apply ref (searchMesh o δ solid iters (mcMesh mcTable nx ny nz lab))) ∧
    ∀ t ∈ searchMesh o δ solid iters (mcMesh mcTable nx ny nz lab), ∀ v, 0 < ndot t v →
      0 < ndot (conjTri g t) (g.lin v) := by
  have hc : ∀ p q, pecnt (searchMesh o δ solid iters (mcMesh mcTable nx ny nz lab)) (p, q) =
      pecnt (searchMesh o δ solid iters (mcMesh mcTable nx ny nz lab)) (q, p) :=
    fun p q => (mc_search_edges_balanced_on_every_lattice nx ny nz lab hb o δ hδ solid iters p q).1
  obtain ⟨h1, h2⟩ := conj_flip_iff_reversing g hd ref ref' _ hc hvol
  exact ⟨h1, h2, fun t _ v hv => conjTri_outward g hd t v hv⟩

open M3d.C01Search in
/-- 2-D twin (`MarchingSquaresConj`), PARTIAL in `hvol`: the searched outline of the transformed solid runs clockwise
(negative shoelace sum; per cell `ms_role_rule`). -/
theorem ms_conj_outward_on_every_lattice_partial {K : Type} [Field K] [LinearOrder K] [IsStrictOrderedRing K]
    (nx ny : Nat) (lab : Nat → Nat → Bool)
    (hb : ∀ x y, (x = 0 ∨ y = 0 ∨ nx ≤ x ∨ ny ≤ y) → lab x y = false)
    (o : K × K) (δ : K) (hδ : 0 < δ) (solid : K × K → Bool) (np : GV2 → Bool) (iters : Nat)
    (g : Aff2 K) (hd : g.det ≠ 0) (ref ref' : K × K)
    (hvol : shoe2 (searchMesh2 o δ solid np iters (msMesh msTable nx ny lab)) < 0) :
    conjMesh2 g.apply ref (searchMesh2 o δ solid np iters (msMesh msTable nx ny lab)) =
      (searchMesh2 o δ solid np iters (msMesh msTable nx ny lab)).map (conjSeg g) ∧
    shoe2At ref' (conjMesh2 g.apply ref (searchMesh2 o δ solid np iters (msMesh msTable nx ny lab))) < 0 ∧
    ∀ s ∈ searchMesh2 o δ solid np iters (msMesh msTable nx ny lab), ∀ v, 0 < ndot2 s v →
      0 < ndot2 (conjSeg g s) (g.lin v) := by
  have hc : ∀ v, pcnt false (searchMesh2 o δ solid np iters (msMesh msTable nx ny lab)) v =
      pcnt true (searchMesh2 o δ solid np iters (msMesh msTable nx ny lab)) v :=
    fun v => (ms_search_closed_on_every_lattice nx ny lab hb o δ hδ solid np iters v).1
  obtain ⟨h1, h2⟩ := conj2_flip_iff_reversing g hd ref ref' _ hc hvol
  exact ⟨h1, h2, fun s _ v hv => conjSeg_outward g hd s v hv⟩

open M3d.C01Search in
/-- Non-vacuity of `hvol` in the two `_partial` theorems: over ℚ, unit spacing, no search iterations, the octahedron
round one inside lattice point has positive signed volume, the square round one inside point a negative shoelace sum. -/
example :
    let lab : Nat → Nat → Nat → Bool := fun x y z => x == 1 && y == 1 && z == 1
    0 < vol6 (searchMesh ((0 : ℚ), (0 : ℚ), (0 : ℚ)) 1 (fun _ => false) 0 (mcMesh mcTable 2 2 2 lab)) := by
  decide +kernel

open M3d.C01Search in
example :
    let lab : Nat → Nat → Bool := fun x y => x == 1 && y == 1
    shoe2 (searchMesh2 ((0 : ℚ), (0 : ℚ)) 1 (fun _ => false) (fun _ => false) 0 (msMesh msTable 2 2 lab)) < 0 := by
  decide +kernel

open M3d.C01Search in
/-- Non-vacuity: the tetrahedron `0, e₁, e₂, e₃` over ℚ is closed with `vol6 = 1`; under the mirror image `x ↦ −x`
(`det = −1`) `conjMesh` returns the four triangles mapped AND reversed, measured from any vertex; the bare map back
(what the code returned before the fix) has volume `−1`. -/
example :
    let pts : Fin 4 → ℚ × ℚ × ℚ := fun i =>
      if i = 0 then (0, 0, 0) else if i = 1 then (1, 0, 0) else if i = 2 then (0, 1, 0) else (0, 0, 1)
    let ids : List (Fin 4 × Fin 4 × Fin 4) := [(0, 2, 1), (0, 1, 3), (1, 2, 3), (2, 0, 3)]
    let ts := ids.map (map3 pts)
    let g : Aff3 ℚ := ⟨-1, 0, 0, 0, 1, 0, 0, 0, 1, 0, 0, 0⟩
    conjMesh g.apply (g.apply (pts 3)) ts = ts.map (fun t => flip3 (map3 g.apply t)) ∧
      vol6At (pts 0) (ts.map (map3 g.apply)) = -1 ∧ vol6At (pts 0) (conjMesh g.apply (g.apply (pts 3)) ts) = 1 := by
  intro pts ids ts g
  have hd : g.det ≠ 0 := by norm_num [g, Aff3.det]
  have hneg : g.det < 0 := by norm_num [g, Aff3.det]
  have e0 : pts 0 = (0, 0, 0) := rfl
  have e1 : pts 1 = (1, 0, 0) := rfl
  have e2 : pts 2 = (0, 1, 0) := rfl
  have e3 : pts 3 = (0, 0, 1) := rfl
  have hinj : Function.Injective pts := by
    intro i j h
    fin_cases i <;> fin_cases j <;> simp [pts] at h ⊢
  have hids : ∀ U V, pecnt ids (U, V) = pecnt ids (V, U) ∧ pecnt ids (U, V) ≤ 1 := by decide
  have hc : ∀ p q, pecnt ts (p, q) = pecnt ts (q, p) := fun p q => (balanced_map pts hinj ids hids p q).1
  have hts : ts = [((0, 0, 0), (0, 1, 0), (1, 0, 0)), ((0, 0, 0), (1, 0, 0), (0, 0, 1)),
      ((1, 0, 0), (0, 1, 0), (0, 0, 1)), ((0, 1, 0), (0, 0, 0), (0, 0, 1))] := by
    simp only [ts, ids, List.map_cons, List.map_nil, map3, e0, e1, e2, e3]
  have hv : 0 < vol6 ts := by rw [hts]; norm_num [vol6, lsum, det3]
  have hmap : ts.map (conjTri g) = ts.map (fun t => flip3 (map3 g.apply t)) := by
    apply List.map_congr_left
    intro t _
    simp only [conjTri, hneg, if_true]
  refine ⟨?_, ?_, ?_⟩
  · rw [(conj_flip_iff_reversing g hd _ (pts 0) ts hc hv).1, hmap]
  · rw [hts, e0]; norm_num [vol6At, det3, sub3, map3, Aff3.apply, Aff3.lin, g]
  · rw [(conj_flip_iff_reversing g hd _ (pts 0) ts hc hv).1, hmap, hts, e0]
    norm_num [vol6At, det3, sub3, map3, flip3, Aff3.apply, Aff3.lin, g]

open M3d.C01Search in
/-- Non-vacuity (and the reason the theorems above are about the FIRST component of `mcSearchPoint`): for the solid
that contains the lattice origin and nothing else of the two lattice edges leaving it along `x` and `y`, the
interior probes of these two different edges are the same point — the origin — for every iteration count; a mesh
built from the probes would have merged the two vertices. -/
theorem interior_probe_collapses {K : Type} [Field K] [LinearOrder K] [IsStrictOrderedRing K]
    (o : K × K × K) (δ : K) (hδ : 0 < δ) (iters : Nat) :
    interiorPos o δ (fun p => decide (p = o)) iters (1, 0, 0) = interiorPos o δ (fun p => decide (p = o)) iters (0, 1, 0) ∧
    searchPos o δ (fun p => decide (p = o)) iters (1, 0, 0) ≠ searchPos o δ (fun p => decide (p = o)) iters (0, 1, 0) :=
  ⟨interiorPos_collapse o δ hδ iters, fun h => by
    have := searchPos_injective o δ hδ (fun p => decide (p = o)) iters h
    simp at this⟩

/-! ## Box sets: the face cancellation of `RectSet.ExactMesh`

`RectSet.Mesh()` = `ExactMesh()` + the singular edge / vertex repair.  `ExactMesh` lists the six quads of every stored
box and keeps a quad iff its key (`quadMinMax`) was seen an odd number of times (`M3d.RectMesh.exactQuads`, compared
with the real `ExactMesh()` triangle-for-triangle by the kind `rsmesh`).  That this removes exactly the interior faces
rests on the representation invariant of the set — the stored boxes are distinct CELLS of one grid —, which C04 proves
for every history of `Add / Remove / AddRectSet / RemoveRectSet` (`M3d.RectSet.hinv`, `M3d.C04.rectset_history_aligned`).
A set whose boxes were not cut along the receiver's planes (what `AddRectSet` would store if it split the incoming
boxes along their own set's grid) breaks it: overlapping boxes keep their interior faces. -/

section RectMesh
open M3d.RectSet M3d.RectMesh
variable {K : Type} [LinearOrder K] [OfNat K 0]

/-- Every history whose boxes have positive extent stores boxes of positive extent. -/
theorem rectset_history_positive (h : Hist K) (hb : ∀ r ∈ h.boxes, Pos r) : ∀ q ∈ h.eval.rects, Pos q :=
  hist_pos h hb

/-- **Face cancellation, exactly, after every history** (`NewRectSet`, then any finite sequence of `Add`, `Remove`,
`AddRectSet`, `RemoveRectSet` of boxes of positive extent, argument sets built the same way): a quad is left in
`uniqueQuads` iff it is a face of a stored box that NO OTHER stored box has — the loop never drops a face that only
one box has, never keeps one that two have, and (three boxes cannot have the same face) that is all. -/
theorem exactmesh_face_kept_iff_unshared (h : Hist K) (hb : ∀ r ∈ h.boxes, Pos r) (q : Quad K) :
    q ∈ exactQuads h.eval.rects ↔
      ∃ c ∈ h.eval.rects, q ∈ boxQuads c ∧
        ∀ c' ∈ h.eval.rects, c' ≠ c → quadKey q ∉ (boxQuads c').map quadKey :=
  exactQuads_iff (hinv h).inv (hist_pos h hb) q

/-- … and a face that two different stored boxes have is the face BETWEEN two adjacent cells: the boxes have the same
extent on the other two axes and the max face of one is the min face of the other — an interior face of the union.
So the kept quads are the faces of stored cells whose neighbour across the face is not stored: the boundary. -/
theorem exactmesh_shared_face_is_between_adjacent_cells (h : Hist K) (hb : ∀ r ∈ h.boxes, Pos r)
    {c c' : Rect K} (hc : c ∈ h.eval.rects) (hc' : c' ∈ h.eval.rects) (hne : c ≠ c') {k : V3 K × V3 K}
    (hk : k ∈ (boxQuads c).map quadKey) (hk' : k ∈ (boxQuads c').map quadKey) :
    ∃ a, a < 3 ∧ (∀ b, b < 3 → b ≠ a → c.lo.get b = c'.lo.get b ∧ c.hi.get b = c'.hi.get b) ∧
      ((c.hi.get a = c'.lo.get a ∧ k = faceKey c a true ∧ k = faceKey c' a false) ∨
       (c.lo.get a = c'.hi.get a ∧ k = faceKey c a false ∧ k = faceKey c' a true)) :=
  shared_face_adjacent (hinv h).inv (hist_pos h hb) hc hc' hne hk hk'

/-- **`ExactMesh()` is a closed surface after every history**: among its triangles the number of sides running
`p → q` equals the number running `q → p`, for every pair of points (`pecnt`, the directed-side count of
`M3d.C01Search`).  Proof: the triangles of ALL listed quads are balanced box by box (the surface of one box,
kernel-checked on the abstract cube, `absSides_balanced`); the quads the loop drops come in pairs, the max face of a
cell and the min face of its neighbour, and the second is the first with its vertex order reversed on the same
diagonal (`quadOf_adjacent`, `cntD_qrev`), so the dropped triangles are balanced among themselves
(`dropped_closed`); the kept ones are the difference.  Along an edge where two boxes touch diagonally the count
is 2 in each direction: closed, but singular — the edges (and vertices) `Mesh()` then repairs
(`FixSingularEdges`, `FixSingularVertices`; judged per instance, kinds `rectset` / `rectops`). -/
theorem exactmesh_is_closed (h : Hist K) (hb : ∀ r ∈ h.boxes, Pos r) (p q : V3 K) :
    M3d.C01Search.pecnt (exactMesh h.eval.rects) (p, q) = M3d.C01Search.pecnt (exactMesh h.eval.rects) (q, p) :=
  exactMesh_balanced (hinv h).inv (hist_pos h hb) (p, q)

/-- Non-vacuity: two unit boxes added side by side: 12 quads listed, the common face cancelled, 10 left = 20
triangles; and what the invariant is needed for: the same loop over two OVERLAPPING boxes that were not cut
along each other's planes keeps all 12 quads, interior ones included. -/
example :
    let h : Hist Int := .add (.add .new ⟨⟨0, 0, 0⟩, ⟨1, 1, 1⟩⟩) ⟨⟨1, 0, 0⟩, ⟨2, 1, 1⟩⟩
    (exactQuads h.eval.rects).length = 10 ∧ (exactMesh h.eval.rects).length = 20 ∧
    (exactQuads [(⟨⟨0, 0, 0⟩, ⟨2, 2, 2⟩⟩ : Rect Int), ⟨⟨1, 0, 0⟩, ⟨3, 2, 2⟩⟩]).length = 12 := by
  decide +kernel

end RectMesh

/-- **The quads `ExactMesh` lists face away from their box** (so the kept ones, being faces of stored cells whose
neighbour is not stored, have their normals pointing from the contained to the excluded side): for a box of positive
extent, both triangles `Mesh.AddQuad` makes of the quad of face `(axis, side)` have a normal along `axis` only, positive
on the max side, negative on the min side.  Over every linear ordered field. -/
theorem exactmesh_quads_face_outward {K : Type} [Field K] [LinearOrder K] [IsStrictOrderedRing K]
    (r : M3d.RectSet.Rect K) (h : M3d.RectMesh.Pos r) :
    ∀ p ∈ (M3d.RectMesh.boxQuads r).zip M3d.RectMesh.faces, ∀ t ∈ M3d.RectMesh.quadTris p.1,
      M3d.RectMesh.OutwardOn p.2.1 p.2.2 t :=
  M3d.RectMesh.boxQuads_outward r h

/-! ## The box primitive (`NewMeshRect`, 3-D and 2-D) — for ALL valid parameters

`model3d.NewMeshRect(min, max)` adds, with `AddQuad`, the same six quads `ExactMesh` lists for one box
(`M3d.RectMesh.meshRect`, compared with the real triangle list by the kind `meshrect`); `model2d.NewMeshRect` the four
segments `min → (min.X, max.Y) → max → (max.X, min.Y) → min` (`meshRect2`, kind `meshrect2`). -/

section MeshRect
open M3d.RectSet M3d.RectMesh M3d.C01Search
variable {K : Type} [LinearOrder K] [OfNat K 0]

/-- **`NewMeshRect` is a closed manifold for every box of positive extent**: every directed edge at most once and
its reverse exactly as often, at every pair of points; the link of every point is empty or ONE simple cycle.
(Kernel-checked on the abstract cube `Bool³`, transported along the corner map, which is injective for positive
extent.)  Orientation: `exactmesh_quads_face_outward` — the same quads. -/
theorem mesh_rect_is_closed_manifold (r : Rect K) (h : Pos r) :
    (∀ p q, pecnt (meshRect r) (p, q) = pecnt (meshRect r) (q, p) ∧ pecnt (meshRect r) (p, q) ≤ 1) ∧
    (∀ p, plink p (meshRect r) ≠ [] → PFanCycle (plink p (meshRect r))) ∧ (meshRect r).length = 12 :=
  ⟨meshRect_balanced r h, meshRect_fans r h, rfl⟩

/-- **`model2d.NewMeshRect` is a closed outline** for `min < max` on both axes: at every point as many segments
start as end, and at most one. -/
theorem mesh_rect2_is_closed (lo hi : K × K) (hx : lo.1 < hi.1) (hy : lo.2 < hi.2) (p : K × K) :
    pcnt false (meshRect2 lo hi) p = pcnt true (meshRect2 lo hi) p ∧ pcnt false (meshRect2 lo hi) p ≤ 1 :=
  meshRect2_closed lo hi hx hy p

end MeshRect

/-! ## Conj members, round 5: the translation part of the transform list

`conj_flip_iff_reversing` is about every affine map back `p ↦ L p + w`; the theorems below spell out what that means for
`w` (seeded change C01-11 guarded the sign test of `MarchingCubesConj` by a handedness probe that applies the map to the
unit POINTS `X(1), Y(1), Z(1)` and forgets to subtract the image of the origin).  Kinds `mcj` / `msj`, `soup3/mcj`,
`soup2/msj` with the lists of `conjFar3 / conjFar2` (harness/cmd/c01/conj.go): mirror images about planes / points /
diagonal planes that do not pass through the origin, glide reflections, offsets up to 8. -/
section ConjTranslations
open M3d.C01Search

/-- **The translation part of a transform list is irrelevant to the orientation `MarchingCubesConj` must restore.**  Two
invertible affine maps back with the same linear part `L` — the mirror image about `x = 0` and the mirror image about
`x = c`, say — make `conjMesh` return the same triangles in the same vertex order (same reversal decision), merely
translated; for every closed soup of positive volume, every pair of reference points. -/
theorem conj_translation_is_irrelevant {K : Type} [Field K] [LinearOrder K] [IsStrictOrderedRing K]
    (g : Aff3 K) (hd : g.det ≠ 0) (w ref ref' : K × K × K) (ts : List ((K × K × K) × (K × K × K) × (K × K × K)))
    (hclosed : ∀ p q, pecnt ts (p, q) = pecnt ts (q, p)) (hvol : 0 < vol6 ts) :
    conjMesh (g.withW w).apply ref' ts =
      (conjMesh g.apply ref ts).map (map3 (shift3 (w.1 - g.w1, w.2.1 - g.w2, w.2.2 - g.w3))) :=
  conjMesh_translation_irrelevant g hd w ref ref' ts hclosed hvol

/-- **A member that skips the reversal on an orientation-reversing list returns the surface inside out**: for `det L < 0`
the bare mapped mesh of a closed soup of positive volume has NEGATIVE signed volume from wherever it is measured, and a
direction that left the transformed solid through a triangle meets the mapped triangle against its normal.  So whatever
precedes the sign test (`mcSignedVolume(mesh) < 0`) must not switch it off when `det L < 0`. -/
theorem conj_unreversed_is_inside_out {K : Type} [Field K] [LinearOrder K] [IsStrictOrderedRing K]
    (g : Aff3 K) (hd : g.det < 0) (ref : K × K × K) (ts : List ((K × K × K) × (K × K × K) × (K × K × K)))
    (hclosed : ∀ p q, pecnt ts (p, q) = pecnt ts (q, p)) (hvol : 0 < vol6 ts) :
    vol6At ref (ts.map (map3 g.apply)) < 0 ∧
      ∀ t v, 0 < ndot t v → ndot (map3 g.apply t) (g.lin v) < 0 :=
  ⟨map_back_unreversed_inside_out g hd ref ts hclosed hvol,
   fun t v h => map_back_unreversed_normal_inward g hd t v h⟩

/-- **A frame of POINTS does not measure orientation.**  The triple product of the images of the unit directions
(`g(eᵢ) − g(0)`) is `det L`; the triple product of the images of the unit points is `det (L + w 1ᵀ)` — equal to `det L`
for linear maps, but for the mirror image about the plane `x = c` (`Translate(−c), VecScale(−1,1,1), Translate(c)`)
it is `2c − 1` while `det L = −1`: non-negative for every `c ≥ 1/2`. -/
theorem point_frame_probe_is_not_the_determinant {K : Type} [Field K] [LinearOrder K] [IsStrictOrderedRing K] :
    (∀ g : Aff3 K, g.dirFrame = g.det) ∧
    (∀ g : Aff3 K, g.w1 = 0 → g.w2 = 0 → g.w3 = 0 → g.pointFrame = g.det) ∧
    (∀ c : K, (Aff3.mirrorX c).det = -1 ∧ (Aff3.mirrorX c).pointFrame = 2 * c - 1) ∧
    (∀ c : K, 1 / 2 ≤ c → (Aff3.mirrorX c).det < 0 ∧ 0 ≤ (Aff3.mirrorX c).pointFrame) := by
  refine ⟨Aff3.dirFrame_eq_det, Aff3.pointFrame_linear, fun c => ⟨Aff3.mirrorX_det c, Aff3.mirrorX_pointFrame c⟩,
    fun c hc => ?_⟩
  rw [Aff3.mirrorX_det, Aff3.mirrorX_pointFrame]
  constructor
  · norm_num
  · linarith

/-- 2-D twins (`MarchingSquaresConj`). -/
theorem conj2_unreversed_is_inside_out {K : Type} [Field K] [LinearOrder K] [IsStrictOrderedRing K]
    (g : Aff2 K) (hd : g.det < 0) (ref : K × K) (ss : List ((K × K) × (K × K)))
    (hclosed : ∀ v, pcnt false ss v = pcnt true ss v) (hvol : shoe2 ss < 0) :
    0 < shoe2At ref (ss.map (map2 g.apply)) :=
  map_back_unreversed_inside_out2 g hd ref ss hclosed hvol

theorem point_frame_probe_is_not_the_determinant2 {K : Type} [Field K] [LinearOrder K] [IsStrictOrderedRing K] :
    (∀ g : Aff2 K, g.dirFrame = g.det) ∧
    (∀ c : K, (Aff2.mirrorX c).det = -1 ∧ (Aff2.mirrorX c).pointFrame = 2 * c - 1) :=
  ⟨Aff2.dirFrame_eq_det, fun c => ⟨Aff2.mirrorX_det c, Aff2.mirrorX_pointFrame c⟩⟩

/-- Non-vacuity: the tetrahedron `0, e₁, e₂, e₃` over ℚ mirrored about the plane `x = 2` (`det = −1`, point frame
`= 3 > 0`): `conjMesh` returns the four triangles mapped AND reversed with volume `1`; the bare map back has volume
`−1` (what seeded C01-11 returned: its probe said "orientation-preserving" and the sign test never ran). -/
example :
    let pts : Fin 4 → ℚ × ℚ × ℚ := fun i =>
      if i = 0 then (0, 0, 0) else if i = 1 then (1, 0, 0) else if i = 2 then (0, 1, 0) else (0, 0, 1)
    let ids : List (Fin 4 × Fin 4 × Fin 4) := [(0, 2, 1), (0, 1, 3), (1, 2, 3), (2, 0, 3)]
    let ts := ids.map (map3 pts)
    let g : Aff3 ℚ := Aff3.mirrorX 2
    g.pointFrame = 3 ∧ g.det = -1 ∧
      conjMesh g.apply (g.apply (pts 3)) ts = ts.map (fun t => flip3 (map3 g.apply t)) ∧
      vol6At (pts 0) (ts.map (map3 g.apply)) = -1 ∧ vol6At (pts 0) (conjMesh g.apply (g.apply (pts 3)) ts) = 1 := by
  intro pts ids ts g
  have hdet : g.det = -1 := Aff3.mirrorX_det 2
  have hd : g.det ≠ 0 := by rw [hdet]; norm_num
  have hneg : g.det < 0 := by rw [hdet]; norm_num
  have e0 : pts 0 = (0, 0, 0) := rfl
  have e1 : pts 1 = (1, 0, 0) := rfl
  have e2 : pts 2 = (0, 1, 0) := rfl
  have e3 : pts 3 = (0, 0, 1) := rfl
  have hinj : Function.Injective pts := by
    intro i j h
    fin_cases i <;> fin_cases j <;> simp [pts] at h ⊢
  have hids : ∀ U V, pecnt ids (U, V) = pecnt ids (V, U) ∧ pecnt ids (U, V) ≤ 1 := by decide
  have hc : ∀ p q, pecnt ts (p, q) = pecnt ts (q, p) := fun p q => (balanced_map pts hinj ids hids p q).1
  have hts : ts = [((0, 0, 0), (0, 1, 0), (1, 0, 0)), ((0, 0, 0), (1, 0, 0), (0, 0, 1)),
      ((1, 0, 0), (0, 1, 0), (0, 0, 1)), ((0, 1, 0), (0, 0, 0), (0, 0, 1))] := by
    simp only [ts, ids, List.map_cons, List.map_nil, map3, e0, e1, e2, e3]
  have hv : 0 < vol6 ts := by rw [hts]; norm_num [vol6, lsum, det3]
  have hmap : ts.map (conjTri g) = ts.map (fun t => flip3 (map3 g.apply t)) := by
    apply List.map_congr_left
    intro t _
    simp only [conjTri, hneg, if_true]
  refine ⟨?_, hdet, ?_, ?_, ?_⟩
  · rw [show g = Aff3.mirrorX 2 from rfl, Aff3.mirrorX_pointFrame]; norm_num
  · rw [(conj_flip_iff_reversing g hd _ (pts 0) ts hc hv).1, hmap]
  · rw [hts, e0]; norm_num [vol6At, det3, sub3, map3, Aff3.mirrorX_apply, g]
  · rw [(conj_flip_iff_reversing g hd _ (pts 0) ts hc hv).1, hmap, hts, e0]
    norm_num [vol6At, det3, sub3, map3, flip3, Aff3.mirrorX_apply, g]

end ConjTranslations

/-! ## Polytope meshes: constraints whose normals are not unit length

`ConvexPolytope.Mesh()` builds every face from the plane intersections `ConvexPolytope.vertex` accepts (model
`M3d.Bd.vertex3 / vertex2 / meshVerts3 / meshVerts2`, `Model/BoundedPoly.lean` — C03's, compared with the real vertex
enumeration bit for bit at `Float` by C03's kind `pvert`).  A `LinearConstraint` may have a normal of any length
(`RectUnnormalized` in the package's tests: `1e90`, `1e50`): the same polytope written with every inequality multiplied
by its own positive factor must give the same mesh — C01's "closed oriented manifolds for all valid parameters" includes
these systems (kinds `soup3/polytope_unnormalized`, `soup2/polytope2d_unnormalized`, harness/cmd/c01/polytope.go:
geometry scales `10⁻⁷ … 10³`, factors `2⁻⁶⁰ … 2⁶⁰`, decimal factors, raw cross products of edge vectors). -/
section PolytopeScale
open M3d.Bd

/-- **The vertices `ConvexPolytope.Mesh()` builds its faces from do not depend on how long the normals are written.**
For every list of half-spaces `n·p ≤ m`, each multiplied by its own positive factor `s` (`Normal = s·n`, `Max = s·m`),
the 3-D and the 2-D vertex enumeration return exactly the vertices of the unscaled system, in the same order (for every
square-root function with `sqrt x ≥ 0`, `sqrt x · sqrt x = x`, every conditioning tolerance).  Every step is invariant:
the conditioning test `|det| < |n₁||n₂||n₃|·1e-8` is relative to the normals' lengths, the solved point does not depend
on the factors, `spatialEpsilon` is built from the offsets `|Max|/|Normal|`, and the feasibility test compares
`Normal·v − Max` with `epsilon·|Normal|`. -/
theorem polytope_mesh_vertices_scale_invariant {K : Type} [Field K] [LinearOrder K] [IsStrictOrderedRing K]
    (sq : K → K) (hsq : SqrtOK sq) (tol : K) (l : List (SCon K)) (hs : ∀ c ∈ l, 0 < c.s) :
    meshVerts3 sq tol (scaledCs l) = meshVerts3 sq tol (unscaledCs l) ∧
    meshVerts2 sq tol (scaledCs l) = meshVerts2 sq tol (unscaledCs l) :=
  ⟨meshVerts3_scaled sq hsq tol l hs, meshVerts2_scaled sq hsq tol l hs⟩

/-- **The feasibility tolerance of `vertex` is a DISTANCE.**  With non-zero normals the acceptance loop accepts a
candidate `v` iff the signed distance `(n·v − m)/|n|` from `v` to every other half-space is at most `epsilon` — a
statement about the half-spaces, not about the way their inequalities are written. -/
theorem polytope_vertex_accepted_iff_within_distance {K : Type} [Field K] [LinearOrder K] [IsStrictOrderedRing K]
    (sq : K → K) (epsilon : K) (others : List (Pt K × K)) (v : Pt K) (hn : ∀ l ∈ others, 0 < pnorm sq l.1) :
    vertexOk sq epsilon others v = true ↔ ∀ l ∈ others, (pdot l.1 v - l.2) / pnorm sq l.1 ≤ epsilon :=
  vertexOk_iff_dist sq epsilon others v hn

/-- **Every vertex `Mesh()` uses is the intersection point of its three (two) planes and lies within `epsilon` of every
other half-space** — for non-zero normals and a positive conditioning tolerance.  (The converse direction — every vertex
of a bounded polytope is enumerated unless the conditioning test rejects it — is `M3d.Bd.basic3_mem / basic2_mem`, used by
C03.) -/
theorem polytope_accepted_vertex_is_sound {K : Type} [Field K] [LinearOrder K] [IsStrictOrderedRing K]
    (sq : K → K) (tol epsilon : K) (htol : 0 < tol) (l1 l2 l3 : Pt K × K) (others : List (Pt K × K))
    (h1 : 0 < pnorm sq l1.1) (h2 : 0 < pnorm sq l2.1) (h3 : 0 < pnorm sq l3.1)
    (ho : ∀ l ∈ others, 0 < pnorm sq l.1) :
    (∀ v, vertex3 sq tol epsilon l1 l2 l3 others = some v →
      pdot l1.1 v = l1.2 ∧ pdot l2.1 v = l2.2 ∧ pdot l3.1 v = l3.2 ∧
        ∀ l ∈ others, (pdot l.1 v - l.2) / pnorm sq l.1 ≤ epsilon) ∧
    (l1.1.z = 0 → l2.1.z = 0 → ∀ v, vertex2 sq tol epsilon l1 l2 others = some v →
      pdot l1.1 v = l1.2 ∧ pdot l2.1 v = l2.2 ∧ ∀ l ∈ others, (pdot l.1 v - l.2) / pnorm sq l.1 ≤ epsilon) :=
  ⟨fun v hv => vertex3_sound sq tol epsilon htol l1 l2 l3 others h1 h2 h3 ho v hv,
   fun hz1 hz2 v hv => vertex2_sound sq tol epsilon htol l1 l2 others h1 h2 hz1 hz2 ho v hv⟩

/-- **A tolerance that is not multiplied by `|Normal|` is not a property of the polytope** (what seeded change C01-10
writes: `l.Normal.Dot(solution) > l.Max + epsilon`).  On a system whose inequalities are all multiplied by `s > 0` that
loop is the same loop on the unscaled system with tolerance `epsilon / s`; hence for every candidate point and every
constraint list there is a factor below which it accepts the point — vertices far outside the polytope included —
while the real loop (`M3d.Bd.vertexOk_scaled`) does not see the factor at all. -/
theorem polytope_absolute_tolerance_scales_with_the_factor {K : Type} [Field K] [LinearOrder K] [IsStrictOrderedRing K]
    (epsilon : K) (others : List (Pt K × K)) (v : Pt K) :
    (∀ s, 0 < s → vertexOkAbs epsilon (others.map fun l => (pscale l.1 s, l.2 * s)) v =
      vertexOkAbs (epsilon / s) others v) ∧
    (0 < epsilon → ∃ s0, 0 < s0 ∧ ∀ s, 0 < s → s ≤ s0 →
      vertexOkAbs epsilon (others.map fun l => (pscale l.1 s, l.2 * s)) v = true) :=
  ⟨fun s hs => vertexOkAbs_scaled epsilon s hs others v,
   fun heps => vertexOkAbs_accepts_everything epsilon heps others v⟩

/-- **A half-space listed again does not change the polytope.**  If every extra constraint is a positive multiple of a
constraint already present — what `append(a, b...)` gives for two polytopes with a common face plane — the half-space
test `ConvexPolytope.Contains` is unchanged for every point: the redundant system is a valid way of writing the same
solid, and C01 demands the same closed manifold of its mesh.  (Before /repo fa653dc `Mesh()` created the face of such a
half-space once per listing, every triangle of it twice; now `repeatsConstraint` skips the later listings.  Kinds
`soup3/polytope_unnormalized`, `soup2/polytope2d_unnormalized`, families `+repeat`, `+second-box`, `+far`.) -/
theorem polytope_repeated_constraint_same_solid {K : Type} [Field K] [LinearOrder K] [IsStrictOrderedRing K]
    (cs extra : List (Pt K × K))
    (h : ∀ e ∈ extra, ∃ l ∈ cs, ∃ s, 0 < s ∧ e = (pscale l.1 s, l.2 * s)) (p : Pt K) :
    polyContains (cs ++ extra) p = polyContains cs p :=
  polyContains_append_repeats cs extra h p

/-- Non-vacuity: the unit square with `x ≤ 1` listed again as `3x ≤ 3`. -/
example (p : Pt ℚ) :
    polyContains ([(mk3 1 0 0, (1 : ℚ)), (mk3 (-1) 0 0, 0), (mk3 0 1 0, 1), (mk3 0 (-1) 0, 0)] ++ [(mk3 3 0 0, 3)]) p =
      polyContains [(mk3 1 0 0, (1 : ℚ)), (mk3 (-1) 0 0, 0), (mk3 0 1 0, 1), (mk3 0 (-1) 0, 0)] p := by
  apply polytope_repeated_constraint_same_solid
  intro e he
  simp only [List.mem_cons, List.not_mem_nil, or_false] at he
  subst he
  exact ⟨(mk3 1 0 0, 1), List.mem_cons_self .., 3, by norm_num, by simp [pscale, mk3, Pt.get]⟩

/-- Non-vacuity (over ℚ, with the exact square root of the squares that occur): the unit square with the corner `(1,1)`
cut off by `x + y ≤ 3/2`, every inequality multiplied by `2⁻³⁴`, tolerance `10⁻⁸`: the model of `Mesh()` enumerates the
five corners of the pentagon, as for unit factors — and the absolute-tolerance loop accepts the cut-off corner `(1, 1)`
(it violates `x + y ≤ 3/2` by `1/2`, far more than `10⁻⁸`) against the scaled constraint, while the real loop rejects it. -/
example :
    let sys : List (SCon ℚ) := [⟨1 / 17179869184, mk3 (-1) 0 0, 0⟩, ⟨1 / 17179869184, mk3 1 0 0, 1⟩,
      ⟨1 / 17179869184, mk3 0 (-1) 0, 0⟩, ⟨1 / 17179869184, mk3 0 1 0, 1⟩, ⟨1 / 17179869184, mk3 1 1 0, 3 / 2⟩]
    -- |n| for the axis normals (exact) and an upper bound 3/2·2⁻³⁴ of √2·2⁻³⁴ for the cut (the rejections below hold for
    -- every value of the norm between 0 and that)
    let sq : ℚ → ℚ := fun x => if x = 1 / 295147905179352825856 then 1 / 17179869184 else
      if x = 2 / 295147905179352825856 then 3 / 2 / 17179869184 else 0
    let cut : List (SCon ℚ) := [⟨1 / 17179869184, mk3 1 1 0, 3 / 2⟩]
    ((meshVerts2 (α := ℚ) sq (1 / 100000000) (scaledCs sys)).map (fun v => (v.x, v.y)) =
        [(0, 0), (0, 1), (1, 0), (1, 1 / 2), (1 / 2, 1)]) ∧
    vertexOkAbs (K := ℚ) (1 / 100000000) (scaledCs cut) (mk3 1 1 0) = true ∧
    vertexOkAbs (K := ℚ) (1 / 100000000) (unscaledCs cut) (mk3 1 1 0) = false ∧
    vertexOk (α := ℚ) sq (1 / 100000000) (scaledCs cut) (mk3 1 1 0) = false := by
  refine ⟨by decide +kernel, by decide +kernel, by decide +kernel, by decide +kernel⟩

end PolytopeScale

/-! ## The deciders the driver runs on real output meshes

Real outputs (parametric generators, `RectSet.Mesh`, height maps, searched and coarse-to-fine marching
meshes) reach the driver as id soups: vertex ids stand for distinct float coordinates (Go compares
coordinates with `==`).  The verdict `balanced=… fans=…` / `inout=…` the driver prints is computed by the
sort/bucket based deciders of `M3d.SoupFast`; they decide exactly the predicates of `M3d.Surface`
(the property's wording), so a printed `1` IS the statement about that output and a printed `0` its
negation. -/

/-- 3-D: for every triangle soup with ids below `N`, `closedManifoldFast N ts = true` iff every directed
edge occurs exactly once and its reverse exactly once (every edge shared by exactly two triangles that
traverse it in opposite directions), the triangles round every vertex form ONE cycle (no vertex pinches
two sheets together) and no triangle is degenerate. -/
theorem soup_closed_manifold_decided (N : Nat) (ts : List Surface.Tri)
    (hN : SoupFast.idsBelow N ts = true) :
    SoupFast.closedManifoldFast N ts = true ↔ Surface.ClosedManifold ts :=
  SoupFast.closedManifoldFast_iff hN

/-- 2-D: `inOutOneFast ss = true` iff every vertex has exactly one outgoing and exactly one incoming
segment. -/
theorem soup_in_out_one_decided (ss : List Surface.Seg) :
    SoupFast.inOutOneFast ss = true ↔ Surface.InOutOne ss :=
  SoupFast.inOutOneFast_iff ss

/-- Non-vacuity: the tetrahedron `0 1 2 3` (outward) is accepted, and the same soup with one triangle
reversed is rejected. -/
example : SoupFast.closedManifoldFast 4 [(0, 2, 1), (0, 1, 3), (1, 2, 3), (2, 0, 3)] = true ∧
    ¬ SoupFast.closedManifoldFast 4 [(0, 1, 2), (0, 1, 3), (1, 2, 3), (2, 0, 3)] = true := by
  constructor
  · exact (soup_closed_manifold_decided 4 _ (by decide)).2 ((Surface.closedManifold_iff _).1 (by decide))
  · intro h
    have h2 := (Surface.closedManifold_iff _).2 ((soup_closed_manifold_decided 4 _ (by decide)).1 h)
    revert h2
    decide

/-! ## Round 6: small shapes far from the origin through the Conj members; extruded profiles with very short edges

Kinds `msj` / `mcj`, `soup2/msj_far_tiny`, `soup3/mcj_far_tiny` (harness/cmd/c01/tiny.go: a dyadic shape of size
`2⁻⁹…2⁻¹²` at a point `m·2¹⁸`, exact transform lists) and `soup3/profile_fine` (chamfers of `10⁻¹⁰…9·10⁻⁹`, finely
outlined small polar shapes). -/
section Round6
open M3d.C01Search

/-- **The sign test of `MarchingSquaresConj` / `MarchingCubesConj` does not depend on where the mesh is.**  The signed
area / volume measured from a point that moves with the mesh (`msSignedArea` / `mcSignedVolume` take a vertex of the
mesh) is the same number for the mesh translated by any `w` — for EVERY soup, closed or not, term by term: no product
in it grows with the distance to the origin.  (Measured from a FIXED point the sum is the same only for closed soups,
`vol6At_closed`, and in floating point its terms are of size `D²` for an area of `r²` — seeded C01-13.)  Together with
`conj_translation_is_irrelevant` / `conj2_flip_iff_reversing` (every affine map back, every reference point): a small
solid far from the origin must come back outward like the same solid at the origin. -/
theorem conj_sign_test_is_translation_invariant {K : Type} [Field K] :
    (∀ (w o : K × K) (ss : List ((K × K) × (K × K))),
      shoe2At (shiftP2 w o) (ss.map (map2 (shiftP2 w))) = shoe2At o ss) ∧
    (∀ (w o : K × K × K) (ts : List ((K × K × K) × (K × K × K) × (K × K × K))),
      vol6At (shiftP3 w o) (ts.map (map3 (shiftP3 w))) = vol6At o ts) :=
  ⟨shoe2At_shift, vol6At_shift⟩

/-- Non-vacuity: the clockwise unit square at `(2²⁰, 3·2¹⁸)`, measured from its first vertex: `-2` (twice the area,
negative = outward), as at the origin. -/
example : shoe2At ((1048576 : ℚ), (786432 : ℚ))
      ([(((0:ℚ),(0:ℚ)),((0:ℚ),(1:ℚ))), ((0,1),(1,1)), ((1,1),(1,0)), ((1,0),(0,0))].map
        (map2 (shiftP2 ((1048576 : ℚ), (786432 : ℚ))))) = -2 := by
  norm_num [shoe2At, sub2, det2, map2, shiftP2]

open M3d.ProfileMesh in
/-- **Every unshared edge of the triangulated profile needs its wall, however short it is** (`model3d.ProfileMesh`,
model `M3d.ProfileMesh`: caps `caps T` + `AddQuad` walls).  For every triangulation `T` over any vertex type and every
list `W` of edges that were given a wall — whatever rule selected them —: if `a → b` is a side of a triangle of `T`,
`b → a` is not (a boundary edge of the profile), and the mesh `caps T ++ walls W` has as many sides `a → b` as `b → a`
at the bottom level (necessary for "every edge is shared by exactly two triangles that traverse it in opposite
directions"), then `(b, a)` — the `seg` of the loop for that side — is in `W`.  A rule that skips edges by their
length (seeded C01-15: `seg[0].Dist(seg[1]) < 1e-8`) leaves the mesh open on every valid profile with such an edge. -/
theorem profile_boundary_edge_needs_its_wall {V : Type} [DecidableEq V]
    (T : List (V × V × V)) (W : List (V × V)) (a b : V)
    (hside : 0 < pecnt T (a, b)) (hboundary : pecnt T (b, a) = 0)
    (hbal : pecnt (caps T ++ W.flatMap wall) ((a, false), (b, false)) =
      pecnt (caps T ++ W.flatMap wall) ((b, false), (a, false))) :
    (b, a) ∈ W :=
  wall_needed T W a b hside hboundary hbal

open M3d.ProfileMesh in
/-- Bottom-level sides of the model mesh: the caps contribute the sides of the triangulation, a wall contributes its own
edge only; so balance at the bottom level of ANY caps-plus-walls mesh is the equation
`#(a→b in T) + #walls(a,b) = #(b→a in T) + #walls(b,a)`. -/
theorem profile_wall_count_forced {V : Type} [DecidableEq V]
    (T : List (V × V × V)) (W : List (V × V)) (a b : V)
    (hbal : pecnt (caps T ++ W.flatMap wall) ((a, false), (b, false)) =
      pecnt (caps T ++ W.flatMap wall) ((b, false), (a, false))) :
    pecnt T (a, b) + W.count (a, b) = pecnt T (b, a) + W.count (b, a) :=
  wall_count_forced T W a b hbal

open M3d.ProfileMesh in
/-- Non-vacuity / the model on the smallest profile: one triangle `0 1 2` — the code's rule gives a wall to each of its
three edges, the mesh (2 caps + 6 wall triangles) has every directed side exactly once with its reverse once; with the
wall of edge `(1, 0)` left out (what a length test does to a short edge) the side `0 → 1` at the bottom has no partner. -/
example : wallEdges [((0 : Nat), (1 : Nat), (2 : Nat))] = [(1, 0), (2, 1), (0, 2)] ∧
    (profileMesh [((0 : Nat), (1 : Nat), (2 : Nat))]).length = 8 ∧
    (∀ d ∈ (profileMesh [((0 : Nat), (1 : Nat), (2 : Nat))]).flatMap psides,
      pecnt (profileMesh [((0 : Nat), (1 : Nat), (2 : Nat))]) d = 1 ∧
      pecnt (profileMesh [((0 : Nat), (1 : Nat), (2 : Nat))]) (d.2, d.1) = 1) ∧
    pecnt (caps [((0 : Nat), (1 : Nat), (2 : Nat))] ++ [((2 : Nat), (1 : Nat)), (0, 2)].flatMap wall)
      ((1, false), (0, false)) = 0 := by
  decide

end Round6

end M3d.C01
