import M3d.Lemmas.Surface
/-!
# C10 — mesh processing keeps closed oriented manifolds closed, oriented, manifold

Property theorems only.  Models: `M3d/Model/Surface.lean`, `M3d/Model/MeshOps.lean`.
-/
namespace M3d.C10
open M3d.Surface

/-- **The decider run on every real output mesh is a proof-carrying judgement**: it answers
`true` exactly when the id soup is edge-balanced (every undirected edge is shared by exactly two
faces with opposite directions: closed + consistently oriented + edge-manifold), every vertex
fan is one cycle (no pinched vertex) and no face is degenerate. -/
theorem closed_manifold_decider_correct (ts : List Tri) :
    closedManifold ts = true ↔ ClosedManifold ts := closedManifold_iff ts

/-- The 2-D decider: every vertex has exactly one incoming and one outgoing segment and no
segment is a self-loop. -/
theorem closed_curves_decider_correct (ss : List Seg) :
    closedCurves ss = true ↔ ClosedCurves ss := closedCurves_iff ss

end M3d.C10
