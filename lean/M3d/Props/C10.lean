import M3d.Lemmas.Surface
import M3d.Lemmas.MeshOps
import M3d.Lemmas.MeshOpsAlg
/-!
# C10 — mesh processing keeps closed oriented manifolds closed, oriented, manifold

Property theorems only.  Models: `M3d/Model/Surface.lean` (id soups, the predicates and their
deciders), `M3d/Model/MeshOps.lean` (placement rules over a generic scalar; combinatorial cores
of the 2-D elimination loops and of the decimation hole filling with the geometric decisions as
oracle parameters).  The deciders proved correct here are what the driver runs on the REAL
output of every operation of every generated chain (`harness/cmd/c10`).
-/
namespace M3d.C10
open M3d.Surface M3d.MeshOps

/-! ## The judgements made on real outputs -/

/-- **The decider run on every real 3-D output is a proved judgement**: it answers `true`
exactly when the id soup is edge-balanced (every undirected edge is shared by exactly two faces
traversing it in opposite directions: closed + consistently oriented + edge-manifold), every
vertex fan is one cycle (no pinched vertex) and no face is degenerate. -/
theorem closed_manifold_decider_correct (ts : List Tri) :
    closedManifold ts = true ↔ ClosedManifold ts := closedManifold_iff ts

/-- The fan decider (follow the link edges from the first one) finds a cycle through all
incident faces iff one exists. -/
theorem fan_decider_correct (es : List Edge) : fanCycle es = true ↔ FanCycle es := fanCycle_iff es

/-- The 2-D decider: every vertex has exactly one incoming and one outgoing segment and no
segment is a self-loop. -/
theorem closed_curves_decider_correct (ss : List Seg) :
    closedCurves ss = true ↔ ClosedCurves ss := closedCurves_iff ss

example : closedManifold [(0,1,2),(0,2,3),(0,3,1),(1,3,2)] = true ∧
    closedManifold [(0,1,2),(0,2,3),(0,3,1)] = false ∧
    -- two tetrahedra glued at vertex 0: edge-balanced but pinched
    fanConnected [(0,1,2),(0,2,3),(0,3,1),(1,3,2),(0,4,5),(0,5,6),(0,6,4),(4,6,5)] = false := by decide

/-! ## Operations that only move vertices: Blur, SmoothAreas, MeshSmoother, VoxelSmoother, ARAP, FlattenBase -/

/-- **`relabel_preserves`** — `Blur`, `SmoothAreas`, `MeshSmoother`, `VoxelSmoother`,
`ARAP.Deform`, `FlattenBase` and the 2-D `Blur`/`Smooth`/`SmoothSq` rebuild the mesh with every
vertex `v` replaced by its new position `f v` and nothing else.  If `f` is injective on the
vertices of the mesh the result is again a closed oriented manifold.  (Injectivity is a genuine
hypothesis — `Blur(1)` maps a regular octahedron onto its centre — and is evaluated by the
harness on every real output: same number of distinct vertices.) -/
theorem relabel_preserves {f : Nat → Nat} {ts : List Tri} (hf : InjOn f (vertsAll ts))
    (h : ClosedManifold ts) : ClosedManifold (relabel f ts) := closedManifold_relabel hf h

/-- Flipping all faces (`InvertNormals`-style) keeps a closed manifold, and is an involution. -/
theorem reverse_preserves {ts : List Tri} (h : ClosedManifold ts) : ClosedManifold (reverse ts) :=
  closedManifold_reverse h

theorem reverse_involution (ts : List Tri) : reverse (reverse ts) = ts := reverse_reverse ts

/-- **`blur_rate0_id`**: `Blur(0)` leaves every vertex where it is (3-D and 2-D rule), over any field. -/
theorem blur_rate0_id {K : Type} [Field K] (c : V3 K) (nbrs : List (V3 K)) (c2 : V2 K) (nbrs2 : List (V2 K)) :
    blurPoint 0 c nbrs = c ∧ blurPoint2 0 c2 nbrs2 = c2 :=
  ⟨blurPoint_rate0 c nbrs, blurPoint2_rate0 c2 nbrs2⟩

/-- **`blur_rate1_mean`**: `Blur(1)` puts every vertex at the mean of its neighbours. -/
theorem blur_rate1_mean {K : Type} [Field K] (c : V3 K) (nbrs : List (V3 K)) (h : nbrs ≠ [])
    (c2 : V2 K) (nbrs2 : List (V2 K)) :
    blurPoint 1 c nbrs = (nbrs.foldl V3.add V3.zero).scale (1 / (nbrs.length : K)) ∧
      blurPoint2 1 c2 nbrs2 = (nbrs2.foldl V2.add V2.zero).scale (1 / (nbrs2.length : K)) :=
  ⟨blurPoint_rate1 c nbrs h, blurPoint2_rate1 c2 nbrs2⟩

/-! ## Subdivision masks -/

/-- **`loop_masks`**: `β = 3/16` for valence 3, else `3/(8k)`; the old vertex gets `1 - kβ` and
each of its `k` neighbours `β` (sum 1); an edge point is `3/8, 3/8, 1/8, 1/8` (sum 1). -/
theorem loop_masks {K : Type} [Field K] [CharZero K] (k : Nat) (a b o1 o2 : V3 K) :
    (loopBeta 3 : K) = 3 / 16 ∧ (k ≠ 3 → (loopBeta k : K) = 3 / (8 * (k : K))) ∧
      (1 - (k : K) * loopBeta k) + (k : K) * loopBeta k = 1 ∧
      (loopEdge a b o1 o2).x = 3/8 * a.x + 3/8 * b.x + 1/8 * o1.x + 1/8 * o2.x ∧
      (3/8 : K) + 3/8 + 1/8 + 1/8 = 1 :=
  ⟨loopBeta_three, loopBeta_other k, loop_corner_weights_sum k, by rw [loopEdge_eq], loop_edge_weights_sum⟩

/-- **`chaikin_masks`**: 2-D `Subdivide` cuts every corner at `3/4, 1/4` (sum 1). -/
theorem chaikin_masks {K : Type} [Field K] [CharZero K] (p q : V2 K) :
    chaikinPoint p q = ⟨3/4 * p.x + 1/4 * q.x, 3/4 * p.y + 1/4 * q.y⟩ ∧ (3/4 : K) + 1/4 = 1 :=
  ⟨chaikinPoint_eq p q, chaikin_weights_sum⟩

/-- Both faces at an edge compute the same edge points (`divideSegment` from either end). -/
theorem subdivide_edge_points_shared {K : Type} [Field K] (c1 c2 : V3 K) (t : K) :
    lerp3 c1 c2 t = lerp3 c2 c1 (1 - t) := lerp3_symm c1 c2 t

/-- **`subdivide_keeps_volume`** (algebraic core, every `n ≠ 0`): the nested interpolation of
`SubdivideEdges` lands on the barycentric lattice, and every one of the `n²` sub-triangles of a
face — upward `(P(i,j),P(i+1,j),P(i+1,j+1))` and downward `(P(i,j),P(i,j-1),P(i+1,j))`, in the
vertex order the Go code emits — spans exactly `1/n²` of the signed volume of the face: same
orientation, and the `n²` of them add up to the original signed volume.
(The summation over the `n²` faces is executed, not proved: the driver checks
`volume6 out = volume6 in` in exact arithmetic on every exact case.) -/
theorem subdivide_keeps_volume_partial {K : Type} [Field K] (n i j : K) (hn : n ≠ 0) (a b c : V3 K) :
    (i ≠ 0 → lerp3 (lerp3 a b (i / n)) (lerp3 a c (i / n)) (j / i) = bary n a b c i j) ∧
      V3.det (bary n a b c i j) (bary n a b c (i + 1) j) (bary n a b c (i + 1) (j + 1)) = V3.det a b c / (n * n) ∧
      V3.det (bary n a b c i j) (bary n a b c i (j - 1)) (bary n a b c (i + 1) j) = V3.det a b c / (n * n) :=
  ⟨fun hi => row_point_eq_bary n i j hn hi a b c, det_up n i j hn a b c, det_down n i j hn a b c⟩

/-- **`colinear_removal_keeps_area`** (shoelace identity): replacing `p→v→n` by `p→n` changes
twice the enclosed signed area by the doubled area of the triangle `p v n` — zero when `v` is
colinear with its neighbours. -/
theorem colinear_removal_keeps_area {K : Type} [Field K] (p v n : V2 K)
    (hcol : V2.cross ⟨v.x - p.x, v.y - p.y⟩ ⟨n.x - v.x, n.y - v.y⟩ = 0) :
    V2.cross p v + V2.cross v n = V2.cross p n := by
  have := cross_bridge p v n
  rw [hcol] at this
  exact sub_eq_zero.1 this

/-! ## 2-D vertex removal: `Decimate`, `EliminateColinear` -/

/-- **Removing a vertex with one in- and one out-neighbour and bridging them keeps a closed
oriented curve set closed and oriented** (`for s in res.Find(v) {res.Remove(s)};
res.Add(&Segment{n1, n2})`). -/
theorem vertex_removal_preserves {ss : List Seg} {v p n : Nat} (h : ClosedCurves ss)
    (hp : prevOf ss v = some p) (hn : succOf ss v = some n) (hpn : p ≠ n) :
    ClosedCurves (bridge ss v p n) := bridge_closedCurves h (prevOf_mem hp) (succOf_mem hn) hpn

/-- **`eliminate_colinear_terminates` + `_preserves`** for the repaired code (all reads from
the mesh being edited): for every colinearity oracle, every map iteration order and every closed
oriented input, the loop terminates within `3·|m| + |eligible| + 1` iterations (measure
`3·|res| + |eligible|`), the result is closed and oriented and has no new vertex.
`Safe`: a vertex whose two neighbours coincide is never eligible (its normals are opposite). -/
theorem eliminate_colinear_terminates_preserves (col3 : Nat → Nat → Nat → Bool)
    (order : List Nat → Option Nat) (horder : ∀ l x, order l = some x → x ∈ l)
    (hsafe : Safe (fun cands _ => order cands) (fun _ _ _ _ => false))
    (m : List Seg) (hm : ClosedCurves m) :
    ∃ out, elimColinear col3 order m = some out ∧ ClosedCurves out ∧
      ∀ w ∈ segVertsAll out, w ∈ segVertsAll m := by
  unfold elimColinear
  exact removalLoop_spec _ _ _ (fun c _ x h => horder c x h) hsafe _ _ _ hm (by simp [removalFuel])

/-- **`decimate2d_terminates_preserves`**: 2-D `Decimate` terminates for every area ordering and
every `maxVertices`, returns a closed oriented curve set and introduces no vertex (the
duplicate-segment guard makes it `Safe` unconditionally). -/
theorem decimate2d_terminates_preserves (argmin : List Nat → List Seg → Option Nat)
    (hargmin : ∀ c r x, argmin c r = some x → x ∈ c) (maxV : Nat) (m : List Seg) (hm : ClosedCurves m) :
    ∃ out, decimate2 argmin maxV m = some out ∧ ClosedCurves out ∧
      ∀ w ∈ segVertsAll out, w ∈ segVertsAll m := by
  unfold decimate2
  refine removalLoop_spec _ _ _ ?_ ?_ _ _ _ hm (by simp [removalFuel])
  · intro c r x h
    by_cases hc : c.length > maxV
    · simp only [hc, ↓reduceIte] at h; exact hargmin c r x h
    · simp [hc] at h
  · intro c r x n _ _ _
    simp

/-- The rectangle `0→1→2→3→4→5→0` whose side `0…3` carries the two extra colinear vertices
`1, 2` (the failing input of the original code): the repaired loop returns the rectangle
`0→3→4→5→0`; the loop *as it was* (reads from the original mesh) is still running after 200
iterations — it re-inserts vertex 1, then 2, then 1, … -/
example :
    let m : List Seg := [(0,1),(1,2),(2,3),(3,4),(4,5),(5,0)]
    let col3 : Nat → Nat → Nat → Bool := fun _ v _ => v == 1 || v == 2
    elimColinear col3 List.head? m = some [(0,3),(3,4),(4,5),(5,0)] ∧
      elimColinearBuggy (colAt col3) (fun l => l.headD 0) m 200 [1, 2] m = none := by decide

/-! ## 3-D decimation: filling the hole left by a removed vertex -/

/-- **`fill_loop_boundary`** (faces and vertices; for every chord oracle — i.e. whatever the
aspect-ratio search picks — and every loop): when `fillLoop` succeeds it returns exactly
`n - 2` triangles and every corner of every triangle is a vertex of the loop. -/
theorem fill_loop_faces_and_vertices (chord : List Nat → Option (Nat × Nat)) (fuel : Nat) (l : List Nat)
    (ts : List Tri) (h : fillLoop chord fuel l = some ts) :
    ts.length + 2 = l.length ∧ ∀ t ∈ ts, ∀ x ∈ triVerts t, x ∈ l := fillLoop_spec chord fuel l ts h

/-- **`decimate_no_new_vertices`**: the faces `attemptRemoveVertex` inserts only use vertices
of the loop around the removed vertex, hence vertices already in the mesh. -/
theorem decimate_no_new_vertices (chord : List Nat → Option (Nat × Nat)) (fuel : Nat) (l : List Nat)
    (ts : List Tri) (h : fillLoop chord fuel l = some ts) : ∀ x ∈ vertsAll ts, x ∈ l := by
  intro x hx
  simp only [vertsAll, List.mem_flatMap] at hx
  obtain ⟨t, ht, hxt⟩ := hx
  exact (fillLoop_spec chord fuel l ts h).2 t ht x hxt

/-- **`fill_loop_boundary`, inductive step**: the boundary edges of the two sub-loops `x…y` and
`y…x` are those of the whole loop plus the chord once in each direction, so gluing two fillings
whose boundaries are the reversed sub-loops gives a filling whose boundary is the reversed loop
(the chord edges cancel).  The base case is the single triangle `(l₀, l₂, l₁)`. -/
theorem fill_loop_boundary_step (x y : Nat) (B D : List Nat) :
    (cycleEdges (x :: B ++ [y]) ++ cycleEdges (y :: D ++ [x])).Perm
      (cycleEdges (x :: B ++ y :: D) ++ [(y, x), (x, y)]) := split_loop_edges x y B D

/-- Base case of `fill_loop_boundary`: the triangle returned for a 3-loop has exactly the
reversed loop as its edges. -/
theorem fill_loop_boundary_base (a b c : Nat) (chord : List Nat → Option (Nat × Nat)) (fuel : Nat) :
    ∃ ts, fillLoop chord (fuel + 1) [a, b, c] = some ts ∧
      (dirEdges ts).Perm ((cycleEdges [a, b, c]).map swap) := by
  refine ⟨[(a, c, b)], by simp [fillLoop], ?_⟩
  simp only [dirEdges, List.flatMap_cons, List.flatMap_nil, List.append_nil, triEdges, cycleEdges,
    List.zip_cons_cons, List.cons_append, List.nil_append, List.zip_nil_right, List.map_cons, List.map_nil, swap]
  exact List.reverse_perm [(b, a), (c, b), (a, c)]

/-- An octagon filled by successive chords: 6 faces, closed when glued to the reversed fan. -/
example :
    let chord : List Nat → Option (Nat × Nat) := fun l => some (0, l.length / 2)
    (fillLoop chord 10 [1,2,3,4,5,6,7,8]).map List.length = some 6 := by decide

end M3d.C10
