import M3d.Lemmas.Surface
import M3d.Lemmas.MeshOps
import M3d.Lemmas.MeshOpsAlg
import M3d.Lemmas.ElimColinear
import M3d.Lemmas.FlipLoop
import M3d.Lemmas.FlipSurgery
import M3d.Lemmas.FillLoop
import M3d.Lemmas.SubdivVolume
import M3d.Lemmas.BlurIter
import M3d.Lemmas.ArapOp
import M3d.Lemmas.DeformTargets
import M3d.Lemmas.ArapLin
import M3d.Lemmas.MeshHeap
import M3d.Lemmas.ArapLoop
import M3d.Lemmas.ArapRot
/-!
# C10 — mesh processing keeps closed oriented manifolds closed, oriented, manifold

Property theorems only.  Models: `M3d/Model/Surface.lean` (id soups, the predicates and their
deciders), `M3d/Model/MeshOps.lean` (placement rules over a generic scalar; combinatorial cores
of the 2-D elimination loops and of the decimation hole filling with the geometric decisions as
oracle parameters).  The deciders proved correct here are what the driver runs on the REAL
output of every operation of every generated chain (`harness/cmd/c10`).
-/
namespace M3d.C10
open M3d.Surface M3d.MeshOps

/-! ## The judgements made on real outputs -/

/-- **The decider run on every real 3-D output is a proved judgement**: it answers `true`
exactly when the id soup is edge-balanced (every undirected edge is shared by exactly two faces
traversing it in opposite directions: closed + consistently oriented + edge-manifold), every
vertex fan is one cycle (no pinched vertex) and no face is degenerate. -/
theorem closed_manifold_decider_correct (ts : List Tri) :
    closedManifold ts = true ↔ ClosedManifold ts := closedManifold_iff ts

/-- The fan decider (follow the link edges from the first one) finds a cycle through all
incident faces iff one exists. -/
theorem fan_decider_correct (es : List Edge) : fanCycle es = true ↔ FanCycle es := fanCycle_iff es

/-- The 2-D decider: every vertex has exactly one incoming and one outgoing segment and no
segment is a self-loop. -/
theorem closed_curves_decider_correct (ss : List Seg) :
    closedCurves ss = true ↔ ClosedCurves ss := closedCurves_iff ss

example : closedManifold [(0,1,2),(0,2,3),(0,3,1),(1,3,2)] = true ∧
    closedManifold [(0,1,2),(0,2,3),(0,3,1)] = false ∧
    -- two tetrahedra glued at vertex 0: edge-balanced but pinched
    fanConnected [(0,1,2),(0,2,3),(0,3,1),(1,3,2),(0,4,5),(0,5,6),(0,6,4),(4,6,5)] = false := by decide

/-! ## Operations that only move vertices: Blur, SmoothAreas, MeshSmoother, VoxelSmoother, ARAP, FlattenBase -/

/-- **`relabel_preserves`** — `Blur`, `SmoothAreas`, `MeshSmoother`, `VoxelSmoother`,
`ARAP.Deform`, `FlattenBase` and the 2-D `Blur`/`Smooth`/`SmoothSq` rebuild the mesh with every
vertex `v` replaced by its new position `f v` and nothing else.  If `f` is injective on the
vertices of the mesh the result is again a closed oriented manifold.  (Injectivity is a genuine
hypothesis — `Blur(1)` maps a regular octahedron onto its centre — and is evaluated by the
harness on every real output: same number of distinct vertices.) -/
theorem relabel_preserves {f : Nat → Nat} {ts : List Tri} (hf : InjOn f (vertsAll ts))
    (h : ClosedManifold ts) : ClosedManifold (relabel f ts) := closedManifold_relabel hf h

/-- Flipping all faces (`InvertNormals`-style) keeps a closed manifold, and is an involution. -/
theorem reverse_preserves {ts : List Tri} (h : ClosedManifold ts) : ClosedManifold (reverse ts) :=
  closedManifold_reverse h

theorem reverse_involution (ts : List Tri) : reverse (reverse ts) = ts := reverse_reverse ts

/-- **`blur_rate0_id`**: `Blur(0)` leaves every vertex where it is (3-D and 2-D rule), over any field. -/
theorem blur_rate0_id {K : Type} [Field K] (c : V3 K) (nbrs : List (V3 K)) (c2 : V2 K) (nbrs2 : List (V2 K)) :
    blurPoint 0 c nbrs = c ∧ blurPoint2 0 c2 nbrs2 = c2 :=
  ⟨blurPoint_rate0 c nbrs, blurPoint2_rate0 c2 nbrs2⟩

/-- **`blur_rate1_mean`**: `Blur(1)` puts every vertex at the mean of its neighbours. -/
theorem blur_rate1_mean {K : Type} [Field K] (c : V3 K) (nbrs : List (V3 K)) (h : nbrs ≠ [])
    (c2 : V2 K) (nbrs2 : List (V2 K)) :
    blurPoint 1 c nbrs = (nbrs.foldl V3.add V3.zero).scale (1 / (nbrs.length : K)) ∧
      blurPoint2 1 c2 nbrs2 = (nbrs2.foldl V2.add V2.zero).scale (1 / (nbrs2.length : K)) :=
  ⟨blurPoint_rate1 c nbrs h, blurPoint2_rate1 c2 nbrs2⟩

/-! ## Subdivision masks -/

/-- **`loop_masks`**: `β = 3/16` for valence 3, else `3/(8k)`; the old vertex gets `1 - kβ` and
each of its `k` neighbours `β` (sum 1); an edge point is `3/8, 3/8, 1/8, 1/8` (sum 1). -/
theorem loop_masks {K : Type} [Field K] [CharZero K] (k : Nat) (a b o1 o2 : V3 K) :
    (loopBeta 3 : K) = 3 / 16 ∧ (k ≠ 3 → (loopBeta k : K) = 3 / (8 * (k : K))) ∧
      (1 - (k : K) * loopBeta k) + (k : K) * loopBeta k = 1 ∧
      (loopEdge a b o1 o2).x = 3/8 * a.x + 3/8 * b.x + 1/8 * o1.x + 1/8 * o2.x ∧
      (3/8 : K) + 3/8 + 1/8 + 1/8 = 1 :=
  ⟨loopBeta_three, loopBeta_other k, loop_corner_weights_sum k, by rw [loopEdge_eq], loop_edge_weights_sum⟩

/-- **`chaikin_masks`**: 2-D `Subdivide` cuts every corner at `3/4, 1/4` (sum 1). -/
theorem chaikin_masks {K : Type} [Field K] [CharZero K] (p q : V2 K) :
    chaikinPoint p q = ⟨3/4 * p.x + 1/4 * q.x, 3/4 * p.y + 1/4 * q.y⟩ ∧ (3/4 : K) + 1/4 = 1 :=
  ⟨chaikinPoint_eq p q, chaikin_weights_sum⟩

/-- Both faces at an edge compute the same edge points (`divideSegment` from either end). -/
theorem subdivide_edge_points_shared {K : Type} [Field K] (c1 c2 : V3 K) (t : K) :
    lerp3 c1 c2 t = lerp3 c2 c1 (1 - t) := lerp3_symm c1 c2 t

/-- **`subdivide_lattice_points`** (algebraic core of `subdivide_keeps_volume`, every `n ≠ 0`):
the nested interpolation of `SubdivideEdges` lands on the barycentric lattice, and every one of
the `n²` sub-triangles of a face — upward `(P(i,j),P(i+1,j),P(i+1,j+1))` and downward
`(P(i,j),P(i,j-1),P(i+1,j))`, in the vertex order the Go code emits — spans exactly `1/n²` of the
signed volume of the face: same orientation. -/
theorem subdivide_lattice_points {K : Type} [Field K] (n i j : K) (hn : n ≠ 0) (a b c : V3 K) :
    (i ≠ 0 → lerp3 (lerp3 a b (i / n)) (lerp3 a c (i / n)) (j / i) = bary n a b c i j) ∧
      V3.det (bary n a b c i j) (bary n a b c (i + 1) j) (bary n a b c (i + 1) (j + 1)) = V3.det a b c / (n * n) ∧
      V3.det (bary n a b c i j) (bary n a b c i (j - 1)) (bary n a b c (i + 1) j) = V3.det a b c / (n * n) :=
  ⟨fun hi => row_point_eq_bary n i j hn hi a b c, det_up n i j hn a b c, det_down n i j hn a b c⟩

/-- **`subdivide_keeps_volume`** (full, no longer partial): for every `n ≥ 1`, over every field
of characteristic 0 (ℚ — what the driver executes on dyadic coordinates — and ℝ), and every
triangle soup, the model of `SubdivideEdges(n)` — the Go loops over `divideSegment` rows, with
the end-point special cases and the `len = 1` case — encloses exactly the same signed volume:
the `n²` sub-triangles of each face sum to the face (`Σᵢ (2i+1)/n² = 1`).  The driver compares
the REAL output with `subdivideEdges` triangle by triangle in exact mode (`placement`). -/
theorem subdivide_keeps_volume {K : Type} [Field K] [CharZero K] (n : Nat) (hn : n ≠ 0) (d : V3 K)
    (ts : List (V3 K × V3 K × V3 K)) : volume6 (subdivideEdges n d ts) = volume6 ts := by
  obtain ⟨m, rfl⟩ := Nat.exists_eq_succ_of_ne_zero hn
  exact subdivideEdges_volume m d ts

/-- **`colinear_removal_keeps_area`** (shoelace identity): replacing `p→v→n` by `p→n` changes
twice the enclosed signed area by the doubled area of the triangle `p v n` — zero when `v` is
colinear with its neighbours. -/
theorem colinear_removal_keeps_area {K : Type} [Field K] (p v n : V2 K)
    (hcol : V2.cross ⟨v.x - p.x, v.y - p.y⟩ ⟨n.x - v.x, n.y - v.y⟩ = 0) :
    V2.cross p v + V2.cross v n = V2.cross p n := by
  have := cross_bridge p v n
  rw [hcol] at this
  exact sub_eq_zero.1 this

/-! ## 2-D vertex removal: `Decimate`, `EliminateColinear` -/

/-- **Removing a vertex with one in- and one out-neighbour and bridging them keeps a closed
oriented curve set closed and oriented** (`for s in res.Find(v) {res.Remove(s)};
res.Add(&Segment{n1, n2})`). -/
theorem vertex_removal_preserves {ss : List Seg} {v p n : Nat} (h : ClosedCurves ss)
    (hp : prevOf ss v = some p) (hn : succOf ss v = some n) (hpn : p ≠ n) :
    ClosedCurves (bridge ss v p n) := bridge_closedCurves h (prevOf_mem hp) (succOf_mem hn) hpn

/-- **`eliminate_colinear_terminates` + `_preserves`** for the repaired code (all reads from
the mesh being edited): for every colinearity oracle, every map iteration order and every closed
oriented input, the loop terminates within `3·|m| + |eligible| + 1` iterations (measure
`3·|res| + |eligible|`), the result is closed and oriented and has no new vertex.
`Safe`: a vertex whose two neighbours coincide is never eligible (its normals are opposite). -/
theorem eliminate_colinear_terminates_preserves (col3 : Nat → Nat → Nat → Bool)
    (order : List Nat → Option Nat) (horder : ∀ l x, order l = some x → x ∈ l)
    (hsafe : Safe (fun cands _ => order cands) (fun _ _ _ _ => false))
    (m : List Seg) (hm : ClosedCurves m) :
    ∃ out, elimColinear col3 order m = some out ∧ ClosedCurves out ∧
      ∀ w ∈ segVertsAll out, w ∈ segVertsAll m := by
  unfold elimColinear
  exact removalLoop_spec _ _ _ (fun c _ x h => horder c x h) hsafe _ _ _ hm (by simp [removalFuel])

/-- **`decimate2d_terminates_preserves`**: 2-D `Decimate` terminates for every area ordering and
every `maxVertices`, returns a closed oriented curve set and introduces no vertex (the
duplicate-segment guard makes it `Safe` unconditionally). -/
theorem decimate2d_terminates_preserves (argmin : List Nat → List Seg → Option Nat)
    (hargmin : ∀ c r x, argmin c r = some x → x ∈ c) (maxV : Nat) (m : List Seg) (hm : ClosedCurves m) :
    ∃ out, decimate2 argmin maxV m = some out ∧ ClosedCurves out ∧
      ∀ w ∈ segVertsAll out, w ∈ segVertsAll m := by
  unfold decimate2
  refine removalLoop_spec _ _ _ ?_ ?_ _ _ _ hm (by simp [removalFuel])
  · intro c r x h
    by_cases hc : c.length > maxV
    · simp only [hc, ↓reduceIte] at h; exact hargmin c r x h
    · simp [hc] at h
  · intro c r x n _ _ _
    simp

/-- The rectangle `0→1→2→3→4→5→0` whose side `0…3` carries the two extra colinear vertices
`1, 2` (the failing input of the original code): the repaired loop returns the rectangle
`0→3→4→5→0`; the loop *as it was* (reads from the original mesh) is still running after 200
iterations — it re-inserts vertex 1, then 2, then 1, … -/
example :
    let m : List Seg := [(0,1),(1,2),(2,3),(3,4),(4,5),(5,0)]
    let col3 : Nat → Nat → Nat → Bool := fun _ v _ => v == 1 || v == 2
    elimColinear col3 List.head? m = some [(0,3),(3,4),(4,5),(5,0)] ∧
      elimColinearBuggy (colAt col3) (fun l => l.headD 0) m 200 [1, 2] m = none := by decide

/-- **`eliminate_colinear_bridges_meet_criterion`** (shape preservation of the loop as it is:
the criterion `vertexNormalDifference(res, c) < epsilon` is evaluated on the mesh `res` BEING
EDITED).  For every criterion `col3 p v n` on three points, every map order and every closed
oriented input: each segment `a → b` of the result is a segment of the input, or there is a
removed input vertex `v` with `col3 a v b` — the last vertex removed between `a` and `b` was
removed when its two neighbours were exactly `a` and `b`.  So no bridge spans an accumulated turn
larger than what the documented per-vertex criterion allows for ONE vertex (an arc collapsed to
its chord has no such `v`: every removed vertex sees the chord under half the arc's angle).
The driver evaluates this on every real output with `col3` = the Go float expression
`1 - min(1, n1·n2) < epsilon` (bit-for-bit: only `+ * / sqrt`). -/
theorem eliminate_colinear_bridges_meet_criterion (col3 : Nat → Nat → Nat → Bool)
    (order : List Nat → Option Nat) (horder : ∀ l x, order l = some x → x ∈ l)
    (hsafe : Safe (fun cands _ => order cands) (fun _ _ _ _ => false))
    (m : List Seg) (hm : ClosedCurves m) (out : List Seg) (h : elimColinear col3 order m = some out) :
    ∀ s ∈ out, s ∈ m ∨ ∃ v, v ∈ segVertsAll m ∧ v ∉ segVertsAll out ∧ col3 s.1 v s.2 = true := by
  unfold elimColinear at h
  have h0 : ElimInv col3 m ((segVerts m).filter (colAt col3 m)) m :=
    ⟨hm, fun c hc => (List.mem_filter.1 hc).2, fun s hs => Or.inl hs, fun _ hw => hw⟩
  obtain ⟨_, hinv⟩ := elimLoop_inv col3 order horder hsafe m _ _ _ _ h0 h
  exact hinv.expl

/-- A hexagon whose vertices 1, 2, 3 each turn gently (`col3` holds for `0 1 2`, `1 2 3`,
`2 3 4` only).  The loop as it is keeps vertex 2 once 1 is gone (`0 2 3` does not meet the
criterion) and returns `0→2→4→5`; re-checking against the ORIGINAL mesh (seeded change C10-3)
removes 1, 2 and 3 and returns the bridge `0→4` that no removed vertex justifies. -/
example :
    let m : List Seg := [(0,1),(1,2),(2,3),(3,4),(4,5),(5,0)]
    let col3 : Nat → Nat → Nat → Bool := fun p v n => p + 1 == v && v + 1 == n && 1 ≤ v && v ≤ 3
    elimColinear col3 List.head? m = some [(2,4),(0,2),(4,5),(5,0)] ∧
      elimColinearStale col3 List.head? m = some [(0,4),(4,5),(5,0)] ∧
      ([1,2,3].all fun v => !col3 0 v 4) = true := by decide

/-- **`nearly_colinear_removal_area_bound`**: a removal allowed by the criterion
`1 - cos(turn) ≤ ε` (`cos = d1·d2 / L`, `L = |d1||d2|`) changes twice the enclosed area —
which is `cross d1 d2` by `colinear_removal_keeps_area`'s identity — by at most `√(2ε)·|d1||d2|`
(squared form; `ε = 0` gives the exact statement). -/
theorem nearly_colinear_removal_area_bound {K : Type} [Field K] [LinearOrder K] [IsStrictOrderedRing K]
    (p v n : V2 K) (L eps : K) (hL : 0 ≤ L)
    (hL2 : L * L = ((v.x - p.x) * (v.x - p.x) + (v.y - p.y) * (v.y - p.y)) *
      ((n.x - v.x) * (n.x - v.x) + (n.y - v.y) * (n.y - v.y)))
    (h0 : 0 ≤ eps) (h1 : eps ≤ 1)
    (hcrit : (1 - eps) * L ≤ (v.x - p.x) * (n.x - v.x) + (v.y - p.y) * (n.y - v.y)) :
    let d := V2.cross p v + V2.cross v n - V2.cross p n
    d * d ≤ 2 * eps * (L * L) := by
  have hb := cross_bridge p v n
  have := nearly_colinear_cross_bound (⟨v.x - p.x, v.y - p.y⟩ : V2 K) ⟨n.x - v.x, n.y - v.y⟩ L eps hL hL2 h0 h1 hcrit
  simp only [hb]
  exact this

example : ∃ (p v n : V2 Rat) (L eps : Rat), 0 ≤ L ∧
    L * L = ((v.x - p.x) * (v.x - p.x) + (v.y - p.y) * (v.y - p.y)) *
      ((n.x - v.x) * (n.x - v.x) + (n.y - v.y) * (n.y - v.y)) ∧ 0 ≤ eps ∧ eps ≤ 1 ∧ 0 < eps ∧
    (1 - eps) * L ≤ (v.x - p.x) * (n.x - v.x) + (v.y - p.y) * (n.y - v.y) ∧
    V2.cross p v + V2.cross v n - V2.cross p n ≠ 0 :=
  -- d1 = (4,3), d2 = (3,4): |d1||d2| = 25, dot = 24, cos = 24/25, cross = 7
  ⟨⟨0, 0⟩, ⟨4, 3⟩, ⟨7, 7⟩, 25, 1/25, by norm_num, by norm_num, by norm_num, by norm_num, by norm_num, by norm_num,
    by norm_num [V2.cross]⟩

/-! ## `FlipDelaunay`: the tolerance and termination -/

section Flip
open M3d.FlipLoop

/-- **`flip_no_pingpong`** — why `sum < math.Pi+1e-8` and not `sum <= math.Pi`.  Let `S0`, `S1`
be the true opposite-angle sums for the two diagonals of a pair of triangles (`S0 + S1 ≤ 2π`:
they are the four angles of a — possibly skew — quadrilateral) and `c0`, `c1` the sums the code
computes, each within `δ` of the truth.  If the float error `δ` is below the tolerance, the
flip loop on this pair stops after at most one flip, whichever diagonal it starts from: a pair
that has just been flipped (`c ≥ π + tol`) is never flipped back (`c' ≤ π - tol + 2δ < π + tol`). -/
theorem flip_no_pingpong {K : Type} [Field K] [LinearOrder K] [IsStrictOrderedRing K]
    (pi tol δ S0 S1 c0 c1 : K) (hS : S0 + S1 ≤ 2 * pi)
    (h0 : S0 - δ ≤ c0 ∧ c0 ≤ S0 + δ) (h1 : S1 - δ ≤ c1 ∧ c1 ≤ S1 + δ) (hδ : δ < tol)
    (d : Bool) (fuel : Nat) : ∃ r, quadLoop (wantsFlip pi tol) c0 c1 (fuel + 2) d = some r :=
  quadLoop_tol pi tol δ S0 S1 c0 c1 hS h0 h1 hδ d fuel

/-- **`flip_pingpong_without_tolerance`**: with the textbook test `sum <= pi`, a pair of
triangles whose two computed sums both exceed `pi` — an exactly co-circular flat quadrilateral
(`S0 = S1 = π`) with both sums rounded up — is flipped back and forth forever: for EVERY fuel the
loop has not returned.  (Seeded change C10-2; found by the harness as `flip3 … O timeout`.) -/
theorem flip_pingpong_without_tolerance {K : Type} [LinearOrder K] (pi c0 c1 : K)
    (h0 : pi < c0) (h1 : pi < c1) (fuel : Nat) (d : Bool) :
    quadLoop (wantsFlipNoTol pi) c0 c1 fuel d = none := quadLoop_noTol pi c0 c1 h0 h1 fuel d

/-- The same computed sums (`π + 4·10⁻¹⁶` for both diagonals of a co-circular quadrilateral,
`π` replaced by a rational): the loop with the tolerance `10⁻⁸` returns without a flip, the loop
without tolerance is still running after 1000 iterations. -/
example :
    let pi : Rat := 355 / 113
    let c : Rat := pi + 4 / 10 ^ 16
    quadLoop (wantsFlip pi (1 / 10 ^ 8)) c c 2 false = some false ∧
      quadLoop (wantsFlipNoTol pi) c c 1000 false = none ∧
      (pi - 4 / 10 ^ 16 ≤ c ∧ c ≤ pi + 4 / 10 ^ 16) := by
  refine ⟨by decide +kernel, quadLoop_noTol _ _ _ (by decide +kernel) (by decide +kernel) _ _, by decide +kernel⟩

/-- **`flip_pingpong_when_no_sum_is_below_the_threshold`** — the two termination defects repaired
by /repo `078e20f` and `9d5c866`, for ANY scalar type with a `<` that need not be total (float64:
every comparison with NaN is false).  If neither of the two computed sums of a pair of triangles is
`< pi + tol`, the loop on that pair never returns: for EVERY fuel the result is `none`.  Both arose
on thin, edge-subdivided tori, where flips produce triangles with three colinear corners, the code
computing the angles as `math.Acos(v1.Normalize().Dot(v2.Normalize()))`:
(1) one diagonal's sum was `π + 0.50` (a folded pair) and the other NaN — the cosine of the
degenerate angle came out as `1.0000000000000002`;
(2) four colinear vertices: the true sums are `π + 0` and `0 + π`, i.e. `S0 = S1 = π`, but `Acos` near
`±1` is only accurate to `√(2·2⁻⁵³) ≈ 1.49·10⁻⁸`, and both computed sums were `π + 1.49·10⁻⁸ ≥ π +
10⁻⁸` — the hypothesis `δ < tol` of `flip_no_pingpong` fails for that formula.
The repaired code computes `math.Atan2(|v1×v2|, v1·v2)` (never NaN, accurate to a few `10⁻¹⁶`
everywhere — a fact about the float library, not proved here), for which `δ < tol` holds and
`flip_no_pingpong` applies: see the `example`. -/
theorem flip_pingpong_when_no_sum_is_below_the_threshold {α : Type} [LT α] [DecidableLT α] [Add α]
    (pi tol c0 c1 : α) (h0 : ¬ c0 < pi + tol) (h1 : ¬ c1 < pi + tol) (fuel : Nat) (d : Bool) :
    quadLoop (wantsFlip pi tol) c0 c1 fuel d = none :=
  quadLoop_both_flip _ c0 c1 (wantsFlip_of_not_lt pi tol c0 h0) (wantsFlip_of_not_lt pi tol c1 h1) fuel d

/-- The degenerate pair on four colinear vertices (`S0 = S1 = π`, rational stand-in for `π`): with the
`Acos` error `1.49·10⁻⁸` on both computed sums the loop is still running after 1000 iterations
(by the theorem, after any number); with sums accurate to `10⁻¹⁵` (`Atan2`) it returns at once
without a flip, as `flip_no_pingpong` promises for `δ = 10⁻¹⁵ < tol = 10⁻⁸`. -/
example :
    let pi : Rat := 355 / 113
    let tol : Rat := 1 / 10 ^ 8
    quadLoop (wantsFlip pi tol) (pi + 149 / 10 ^ 10) (pi + 149 / 10 ^ 10) 1000 false = none ∧
      quadLoop (wantsFlip pi tol) (pi + 1 / 10 ^ 15) (pi - 1 / 10 ^ 15) 2 false = some false ∧
      (∀ d fuel, ∃ r, quadLoop (wantsFlip pi tol) (pi + 1 / 10 ^ 15) (pi - 1 / 10 ^ 15) (fuel + 2) d = some r) := by
  refine ⟨quadLoop_both_flip _ _ _ (by decide +kernel) (by decide +kernel) _ _, by decide +kernel, fun d fuel => ?_⟩
  exact flip_no_pingpong (355 / 113) (1 / 10 ^ 8) (1 / 10 ^ 15) (355 / 113) (355 / 113) _ _ (by norm_num)
    (by constructor <;> norm_num) (by constructor <;> norm_num) (by norm_num) d fuel

/-- **`flip_loop_terminates_of_measure`** (the scheme): for every decision `dec` and every
iteration order, if some natural-valued measure of the mesh strictly decreases at every flip the
loop performs, `FlipDelaunay` returns after at most `μ(input)` flips with a mesh on which no
edge is flipped any more. -/
theorem flip_loop_terminates_of_measure (dec : List Tri → Nat → Nat → Bool) (order : List Tri → List Edge)
    (μ : List Tri → Nat) (h : ∀ ts ts', flipStep dec order ts = some ts' → μ ts' < μ ts) (ts : List Tri) :
    ∃ out, flipLoop dec order (μ ts + 1) ts = some out ∧ flipStep dec order out = none :=
  iterLoop_terminates (flipStep dec order) μ h (μ ts + 1) ts (Nat.lt_succ_self _)

/-- **`flat_flip_measure`** — the measure for flat faces.  (1) Replacing `(o1,p1,p2), (o2,p2,p1)`
by `(o1,o2,p2), (p1,o2,o1)` (the triangles the Go code adds) keeps the area and lowers the lifted
measure `Σ orient(t)·(|a|²+|b|²+|c|²)` by exactly the in-circle determinant; (2) that determinant
is `-|u1||u2||w1||w2|·sin(α+β)` for the two angles `α`, `β` opposite the edge, so
`α + β > π` (what the code tests, `0 < α, β < π`) is `inCircle > 0` and an exactly co-circular
quadrilateral has `inCircle = 0` for both diagonals.  Over every commutative ring. -/
theorem flat_flip_measure {R : Type} [CommRing R] (o1 p1 p2 o2 : Pt R) :
    orient o1 p1 p2 + orient o2 p2 p1 = orient o1 o2 p2 + orient p1 o2 o1 ∧
      triMeasure (o1, p1, p2) + triMeasure (o2, p2, p1)
        - (triMeasure (o1, o2, p2) + triMeasure (p1, o2, o1)) = inCircle o1 p1 p2 o2 ∧
      sinSumScaled p1 p2 o1 o2 = - inCircle o1 p1 p2 o2 :=
  ⟨flip_area_identity o1 p1 p2 o2, measure_flip_identity o1 p1 p2 o2, sinSumScaled_eq p1 p2 o1 o2⟩

/-- **`flat_flip_terminates`**: inside a flat patch with integer (after scaling: dyadic)
coordinates, any flip rule that only flips strictly non-Delaunay edges (`inCircle > 0` — what
the tolerance guarantees when the float error is below it) allows no infinite sequence of
flips, in whatever order the edges are visited, and performs at most `measure(start)` flips. -/
theorem flat_flip_terminates (wants : Pt Int → Pt Int → Pt Int → Pt Int → Bool)
    (hw : ∀ p1 p2 o1 o2, wants p1 p2 o1 o2 = true → 0 < inCircle o1 p1 p2 o2) :
    WellFounded (fun s' s => AllCcw s ∧ FlatFlip wants s s') ∧
      ∀ (f : Nat → List (CTri Int)), AllCcw (f 0) → ∀ n, (∀ k < n, FlatFlip wants (f k) (f (k + 1))) →
        measure (f n) + n ≤ measure (f 0) :=
  ⟨flatFlip_wf wants hw, fun f h0 n h => (flatFlip_chain_bound wants hw f h0 n h).2⟩

/-- The trapezoid `A=(84,13) B=(68,51) C=(0,85) D=(-40,75)` on the circle of radius 85 (seeded
change C10-2's input): `inCircle = 0` for both diagonals, so a rule that also flips when
`inCircle = 0` (what `sum <= pi` does once both sums are rounded up) has the 2-cycle
`{CAB, DAC} → {BDA, CDB} → {CAB, DAC}`; a rule with `inCircle > 0` flips neither. -/
example :
    let A : Pt Int := (84, 13); let B : Pt Int := (68, 51); let C : Pt Int := (0, 85); let D : Pt Int := (-40, 75)
    let w : Pt Int → Pt Int → Pt Int → Pt Int → Bool := fun p1 p2 o1 o2 => decide (0 ≤ inCircle o1 p1 p2 o2)
    inCircle B C A D = 0 ∧ inCircle C D B A = 0 ∧
      FlatFlip w [(C, A, B), (D, A, C)] [(B, D, A), (C, D, B)] ∧
      FlatFlip w [(B, D, A), (C, D, B)] [(C, A, B), (D, A, C)] := by
  refine ⟨by decide, by decide, ?_, ?_⟩
  · exact FlatFlip.mk (68, 51) (0, 85) (84, 13) (-40, 75) ((0, 85), (84, 13), (68, 51))
      ((-40, 75), (84, 13), (0, 85)) [] _ (List.Perm.refl _) (Or.inr (Or.inl rfl)) (Or.inl rfl)
      (by decide) (by decide) (by decide)
  · exact FlatFlip.mk (0, 85) (-40, 75) (68, 51) (84, 13) ((0, 85), (-40, 75), (68, 51))
      ((68, 51), (-40, 75), (84, 13)) [] _ (List.Perm.swap _ _ _) (Or.inl rfl) (Or.inr (Or.inl rfl))
      (by decide) (by decide) (by decide)

/-- **`flip_preserves`, edge part** (`_partial`: the statement wanted is `ClosedManifold ts →
ClosedManifold ts'`; that the four changed vertex fans stay single cycles is not proved and is
decided per real output).  The surgery `Remove(t0); Remove(t1); Add{o1,o2,p2}; Add{p1,o2,o1}`
guarded by "`o1 o2` is not yet an edge" (the guard added by repair `6d8398d`), with `p1`, `p2` ordered by
the winding of `t0` (`findOpp` on the DIRECTED edge — the code does exactly this since repair
`48d8902`; before, it compared normals, which reversed a face next to a degenerate triangle), keeps the soup
edge-balanced — closed, consistently oriented, every edge on exactly two faces —, creates no
degenerate face and keeps the number of faces, whenever the two opposite corners differ (no two
faces on the same three vertices: `noDupFace`, checked on every input). -/
theorem flip_preserves_partial {ts ts' : List Tri} {p1 p2 : Nat} (hb : EdgeBalanced ts) (hd : NoDegenerate ts)
    (h : flipEdge ts p1 p2 = some ts')
    (hdup : ∀ t0 o1 t1 o2, findOpp ts p1 p2 = some (t0, o1) → findOpp ts p2 p1 = some (t1, o2) → o1 ≠ o2) :
    EdgeBalanced ts' ∧ NoDegenerate ts' ∧ ts'.length = ts.length := flipEdge_balanced hb hd h hdup

/-- The bipyramid over the triangle `0 1 2` with apexes `3` and `4`: the edge `0 1` has the
opposite corners `3`, `4` and `3 4` is not an edge, so it is flipped and the result is a closed
manifold with the same number of faces; it can be flipped back; on a tetrahedron the opposite
corners of every edge are already joined and the surgery is refused. -/
example :
    let bip : List Tri := [(0,1,3),(1,2,3),(2,0,3),(1,0,4),(2,1,4),(0,2,4)]
    -- edge 0-1: opposite corners 3 and 4, edge 3-4 absent: flipped
    (flipEdge bip 0 1).map closedManifold = some true ∧
      (flipEdge bip 0 1).map List.length = some 6 ∧
      -- in the result the edge 3-4 exists; flipping 3-4 back wants the edge 0-1, absent again
      ((flipEdge bip 0 1).bind fun ts => flipEdge ts 3 4).map closedManifold = some true ∧
      -- tetrahedron: the opposite corners of any edge are already joined: refused
      flipEdge [(0,1,2),(0,2,3),(0,3,1),(1,3,2)] 0 1 = none := by decide

end Flip

/-! ## 3-D decimation: filling the hole left by a removed vertex -/

/-- **`fill_loop_boundary`** (faces and vertices; for every chord oracle — i.e. whatever the
aspect-ratio search picks — and every loop): when `fillLoop` succeeds it returns exactly
`n - 2` triangles and every corner of every triangle is a vertex of the loop. -/
theorem fill_loop_faces_and_vertices (chord : List Nat → Option (Nat × Nat)) (fuel : Nat) (l : List Nat)
    (ts : List Tri) (h : fillLoop chord fuel l = some ts) :
    ts.length + 2 = l.length ∧ ∀ t ∈ ts, ∀ x ∈ triVerts t, x ∈ l := fillLoop_spec chord fuel l ts h

/-- **`decimate_no_new_vertices`**: the faces `attemptRemoveVertex` inserts only use vertices
of the loop around the removed vertex, hence vertices already in the mesh. -/
theorem decimate_no_new_vertices (chord : List Nat → Option (Nat × Nat)) (fuel : Nat) (l : List Nat)
    (ts : List Tri) (h : fillLoop chord fuel l = some ts) : ∀ x ∈ vertsAll ts, x ∈ l := by
  intro x hx
  simp only [vertsAll, List.mem_flatMap] at hx
  obtain ⟨t, ht, hxt⟩ := hx
  exact (fillLoop_spec chord fuel l ts h).2 t ht x hxt

/-- **`fill_loop_boundary`, inductive step**: the boundary edges of the two sub-loops `x…y` and
`y…x` are those of the whole loop plus the chord once in each direction, so gluing two fillings
whose boundaries are the reversed sub-loops gives a filling whose boundary is the reversed loop
(the chord edges cancel).  The base case is the single triangle `(l₀, l₂, l₁)`. -/
theorem fill_loop_boundary_step (x y : Nat) (B D : List Nat) :
    (cycleEdges (x :: B ++ [y]) ++ cycleEdges (y :: D ++ [x])).Perm
      (cycleEdges (x :: B ++ y :: D) ++ [(y, x), (x, y)]) := split_loop_edges x y B D

/-- Base case of `fill_loop_boundary`: the triangle returned for a 3-loop has exactly the
reversed loop as its edges. -/
theorem fill_loop_boundary_base (a b c : Nat) (chord : List Nat → Option (Nat × Nat)) (fuel : Nat) :
    ∃ ts, fillLoop chord (fuel + 1) [a, b, c] = some ts ∧
      (dirEdges ts).Perm ((cycleEdges [a, b, c]).map swap) := by
  refine ⟨[(a, c, b)], by simp [fillLoop], ?_⟩
  simp only [dirEdges, List.flatMap_cons, List.flatMap_nil, List.append_nil, triEdges, cycleEdges,
    List.zip_cons_cons, List.cons_append, List.nil_append, List.zip_nil_right, List.map_cons, List.map_nil, swap]
  exact List.reverse_perm [(b, a), (c, b), (a, c)]

/-- **`fill_loop_boundary`** (assembled: the induction over the index arithmetic of
`newSubloop`).  For every chord oracle — whatever the aspect-ratio search of `createSubloops`
picks —, every recursion depth and every loop: when `fillLoop` succeeds, the directed edges of
the returned triangles are exactly the edges of the loop REVERSED, once each, plus internal
chord edges `I` each occurring as often as its reverse.  Hence gluing the filling into the hole
whose rim is the loop cancels every edge: the re-triangulated mesh is edge-balanced again
(closed, consistently oriented, two faces per edge) provided no chord duplicates an existing
edge — which is what the duplicate-edge rollback of `attemptRemoveVertex` tests. -/
theorem fill_loop_boundary (chord : List Nat → Option (Nat × Nat)) (fuel : Nat) (l : List Nat)
    (ts : List Tri) (h : fillLoop chord fuel l = some ts) :
    ∃ I, (dirEdges ts).Perm ((cycleEdges l).map swap ++ I) ∧ I.Perm (I.map swap) :=
  fillLoop_boundary chord fuel l ts h

/-- An octagon filled by successive chords: 6 faces, closed when glued to the reversed fan. -/
example :
    let chord : List Nat → Option (Nat × Nat) := fun l => some (0, l.length / 2)
    (fillLoop chord 10 [1,2,3,4,5,6,7,8]).map List.length = some 6 ∧
      -- the fan around the removed vertex 0 has the rim 1…8; fan minus filling is closed
      (fillLoop chord 10 [1,2,3,4,5,6,7,8]).map (fun ts =>
        closedManifold (ts ++ [(9,1,2),(9,2,3),(9,3,4),(9,4,5),(9,5,6),(9,6,7),(9,7,8),(9,8,1)])) = some true := by decide

/-! ## `Blur` / `BlurFiltered` with several rates -/

/-- **`blur_rates_are_successive_iterations`** — "If multiple rates are passed, then multiple
iterations of the algorithm are performed in succession".  For the loop of `BlurFiltered` as it
is (two buffers, `copy(coords, newCoords)` after every rate), every neighbour structure, every
field: (1) `Blur(r1…, r2…)` is `Blur(r1…)` followed by `Blur(r2…)` on the same indexed mesh — in
particular `Blur(a, b) = Blur(a).Blur(b)`; (2) one rate is one iteration; (3) an iteration keeps
the number of vertices; (4) in every iteration vertex `i` gets the published rule applied to the
positions of itself and of its neighbours BEFORE that iteration (none of them already moved).
The driver executes `blurRates` at `Rat` on the real coordinates (dyadic inputs, neighbour counts
a power of two: every Go float operation is exact) and demands EQUAL output (`blur-rule`). -/
theorem blur_rates_are_successive_iterations {K : Type} [Field K] [DecidableEq K] (nbrs : Nat → List Nat)
    (d : V3 K) (r1 r2 : List K) (r : K) (cs : List (V3 K)) :
    blurRates nbrs d (r1 ++ r2) cs = blurRates nbrs d r2 (blurRates nbrs d r1 cs) ∧
      blurRates nbrs d [r] cs = blurStep nbrs d r cs ∧
      (blurStep nbrs d r cs).length = cs.length ∧
      ∀ i, i < cs.length →
        (blurStep nbrs d r cs)[i]? = some (blurRule r (cs.getD i d) ((nbrs i).map (cs.getD · d))) :=
  ⟨blurRates_append nbrs d r1 r2 cs, rfl, blurStep_length nbrs d r cs,
    fun _ hi => blurStep_getElem? nbrs d r cs hi⟩

/-- **`blur_rate0_iterations_id`**: iterations with rate 0 change nothing, wherever they stand in
the list of rates (`Blur(0, …, 0)` is the identity, `Blur(r…, 0, s…) = Blur(r…, s…)`). -/
theorem blur_rate0_iterations_id {K : Type} [Field K] [DecidableEq K] (nbrs : Nat → List Nat) (d : V3 K)
    (zs : List K) (hz : ∀ r ∈ zs, r = 0) (r1 r2 : List K) (cs : List (V3 K)) :
    blurRates nbrs d zs cs = cs ∧ blurRates nbrs d (r1 ++ zs ++ r2) cs = blurRates nbrs d (r1 ++ r2) cs := by
  refine ⟨blurRates_zeros nbrs d zs hz cs, ?_⟩
  rw [blurRates_append, blurRates_append, blurRates_zeros nbrs d zs hz, ← blurRates_append]

/-- **`blur_rate1_twice_mean_of_means`**: `Blur(1, 1)` puts vertex `i` at the mean, over its
neighbours `n`, of the mean of the ORIGINAL positions of the neighbours of `n`. -/
theorem blur_rate1_twice_mean_of_means {K : Type} [Field K] [DecidableEq K] [CharZero K] (nbrs : Nat → List Nat)
    (d : V3 K) (cs : List (V3 K)) (i : Nat) (hi : i < cs.length) (hne : nbrs i ≠ [])
    (hn : ∀ n ∈ nbrs i, n < cs.length ∧ nbrs n ≠ []) :
    let mean := fun (ps : List (V3 K)) => (ps.foldl V3.add V3.zero).scale (1 / (ps.length : K))
    (blurRates nbrs d [1, 1] cs)[i]? =
      some (mean ((nbrs i).map fun n => mean ((nbrs n).map (cs.getD · d)))) := by
  intro mean
  have e : blurRates nbrs d [1, 1] cs = blurStep nbrs d 1 (blurStep nbrs d 1 cs) := rfl
  rw [e, blurStep_getElem? nbrs d 1 _ (by rw [blurStep_length]; exact hi)]
  have hmap : (nbrs i).map ((blurStep nbrs d 1 cs).getD · d) =
      (nbrs i).map fun n => mean ((nbrs n).map (cs.getD · d)) := by
    apply List.map_congr_left
    intro n hnm
    obtain ⟨hlt, hnn⟩ := hn n hnm
    rw [List.getD_eq_getElem?_getD, blurStep_getElem? nbrs d 1 cs hlt, Option.getD_some,
      blurRule_rate1 _ _ (by simpa using hnn)]
  rw [hmap, blurRule_rate1 _ _ (by simpa using hne)]

/-- Four mutually adjacent vertices (a tetrahedron) at `e₁, e₂, e₃, 0`, `Blur(1, 1)`: the loop as
it is returns the mean of the means; the loop whose two buffers are aliased after the first rate
(`coords = newCoords`, seeded change C10-5) lets later vertices read already moved ones and
returns something else — although with ONE rate (also `Blur(1).Blur(1)`) both agree. -/
example :
    let nbrs : Nat → List Nat := fun i => (List.range 4).filter (· != i)
    let cs : List (V3 Rat) := [⟨1, 0, 0⟩, ⟨0, 1, 0⟩, ⟨0, 0, 1⟩, ⟨0, 0, 0⟩]
    let z : V3 Rat := ⟨0, 0, 0⟩
    blurRates nbrs z [1, 1] cs = [⟨1/3, 2/9, 2/9⟩, ⟨2/9, 1/3, 2/9⟩, ⟨2/9, 2/9, 1/3⟩, ⟨2/9, 2/9, 2/9⟩] ∧
      blurRatesAliased nbrs z [1, 1] cs =
        [⟨1/3, 2/9, 2/9⟩, ⟨1/3, 8/27, 5/27⟩, ⟨1/3, 23/81, 20/81⟩, ⟨1/3, 65/243, 53/243⟩] ∧
      blurRatesAliased nbrs z [1] (blurRatesAliased nbrs z [1] cs) = blurRates nbrs z [1, 1] cs := by
  decide +kernel

/-! ## `ARAP`: constraint elimination, `SeqDeformer` -/

section Arap
open M3d.ArapOp

/-- **`arap_update_is_fresh_operator`**: `arapOperator.Update(constraints)` — which keeps the
index maps `squeezedToFull`/`fullToSqueezed` (and the Cholesky factor that depends only on them)
when the new constraints have as many keys as the old ones and every new key is an old key —
returns exactly the operator `newARAPOperator` would build for the new constraints.  (Go maps:
distinct keys.)  The reuse is sound because equally many distinct keys, all among the old keys,
ARE the old keys. -/
theorem arap_update_is_fresh_operator {P : Type} {op : Op P} (hf : Fresh op) {cons : List (Nat × P)}
    (hc : (keys cons).Nodup) : update op cons = newOp op.n cons := update_eq_newOp hf hc

/-- **`arap_seq_deformer_meets_constraints`** — "deformation meets its positional constraints
exactly", for `ARAP.SeqDeformer` called any number of times with any constraint sets (same
handles with new targets, other handles, more or fewer handles), either `coldStart` value and
whatever the numerical part computes (`solve`: Laplacian solve, rotations, iteration count,
initial guess — it may depend on the operator and on the previous frame): in the coordinates
returned for every frame, every constrained vertex `k < n` sits exactly on its target; and the
frames are those of a deformer that builds a new operator for every call (`Deform`). -/
theorem arap_seq_deformer_meets_constraints {P : Type} (n : Nat) (z : P) (solve : Op P → List P → List P)
    (frames : List (List (Nat × P))) (hnd : ∀ f ∈ frames, (keys f).Nodup) (cur : List P) :
    (∀ fr ∈ seqFrames update n z solve (none, cur) frames, ∀ kp ∈ fr.1, kp.1 < n → fr.2[kp.1]? = some kp.2) ∧
      seqFrames update n z solve (none, cur) frames =
        seqFrames (fun _ c => newOp n c) n z solve (none, cur) frames :=
  ⟨seqFrames_meet n z solve frames hnd _ (seqInv_init n cur),
    seqFrames_update_eq n z solve frames hnd _ (seqInv_init n cur)⟩

/-- Three vertices, the solver answers `7` for every free vertex.  Frame 1 constrains vertex 0 to
`10`, frame 2 constrains vertex 1 to `20` (same NUMBER of handles, another vertex).  The code as
it is returns `[10,7,7]` and `[7,20,7]`.  With the membership test of `Update` iterating the OLD
map (seeded change C10-6: a tautology) the second frame keeps the index maps of the first:
vertex 1 is treated as free (`7`, not `20`) and vertex 0 is filled from the new map, where it is
missing (`0`). -/
example :
    let solve : Op Nat → List Nat → List Nat := fun _ _ => [7, 7]
    let frames : List (List (Nat × Nat)) := [[(0, 10)], [(1, 20)]]
    (seqFrames update 3 0 solve (none, []) frames).map (·.2) = [[10, 7, 7], [7, 20, 7]] ∧
      (seqFrames updateStale 3 0 solve (none, []) frames).map (·.2) = [[10, 7, 7], [0, 7, 7]] := by
  decide

/-- **`arap_constraints_visible_in_output`** — what the driver evaluates on every real output of
`ARAP.Deform` / `SeqDeformer` (a `*Mesh` does not say which output vertex came from which input
vertex).  If the output soup is (a rearrangement of) the input soup with every vertex `v` moved to
`f v` (`coordsToMesh`) and the constraints are met (`f k = t` for every constraint `k ↦ t`, ids
of coordinates), then every target of a mesh vertex is a vertex of the output
(`constraint-targets-visible`) and, when `f` is injective on the mesh's vertices, the target
carries exactly as many faces as the constrained vertex did (`constraint-stars`).  So a `FAIL` of
either check proves that NO vertex map meeting the constraints produced this output. -/
theorem arap_constraints_visible_in_output {f : Nat → Nat} {inp out : List Tri} (hout : out.Perm (relabel f inp))
    {cons : List (Nat × Nat)} (hmet : ∀ kp ∈ cons, f kp.1 = kp.2) :
    targetsVisible cons inp out = true ∧ (InjOn f (vertsAll inp) → starsAgree cons inp out = true) :=
  ⟨targetsVisible_of_met hout hmet, fun hf => starsAgree_of_met hout hf hmet⟩

/-- A tetrahedron whose vertex 3 is constrained to the new point 9: moving 3 to 9 passes both
checks; an output in which vertex 3 went elsewhere (8) fails the first; an output in which the
target 9 was given to vertex 0 … passes only as long as the stars have equal size (they do on a
tetrahedron: necessary conditions, not a complete test). -/
example :
    let tet : List Tri := [(0,1,2),(0,2,3),(0,3,1),(1,3,2)]
    targetsVisible [(3, 9)] tet (relabel (fun v => if v = 3 then 9 else v) tet) = true ∧
      starsAgree [(3, 9)] tet (relabel (fun v => if v = 3 then 9 else v) tet) = true ∧
      targetsVisible [(3, 9)] tet (relabel (fun v => if v = 3 then 8 else v) tet) = false := by
  decide

end Arap

/-! ## Programs: a mesh handed to an operation is still the same mesh afterwards -/

section Programs
open M3d.MeshHeap

/-- **`eliminate_edges_leaves_every_object_unchanged`** — "EliminateEdges creates a new mesh".  In Go
a `*Mesh` is a set of `*Triangle` pointers and `eliminateSegment` overwrites corners of the
surviving triangles in place (`neighbor[i] = mp`).  For the code as it is — every triangle is
copied into a fresh cell first (`t1 := *t; result.Add(&t1)`), then the collapses run on the copies —
and for every decision oracle (`f`, `canEliminateSegment`, map order: `pick` on the current mesh),
every number of collapses, every heap and every well-formed input object: the returned object
denotes the value-level result `elimLoopVal`, and EVERY object that existed before the call — the
input itself, and any other mesh sharing triangles with it — denotes afterwards exactly the mesh it
denoted before.  The harness re-encodes the real input object after every real call and the driver
demands the same soup (`input-unchanged`). -/
theorem eliminate_edges_leaves_every_object_unchanged (pick : List Tri → Option (Nat × Nat × Nat)) (fuel : Nat)
    (h : Heap) (o : Obj) (w : WF h o) :
    deref (elimEdgesPtr pick fuel h o).1 (elimEdgesPtr pick fuel h o).2 = elimLoopVal pick fuel (deref h o) ∧
      WF (elimEdgesPtr pick fuel h o).1 (elimEdgesPtr pick fuel h o).2 ∧
      ∀ o' : Obj, (∀ p ∈ o', p < h.next) → deref (elimEdgesPtr pick fuel h o).1 o' = deref h o' := by
  obtain ⟨w', s, hd⟩ := elimEdgesPtr_faithful pick fuel h o w
  exact ⟨hd, w', fun o' ho' => deref_stable s ho'⟩

/-- The octahedron (`±x = 0, 1`, `±y = 2, 3`, `±z = 4, 5`), one collapse of the edge `0 2` into the
new point `9`.  The code as it is and the variant working on `m.Copy()` (same pointers; seeded
change C10-10) RETURN the same closed manifold — a bipyramid with 6 faces — but after the shallow
variant the input object no longer denotes the octahedron: the two dropped faces are still in it,
four others were rewritten, and what it denotes is not a closed manifold. -/
example :
    let oct : List Tri := [(0,2,4),(2,1,4),(1,3,4),(3,0,4),(2,0,5),(1,2,5),(3,1,5),(0,3,5)]
    let pick : List Tri → Option (Nat × Nat × Nat) := fun ts => if ts.length = 8 then some (0, 2, 9) else none
    let good := elimEdgesPtr pick 10 (ofList oct).1 (ofList oct).2
    let bad := elimEdgesShallow pick 10 (ofList oct).1 (ofList oct).2
    closedManifold (deref good.1 good.2) = true ∧ (deref good.1 good.2).length = 6 ∧
      deref bad.1 bad.2 = deref good.1 good.2 ∧
      deref good.1 (ofList oct).2 = oct ∧
      deref bad.1 (ofList oct).2 = [(0,2,4),(9,1,4),(1,3,4),(3,9,4),(2,0,5),(1,9,5),(3,1,5),(9,3,5)] ∧
      closedManifold (deref bad.1 (ofList oct).2) = false := by
  decide +kernel

/-- **`eliminate_edges_terminates`**: `canEliminateSegment` is only asked about segments of
triangles of the mesh being edited, so every collapse removes at least the triangles on that
segment: the number of faces strictly decreases, and for every decision oracle the loop has
nothing left to collapse after at most `F` collapses (`F` = number of input faces); the result
has at most `F` faces. -/
theorem eliminate_edges_terminates (pick : List Tri → Option (Nat × Nat × Nat))
    (hp : ∀ ts a b mp, pick ts = some (a, b, mp) → ∃ t ∈ ts, hasBoth t a b = true) (ts : List Tri) :
    pick (elimLoopVal pick ts.length ts) = none ∧ (elimLoopVal pick ts.length ts).length ≤ ts.length :=
  ⟨elimLoopVal_terminates pick hp ts.length ts (Nat.le_refl _), elimLoopVal_length_le pick ts.length ts⟩

/-- **`operations_writing_only_fresh_triangles_leave_objects_unchanged`** — the discipline behind
"creates a new mesh", for every operation of the anchored files.  Whatever object an operation
starts to build from — an empty mesh, a deep copy, or the SHALLOW `m.Copy()` that `FlipDelaunay`,
the decimators and the 2-D `Decimate` / `EliminateColinear` use — and whatever sequence of
`Remove`, `Add(&Triangle{…})` and in-place writes it performs: if every in-place write goes to a
triangle the operation allocated itself (`FlipDelaunay` and the decimators perform none at all),
every mesh object that existed before the call denotes the same mesh afterwards. -/
theorem operations_writing_only_fresh_triangles_leave_objects_unchanged (h : Heap) (start : Obj) (steps : List Step)
    (hw : writesOnlyFresh h.next steps = true) :
    ∀ o' : Obj, (∀ p ∈ o', p < h.next) → deref (runSteps steps (h, start)).1 o' = deref h o' :=
  fun _ ho' => deref_stable (runSteps_stable h steps (h, start) (Stable.refl h) hw) ho'

/-- A flip on the shallow copy of the bipyramid `0 1 2 | 3 4` (pointers `0 … 5`): remove the two
faces at the edge `0 1`, add the two faces at `3 4` — no write, the input still denotes the
bipyramid and the result is the flipped closed manifold.  Overwriting cell `0` in place instead
(`*t = Triangle{…}`) is a write to a triangle of the input: `writesOnlyFresh` is false and the
input changes. -/
example :
    let bip : List Tri := [(0,1,3),(1,2,3),(2,0,3),(1,0,4),(2,1,4),(0,2,4)]
    let s := ofList bip
    let flip : List Step := [.remove 0, .remove 3, .add (3,4,1), .add (0,4,3)]
    let inPlace : List Step := [.write 0 (3,4,1), .write 3 (0,4,3)]
    writesOnlyFresh s.1.next flip = true ∧ deref (runSteps flip s).1 s.2 = bip ∧
      closedManifold (deref (runSteps flip s).1 (runSteps flip s).2) = true ∧
      writesOnlyFresh s.1.next inPlace = false ∧ deref (runSteps inPlace s).1 s.2 ≠ bip := by
  decide +kernel

/-- **`program_on_objects_is_program_on_values`** — the quantifier "all chains of these operations"
over Go programs.  A program is a list of instructions `v_new := op(v_src)` over variables holding
mesh objects; `src` may name ANY earlier variable, any number of times (a mesh is used again after
it was handed to an operation).  If every operation is `Faithful` — it computes its value-level
function and writes only to triangles it allocated itself (`EliminateEdges` is, by the theorem
above; operations that build their result with `NewMesh` + `Add(&Triangle{…})` trivially are) —
then, for every heap and all well-formed initial objects: the meshes denoted by the variables at
the END of the program are exactly the values the same program computes over mesh VALUES, and every
initial variable still denotes its initial mesh.  So each operation of the program received exactly
the mesh the value-level program hands it. -/
theorem program_on_objects_is_program_on_values (prog : List Instr) (h : Heap) (vars : List Obj)
    (hf : ∀ i ∈ prog, Faithful i.hop i.fn) (hw : ∀ o ∈ vars, WF h o) :
    (runHeap prog (h, vars)).2.map (deref (runHeap prog (h, vars)).1) = runPure prog (vars.map (deref h)) ∧
      (∀ o ∈ vars, deref (runHeap prog (h, vars)).1 o = deref h o) ∧ vars <+: (runHeap prog (h, vars)).2 := by
  obtain ⟨e, _, s, hp⟩ := runHeap_eq_runPure prog h vars hf hw
  exact ⟨e, fun o ho => deref_stable s (hw o ho).2, hp⟩

/-- **`program_keeps_closed_manifolds`**: if moreover every value-level operation maps closed
oriented manifolds to closed oriented manifolds and the program starts from closed oriented
manifolds, every variable of the program — intermediate results and inputs alike — denotes a closed
oriented manifold when the program ends, whatever the order in which meshes are re-used. -/
theorem program_keeps_closed_manifolds (prog : List Instr) (h : Heap) (vars : List Obj)
    (hf : ∀ i ∈ prog, Faithful i.hop i.fn) (hw : ∀ o ∈ vars, WF h o)
    (hc : ∀ i ∈ prog, ∀ ts, ClosedManifold ts → ClosedManifold (i.fn ts))
    (hv : ∀ o ∈ vars, ClosedManifold (deref h o)) :
    ∀ o ∈ (runHeap prog (h, vars)).2, ClosedManifold (deref (runHeap prog (h, vars)).1 o) := by
  obtain ⟨e, _, _, _⟩ := runHeap_eq_runPure prog h vars hf hw
  intro o ho
  apply runPure_closed prog (vars.map (deref h)) hc
  · intro v hv'
    obtain ⟨o', ho', rfl⟩ := List.mem_map.1 hv'
    exact hv o' ho'
  · rw [← e]; exact List.mem_map.2 ⟨o, ho, rfl⟩

/-- Non-vacuity and separation: the program `b := a.EliminateEdges(f); c := a.DeepCopy()` on the
octahedron (`DeepCopy` = the copying loop alone).  With the code as it is (`Faithful`, so the
theorems apply) `b` is the closed bipyramid and `a`, `c` are the octahedron; with the shallow
variant `a` is what the first call left behind, so neither `a` nor `c` is a closed manifold. -/
example :
    let oct : List Tri := [(0,2,4),(2,1,4),(1,3,4),(3,0,4),(2,0,5),(1,2,5),(3,1,5),(0,3,5)]
    let pick : List Tri → Option (Nat × Nat × Nat) := fun ts =>
      if ts.any (fun t => hasBoth t 0 2) then some (0, 2, 9) else none
    let prog (op : HOp) : List Instr :=
      [⟨0, op, elimLoopVal pick 1⟩, ⟨0, elimEdgesPtr (fun _ => none) 0, elimLoopVal (fun _ => none) 0⟩]
    let good := runHeap (prog (elimEdgesPtr pick 1)) ((ofList oct).1, [(ofList oct).2])
    let bad := runHeap (prog (elimEdgesShallow pick 1)) ((ofList oct).1, [(ofList oct).2])
    (∀ i ∈ prog (elimEdgesPtr pick 1), Faithful i.hop i.fn) ∧
      good.2.map (deref good.1) = runPure (prog (elimEdgesPtr pick 1)) [oct] ∧
      (good.2.map fun o => closedManifold (deref good.1 o)) = [true, true, true] ∧
      (bad.2.map fun o => closedManifold (deref bad.1 o)) = [false, true, false] := by
  refine ⟨?_, by decide +kernel, by decide +kernel, by decide +kernel⟩
  intro i hi
  simp only [List.mem_cons, List.not_mem_nil, or_false] at hi
  rcases hi with hi | hi <;> subst hi <;> exact elimEdgesPtr_faithful _ _

end Programs

/-! ## `ARAP`: the control loop — accuracy does not depend on the size of the model -/

section ArapLoop
open M3d.ArapLoop

/-- **`arap_loop_stops_by_the_relative_rule`** — `ARAP.deformMap` as it is
(`if iter+1 >= minIters && 1-energy/lastEnergy < tolerance { break }`), for every scalar type
(`Float` included: nothing but the control flow is used), every energy sequence and all settings:
the number `n` of linear solves it performs is at most `MaxIterations`; if it is smaller, then
`n ≥ MinIterations`, `n ≥ 1` and the last solve lowered the energy by less than the fraction
`Tolerance`; no earlier permitted iteration passed that test; hence `n` is an allowed stop. -/
theorem arap_loop_stops_by_the_relative_rule {α : Type} [Sub α] [Div α] [OfNat α 1] [LT α] [DecidableLT α]
    [BEq α] [OfNat α 0] (tol : α) (minIters maxIters : Nat) (E : Nat → α) :
    let n := countRel tol minIters maxIters E
    n ≤ maxIters ∧ (n < maxIters → minIters ≤ n ∧ 0 < n ∧ converged tol (E n) (E (n - 1)) = true) ∧
      (∀ k, 0 < k → k < n → minIters ≤ k → converged tol (E k) (E (k - 1)) = false) ∧
      allowedStop tol minIters maxIters E n = true := by
  intro n
  obtain ⟨_, h2, h3, h4⟩ := loopFrom_spec (converged tol) minIters E maxIters 0
  simp only [Nat.zero_add] at h2 h3
  exact ⟨h2, fun h => h3 h, h4, allowedStop_countRel tol minIters maxIters E⟩

/-- **`arap_stop_rule_is_scale_free`**: the ARAP energy is quadratic in the size of the model
(a model scaled by `s` has the energies `s²·E_k`).  For every factor `c ≠ 0` the loop performs the
same number of iterations on the energies `c·E_k` as on `E_k`, and the same stops are allowed: the
accuracy reached, measured in model sizes, is the same for a model of a micrometre and of a
kilometre. -/
theorem arap_stop_rule_is_scale_free {K : Type} [Field K] [LinearOrder K] [IsStrictOrderedRing K]
    (c tol : K) (hc : c ≠ 0) (minIters maxIters : Nat) (E : Nat → K) :
    countRel tol minIters maxIters (fun k => c * E k) = countRel tol minIters maxIters E ∧
      ∀ n, allowedStop tol minIters maxIters (fun k => c * E k) n = allowedStop tol minIters maxIters E n :=
  ⟨countRel_scale c tol hc minIters maxIters E, allowedStop_scale c tol hc minIters maxIters E⟩

/-- **`arap_no_early_stop_while_energy_drops`** — what the driver reports.  No allowed stop lies
before `MaxIterations` at an iteration count `n` around which a positive energy is still falling by
at least the fraction `Tolerance` per iteration (`stillDropping`: into `n` and after `n`, above a
non-negative `guard`).  So a real run that stops there is not stopping by convergence. -/
theorem arap_no_early_stop_while_energy_drops {K : Type} [Field K] [LinearOrder K] [IsStrictOrderedRing K]
    (tol guard : K) (ht : tol < 1) (hg : 0 ≤ guard) (minIters maxIters : Nat) (E : Nat → K) (n : Nat)
    (hn : n < maxIters) (hd : stillDropping tol guard E n = true) :
    allowedStop tol minIters maxIters E n = false := by
  cases h : allowedStop tol minIters maxIters E n with
  | false => rfl
  | true => exact (no_allowed_stop_while_dropping tol guard minIters maxIters E n ht hg hn h hd).elim

/-- **`arap_runs_its_budget_while_energy_drops`** — "reproduces a rigid motion when the constraints
are one", as far as an iteration can.  When the handles follow one rigid motion the minimum of the
energy is `0`, attained at the rigid image (`arap_energy_zero_at_rigid_image`, which is a fixed point
of the linear step: `arap_rigid_motion_solves_linear_step`).  If the energies stay positive and fall
by at least the fraction `Tolerance` in every iteration of the budget, the only allowed stop is
`MaxIterations`, and the final energy is at most `(1 - Tolerance)^MaxIterations · E_0` — a bound
relative to the initial energy, i.e. independent of the size of the model. -/
theorem arap_runs_its_budget_while_energy_drops {K : Type} [Field K] [LinearOrder K] [IsStrictOrderedRing K]
    (tol : K) (ht : tol < 1) (minIters maxIters : Nat) (E : Nat → K)
    (hpos : ∀ k, k ≤ maxIters → 0 < E k) (hdrop : ∀ k, k < maxIters → E (k + 1) ≤ (1 - tol) * E k) (n : Nat)
    (ha : allowedStop tol minIters maxIters E n = true) :
    n = maxIters ∧ E maxIters ≤ (1 - tol) ^ maxIters * E 0 := by
  refine ⟨?_, geometric_bound tol maxIters E ht.le hdrop maxIters (Nat.le_refl _)⟩
  by_contra hne
  unfold allowedStop at ha
  simp only [Bool.or_eq_true, Bool.and_eq_true, decide_eq_true_eq, beq_iff_eq] at ha
  rcases ha with ha | ⟨⟨⟨hlt, _⟩, h1⟩, hcs⟩
  · exact hne ha
  · have hd := hdrop (n - 1) (by omega)
    rw [show n - 1 + 1 = n by omega] at hd
    rcases hcs with hc | hs
    · rw [not_converged_of_drop tol _ _ (hpos (n - 1) (by omega)) hd] at hc
      exact Bool.false_ne_true hc
    · have := hpos n (by omega)
      unfold spent at hs
      simp only [Bool.or_eq_true, beq_iff_eq, Bool.not_eq_true', beq_eq_false_iff_ne, ne_eq, not_true_eq_false, or_false] at hs
      linarith

/-- Energies halving in every iteration (`E_k = s/2^k`), tolerance `1/1000`, `MinIterations = 2`,
budget 30.  At every size `s` the loop as it is uses its whole budget (the hypotheses of the theorem
above hold: non-vacuity).  With an absolute floor `E < 10⁻¹⁴` in front of the test (seeded change
C10-11) a model of size `2⁻²⁰` (`s = 2⁻⁴⁰`) stops after 7 iterations and one of size `2⁻³⁰`
right at `MinIterations`, although the energy is still halving: not an allowed stop, and exactly
what the driver's `stillDropping` test sees. -/
example :
    let E (s : Rat) : Nat → Rat := fun k => s / 2 ^ k
    let tol : Rat := 1 / 1000
    let floor : Rat := 1 / 10 ^ 14
    countRel tol 2 30 (E 1) = 30 ∧ countRel tol 2 30 (E (1 / 2 ^ 60)) = 30 ∧
      count (convergedFloor floor tol) 2 30 (E (1 / 2 ^ 40)) = 7 ∧
      count (convergedFloor floor tol) 2 30 (E (1 / 2 ^ 60)) = 2 ∧
      allowedStop tol 2 30 (E (1 / 2 ^ 60)) 2 = false ∧ stillDropping tol 0 (E (1 / 2 ^ 60)) 2 = true ∧
      allowedStop tol 2 30 (E (1 / 2 ^ 60)) 30 = true ∧
      (∀ k, k < 30 → E 1 (k + 1) ≤ (1 - tol) * E 1 k) := by
  refine ⟨by decide +kernel, by decide +kernel, by decide +kernel, by decide +kernel, by decide +kernel,
    by decide +kernel, by decide +kernel, ?_⟩
  intro k _
  simp only
  rw [pow_succ, ← div_div]
  have : (0 : Rat) < 1 / 2 ^ k := by positivity
  linarith

end ArapLoop

/-! ## `ARAP`: the linear step reproduces a rigid motion (one weight table for matrix and right-hand side) -/

section ArapLin
open M3d.ArapOp M3d.ArapLin

/-- **`arap_rigid_motion_solves_linear_step`** — "deformation … reproduces a rigid motion when the
constraints are one".  Every iteration of `ARAP.deformMap` solves
`squeezedMatrix · x = Squeeze(Targets(rotations)) + SqueezeDelta()` and returns `Unsqueeze(x)`.  For
EVERY adjacency-with-weights table `rows` (cotangent, |cotangent|, uniform, anything; symmetric or
not), every mesh position `p`, every motion `x ↦ R x + t` (`R` any matrix, so in particular every
rotation) and every handle set whose targets are the images of the handles, with all rotations `R`:

1. the operator applied to the squeezed rigid image `y = R p + t` IS the right-hand side
   (`applyOp … (Squeeze y) = rhs … (Targets(R,…,R))`), where
2. `Apply` is the matrix `LinSolve` factorises (row of `squeezedMatrix` · `v` = row of `Apply(v)`), and
3. `Unsqueeze(Squeeze y) = y`;

so the rigid image is an exact solution of the linear step, hence (4.) whatever `solve` returns a
solution of the system, if the system has only one, the step returns exactly the rigid image.
The weights cancel only because `Targets`, `Apply`/`squeezedMatrix` and `SqueezeDelta` read the
SAME table (the `linear` scheme of `NewARAPWeighted`) — see the `example` below for the
right-hand side built from the other table (seeded change C10-8).  `2 ≠ 0`: `Targets` halves the
weights. -/
theorem arap_rigid_motion_solves_linear_step {K : Type} [Field K] (h2 : (2 : K) ≠ 0) (n : Nat)
    (rows : Nat → List (Nat × K)) (p : Nat → V3 K) (R : Mat3 K) (t : V3 K)
    (cons : List (Nat × V3 K)) (hc : (keys cons).Nodup)
    (hk : ∀ kv ∈ cons, kv.2 = rigid R t (p kv.1))
    (hrows : ∀ i, i < n → ∀ nw ∈ rows i, nw.1 < n) :
    let op := newOp n cons
    let y := (List.range n).map fun i => rigid R t (p i)
    applyOp op rows (squeeze op V3.zero y) = rhs op rows (targets n rows p (fun _ => R)) ∧
      (∀ v : List (V3 K), (matrix op rows).map (fun mr => rowDot mr (vecFn v)) = applyOp op rows v) ∧
      unsqueeze op V3.zero (squeeze op V3.zero y) = y ∧
      (∀ x : List (V3 K), (∀ x', applyOp op rows x' = applyOp op rows x → x'.length = x.length → x' = x) →
        applyOp op rows x = rhs op rows (targets n rows p (fun _ => R)) → x.length = op.s2f.length →
        unsqueeze op V3.zero x = y) := by
  intro op y
  have h1 := linear_step_rigid h2 n rows p R t cons hc hk hrows
  have h3 := unsqueeze_squeeze_rigid n (fun i => rigid R t (p i)) cons hc hk
  refine ⟨h1, fun v => matrix_is_apply op rows v, h3, ?_⟩
  intro x huniq hx hlen
  have : squeeze op V3.zero y = x := by
    apply huniq
    · rw [hx]; exact h1
    · rw [hlen]; simp [squeeze]
  rw [← this]; exact h3

/-- **`arap_energy_zero_at_rigid_image`**: the ARAP energy (`ARAP.energy`, the convergence test of
`deformMap`) of a rigid image with the rotation of the motion at every vertex is exactly zero, for
every weight table — the rigid image is a global minimiser whenever the weights are non-negative. -/
theorem arap_energy_zero_at_rigid_image {K : Type} [Field K] (n : Nat) (rows : Nat → List (Nat × K))
    (p : Nat → V3 K) (R : Mat3 K) (t : V3 K) :
    energy n rows p (fun i => rigid R t (p i)) (fun _ => R) = 0 := energy_rigid n rows p R t

/-- Non-vacuity and separation.  A triangle fan of four vertices (vertex 0 adjacent to 1, 2, 3; the
others to 0 and to each other as in a tetrahedron) with `linear = uniform` weights (`1`) and a
rotation table that differs (`2` on the edges at vertex 0); `R` = the quarter turn about `z`,
`t = (1, 0, 0)`, handle = vertex 3 on its image.  With `Targets` reading the linear table the
rigid image solves the step; with `Targets` reading the rotation table (seeded change C10-8) the
right-hand side is another vector, so the rigid image no longer solves the system. -/
example :
    let lin : Nat → List (Nat × Rat) := fun i =>
      [[(1, 1), (2, 1), (3, 1)], [(0, 1), (2, 1), (3, 1)], [(0, 1), (1, 1), (3, 1)], [(0, 1), (1, 1), (2, 1)]].getD i []
    let rotT : Nat → List (Nat × Rat) := fun i =>
      [[(1, 2), (2, 2), (3, 2)], [(0, 2), (2, 1), (3, 1)], [(0, 2), (1, 1), (3, 1)], [(0, 2), (1, 1), (2, 1)]].getD i []
    let p : Nat → V3 Rat := fun i => [⟨0, 0, 0⟩, ⟨1, 0, 0⟩, ⟨0, 2, 0⟩, ⟨0, 0, 3⟩].getD i ⟨0, 0, 0⟩
    let R : Mat3 Rat := ⟨0, -1, 0, 1, 0, 0, 0, 0, 1⟩
    let t : V3 Rat := ⟨1, 0, 0⟩
    let cons : List (Nat × V3 Rat) := [(3, rigid R t (p 3))]
    let op := newOp 4 cons
    let y := (List.range 4).map fun i => rigid R t (p i)
    applyOp op lin (squeeze op V3.zero y) = rhs op lin (targets 4 lin p (fun _ => R)) ∧
      applyOp op lin (squeeze op V3.zero y) ≠ rhs op lin (targets 4 rotT p (fun _ => R)) ∧
      energy 4 lin p (fun i => rigid R t (p i)) (fun _ => R) = 0 := by
  decide +kernel

end ArapLin

/-! ## The best-fit rotations of ARAP (`ARAP.rotations`; model `M3d/Model/ArapRot.lean`)

Per vertex: covariance of the one-ring (`covRow`, rotation weight table), `Matrix3.SVD` (an oracle:
`covariance = u · diag(s₀,s₁,s₂) · v^T`, `u`, `v` orthogonal, `s₀ ≥ s₁ ≥ s₂ ≥ 0`), and
`rotOf u v = v u^T`, with the left singular vector of the SMALLEST singular value (column 2)
negated when `det (v u^T) < 0`. -/
section ArapRot
open M3d.ArapLin M3d.ArapRot

/-- **`arap_rotation_repair_maps_major_singular_vectors`**: for orthogonal `u`, `v` (what an SVD
delivers) the matrix `ARAP.rotations` returns is a proper rotation — orthogonal, determinant `1`,
whatever the sign of `det (v u^T)` — and it maps the left singular vectors of the two LARGEST
singular values to the corresponding right ones: `rot u₀ = v₀`, `rot u₁ = v₁` (and `rot u₂ = ± v₂`:
only the direction of the smallest singular value pays for the repair, which is what makes `rot` the
proper rotation of best fit).  Negating another column (seeded change C10-15: the middle one) gives
`rot u₁ = -v₁`.  The driver evaluates `det rot > 0`, `(rot u₀)·v₀ > 0`, `(rot u₁)·v₁ > 0` exactly on
the real outputs (`araprot3`). -/
theorem arap_rotation_repair_maps_major_singular_vectors {K : Type} [Field K] [LinearOrder K] [IsStrictOrderedRing K]
    (u v : Mat3 K) (hu : Orth u) (hv : Orth v) :
    Orth (rotOf u v) ∧ ArapRot.det (rotOf u v) = 1 ∧
      Mat3.mulCol (rotOf u v) (col u 0) = col v 0 ∧ Mat3.mulCol (rotOf u v) (col u 1) = col v 1 ∧
      Mat3.mulCol (rotOf u v) (col u 2) = (col v 2).scale (ArapRot.det v * ArapRot.det u) := by
  refine ⟨rotOf_orth hu hv, rotOf_det hu hv, ?_, ?_, ?_⟩
  · rw [mulCol_col, rotOf_mul_u hu, col_mul_diag0, scale_one]
  · rw [mulCol_col, rotOf_mul_u hu, col_mul_diag1, scale_one]
  · rw [mulCol_col, rotOf_mul_u hu, col_mul_diag2, sgn_eq_det hu hv]

/-- **`arap_best_fit_rotation_of_rigid_image`** ("reproduces a rigid motion"): let `y = R p + t` be
the image of the mesh under a rigid motion (`R` orthogonal, `det R = 1`), let the rotation weights
of vertex `i` be non-negative, and let `u · diag(s₀,s₁,s₂) · v^T` (orthogonal `u`, `v`; `s₀, s₁ > 0`:
the one-ring is not contained in a line — it may be FLAT, `s₂ = 0`, the interior of a planar face)
be a singular value decomposition of the covariance matrix `ARAP.rotations` forms for vertex `i`.
Then the rotation it returns for vertex `i` is `R` — for every such decomposition, i.e. whatever
signs the SVD picked for the singular vectors (for a flat one-ring `det (v u^T)` is `-1` for half
of the choices, and the repair must negate the column of `s₂`).  With `arap_energy_zero_at_rigid_image`
and `arap_rigid_motion_solves_linear_step`: the rigid image is a fixed point of the iteration. -/
theorem arap_best_fit_rotation_of_rigid_image {K : Type} [Field K] [LinearOrder K] [IsStrictOrderedRing K]
    (p : Nat → V3 K) (R : Mat3 K) (t : V3 K) (i : Nat) (row : List (Nat × K)) (hw : ∀ nw ∈ row, 0 ≤ nw.2)
    (hR : Orth R) (hdR : ArapRot.det R = 1)
    (u v : Mat3 K) (s0 s1 s2 : K) (hu : Orth u) (hv : Orth v) (h0 : 0 < s0) (h1 : 0 < s1)
    (hsvd : mul (mul u (diag s0 s1 s2)) (transpose v) = covRow p (fun k => rigid R t (p k)) i row) :
    rotOf u v = R := by
  rw [covRow_rigid] at hsvd
  exact rotOf_rigid hu hv hR hdR h0 h1 hsvd (gram_symm p i row) (gram_psd p i row hw)

/-- Non-vacuity and separation: a FLAT one-ring (four neighbours in the plane `z = 0` around the
origin, weights 1), `R` = the quarter turn about `x`, `t = (1, 2, 3)`.  The covariance of the rigid
image is `u · diag(2, 2, 0) · v^T` for `u = I`, `v = R · diag(1, 1, -1)` — an admissible output of an SVD
with `det (v u^T) = -1`: the hypotheses of both theorems hold, `rotOf u v = R`, whereas negating the
MIDDLE column (seeded change C10-15) gives another rotation, which sends `u₁` to `-v₁`. -/
example :
    let p : Nat → V3 Rat := fun k => [⟨0, 0, 0⟩, ⟨1, 0, 0⟩, ⟨0, 1, 0⟩, ⟨-1, 0, 0⟩, ⟨0, -1, 0⟩].getD k ⟨0, 0, 0⟩
    let row : List (Nat × Rat) := [(1, 1), (2, 1), (3, 1), (4, 1)]
    let R : Mat3 Rat := ⟨1, 0, 0, 0, 0, -1, 0, 1, 0⟩
    let t : V3 Rat := ⟨1, 2, 3⟩
    let u : Mat3 Rat := ArapRot.one
    let v : Mat3 Rat := mul R (diag 1 1 (-1))
    let seeded := mul v (transpose (negCol 1 u))
    mul (mul u (diag 2 2 0)) (transpose v) = covRow p (fun k => rigid R t (p k)) 0 row ∧
      mul (transpose u) u = ArapRot.one ∧ mul (transpose v) v = ArapRot.one ∧ mul v (transpose v) = ArapRot.one ∧
      ArapRot.det (mul v (transpose u)) = -1 ∧ ArapRot.det R = 1 ∧
      rotOf u v = R ∧ seeded ≠ R ∧ ArapRot.det seeded = 1 ∧
      Mat3.mulCol seeded (col u 1) = (col v 1).scale (-1) := by
  decide +kernel

end ArapRot

end M3d.C10
