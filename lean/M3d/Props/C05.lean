import M3d.Lemmas.Transform
import Mathlib.Algebra.Order.Field.Rat
/-!
# C05 — transforms invert, and transformed objects are images of the original

Property theorems only.  Model: `M3d/Model/Transform.lean` (transcribes `model3d/transform.go`,
`model3d/matrix.go`, `model2d/matrix.go`, `toolbox3d/squeeze.go`; the 2-D instance of the transform
template is the same text and is run through the same model on the plane `z = 0`).  Helper lemmas:
`M3d/Lemmas/Transform.lean`.  Everything is proved for **every** linear ordered field `K` (ℝ, ℚ, …); the
driver executes the very same definitions at `K = ℚ`.

Vocabulary: `t.Valid` — the transform is one the library can invert (non-zero scale factors / determinant,
squeeze with `Min ≤ Max`, `Ratio > 0`); `t.DistValid` — a `DistTransform` made of translations, non-zero
uniform scales, orthogonal matrices (`mᵀ m = 1`) and joins of those; `t.Affine` — no squeeze inside;
`t.lin d = t.Apply(d) - t.Apply(0)` — the linear part `L` applied to a direction; `t.factor` — the factor by
which `t` changes distances; `Box lo hi p` — `p` lies in the box.
-/
namespace M3d.C05
open M3d.Tf

set_option linter.unusedSectionVars false

variable {K : Type} [Field K] [LinearOrder K] [IsStrictOrderedRing K]

/-! ## Matrices -/

/-- `Matrix3.Inverse()` (adjugate scaled by `1/Det()`) is a left inverse whenever `Det() ≠ 0`. -/
theorem matrix3_inverse_mul (m : M3 K) (h : m.det ≠ 0) : m.inverse.mul m = M3.one := M3.inverse_mul m h

/-- … and a right inverse. -/
theorem matrix3_mul_inverse (m : M3 K) (h : m.det ≠ 0) : m.mul m.inverse = M3.one := M3.mul_inverse m h

/-- `Matrix2.Inverse()` is a left inverse whenever `Det() ≠ 0`. -/
theorem matrix2_inverse_mul (m : M2 K) (h : m.det ≠ 0) : m.inverse.mul m = M2.one := M2.inverse_mul m h

/-- … and a right inverse. -/
theorem matrix2_mul_inverse (m : M2 K) (h : m.det ≠ 0) : m.mul m.inverse = M2.one := M2.mul_inverse m h

/-- `MulColumnInv(c, m.Det())` is `Inverse().MulColumn(c)` (3-D and 2-D). -/
theorem matrix_mul_column_inv (m : M3 K) (c : V3 K) (m2 : M2 K) (c2 : V2 K) :
    m.mulColumnInv c m.det = m.inverse.mulColumn c ∧ m2.mulColumnInv c2 m2.det = m2.inverse.mulColumn c2 :=
  ⟨M3.mulColumnInv_eq m c, M2.mulColumnInv_eq m2 c2⟩

/-- `Inverse().MulColumn(m.MulColumn(c)) = c = m.MulColumn(Inverse().MulColumn(c))`. -/
theorem matrix3_inverse_mul_column (m : M3 K) (h : m.det ≠ 0) (c : V3 K) :
    m.inverse.mulColumn (m.mulColumn c) = c ∧ m.mulColumn (m.inverse.mulColumn c) = c :=
  ⟨M3.inverse_mulColumn m h c, M3.mulColumn_inverse m h c⟩

example : (⟨2, 1, 0, 1, 1, 0, 0, 0, 1⟩ : M3 ℚ).det ≠ 0 := by norm_num [M3.det]

/-! ## Inverse / Apply round trips -/

/-- **`t.Inverse().Apply(t.Apply(p)) = p`** for translations, scales `s ≠ 0`, per-axis scales with non-zero
components (negative allowed), matrices with `Det ≠ 0`, orthogonal-matrix transforms, axis squeezes
(`Min ≤ Max`, `Ratio > 0`), and arbitrary (nested) `JoinedTransform`s of those. -/
theorem inverse_apply (t : Xf K) (h : t.Valid) (p : V3 K) : t.inverse.apply (t.apply p) = p :=
  Xf.inverse_apply t h p

/-- **`t.Apply(t.Inverse().Apply(p)) = p`** (the other order). -/
theorem apply_inverse (t : Xf K) (h : t.Valid) (p : V3 K) : t.apply (t.inverse.apply p) = p :=
  Xf.apply_inverse t h p

/-- `Inverse()` of an invertible transform is again invertible (so inverses can be nested). -/
theorem inverse_valid (t : Xf K) (h : t.Valid) : t.inverse.Valid := by
  induction t with
  | translate o => trivial
  | scale s => exact one_div_ne_zero h
  | vecScale v => exact ⟨one_div_ne_zero h.1, one_div_ne_zero h.2.1, one_div_ne_zero h.2.2⟩
  | matrix m =>
      intro h0
      have h1 := M3.inverse_mul m h
      have h2 : (m.inverse.mul m).det = m.inverse.det * m.det := by simp only [M3.det, M3.mul]; ring
      rw [h1, h0, zero_mul] at h2
      simp [M3.det, M3.one] at h2
  | ortho m =>
      intro h0
      have h1 := M3.inverse_mul m h
      have h2 : (m.inverse.mul m).det = m.inverse.det * m.det := by simp only [M3.det, M3.mul]; ring
      rw [h1, h0, zero_mul] at h2
      simp [M3.det, M3.one] at h2
  | squeeze ax lo hi r =>
      refine ⟨?_, by have := h.2; positivity⟩
      have := mul_nonneg (sub_nonneg.mpr h.1) h.2.le
      linarith
  | jnil => trivial
  | jcons t r iht ihr => exact Xf.valid_snoc _ _ (ihr h.2) (iht h.1)

/-- The slice `JoinedTransform{t₁,…,tₙ}`. -/
def ofList : List (Xf K) → Xf K
  | [] => .jnil
  | t :: ts => .jcons t (ofList ts)

/-- **`JoinedTransform.Inverse()` is the reversed list of the inverses**, and `Apply` composes left to right. -/
theorem joined_inverse_reversed (ts : List (Xf K)) :
    (ofList ts).inverse = ofList (ts.reverse.map Xf.inverse) ∧
      ∀ p, (ofList ts).apply p = ts.foldl (fun c t => t.apply c) p := by
  have hsnoc : ∀ (l : List (Xf K)) (t : Xf K), (ofList l).snoc t = ofList (l ++ [t]) := by
    intro l t
    induction l with
    | nil => rfl
    | cons a l ih => simp only [ofList, Xf.snoc, ih, List.cons_append]
  constructor
  · induction ts with
    | nil => rfl
    | cons t ts ih =>
        simp only [ofList, Xf.inverse, ih, hsnoc, List.reverse_cons, List.map_append, List.map_cons, List.map_nil]
  · induction ts with
    | nil => intro p; rfl
    | cons t ts ih => intro p; simp only [ofList, Xf.apply, ih, List.foldl_cons]

example : (Xf.jcons (.scale (-2 : ℚ)) (.jcons (.squeeze 2 0 4 (1 / 2)) (.jcons (.vecScale ⟨-1, 2, 4⟩) .jnil))).Valid := by
  norm_num [Xf.Valid]

/-- The theorems hold in particular at `ℚ`, the instance the driver executes. -/
example (t : Xf ℚ) (h : t.Valid) (p : V3 ℚ) : t.inverse.apply (t.apply p) = p := inverse_apply t h p

/-! ## ApplyBounds -/

/-- **`ApplyBounds(min,max)` encloses the image of every point of the box `[min,max]`** — translation,
uniform scale of either sign, per-axis scale with negative components, matrix (running min/max over the 8
corner images = their bounding box), squeeze (`Min ≤ Max`, `Ratio ≥ 0`), joins. -/
theorem apply_bounds_encloses (t : Xf K) (h : t.BoundsOK) (lo hi p : V3 K) (hb : Box lo hi p) :
    Box (t.applyBounds lo hi).1 (t.applyBounds lo hi).2 (t.apply p) :=
  Xf.applyBounds_encloses t h lo hi p hb

/-- … in the form the library tests it (`InBounds`, `CheckedFuncSolid`): `c.Min(min) == min && c.Max(max) == max`. -/
theorem apply_bounds_in_bounds (t : Xf K) (h : t.BoundsOK) (lo hi p : V3 K) (hb : inBounds p lo hi = true) :
    inBounds (t.apply p) (t.applyBounds lo hi).1 (t.applyBounds lo hi).2 = true :=
  (inBounds_iff _ _ _).mpr (Xf.applyBounds_encloses t h lo hi p ((inBounds_iff _ _ _).mp hb))

/-- The new bounds are ordered (`min ≤ max`) whenever the old ones are, so `FuncSolid`/`FuncSDF`'s
"invalid bounds" panic cannot be caused by the transform. -/
theorem apply_bounds_ordered (t : Xf K) (h : t.BoundsOK) (lo hi : V3 K)
    (hx : lo.x ≤ hi.x) (hy : lo.y ≤ hi.y) (hz : lo.z ≤ hi.z) :
    (t.applyBounds lo hi).1.x ≤ (t.applyBounds lo hi).2.x ∧ (t.applyBounds lo hi).1.y ≤ (t.applyBounds lo hi).2.y ∧
      (t.applyBounds lo hi).1.z ≤ (t.applyBounds lo hi).2.z := by
  have hb : Box lo hi lo := ⟨⟨le_refl _, hx⟩, ⟨le_refl _, hy⟩, ⟨le_refl _, hz⟩⟩
  obtain ⟨h1, h2, h3⟩ := Xf.applyBounds_encloses t h lo hi lo hb
  exact ⟨le_trans h1.1 h1.2, le_trans h2.1 h2.2, le_trans h3.1 h3.2⟩

/-- every invertible transform satisfies the side condition of the bounds theorems -/
theorem valid_bounds_ok (t : Xf K) (h : t.Valid) : t.BoundsOK := Xf.valid_boundsOK t h

example : Box (⟨0, 0, 0⟩ : V3 ℚ) ⟨1, 1, 1⟩ ⟨1 / 2, 0, 1⟩ := by norm_num [Box]

/-! ## ApplyDistance -/

/-- `ApplyDistance(d) = d · factor` (`Translate`, orthogonal: 1; `Scale`: `|s|`; joins: the product). -/
theorem apply_distance_factor (t : Xf K) (d : K) : t.applyDistance d = d * t.factor := Xf.applyDistance_eq t d

/-- **`ApplyDistance` maps the distance of two points to the distance of their images**: if `d ≥ 0` and
`d² = |p − q|²` then `ApplyDistance(d) ≥ 0` and `ApplyDistance(d)² = |t(p) − t(q)|²` — for every `DistTransform`
made of translations, non-zero scales (negative too), orthogonal matrices and joins. -/
theorem apply_distance_exact (t : Xf K) (h : t.DistValid) (p q : V3 K) (d : K) (hd : 0 ≤ d)
    (hpq : d * d = (p.sub q).normSq) :
    0 ≤ t.applyDistance d ∧ t.applyDistance d * t.applyDistance d = ((t.apply p).sub (t.apply q)).normSq := by
  rw [Xf.applyDistance_eq, Xf.normSq_apply_sub t h, ← hpq]
  exact ⟨mul_nonneg hd (Xf.factor_pos t h).le, by ring⟩

/-- the distance factor of a `DistTransform` is positive, and `Inverse()` has the reciprocal factor -/
theorem dist_factor_pos_inverse (t : Xf K) (h : t.DistValid) :
    0 < t.factor ∧ t.inverse.factor = 1 / t.factor := ⟨Xf.factor_pos t h, Xf.factor_inverse t h⟩

/-- `DistValid` transforms implement `ApplyDistance` all the way down (no panic in `JoinedTransform.ApplyDistance`)
and are invertible. -/
theorem dist_valid_is_dist (t : Xf K) (h : t.DistValid) : t.isDist = true ∧ t.Valid :=
  ⟨Xf.distValid_isDist t h, Xf.distValid_valid t h⟩

example : (Xf.jcons (.scale (-2 : ℚ)) (.jcons (.ortho ⟨0, -1, 0, 1, 0, 0, 0, 0, 1⟩) (.jcons (.translate ⟨5, 0, 0⟩) .jnil))).DistValid := by
  refine ⟨by show (-2 : ℚ) ≠ 0; norm_num, ?_, trivial, trivial⟩
  show M3.mul _ _ = _
  ext <;> norm_num [M3.mul, M3.transpose, M3.one]

/-! ## TransformSolid / TransformSDF / TransformMetaball -/

/-- **`TransformSolid(t, s).Contains(t.Apply(q)) = s.Contains(q)`**, for a solid that is inside its own bounds. -/
theorem transform_solid_conj (t : Xf K) (h : t.Valid) (s : Solid K)
    (hs : ∀ x, s.contains x = true → Box s.lo s.hi x) (q : V3 K) :
    (transformSolid t s).contains (t.apply q) = s.contains q := by
  simp only [transformSolid, Xf.inverse_apply t h]
  cases hc : s.contains q with
  | false => simp
  | true =>
      have := (inBounds_iff _ _ _).mpr (Xf.applyBounds_encloses t (Xf.valid_boundsOK t h) s.lo s.hi q (hs q hc))
      simp [this]

/-- **The transformed solid is exactly the image of the original**: `c` is inside iff `c = t.Apply(q)` for some `q`
inside the original (namely `q = t.Inverse().Apply(c)`). -/
theorem transform_solid_image (t : Xf K) (h : t.Valid) (s : Solid K)
    (hs : ∀ x, s.contains x = true → Box s.lo s.hi x) (c : V3 K) :
    (transformSolid t s).contains c = true ↔ ∃ q, s.contains q = true ∧ t.apply q = c := by
  constructor
  · intro hc
    simp only [transformSolid, Bool.and_eq_true] at hc
    exact ⟨t.inverse.apply c, hc.2, Xf.apply_inverse t h c⟩
  · rintro ⟨q, hq, rfl⟩
    rw [transform_solid_conj t h s hs q, hq]

/-- **`TransformSDF(t, s).SDF(t.Apply(q)) = s.SDF(q) · factor`** (the sign is kept: `factor > 0`). -/
theorem transform_sdf_conj (t : Xf K) (h : t.DistValid) (s : SDF K) (q : V3 K) :
    (transformSDF t s).sdf (t.apply q) = s.sdf q * t.factor ∧ 0 < t.factor := by
  simp only [transformSDF, Xf.inverse_apply t (Xf.distValid_valid t h), Xf.applyDistance_eq]
  exact ⟨trivial, Xf.factor_pos t h⟩

/-- **`TransformMetaball(t, m)`**: the field at `t.Apply(q)` is the original field at `q`, and the distance bound
for an image distance `ApplyDistance(d)` is the original bound for `d`. -/
theorem transform_metaball_conj (t : Xf K) (h : t.DistValid) (m : Metaball K) (q : V3 K) (d : K) :
    (transformMetaball t m).field (t.apply q) = m.field q ∧
      (transformMetaball t m).distBound (t.applyDistance d) = m.distBound d := by
  have hf := ne_of_gt (Xf.factor_pos t h)
  simp only [transformMetaball, Xf.inverse_apply t (Xf.distValid_valid t h), Xf.applyDistance_eq, Xf.factor_inverse t h]
  refine ⟨trivial, ?_⟩
  congr 1
  field_simp

/-- **`VecScaleMetaball(m, v)`**: the field at `q·v` is the original field at `q` (all `vᵢ ≠ 0`, any sign); and the
argument `d / max|vᵢ|` handed to the wrapped `MetaballDistBound` is a lower bound for the original distance:
if `d² = |p·v − q·v|²`, `d ≥ 0`, then `(d / max|vᵢ|)² ≤ |p − q|²`. -/
theorem vecscale_metaball_conj (m : Metaball K) (v : V3 K) (hx : v.x ≠ 0) (hy : v.y ≠ 0) (hz : v.z ≠ 0)
    (p q : V3 K) (d : K) (hd : d * d = ((p.mul v).sub (q.mul v)).normSq) :
    (vecScaleMetaball m v).field (q.mul v) = m.field q ∧
      (d * (1 / v.abs.maxCoord)) * (d * (1 / v.abs.maxCoord)) ≤ (p.sub q).normSq := by
  constructor
  · simp only [vecScaleMetaball]
    congr 1
    ext <;> simp only [V3.mul, V3.recip] <;> field_simp
  · -- M = max |vᵢ| > 0 and vᵢ² ≤ M²
    set M := v.abs.maxCoord with hM
    have hax : |v.x| ≤ M ∧ |v.y| ≤ M ∧ |v.z| ≤ M := by
      simp only [hM, V3.maxCoord, V3.abs, absS_eq_abs]
      split_ifs <;> refine ⟨?_, ?_, ?_⟩ <;> linarith
    have hMpos : 0 < M := lt_of_lt_of_le (abs_pos.mpr hx) hax.1
    have sqle : ∀ a : K, |a| ≤ M → a * a ≤ M * M := fun a ha => by
      have := mul_self_le_mul_self (abs_nonneg a) ha
      rwa [abs_mul_abs_self] at this
    have h1 := sqle v.x hax.1
    have h2 := sqle v.y hax.2.1
    have h3 := sqle v.z hax.2.2
    have e : (d * (1 / M)) * (d * (1 / M)) = (d * d) / (M * M) := by field_simp
    rw [e, hd, div_le_iff₀ (mul_pos hMpos hMpos)]
    simp only [V3.normSq, V3.sub, V3.mul]
    nlinarith [mul_nonneg (mul_self_nonneg (p.x - q.x)) (sub_nonneg.mpr h1),
      mul_nonneg (mul_self_nonneg (p.y - q.y)) (sub_nonneg.mpr h2),
      mul_nonneg (mul_self_nonneg (p.z - q.z)) (sub_nonneg.mpr h3)]

/-- `MarchingCubesConj`: the solid that is meshed is the image of `s` under the joined transform, and mapping a
vertex back through `joined.Inverse()` undoes the transform exactly. -/
theorem marching_cubes_conj (t : Xf K) (h : t.Valid) (s : Solid K)
    (hs : ∀ x, s.contains x = true → Box s.lo s.hi x) (q : V3 K) :
    (conjSolid t s).contains (t.apply q) = s.contains q ∧ conjBack t (t.apply q) = q :=
  ⟨transform_solid_conj t h s hs q, Xf.inverse_apply t h q⟩

/-! ## TransformCollider -/

/-- **Ray points correspond with the same parameter.**  For an invertible affine `t`, the ray handed to the wrapped
collider is `(t⁻¹ o, L⁻¹ d)`, and for *every* parameter `k` the point `o + k·d` of the outer ray is the image of the
point `o' + k·d'` of the inner ray.  Hence the surface points hit by the outer ray in the image surface are exactly
the images of the points hit by the inner ray, with the same parameter. -/
theorem transform_collider_conj (t : Xf K) (hv : t.Valid) (ha : t.Affine) (o d : V3 K) (k : K) :
    let ir := innerRay t.inverse ⟨o, d⟩
    ir.origin = t.inverse.apply o ∧ ir.dir = t.inverse.lin d ∧
      t.apply (ir.origin.add (ir.dir.scale k)) = o.add (d.scale k) := by
  refine ⟨rfl, rfl, ?_⟩
  show t.apply ((t.inverse.apply o).add ((t.inverse.lin d).scale k)) = o.add (d.scale k)
  rw [Xf.apply_add t ha, Xf.apply_inverse t hv, Xf.lin_scale t ha, Xf.lin_lin_inverse t hv ha]

/-- Why the pre-repair code (commit before `170d74d`) failed: it applied the *whole* inverse transform to the direction.
For the translation by (5,0,0) that maps the direction (1,0,0) to (−4,0,0); the linear part leaves it (1,0,0). -/
example : (Xf.translate (⟨5, 0, 0⟩ : V3 ℚ)).inverse.apply ⟨1, 0, 0⟩ = ⟨-4, 0, 0⟩ ∧
    (Xf.translate (⟨5, 0, 0⟩ : V3 ℚ)).inverse.lin ⟨1, 0, 0⟩ = ⟨1, 0, 0⟩ := by
  constructor <;> ext <;> norm_num [Xf.inverse, Xf.apply, Xf.lin, V3.add, V3.sub, V3.scale, V3.zero]

/-- **The collisions reported are those of the wrapped collider on the inner ray, with the same parameter**, the
same count and `Extra`, and normal = the normalised image of the original normal under the linear part; a nil
callback is not called (no panic) and yields the same count. -/
theorem transform_collider_hits (sqrtF : K → K) (t : Xf K) (c : Collider K) (r : Ray K) :
    tcRayCollisions sqrtF t c r true =
        .ok (c.count (innerRay t.inverse r))
          ((c.hits (innerRay t.inverse r)).map fun h =>
            { scale := h.scale, normal := (t.lin h.normal).normalize sqrtF, extra := h.extra }) ∧
      tcRayCollisions sqrtF t c r false = .ok (c.count (innerRay t.inverse r)) [] :=
  ⟨rfl, rfl⟩

/-- `FirstRayCollision`: a miss stays a miss, a hit keeps its parameter and gets the normalised image normal. -/
theorem transform_collider_first (sqrtF : K → K) (t : Xf K) (c : Collider K) (r : Ray K) :
    (tcFirst sqrtF t c r).2 = (c.first (innerRay t.inverse r)).2 ∧
      ((c.first (innerRay t.inverse r)).2 = true →
        (tcFirst sqrtF t c r).1.scale = (c.first (innerRay t.inverse r)).1.scale ∧
        (tcFirst sqrtF t c r).1.normal = (t.lin (c.first (innerRay t.inverse r)).1.normal).normalize sqrtF) := by
  unfold tcFirst
  cases h : (c.first (innerRay t.inverse r)).2 <;> simp [h, outerCollision, Xf.lin]

/-- **The reported normal has unit length** (given that `sqrtF` is a square root at the one value it is applied
to, and the image of the normal is not the zero vector). -/
theorem transform_collider_normal_unit (sqrtF : K → K) (v : V3 K) (hv : v.normSq ≠ 0)
    (hs : sqrtF v.normSq * sqrtF v.normSq = v.normSq) : (v.normalize sqrtF).normSq = 1 := by
  have h0 : sqrtF v.normSq ≠ 0 := by
    intro h; rw [h, zero_mul] at hs; exact hv hs.symm
  unfold V3.normalize
  generalize sqrtF v.normSq = r at hs h0 ⊢
  simp only [V3.normSq, V3.scale] at hs ⊢
  have : (v.x * v.x + v.y * v.y + v.z * v.z) * (1 / r * (1 / r)) = 1 := by
    rw [← hs]; field_simp
  linear_combination this

/-- **… and is the outward normal of the image surface**: for a similarity (`DistValid`) the image `L n` of the normal is
`factor²` times its inverse-transpose image (`⟨L n, w⟩ = factor² ⟨n, L⁻¹ w⟩` for all `w`), so it is orthogonal to the image
`L τ` of every tangent `τ ⟂ n`, non-zero for `n ≠ 0`, and it is the image of the outward direction itself. -/
theorem normal_inverse_transpose (t : Xf K) (h : t.DistValid) (n w τ : V3 K) :
    (t.lin n).dot w = t.factor * t.factor * n.dot (t.inverse.lin w) ∧
      (n.dot τ = 0 → (t.lin n).dot (t.lin τ) = 0) ∧
      (t.lin n).normSq = t.factor * t.factor * n.normSq := by
  have hv := Xf.distValid_valid t h
  have ha := Xf.distValid_affine t h
  refine ⟨?_, ?_, ?_⟩
  · have e := Xf.dot_lin t h n (t.inverse.lin w)
    rwa [Xf.lin_lin_inverse t hv ha] at e
  · intro h0
    rw [Xf.dot_lin t h, h0, mul_zero]
  · rw [V3.normSq_eq_dot, Xf.dot_lin t h, V3.normSq_eq_dot]

/-- **`SphereCollision`**: asking the transformed collider about the ball of centre `t.Apply(q)` and radius
`ApplyDistance(r)` (the image ball) asks the wrapped collider about the ball `(q, r)`. -/
theorem transform_collider_sphere (t : Xf K) (h : t.DistValid) (c : Collider K) (q : V3 K) (r : K) :
    tcSphere t c (t.apply q) (t.applyDistance r) = c.sphere q r := by
  have hf := ne_of_gt (Xf.factor_pos t h)
  simp only [tcSphere, Xf.inverse_apply t (Xf.distValid_valid t h), Xf.applyDistance_eq, Xf.factor_inverse t h]
  congr 1
  field_simp

/-- The bounds of the transformed collider enclose the image of the wrapped collider's box. -/
theorem transform_collider_bounds (t : Xf K) (h : t.DistValid) (c : Collider K) (p : V3 K) (hp : Box c.lo c.hi p) :
    Box (tcBounds t c).1 (tcBounds t c).2 (t.apply p) :=
  Xf.applyBounds_encloses t (Xf.valid_boundsOK t (Xf.distValid_valid t h)) _ _ _ hp

/-! ## toolbox3d.AxisPinch (as far as it is algebraic: `math.Pow(·, Power)` is the parameter `powF`) -/

/-- **`AxisPinch.Inverse().Apply(AxisPinch.Apply(c)) = c`** whenever the two power functions (`t ↦ t^p`, `t ↦ t^(1/p)`)
undo each other on `[0,1]`, map `[0,1]` into itself and vanish only at 0 (`PowLike`), and `Min < Max`.
Applied with the roles swapped it is the other order.  (The correspondence runs `p ∈ {2, 1/2, 1}`.) -/
theorem pinch_inverse (powF powG : K → K) (hp : PowLike powF) (hg : ∀ u, 0 ≤ u → u ≤ 1 → powG (powF u) = u)
    (a : Pinch K) (h : a.lo < a.hi) (c : V3 K) : a.apply powG (a.apply powF c) = c := by
  rw [Pinch.apply_eq, Pinch.apply_eq, V3.get_set, V3.set_set, pinch1_inv powF powG hp hg _ _ _ h, V3.set_get]

/-- **`AxisPinch.ApplyBounds` encloses the image of the box** for a monotone power function. -/
theorem pinch_bounds_encloses (powF : K → K) (hp : PowLike powF)
    (hm : ∀ u w, 0 ≤ u → u ≤ w → w ≤ 1 → powF u ≤ powF w) (a : Pinch K) (h : a.lo < a.hi)
    (lo hi p : V3 K) (hb : Box lo hi p) :
    Box (a.applyBounds powF lo hi).1 (a.applyBounds powF lo hi).2 (a.apply powF p) := by
  have hg := hb.get_axis a.axis
  simp only [Pinch.applyBounds, Pinch.apply_eq]
  exact hb.set_axis a.axis (pinch1_mono powF hp hm _ _ h hg.1) (pinch1_mono powF hp hm _ _ h hg.2)

/-- non-vacuity: squaring is `PowLike` and monotone on `[0,1]` over any ordered field -/
example : PowLike (fun t : K => t * t) ∧ ∀ u w : K, 0 ≤ u → u ≤ w → w ≤ 1 → u * u ≤ w * w :=
  ⟨fun u h0 h1 => ⟨mul_nonneg h0 h0, by nlinarith, fun h => mul_pos h h⟩,
   fun u w h0 h1 _ => mul_le_mul h1 h1 h0 (le_trans h0 h1)⟩

end M3d.C05
