import M3d.Lemmas.Transform
import M3d.Lemmas.SmartSqueeze
import M3d.Lemmas.SmartSqueezeSlope
import M3d.Lemmas.Transform2
import M3d.Lemmas.TransformNest
import M3d.Lemmas.TransformNest2
import M3d.Lemmas.TransformHist
import M3d.Lemmas.TransformHist2
import M3d.Lemmas.TransformScene
import M3d.Lemmas.TransformScene2
import Mathlib.Algebra.Order.Field.Rat
/-!
# C05 — transforms invert, and transformed objects are images of the original

Property theorems only.  Model: `M3d/Model/Transform.lean` (transcribes `model3d/transform.go`,
`model3d/matrix.go`, `model2d/matrix.go`, `toolbox3d/squeeze.go`; the 2-D instance of the transform
template is the same text and is run through the same model on the plane `z = 0`).  Helper lemmas:
`M3d/Lemmas/Transform.lean`.  Everything is proved for **every** linear ordered field `K` (ℝ, ℚ, …); the
driver executes the very same definitions at `K = ℚ`.

Vocabulary: `t.Valid` — the transform is one the library can invert (non-zero scale factors / determinant,
squeeze with `Min ≤ Max`, `Ratio > 0`); `t.DistValid` — a `DistTransform` made of translations, non-zero
uniform scales, orthogonal matrices (`mᵀ m = 1`) and joins of those; `t.Affine` — no squeeze inside;
`t.lin d = t.Apply(d) - t.Apply(0)` — the linear part `L` applied to a direction; `t.factor` — the factor by
which `t` changes distances; `Box lo hi p` — `p` lies in the box.
-/
namespace M3d.C05
open M3d.Tf

set_option linter.unusedSectionVars false

variable {K : Type} [Field K] [LinearOrder K] [IsStrictOrderedRing K]

/-! ## Matrices -/

/-- `Matrix3.Inverse()` (adjugate scaled by `1/Det()`) is a left inverse whenever `Det() ≠ 0`. -/
theorem matrix3_inverse_mul (m : M3 K) (h : m.det ≠ 0) : m.inverse.mul m = M3.one := M3.inverse_mul m h

/-- … and a right inverse. -/
theorem matrix3_mul_inverse (m : M3 K) (h : m.det ≠ 0) : m.mul m.inverse = M3.one := M3.mul_inverse m h

/-- `Matrix2.Inverse()` is a left inverse whenever `Det() ≠ 0`. -/
theorem matrix2_inverse_mul (m : M2 K) (h : m.det ≠ 0) : m.inverse.mul m = M2.one := M2.inverse_mul m h

/-- … and a right inverse. -/
theorem matrix2_mul_inverse (m : M2 K) (h : m.det ≠ 0) : m.mul m.inverse = M2.one := M2.mul_inverse m h

/-- `MulColumnInv(c, m.Det())` is `Inverse().MulColumn(c)` (3-D and 2-D). -/
theorem matrix_mul_column_inv (m : M3 K) (c : V3 K) (m2 : M2 K) (c2 : V2 K) :
    m.mulColumnInv c m.det = m.inverse.mulColumn c ∧ m2.mulColumnInv c2 m2.det = m2.inverse.mulColumn c2 :=
  ⟨M3.mulColumnInv_eq m c, M2.mulColumnInv_eq m2 c2⟩

/-- `Inverse().MulColumn(m.MulColumn(c)) = c = m.MulColumn(Inverse().MulColumn(c))`. -/
theorem matrix3_inverse_mul_column (m : M3 K) (h : m.det ≠ 0) (c : V3 K) :
    m.inverse.mulColumn (m.mulColumn c) = c ∧ m.mulColumn (m.inverse.mulColumn c) = c :=
  ⟨M3.inverse_mulColumn m h c, M3.mulColumn_inverse m h c⟩

example : (⟨2, 1, 0, 1, 1, 0, 0, 0, 1⟩ : M3 ℚ).det ≠ 0 := by norm_num [M3.det]

/-! ## Inverse / Apply round trips -/

/-- **`t.Inverse().Apply(t.Apply(p)) = p`** for translations, scales `s ≠ 0`, per-axis scales with non-zero
components (negative allowed), matrices with `Det ≠ 0`, orthogonal-matrix transforms, axis squeezes
(`Min ≤ Max`, `Ratio > 0`), and arbitrary (nested) `JoinedTransform`s of those. -/
theorem inverse_apply (t : Xf K) (h : t.Valid) (p : V3 K) : t.inverse.apply (t.apply p) = p :=
  Xf.inverse_apply t h p

/-- **`t.Apply(t.Inverse().Apply(p)) = p`** (the other order). -/
theorem apply_inverse (t : Xf K) (h : t.Valid) (p : V3 K) : t.apply (t.inverse.apply p) = p :=
  Xf.apply_inverse t h p

/-- `Inverse()` of an invertible transform is again invertible (so inverses can be nested). -/
theorem inverse_valid (t : Xf K) (h : t.Valid) : t.inverse.Valid := by
  induction t with
  | translate o => trivial
  | scale s => exact one_div_ne_zero h
  | vecScale v => exact ⟨one_div_ne_zero h.1, one_div_ne_zero h.2.1, one_div_ne_zero h.2.2⟩
  | matrix m =>
      intro h0
      have h1 := M3.inverse_mul m h
      have h2 : (m.inverse.mul m).det = m.inverse.det * m.det := by simp only [M3.det, M3.mul]; ring
      rw [h1, h0, zero_mul] at h2
      simp [M3.det, M3.one] at h2
  | ortho m =>
      intro h0
      have h1 := M3.inverse_mul m h
      have h2 : (m.inverse.mul m).det = m.inverse.det * m.det := by simp only [M3.det, M3.mul]; ring
      rw [h1, h0, zero_mul] at h2
      simp [M3.det, M3.one] at h2
  | squeeze ax lo hi r =>
      refine ⟨?_, by have := h.2; positivity⟩
      have := mul_nonneg (sub_nonneg.mpr h.1) h.2.le
      linarith
  | jnil => trivial
  | jcons t r iht ihr => exact Xf.valid_snoc _ _ (ihr h.2) (iht h.1)

/-- The slice `JoinedTransform{t₁,…,tₙ}` is `Xf.ofList [t₁,…,tₙ]` (`M3d/Model/TransformNest.lean`). -/
abbrev ofList (ts : List (Xf K)) : Xf K := Xf.ofList ts

/-- **`JoinedTransform.Inverse()` is the reversed list of the inverses**, and `Apply` composes left to right. -/
theorem joined_inverse_reversed (ts : List (Xf K)) :
    (ofList ts).inverse = ofList (ts.reverse.map Xf.inverse) ∧
      ∀ p, (ofList ts).apply p = ts.foldl (fun c t => t.apply c) p := by
  have hsnoc : ∀ (l : List (Xf K)) (t : Xf K), (ofList l).snoc t = ofList (l ++ [t]) := by
    intro l t
    induction l with
    | nil => rfl
    | cons a l ih => simp only [ofList, Xf.ofList, Xf.snoc, ih, List.cons_append]
  constructor
  · induction ts with
    | nil => rfl
    | cons t ts ih =>
        simp only [ofList, Xf.ofList, Xf.inverse, ih, hsnoc, List.reverse_cons, List.map_append, List.map_cons, List.map_nil]
  · induction ts with
    | nil => intro p; rfl
    | cons t ts ih => intro p; simp only [ofList, Xf.ofList, Xf.apply, ih, List.foldl_cons]

example : (Xf.jcons (.scale (-2 : ℚ)) (.jcons (.squeeze 2 0 4 (1 / 2)) (.jcons (.vecScale ⟨-1, 2, 4⟩) .jnil))).Valid := by
  norm_num [Xf.Valid]

/-- The theorems hold in particular at `ℚ`, the instance the driver executes. -/
example (t : Xf ℚ) (h : t.Valid) (p : V3 ℚ) : t.inverse.apply (t.apply p) = p := inverse_apply t h p

/-! ## ApplyBounds -/

/-- **`ApplyBounds(min,max)` encloses the image of every point of the box `[min,max]`** — translation,
uniform scale of either sign, per-axis scale with negative components, matrix (running min/max over the 8
corner images = their bounding box), squeeze (`Min ≤ Max`, `Ratio ≥ 0`), joins. -/
theorem apply_bounds_encloses (t : Xf K) (h : t.BoundsOK) (lo hi p : V3 K) (hb : Box lo hi p) :
    Box (t.applyBounds lo hi).1 (t.applyBounds lo hi).2 (t.apply p) :=
  Xf.applyBounds_encloses t h lo hi p hb

/-- … in the form the library tests it (`InBounds`, `CheckedFuncSolid`): `c.Min(min) == min && c.Max(max) == max`. -/
theorem apply_bounds_in_bounds (t : Xf K) (h : t.BoundsOK) (lo hi p : V3 K) (hb : inBounds p lo hi = true) :
    inBounds (t.apply p) (t.applyBounds lo hi).1 (t.applyBounds lo hi).2 = true :=
  (inBounds_iff _ _ _).mpr (Xf.applyBounds_encloses t h lo hi p ((inBounds_iff _ _ _).mp hb))

/-- The new bounds are ordered (`min ≤ max`) whenever the old ones are, so `FuncSolid`/`FuncSDF`'s
"invalid bounds" panic cannot be caused by the transform. -/
theorem apply_bounds_ordered (t : Xf K) (h : t.BoundsOK) (lo hi : V3 K)
    (hx : lo.x ≤ hi.x) (hy : lo.y ≤ hi.y) (hz : lo.z ≤ hi.z) :
    (t.applyBounds lo hi).1.x ≤ (t.applyBounds lo hi).2.x ∧ (t.applyBounds lo hi).1.y ≤ (t.applyBounds lo hi).2.y ∧
      (t.applyBounds lo hi).1.z ≤ (t.applyBounds lo hi).2.z := by
  have hb : Box lo hi lo := ⟨⟨le_refl _, hx⟩, ⟨le_refl _, hy⟩, ⟨le_refl _, hz⟩⟩
  obtain ⟨h1, h2, h3⟩ := Xf.applyBounds_encloses t h lo hi lo hb
  exact ⟨le_trans h1.1 h1.2, le_trans h2.1 h2.2, le_trans h3.1 h3.2⟩

/-- every invertible transform satisfies the side condition of the bounds theorems -/
theorem valid_bounds_ok (t : Xf K) (h : t.Valid) : t.BoundsOK := Xf.valid_boundsOK t h

example : Box (⟨0, 0, 0⟩ : V3 ℚ) ⟨1, 1, 1⟩ ⟨1 / 2, 0, 1⟩ := by norm_num [Box]

/-! ## ApplyDistance -/

/-- `ApplyDistance(d) = d · factor` (`Translate`, orthogonal: 1; `Scale`: `|s|`; joins: the product). -/
theorem apply_distance_factor (t : Xf K) (d : K) : t.applyDistance d = d * t.factor := Xf.applyDistance_eq t d

/-- **`ApplyDistance` maps the distance of two points to the distance of their images**: if `d ≥ 0` and
`d² = |p − q|²` then `ApplyDistance(d) ≥ 0` and `ApplyDistance(d)² = |t(p) − t(q)|²` — for every `DistTransform`
made of translations, non-zero scales (negative too), orthogonal matrices and joins. -/
theorem apply_distance_exact (t : Xf K) (h : t.DistValid) (p q : V3 K) (d : K) (hd : 0 ≤ d)
    (hpq : d * d = (p.sub q).normSq) :
    0 ≤ t.applyDistance d ∧ t.applyDistance d * t.applyDistance d = ((t.apply p).sub (t.apply q)).normSq := by
  rw [Xf.applyDistance_eq, Xf.normSq_apply_sub t h, ← hpq]
  exact ⟨mul_nonneg hd (Xf.factor_pos t h).le, by ring⟩

/-- the distance factor of a `DistTransform` is positive, and `Inverse()` has the reciprocal factor -/
theorem dist_factor_pos_inverse (t : Xf K) (h : t.DistValid) :
    0 < t.factor ∧ t.inverse.factor = 1 / t.factor := ⟨Xf.factor_pos t h, Xf.factor_inverse t h⟩

/-- `DistValid` transforms implement `ApplyDistance` all the way down (no panic in `JoinedTransform.ApplyDistance`)
and are invertible. -/
theorem dist_valid_is_dist (t : Xf K) (h : t.DistValid) : t.isDist = true ∧ t.Valid :=
  ⟨Xf.distValid_isDist t h, Xf.distValid_valid t h⟩

example : (Xf.jcons (.scale (-2 : ℚ)) (.jcons (.ortho ⟨0, -1, 0, 1, 0, 0, 0, 0, 1⟩) (.jcons (.translate ⟨5, 0, 0⟩) .jnil))).DistValid := by
  refine ⟨by show (-2 : ℚ) ≠ 0; norm_num, ?_, trivial, trivial⟩
  show M3.mul _ _ = _
  ext <;> norm_num [M3.mul, M3.transpose, M3.one]

/-! ## Rotations: `Rotation(axis, θ)`, `NewMatrix3Rotation`, `NewMatrix2Rotation` with `(c, s) = (cos θ, sin θ)` -/

/-- **`NewMatrix3Rotation(axis, θ)` is orthogonal with determinant 1 and fixes the axis** whenever the axis is a unit
vector and `c² + s² = 1` (`sqrtF` any function with `sqrtF(x)² = x` for `x > 0`) — so `Rotation(axis, θ)` satisfies the
hypothesis `DistValid` of every distance / collider theorem above, for every angle. -/
theorem rotation3_orthogonal (sqrtF : K → K) (hs : ∀ x, 0 < x → sqrtF x * sqrtF x = x) (axis : V3 K)
    (haxis : axis.normSq = 1) (c s : K) (hcs : c * c + s * s = 1) :
    (rotation3 sqrtF axis c s).transpose.mul (rotation3 sqrtF axis c s) = M3.one ∧
      (rotation3 sqrtF axis c s).det = 1 ∧ (rotation3 sqrtF axis c s).mulColumn axis = axis ∧
      (Xf.ortho (rotation3 sqrtF axis c s)).DistValid := by
  obtain ⟨h11, h22, ha1, ha2, h12⟩ := orthoBasis_orthonormal sqrtF hs axis haxis
  obtain ⟨h1, h2, h3⟩ := rotationIn_ortho axis (orthoBasis sqrtF axis).1 (orthoBasis sqrtF axis).2 c s
    haxis h11 h22 ha1 ha2 h12 hcs
  exact ⟨h1, h2, h3, h1⟩

/-- The same in any orthonormal basis `(axis, b1, b2)` (no square root needed). -/
theorem rotation_in_orthogonal (a b1 b2 : V3 K) (c s : K) (haa : a.dot a = 1) (h11 : b1.dot b1 = 1)
    (h22 : b2.dot b2 = 1) (ha1 : a.dot b1 = 0) (ha2 : a.dot b2 = 0) (h12 : b1.dot b2 = 0) (hcs : c * c + s * s = 1) :
    (rotationIn a b1 b2 c s).transpose.mul (rotationIn a b1 b2 c s) = M3.one ∧ (rotationIn a b1 b2 c s).det = 1 ∧
      (rotationIn a b1 b2 c s).mulColumn a = a :=
  rotationIn_ortho a b1 b2 c s haa h11 h22 ha1 ha2 h12 hcs

/-- **`NewMatrix2Rotation(θ)` is orthogonal with determinant 1** when `c² + s² = 1`. -/
theorem rotation2_orthogonal (c s : K) (hcs : c * c + s * s = 1) :
    (M2.rotation c s).transpose.mul (M2.rotation c s) = M2.one ∧ (M2.rotation c s).det = 1 :=
  M2.rotation_ortho c s hcs

/-- non-vacuity at ℚ: the Pythagorean rotation (3/5, 4/5) about the unit axis (1/3, 2/3, 2/3) -/
example : (rotationIn (⟨1/3, 2/3, 2/3⟩ : V3 ℚ) ⟨2/3, 1/3, -2/3⟩ ⟨2/3, -2/3, 1/3⟩ (3/5) (4/5)).det = 1 :=
  (rotation_in_orthogonal _ _ _ _ _ (by norm_num [V3.dot]) (by norm_num [V3.dot]) (by norm_num [V3.dot])
    (by norm_num [V3.dot]) (by norm_num [V3.dot]) (by norm_num [V3.dot]) (by norm_num)).2.1

example : (M2.rotation (5/13 : ℚ) (12/13)).det = 1 := (rotation2_orthogonal _ _ (by norm_num)).2

/-! ## TransformSolid / TransformSDF / TransformMetaball -/

/-- **`TransformSolid(t, s).Contains(t.Apply(q)) = s.Contains(q)`**, for a solid that is inside its own bounds. -/
theorem transform_solid_conj (t : Xf K) (h : t.Valid) (s : Solid K)
    (hs : ∀ x, s.contains x = true → Box s.lo s.hi x) (q : V3 K) :
    (transformSolid t s).contains (t.apply q) = s.contains q := by
  simp only [transformSolid, Xf.inverse_apply t h]
  cases hc : s.contains q with
  | false => simp
  | true =>
      have := (inBounds_iff _ _ _).mpr (Xf.applyBounds_encloses t (Xf.valid_boundsOK t h) s.lo s.hi q (hs q hc))
      simp [this]

/-- **The transformed solid is exactly the image of the original**: `c` is inside iff `c = t.Apply(q)` for some `q`
inside the original (namely `q = t.Inverse().Apply(c)`). -/
theorem transform_solid_image (t : Xf K) (h : t.Valid) (s : Solid K)
    (hs : ∀ x, s.contains x = true → Box s.lo s.hi x) (c : V3 K) :
    (transformSolid t s).contains c = true ↔ ∃ q, s.contains q = true ∧ t.apply q = c := by
  constructor
  · intro hc
    simp only [transformSolid, Bool.and_eq_true] at hc
    exact ⟨t.inverse.apply c, hc.2, Xf.apply_inverse t h c⟩
  · rintro ⟨q, hq, rfl⟩
    rw [transform_solid_conj t h s hs q, hq]

/-- **`TransformSDF(t, s).SDF(t.Apply(q)) = s.SDF(q) · factor`** (the sign is kept: `factor > 0`). -/
theorem transform_sdf_conj (t : Xf K) (h : t.DistValid) (s : SDF K) (q : V3 K) :
    (transformSDF t s).sdf (t.apply q) = s.sdf q * t.factor ∧ 0 < t.factor := by
  simp only [transformSDF, Xf.inverse_apply t (Xf.distValid_valid t h), Xf.applyDistance_eq]
  exact ⟨trivial, Xf.factor_pos t h⟩

/-- **`TransformMetaball(t, m)`**: the field at `t.Apply(q)` is the original field at `q`, and the distance bound
for an image distance `ApplyDistance(d)` is the original bound for `d`. -/
theorem transform_metaball_conj (t : Xf K) (h : t.DistValid) (m : Metaball K) (q : V3 K) (d : K) :
    (transformMetaball t m).field (t.apply q) = m.field q ∧
      (transformMetaball t m).distBound (t.applyDistance d) = m.distBound d := by
  have hf := ne_of_gt (Xf.factor_pos t h)
  simp only [transformMetaball, Xf.inverse_apply t (Xf.distValid_valid t h), Xf.applyDistance_eq, Xf.factor_inverse t h]
  refine ⟨trivial, ?_⟩
  congr 1
  field_simp

/-- **`VecScaleMetaball(m, v)`**: the field at `q·v` is the original field at `q` (all `vᵢ ≠ 0`, any sign); and the
argument `d / max|vᵢ|` handed to the wrapped `MetaballDistBound` is a lower bound for the original distance:
if `d² = |p·v − q·v|²`, `d ≥ 0`, then `(d / max|vᵢ|)² ≤ |p − q|²`. -/
theorem vecscale_metaball_conj (m : Metaball K) (v : V3 K) (hx : v.x ≠ 0) (hy : v.y ≠ 0) (hz : v.z ≠ 0)
    (p q : V3 K) (d : K) (hd : d * d = ((p.mul v).sub (q.mul v)).normSq) :
    (vecScaleMetaball m v).field (q.mul v) = m.field q ∧
      (d * (1 / v.abs.maxCoord)) * (d * (1 / v.abs.maxCoord)) ≤ (p.sub q).normSq := by
  constructor
  · simp only [vecScaleMetaball]
    congr 1
    ext <;> simp only [V3.mul, V3.recip] <;> field_simp
  · -- M = max |vᵢ| > 0 and vᵢ² ≤ M²
    set M := v.abs.maxCoord with hM
    have hax : |v.x| ≤ M ∧ |v.y| ≤ M ∧ |v.z| ≤ M := by
      simp only [hM, V3.maxCoord, V3.abs, absS_eq_abs]
      split_ifs <;> refine ⟨?_, ?_, ?_⟩ <;> linarith
    have hMpos : 0 < M := lt_of_lt_of_le (abs_pos.mpr hx) hax.1
    have sqle : ∀ a : K, |a| ≤ M → a * a ≤ M * M := fun a ha => by
      have := mul_self_le_mul_self (abs_nonneg a) ha
      rwa [abs_mul_abs_self] at this
    have h1 := sqle v.x hax.1
    have h2 := sqle v.y hax.2.1
    have h3 := sqle v.z hax.2.2
    have e : (d * (1 / M)) * (d * (1 / M)) = (d * d) / (M * M) := by field_simp
    rw [e, hd, div_le_iff₀ (mul_pos hMpos hMpos)]
    simp only [V3.normSq, V3.sub, V3.mul]
    nlinarith [mul_nonneg (mul_self_nonneg (p.x - q.x)) (sub_nonneg.mpr h1),
      mul_nonneg (mul_self_nonneg (p.y - q.y)) (sub_nonneg.mpr h2),
      mul_nonneg (mul_self_nonneg (p.z - q.z)) (sub_nonneg.mpr h3)]

/-- `MarchingCubesConj`: the solid that is meshed is the image of `s` under the joined transform, and mapping a
vertex back through `joined.Inverse()` undoes the transform exactly. -/
theorem marching_cubes_conj (t : Xf K) (h : t.Valid) (s : Solid K)
    (hs : ∀ x, s.contains x = true → Box s.lo s.hi x) (q : V3 K) :
    (conjSolid t s).contains (t.apply q) = s.contains q ∧ conjBack t (t.apply q) = q :=
  ⟨transform_solid_conj t h s hs q, Xf.inverse_apply t h q⟩

/-! ## TransformCollider -/

/-- **Ray points correspond with the same parameter.**  For an invertible affine `t`, the ray handed to the wrapped
collider is `(t⁻¹ o, L⁻¹ d)`, and for *every* parameter `k` the point `o + k·d` of the outer ray is the image of the
point `o' + k·d'` of the inner ray.  Hence the surface points hit by the outer ray in the image surface are exactly
the images of the points hit by the inner ray, with the same parameter. -/
theorem transform_collider_conj (t : Xf K) (hv : t.Valid) (ha : t.Affine) (o d : V3 K) (k : K) :
    let ir := innerRay t.inverse ⟨o, d⟩
    ir.origin = t.inverse.apply o ∧ ir.dir = t.inverse.lin d ∧
      t.apply (ir.origin.add (ir.dir.scale k)) = o.add (d.scale k) := by
  refine ⟨rfl, rfl, ?_⟩
  show t.apply ((t.inverse.apply o).add ((t.inverse.lin d).scale k)) = o.add (d.scale k)
  rw [Xf.apply_add t ha, Xf.apply_inverse t hv, Xf.lin_scale t ha, Xf.lin_lin_inverse t hv ha]

/-- Why the pre-repair code (commit before `170d74d`) failed: it applied the *whole* inverse transform to the direction.
For the translation by (5,0,0) that maps the direction (1,0,0) to (−4,0,0); the linear part leaves it (1,0,0). -/
example : (Xf.translate (⟨5, 0, 0⟩ : V3 ℚ)).inverse.apply ⟨1, 0, 0⟩ = ⟨-4, 0, 0⟩ ∧
    (Xf.translate (⟨5, 0, 0⟩ : V3 ℚ)).inverse.lin ⟨1, 0, 0⟩ = ⟨1, 0, 0⟩ := by
  constructor <;> ext <;> norm_num [Xf.inverse, Xf.apply, Xf.lin, V3.add, V3.sub, V3.scale, V3.zero]

/-- **The collisions reported are those of the wrapped collider on the inner ray, with the same parameter**, the
same count and `Extra`, and normal = the normalised image of the original normal under the linear part; a nil
callback is not called (no panic) and yields the same count. -/
theorem transform_collider_hits (sqrtF : K → K) (t : Xf K) (c : Collider K) (r : Ray K) :
    tcRayCollisions sqrtF t c r true =
        .ok (c.count (innerRay t.inverse r))
          ((c.hits (innerRay t.inverse r)).map fun h =>
            { scale := h.scale, normal := (t.lin h.normal).normalize sqrtF, extra := h.extra }) ∧
      tcRayCollisions sqrtF t c r false = .ok (c.count (innerRay t.inverse r)) [] :=
  ⟨rfl, rfl⟩

/-- `FirstRayCollision`: a miss stays a miss, a hit keeps its parameter and gets the normalised image normal. -/
theorem transform_collider_first (sqrtF : K → K) (t : Xf K) (c : Collider K) (r : Ray K) :
    (tcFirst sqrtF t c r).2 = (c.first (innerRay t.inverse r)).2 ∧
      ((c.first (innerRay t.inverse r)).2 = true →
        (tcFirst sqrtF t c r).1.scale = (c.first (innerRay t.inverse r)).1.scale ∧
        (tcFirst sqrtF t c r).1.normal = (t.lin (c.first (innerRay t.inverse r)).1.normal).normalize sqrtF) := by
  unfold tcFirst
  cases h : (c.first (innerRay t.inverse r)).2 <;> simp [h, outerCollision, Xf.lin]

/-- **The reported normal has unit length** (given that `sqrtF` is a square root at the one value it is applied
to, and the image of the normal is not the zero vector). -/
theorem transform_collider_normal_unit (sqrtF : K → K) (v : V3 K) (hv : v.normSq ≠ 0)
    (hs : sqrtF v.normSq * sqrtF v.normSq = v.normSq) : (v.normalize sqrtF).normSq = 1 := by
  have h0 : sqrtF v.normSq ≠ 0 := by
    intro h; rw [h, zero_mul] at hs; exact hv hs.symm
  unfold V3.normalize
  generalize sqrtF v.normSq = r at hs h0 ⊢
  simp only [V3.normSq, V3.scale] at hs ⊢
  have : (v.x * v.x + v.y * v.y + v.z * v.z) * (1 / r * (1 / r)) = 1 := by
    rw [← hs]; field_simp
  linear_combination this

/-- **… and is the outward normal of the image surface**: for a similarity (`DistValid`) the image `L n` of the normal is
`factor²` times its inverse-transpose image (`⟨L n, w⟩ = factor² ⟨n, L⁻¹ w⟩` for all `w`), so it is orthogonal to the image
`L τ` of every tangent `τ ⟂ n`, non-zero for `n ≠ 0`, and it is the image of the outward direction itself. -/
theorem normal_inverse_transpose (t : Xf K) (h : t.DistValid) (n w τ : V3 K) :
    (t.lin n).dot w = t.factor * t.factor * n.dot (t.inverse.lin w) ∧
      (n.dot τ = 0 → (t.lin n).dot (t.lin τ) = 0) ∧
      (t.lin n).normSq = t.factor * t.factor * n.normSq := by
  have hv := Xf.distValid_valid t h
  have ha := Xf.distValid_affine t h
  refine ⟨?_, ?_, ?_⟩
  · have e := Xf.dot_lin t h n (t.inverse.lin w)
    rwa [Xf.lin_lin_inverse t hv ha] at e
  · intro h0
    rw [Xf.dot_lin t h, h0, mul_zero]
  · rw [V3.normSq_eq_dot, Xf.dot_lin t h, V3.normSq_eq_dot]

/-- **`SphereCollision`**: asking the transformed collider about the ball of centre `t.Apply(q)` and radius
`ApplyDistance(r)` (the image ball) asks the wrapped collider about the ball `(q, r)`. -/
theorem transform_collider_sphere (t : Xf K) (h : t.DistValid) (c : Collider K) (q : V3 K) (r : K) :
    tcSphere t c (t.apply q) (t.applyDistance r) = c.sphere q r := by
  have hf := ne_of_gt (Xf.factor_pos t h)
  simp only [tcSphere, Xf.inverse_apply t (Xf.distValid_valid t h), Xf.applyDistance_eq, Xf.factor_inverse t h]
  congr 1
  field_simp

/-- The bounds of the transformed collider enclose the image of the wrapped collider's box. -/
theorem transform_collider_bounds (t : Xf K) (h : t.DistValid) (c : Collider K) (p : V3 K) (hp : Box c.lo c.hi p) :
    Box (tcBounds t c).1 (tcBounds t c).2 (t.apply p) :=
  Xf.applyBounds_encloses t (Xf.valid_boundsOK t (Xf.distValid_valid t h)) _ _ _ hp

/-! ## Nested wrappers: `TransformX(t₂, TransformX(t₁, x)) = TransformX(JoinedTransform{t₁, t₂}, x)`

A wrapped object is again an object of the same interface, so wrappers nest (a part positioned in a sub-assembly, the
sub-assembly positioned in the scene).  `nestSolid [t₁,…,tₙ] s` is `TransformSolid(tₙ, … TransformSolid(t₁, s))`
(`M3d/Model/TransformNest.lean`), `ofList [t₁,…,tₙ]` the slice `JoinedTransform{t₁,…,tₙ}` (applies `t₁` first).  The
theorems say that the nested object **is** the object wrapped once by the join *in application order* — equal as
records of functions, i.e. same bounds and same answer to every query — so every conjugacy theorem above applies to a
nested instance with `t := ofList [t₁,…,tₙ]`.  (The opposite order, `JoinedTransform{t₂, t₁}`, is a different map as
soon as the members do not commute: see the `example` below.) -/

/-- `transformCollider` (the wrapper as a `Collider` value) is nothing but `tcBounds` / `tcRayCollisions` / `tcFirst` /
`tcSphere` of the single-wrap theorems above, packaged. -/
theorem transform_collider_value (sqrtF : K → K) (t : Xf K) (c : Collider K) (r : Ray K) (cb : Bool) (p : V3 K) (d : K) :
    ((transformCollider sqrtF t c).lo, (transformCollider sqrtF t c).hi) = tcBounds t c ∧
      colliderRayCollisions (transformCollider sqrtF t c) r cb = tcRayCollisions sqrtF t c r cb ∧
      (transformCollider sqrtF t c).first r = tcFirst sqrtF t c r ∧
      (transformCollider sqrtF t c).sphere p d = tcSphere t c p d := by
  refine ⟨rfl, ?_, rfl, rfl⟩
  cases cb <;> rfl

/-- **Nested `TransformSolid`** (any depth, any invertible members — matrices, per-axis scales and squeezes included):
`TransformSolid(tₙ, … TransformSolid(t₁, s)) = TransformSolid(JoinedTransform{t₁,…,tₙ}, s)` for a solid that is inside
its own bounds.  (The inner wrappers' own bounds tests never reject a point the outer one accepts.) -/
theorem nested_solid (ts : List (Xf K)) (hv : ∀ t ∈ ts, t.Valid) (s : Solid K)
    (hs : ∀ x, s.contains x = true → Box s.lo s.hi x) :
    nestSolid ts s = transformSolid (ofList ts) s := nestSolid_eq ts hv s hs

/-- … hence membership in the nested solid at the image of `q` under `t₁` then … then `tₙ` is membership of `q`. -/
theorem nested_solid_conj (ts : List (Xf K)) (hv : ∀ t ∈ ts, t.Valid) (s : Solid K)
    (hs : ∀ x, s.contains x = true → Box s.lo s.hi x) (q : V3 K) :
    (nestSolid ts s).contains (ts.foldl (fun c t => t.apply c) q) = s.contains q := by
  rw [nested_solid ts hv s hs, ← (joined_inverse_reversed ts).2 q]
  exact transform_solid_conj _ (Xf.valid_ofList ts hv) s hs q

/-- **Nested `TransformSDF` and `TransformMetaball`**: equal to the single wrapper of the join, for all transforms of the
model, no side condition. -/
theorem nested_sdf_metaball (ts : List (Xf K)) (s : SDF K) (m : Metaball K) :
    nestSDF ts s = transformSDF (ofList ts) s ∧ nestMetaball ts m = transformMetaball (ofList ts) m :=
  ⟨nestSDF_eq ts s, nestMetaball_eq ts m⟩

/-- **Nested `TransformCollider`** (depth ≥ 1): for `DistTransform` members (translations, non-zero uniform scales of
either sign, orthogonal matrices, joins of those), a wrapped collider whose reported normals have a perfect-square squared
length (unit normals: 1), and `sqrtF` the exact non-negative root on perfect squares,
`TransformCollider(tₙ, … TransformCollider(t₁, c)) = TransformCollider(JoinedTransform{t₁,…,tₙ}, c)`: same bounds, same
ray handed to `c`, same count, same parameters and `Extra`, same (once-normalised) normals, same first collision, same
sphere query. -/
theorem nested_collider (sqrtF : K → K) (hsq : ∀ q, 0 ≤ q → sqrtF (q * q) = q) (t₁ : Xf K) (ts : List (Xf K))
    (hd : ∀ t ∈ t₁ :: ts, t.DistValid) (c : Collider K) (hc : c.NiceNormals) :
    nestCollider sqrtF (t₁ :: ts) c = transformCollider sqrtF (ofList (t₁ :: ts)) c :=
  nestCollider_eq sqrtF hsq t₁ ts hd c hc

/-- **Hits of the nested collider are the images of the inner hits**: the ray handed to the innermost collider is
`(T⁻¹o, L⁻¹d)` for the composite `T = tₙ ∘ … ∘ t₁`, the point with parameter `k` on it is mapped by `T` to the point with the
same `k` on the outer ray, and the reported collisions are the inner ones with unchanged parameter. -/
theorem nested_collider_conj (sqrtF : K → K) (hsq : ∀ q, 0 ≤ q → sqrtF (q * q) = q) (t₁ : Xf K) (ts : List (Xf K))
    (hd : ∀ t ∈ t₁ :: ts, t.DistValid) (c : Collider K) (hc : c.NiceNormals) (o d : V3 K) (k : K) :
    let T := ofList (t₁ :: ts)
    let ir := innerRay T.inverse ⟨o, d⟩
    (nestCollider sqrtF (t₁ :: ts) c).count ⟨o, d⟩ = c.count ir ∧
      ((nestCollider sqrtF (t₁ :: ts) c).hits ⟨o, d⟩).map Hit.scale = (c.hits ir).map Hit.scale ∧
      T.apply (ir.origin.add (ir.dir.scale k)) = o.add (d.scale k) ∧
      ∀ p, T.apply p = (t₁ :: ts).foldl (fun c t => t.apply c) p := by
  have hT := Xf.distValid_ofList _ hd
  intro T ir
  rw [nested_collider sqrtF hsq t₁ ts hd c hc]
  refine ⟨rfl, ?_, ?_, (joined_inverse_reversed (t₁ :: ts)).2⟩
  · simp only [transformCollider, List.map_map]
    apply List.map_congr_left
    intro h _
    rfl
  · exact (transform_collider_conj T (Xf.distValid_valid _ hT) (Xf.distValid_affine _ hT) o d k).2.2

/-- non-vacuity: over every ordered field there is a `sqrtF` that is the exact non-negative root on perfect squares
(at ℚ: the driver's `sqrtQ`; at ℝ: `Real.sqrt`). -/
example : ∃ sqrtF : K → K, ∀ q, 0 ≤ q → sqrtF (q * q) = q := by
  classical
  refine ⟨fun x => if h : ∃ q, 0 ≤ q ∧ q * q = x then Classical.choose h else 0, fun q hq => ?_⟩
  have h : ∃ q', 0 ≤ q' ∧ q' * q' = q * q := ⟨q, hq, rfl⟩
  show (if h : ∃ q', 0 ≤ q' ∧ q' * q' = q * q then Classical.choose h else 0) = q
  rw [dif_pos h]
  obtain ⟨h1, h2⟩ := Classical.choose_spec h
  exact (mul_self_inj h1 hq).mp h2

/-- non-vacuity: a collider reporting unit normals has `NiceNormals`. -/
example : (⟨⟨0, 0, 0⟩, ⟨1, 1, 1⟩, fun _ => [⟨1, ⟨0, 0, 1⟩, 0⟩], fun _ => 1, fun _ => (⟨1, ⟨0, 0, 1⟩, 0⟩, true),
    fun _ _ => false⟩ : Collider ℚ).NiceNormals := by
  refine ⟨fun r h hh => ⟨1, by norm_num, ?_⟩, fun r => ⟨1, by norm_num, by norm_num [V3.normSq]⟩⟩
  simp only [List.mem_singleton] at hh
  subst hh
  norm_num [V3.normSq]

/-- Why the order matters (the merged fast path `JoinedTransform{t, tc.t}` is wrong): translate by (5,0,0) *then* scale by 2
maps (1,0,0) to (12,0,0); the members in the opposite order map it to (7,0,0). -/
example : (ofList [Xf.translate (⟨5, 0, 0⟩ : V3 ℚ), Xf.scale 2]).apply ⟨1, 0, 0⟩ = ⟨12, 0, 0⟩ ∧
    (ofList [Xf.scale 2, Xf.translate (⟨5, 0, 0⟩ : V3 ℚ)]).apply ⟨1, 0, 0⟩ = ⟨7, 0, 0⟩ := by
  constructor <;> ext <;> norm_num [Xf.ofList, Xf.apply, V3.add, V3.scale]

/-- 2-D **nested `TransformSolid` / `TransformSDF` / `TransformMetaball`** = the single wrapper of the 2-D join. -/
theorem nested_solid_sdf_metaball_2d (ts : List (Xf2 K)) (s : Solid2 K) (f : SDF2 K) (m : Metaball2 K) :
    ((∀ t ∈ ts, t.Valid) → (∀ x, s.contains x = true → Box2 s.lo s.hi x) →
        nestSolid2 ts s = transformSolid2 (Xf2.ofList ts) s) ∧
      nestSDF2 ts f = transformSDF2 (Xf2.ofList ts) f ∧ nestMetaball2 ts m = transformMetaball2 (Xf2.ofList ts) m :=
  ⟨fun hv hs => nestSolid2_eq ts hv s hs, nestSDF2_eq ts f, nestMetaball2_eq ts m⟩

/-- 2-D **nested `TransformCollider`** = the single wrapper of the 2-D join (same hypotheses as in 3-D). -/
theorem nested_collider_2d (sqrtF : K → K) (hsq : ∀ q, 0 ≤ q → sqrtF (q * q) = q) (t₁ : Xf2 K) (ts : List (Xf2 K))
    (hd : ∀ t ∈ t₁ :: ts, t.DistValid) (c : Collider2 K) (hc : c.NiceNormals) :
    nestCollider2 sqrtF (t₁ :: ts) c = transformCollider2 sqrtF (Xf2.ofList (t₁ :: ts)) c :=
  nestCollider2_eq sqrtF hsq t₁ ts hd c hc

example : (Xf2.ofList [Xf2.translate (⟨5, 0⟩ : V2 ℚ), Xf2.scale 2]).apply ⟨1, 0⟩ = ⟨12, 0⟩ ∧
    (Xf2.ofList [Xf2.scale 2, Xf2.translate (⟨5, 0⟩ : V2 ℚ)]).apply ⟨1, 0⟩ = ⟨7, 0⟩ := by
  constructor <;> ext <;> norm_num [Xf2.ofList, Xf2.apply, V2.add, V2.scale]

/-! ## toolbox3d.AxisPinch (as far as it is algebraic: `math.Pow(·, Power)` is the parameter `powF`) -/

/-- **`AxisPinch.Inverse().Apply(AxisPinch.Apply(c)) = c`** whenever the two power functions (`t ↦ t^p`, `t ↦ t^(1/p)`)
undo each other on `[0,1]`, map `[0,1]` into itself and vanish only at 0 (`PowLike`), and `Min < Max`.
Applied with the roles swapped it is the other order.  (The correspondence runs `p ∈ {2, 1/2, 1}`.) -/
theorem pinch_inverse (powF powG : K → K) (hp : PowLike powF) (hg : ∀ u, 0 ≤ u → u ≤ 1 → powG (powF u) = u)
    (a : Pinch K) (h : a.lo < a.hi) (c : V3 K) : a.apply powG (a.apply powF c) = c := by
  rw [Pinch.apply_eq, Pinch.apply_eq, V3.get_set, V3.set_set, pinch1_inv powF powG hp hg _ _ _ h, V3.set_get]

/-- **`AxisPinch.ApplyBounds` encloses the image of the box** for a monotone power function. -/
theorem pinch_bounds_encloses (powF : K → K) (hp : PowLike powF)
    (hm : ∀ u w, 0 ≤ u → u ≤ w → w ≤ 1 → powF u ≤ powF w) (a : Pinch K) (h : a.lo < a.hi)
    (lo hi p : V3 K) (hb : Box lo hi p) :
    Box (a.applyBounds powF lo hi).1 (a.applyBounds powF lo hi).2 (a.apply powF p) := by
  have hg := hb.get_axis a.axis
  simp only [Pinch.applyBounds, Pinch.apply_eq]
  exact hb.set_axis a.axis (pinch1_mono powF hp hm _ _ h hg.1) (pinch1_mono powF hp hm _ _ h hg.2)

/-- **`TransformSolid(pinch, s).Contains(pinch.Apply(q)) = s.Contains(q)`** (the body of `TransformSolid` with the pinch and
its `Inverse()` — power function `powG` — in place of `t`, `t.Inverse()`): for a solid inside its own bounds. -/
theorem pinch_solid_conj (powF powG : K → K) (hp : PowLike powF) (hg : ∀ u, 0 ≤ u → u ≤ 1 → powG (powF u) = u)
    (hm : ∀ u w, 0 ≤ u → u ≤ w → w ≤ 1 → powF u ≤ powF w) (a : Pinch K) (h : a.lo < a.hi) (s : Solid K)
    (hs : ∀ x, s.contains x = true → Box s.lo s.hi x) (q : V3 K) :
    (inBounds (a.apply powF q) (a.applyBounds powF s.lo s.hi).1 (a.applyBounds powF s.lo s.hi).2 &&
      s.contains (a.apply powG (a.apply powF q))) = s.contains q := by
  rw [pinch_inverse powF powG hp hg a h q]
  cases hc : s.contains q with
  | false => simp
  | true =>
      have := (inBounds_iff _ _ _).mpr (pinch_bounds_encloses powF hp hm a h s.lo s.hi q (hs q hc))
      simp [this]

/-- **General `Power`**: if `powF` is monotone on `x ≥ 0`, `powF 0 = 0`, `powF 1 = 1`, and `powG` undoes it on
`x ≥ 0` (`pow(pow(x,p),1/p) = x`), then `powF` is `PowLike`, hence the pinch inverts (`pinch_inverse`) and its bounds
enclose (`pinch_bounds_encloses`). -/
theorem pinch_general_power (powF powG : K → K)
    (hm : ∀ u w, 0 ≤ u → u ≤ w → powF u ≤ powF w) (h0 : powF 0 = 0) (h1 : powF 1 = 1)
    (hg : ∀ x, 0 ≤ x → powG (powF x) = x) (a : Pinch K) (h : a.lo < a.hi) :
    PowLike powF ∧ (∀ c, a.apply powG (a.apply powF c) = c) ∧
      (∀ lo hi p, Box lo hi p → Box (a.applyBounds powF lo hi).1 (a.applyBounds powF lo hi).2 (a.apply powF p)) := by
  have hp : PowLike powF := by
    intro u hu0 hu1
    refine ⟨by rw [← h0]; exact hm 0 u (le_refl _) hu0, by rw [← h1]; exact hm u 1 hu0 hu1, ?_⟩
    intro hpos
    have hge : 0 ≤ powF u := by rw [← h0]; exact hm 0 u (le_refl _) hu0
    rcases hge.lt_or_eq with hlt | heq
    · exact hlt
    · exfalso
      have e1 := hg u hu0
      rw [← heq, ← h0, hg 0 (le_refl _)] at e1
      exact (ne_of_gt hpos) e1.symm
  exact ⟨hp, fun c => pinch_inverse powF powG hp (fun u hu0 _ => hg u hu0) a h c,
    fun lo hi p hb => pinch_bounds_encloses powF hp (fun u w hu huw _ => hm u w hu huw) a h lo hi p hb⟩

/-- non-vacuity: squaring is `PowLike` and monotone on `[0,1]` over any ordered field -/
example : PowLike (fun t : K => t * t) ∧ ∀ u w : K, 0 ≤ u → u ≤ w → w ≤ 1 → u * u ≤ w * w :=
  ⟨fun u h0 h1 => ⟨mul_nonneg h0 h0, by nlinarith, fun h => mul_pos h h⟩,
   fun u w h0 h1 _ => mul_le_mul h1 h1 h0 (le_trans h0 h1)⟩

/-! ## toolbox3d.SmartSqueeze.Transform -/

/-- **The breakpoint loop of `SmartSqueeze.Transform` terminates**: every iteration moves `value` to a strictly later
element of the finite set {range starts, range ends, max}, so `2·#ranges + 2` iterations always suffice — running the
loop with any larger fuel gives the same list of squeezes (for arbitrary, also overlapping / inverted / empty ranges). -/
theorem smart_squeeze_terminates (ranges : List (K × K)) (max v : K) (acc : List (K × K)) (m : Nat)
    (hm : 2 * ranges.length + 2 ≤ m) :
    squeezeLoop ranges max m v acc = squeezeLoop ranges max (2 * ranges.length + 2) v acc := by
  apply squeezeLoop_fuel ranges max _ v acc _ m hm
  have hfm : ∀ l : List (K × K), (l.flatMap fun r => [r.1, r.2]).length = 2 * l.length := by
    intro l
    induction l with
    | nil => rfl
    | cons r rest ih => simp only [List.flatMap_cons, List.length_append, List.length_cons, List.length_nil, ih]; omega
  have hlen : (breakpoints ranges max).length = 2 * ranges.length + 1 := by
    simp only [breakpoints, List.length_cons, hfm]
  have := List.countP_le_length (p := fun x => decide (v < x)) (l := breakpoints ranges max)
  omega

/-- Without pinches the transform is the reversed list of the loop's squeezes. -/
theorem smart_pieces_no_pinch (unsq : List (K × K)) (pr lo hi : K) :
    smartPieces unsq [] pr lo hi =
      (squeezeLoop unsq hi (2 * unsq.length + 2) lo []).reverse.map fun r => Piece.squeeze r.1 r.2 := by
  simp [smartPieces, smartRanges, List.map_reverse]

/-- **The squeezes produced are proper (`Min < Max`), so the composed transform is invertible by its own `Inverse()`
in both orders, and it is a monotone map of the squeezed coordinate that leaves the other coordinates alone**
(`ratio > 0`; any order of the members, in particular the reversed one the library returns). -/
theorem smart_squeeze_inverse (axis : Nat) (ratio : K) (hr : 0 < ratio) (ranges : List (K × K)) (lo hi : K) (n : Nat) :
    let t := smartXf axis ratio (squeezeLoop ranges hi n lo []).reverse
    t.Valid ∧ (∀ p, t.inverse.apply (t.apply p) = p) ∧ (∀ p, t.apply (t.inverse.apply p) = p) ∧
      ∃ f : K → K, (∀ v w, v ≤ w → f v ≤ f w) ∧ ∀ c : V3 K, t.apply c = c.set axis (f (c.get axis)) := by
  have hv : ∀ r ∈ (squeezeLoop ranges hi n lo []).reverse, r.1 < r.2 := fun r hr' =>
    squeezeLoop_valid ranges hi n lo [] (by simp) r (List.mem_reverse.mp hr')
  have hval := smartXf_valid axis ratio hr _ hv
  exact ⟨hval, Xf.inverse_apply _ hval, Xf.apply_inverse _ hval, smartXf_monotone axis ratio hr _ hv⟩

/-- **What the breakpoint loop produces** (`ranges` = the unsqueezable ranges followed by the pinch ranges, arbitrary:
overlapping, unsorted, inverted, sticking out of the bounds): an ascending chain of proper intervals inside `[min, max]`
(each starts where or after the previous one ends), none of which contains a point of any range — unsqueezable material is
never squeezed — and, with the fuel the library's `for value < max` loop needs at most (`smart_squeeze_terminates`),
every point of `[min, max)` that lies in no range is inside one of them — everything squeezable is squeezed. -/
theorem smart_squeeze_pieces (ranges : List (K × K)) (lo hi : K) (n : Nat) :
    let l := squeezeLoop ranges hi n lo []
    Asc lo l ∧ (∀ p ∈ l, p.1 < p.2 ∧ lo ≤ p.1 ∧ p.2 ≤ hi) ∧
      (∀ p ∈ l, ∀ x, p.1 ≤ x → x < p.2 → ∀ r ∈ ranges, ¬ (r.1 ≤ x ∧ x < r.2)) ∧
      (2 * ranges.length + 2 ≤ n → ∀ x, lo ≤ x → x < hi → (∀ r ∈ ranges, ¬ (r.1 ≤ x ∧ x < r.2)) →
        ∃ p ∈ l, p.1 ≤ x ∧ x < p.2) := by
  intro l
  have ok : PiecesOK ranges lo hi l :=
    squeezeLoop_ok ranges lo hi n lo [] (le_refl _) ⟨trivial, by simp, by simp⟩ (by simp)
  refine ⟨ok.asc, fun p hp => ⟨(ok.proper p hp).1, (ok.asc.mem_bounds p hp).1, (ok.proper p hp).2⟩, ok.avoids, ?_⟩
  intro hn x hx1 hx2 hx
  have hfm : ∀ l : List (K × K), (l.flatMap fun r => [r.1, r.2]).length = 2 * l.length := by
    intro l
    induction l with
    | nil => rfl
    | cons r rest ih => simp only [List.flatMap_cons, List.length_append, List.length_cons, List.length_nil, ih]; omega
  have hlen : (breakpoints ranges hi).length = 2 * ranges.length + 1 := by
    simp only [breakpoints, List.length_cons, hfm]
  have := List.countP_le_length (p := fun y => decide (lo < y)) (l := breakpoints ranges hi)
  exact squeezeLoop_covers ranges hi n lo [] (by omega) x hx1 hx2 hx

/-- **`SmartSqueeze.Transform` (no pinches) is the documented piecewise-linear map of the axis coordinate**: it moves only
the axis coordinate, by `F(v) = v − (1 − ratio)·(total length of the squeezed intervals below v)`; so `F` has slope `ratio`
on every squeezed interval and slope 1 between them (in particular below `min` and above `max`).  Any `ratio ≥ 0`. -/
theorem smart_squeeze_slope (axis : Nat) (ratio : K) (hr : 0 ≤ ratio) (ranges : List (K × K)) (lo hi : K) (n : Nat) :
    let l := squeezeLoop ranges hi n lo []
    let t := smartXf axis ratio l.reverse
    ∃ F : K → K, (∀ c : V3 K, t.apply c = c.set axis (F (c.get axis))) ∧
      (∀ v, F v = v - (1 - ratio) * sumClamp l v) ∧
      (∀ p ∈ l, ∀ v w, p.1 ≤ v → v ≤ w → w ≤ p.2 → F w - F v = ratio * (w - v)) ∧
      (∀ v w, v ≤ w → (∀ p ∈ l, p.2 ≤ v ∨ w ≤ p.1) → F w - F v = w - v) := by
  intro l t
  have hasc : Asc lo l := (smart_squeeze_pieces ranges lo hi n).1
  refine ⟨smartFn ratio l, smartXf_reverse_apply axis ratio l, smartFn_formula ratio hr lo l hasc, ?_, ?_⟩
  · intro p hp v w hv hvw hw
    rw [smartFn_formula ratio hr lo l hasc, smartFn_formula ratio hr lo l hasc,
      sumClamp_diff_inside lo l hasc p hp v w hv hvw hw]
    ring
  · intro v w hvw h
    rw [smartFn_formula ratio hr lo l hasc, smartFn_formula ratio hr lo l hasc,
      sumClamp_diff_outside l v w hvw (fun p hp => ⟨(hasc.mem_bounds p hp).2, h p hp⟩)]
    ring

/-- **Unsqueezable material keeps its size**: on a segment `[v, w]` inside one unsqueezable (or pinch) range, and on any
segment below `min` or above `max`, the transform is a rigid shift (`F w − F v = w − v`). -/
theorem smart_squeeze_rigid (ratio : K) (ranges : List (K × K)) (lo hi : K) (n : Nat)
    (F : K → K) (hF : ∀ v, F v = v - (1 - ratio) * sumClamp (squeezeLoop ranges hi n lo []) v) (v w : K) (hvw : v ≤ w)
    (h : (∃ r ∈ ranges, r.1 ≤ v ∧ w ≤ r.2) ∨ w ≤ lo ∨ hi ≤ v) : F w - F v = w - v := by
  rcases hvw.lt_or_eq with hlt | heq
  swap
  · subst heq; ring
  obtain ⟨hasc, hin, hav, _⟩ := smart_squeeze_pieces ranges lo hi n
  have key : ∀ p ∈ squeezeLoop ranges hi n lo [], p.2 ≤ v ∨ w ≤ p.1 := by
    intro p hp
    rcases h with ⟨r, hr', h1, h2⟩ | h | h
    · by_contra hc
      rw [not_or, not_le, not_le] at hc
      obtain ⟨c1, c2⟩ := hc
      -- the point `x = max v p.1` lies in the squeeze and in the range
      have hx1 : p.1 ≤ max v p.1 := le_max_right _ _
      have hx2 : max v p.1 < p.2 := max_lt c1 (hin p hp).1
      have hx3 : max v p.1 < w := max_lt hlt c2
      exact hav p hp (max v p.1) hx1 hx2 r hr' ⟨le_trans h1 (le_max_left _ _), lt_of_lt_of_le hx3 h2⟩
    · exact Or.inr (le_trans h (hin p hp).2.1)
    · exact Or.inl (le_trans (hin p hp).2.2 h)
  rw [hF, hF, sumClamp_diff_outside _ v w hvw (fun p hp => ⟨(hasc.mem_bounds p hp).2, key p hp⟩)]
  ring

/-- non-vacuity: bounds `[0, 4]`, unsqueezable `[1, 2)`: the loop squeezes `[0,1]` and `[2,4]`. -/
example : squeezeLoop [((1 : ℚ), 2)] 4 4 0 [] = [(0, 1), (2, 4)] := by decide +kernel


/-! ## Histories of one transform object: `Inverse()` is the inverse of the object **as it is now**

The transform types are mutable (`Offset`, `Scale`, the `AxisSqueeze` fields and `Matrix3Transform.Matrix` are
exported; `Matrix` is a pointer whose target has the in-place mutators `Scale` / `InvertInPlace`; a
`JoinedTransform` is a slice).  `M3d/Model/TransformHist.lean` has two semantics of a history of one object:
the **heap semantics** (`Hist.Cell`, `Hist.readIn`, `Hist.goInverse`, `Hist.HeapStep.run`: structs, matrices and
slices are heap cells, `Matrix` is an address, `Inverse()` allocates exactly what the Go methods allocate) and the
**value semantics** (`HStep.run`: every object has a current value, `inv i` appends `Xf.inverse` of the current value
of object `i`, an edit changes the edited object only) — the latter is what the driver runs for the `hist3`/`hist2`
kinds.  The theorems below say that the heap semantics *is* the value semantics, for every history. -/

open M3d.Tf.Hist in
/-- **`Inverse()` returns a fresh value that is the inverse of the receiver as it is now.**  Take *any* heap `h`
(whatever history produced it) in which the object at address `a` denotes the transform `t` (nested joins
included).  Then the Go method `Inverse()` succeeds, it only **appends** cells (`h ++ ext`: no existing cell — of
the receiver, of an earlier result, of any cache — is written), and the object it returns denotes `t.inverse`
reading appended cells only (`freshOf h`): the result shares no cell with the receiver or with anything else. -/
theorem inverse_fresh (S : Nat → Bool) (n : Nat) (h : Heap K) (a : Nat) (t : Xf K)
    (ht : readIn S n h a = some t) :
    ∃ ext a', goInverse n h a = some (h ++ ext, a') ∧
      readIn (freshOf h) n (h ++ ext) a' = some t.inverse :=
  goInverse_spec S n h a t ht

open M3d.Tf.Hist in
/-- **Not aliased, in both directions.**  With `(h ++ ext, a')` the result of `Inverse()` as in `inverse_fresh`:
(1) whatever is later stored into the cells of the result (or allocated after it) — any heap `h₂` that agrees with
`h` on the old addresses — every object `b` that denoted `t'` before still denotes `t'` (editing the matrix of a
returned inverse cannot reach the receiver, an earlier inverse, or a wrapper built earlier);
(2) whatever is later stored into old cells — any `h₂` that agrees with `h ++ ext` on the new addresses — the
result still denotes `t.inverse` (it is a value of its own, not a view of the receiver). -/
theorem inverse_not_aliased (n : Nat) (h ext : Heap K) (a' : Nat) (u : Xf K)
    (hres : readIn (freshOf h) n (h ++ ext) a' = some u) :
    (∀ (S' : Nat → Bool) n' b t' (h₂ : Heap K), readIn S' n' h b = some t' →
        (∀ c, c < h.length → h₂[c]? = h[c]?) → readIn S' n' h₂ b = some t') ∧
    (∀ h₂ : Heap K, (∀ c, h.length ≤ c → h₂[c]? = (h ++ ext)[c]?) → readIn (freshOf h) n h₂ a' = some u) := by
  constructor
  · intro S' n' b t' h₂ hb hagree
    refine readIn_transfer S' S' h h₂ ?_ n' b t' hb
    intro c cell hS hc
    exact ⟨hS, by rw [hagree c (lt_of_getElem?_some h c cell hc)]; exact hc⟩
  · intro h₂ hagree
    refine readIn_transfer (freshOf h) (freshOf h) (h ++ ext) h₂ ?_ n a' u hres
    intro c cell hS hc
    refine ⟨hS, ?_⟩
    simp only [freshOf, decide_eq_true_eq] at hS
    rw [hagree c hS]; exact hc

open M3d.Tf.Hist in
/-- **Inverse after any history = inverse of the current value.**  Run *any* history `ss` on the heap — any
sequence of `Inverse()` calls, in-place stores into cells of any object (`Matrix.Scale`, `*Matrix = m`,
`InvertInPlace`, field and slice stores, also into objects that were returned by `Inverse()`) and allocations —
from separated objects.  In the state `σ` it ends in, if object `i` has the value `t` *now*, then `Inverse()` on it
succeeds and the new object has the value `t.inverse`; the call changes the value of no existing object, and the
objects stay separated (so the statement applies again after it). -/
theorem inverse_after_history (ss : List (HeapStep K)) (σ₀ σ : HeapState K) (hsep : Sep σ₀)
    (hrun : runHeap ss σ₀ = some σ) (i : Nat) (t : Xf K) (hv : σ.value i = some t) :
    ∃ σ', (HeapStep.inv i).run σ = some σ' ∧ σ'.value σ.objs.length = some t.inverse ∧
      (∀ j t', σ.value j = some t' → σ'.value j = some t') ∧ Sep σ' := by
  have hs := run_sep ss σ₀ σ hsep hrun
  obtain ⟨σ', hstep, _, hnew⟩ := inv_value σ i t hv
  exact ⟨σ', hstep, hnew, fun j t' hj => step_frame _ σ σ' hs hstep j (by simp [HeapStep.target]) t' hj,
    step_sep _ σ σ' hs hstep⟩

open M3d.Tf.Hist in
/-- **Edits are local.**  In any history on separated objects, the value of object `j` is unchanged by every step
that is not an edit addressed to `j` itself: `Inverse()` calls on any object (on `j` too — `Inverse()` has no side
effect on its receiver) and edits of other objects, in particular of the objects `j.Inverse()` returned. -/
theorem history_edits_are_local (ss : List (HeapStep K)) (σ σ' : HeapState K) (hsep : Sep σ)
    (hrun : runHeap ss σ = some σ') (j : Nat) (hj : ∀ s ∈ ss, s.target ≠ some j) (t : Xf K)
    (hv : σ.value j = some t) : σ'.value j = some t ∧ Sep σ' :=
  ⟨run_frame ss σ σ' hsep hrun j hj t hv, run_sep ss σ σ' hsep hrun⟩

open M3d.Tf.Hist in
/-- **The heap semantics is the value semantics** (flat objects).  Every history made of `Inverse()` calls (on
any object, nested joins included), wrapper constructions and in-place edits of a struct of values or of the matrix
behind a `Matrix3Transform` (`Offset =`, `Scale =`, `Matrix.Scale(s)`, `*Matrix = m`, `Matrix.InvertInPlace()`,
`Matrix = &m`), carried out on the heap with pointers and allocation (`compileFlat`), ends in a heap state that
represents exactly the state `runHistory` computes: object by object the same value.  This is the semantics the
driver answers the `hist3` / `hist2` kinds with.  (Slice stores `j[k] = x` are covered by `inverse_after_history`
and `history_edits_are_local`, not by this simulation.) -/
theorem history_value_semantics (ss : List (HStep K)) (σ : HeapState K) (st st' : HState K) (hrep : Rep σ st)
    (hrun : runHistory ss st = some st') (hflat : ∀ s ∈ ss, FlatStep s) :
    ∃ hs σ', runHeap hs σ = some σ' ∧ Rep σ' st' :=
  flat_history_sim ss σ st st' hrep hrun hflat

open M3d.Tf.Hist in
/-- **The property along a history.**  After any flat history (as in `history_value_semantics`) from a represented
state, for every object `i` whose current value `t` is invertible (`t.Valid`): `Inverse()` called *now* on the heap
yields an object whose value `u` undoes `t` in both orders, `u(t(p)) = p = t(u(p))` — `t` being the object as the
edits have left it, not as it was when an inverse was last asked for. -/
theorem history_roundtrip (ss : List (HStep K)) (σ : HeapState K) (st st' : HState K) (hrep : Rep σ st)
    (hrun : runHistory ss st = some st') (hflat : ∀ s ∈ ss, FlatStep s) (i : Nat) (t : Xf K)
    (hi : st'.objs[i]? = some t) (hv : t.Valid) :
    ∃ hs σ₁ σ₂ u, runHeap hs σ = some σ₁ ∧ (HeapStep.inv i).run σ₁ = some σ₂ ∧
      σ₂.value σ₁.objs.length = some u ∧ ∀ p, u.apply (t.apply p) = p ∧ t.apply (u.apply p) = p := by
  obtain ⟨hs, σ₁, hr, hrep₁⟩ := flat_history_sim ss σ st st' hrep hrun hflat
  obtain ⟨σ₂, hstep, _, hnew⟩ := inv_value σ₁ i t (hrep₁.2.2 i t hi)
  exact ⟨hs, σ₁, σ₂, t.inverse, hr, hstep, hnew, fun p => ⟨Xf.inverse_apply t hv p, Xf.apply_inverse t hv p⟩⟩

open M3d.Tf.Hist in
/-- non-vacuity: for every matrix `m`, the two-cell heap `[Matrix3{m}, Matrix3Transform{Matrix: &cell 0}]` with one
object represents the value state `[matrix m]` — the hypotheses `Sep` / `Rep` of the history theorems hold for the
object `&Matrix3Transform{Matrix: &m}` every `hist3` history starts from. -/
example (m : M3 K) :
    Rep (⟨[.mat m, .mxf 0], [⟨1, fun b => decide (b < 2), 1⟩]⟩ : HeapState K) ⟨[.matrix m], []⟩ := by
  refine ⟨⟨?_, ?_⟩, rfl, ?_⟩
  · intro i j oi oj hi hj hij
    have hi' : i = 0 := by
      by_contra hne
      rw [List.getElem?_eq_none (by simp; omega)] at hi; cases hi
    have hj' : j = 0 := by
      by_contra hne
      rw [List.getElem?_eq_none (by simp; omega)] at hj; cases hj
    omega
  · intro i o hi b hb
    have hi' : i = 0 := by
      by_contra hne
      rw [List.getElem?_eq_none (by simp; omega)] at hi; cases hi
    subst hi'
    simp only [List.getElem?_cons_zero, Option.some.injEq] at hi
    subst hi
    simpa using hb
  · intro i t hi
    have hi' : i = 0 := by
      by_contra hne
      rw [List.getElem?_eq_none (by simp; omega)] at hi; cases hi
    subst hi'
    simp only [List.getElem?_cons_zero, Option.some.injEq] at hi
    subst hi
    simp [HeapState.value, readIn]

open M3d.Tf.Hist in
/-- non-vacuity / the seeded scenario on the model, at `ℚ`: `xf := &Matrix3Transform{Matrix: &diag(1,1,1)}`;
`inv := xf.Inverse()`; `xf.Matrix.Scale(2)`; `inv.Matrix.Scale(5)` (editing the returned inverse); `xf.Inverse()` —
the second inverse is `diag(1/2,1/2,1/2)`, the inverse of the matrix as it is now, and `xf` still is `diag(2,2,2)`. -/
example :
    (runHeap [.inv 0, .store 0 0 (.mat (M3.one.scale 2)), .store 1 2 (.mat ((M3.one : M3 ℚ).inverse.scale 5)), .inv 0]
        (⟨[.mat M3.one, .mxf 0], [⟨1, fun b => decide (b < 2), 1⟩]⟩ : HeapState ℚ)).map
      (fun σ => (σ.value 0, σ.value 2)) =
      some (some (.matrix ⟨2, 0, 0, 0, 2, 0, 0, 0, 2⟩), some (.matrix ⟨1/2, 0, 0, 0, 1/2, 0, 0, 0, 1/2⟩)) := by
  norm_num [runHeap, HeapStep.run, goInverse, alloc, HeapState.value, readIn, M3.one, M3.scale, M3.inverse, M3.adj,
    M3.det]


/-! ### Histories, 2-D (`model2d`: the same template text; heap model `Hist2` generated from the 3-D one) -/

open M3d.Tf.Hist2 in
/-- 2-D **`Inverse()` returns a fresh value that is the inverse of the receiver as it is now** (`Matrix2Transform`,
`Translate`, `Scale`, `VecScale`, the ortho wrapper, nested `JoinedTransform`s of `model2d`): only appended cells,
result reads appended cells only. -/
theorem inverse_fresh_2d (S : Nat → Bool) (n : Nat) (h : Heap K) (a : Nat) (t : Xf2 K)
    (ht : readIn S n h a = some t) :
    ∃ ext a', goInverse n h a = some (h ++ ext, a') ∧
      readIn (freshOf h) n (h ++ ext) a' = some t.inverse :=
  goInverse_spec S n h a t ht

open M3d.Tf.Hist2 in
/-- 2-D **inverse after any history = inverse of the current value**; `Inverse()` changes no existing object;
separation is kept. -/
theorem inverse_after_history_2d (ss : List (HeapStep K)) (σ₀ σ : HeapState K) (hsep : Sep σ₀)
    (hrun : runHeap ss σ₀ = some σ) (i : Nat) (t : Xf2 K) (hv : σ.value i = some t) :
    ∃ σ', (HeapStep.inv i).run σ = some σ' ∧ σ'.value σ.objs.length = some t.inverse ∧
      (∀ j t', σ.value j = some t' → σ'.value j = some t') ∧ Sep σ' := by
  have hs := run_sep ss σ₀ σ hsep hrun
  obtain ⟨σ', hstep, _, hnew⟩ := inv_value σ i t hv
  exact ⟨σ', hstep, hnew, fun j t' hj => step_frame _ σ σ' hs hstep j (by simp [HeapStep.target]) t' hj,
    step_sep _ σ σ' hs hstep⟩

open M3d.Tf.Hist2 in
/-- 2-D **edits are local** (see `history_edits_are_local`). -/
theorem history_edits_are_local_2d (ss : List (HeapStep K)) (σ σ' : HeapState K) (hsep : Sep σ)
    (hrun : runHeap ss σ = some σ') (j : Nat) (hj : ∀ s ∈ ss, s.target ≠ some j) (t : Xf2 K)
    (hv : σ.value j = some t) : σ'.value j = some t ∧ Sep σ' :=
  ⟨run_frame ss σ σ' hsep hrun j hj t hv, run_sep ss σ σ' hsep hrun⟩

open M3d.Tf.Hist2 in
/-- 2-D **the heap semantics is the value semantics** for histories of `Inverse()` calls, wrapper constructions and
flat edits (`runHistory2` is what the driver answers `hist2` with), and along such a history `Inverse()` called now
undoes the object as it is now in both orders. -/
theorem history_value_semantics_2d (ss : List (HStep2 K)) (σ : HeapState K) (st st' : HState2 K) (hrep : Rep σ st)
    (hrun : runHistory2 ss st = some st') (hflat : ∀ s ∈ ss, FlatStep s) :
    (∃ hs σ', runHeap hs σ = some σ' ∧ Rep σ' st') ∧
    ∀ i t, st'.objs[i]? = some t → t.Valid →
      ∃ hs σ₁ σ₂ u, runHeap hs σ = some σ₁ ∧ (HeapStep.inv i).run σ₁ = some σ₂ ∧
        σ₂.value σ₁.objs.length = some u ∧ ∀ p, u.apply (t.apply p) = p ∧ t.apply (u.apply p) = p := by
  obtain ⟨hs, σ₁, hr, hrep₁⟩ := flat_history_sim ss σ st st' hrep hrun hflat
  refine ⟨⟨hs, σ₁, hr, hrep₁⟩, ?_⟩
  intro i t hi hv
  obtain ⟨σ₂, hstep, _, hnew⟩ := inv_value σ₁ i t (hrep₁.2.2 i t hi)
  exact ⟨hs, σ₁, σ₂, t.inverse, hr, hstep, hnew, fun p => ⟨Xf2.inverse_apply t hv p, Xf2.apply_inverse t hv p⟩⟩

/-! ## The 2-D instance (`model2d/transform.go`, `model2d/matrix.go`) — its own model `M3d/Model/Transform2.lean` -/

/-- 2-D **`Inverse().Apply(Apply(p)) = p = Apply(Inverse().Apply(p))`** for `model2d` Translate, Scale (`s ≠ 0`), VecScale
(non-zero components), `Matrix2Transform` (`det ≠ 0`), orthogonal `Matrix2` transforms and nested joins. -/
theorem inverse_apply_2d (t : Xf2 K) (h : t.Valid) (p : V2 K) :
    t.inverse.apply (t.apply p) = p ∧ t.apply (t.inverse.apply p) = p :=
  ⟨Xf2.inverse_apply t h p, Xf2.apply_inverse t h p⟩

/-- `Matrix2Transform`: `Inverse()` undoes `Apply` on columns whenever `Det ≠ 0`. -/
theorem matrix2_transform_inverse (m : M2 K) (h : m.det ≠ 0) (c : V2 K) :
    (Xf2.matrix m).inverse.apply ((Xf2.matrix m).apply c) = c ∧ (Xf2.matrix m).apply ((Xf2.matrix m).inverse.apply c) = c :=
  ⟨M2.inverse_mulColumn m h c, M2.mulColumn_inverse m h c⟩

/-- 2-D **`ApplyBounds` encloses the image of the rectangle** — for `Matrix2Transform` the result is the bounding box of
the **4** corner images; negative scales handled. No side condition (all 2-D transforms are affine). -/
theorem apply_bounds_encloses_2d (t : Xf2 K) (lo hi p : V2 K) (hb : Box2 lo hi p) :
    Box2 (t.applyBounds lo hi).1 (t.applyBounds lo hi).2 (t.apply p) ∧
      (inBounds2 p lo hi = true → inBounds2 (t.apply p) (t.applyBounds lo hi).1 (t.applyBounds lo hi).2 = true) :=
  ⟨Xf2.applyBounds_encloses t lo hi p hb,
   fun h => (inBounds2_iff _ _ _).mpr (Xf2.applyBounds_encloses t lo hi p ((inBounds2_iff _ _ _).mp h))⟩

/-- 2-D **`ApplyDistance` is the exact change of distance** (and `= d · factor`, `factor > 0`). -/
theorem apply_distance_exact_2d (t : Xf2 K) (h : t.DistValid) (p q : V2 K) (d : K) (hd : 0 ≤ d)
    (hpq : d * d = (p.sub q).normSq) :
    0 ≤ t.applyDistance d ∧ t.applyDistance d * t.applyDistance d = ((t.apply p).sub (t.apply q)).normSq ∧
      t.isDist = true := by
  rw [Xf2.applyDistance_eq, Xf2.normSq_apply_sub t h, ← hpq]
  exact ⟨mul_nonneg hd (Xf2.factor_pos t h).le, by ring, Xf2.distValid_isDist t h⟩

/-- 2-D `Rotation(θ)` (= `orthoMatrix2Transform{NewMatrix2Rotation(θ)}`) satisfies `DistValid` whenever `c² + s² = 1`. -/
theorem rotation2_dist_valid (c s : K) (hcs : c * c + s * s = 1) : (Xf2.ortho (M2.rotation c s)).DistValid :=
  (M2.rotation_ortho c s hcs).1

/-- 2-D **`TransformSolid` / `TransformSDF` conjugacy.** -/
theorem transform_solid_sdf_conj_2d (t : Xf2 K) (s : Solid2 K) (f : SDF2 K) (q : V2 K)
    (hs : ∀ x, s.contains x = true → Box2 s.lo s.hi x) :
    (t.Valid → (transformSolid2 t s).contains (t.apply q) = s.contains q) ∧
      (t.DistValid → (transformSDF2 t f).sdf (t.apply q) = f.sdf q * t.factor ∧ 0 < t.factor) := by
  constructor
  · intro h
    simp only [transformSolid2, Xf2.inverse_apply t h]
    cases hc : s.contains q with
    | false => simp
    | true =>
        have := (inBounds2_iff _ _ _).mpr (Xf2.applyBounds_encloses t s.lo s.hi q (hs q hc))
        simp [this]
  · intro h
    simp only [transformSDF2, Xf2.inverse_apply t (Xf2.distValid_valid t h), Xf2.applyDistance_eq]
    exact ⟨trivial, Xf2.factor_pos t h⟩

/-- 2-D **`TransformCollider`**: inner ray `(t⁻¹o, L⁻¹d)`, every ray point corresponds with the same parameter; the
reported collisions are the inner ones with the same count / parameter / `Extra` and normal `normalize(L n)`; nil
callback safe; `CircleCollision` conjugacy. -/
theorem transform_collider_conj_2d (sqrtF : K → K) (t : Xf2 K) (hv : t.Valid) (c : Collider2 K) (o d : V2 K) (k : K) :
    let ir := innerRay2 t.inverse ⟨o, d⟩
    t.apply (ir.origin.add (ir.dir.scale k)) = o.add (d.scale k) ∧
      tcRayCollisions2 sqrtF t c ⟨o, d⟩ true =
        .ok (c.count ir) ((c.hits ir).map fun h => { scale := h.scale, normal := (t.lin h.normal).normalize sqrtF, extra := h.extra }) ∧
      tcRayCollisions2 sqrtF t c ⟨o, d⟩ false = .ok (c.count ir) [] := by
  refine ⟨?_, rfl, rfl⟩
  show t.apply ((t.inverse.apply o).add ((t.inverse.lin d).scale k)) = o.add (d.scale k)
  rw [Xf2.apply_add t, Xf2.apply_inverse t hv, Xf2.lin_scale t, Xf2.lin_lin_inverse t hv]

/-- 2-D **normal**: unit length after normalisation, and for a similarity `L n = factor² · L⁻ᵀ n`, orthogonal to the image
of every tangent. -/
theorem transform_collider_normal_2d (sqrtF : K → K) (t : Xf2 K) (h : t.DistValid) (n w τ v : V2 K)
    (hv : v.normSq ≠ 0) (hs : sqrtF v.normSq * sqrtF v.normSq = v.normSq) :
    (v.normalize sqrtF).normSq = 1 ∧ (t.lin n).dot w = t.factor * t.factor * n.dot (t.inverse.lin w) ∧
      (n.dot τ = 0 → (t.lin n).dot (t.lin τ) = 0) := by
  refine ⟨?_, ?_, ?_⟩
  · have h0 : sqrtF v.normSq ≠ 0 := by
      intro h'; rw [h', zero_mul] at hs; exact hv hs.symm
    unfold V2.normalize
    generalize sqrtF v.normSq = r at hs h0 ⊢
    simp only [V2.normSq, V2.scale] at hs ⊢
    have : (v.x * v.x + v.y * v.y) * (1 / r * (1 / r)) = 1 := by rw [← hs]; field_simp
    linear_combination this
  · have e := Xf2.dot_lin t h n (t.inverse.lin w)
    rwa [Xf2.lin_lin_inverse t (Xf2.distValid_valid t h)] at e
  · intro h0
    rw [Xf2.dot_lin t h, h0, mul_zero]

/-- 2-D `CircleCollision` conjugacy. -/
theorem transform_collider_circle_2d (t : Xf2 K) (h : t.DistValid) (c : Collider2 K) (q : V2 K) (r : K) :
    tcCircle2 t c (t.apply q) (t.applyDistance r) = c.circle q r := by
  have hf := ne_of_gt (Xf2.factor_pos t h)
  simp only [tcCircle2, Xf2.inverse_apply t (Xf2.distValid_valid t h), Xf2.applyDistance_eq, Xf2.factor_inverse t h]
  congr 1
  field_simp

example : (Xf2.jcons (.scale (-2 : ℚ)) (.jcons (.ortho (M2.rotation (3/5) (4/5))) (.jcons (.translate ⟨5, 0⟩) .jnil))).DistValid := by
  refine ⟨by show (-2 : ℚ) ≠ 0; norm_num, rotation2_dist_valid _ _ (by norm_num), trivial, trivial⟩

/-! ## Scene graphs: transformed colliders inside multi-member colliders inside transformed colliders

`TransformCollider(t, c)` accepts any collider `c`; in a scene graph `c` is a collider with a member list
(`JoinedCollider`, or a user's own type) whose members are again transformed colliders.  Such a collider hands the
`*Ray` it was given to one member after the other, and a `RayCollisions` callback may cast secondary rays at
transformed colliders while the outer query is still running.  Model: `M3d/Model/TransformScene.lean`. -/

/-- **A transform wrapped round a multi-member collider is the multi-member collider of the wrapped members**:
`TransformCollider(t, group{m, ms…})` answers every ray query (`RayCollisions`: the collisions handed to the callback
and the returned count; `FirstRayCollision`) and every sphere query exactly as `group{TransformCollider(t, m),
TransformCollider(t, ms)…}` does — for ANY transform value and ANY members (no hypothesis: this is a statement about
how the queries are routed).  With `nested_collider` a scene graph of any depth therefore answers as the list of its
leaves, each wrapped ONCE in the `JoinedTransform` of the transforms on its path (innermost first), and every law
proved for one wrapper (`transform_collider_conj`, `transform_collider_hits`, `transform_collider_first`,
`transform_collider_sphere`) holds for every leaf of the scene with its composite transform. -/
theorem transform_group_distrib (sqrtF : K → K) (t : Xf K) (m : Collider K) (ms : List (Collider K)) :
    let whole := transformCollider sqrtF t (groupCollider m ms)
    let parts := groupCollider (transformCollider sqrtF t m) (ms.map (transformCollider sqrtF t))
    (∀ r, whole.hits r = parts.hits r) ∧ (∀ r, whole.count r = parts.count r) ∧
      (∀ r, whole.first r = parts.first r) ∧ ∀ p rad, whole.sphere p rad = parts.sphere p rad :=
  ⟨group_hits_distrib sqrtF t m ms, group_count_distrib sqrtF t m ms, group_first_distrib sqrtF t m ms,
    group_sphere_distrib sqrtF t m ms⟩

/-- **The scene `TransformCollider(t₁, group{TransformCollider(t₂, a), b})`** (a moved part next to a fixed part, the
whole placed in the world): the collisions reported for the ray `r` are those of `a` on `r` pulled back through
`JoinedTransform{t₂, t₁}` followed by those of `b` on `r` pulled back through `t₁` alone — each with its parameter
unchanged and its normal pushed out through the same transform(s) (`outerCollision`); `b` is asked about the ray in
ITS space whatever happened inside the member before it. -/
theorem scene_two_level (sqrtF : K → K) (hsq : ∀ q, 0 ≤ q → sqrtF (q * q) = q) (t₁ t₂ : Xf K) (h₁ : t₁.DistValid)
    (h₂ : t₂.DistValid) (a b : Collider K) (ha : a.NiceNormals) (r : Ray K) :
    ((Scene.xform t₁ (.pair (.xform t₂ (.leaf a)) (.leaf b))).collider sqrtF).hits r =
      (a.hits (innerRay (ofList [t₂, t₁]).inverse r)).map (outerCollision sqrtF (ofList [t₂, t₁])) ++
        (b.hits (innerRay t₁.inverse r)).map (outerCollision sqrtF t₁) := by
  have hn := nested_collider sqrtF hsq t₂ [t₁] (by
    intro t ht
    simp only [List.mem_cons, List.not_mem_nil, or_false] at ht
    rcases ht with rfl | rfl
    · exact h₂
    · exact h₁) a ha
  simp only [nestCollider, List.foldl_cons, List.foldl_nil] at hn
  simp only [Scene.collider]
  rw [group_hits_distrib]
  simp only [groupCollider, List.map_cons, List.map_nil, List.flatMap_cons, List.flatMap_nil, List.append_nil, hn]
  rfl

/-- **The pointer-level program agrees with the value-level description, for every scene and every callback that only
allocates**: run `RayCollisions(r, f)` on a scene (`Scene.run`: colliders are handed the ADDRESS of a ray in the store of
all `Ray` objects, `innerRay` allocates a new object, a group passes the address it received to each member in turn,
a leaf reads the ray and calls `f` for each collision; `f` may do anything to the store that only adds objects, e.g.
cast secondary rays at other transformed colliders).  Then the store afterwards is the old store plus new cells — no
ray that anybody still holds is ever written to — and the collisions handed to `f` are exactly `hits r` of the
collider VALUE of the scene (`Scene.collider`: `transformCollider` / `groupCollider`), to which all other theorems of
this file apply.  This is the "all programs" part of the property for ray queries: sharing one `*Ray` among the members
of a group, nesting, and re-entrant queries do not change any answer. -/
theorem scene_pointer_semantics (sqrtF : K → K) (onHit : List (Ray K) → List (Ray K))
    (hcb : ∀ st, ∃ e, onHit st = st ++ e) (s : Scene K) (addr : Nat) (st : List (Ray K)) (r : Ray K)
    (h : st[addr]? = some r) :
    ∃ e, s.run sqrtF onHit addr st = (st ++ e, (s.collider sqrtF).hits r) :=
  Scene.run_spec sqrtF onHit hcb s addr st r h

/-- **Secondary rays cast from inside the callback** (shadow rays: on every collision allocate the ray `sec` and query
the scene `sub` with it) are such a callback, so `scene_pointer_semantics` applies: the primary query reports what it
reports without the secondary queries. -/
theorem scene_shadow_rays (sqrtF : K → K) (sub : Scene K) (sec : Ray K) (s : Scene K) (addr : Nat)
    (st : List (Ray K)) (r : Ray K) (h : st[addr]? = some r) :
    ∃ e, s.run sqrtF (shadowCallback sqrtF sub sec) addr st = (st ++ e, (s.collider sqrtF).hits r) :=
  Scene.run_spec sqrtF _ (shadowCallback_appends sqrtF sub sec) s addr st r h

/-- non-vacuity of the hypotheses (`st[addr]? = some r`; a callback that only allocates) and **why the allocation in
`innerRay` matters**: the scene `TransformCollider(T(5,0,0), group{TransformCollider(T(1,0,0), a), b})` with probes
whose parameter shows the `x` of the ray origin they are handed, queried with a ray from (10,0,0).  The library's
program reports 4 for `a` and 5 for `b` (= the value semantics); the same program with RECYCLED inner rays
(`Scene.runPooled`) lets the first member overwrite the ray of the group, and `b` reports 4. -/
example :
    let a : Collider ℚ := probeCollider ⟨-9, -9, -9⟩ ⟨9, 9, 9⟩ ⟨1, 0, 0⟩ ⟨0, 0, 0⟩ [⟨0, ⟨1, 0, 0⟩, 1⟩]
    let b : Collider ℚ := probeCollider ⟨-9, -9, -9⟩ ⟨9, 9, 9⟩ ⟨1, 0, 0⟩ ⟨0, 0, 0⟩ [⟨0, ⟨1, 0, 0⟩, 2⟩]
    let s : Scene ℚ := .xform (.translate ⟨5, 0, 0⟩) (.pair (.xform (.translate ⟨1, 0, 0⟩) (.leaf a)) (.leaf b))
    let r : Ray ℚ := ⟨⟨10, 0, 0⟩, ⟨1, 0, 0⟩⟩
    ((s.run (fun x => x) (fun st => st ++ [r]) 0 [r]).2).map Hit.scale = [4, 5] ∧
      ((s.collider (fun x => x)).hits r).map Hit.scale = [4, 5] ∧
      ((s.runPooled (fun x => x) 1 0 [r, r]).2).map Hit.scale = [4, 4] := by
  decide +kernel

/-- 2-D twin of `transform_group_distrib` (`model2d.TransformCollider` round a multi-member collider). -/
theorem transform_group_distrib_2d (sqrtF : K → K) (t : Xf2 K) (m : Collider2 K) (ms : List (Collider2 K)) :
    let whole := transformCollider2 sqrtF t (groupCollider2 m ms)
    let parts := groupCollider2 (transformCollider2 sqrtF t m) (ms.map (transformCollider2 sqrtF t))
    (∀ r, whole.hits r = parts.hits r) ∧ (∀ r, whole.count r = parts.count r) ∧
      (∀ r, whole.first r = parts.first r) ∧ ∀ p rad, whole.circle p rad = parts.circle p rad :=
  ⟨group_hits_distrib2 sqrtF t m ms, group_count_distrib2 sqrtF t m ms, group_first_distrib2 sqrtF t m ms,
    group_sphere_distrib2 sqrtF t m ms⟩

/-- 2-D twin of `scene_pointer_semantics` + `scene_shadow_rays`: the pointer-level run of `RayCollisions` on a 2-D scene
only adds `Ray` objects and reports the collisions of the scene's collider value, for every callback that only allocates —
in particular one that casts secondary rays at a scene. -/
theorem scene_pointer_semantics_2d (sqrtF : K → K) (onHit : List (Ray2 K) → List (Ray2 K))
    (hcb : ∀ st, ∃ e, onHit st = st ++ e) (s : Scene2 K) (addr : Nat) (st : List (Ray2 K)) (r : Ray2 K)
    (h : st[addr]? = some r) (sub : Scene2 K) (sec : Ray2 K) :
    (∃ e, s.run sqrtF onHit addr st = (st ++ e, (s.collider sqrtF).hits r)) ∧
      ∃ e, s.run sqrtF (shadowCallback2 sqrtF sub sec) addr st = (st ++ e, (s.collider sqrtF).hits r) :=
  ⟨Scene2.run_spec sqrtF onHit hcb s addr st r h,
    Scene2.run_spec sqrtF _ (shadowCallback_appends2 sqrtF sub sec) s addr st r h⟩

/-- non-vacuity (2-D): the scene of the 3-D example in the plane; recycled inner rays change the second member's answer. -/
example :
    let a : Collider2 ℚ := probeCollider2 ⟨-9, -9⟩ ⟨9, 9⟩ ⟨1, 0⟩ ⟨0, 0⟩ [⟨0, ⟨1, 0⟩, 1⟩]
    let b : Collider2 ℚ := probeCollider2 ⟨-9, -9⟩ ⟨9, 9⟩ ⟨1, 0⟩ ⟨0, 0⟩ [⟨0, ⟨1, 0⟩, 2⟩]
    let s : Scene2 ℚ := .xform (.translate ⟨5, 0⟩) (.pair (.xform (.translate ⟨1, 0⟩) (.leaf a)) (.leaf b))
    let r : Ray2 ℚ := ⟨⟨10, 0⟩, ⟨1, 0⟩⟩
    ((s.run (fun x => x) (fun st => st ++ [r]) 0 [r]).2).map Hit2.scale = [4, 5] ∧
      ((s.collider (fun x => x)).hits r).map Hit2.scale = [4, 5] ∧
      ((s.runPooled (fun x => x) 1 0 [r, r]).2).map Hit2.scale = [4, 4] := by
  decide +kernel

end M3d.C05
