import M3d.Lemmas.CodecSafe
import M3d.Lemmas.CodecPly
/-!
# C16 — decoders reject malformed input with an error instead of crashing

Property theorems only.  The decoders of `M3d/Model/Codec*.lean` are total Lean functions on
arbitrary `List UInt8` with every Go failure mode as a value, so "returns data or an error" holds of
the model by construction; that the real code never panics / hangs / over-allocates is what the
correspondence `drv_c16` ↔ `harness/cmd/c16` establishes on every truncation and single-field
corruption of the corpus.  What is proved here about the decoders (as repaired) is *why* that is so:
every loop consumes input or a declared count (the termination proofs Lean demanded are restated as
`*_progress`), allocations requested before the data that justifies them are bounded
(`*_alloc_linear`), indices are checked before use, reader errors are not dropped.
-/
namespace M3d.C16
open M3d.Codec

/-! ## progress -/

/-- Every line loop (`STLReader.readASCII`, `PLYReader.Read` ASCII + comment skipping, OFF vertex/face
loops, the CSV record loop): `bufio.Reader.ReadString('\n')` on non-empty input leaves strictly less input.
(This is the lemma the well-founded definitions of `stlAsciiLoop`, `readRowAscii`, `csvDecodeAux` use.) -/
theorem line_progress (bs line rest : Bytes) (found : Bool) (h : readLine bs = (line, rest, found))
    (hne : bs ≠ []) : rest.length < bs.length :=
  readLine_rest_lt bs line rest found h hne

/-- Binary STL: the record loop runs at most `declared count` times, and every record it returns was
backed by 50 bytes of input — a count of 2³²−1 in front of `k` records costs `k` iterations. -/
theorem stl_bin_progress (n : Nat) (bs : Bytes) (rs : List Rec) (h : stlReadBinRecs n bs = .ok rs) :
    50 * rs.length ≤ bs.length ∧ rs.length ≤ n :=
  stlReadBinRecs_size n bs rs h

/-- ASCII STL: every triangle returned consumed at least one line. -/
theorem stl_ascii_progress (pf32 : Bytes → Option UInt32) (bs : Bytes) (rs : List Rec)
    (h : stlAsciiLoop pf32 bs [0, 0, 0] [] [] = .ok rs) : rs.length ≤ bs.length := by
  have := stlAsciiLoop_count pf32 bs.length bs rfl _ _ _ rs h
  simpa using this

/-- Binary PLY rows: the remaining input never grows and a row of an element that has properties
consumes at least one byte (list elements are at least one byte each, so a declared list length can
only be honoured by input that is really there). -/
theorem ply_bin_row_progress {e : Endian} {ps : List PProp} {bs r : Bytes} {vs : List PVal} {a : Nat}
    (h : decodeBinary e ps bs = .ok (vs, r, a)) : r.length ≤ bs.length ∧ (ps ≠ [] → r.length < bs.length) :=
  ⟨(decodeBinary_consumes h).1, (decodeBinary_consumes h).2.2⟩

/-- ASCII PLY rows (comment lines included): a successful `Read` consumed at least one byte. -/
theorem ply_ascii_row_progress (ft : FloatText) (el : Element) (bs : Bytes) (vs : List PVal) (r : Bytes) (a : Nat)
    (h : readRowAscii ft el bs = .ok (vs, r, a)) : r.length < bs.length :=
  (readRowAscii_consumes ft el bs.length bs rfl vs r a h).1

/-- The row loop of the repaired `PLYReader` reads at most the declared number of rows of each
element — an element declared with count 0 (or a negative count) contributes none — so its measure
is (elements left, rows left in the current one), both structurally decreasing. -/
theorem ply_rows_bounded_by_declared (ft : FloatText) (f : Format) (idx : Nat) (el : Element) (k : Nat) (bs : Bytes) :
    (readElemRows ft f idx el k bs).1.rows.length ≤ k := by
  induction k generalizing bs with
  | zero => simp [readElemRows]
  | succ k ih =>
    unfold readElemRows
    cases hr : readRow ft f el bs with
    | error e => cases e <;> simp
    | ok q =>
      obtain ⟨vs, bs', a⟩ := q
      simp only
      have := ih bs'
      cases hk : readElemRows ft f idx el k bs' with
      | mk r out =>
        rw [hk] at this
        simp only at this
        simp only [ReadAll.cons, List.length_cons]
        omega

/-! ## allocation -/

/-- **alloc_linear (STL)**: ledger of `readSTL` ≤ 88·|input| + 4 688 + 8·65 536 bytes. -/
theorem stl_alloc_linear (bs : Bytes) : stlLedger bs ≤ 88 * bs.length + (4688 + 8 * stlMaxPrealloc) :=
  stlLedger_linear bs

/-- Before the repair the ledger was not linear: an 84-byte file declaring 2³²−1 triangles requested
more than 32 GiB.  (Found by the corruption sweep: site `c16:stl/crash`.) -/
example : stlLedgerUnrepaired (zeros 80 ++ [255, 255, 255, 255]) > 64 * 84 + 2 ^ 20 ∧
    stlLedger (zeros 80 ++ [255, 255, 255, 255]) ≤ 64 * 84 + 2 ^ 20 := by decide

/-- **alloc_linear (OFF)**: the pre-allocations from the header counts are bounded by a constant
(everything else grows with lines actually read). -/
theorem off_alloc_linear (bs : Bytes) : offLedger bs ≤ 4096 + 32 * offMaxPrealloc :=
  offLedger_bounded bs

/-- **alloc_linear (PLY rows)**: the list pre-allocations of one decoded row are at most 16 × the bytes
(binary) / tokens (ASCII) that row consumed. -/
theorem ply_row_alloc_linear {ft : FloatText} {f : Format} {el : Element} {bs r : Bytes} {vs : List PVal} {a : Nat}
    (h : readRow ft f el bs = .ok (vs, r, a)) : a + 16 * r.length ≤ 16 * bs.length :=
  (readRow_consumes h).2

/-- **alloc_linear (PLY file)**: ledger of `NewPLYReader` + `Read`… ≤ 18·|input| + 8 192 + 16·4 096. -/
theorem ply_alloc_linear (ft : FloatText) (bs : Bytes) :
    plyLedger ft bs ≤ 18 * bs.length + (8192 + 16 * plyMaxPrealloc) := by
  unfold plyLedger
  cases ho : plyOpen bs with
  | error e => simp only; omega
  | ok q =>
    obtain ⟨h, rest⟩ := q
    simp only
    have h1 := readElems_alloc ft h.format 0 h.elements rest
    have h2 : rest.length ≤ bs.length := by
      unfold plyOpen at ho
      cases hs : splitHeader bs with
      | none => simp [hs] at ho
      | some p =>
        obtain ⟨hd, r2⟩ := p
        simp only [hs] at ho
        cases hdh : decodeHeader hd with
        | none => simp [hdh] at ho
        | some hh =>
          simp only [hdh, Except.ok.injEq, Prod.mk.injEq] at ho
          obtain ⟨_, rfl⟩ := ho
          have aux : ∀ (b acc : Bytes) (x y : Bytes), splitHeaderAux b acc = some (x, y) → y.length ≤ b.length := by
            intro b
            induction b with
            | nil => intro acc x y h; simp [splitHeaderAux] at h
            | cons c cs ih =>
              intro acc x y h
              unfold splitHeaderAux at h
              split at h
              · simp only [Option.some.injEq, Prod.mk.injEq] at h
                obtain ⟨_, rfl⟩ := h
                simp
              · have := ih _ _ _ h
                simp; omega
          exact aux bs [] hd r2 hs
    omega

/-- Before the repair a list pre-allocated 16 bytes per *declared* entry: a 4-byte length of 2³²−1 is 64 GiB. -/
example : listAllocUnrepaired (2 ^ 32 - 1) > 2 ^ 35 ∧ 16 * min (2 ^ 32 - 1) plyMaxPrealloc = 2 ^ 16 := by decide

/-! ## indices and errors -/

/-- **index_checked (`readColorPLY`)**: every corner of every triangle returned is an entry of the vertex
table — the index was checked `0 ≤ i < len(vertices)` (the lower bound is part of the repair). -/
theorem ply_index_checked {ft : FloatText} {bs : Bytes} {r : ColorResult}
    (h : readColorPLY ft bs = .ok r) : ∀ t ∈ r.tris, ∀ v ∈ t, v ∈ r.verts :=
  readColorPLY_index_checked h

/-- the check itself: accepted index triples are within `[0, n)`. -/
theorem index_check_sound {n : Nat} {tris : List (List Int)} (h : indicesOK n tris = true) :
    ∀ t ∈ tris, ∀ v ∈ t, 0 ≤ v ∧ v < (n : Int) :=
  indicesOK_spec h

example : indicesOK 3 [[0, 1, -1]] = false ∧ indicesOK 3 [[0, 1, 3]] = false ∧ indicesOK 3 [[0, 1, 2]] = true := by
  decide

/-- **index_checked (OFF)**: every corner of every polygon is an entry of the vertex table. -/
theorem off_index_checked (verts : List V3) (n : Nat) (bs : Bytes) (polys : List (List V3))
    (h : offReadFaces verts n bs = some polys) : ∀ p ∈ polys, ∀ v ∈ p, v ∈ verts :=
  offReadFaces_index_checked verts n bs polys h

/-- **error_not_data**: when the row reader fails with anything other than `io.EOF`, `ReadColorPLY` returns
an error (before the repair the error was dropped and a nil element dereferenced). -/
theorem error_not_data {ft : FloatText} {bs rest : Bytes} {h : Header} {e : PErr}
    (ho : plyOpen bs = .ok (h, rest)) (he : (readElems ft h.format 0 h.elements rest).err = some e) :
    ∃ e', readColorPLY ft bs = .error e' :=
  readColorPLY_error_not_data ho he

/-- … and the generic reader loop itself stops at the first error: no rows are produced after it
(`readElemRows` returns what was read before the failure together with the error). -/
theorem reader_error_stops (ft : FloatText) (f : Format) (idx : Nat) (el : Element) (k : Nat) (bs : Bytes) (e : PErr)
    (he : e ≠ .eof) (h : readRow ft f el bs = .error e) :
    (readElemRows ft f idx el (k + 1) bs).1 = ⟨[], some e, 0⟩ := by
  unfold readElemRows
  rw [h]
  cases e <;> simp_all

end M3d.C16
