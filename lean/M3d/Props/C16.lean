import M3d.Lemmas.CodecSafe
import M3d.Lemmas.CodecPly
import M3d.Lemmas.CodecListAlloc
import M3d.Lemmas.CodecBlank
import M3d.Lemmas.CodecFaceAlloc
import M3d.Lemmas.CodecAssert
/-!
# C16 — decoders reject malformed input with an error instead of crashing

Property theorems only.  The decoders of `M3d/Model/Codec*.lean` are total Lean functions on
arbitrary `List UInt8` with every Go failure mode as a value, so "returns data or an error" holds of
the model by construction; that the real code never panics / hangs / over-allocates is what the
correspondence `drv_c16` ↔ `harness/cmd/c16` establishes on every truncation and single-field
corruption of the corpus.  What is proved here about the decoders (as repaired) is *why* that is so:
every loop consumes input or a declared count (the termination proofs Lean demanded are restated as
`*_progress`), allocations requested before the data that justifies them are bounded
(`*_alloc_linear`), indices are checked before use, reader errors are not dropped.
-/
namespace M3d.C16
open M3d.Codec

/-! ## progress -/

/-- Every line loop (`STLReader.readASCII`, `PLYReader.Read` ASCII + comment skipping, OFF vertex/face
loops, the CSV record loop): `bufio.Reader.ReadString('\n')` on non-empty input leaves strictly less input.
(This is the lemma the well-founded definitions of `stlAsciiLoop`, `readRowAscii`, `csvDecodeAux` use.) -/
theorem line_progress (bs line rest : Bytes) (found : Bool) (h : readLine bs = (line, rest, found))
    (hne : bs ≠ []) : rest.length < bs.length :=
  readLine_rest_lt bs line rest found h hne

/-- Binary STL: the record loop runs at most `declared count` times, and every record it returns was
backed by 50 bytes of input — a count of 2³²−1 in front of `k` records costs `k` iterations. -/
theorem stl_bin_progress (n : Nat) (bs : Bytes) (rs : List Rec) (h : stlReadBinRecs n bs = .ok rs) :
    50 * rs.length ≤ bs.length ∧ rs.length ≤ n :=
  stlReadBinRecs_size n bs rs h

/-- ASCII STL: every triangle returned consumed at least one line. -/
theorem stl_ascii_progress (pf32 : Bytes → Option UInt32) (bs : Bytes) (rs : List Rec)
    (h : stlAsciiLoop pf32 bs [0, 0, 0] [] [] = .ok rs) : rs.length ≤ bs.length := by
  have := stlAsciiLoop_count pf32 bs.length bs rfl _ _ _ rs h
  simpa using this

/-- Binary PLY rows: the remaining input never grows and a row of an element that has properties
consumes at least one byte (list elements are at least one byte each, so a declared list length can
only be honoured by input that is really there). -/
theorem ply_bin_row_progress {e : Endian} {ps : List PProp} {bs r : Bytes} {vs : List PVal} {a : Nat}
    (h : decodeBinary e ps bs = .ok (vs, r, a)) : r.length ≤ bs.length ∧ (ps ≠ [] → r.length < bs.length) :=
  ⟨(decodeBinary_consumes h).1, (decodeBinary_consumes h).2.2⟩

/-- ASCII PLY rows (comment lines included): a successful `Read` consumed at least one byte. -/
theorem ply_ascii_row_progress (ft : FloatText) (el : Element) (bs : Bytes) (vs : List PVal) (r : Bytes) (a : Nat)
    (h : readRowAscii ft el bs = .ok (vs, r, a)) : r.length < bs.length :=
  (readRowAscii_consumes ft el bs.length bs rfl vs r a h).1

/-- The row loop of the repaired `PLYReader` reads at most the declared number of rows of each
element — an element declared with count 0 (or a negative count) contributes none — so its measure
is (elements left, rows left in the current one), both structurally decreasing. -/
theorem ply_rows_bounded_by_declared (ft : FloatText) (f : Format) (idx : Nat) (el : Element) (k : Nat) (bs : Bytes) :
    (readElemRows ft f idx el k bs).1.rows.length ≤ k := by
  induction k generalizing bs with
  | zero => simp [readElemRows]
  | succ k ih =>
    unfold readElemRows
    cases hr : readRow ft f el bs with
    | error e => cases e <;> simp
    | ok q =>
      obtain ⟨vs, bs', a⟩ := q
      simp only
      have := ih bs'
      cases hk : readElemRows ft f idx el k bs' with
      | mk r out =>
        rw [hk] at this
        simp only at this
        simp only [ReadAll.cons, List.length_cons]
        omega

/-! ## allocation -/

/-- **alloc_linear (STL)**: ledger of `readSTL` ≤ 88·|input| + 4 688 + 8·65 536 bytes. -/
theorem stl_alloc_linear (bs : Bytes) : stlLedger bs ≤ 88 * bs.length + (4688 + 8 * stlMaxPrealloc) :=
  stlLedger_linear bs

/-- Before the repair the ledger was not linear: an 84-byte file declaring 2³²−1 triangles requested
more than 32 GiB.  (Found by the corruption sweep: site `c16:stl/crash`.) -/
example : stlLedgerUnrepaired (zeros 80 ++ [255, 255, 255, 255]) > 64 * 84 + 2 ^ 20 ∧
    stlLedger (zeros 80 ++ [255, 255, 255, 255]) ≤ 64 * 84 + 2 ^ 20 := by decide

/-- **alloc_linear (OFF)**: the pre-allocations from the header counts are bounded by a constant
(everything else grows with lines actually read). -/
theorem off_alloc_linear (bs : Bytes) : offLedger bs ≤ 4096 + 32 * offMaxPrealloc :=
  offLedger_bounded bs

/-- **alloc_linear (PLY rows)**: the list pre-allocations of one decoded row are at most 16 × the bytes
(binary) / tokens (ASCII) that row consumed. -/
theorem ply_row_alloc_linear {ft : FloatText} {f : Format} {el : Element} {bs r : Bytes} {vs : List PVal} {a : Nat}
    (h : readRow ft f el bs = .ok (vs, r, a)) : a + 16 * r.length ≤ 16 * bs.length :=
  (readRow_consumes h).2

/-- **alloc_linear (PLY file)**: ledger of `NewPLYReader` + `Read`… ≤ 18·|input| + 8 192 + 16·4 096. -/
theorem ply_alloc_linear (ft : FloatText) (bs : Bytes) :
    plyLedger ft bs ≤ 18 * bs.length + (8192 + 16 * plyMaxPrealloc) := by
  unfold plyLedger
  cases ho : plyOpen bs with
  | error e => simp only; omega
  | ok q =>
    obtain ⟨h, rest⟩ := q
    simp only
    have h1 := readElems_alloc ft h.format 0 h.elements rest
    have h2 : rest.length ≤ bs.length := by
      unfold plyOpen at ho
      cases hs : splitHeader bs with
      | none => simp [hs] at ho
      | some p =>
        obtain ⟨hd, r2⟩ := p
        simp only [hs] at ho
        cases hdh : decodeHeader hd with
        | none => simp [hdh] at ho
        | some hh =>
          simp only [hdh, Except.ok.injEq, Prod.mk.injEq] at ho
          obtain ⟨_, rfl⟩ := ho
          have aux : ∀ (b acc : Bytes) (x y : Bytes), splitHeaderAux b acc = some (x, y) → y.length ≤ b.length := by
            intro b
            induction b with
            | nil => intro acc x y h; simp [splitHeaderAux] at h
            | cons c cs ih =>
              intro acc x y h
              unfold splitHeaderAux at h
              split at h
              · simp only [Option.some.injEq, Prod.mk.injEq] at h
                obtain ⟨_, rfl⟩ := h
                simp
              · have := ih _ _ _ h
                simp; omega
          exact aux bs [] hd r2 hs
    omega

/-- **alloc_linear (faces of an OFF file through the triangulator)**: the polygon storage `Triangulate`
keeps alive for a face is at most 112 bytes per corner, and a face line has fewer corners than bytes — so
at most 112 × the length of the face line (repair 5aacb9a: one working copy, ears cut in a loop). -/
theorem off_face_alloc_linear (ln : Bytes) : triLive (faceCorners ln) ≤ 112 * ln.length :=
  Nat.le_trans (triLive_le _) (Nat.mul_le_mul_left _ (faceCorners_lt ln))

/-- Before the repair the storage alive at the deepest level of the recursion was quadratic in the number of
corners (a copy of the polygon per ear, one recursion level per corner) … -/
theorem off_face_alloc_unrepaired_quadratic (n : Nat) : 16 * (n * n) ≤ triLiveUnrepaired n + 256 :=
  triLiveUnrepaired_ge n

/-- … e.g. the valid 9 533-byte OFF file with one convex 600-corner face that the big-polygon files of the
correspondence found (site `c16:offm/over-allocation`: 11.8 MB measured against a bound of 1.66 MB). -/
example : triLiveUnrepaired 600 > 64 * 9533 + 2 ^ 20 ∧ triLive 600 ≤ 64 * 9533 + 2 ^ 20 := by
  have := triLiveUnrepaired_ge 600
  refine ⟨by omega, by unfold triLive; omega⟩

/-- Before the repair a list pre-allocated 16 bytes per *declared* entry: a 4-byte length of 2³²−1 is 64 GiB. -/
example : listAllocUnrepaired (2 ^ 32 - 1) > 2 ^ 35 ∧ 16 * min (2 ^ 32 - 1) plyMaxPrealloc = 2 ^ 16 := by decide

/-- Before repair 910e191 the header reader alone was quadratic: the valid 5 505-byte file of the corpus
with a 5 447-byte header (60 comment lines) cost 14.8 MB of string copies against a bound of 1.4 MB; an
87 KB header cost 3.8 GB.  (Found by the long-header files: sites `c16:plyg/over-allocation`, `c16:plyc/…`.) -/
example : plyHeaderAllocUnrepaired 5447 > 64 * 5505 + 2 ^ 20 ∧ plyHeaderAllocUnrepaired 87000 > 3 * 2 ^ 30 ∧
    2 * 5505 ≤ 64 * 5505 + 2 ^ 20 := by decide

/-! ## allocation: the list loop at every growth step

`decodeInstance` makes `subValues` with capacity `min(declared, 4096)` and lets `append` grow it.  The
declared length is untrusted, so what matters is that **no** request — not only the first `make` — is sized
by it.  `g` is Go's `append` (capacity requested when a full slice of that length is appended to); the
theorems hold for every `g` with `g l ≤ 2·l + c` and `5·l ≤ 4·g l`, which the driver checks on the oracle
table of the real `append` it is given (`policyOK`), and which `runtime.growslice`'s rule satisfies
(`goNextCap`, example below).  The seeded change C16-3 (re-allocate with `cap = declared` once the
pre-allocation is full) is the policy `growToDeclared`, which does not satisfy them. -/

/-- **every growth step**: each capacity requested for a list property — whatever length the file
declares — was requested after `l ≤ k` entries had really been read and is at most the bounded
pre-allocation (`l = 0`: `min(declared, 4096)`) or `2·l + c`. -/
theorem ply_list_request_bounded (g : Nat → Nat) (c : Nat) (hub : ∀ l, g l ≤ 2 * l + c) (declared k : Nat) :
    ∀ r ∈ listRequests g declared k, r.1 ≤ k ∧ r.2 ≤ max (min declared plyMaxPrealloc) (2 * r.1 + c) :=
  listRequests_mem g c hub declared k

/-- **alloc_linear (one list, all generations of the slice)**: the slots requested for a list property
of which `k` entries were read are at most `min(declared, 4096) + 10·k + 5·c`, for every declared length. -/
theorem ply_list_alloc_linear (g : Nat → Nat) (c : Nat) (hub : ∀ l, g l ≤ 2 * l + c)
    (hamort : ∀ l, 5 * l ≤ 4 * g l) (declared k : Nat) :
    listSlots g declared k ≤ min declared plyMaxPrealloc + 10 * k + 5 * c :=
  listSlots_linear g c hub hamort declared k

/-- … in bytes of input, binary files: whatever `declared` says and wherever the input ends, the bytes
requested for the list (16 per slot) are at most `16·4096 + 160·|input| + 80·c`; and every single request
was preceded by `l · size` bytes of entries. -/
theorem ply_list_alloc_linear_in_input (g : Nat → Nat) (c : Nat) (hub : ∀ l, g l ≤ 2 * l + c)
    (hamort : ∀ l, 5 * l ≤ 4 * g l) (e : Endian) (kind : Kind) (declared : Nat) (bs : Bytes) :
    16 * listSlots g declared (scalarsRead e kind declared bs) ≤ 16 * plyMaxPrealloc + 160 * bs.length + 80 * c ∧
    ∀ r ∈ listRequests g declared (scalarsRead e kind declared bs),
      r.1 * kind.size ≤ bs.length ∧ r.2 ≤ plyMaxPrealloc + 2 * bs.length + c := by
  have hb := scalarsRead_bytes e kind declared bs
  have hp := Kind.size_pos' kind
  have hm : scalarsRead e kind declared bs ≤ scalarsRead e kind declared bs * kind.size :=
    Nat.le_mul_of_pos_right _ hp
  refine ⟨?_, ?_⟩
  · have := listSlots_linear g c hub hamort declared (scalarsRead e kind declared bs)
    have := listCap0_le declared
    omega
  · intro r hr
    have h1 := listRequests_mem g c hub declared _ r hr
    have h0 := listCap0_le declared
    have h2 : r.1 * kind.size ≤ scalarsRead e kind declared bs * kind.size := Nat.mul_le_mul_right _ h1.1
    have h3 : r.1 ≤ r.1 * kind.size := Nat.le_mul_of_pos_right _ hp
    refine ⟨by omega, ?_⟩
    have := h1.2
    omega

/-- `scalarsRead` is the number of entries the model's list loop consumed: all of them when it succeeds. -/
theorem ply_list_read_all {e : Endian} {kind : Kind} {n : Nat} {bs r : Bytes} {xs : List Scalar}
    (h : readScalarsBin e kind n bs = .ok (xs, r)) : scalarsRead e kind n bs = n :=
  scalarsRead_of_ok h

/-- ASCII rows: the entries read are tokens of the line, so the same bound holds in tokens. -/
theorem ply_list_alloc_linear_tokens (g : Nat → Nat) (c : Nat) (hub : ∀ l, g l ≤ 2 * l + c)
    (hamort : ∀ l, 5 * l ≤ 4 * g l) (ft : FloatText) (kind : Kind) (declared : Nat) (toks : List Bytes) :
    listSlots g declared (tokensRead ft kind declared toks) ≤ plyMaxPrealloc + 10 * toks.length + 5 * c := by
  have := listSlots_linear g c hub hamort declared (tokensRead ft kind declared toks)
  have := tokensRead_le ft kind declared toks
  have := listCap0_le declared
  omega

/-- **alloc_linear (a binary row, wherever it fails)**: all slots requested while `DecodeInstanceBinary`
works on a row — decoded or not, any number of list properties, any declared lengths — are at most one
bounded pre-allocation + 16 per input byte (`c ≤ 4096`). -/
theorem ply_row_alloc_every_step (g : Nat → Nat) (c : Nat) (hc : c ≤ plyMaxPrealloc) (hub : ∀ l, g l ≤ 2 * l + c)
    (hamort : ∀ l, 5 * l ≤ 4 * g l) (e : Endian) (ps : List PProp) (bs : Bytes) :
    rowSlotsBin g e ps bs ≤ plyMaxPrealloc + 16 * bs.length :=
  rowSlotsBin_le g c hc hub hamort e ps bs

/-- **what the `plycap` correspondence rests on**: the driver is given the requests the REAL list loop
made (observed between consecutive values through the hook `VerifDecodeInstance`) and answers `ok` exactly
when they pass `requestsOK`; such requests total at most `min(declared, 4096) + 10·k + 5·c` slots — a
request sized by the declared length does not pass. -/
theorem ply_requests_spec_linear (c declared k : Nat) (T : List (Nat × Nat)) (h : requestsOK c declared k T = true) :
    sumSlots T ≤ min declared plyMaxPrealloc + 10 * k + 5 * c :=
  requestsOK_sum c declared k T h

/-- … and the specification is the one the modelled loop meets, for every declared length and every
number of entries present, under any growth policy with `l < g l ≤ 2·l + c`, `5·l ≤ 4·g l`. -/
theorem ply_list_model_meets_spec (g : Nat → Nat) (c : Nat) (hlt : ∀ l, l < g l) (hub : ∀ l, g l ≤ 2 * l + c)
    (hamort : ∀ l, 5 * l ≤ 4 * g l) (declared k : Nat) :
    requestsOK c declared k (listRequests g declared k) = true :=
  listRequests_requestsOK g c hlt hub hamort declared k

/-- non-vacuity: Go's rule (`nextslicecap`: double below 256, then `l + (l+768)/4`) satisfies both hypotheses
with `c = 512` … -/
example : (∀ l, goNextCap l ≤ 2 * l + goAppendSlack) ∧ (∀ l, 5 * l ≤ 4 * goNextCap l) ∧ (∀ l, l < goNextCap l) := by
  refine ⟨?_, ?_, ?_⟩ <;> intro l <;> unfold goNextCap <;> (try unfold goAppendSlack) <;> split <;> omega

/-- … and the requests observed on this toolchain (list declared 6 000 000, 7681 entries present) pass the
driver's check, as does a list that fits its pre-allocation; the seeded change's requests do not. -/
example : requestsOK goAppendSlack 6000000 7681 [(0, 4096), (4096, 5632), (5632, 7680), (7680, 10240)] = true ∧
    requestsOK goAppendSlack 5 3 [(0, 5)] = true ∧
    requestsOK goAppendSlack 6000000 4097 [(0, 4096), (4096, 6000000)] = false ∧
    requestsOK goAppendSlack 6000000 0 [(0, 6000000)] = false := by decide

/-- The seeded change C16-3 is outside the policy: with `declared = 6 000 000` the request made when the
4096-entry pre-allocation is full is `6 000 000 > 2·4096 + 512`; 4097 one-byte entries then cost
more than 6 000 000 slots (96 MB), while under Go's rule they cost 4096 + 5312. -/
example : ¬ (∀ l, growToDeclared 6000000 l ≤ 2 * l + goAppendSlack) := by
  intro h
  have := h 4096
  simp [growToDeclared, goAppendSlack] at this

example : listRequests (growToDeclared 6000000) 6000000 4097 = [(0, 4096), (4096, 6000000)] ∧
    listRequests goNextCap 6000000 4097 = [(0, 4096), (4096, 5312)] := by decide +kernel

/-! ## rows that hold no token (white space only)

`PLYReader.Read` (ASCII) evaluates `strings.Fields(line)[0]` under the guard `len(line) > 0`.  That index is
in range only because `line` went through `strings.TrimSpace`: `Fields` is empty exactly on white-space-only
strings.  `rowHead keep` is the head of `Read` with the index as an explicit `panic` value and the
trimming function as the parameter `keep`; `rowHeadSpec` is the total branch structure `readRowAscii` has.
The seeded change C16-8 (`keep = strings.TrimRight(·, "\r\n")`) is outside the hypotheses. -/

/-- `strings.Fields(s)` is empty exactly when `strings.TrimSpace(s) == ""` (all Unicode white space
included: the model's `spaceWidth`). -/
theorem fields_empty_iff_blank (s : Bytes) : fields s = [] ↔ allSpace s = true :=
  fields_eq_nil_iff s

/-- **never panics (row head)**: for every function `keep` applied to the raw line that preserves the
fields and returns the empty string exactly on white-space-only lines (`TrimSpace` does), the index
`Fields(line)[0]` is never evaluated out of range, and the head of `Read` is the total one of the model:
`io.ErrUnexpectedEOF` at a blank end of input, a skipped comment row, or the tokens handed to
`DecodeInstanceString`. -/
theorem ply_row_head_no_panic (keep : Bytes → Bytes) (hfields : ∀ r, fields (keep r) = fields r)
    (hempty : ∀ r, (keep r).isEmpty = allSpace r) (raw : Bytes) (found : Bool) :
    rowHead keep raw found ≠ .panic ∧ rowHead keep raw found = rowHeadSpec raw found := by
  have h := rowHead_eq_spec keep hfields hempty raw found
  refine ⟨?_, h⟩
  rw [h]
  unfold rowHeadSpec
  split
  · simp
  · split <;> simp

/-- **the row reader the correspondence runs is that head**: `readRowAscii` (what `drv_c16` evaluates for the
kinds `plyg`/`plyc`) is `rowAfterHead` applied to the explicit-index head of the Go code, for every
`TrimSpace`-like `keep` — so the model's answer on a row is the answer of code in which `Fields(line)[0]`
was in range, and an implementation that panics there differs from it. -/
theorem ply_ascii_row_is_head_then_decode (keep : Bytes → Bytes) (hfields : ∀ r, fields (keep r) = fields r)
    (hempty : ∀ r, (keep r).isEmpty = allSpace r) (ft : FloatText) (el : Element) (bs ln rest : Bytes) (found : Bool)
    (h : readLine bs = (ln, rest, found)) :
    readRowAscii ft el bs = rowAfterHead ft el rest found (rowHead keep ln found) := by
  rw [rowHead_eq_spec keep hfields hempty]
  exact readRowAscii_head ft el bs ln rest found h

/-- non-vacuity: the left half of `TrimSpace` (white space in front of the first field removed) satisfies
both hypotheses … -/
example : (∀ r, fields (trimLeft r) = fields r) ∧ (∀ r, (trimLeft r).isEmpty = allSpace r) :=
  ⟨fields_trimLeft, trimLeft_isEmpty⟩

/-- … and stripping only the line terminator (seeded change C16-8) does not: on the rows `"  \n"`,
`"\t\r\n"` and an unterminated `"   "` the index is out of range, where the trimmed head is a data row
without tokens / the unexpected-EOF error; an ordinary row, an indented one and a comment row are the same under both. -/
example : rowHead trimRightCRLF [32, 32, 10] true = .panic ∧ rowHead trimRightCRLF [9, 13, 10] true = .panic ∧
    rowHead trimRightCRLF [32, 32, 32] false = .panic ∧
    rowHead trimLeft [32, 32, 10] true = .data [] ∧ rowHead trimLeft [32, 32, 32] false = .eofErr ∧
    rowHead trimRightCRLF [10] true = .data [] ∧
    rowHead trimRightCRLF [32, 49, 32, 50, 10] true = .data [[49], [50]] ∧
    rowHead trimLeft [32, 49, 32, 50, 10] true = .data [[49], [50]] ∧
    rowHead trimRightCRLF (ascii "comment x\n") true = .comment := by decide

/-- **a blank row is an error, not data and not a crash**: a row that holds no token — empty, blanks,
tabs, `\r`, any Unicode white space — of an element that has properties makes `Read` return an error
(`DecodeInstanceString`'s "not enough tokens" when the line was terminated, `io.ErrUnexpectedEOF` when the
input ended in it); nothing is consumed twice and no row is produced.  This is the answer the `plyg`/`plyc`
correspondence expects on the white-space mutations of the corpus. -/
theorem ply_ascii_blank_row_rejected (ft : FloatText) (el : Element) (bs ln rest : Bytes) (found : Bool)
    (h : readLine bs = (ln, rest, found)) (hb : allSpace ln = true) (hp : el.props ≠ []) :
    readRowAscii ft el bs = .error (if found then .bad else .unexpectedEOF) :=
  readRowAscii_blank ft el bs ln rest found h hb hp

/-- non-vacuity: `"  \n7\n"` and an unterminated `"\t "` in front of an element with one `uchar` property. -/
example : allSpace [32, 32, 10] = true ∧ readLine [32, 32, 10, 55, 10] = ([32, 32, 10], [55, 10], true) ∧
    allSpace [9, 32] = true ∧ readLine [9, 32] = ([9, 32], [], false) := by decide

/-- **blank rows, OFF**: a vertex row or a face row that holds no token is an error (`len(parts) != 3`,
`len(parts) == 0` are tested before any `parts[i]`), whatever white space it is made of. -/
theorem off_blank_row_rejected (pf64 : Bytes → Option UInt64) (verts : List V3) (n : Nat) (bs ln rest : Bytes)
    (found : Bool) (h : readLine bs = (ln, rest, found)) (hb : allSpace ln = true) :
    offReadVerts pf64 (n + 1) bs = none ∧ offReadFaces verts (n + 1) bs = none :=
  ⟨offReadVerts_blank pf64 n bs ln rest found h hb, offReadFaces_blank verts n bs ln rest found h hb⟩

/-- **blank lines, ASCII STL**: a terminated line that holds no token is skipped — and consumed, so the loop
goes on with strictly less input — and input that ends in white space (no `endsolid`) is
`io.ErrUnexpectedEOF`; `tokens[0]` is only evaluated after `len(tokens) == 0` was excluded. -/
theorem stl_ascii_blank_line_skipped (pf32 : Bytes → Option UInt32) (bs ln rest : Bytes) (normal verts : List UInt32)
    (acc : List Rec) (found : Bool) (h : readLine bs = (ln, rest, found)) (hb : allSpace ln = true) :
    stlAsciiLoop pf32 bs normal verts acc =
      (if found then stlAsciiLoop pf32 rest normal verts acc else .error .unexpectedEOF) ∧
    (found = true → rest.length < bs.length) := by
  refine ⟨?_, ?_⟩
  · cases found with
    | true => simpa using stlAsciiLoop_blank pf32 bs ln rest normal verts acc h hb
    | false => simpa using stlAsciiLoop_blank_eof pf32 bs ln rest normal verts acc h hb
  · intro hf
    subst hf
    exact readLine_rest_lt bs ln rest true h (readLine_found_ne_nil bs ln rest h)

/-! ## header validation before trusting types: the assertions of `ReadColorPLY`

After its header loop `readColorPLY` trusts the header: vertex values are type-asserted without a check
(`value.(fileformats.PLYValueUint8)`, `value.(fileformats.PLYValueFloat32)`), `values[0]` of a face row is
asserted to be a list with a `uint8` length and `int32` entries `Values[0..2]`, and the last loop indexes the
vertex table.  `readColorPLYGo` (M3d/Model/CodecAssert.lean) is the decoder with each of these as an explicit
`panic` outcome and the header tests as parameters.  What makes the assertions hold is (a) the reader hands
back rows of the shape the header declares and (b) `IsStandardVertex` / `IsStandardFace` accept only the
shapes the loop asserts.  The seeded change C16-10 (the `LenType` half of `IsStandardVertex` lost) breaks (b). -/

/-- **(a) rows have the declared shape**: every row `PLYReader.Read` returns (any format, comment rows
skipped) has one value per property of its element — a scalar of the declared type, or a list whose length
value has the declared length type, whose entries have the declared type and are exactly as many as the
length says. -/
theorem ply_row_typed {ft : FloatText} {f : Format} {el : Element} {bs r : Bytes} {vs : List PVal} {a : Nat}
    (h : readRow ft f el bs = .ok (vs, r, a)) : rowTyped el.props vs = true :=
  readRow_typed h

/-- … for the whole stream: the row tagged `i` is a row of the `i`-th element of the header. -/
theorem ply_rows_typed (ft : FloatText) (f : Format) (els : List Element) (bs : Bytes) :
    ∀ q ∈ (readElems ft f 0 els bs).rows, ∃ el, els[q.1]? = some el ∧ rowTyped el.props q.2 = true := by
  intro q hq
  obtain ⟨_, el, hel, ht⟩ := readElems_typed ft f els 0 bs q hq
  exact ⟨el, by simpa using hel, ht⟩

/-- **(b) `IsStandardVertex` accepts scalars only**: every property of an accepted `vertex` element is a
*scalar* (no length type) whose type is the one the row loop asserts for its name (`float` for x/y/z, `uchar`
for red/green/blue). -/
theorem ply_standard_vertex_scalar {el : Element} (h : isStandardVertex el = true) :
    ∀ p ∈ el.props, ∃ k, stdVertexKind p.name = some k ∧ p.lenType = none ∧ p.elemType.kind = k :=
  isStandardVertex_prop h

/-- **the row loop never fails an assertion**: on rows of the declared shape of a header whose `vertex`
elements pass `IsStandardVertex` and whose `face` elements pass `IsStandardFace`, the loop with explicit
assertions (`values[0]`, `.(PLYValueList)`, `.Length.(PLYValueUint8)`, `.Values[0..2].(PLYValueInt32)`,
`Properties[i]`, `.(PLYValueFloat32)`, `.(PLYValueUint8)`) does not panic and computes `collectRows`. -/
theorem ply_color_rows_no_panic (els : List Element)
    (hv : ∀ el ∈ els, el.name = ascii "vertex" → isStandardVertex el = true)
    (hf : ∀ el ∈ els, el.name = ascii "face" → isStandardFace el = true)
    (rows : List (Nat × List PVal))
    (hr : ∀ q ∈ rows, ∃ el, els[q.1]? = some el ∧ rowTyped el.props q.2 = true) (m : ColorMesh) :
    collectRowsGo els rows m ≠ .panic ∧ collectRowsGo els rows m = .ret (collectRows els rows m) := by
  have h := collectRowsGo_eq els hv hf rows hr m
  exact ⟨by rw [h]; simp, h⟩

/-- **`ReadColorPLY` never panics on a failed type assertion or a vertex index**: for EVERY byte string the
decoder with all its assertions and indices explicit returns exactly what the total model `readColorPLY`
returns (data or an error) — the answer `drv_c16` gives for the kind `plyc`, so an implementation that panics
on some file differs from it there. -/
theorem ply_color_assertions_hold (ft : FloatText) (bs : Bytes) :
    readColorPLYGo isStandardVertex isStandardFace ft bs = .ret (readColorPLY ft bs) ∧
    readColorPLYGo isStandardVertex isStandardFace ft bs ≠ .panic := by
  have h := readColorPLYGo_eq ft bs
  exact ⟨h, by rw [h]; simp⟩

/-- the final loop alone: after the bound check `v < 0 || v >= len(vertices)` the index `vertices[v]` is in
range, for any vertex table and index triples. -/
theorem ply_vertex_index_no_panic {β : Type} (verts : List β) (d : β) (tris : List (List Int)) :
    buildTrisGo verts tris ≠ .panic := by
  rw [buildTrisGo_eq verts d tris]; simp

/-- `listRedVertex` — a `vertex` element with the six standard names and element types whose `red` is declared
`property list uchar uchar red` (seeded change C16-10's failing header) — is rejected by `IsStandardVertex` and accepted by the test that only compares element types; a row of
the declared shape (the list holds one entry) then fails `value.(PLYValueUint8)`: the hypothesis `hv` of
`ply_color_rows_no_panic` is what the seeded change gives up. -/
example : isStandardVertex listRedVertex = false ∧ isStandardVertexElemOnly listRedVertex = true ∧
    rowTyped listRedVertex.props
      [.one ⟨.f32, 0⟩, .one ⟨.f32, 0⟩, .one ⟨.f32, 0⟩, .list ⟨.u8, 1⟩ [⟨.u8, 7⟩], .one ⟨.u8, 2⟩, .one ⟨.u8, 3⟩] = true ∧
    (match collectRowsGo [listRedVertex, faceElement 0]
      [(0, [.one ⟨.f32, 0⟩, .one ⟨.f32, 0⟩, .one ⟨.f32, 0⟩, .list ⟨.u8, 1⟩ [⟨.u8, 7⟩], .one ⟨.u8, 2⟩, .one ⟨.u8, 3⟩])]
      ⟨[], [], []⟩ with | .panic => true | .ret _ => false) = true := by decide

/-- The whole decoder on the 246-byte ASCII file with that header and the row `0 0 0 1 7 2 3`: with the
repository's `IsStandardVertex` an error ("unexpected vertex element"), with the element-type-only test a panic
(site `c16:plyc/panic`: interface conversion, PLYValue is PLYValueList, not PLYValueUint8). -/
example :
    let ft0 : FloatText := ⟨fun _ => [], fun _ => [], fun _ => some 0, fun _ => some 0⟩
    let file := ascii ("ply\nformat ascii 1.0\nelement vertex 1\nproperty float x\nproperty float y\nproperty float z\n" ++
      "property list uchar uchar red\nproperty uchar green\nproperty uchar blue\nelement face 0\n" ++
      "property list uchar int vertex_index\nend_header\n0 0 0 1 7 2 3\n")
    (match readColorPLYGo isStandardVertexElemOnly isStandardFace ft0 file with | .panic => true | .ret _ => false) = true ∧
    (match readColorPLYGo isStandardVertex isStandardFace ft0 file with | .ret (.error _) => true | _ => false) = true := by
  decide +kernel

/-- `IsStandardFace` needs both of its type tests as well: a length type other than `uint8` fails
`val.Length.(PLYValueUint8)`, an entry type other than `int32` fails `val.Values[0].(PLYValueInt32)`, a scalar
`vertex_index` fails `values[0].(PLYValueList)`. -/
example : faceRowGo [.list ⟨.u16, 3⟩ [⟨.i32, 0⟩, ⟨.i32, 1⟩, ⟨.i32, 2⟩]] = .panic ∧
    faceRowGo [.list ⟨.u8, 3⟩ [⟨.u32, 0⟩, ⟨.u32, 1⟩, ⟨.u32, 2⟩]] = .panic ∧
    faceRowGo [.one ⟨.i32, 0⟩] = .panic ∧
    faceRowGo [.list ⟨.u8, 3⟩ [⟨.i32, 0⟩, ⟨.i32, 1⟩, ⟨.i32, 2⟩]] = .ret (some [0, 1, 2]) ∧
    faceRowGo [.list ⟨.u8, 4⟩ [⟨.i32, 0⟩, ⟨.i32, 1⟩, ⟨.i32, 2⟩, ⟨.i32, 3⟩]] = .ret none := by decide

/-! ## indices and errors -/

/-- **index_checked (`readColorPLY`)**: every corner of every triangle returned is an entry of the vertex
table — the index was checked `0 ≤ i < len(vertices)` (the lower bound is part of the repair). -/
theorem ply_index_checked {ft : FloatText} {bs : Bytes} {r : ColorResult}
    (h : readColorPLY ft bs = .ok r) : ∀ t ∈ r.tris, ∀ v ∈ t, v ∈ r.verts :=
  readColorPLY_index_checked h

/-- the check itself: accepted index triples are within `[0, n)`. -/
theorem index_check_sound {n : Nat} {tris : List (List Int)} (h : indicesOK n tris = true) :
    ∀ t ∈ tris, ∀ v ∈ t, 0 ≤ v ∧ v < (n : Int) :=
  indicesOK_spec h

example : indicesOK 3 [[0, 1, -1]] = false ∧ indicesOK 3 [[0, 1, 3]] = false ∧ indicesOK 3 [[0, 1, 2]] = true := by
  decide

/-- **index_checked (OFF)**: every corner of every polygon is an entry of the vertex table. -/
theorem off_index_checked (verts : List V3) (n : Nat) (bs : Bytes) (polys : List (List V3))
    (h : offReadFaces verts n bs = some polys) : ∀ p ∈ polys, ∀ v ∈ p, v ∈ verts :=
  offReadFaces_index_checked verts n bs polys h

/-- **`vertices[vertexIndex]` never panics (ASCII STL)**: with the test `vertexIndex == 3` in front of the store,
the facet loop of `STLReader.readASCII` with the array index and the slice expression of `parseSTLVector`
(`line[len(line)-3:]`) explicit never panics and is `stlAsciiLoop` (what `drv_c16` evaluates for `stl`/`stlr`), for
every input — the facet being assembled holds 0..3 whole vertices at every step. -/
theorem stl_ascii_vertex_index_no_panic (pf32 : Bytes → Option UInt32) (bs : Bytes) :
    stlAsciiLoopGo true pf32 bs [0, 0, 0] [] [] = .ret (stlAsciiLoop pf32 bs [0, 0, 0] [] []) ∧
    stlAsciiLoopGo true pf32 bs [0, 0, 0] [] [] ≠ .panic := by
  have h := stlAsciiLoopGo_eq pf32 bs.length bs rfl [0, 0, 0] [] [] (by simp) (by simp)
  exact ⟨h, by rw [h]; simp⟩

/-- Without that test (seeded change C16-1) a facet with a fourth `vertex` line stores into `vertices[3]`. -/
example :
    let pf : Bytes → Option UInt32 := fun _ => some 0
    let body := ascii "facet normal 0 0 0\nouter loop\nvertex 0 0 0\nvertex 0 0 0\nvertex 0 0 0\nvertex 0 0 0\nendloop\n"
    (match stlAsciiLoopGo false pf body [0, 0, 0] [] [] with | .panic => true | .ret _ => false) = true ∧
    (match stlAsciiLoopGo true pf body [0, 0, 0] [] [] with | .ret (.error _) => true | _ => false) = true := by
  decide +kernel

/-- **the OFF vertex table is complete**: `readVertices` stores exactly the declared number of vertices —
every one of the `numVerts` iterations appends a vertex or fails — so `len(o.vertices) = o.numVerts` whenever a
face is read. -/
theorem off_vertex_table_complete (pf64 : Bytes → Option UInt64) (n : Nat) (bs : Bytes) (vs : List V3) (r : Bytes)
    (h : offReadVerts pf64 n bs = some (vs, r)) : vs.length = n :=
  offReadVerts_length pf64 n bs vs r h

/-- **`o.vertices[idx]` never panics**: with the index compared against `len(o.vertices)`, the corner of a face
line with the slice index explicit is the total corner function `offReadFaces` (what `drv_c16` evaluates for
`off`/`offm`) uses, for every vertex table and every token. -/
theorem off_face_index_no_panic (verts : List V3) (tok : Bytes) :
    offCornerGo verts verts.length tok ≠ .panic ∧
    offCornerGo verts verts.length tok =
      .ret ((parseIntN 64 tok).bind fun i => if 0 ≤ i ∧ i < (verts.length : Int) then verts[i.toNat]? else none) := by
  have h := offCornerGo_eq verts tok
  exact ⟨by rw [h]; simp, h⟩

/-- Seeded change C16-11 needs both of its halves: a vertex loop that skips blank / `#` lines but counts them
leaves the table shorter than declared (`"0 0 0\n#\n1 0 0\n"` declared as 3 vertices gives 2), and an index
compared against the declared count then reads past it; with the complete table of `off_vertex_table_complete`
either bound is safe, which is why each half looks fine alone. -/
example :
    let pf : Bytes → Option UInt64 := fun t => if t = ascii "1" then some 1 else some 0
    let body := ascii "0 0 0\n#\n1 0 0\n3 0 1 2\n"
    (offReadVertsSkipping pf 3 body).map (fun p => p.1.length) = some 2 ∧
    offReadVerts pf 3 body = none ∧
    offCornerGo [(0, 0, 0), (1, 0, 0)] 3 (ascii "2") = .panic ∧
    offCornerGo [(0, 0, 0), (1, 0, 0)] 2 (ascii "2") = .ret none ∧
    offCornerGo [(0, 0, 0), (1, 0, 0)] 2 (ascii "1") = .ret (some (1, 0, 0)) := by decide +kernel

/-! ## the clamp of a pre-allocation must not wrap -/

/-- **`readSTL` pre-allocates at most 65 536 triangle pointers**, whatever the 32-bit count says. -/
theorem stl_prealloc_clamped (n : Nat) : 8 * stlPrealloc n ≤ 8 * stlMaxPrealloc := by
  unfold stlPrealloc; omega

/-- A clamp "in bytes of file data" (seeded change C16-12) is as good — in unbounded arithmetic … -/
theorem stl_prealloc_bytes_clamped (n : Nat) : stlPreallocBytes n ≤ 4 * 2 ^ 20 / 50 := by
  unfold stlPreallocBytes; split <;> omega

/-- … but computed as a `uint32` product it lets through every count just above a multiple of 2³²/50: the 49
counts `⌈j·2³²/50⌉` (85 899 346, 171 798 692, …) and 2³¹ are returned unclamped, 2³²−1 and 2³⁰ are clamped.
(Site `c16:stl/over-allocation`: 687 MB for an 84-byte file.) -/
example : ((List.range 49).all fun j => stlPreallocWrapped (((j + 1) * 2 ^ 32 + 49) / 50) = ((j + 1) * 2 ^ 32 + 49) / 50) = true ∧
    stlPreallocWrapped 85899346 = 85899346 ∧ stlPreallocWrapped 85983231 = 85983231 ∧
    stlPreallocWrapped (2 ^ 31) = 2 ^ 31 ∧ stlPreallocWrapped (2 ^ 32 - 1) = 83886 ∧ stlPreallocWrapped (2 ^ 30) = 83886 ∧
    stlPrealloc 85899346 = 65536 := by decide +kernel

/-- **asking again after the end**: once no declared row / face / record is left the readers answer `io.EOF`
(no rows, no error) *whatever bytes remain* — so a caller that calls `Read` / `ReadFace` / `ReadTriangle` again
after `io.EOF` gets `io.EOF` again, which is what the kinds `plyg`, `off`, `stlr` demand of the real readers
(`eof-not-sticky` otherwise).  (The ASCII STL reader's flag `doneNonBinary` has no counterpart in the stateless
model; it is covered by the correspondence only.) -/
theorem readers_eof_sticky (ft : FloatText) (f : Format) (idx : Nat) (verts : List V3) (bs : Bytes) :
    readElems ft f idx [] bs = ⟨[], none, 0⟩ ∧ offReadFaces verts 0 bs = some [] ∧ stlReadBinRecs 0 bs = .ok [] := by
  refine ⟨?_, ?_, ?_⟩
  · simp [readElems]
  · simp [offReadFaces]
  · simp [stlReadBinRecs]

/-- **error_not_data**: when the row reader fails with anything other than `io.EOF`, `ReadColorPLY` returns
an error (before the repair the error was dropped and a nil element dereferenced). -/
theorem error_not_data {ft : FloatText} {bs rest : Bytes} {h : Header} {e : PErr}
    (ho : plyOpen bs = .ok (h, rest)) (he : (readElems ft h.format 0 h.elements rest).err = some e) :
    ∃ e', readColorPLY ft bs = .error e' :=
  readColorPLY_error_not_data ho he

/-- … and the generic reader loop itself stops at the first error: no rows are produced after it
(`readElemRows` returns what was read before the failure together with the error). -/
theorem reader_error_stops (ft : FloatText) (f : Format) (idx : Nat) (el : Element) (k : Nat) (bs : Bytes) (e : PErr)
    (he : e ≠ .eof) (h : readRow ft f el bs = .error e) :
    (readElemRows ft f idx el (k + 1) bs).1 = ⟨[], some e, 0⟩ := by
  unfold readElemRows
  rw [h]
  cases e <;> simp_all

end M3d.C16
