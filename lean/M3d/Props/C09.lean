import M3d.Lemmas.FastMapRefine
import M3d.Lemmas.MeshQueries
/-!
# C09 — a mesh (and the coordinate-keyed maps underneath) answers as the plain set of faces would

Property theorems only.  Models: `M3d/Model/FastMap.lean`, `M3d/Model/Mesh.lean`.
-/
namespace M3d.C09
open M3d.FastMap

/-- **The coordinate-keyed maps behave exactly like ordinary maps** — for *every* hash
function of the key (so in particular whatever collides), every value type and every
finite history of `Store/Delete/Load/Len` starting from the empty map. -/
theorem fastmap_refines_map {K V : Type} [DecidableEq K] (h : K → UInt64)
    (ops : List (Op K V)) : run h (empty : FM K V) ops = refRun [] ops :=
  run_eq_refRun (sim_empty h) ops

/-- The fast→slow switch is one way: once slow, every operation leaves the map slow. -/
theorem fastmap_switch_one_way {K V : Type} [DecidableEq K] (h : K → UInt64)
    (m : List (K × V)) (op : Op K V) : isFast (step h (.slow m) op).1 = false := by
  cases op <;> rfl

/-- … and the switch preserves contents (all loads and the size). -/
theorem fastmap_switch_preserves {K V : Type} [DecidableEq K] (h : K → UInt64)
    (m : List (UInt64 × (K × V))) (hi : Inv h (.fast m)) :
    (∀ k, load h (.slow (toSlow m)) k = load h (.fast m) k) ∧
      len (.slow (toSlow m) : FM K V) = len (.fast m : FM K V) :=
  ⟨fun k => get_toSlow hi.1 hi.2 k, length_toSlow hi.1 hi.2⟩

/-- Non-vacuity: a history over two colliding keys really crosses the switch and then
keeps answering like an ordinary map. -/
example :
    let h : Nat → UInt64 := fun _ => 7
    let ops : List (Op Nat Nat) := [.store 1 10, .store 2 20, .load 1, .load 2, .len, .delete 1, .load 1, .len]
    isFast (store h (store h (empty : FM Nat Nat) 1 10) 2 20) = false ∧
      run h empty ops = [.unit, .unit, .val (some 10), .val (some 20), .num 2, .unit, .val none, .num 1] := by
  decide

/-! ### The mesh: lazy vertex index vs the plain set of faces -/
open M3d.Mesh

/-- Mesh-mutating operations of a history (queries that force the lazy index are `touch`). -/
inductive MeshOp where
  | add (f : Nat)
  | remove (f : Nat)
  | touch            -- any of Find / Neighbors / VertexSlice / IterateVertices: builds the index
deriving Repr

def stepMesh (h : Nat → UInt64) (tri : Nat → Tri) (m : Mesh.Mesh) : MeshOp → Mesh.Mesh
  | .add f => m.add h tri f
  | .remove f => m.remove h tri f
  | .touch => (m.withIndex h tri).1

/-- **The index is always coherent with the face set**: after any sequence of `Add` / `Remove`
and index-forcing queries, in any order relative to the first lazy build, for every hash function
and every assignment of corners to faces (shared vertices, duplicate-valued and degenerate faces
included), the face set has no duplicates and the index — if built — holds under every vertex
exactly the faces having that corner, with no empty slices. -/
theorem index_coherent (h : Nat → UInt64) (tri : Nat → Tri) (ops : List MeshOp) :
    Coherent h tri (ops.foldl (stepMesh h tri) Mesh.new) := by
  suffices H : ∀ m, Coherent h tri m → Coherent h tri (ops.foldl (stepMesh h tri) m) from
    H _ (coherent_new h tri)
  induction ops with
  | nil => intro m c; exact c
  | cons op ops ih =>
    intro m c
    apply ih
    cases op with
    | add f => exact coherent_add h tri c f
    | remove f => exact coherent_remove h tri c f
    | touch => exact (coherent_withIndex h tri c).1

/-- The face set itself behaves as a plain set: membership after `Add`/`Remove`. -/
theorem faces_add_remove (h : Nat → UInt64) (tri : Nat → Tri) (m : Mesh.Mesh) (f g : Nat) :
    (g ∈ (m.add h tri f).faces ↔ g = f ∨ g ∈ m.faces) ∧
    (g ∈ (m.remove h tri f).faces ↔ g ≠ f ∧ g ∈ m.faces) := by
  constructor
  · have key : ∀ (fs : List Nat), g ∈ (if f ∈ m.faces then m.faces else m.faces ++ [f]) ↔ g = f ∨ g ∈ m.faces := by
      intro _
      by_cases hf : f ∈ m.faces
      · simp only [hf, if_true]
        exact ⟨Or.inr, fun hh => hh.elim (fun e => e ▸ hf) id⟩
      · simp only [hf, if_false, List.mem_append, List.mem_singleton]
        exact ⟨fun hh => hh.elim Or.inr Or.inl, fun hh => hh.elim Or.inr Or.inl⟩
    unfold Mesh.add
    cases m.index with
    | none =>
      by_cases hf : f ∈ m.faces
      · simpa [hf] using key []
      · simpa [hf] using key []
    | some ix =>
      by_cases hf : f ∈ m.faces
      · simpa [hf] using key []
      · simpa [hf] using key []
  · unfold Mesh.remove
    by_cases hf : f ∈ m.faces
    · simp [hf]; exact ⟨fun x => ⟨x.2, x.1⟩, fun x => ⟨x.2, x.1⟩⟩
    · simp [hf]; intro hg e; subst e; exact hf hg

/-- **Every query answers as a freshly built list of the current faces would**: on any mesh
reachable by a history, `Find(p, rest…)` returns a permutation of the faces containing all the
points, `VertexSlice` returns each vertex of some face exactly once, and `Neighbors(f)` returns
exactly the other faces sharing two corner slots with `f` — all stated against functions of the
bare face list only (`specFind`, `specVertices`, `specNeighbors`). -/
theorem query_eq_fresh (h : Nat → UInt64) (tri : Nat → Tri) (ops : List MeshOp) :
    let m := ops.foldl (stepMesh h tri) Mesh.new
    (∀ p rest, (m.find h tri (p :: rest)).2.Perm (specFind tri m.faces (p :: rest))) ∧
    ((m.vertexSlice h tri).2.Nodup ∧ ∀ p, p ∈ (m.vertexSlice h tri).2 ↔ p ∈ specVertices tri m.faces) ∧
    (∀ f g, g ∈ (m.neighbors h tri f).2 ↔ g ∈ specNeighbors tri m.faces f) := by
  intro m
  have c : Coherent h tri m := index_coherent h tri ops
  exact ⟨fun p rest => find_perm_spec h tri c p rest, vertexSlice_spec h tri c,
    fun f g => neighbors_spec h tri c f g⟩

/-- Reversing orientation as specified (`specInvert`, what the correspondence compares
`InvertNormals` with) reverses every face and is an involution. -/
theorem invert_involutive (ts : List Tri) : specInvert (specInvert ts) = ts := by
  induction ts with
  | nil => rfl
  | cons t ts ih =>
    obtain ⟨a, b, c⟩ := t
    simp only [specInvert, List.map_cons, List.map_map] at ih ⊢
    rw [ih]

/-- Non-vacuity: a history that builds the index midway, removes a face and queries. -/
example :
    let tri : Nat → Tri := fun f => if f = 0 then (0, 1, 2) else if f = 1 then (2, 1, 3) else (0, 0, 1)
    let h : Nat → UInt64 := fun _ => 5      -- every key collides
    let m := [MeshOp.add 0, .add 1, .touch, .add 2, .remove 0].foldl (stepMesh h tri) Mesh.new
    m.faces = [1, 2] ∧ (m.find h tri [1]).2 = [2, 1] ∧ (m.neighbors h tri 1).2 = [] := by
  decide

end M3d.C09
