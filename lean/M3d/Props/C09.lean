import M3d.Lemmas.FastMapRefine
import M3d.Lemmas.MeshQueries
import M3d.Lemmas.MeshIter
import M3d.Lemmas.MeshObj
import M3d.Lemmas.MeshBounds
/-!
# C09 — a mesh (and the coordinate-keyed maps underneath) answers as the plain set of faces would

Property theorems only.  Models: `M3d/Model/FastMap.lean`, `M3d/Model/Mesh.lean`.
-/
namespace M3d.C09
open M3d.FastMap

/-- **The coordinate-keyed maps behave exactly like ordinary maps** — for *every* hash
function of the key (so in particular whatever collides), every value type and every
finite history of `Store/Delete/Load/Len` starting from the empty map. -/
theorem fastmap_refines_map {K V : Type} [DecidableEq K] (h : K → UInt64)
    (ops : List (Op K V)) : run h (empty : FM K V) ops = refRun [] ops :=
  run_eq_refRun (sim_empty h) ops

/-- The fast→slow switch is one way: once slow, every operation leaves the map slow. -/
theorem fastmap_switch_one_way {K V : Type} [DecidableEq K] (h : K → UInt64)
    (m : List (K × V)) (op : Op K V) : isFast (step h (.slow m) op).1 = false := by
  cases op <;> rfl

/-- … and the switch preserves contents (all loads and the size). -/
theorem fastmap_switch_preserves {K V : Type} [DecidableEq K] (h : K → UInt64)
    (m : List (UInt64 × (K × V))) (hi : Inv h (.fast m)) :
    (∀ k, load h (.slow (toSlow m)) k = load h (.fast m) k) ∧
      len (.slow (toSlow m) : FM K V) = len (.fast m : FM K V) :=
  ⟨fun k => get_toSlow hi.1 hi.2 k, length_toSlow hi.1 hi.2⟩

/-- Non-vacuity: a history over two colliding keys really crosses the switch and then
keeps answering like an ordinary map. -/
example :
    let h : Nat → UInt64 := fun _ => 7
    let ops : List (Op Nat Nat) := [.store 1 10, .store 2 20, .load 1, .load 2, .len, .delete 1, .load 1, .len]
    isFast (store h (store h (empty : FM Nat Nat) 1 10) 2 20) = false ∧
      run h empty ops = [.unit, .unit, .val (some 10), .val (some 20), .num 2, .unit, .val none, .num 1] := by
  decide

/-! ### The mesh: lazy vertex index vs the plain set of faces -/
open M3d.Mesh

/-- Mesh-mutating operations of a history (queries that force the lazy index are `touch`).
`iter script snap` is `Iterate` / `IterateSorted` over the snapshot order `snap` with a callback
that performs the `Add`/`Remove` calls `script k` during its `k`-th invocation; `iterVerts` is
`IterateVertices` with such a callback.  (No restriction on `snap`: the coherence theorems hold
for every order, the visit theorems below say what a snapshot order implies.) -/
inductive MeshOp where
  | add (f : Nat)
  | remove (f : Nat)
  | touch            -- any of Find / Neighbors / VertexSlice / IterateVertices: builds the index
  | iter (script : Nat → List IterAct) (snap : List Nat)
  | iterVerts (script : Nat → List IterAct) (snap : List Nat)

def stepMesh (h : Nat → UInt64) (tri : Nat → Tri) (m : Mesh.Mesh) : MeshOp → Mesh.Mesh
  | .add f => m.add h tri f
  | .remove f => m.remove h tri f
  | .touch => (m.withIndex h tri).1
  | .iter script snap => (m.iterate h tri script snap).1
  | .iterVerts script snap => (m.iterateVerts h tri script snap).1

/-- **The index is always coherent with the face set**: after any sequence of `Add` / `Remove`
and index-forcing queries, in any order relative to the first lazy build, for every hash function
and every assignment of corners to faces (shared vertices, duplicate-valued and degenerate faces
included), the face set has no duplicates and the index — if built — holds under every vertex
exactly the faces having that corner, with no empty slices. -/
theorem index_coherent (h : Nat → UInt64) (tri : Nat → Tri) (ops : List MeshOp) :
    Coherent h tri (ops.foldl (stepMesh h tri) Mesh.new) := by
  suffices H : ∀ m, Coherent h tri m → Coherent h tri (ops.foldl (stepMesh h tri) m) from
    H _ (coherent_new h tri)
  induction ops with
  | nil => intro m c; exact c
  | cons op ops ih =>
    intro m c
    apply ih
    cases op with
    | add f => exact coherent_add h tri c f
    | remove f => exact coherent_remove h tri c f
    | touch => exact (coherent_withIndex h tri c).1
    | iter script snap => exact iterate_coherent h tri script snap c
    | iterVerts script snap => exact (iterateVerts_eq_spec h tri script snap c).2.2

/-- The face set itself behaves as a plain set: membership after `Add`/`Remove`. -/
theorem faces_add_remove (h : Nat → UInt64) (tri : Nat → Tri) (m : Mesh.Mesh) (f g : Nat) :
    (g ∈ (m.add h tri f).faces ↔ g = f ∨ g ∈ m.faces) ∧
    (g ∈ (m.remove h tri f).faces ↔ g ≠ f ∧ g ∈ m.faces) := by
  constructor
  · have key : ∀ (fs : List Nat), g ∈ (if f ∈ m.faces then m.faces else m.faces ++ [f]) ↔ g = f ∨ g ∈ m.faces := by
      intro _
      by_cases hf : f ∈ m.faces
      · simp only [hf, if_true]
        exact ⟨Or.inr, fun hh => hh.elim (fun e => e ▸ hf) id⟩
      · simp only [hf, if_false, List.mem_append, List.mem_singleton]
        exact ⟨fun hh => hh.elim Or.inr Or.inl, fun hh => hh.elim Or.inr Or.inl⟩
    unfold Mesh.add
    cases m.index with
    | none =>
      by_cases hf : f ∈ m.faces
      · simpa [hf] using key []
      · simpa [hf] using key []
    | some ix =>
      by_cases hf : f ∈ m.faces
      · simpa [hf] using key []
      · simpa [hf] using key []
  · unfold Mesh.remove
    by_cases hf : f ∈ m.faces
    · simp [hf]; exact ⟨fun x => ⟨x.2, x.1⟩, fun x => ⟨x.2, x.1⟩⟩
    · simp [hf]; intro hg e; subst e; exact hf hg

/-- **Every query answers as a freshly built list of the current faces would**: on any mesh
reachable by a history, `Find(p, rest…)` returns a permutation of the faces containing all the
points, `VertexSlice` returns each vertex of some face exactly once, and `Neighbors(f)` returns
exactly the other faces sharing two corner slots with `f` — all stated against functions of the
bare face list only (`specFind`, `specVertices`, `specNeighbors`). -/
theorem query_eq_fresh (h : Nat → UInt64) (tri : Nat → Tri) (ops : List MeshOp) :
    let m := ops.foldl (stepMesh h tri) Mesh.new
    (∀ p rest, (m.find h tri (p :: rest)).2.Perm (specFind tri m.faces (p :: rest))) ∧
    ((m.vertexSlice h tri).2.Nodup ∧ ∀ p, p ∈ (m.vertexSlice h tri).2 ↔ p ∈ specVertices tri m.faces) ∧
    (∀ f g, g ∈ (m.neighbors h tri f).2 ↔ g ∈ specNeighbors tri m.faces f) := by
  intro m
  have c : Coherent h tri m := index_coherent h tri ops
  exact ⟨fun p rest => find_perm_spec h tri c p rest, vertexSlice_spec h tri c,
    fun f g => neighbors_spec h tri c f g⟩


/-! ### Iterations whose callback adds and removes faces -/

/-- The plain face set at the moment the `i`-th callback invocation of an iteration starts. -/
def facesNow (script : Nat → List IterAct) (faces : List Nat) (i : Nat) : List Nat :=
  timeline (fun fs k => specActs fs (script k)) faces 0 i

/-- **`Iterate` / `IterateSorted` with a callback that adds and removes faces** (documented: "If f
adds or removes triangles, they will not be visited"): for every snapshot order `snap` without
repetition, every callback script, every hash function and every state of the lazy index,
* the faces handed to the callback and the resulting face set are those the plain set of faces
  gives (`specIterate`: no index involved), and the face set afterwards is the plain set after as
  many callback invocations as there were visits;
* the visited list is a sublist of the snapshot (snapshot order, no face twice, a face added by
  the callback is never visited);
* the `i`-th visited face is a member of the mesh at the moment of its visit;
* exactly: the face at a snapshot position is visited iff it is a member in the state reached
  after the visits of the earlier positions (whose visits are a prefix of the visits) — i.e. the
  visited list is the snapshot filtered by current membership at the time each face is reached;
* hence a snapshot face that is never visited was a non-member at some moment of the loop. -/
theorem iterate_visits_current_members (h : Nat → UInt64) (tri : Nat → Tri)
    (script : Nat → List IterAct) (snap : List Nat) (m : Mesh.Mesh) (hn : snap.Nodup) :
    let r := m.iterate h tri script snap
    (r.2 = (specIterate script snap m.faces).2 ∧ r.1.faces = facesNow script m.faces r.2.length) ∧
    (r.2.Sublist snap ∧ r.2.Nodup) ∧
    (∀ i (hi : i < r.2.length), r.2[i] ∈ facesNow script m.faces i) ∧
    (∀ pre x post, snap = pre ++ x :: post →
      (specIterate script pre m.faces).2 <+: r.2 ∧
      (x ∈ r.2 ↔ x ∈ facesNow script m.faces (specIterate script pre m.faces).2.length)) ∧
    (∀ x, x ∈ snap → x ∉ r.2 → ∃ i, i ≤ r.2.length ∧ x ∉ facesNow script m.faces i) := by
  intro r
  obtain ⟨e1, e2⟩ := iterate_eq_spec h tri script snap m
  have e2' : r.2 = (specIterate script snap m.faces).2 := e2
  have e1' : r.1.faces = (specIterate script snap m.faces).1 := e1
  have hsub : r.2.Sublist snap := by rw [e2']; exact iterGen_sublist _ _ _ _ _
  refine ⟨⟨e2', ?_⟩, ⟨hsub, hsub.nodup hn⟩, ?_, ?_, ?_⟩
  · rw [e1', e2']; unfold specIterate facesNow; exact iterGen_final _ _ _ _ _
  · intro i hi
    have hi' : i < (specIterate script snap m.faces).2.length := by rw [← e2']; exact hi
    have := iterGen_visited (fun (fs : List Nat) x => decide (x ∈ fs))
      (fun fs k => specActs fs (script k)) snap m.faces 0 i hi'
    simp only [decide_eq_true_eq] at this
    have e : r.2[i] = (specIterate script snap m.faces).2[i] := by simp only [e2']
    rw [e]; exact this
  · intro pre x post hs
    subst hs
    rw [e2']
    refine ⟨iterGen_prefix _ _ pre (x :: post) m.faces 0, ?_⟩
    have := iterGen_mem_iff (fun (fs : List Nat) x => decide (x ∈ fs))
      (fun fs k => specActs fs (script k)) pre x post m.faces 0 hn
    simp only [decide_eq_true_eq] at this
    exact this
  · intro x hx hnv
    rw [e2'] at hnv ⊢
    obtain ⟨i, hi, hv⟩ := iterGen_skipped (fun (fs : List Nat) x => decide (x ∈ fs))
      (fun fs k => specActs fs (script k)) snap m.faces 0 x hx hnv
    exact ⟨i, hi, by simpa [facesNow] using hv⟩

/-- The snapshot of `IterateSorted` with a comparator that orders the faces as the duplicate-free
list `ord` does is the current face set in that order (what the driver iterates over). -/
theorem iterate_sorted_snapshot {ord faces : List Nat} (ho : ord.Nodup) (hf : faces.Nodup)
    (hsub : ∀ f ∈ faces, f ∈ ord) :
    (sortedSnap ord faces).Perm faces ∧ (sortedSnap ord faces).Sublist ord ∧
      (sortedSnap ord faces).Nodup :=
  ⟨(sortedSnap_perm ho hf hsub).1, (sortedSnap_perm ho hf hsub).2,
    (sortedSnap_perm ho hf hsub).2.nodup ho⟩

/-- **`IterateVertices` with a callback that adds and removes faces**: on every mesh reachable by
a history, for every snapshot order of the vertices, the vertices handed to the callback are those
the plain set of faces gives (`specIterateVerts`: a snapshot vertex is visited iff it is a corner
of some CURRENT face when it is reached), in snapshot order, none twice, none that only an added
face brought in; the `i`-th visited vertex is a vertex of the mesh at that moment; and the mesh
stays coherent. -/
theorem iterateVerts_visits_current_vertices (h : Nat → UInt64) (tri : Nat → Tri)
    (ops : List MeshOp) (script : Nat → List IterAct) (snap : List Nat) (hn : snap.Nodup) :
    let m := ops.foldl (stepMesh h tri) Mesh.new
    let r := m.iterateVerts h tri script snap
    (r.2 = (specIterateVerts tri script snap m.faces).2 ∧
      r.1.faces = facesNow script m.faces r.2.length) ∧
    (r.2.Sublist snap ∧ r.2.Nodup) ∧
    (∀ i (hi : i < r.2.length), r.2[i] ∈ specVertices tri (facesNow script m.faces i)) ∧
    (∀ pre x post, snap = pre ++ x :: post →
      (specIterateVerts tri script pre m.faces).2 <+: r.2 ∧
      (x ∈ r.2 ↔ x ∈ specVertices tri
        (facesNow script m.faces (specIterateVerts tri script pre m.faces).2.length))) := by
  intro m r
  have c : Coherent h tri m := index_coherent h tri ops
  obtain ⟨e1, e2, _⟩ := iterateVerts_eq_spec h tri script snap c
  have e2' : r.2 = (specIterateVerts tri script snap m.faces).2 := e2
  have e1' : r.1.faces = (specIterateVerts tri script snap m.faces).1 := e1
  have hsub : r.2.Sublist snap := by rw [e2']; exact iterGen_sublist _ _ _ _ _
  refine ⟨⟨e2', ?_⟩, ⟨hsub, hsub.nodup hn⟩, ?_, ?_⟩
  · rw [e1', e2']; unfold specIterateVerts facesNow; exact iterGen_final _ _ _ _ _
  · intro i hi
    have hi' : i < (specIterateVerts tri script snap m.faces).2.length := by rw [← e2']; exact hi
    have := iterGen_visited (fun (fs : List Nat) p => decide (p ∈ specVertices tri fs))
      (fun fs k => specActs fs (script k)) snap m.faces 0 i hi'
    simp only [decide_eq_true_eq] at this
    have e : r.2[i] = (specIterateVerts tri script snap m.faces).2[i] := by simp only [e2']
    rw [e]; exact this
  · intro pre x post hs
    subst hs
    rw [e2']
    refine ⟨iterGen_prefix _ _ pre (x :: post) m.faces 0, ?_⟩
    have := iterGen_mem_iff (fun (fs : List Nat) p => decide (p ∈ specVertices tri fs))
      (fun fs k => specActs fs (script k)) pre x post m.faces 0 hn
    simp only [decide_eq_true_eq] at this
    exact this

/-- **The oracle used for the unsorted iterations raises no false alarm and accepts only
snapshots.**  Go's map order is not observable, so for `Iterate` / `IterateVertices` the harness
reports the visit sequence `V` it saw and the driver runs the model on `explainSnap … V`.  If `V`
is what the loop gives for SOME snapshot order `snap` of the current elements `univ` (the faces,
resp. the index keys), then the rebuilt order is again a permutation of `univ` and the model run
on it returns exactly `V`.  (Conversely the driver only accepts a rebuilt order that is a
permutation of `univ`, and then `iterate_visits_current_members` applies to it: a reported
sequence with a non-member, a repeated or an added element cannot be reproduced.)  Stated for the
generic loop, of which `Mesh.iterate` and `Mesh.iterateVerts` are instances. -/
theorem iterate_oracle_explains {σ : Type} (vis : σ → Nat → Bool) (step : σ → Nat → σ) (s : σ)
    (snap univ : List Nat) (hp : snap.Perm univ) (hn : univ.Nodup) :
    let V := (iterGen vis step snap s 0).2
    (explainSnap vis step s univ V).Perm univ ∧
      (iterGen vis step (explainSnap vis step s univ V) s 0).2 = V := by
  intro V
  have hsn : snap.Nodup := hp.nodup_iff.2 hn
  have hsub : V.Sublist snap := iterGen_sublist vis step snap s 0
  refine ⟨explainSnap_perm vis step s univ V hn (hsub.nodup hsn)
    (fun x hx => hp.mem_iff.1 (hsub.subset hx)), ?_⟩
  exact explainSnap_explains vis step s snap univ (fun x hx => hp.mem_iff.2 hx)

/-- Non-vacuity of the oracle: Go hands out the snapshot `[2, 0, 3, 1]`; the first callback call
removes face 1, so the visits are `[2, 0, 3]`; the rebuilt order puts the unvisited face 1 at the
first moment it is a non-member (after one visit) and reproduces the visits. -/
example :
    let tri : Nat → Tri := fun f => (f, f + 1, f + 2)
    let h : Nat → UInt64 := fun _ => 5
    let m := [MeshOp.add 0, .add 1, .add 2, .add 3, .touch].foldl (stepMesh h tri) Mesh.new
    let script : Nat → List IterAct := fun k => if k = 0 then [.rem 1, .add 4] else []
    let E := explainSnap (fun (m : Mesh.Mesh) x => decide (x ∈ m.faces))
      (fun m k => applyActs h tri m (script k)) m m.faces [2, 0, 3]
    (m.iterate h tri script [2, 0, 3, 1]).2 = [2, 0, 3] ∧ E = [2, 1, 0, 3] ∧
      (m.iterate h tri script E).2 = [2, 0, 3] := by
  decide

/-- Non-vacuity: faces 0..3 in sorted order; during its first call the callback removes face 2
(it sorts later: it must NOT be visited), adds face 4 (never visited) and removes face 3, which
the second call re-adds before it is reached (so it IS visited).  Vertex iteration: the first call
removes the only faces with the corners 4 and 5, which are then skipped. -/
example :
    let tri : Nat → Tri := fun f => (f, f + 1, f + 2)
    let h : Nat → UInt64 := fun _ => 5
    let m := [MeshOp.add 0, .add 1, .add 2, .add 3, .touch].foldl (stepMesh h tri) Mesh.new
    let script : Nat → List IterAct := fun k =>
      if k = 0 then [.rem 2, .add 4, .rem 3] else if k = 1 then [.add 3] else []
    (m.iterate h tri script (sortedSnap [0, 1, 2, 3, 4] m.faces)).2 = [0, 1, 3] ∧
    (m.iterate h tri script (sortedSnap [0, 1, 2, 3, 4] m.faces)).1.faces = [0, 1, 4, 3] ∧
    (m.iterateVerts h tri (fun k => if k = 0 then [.rem 3, .rem 2] else []) [0, 1, 2, 3, 4, 5]).2
      = [0, 1, 2, 3] := by
  decide

/-- Reversing orientation as specified (`specInvert`, what the correspondence compares
`InvertNormals` with) reverses every face and is an involution. -/
theorem invert_involutive (ts : List Tri) : specInvert (specInvert ts) = ts := by
  induction ts with
  | nil => rfl
  | cons t ts ih =>
    obtain ⟨a, b, c⟩ := t
    simp only [specInvert, List.map_cons, List.map_map] at ih ⊢
    rw [ih]

/-- Non-vacuity: a history that builds the index midway, removes a face and queries. -/
example :
    let tri : Nat → Tri := fun f => if f = 0 then (0, 1, 2) else if f = 1 then (2, 1, 3) else (0, 0, 1)
    let h : Nat → UInt64 := fun _ => 5      -- every key collides
    let m := [MeshOp.add 0, .add 1, .touch, .add 2, .remove 0].foldl (stepMesh h tri) Mesh.new
    m.faces = [1, 2] ∧ (m.find h tri [1]).2 = [2, 1] ∧ (m.neighbors h tri 1).2 = [] := by
  decide

/-! ### Derived meshes are new objects: programs over several `*Mesh` variables -/
open M3d.MeshObj

/-- **A derived mesh is a mesh of its own.**  Go programs hold meshes through pointers; `Copy`,
`DeepCopy`, `MapCoords`, `Transform`, `Scale`, `Translate`, `Center`, `Rotate`, `InvertNormals` all
return a NEW object built by `NewMesh()` + `Add` (instruction `derive`).  For every program over any
number of mesh variables made of `Add` / `Remove` / index-forcing queries / `AddMesh` / such
derivations — in particular for every interleaving of mutations of a derived mesh and of the mesh
it was derived from — running the program on the heap of objects (`runObj`: a mutation changes
the object behind the handle, whoever else points to it) gives behind every handle exactly the mesh
that the value semantics gives (`runVal`: a mutation through one variable changes that variable
only), and every one of these meshes is coherent; hence (next theorem) every query through every
handle is answered from the faces that were put into *that* mesh.  The only hypothesis is that no
instruction makes two variables name one object (`alias`) — which none of the library's methods
does; the example below shows that the statement fails as soon as one does (`Translate` returning
its receiver for a zero offset). -/
theorem derived_meshes_are_new_objects (h : Nat → UInt64) (tri : Nat → Tri) (nv : Nat)
    (ops : List OOp) (na : ∀ op ∈ ops, op.isAlias = false) :
    (runObj h tri ops (OState.init nv)).view = runVal h tri ops (List.replicate nv Mesh.new) ∧
      ∀ m ∈ runVal h tri ops (List.replicate nv Mesh.new), Coherent h tri m := by
  refine ⟨?_, ?_⟩
  · rw [← view_init nv]
    exact (runObj_view_aux h tri ops na _ (wfo_init nv)).1
  · apply runVal_coherent
    intro m hm
    rw [List.eq_of_mem_replicate hm]
    exact coherent_new h tri

/-- **Every handle answers as a freshly built list of the faces of its own mesh**: after any
alias-free program, the mesh behind handle `v` on the object heap answers `Find` / `VertexSlice` /
`Neighbors` from the bare face list of the value-semantics mesh of `v` — whatever was done in the
meantime to the meshes it was derived from or that were derived from it. -/
theorem handles_answer_as_fresh (h : Nat → UInt64) (tri : Nat → Tri) (nv : Nat)
    (ops : List OOp) (na : ∀ op ∈ ops, op.isAlias = false) (v : Nat) :
    let m := (runObj h tri ops (OState.init nv)).deref v
    m = (runVal h tri ops (List.replicate nv Mesh.new)).getD v Mesh.new ∧
    (∀ p rest, (m.find h tri (p :: rest)).2.Perm (specFind tri m.faces (p :: rest))) ∧
    ((m.vertexSlice h tri).2.Nodup ∧ ∀ p, p ∈ (m.vertexSlice h tri).2 ↔ p ∈ specVertices tri m.faces) ∧
    (∀ f g, g ∈ (m.neighbors h tri f).2 ↔ g ∈ specNeighbors tri m.faces f) := by
  intro m
  obtain ⟨e, c⟩ := derived_meshes_are_new_objects h tri nv ops na
  have hm : m = (runVal h tri ops (List.replicate nv Mesh.new)).getD v Mesh.new := by
    show (runObj h tri ops (OState.init nv)).deref v = _
    rw [deref_eq_view, e]
  have cm : Coherent h tri m := by rw [hm]; exact getD_coherent h tri _ c v
  exact ⟨hm, fun p rest => find_perm_spec h tri cm p rest, vertexSlice_spec h tri cm,
    fun f g => neighbors_spec h tri cm f g⟩

/-- The object a derivation returns holds exactly the faces that were added to it, in that order,
with no index yet (`NewMesh()` + `Add`): what the driver installs behind the destination handle. -/
theorem derive_builds_exact_faces (h : Nat → UInt64) (tri : Nat → Tri) (ids : List Nat)
    (hn : ids.Nodup) :
    (build h tri ids).faces = ids ∧ (build h tri ids).index = none ∧
      Coherent h tri (build h tri ids) := by
  refine ⟨?_, addAll_index_none h tri ids Mesh.new rfl, coherent_build h tri ids⟩
  have := addAll_faces_nodup h tri ids hn Mesh.new rfl (by intro f _; simp [Mesh.new])
  simpa [build, addAll, Mesh.new] using this

/-- Non-vacuity, and the reason for the hypothesis: `d := m.Translate(0)` under the seeded change
C09-15 is `alias 1 0`; after `d.Add(face 1)` the ORIGINAL contains face 1 on the object heap, while
a derived mesh (`derive 1 [2]`, face 2 = the copy of face 0) leaves it alone and both semantics agree. -/
example :
    let tri : Nat → Tri := fun f => if f = 1 then (1, 2, 3) else (0, 1, 2)
    let h : Nat → UInt64 := fun _ => 5
    let bad := [OOp.add 0 0, .alias 1 0, .add 1 1]
    let good := [OOp.add 0 0, .derive 1 [2], .add 1 1, .touch 0]
    ((runObj h tri bad (OState.init 2)).view.map (·.faces) = [[0, 1], [0, 1]]) ∧
    ((runVal h tri bad (List.replicate 2 Mesh.new)).map (·.faces) = [[0], [0, 1]]) ∧
    ((runObj h tri good (OState.init 2)).view.map (·.faces) = [[0], [2, 1]]) ∧
    ((runVal h tri good (List.replicate 2 Mesh.new)).map (·.faces) = [[0], [2, 1]]) := by
  decide

/-- **A derived mesh has the mapped faces with the same connectivity.**  Let the derived mesh
consist of the faces `σ f` (new pointers, or the same ones for `Copy`) for `f` in the source, the
corners of `σ f` being the images under the coordinate map `g` of the corners of `f` (what the
driver checks of the faces found in the result).  Then the faces of the derived mesh at the mapped
points contain the images of the faces of the source at the points — and when `g` merges no two
vertices of the source they are exactly those: every vertex / edge / face query `Find(g p, g q, …)`
on the derived mesh answers with the `σ`-images of `Find(p, q, …)` on the source. -/
theorem derived_same_connectivity (tri : Nat → Tri) (g σ : Nat → Nat) (src ps : List Nat)
    (hσ : ∀ f ∈ src, tri (σ f) = mapTri g (tri f)) :
    (∀ f', f' ∈ (specFind tri src ps).map σ → f' ∈ specFind tri (src.map σ) (ps.map g)) ∧
    ((∀ f ∈ src, ∀ a ∈ triVerts (tri f), ∀ p ∈ ps, g a = g p → a = p) →
      specFind tri (src.map σ) (ps.map g) = (specFind tri src ps).map σ) := by
  have corner : ∀ f ∈ src, ∀ q, q ∈ triVerts (tri f) → g q ∈ triVerts (tri (σ f)) := by
    intro f hf q hq
    rw [hσ f hf]
    simp only [triVerts, mapTri, List.mem_cons, List.not_mem_nil, or_false] at hq ⊢
    rcases hq with e | e | e <;> simp [e]
  constructor
  · intro f' hf'
    obtain ⟨f, hf, e⟩ := List.mem_map.1 hf'
    subst e
    unfold specFind at hf ⊢
    obtain ⟨hfs, hall⟩ := List.mem_filter.1 hf
    refine List.mem_filter.2 ⟨List.mem_map_of_mem hfs, ?_⟩
    simp only [List.all_eq_true, decide_eq_true_eq, List.mem_map, forall_exists_index, and_imp,
      forall_apply_eq_imp_iff₂] at hall ⊢
    exact fun q hq => corner f hfs q (hall q hq)
  · intro inj
    unfold specFind
    rw [List.filter_map]
    congr 1
    apply List.filter_congr
    intro f hf
    simp only [Function.comp]
    apply Bool.eq_iff_iff.2
    simp only [List.all_eq_true, decide_eq_true_eq, List.mem_map, forall_exists_index, and_imp,
      forall_apply_eq_imp_iff₂]
    constructor
    · intro hall q hq
      have := hall q hq
      rw [hσ f hf] at this
      simp only [triVerts, mapTri, List.mem_cons, List.not_mem_nil, or_false] at this
      rcases this with e | e | e
      · have := inj f hf (tri f).1 (by simp [triVerts]) q hq e.symm; rw [← this]; simp [triVerts]
      · have := inj f hf (tri f).2.1 (by simp [triVerts]) q hq e.symm; rw [← this]; simp [triVerts]
      · have := inj f hf (tri f).2.2 (by simp [triVerts]) q hq e.symm; rw [← this]; simp [triVerts]
    · exact fun hall q hq => corner f hf q (hall q hq)

/-- Non-vacuity: a translation (keys `k ↦ k + 10`, faces `f ↦ f + 2`) of two triangles sharing an
edge: the edge query on the derived mesh returns the two new faces. -/
example :
    let tri : Nat → Tri := fun f =>
      if f = 0 then (0, 1, 2) else if f = 1 then (2, 1, 3) else if f = 2 then (10, 11, 12) else (12, 11, 13)
    specFind tri [2, 3] [11, 12] = [2, 3] ∧ (specFind tri [0, 1] [1, 2]).map (· + 2) = [2, 3] := by
  decide

/-! ### Bounds -/
open M3d.MeshBounds

/-- **`Min()` / `Max()` answer as a freshly built list of the current faces would.**  The loops of
`Mesh.Min` / `Mesh.Max` run over the faces in Go's map order — some enumeration `order` of the
current face set.  Over every linear order of scalars, for every assignment of coordinates to the
vertex keys: the result is the same for every enumeration (so it is what the loop gives on a fresh
list of the faces), and for a mesh with at least one face every component of `Min` (`Max`) is a
lower (upper) bound of that component over all corners of all current faces and is attained at one
of them; the empty mesh answers the zero coordinate. -/
theorem bounds_eq_fresh {K : Type} [LinearOrder K] (tri : Nat → Tri) (coord : Nat → P3 K) (zero : P3 K)
    (faces order : List Nat) (hp : order.Perm faces) :
    let cs := cornerCoords tri coord faces
    (meshMin zero (cornerCoords tri coord order) = meshMin zero cs ∧
      meshMax zero (cornerCoords tri coord order) = meshMax zero cs) ∧
    (faces = [] → meshMin zero cs = zero ∧ meshMax zero cs = zero) ∧
    (faces ≠ [] →
      ((∀ p ∈ cs, (meshMin zero cs).x ≤ p.x ∧ (meshMin zero cs).y ≤ p.y ∧ (meshMin zero cs).z ≤ p.z) ∧
        (∃ p ∈ cs, (meshMin zero cs).x = p.x) ∧ (∃ p ∈ cs, (meshMin zero cs).y = p.y) ∧
        (∃ p ∈ cs, (meshMin zero cs).z = p.z)) ∧
      ((∀ p ∈ cs, p.x ≤ (meshMax zero cs).x ∧ p.y ≤ (meshMax zero cs).y ∧ p.z ≤ (meshMax zero cs).z) ∧
        (∃ p ∈ cs, (meshMax zero cs).x = p.x) ∧ (∃ p ∈ cs, (meshMax zero cs).y = p.y) ∧
        (∃ p ∈ cs, (meshMax zero cs).z = p.z))) := by
  intro cs
  refine ⟨meshBounds_perm zero (hp.flatMap_right _), ?_, ?_⟩
  · intro e; subst e; exact ⟨rfl, rfl⟩
  · intro hne
    have hcs : cs ≠ [] := by
      obtain ⟨f, fs, e⟩ := List.exists_cons_of_ne_nil hne
      show cornerCoords tri coord faces ≠ []
      rw [e]; simp [cornerCoords, Mesh.triVerts]
    obtain ⟨c, t, e⟩ := List.exists_cons_of_ne_nil hcs
    rw [e]
    obtain ⟨⟨ax, bx⟩, ⟨ay, bY⟩, ⟨az, bz⟩⟩ := meshMin_comp zero c t
    obtain ⟨⟨ax', bx'⟩, ⟨ay', bY'⟩, ⟨az', bz'⟩⟩ := meshMax_comp zero c t
    exact ⟨⟨fun p hp => ⟨ax p hp, ay p hp, az p hp⟩, bx, bY, bz⟩,
      ⟨fun p hp => ⟨ax' p hp, ay' p hp, az' p hp⟩, bx', bY', bz'⟩⟩

/-- Non-vacuity: two faces met in either order give the same bounds. -/
example :
    let tri : Nat → Tri := fun f => if f = 0 then (0, 1, 2) else (2, 1, 3)
    let coord : Nat → P3 Int := fun k => ⟨(k : Int) - 1, 2 - (k : Int), if k = 3 then -5 else 0⟩
    meshMin ⟨0, 0, 0⟩ (cornerCoords tri coord [0, 1]) = ⟨-1, -1, -5⟩ ∧
    meshMin ⟨0, 0, 0⟩ (cornerCoords tri coord [1, 0]) = ⟨-1, -1, -5⟩ ∧
    meshMax ⟨0, 0, 0⟩ (cornerCoords tri coord [1, 0]) = ⟨2, 2, 0⟩ ∧
    meshMax (⟨0, 0, 0⟩ : P3 Int) (cornerCoords tri coord []) = ⟨0, 0, 0⟩ := by
  decide

end M3d.C09
