import M3d.Lemmas.FastMapRefine
/-!
# C09 — a mesh (and the coordinate-keyed maps underneath) answers as the plain set of faces would

Property theorems only.  Models: `M3d/Model/FastMap.lean`, `M3d/Model/Mesh.lean`.
-/
namespace M3d.C09
open M3d.FastMap

/-- **The coordinate-keyed maps behave exactly like ordinary maps** — for *every* hash
function of the key (so in particular whatever collides), every value type and every
finite history of `Store/Delete/Load/Len` starting from the empty map. -/
theorem fastmap_refines_map {K V : Type} [DecidableEq K] (h : K → UInt64)
    (ops : List (Op K V)) : run h (empty : FM K V) ops = refRun [] ops :=
  run_eq_refRun (sim_empty h) ops

/-- The fast→slow switch is one way: once slow, every operation leaves the map slow. -/
theorem fastmap_switch_one_way {K V : Type} [DecidableEq K] (h : K → UInt64)
    (m : List (K × V)) (op : Op K V) : isFast (step h (.slow m) op).1 = false := by
  cases op <;> rfl

/-- … and the switch preserves contents (all loads and the size). -/
theorem fastmap_switch_preserves {K V : Type} [DecidableEq K] (h : K → UInt64)
    (m : List (UInt64 × (K × V))) (hi : Inv h (.fast m)) :
    (∀ k, load h (.slow (toSlow m)) k = load h (.fast m) k) ∧
      len (.slow (toSlow m) : FM K V) = len (.fast m : FM K V) :=
  ⟨fun k => get_toSlow hi.1 hi.2 k, length_toSlow hi.1 hi.2⟩

/-- Non-vacuity: a history over two colliding keys really crosses the switch and then
keeps answering like an ordinary map. -/
example :
    let h : Nat → UInt64 := fun _ => 7
    let ops : List (Op Nat Nat) := [.store 1 10, .store 2 20, .load 1, .load 2, .len, .delete 1, .load 1, .len]
    isFast (store h (store h (empty : FM Nat Nat) 1 10) 2 20) = false ∧
      run h empty ops = [.unit, .unit, .val (some 10), .val (some 20), .num 2, .unit, .val none, .num 1] := by
  decide

end M3d.C09
