import Mathlib.Algebra.Order.Field.Basic
import Mathlib.Tactic.Linarith
import Mathlib.Tactic.Ring
import M3d.Lemmas.SmoothTop2
import M3d.Lemmas.SolidTree
import M3d.Lemmas.Stack
import M3d.Lemmas.RectSetHist
import M3d.Lemmas.RectSetProg
import M3d.Lemmas.SmoothSolid
import M3d.Lemmas.SolidExpr
import M3d.Lemmas.SmoothNaN
import M3d.Lemmas.SmoothNaNFar
/-!
# C04 — solid combinators implement exact, order-independent set algebra

Property theorems only.  Models: `M3d/Model/SolidAlg.lean` (templates/solid.template →
model2d/solid.go, model3d/solid.go) and `M3d/Model/RectSet.lean` (toolbox3d/rect_set.go).
-/
namespace M3d.C04
open M3d.SolidAlg

/-! ## Plain combinators -/

/-- `JoinedSolid.Contains(c)` is true exactly when some operand contains `c`. -/
theorem joined_eq_any {P : Type} (ss : List (P → Bool)) (p : P) :
    joined ss p = ss.any (fun s => s p) := by
  induction ss with
  | nil => rfl
  | cons s rest ih => cases h : s p <;> simp [joined, ih, h]

/-- `IntersectedSolid.Contains(c)` is true exactly when every operand contains `c`. -/
theorem intersected_eq_all {P : Type} (ss : List (P → Bool)) (p : P) :
    intersected ss p = ss.all (fun s => s p) := by
  induction ss with
  | nil => rfl
  | cons s rest ih => cases h : s p <;> simp [intersected, ih, h]

/-- `SubtractedSolid.Contains(c)` = in `Positive` and not in `Negative`. -/
theorem subtracted_eq {P : Type} (pos neg : P → Bool) (p : P) :
    subtracted pos neg p = true ↔ (pos p = true ∧ neg p = false) := by
  simp [subtracted]

/-- A join does not depend on the order of its operands. -/
theorem joined_perm {P : Type} {ss₁ ss₂ : List (P → Bool)} (h : ss₁.Perm ss₂) (p : P) :
    joined ss₁ p = joined ss₂ p := by
  rw [joined_eq_any, joined_eq_any]; exact h.any_eq

/-- An intersection does not depend on the order of its operands. -/
theorem intersected_perm {P : Type} {ss₁ ss₂ : List (P → Bool)} (h : ss₁.Perm ss₂) (p : P) :
    intersected ss₁ p = intersected ss₂ p := by
  rw [intersected_eq_all, intersected_eq_all]; exact h.all_eq

/-! ## Accelerated forms: `JoinedSolid.Optimize` and `SolidMux` -/
section Accel
variable {K : Type} [LinearOrder K]

/-- `JoinedSolid.Optimize()` answers exactly like the plain join at every point — for **every**
reordering `g` that `GroupBounders` might produce, every dimension `n`, and every non-empty list of
operands that respect their own bounds (the `Solid` contract, property C03).  In particular the
recursion terminates (`some`). -/
theorem optimize_eq_joined (n : Nat) (g : List (Solid K) → List (Solid K)) (j : List (Solid K))
    (hg : (g j).Perm j) (hne : j ≠ []) (hb : ∀ x ∈ j, Bounded n x) :
    ∃ t, optimize n g j = some t ∧ Bounded n t ∧ ∀ p, t.f p = joined (j.map (·.f)) p := by
  have hlen : 0 < (g j).length := by
    rw [hg.length_eq]; exact List.length_pos_iff.mpr hne
  obtain ⟨t, ht, htb, htf⟩ := grouped_spec n (g j).length (g j) hlen (le_refl _)
    (fun x hx => hb x (hg.subset hx))
  refine ⟨t, ht, htb, fun p => ?_⟩
  rw [htf p, joined_eq_any, List.any_map, hg.any_eq]
  rfl

/-- `NewSolidMux(solids)`: `Contains` is the plain join; `IterContains` calls `f` exactly once for each
solid that contains the point, with that solid's index (the calls are a permutation of the indexed
containing solids), and returns how many there are. -/
theorem mux_spec (n : Nat) (g : List (Nat × Solid K) → List (Nat × Solid K)) (solids : List (Solid K))
    (hg : (g ((List.range solids.length).zip solids)).Perm ((List.range solids.length).zip solids))
    (hne : solids ≠ []) (hb : ∀ x ∈ solids, Bounded n x) :
    ∃ m, newMux g solids = some m ∧ m.total = solids.length ∧ ∀ p,
      m.contains n p = joined (solids.map (·.f)) p ∧
      (m.iter n p).Perm ((((List.range solids.length).zip solids).filter (fun x => x.2.f p)).map (·.1)) ∧
      (m.iter n p).length = solids.countP (fun s => s.f p) := by
  have hzlen : ((List.range solids.length).zip solids).length = solids.length := by simp
  have hsnd : ((List.range solids.length).zip solids).map Prod.snd = solids :=
    List.map_snd_zip (by simp)
  have hlen : 0 < (g ((List.range solids.length).zip solids)).length := by
    rw [hg.length_eq, hzlen]; exact List.length_pos_iff.mpr hne
  have hbz : ∀ x ∈ g ((List.range solids.length).zip solids), Bounded n x.2 := by
    intro x hx
    have hx' := hg.subset hx
    exact hb x.2 (by rw [← hsnd]; exact List.mem_map_of_mem hx')
  obtain ⟨m, hm, hmt, hmf⟩ := groupedMux_spec n _ _ hlen (le_refl _) hbz
  have hnm : newMux g solids = some m := by
    unfold newMux
    have : solids.isEmpty = false := by cases solids with | nil => exact absurd rfl hne | cons _ _ => rfl
    simp only [this, Bool.false_eq_true, if_false]
    exact hm
  refine ⟨m, hnm, ?_, fun p => ⟨?_, ?_, ?_⟩⟩
  · rw [hmt, hg.length_eq, hzlen]
  · have key : solids.any (fun x => x.f p) = ((List.range solids.length).zip solids).any (fun x => x.2.f p) := by
      conv_lhs => rw [← hsnd]
      rw [List.any_map]; rfl
    rw [(hmf p).1, hg.any_eq, joined_eq_any, List.any_map, ← key]
    rfl
  · rw [(hmf p).2]
    exact (hg.filter _).map _
  · rw [(hmf p).2, List.length_map, ← List.countP_eq_length_filter, hg.countP_eq]
    conv_rhs => rw [← hsnd, List.countP_map]
    rfl

/-- `SolidMux.Contains` answers like the plain join (corollary of `mux_spec`). -/
theorem mux_contains_eq (n : Nat) (g : List (Nat × Solid K) → List (Nat × Solid K)) (solids : List (Solid K))
    (hg : (g ((List.range solids.length).zip solids)).Perm ((List.range solids.length).zip solids))
    (hne : solids ≠ []) (hb : ∀ x ∈ solids, Bounded n x) :
    ∃ m, newMux g solids = some m ∧ ∀ p, m.contains n p = joined (solids.map (·.f)) p := by
  obtain ⟨m, hm, _, h⟩ := mux_spec n g solids hg hne hb
  exact ⟨m, hm, fun p => (h p).1⟩

/-- `SolidMux.AllContains(c)` is, entry by entry, `Contains(c)` of the solids in their original order. -/
theorem mux_allcontains_eq (n : Nat) (g : List (Nat × Solid K) → List (Nat × Solid K)) (solids : List (Solid K))
    (hg : (g ((List.range solids.length).zip solids)).Perm ((List.range solids.length).zip solids))
    (hne : solids ≠ []) (hb : ∀ x ∈ solids, Bounded n x) :
    ∃ m, newMux g solids = some m ∧ ∀ p, m.allContains n p = solids.map (fun s => s.f p) := by
  obtain ⟨m, hm, htot, h⟩ := mux_spec n g solids hg hne hb
  refine ⟨m, hm, fun p => ?_⟩
  apply List.ext_getElem?
  intro i
  have hiter : i ∈ m.iter n p ↔ ∃ s, solids[i]? = some s ∧ s.f p = true := by
    rw [(h p).2.1.mem_iff, List.mem_map]
    constructor
    · rintro ⟨⟨j, s⟩, hmem, rfl⟩
      obtain ⟨hz, hf⟩ := List.mem_filter.mp hmem
      exact ⟨s, (mem_zip_range solids j s).mp hz, hf⟩
    · rintro ⟨s, hs, hf⟩
      exact ⟨(i, s), List.mem_filter.mpr ⟨(mem_zip_range solids i s).mpr hs, hf⟩, rfl⟩
  unfold Mux.allContains
  rw [getElem?_setFold, htot, List.getElem?_replicate, List.getElem?_map]
  by_cases hi : i < solids.length
  · have hs : solids[i]? = some solids[i] := List.getElem?_eq_getElem hi
    simp only [hi, if_true, hs, Option.map_some]
    by_cases hf : solids[i].f p = true
    · rw [if_pos (hiter.mpr ⟨_, hs, hf⟩), hf]
    · rw [if_neg (fun hc => by
        obtain ⟨s, hs', hf'⟩ := hiter.mp hc
        rw [hs] at hs'; cases hs'; exact hf hf')]
      simp only [Bool.not_eq_true] at hf
      rw [hf]
  · have hs : solids[i]? = none := List.getElem?_eq_none (by omega)
    simp [hi, hs]

/-- **Nests of combinators.**  Take any expression built from leaf solids with `JoinedSolid`,
`JoinedSolid.Optimize()`, `NewSolidMux` (used as a solid), `IntersectedSolid` and `SubtractedSolid`, nested to
any depth, with non-empty operand lists (duplicates allowed), where the leaves respect their bounds and
`GroupBounders` reorders — in whatever way — at each `Optimize` / `SolidMux` node (`Expr.WF`).  Then building the
solid bottom-up, each combinator reporting the bounds the Go code reports (`JoinedSolid.Min/Max`,
`IntersectedSolid.Min/Max`, `Positive`'s bounds, the cached bounds, the mux's `bbox`) and the accelerated
forms pruning by those bounds, terminates, and the result **contains exactly the points of the pointwise
boolean formula** (`Expr.eval`: union for the three join forms, intersection, difference) and respects the
bounds it reports — so it can itself be an operand of a further accelerated form. -/
theorem nested_combinators_eq_formula (n : Nat) (e : Expr K) (h : e.WF n) :
    ∃ s, e.toSolid n = some s ∧ Bounded n s ∧ ∀ p, s.f p = e.eval p :=
  Expr.toSolid_spec n e h

/-- Non-vacuity: `Optimize{ a ∩ b, mux{a, c} − b }` over three intervals on the line (`n = 1`). -/
example :
    let a : Solid Int := ⟨⟨fun _ => 0, fun _ => 4⟩, fun p => decide (0 ≤ p 0) && decide (p 0 ≤ 4)⟩
    let b : Solid Int := ⟨⟨fun _ => 2, fun _ => 6⟩, fun p => decide (2 ≤ p 0) && decide (p 0 ≤ 6)⟩
    let c : Solid Int := ⟨⟨fun _ => 8, fun _ => 9⟩, fun p => decide (8 ≤ p 0) && decide (p 0 ≤ 9)⟩
    let e : Expr Int := .opt id (.cons (.inter (.cons (.leaf a) (.one (.leaf b))))
      (.one (.sub (.mux id (.cons (.leaf a) (.one (.leaf c)))) (.leaf b))))
    ((e.toSolid 1).map fun s => [1, 3, 5, 8].map fun x => s.f (fun _ => x)) = some [true, true, false, true] ∧
    ([1, 3, 5, 8].map fun x => e.eval (fun _ => x)) = [true, true, false, true] := by
  decide +kernel

/-- Non-vacuity: two overlapping unit boxes in the plane are bounded operands. -/
example : ∃ (a b : Solid Int), Bounded 2 a ∧ Bounded 2 b ∧ a.f (fun _ => 1) = true := by
  refine ⟨⟨⟨fun _ => 0, fun _ => 1⟩, fun p => (⟨fun _ => 0, fun _ => 1⟩ : Box Int).contains 2 p⟩,
          ⟨⟨fun _ => 1, fun _ => 2⟩, fun p => (⟨fun _ => 1, fun _ => 2⟩ : Box Int).contains 2 p⟩,
          fun p h => h, fun p h => h, by decide⟩

end Accel

/-! ## Stacks -/
section Stack
variable {K : Type} [Field K] [LinearOrder K] [IsStrictOrderedRing K]

/-- `StackSolids(s0, s1, …)` contains exactly the union of the operands, operand `k` translated along
z by the accumulated offset `stackOffsets` (`0` for the first; then "previous top − own bottom"),
for operands that respect their bounds. -/
theorem stacked_eq_translated_union (s0 : Solid K) (rest : List (Solid K))
    (hb : ∀ x ∈ s0 :: rest, Bounded 3 x) (p : Pt K) :
    joined ((stackSolids (s0 :: rest)).map (·.f)) p
      = translatedUnion (s0 :: rest) (0 :: stackOffsets (s0.box.hi 2) rest) p := by
  simp only [stackSolids, List.map_cons, joined, translatedUnion, List.zip_cons_cons, List.any_cons]
  rw [subZ_zero, stackRest_eq _ _ (fun x hx => hb x (by simp [hx]))]
  cases s0.f p <;> simp [translatedUnion]

/-- The deprecated `StackedSolid.Contains` uses the same offsets: it is its own bounds test followed by
the same translated union (no assumption on the operands). -/
theorem stackedSolid_eq (s0 : Solid K) (rest : List (Solid K)) (p : Pt K) :
    stackedContains (s0 :: rest) p
      = ((⟨(joinedBox s0 rest).lo, stackedMax s0 rest⟩ : Box K).contains 3 p
          && translatedUnion (s0 :: rest) (0 :: stackOffsets (s0.box.hi 2) rest) p) := by
  simp only [stackedContains]
  rw [stackedLoop_eq]
  simp only [stackOffsets, sub_self, add_zero]
  cases (⟨(joinedBox s0 rest).lo, stackedMax s0 rest⟩ : Box K).contains 3 p <;> simp

/-- For operands that respect their bounds (with `min.z ≤ max.z`) `StackedSolid`'s own bounds test is
redundant: **`StackedSolid.Contains` is exactly the translated union**, the same set as `StackSolids`. -/
theorem stackedSolid_eq_translated_union (s0 : Solid K) (rest : List (Solid K))
    (hb : ∀ x ∈ s0 :: rest, Bounded 3 x) (hv : ∀ x ∈ s0 :: rest, x.box.lo 2 ≤ x.box.hi 2) (p : Pt K) :
    stackedContains (s0 :: rest) p
      = translatedUnion (s0 :: rest) (0 :: stackOffsets (s0.box.hi 2) rest) p := by
  rw [stackedSolid_eq]
  cases h : translatedUnion (s0 :: rest) (0 :: stackOffsets (s0.box.hi 2) rest) p
  · simp
  · rw [stacked_bounds_redundant s0 rest hb hv p h]; rfl

/-- … so the deprecated type and the function agree at every point. -/
theorem stackedSolid_eq_stackSolids (s0 : Solid K) (rest : List (Solid K))
    (hb : ∀ x ∈ s0 :: rest, Bounded 3 x) (hv : ∀ x ∈ s0 :: rest, x.box.lo 2 ≤ x.box.hi 2) (p : Pt K) :
    stackedContains (s0 :: rest) p = joined ((stackSolids (s0 :: rest)).map (·.f)) p := by
  rw [stackedSolid_eq_translated_union s0 rest hb hv, stacked_eq_translated_union s0 rest hb]

end Stack

/-! ## The box-set solid (`toolbox3d.RectSet.Solid`) -/
section RectSetSolid
open M3d.RectSet
variable {K : Type} [LinearOrder K] [OfNat K 0]

/-- `rectSetSolid.Contains` answers exactly like the plain "some stored box contains the point" on
every tree in which boxes filed below a cutoff end at or before it, boxes filed above start at or after
it and the cached node bounds enclose them (`Tree.WellSplit`; points **on** a split plane take the
`below || above` branch; a `many` leaf checks its boxes one by one). -/
theorem rectset_solid_eq_any (t : RectSet.Tree K) (h : t.WellSplit) (p : V3 K) :
    t.contains p = t.rects.any (fun r => r.contains p) :=
  RectSet.Tree.contains_eq_any t h p

/-- **Representation invariant, for every history** (`NewRectSet`, then any finite sequence of `Add`,
`Remove`, `AddRectSet`, `RemoveRectSet`, the argument sets being built the same way): the stored boxes
are pairwise distinct, both ends of every stored box lie on split planes, no split plane passes
strictly through a stored box, and the split lists are strictly ascending. -/
theorem rectset_history_aligned (h : Hist K) :
    h.eval.rects.Nodup ∧
    (∀ ax, ax < 3 → (h.eval.splits.get ax).Pairwise (· < ·)) ∧
    (∀ r ∈ h.eval.rects, ∀ ax, ax < 3 → r.lo.get ax ∈ h.eval.splits.get ax ∧ r.hi.get ax ∈ h.eval.splits.get ax) ∧
    (∀ r ∈ h.eval.rects, ∀ ax, ax < 3 → ∀ w ∈ h.eval.splits.get ax, ¬ (r.lo.get ax < w ∧ w < r.hi.get ax)) :=
  ⟨(hinv h).inv.nodup, (hinv h).inv.sorted, (hinv h).inv.ends, (hinv h).inv.aligned⟩

/-- … hence the stored boxes are **pairwise interior-disjoint**: two stored boxes with a common
point strictly inside both are the same box. -/
theorem rectset_history_interior_disjoint (h : Hist K) {q q' : Rect K} (hq : q ∈ h.eval.rects)
    (hq' : q' ∈ h.eval.rects) (p : V3 K)
    (hp : ∀ ax, ax < 3 → q.lo.get ax < p.get ax ∧ p.get ax < q.hi.get ax ∧
      q'.lo.get ax < p.get ax ∧ p.get ax < q'.hi.get ax) : q = q' :=
  same_cell_of_strict ((hinv h).inv.ends q hq) ((hinv h).inv.aligned q hq)
    ((hinv h).inv.ends q' hq') ((hinv h).inv.aligned q' hq') hp

/-- **`RectSet.Solid()` after any history**: `newRectSetSolid` terminates (fuel = number of boxes + 1
is never exhausted), the tree is well split, `Contains` is exactly "some stored box contains the point"
at **every** point, and at every point that lies on none of the planes through the faces of the boxes
of the history it is exactly the point set *boxes added minus boxes removed, in order* (`Hist.sem`).
(On those planes a removed box leaves the closed faces of its neighbours behind, so the stored-box
union — a closed set — is the right specification there.) -/
theorem rectset_history_solid_eq_union (h : Hist K) :
    ∃ t, build (h.eval.rects.length + 1) h.eval = some t ∧ t.WellSplit ∧
      (∀ p, t.contains p = h.eval.rects.any (fun r => r.contains p)) ∧
      (∀ p, h.Generic p → t.contains p = h.sem p) := by
  obtain ⟨t, ht, hw⟩ := build_spec (h.eval.rects.length + 1) h.eval (hinv h).inv (Nat.lt_succ_self _)
  have hu : ∀ p, t.contains p = h.eval.rects.any (fun r => r.contains p) := fun p => by
    rw [rectset_solid_eq_any t hw p]
    exact (build_rects _ _ _ ht).any_eq
  exact ⟨t, ht, hw, hu, fun p g => (hu p).trans ((hinv h).sem p g)⟩

/-- `Add` and `AddRectSet` are exact at **every** point (no genericity needed): the union of the stored
boxes grows by exactly the closed box / by the other set's union. -/
theorem rectset_add_exact (h : Hist K) (r : Rect K) (p : V3 K) :
    (Hist.add h r).eval.union p = (h.eval.union p || r.contains p) := by
  obtain ⟨a1, a2, a3⟩ := addRectSplits_spec (hinv h).inv r
  have hR : ∀ r' ∈ [r], ∀ ax, ax < 3 → r'.lo.get ax ∈ (addRectSplits h.eval r).splits.get ax ∧
      r'.hi.get ax ∈ (addRectSplits h.eval r).splits.get ax := by
    intro r' hr' ax hax
    rw [List.mem_singleton] at hr'; subst hr'
    exact ⟨(a3 ax hax _).mpr (Or.inr (Or.inl rfl)), (a3 ax hax _).mpr (Or.inr (Or.inr rfl))⟩
  rw [Hist.eval, add_eq, (addPieces_spec a1 [r] hR).2 p, a2 p]
  simp

/-- Non-vacuity: a history with a removal, an `AddRectSet` and a zero-thickness box; the built tree
answers at a generic point, on a split plane and outside. -/
example :
    let h : Hist Int := .addSet (.remove (.add .new ⟨⟨0, 0, 0⟩, ⟨2, 2, 2⟩⟩) ⟨⟨1, 0, 0⟩, ⟨2, 2, 2⟩⟩)
      (.add (.add .new ⟨⟨3, 0, 0⟩, ⟨3, 1, 1⟩⟩) ⟨⟨2, 0, 0⟩, ⟨3, 1, 1⟩⟩)
    ∃ t, build (h.eval.rects.length + 1) h.eval = some t ∧ t.wellSplitB = true ∧
      t.contains ⟨1, 1, 1⟩ = true ∧ t.contains ⟨3, 1, 1⟩ = true ∧ t.contains ⟨5, 0, 0⟩ = false := by
  decide +kernel


/-! ### The life cycle of a set object and of its solids -/

/-- **Every `Solid()` call of every program answers for the receiver's current set.**  Take any
program over `RectSet` objects `v_0, v_1, …` (each starting as `NewRectSet()`): any finite sequence of
`v_i.Add`, `v_i.Remove`, `v_i.AddRectSet(v_j)`, `v_i.RemoveRectSet(v_j)` (also `i = j`, also with `v_j`
used and changed again later), `v_i = NewRectSet()` and `v_i.Solid()`.  Then the k-th `Solid()` call
terminates and returns a well-split tree whose `Contains` is exactly "some box stored in the receiver
**at the time of that call** contains the point" — no matter how many `Solid()` calls (on this or
other objects) came before it and what was added since — and, away from the planes through box faces,
exactly the point set "boxes added minus boxes removed" of the receiver's history (`solidCalls`). -/
theorem rectset_program_solid_eq_union (cs : List (Cmd K)) :
    List.Forall₂ (fun (o : Option (RectSet.Tree K)) (h : Hist K) =>
        ∃ t, o = some t ∧ t.WellSplit ∧
          (∀ p, t.contains p = h.eval.rects.any (fun r => r.contains p)) ∧
          (∀ p, h.Generic p → t.contains p = h.sem p))
      (runProg (fun _ => RS.empty) cs) (solidCalls (fun _ => Hist.new) cs) := by
  unfold runProg
  rw [progStates_eq cs (fun _ => RS.empty) (fun _ => Hist.new) (fun _ => rfl), List.map_map]
  generalize solidCalls (fun _ => Hist.new) cs = hs
  induction hs with
  | nil => exact List.Forall₂.nil
  | cons h hs ih =>
    refine List.Forall₂.cons ?_ ih
    obtain ⟨t, ht, hw, hu, hg⟩ := rectset_history_solid_eq_union h
    exact ⟨t, ht, hw, hu, hg⟩

/-- … and the receiver's value at each call is the value of that history: **calling `Solid()` changes
no object** — removing the `Solid()` calls from a program leaves every object as it was, and a
`Solid()` call after a prefix `cs₁` sees exactly the objects `cs₁` produces. -/
theorem rectset_solid_calls_have_no_effect (cs₁ cs₂ : List (Cmd K)) (st : Nat → RS K) :
    progFinal st (cs₁.filter fun c => !c.isSolid) = progFinal st cs₁ ∧
    runProg st (cs₁ ++ cs₂) = runProg st cs₁ ++ runProg (progFinal st (cs₁.filter fun c => !c.isSolid)) cs₂ := by
  refine ⟨progFinal_filter cs₁ st, ?_⟩
  unfold runProg
  rw [progFinal_filter, progStates_append, List.map_append]

/-- Non-vacuity (the grid-aligned gap): `v_0` holds `[0,2]³` and `[4,6]³`, `Solid()` is called, then
`[2,4]³` is added — all six of its faces lie on planes already in use, so no split changes — and
`Solid()` is called again: the second solid contains the centre of the new box, the first (a value
built from the earlier set) does not. -/
example :
    let cs : List (Cmd Int) := [.add 0 ⟨⟨0, 0, 0⟩, ⟨2, 2, 2⟩⟩, .add 0 ⟨⟨4, 4, 4⟩, ⟨6, 6, 6⟩⟩, .solid 0,
      .add 0 ⟨⟨2, 2, 2⟩, ⟨4, 4, 4⟩⟩, .solid 0]
    ((progStates (fun _ => RS.empty) cs).map (·.splits)).Pairwise (· = ·) ∧
    (runProg (fun _ => RS.empty) cs).map (fun o => o.map (·.contains ⟨3, 3, 3⟩)) = [some false, some true] := by
  decide +kernel

end RectSetSolid

/-! ## Smooth joins -/
section Smooth
variable {K : Type} [Field K] [LinearOrder K] [IsStrictOrderedRing K]

/-- **Top-2**: the `closestDists` loop of `SmoothJoin` (initial value, the `i < 2` branch with its
ordering step, and the insertion branch) either returns early because an operand is positive, or ends
with exactly the two largest distances of the operand list, largest first (`none` = `-Inf` = no such
operand). -/
theorem smooth_top2 (ds : List K) :
    smoothLoop (E := Option K) id 0 (none, none) (ds.map some)
      = if ds.any (fun d => decide (0 < d)) then none else some (top2Spec ds) := by
  rw [smoothLoop_eq, stepFold_id_eq, foldl_ins1_eq_top2Spec]
  congr 1
  simp [List.any_map, posE, Function.comp_def]

/-- The closure of `SmoothJoin` computes the specification the correspondence compares against:
inside iff some operand is positive or the two largest distances pass the rounding test. -/
theorem smooth_eq_spec (r : K) (ds : List K) : smoothJoin r ds = smoothSpec r ds := by
  unfold smoothJoin smoothSpec
  rw [smooth_top2]
  cases h : ds.any (fun d => decide (0 < d)) <;> simp

/-- `SmoothJoin` gives the same answer for every ordering of its operands. -/
theorem smooth_perm (r : K) {ds₁ ds₂ : List K} (h : ds₁.Perm ds₂) :
    smoothJoin r ds₁ = smoothJoin r ds₂ := by
  rw [smooth_eq_spec, smooth_eq_spec]
  unfold smoothSpec
  rw [h.any_eq, top2Spec_perm h]

/-- A smooth join contains the plain union. -/
theorem smooth_contains_union (r : K) (ds : List K) (h : ds.any (fun d => decide (0 < d)) = true) :
    smoothJoin r ds = true := by
  rw [smooth_eq_spec]; simp [smoothSpec, h]

private theorem clamp_sq_le (c : K) (hc : c ≤ 0) (r : K) :
    clampAdd (some c) r * clampAdd (some c) r ≤ r * r := by
  simp only [clampAdd]
  split_ifs with h
  · nlinarith
  · nlinarith [mul_self_nonneg r]

private theorem clamp_far (c : K) (r : K) (hc : c ≤ -r) : clampAdd (some c) r = 0 := by
  simp only [clampAdd]
  split_ifs with h
  · exfalso; linarith
  · rfl

/-- **Away from where operands meet**: if fewer than two operands are within the radius of the point
(`SDF > -r`), the smooth join answers exactly like the plain union. -/
theorem smooth_far (r : K) (ds : List K) (h : ds.countP (fun d => decide (-r < d)) < 2) :
    smoothJoin r ds = ds.any (fun d => decide (0 < d)) := by
  rw [smooth_eq_spec]
  unfold smoothSpec
  cases hany : ds.any (fun d => decide (0 < d))
  · simp only [Bool.false_or]
    have hle : ∀ d ∈ ds, d ≤ 0 := by
      intro d hd
      have := List.any_eq_false.mp hany d hd
      simpa using this
    rcases top2Spec_cases ds with ⟨_, ht⟩ | ⟨a, ha, ht⟩ | ⟨a, b, rest, hp, hab, hrest, ht⟩
    · rw [ht]; simp [smoothTest, clampAdd, mul_self_nonneg]
    · rw [ht]
      have ha0 : a ≤ 0 := hle a (by simp [ha])
      simp only [smoothTest, decide_eq_false_iff_not, not_lt]
      have := clamp_sq_le a ha0 r
      simp only [clampAdd] at this ⊢
      linarith
    · rw [ht]
      have ha0 : a ≤ 0 := hle a (hp.subset (by simp))
      have hb : b ≤ -r := by
        by_contra hb
        have hb' : -r < b := lt_of_not_ge hb
        have ha' : -r < a := lt_of_lt_of_le hb' hab
        have hc : (a :: b :: rest).countP (fun d => decide (-r < d)) < 2 := by
          rw [hp.countP_eq]; exact h
        simp [List.countP_cons, hb', ha'] at hc
        omega
      simp only [smoothTest, decide_eq_false_iff_not, not_lt]
      rw [clamp_far b r hb]
      have := clamp_sq_le a ha0 r
      linarith
  · simp

/-- A smooth join **only adds** points that lie within the smoothing radius of at least two operands. -/
theorem smooth_adds_only_near_two (r : K) (ds : List K) (hin : smoothJoin r ds = true)
    (hout : ds.any (fun d => decide (0 < d)) = false) :
    2 ≤ ds.countP (fun d => decide (-r < d)) := by
  by_contra h
  have := smooth_far r ds (by omega)
  rw [hin, hout] at this
  exact Bool.noConfusion this

/-- With a **single operand** the smooth join is the operand itself (`SDF > 0`), whatever the radius. -/
theorem smooth_single (r : K) (d : K) : smoothJoin r [d] = decide (0 < d) := by
  have := smooth_far r [d] (by simp [List.countP_cons]; split_ifs <;> simp)
  simpa using this

/-- With **radius 0** the smooth join is the plain union. -/
theorem smooth_zero_radius (ds : List K) : smoothJoin 0 ds = ds.any (fun d => decide (0 < d)) := by
  rw [smooth_eq_spec]
  unfold smoothSpec
  cases hany : ds.any (fun d => decide (0 < d))
  · simp only [Bool.false_or]
    have hle : ∀ d ∈ ds, d ≤ 0 := by
      intro d hd
      have := List.any_eq_false.mp hany d hd
      simpa using this
    have hz : ∀ c : K, c ≤ 0 → clampAdd (some c) (0 : K) = 0 := by
      intro c hc; simp only [clampAdd]; split_ifs with h
      · exfalso; linarith
      · rfl
    rcases top2Spec_cases ds with ⟨_, ht⟩ | ⟨a, ha, ht⟩ | ⟨a, b, rest, hp, hab, hrest, ht⟩
    · rw [ht]; simp [smoothTest, clampAdd]
    · rw [ht]
      have ha0 : a ≤ 0 := hle a (by simp [ha])
      have hn : clampAdd (none : Option K) (0 : K) = 0 := rfl
      simp only [smoothTest, hz a ha0, hn]; simp
    · rw [ht]
      have ha0 : a ≤ 0 := hle a (hp.subset (by simp))
      have hb0 : b ≤ 0 := hle b (hp.subset (by simp))
      simp [smoothTest, hz a ha0, hz b hb0]
  · simp

/-- Non-vacuity of `smooth_adds_only_near_two`: a smooth join really adds points (two operands at
distance `-1/4` with radius `1`), so the hypothesis `smoothJoin … = true` with no positive operand
is satisfiable. -/
example : smoothJoin (1 : Rat) [-1/4, -1/4] = true ∧
    ([-1/4, -1/4] : List Rat).any (fun d => decide (0 < d)) = false := by decide +kernel

/-! ### `SmoothJoinV2` -/

/-- **V2 reduces to V1**: on any operand list, `SmoothJoinV2` answers like `SmoothJoin` of the same
distances with the effective radius `radius·sqrt(1 − c²)` for some `c` (the |cosine| of the two normals it
picked) — the distance bookkeeping is literally the same loop. -/
theorem smoothV2_reduces (n : Nat) (sqrt abs : K → K) (radius : K) (es : List (K × Pt K)) :
    ∃ c : K, smoothJoinV2 n sqrt abs radius es
      = smoothJoin (radius * sqrt (1 - c * c)) (es.map (·.1)) := by
  have hany : (es.map fun e => ((some e.1, e.2) : DN K)).any (fun e => posE (Prod.fst e))
      = ((es.map (·.1)).map some).any (fun e => posE (id e)) := by
    simp [List.any_map, Function.comp_def]
  unfold smoothJoinV2 smoothJoin
  simp only [smoothLoop_eq]
  rw [hany]
  cases h : ((es.map (·.1)).map some).any (fun e => posE (id e))
  · simp only [Bool.false_eq_true, if_false]
    have hk := stepFold_key (α := K) (E := DN K) Prod.fst 0 ((none, fun _ => 0), (none, fun _ => 0))
      (es.map fun e => (some e.1, e.2))
    simp only [Prod.map, List.map_map, Function.comp_def] at hk
    have hk' : stepFold (E := Option K) id 0 (none, none) ((es.map (·.1)).map some)
        = ((stepFold (E := DN K) Prod.fst 0 ((none, fun _ => 0), (none, fun _ => 0))
            (es.map fun e => (some e.1, e.2))).1.1,
           (stepFold (E := DN K) Prod.fst 0 ((none, fun _ => 0), (none, fun _ => 0))
            (es.map fun e => (some e.1, e.2))).2.1) := by
      rw [hk]; simp [List.map_map, Function.comp_def]
    refine ⟨abs (dotN n (stepFold (E := DN K) Prod.fst 0 ((none, fun _ => 0), (none, fun _ => 0))
            (es.map fun e => (some e.1, e.2))).1.2
          (stepFold (E := DN K) Prod.fst 0 ((none, fun _ => 0), (none, fun _ => 0))
            (es.map fun e => (some e.1, e.2))).2.2), ?_⟩
    rw [hk']
  · exact ⟨0, by simp⟩

/-- `SmoothJoinV2` with a **single operand** is the operand itself. -/
theorem smoothV2_single (n : Nat) (sqrt abs : K → K) (radius : K) (e : K × Pt K) :
    smoothJoinV2 n sqrt abs radius [e] = decide (0 < e.1) := by
  obtain ⟨c, hc⟩ := smoothV2_reduces n sqrt abs radius [e]
  rw [hc]; exact smooth_single _ _

/-- `SmoothJoinV2` with **radius 0** is the plain union. -/
theorem smoothV2_zero_radius (n : Nat) (sqrt abs : K → K) (es : List (K × Pt K)) :
    smoothJoinV2 n sqrt abs 0 es = es.any (fun e => decide (0 < e.1)) := by
  obtain ⟨c, hc⟩ := smoothV2_reduces n sqrt abs 0 es
  rw [hc, zero_mul, smooth_zero_radius, List.any_map]; rfl

/-- `SmoothJoinV2` equals the plain union wherever fewer than two operands are within the smoothing
radius (`sqrt` only needs `0 ≤ sqrt x` and `sqrt x ≤ 1` for `x ≤ 1`, so the effective radius is at most
`radius`). -/
theorem smoothV2_far (n : Nat) (sqrt abs : K → K) (radius : K) (es : List (K × Pt K))
    (hr : 0 ≤ radius) (hs0 : ∀ x, 0 ≤ sqrt x) (hs1 : ∀ x, x ≤ 1 → sqrt x ≤ 1)
    (h : (es.map (·.1)).countP (fun d => decide (-radius < d)) < 2) :
    smoothJoinV2 n sqrt abs radius es = es.any (fun e => decide (0 < e.1)) := by
  obtain ⟨c, hc⟩ := smoothV2_reduces n sqrt abs radius es
  have hle : radius * sqrt (1 - c * c) ≤ radius := by
    have h1 : sqrt (1 - c * c) ≤ 1 := hs1 _ (by nlinarith [mul_self_nonneg c])
    nlinarith [hs0 (1 - c * c)]
  rw [hc, smooth_far _ _ ?_, List.any_map]; rfl
  refine lt_of_le_of_lt (List.countP_mono_left ?_) h
  intro d _ hd
  simp only [decide_eq_true_eq] at hd ⊢
  linarith

/-- `SmoothJoinV2` only adds points within the smoothing radius of at least two operands. -/
theorem smoothV2_adds_only_near_two (n : Nat) (sqrt abs : K → K) (radius : K) (es : List (K × Pt K))
    (hr : 0 ≤ radius) (hs0 : ∀ x, 0 ≤ sqrt x) (hs1 : ∀ x, x ≤ 1 → sqrt x ≤ 1)
    (hin : smoothJoinV2 n sqrt abs radius es = true)
    (hout : es.any (fun e => decide (0 < e.1)) = false) :
    2 ≤ (es.map (·.1)).countP (fun d => decide (-radius < d)) := by
  by_contra h
  have := smoothV2_far n sqrt abs radius es hr hs0 hs1 (by omega)
  rw [hin, hout] at this
  exact Bool.noConfusion this

private theorem slot_eq {l : List (K × Pt K)} {x y : DN K}
    (hx : x = (none, fun _ => 0) ∨ x ∈ l.map (fun e => ((some e.1, e.2) : DN K)))
    (hy : y = (none, fun _ => 0) ∨ y ∈ l.map (fun e => ((some e.1, e.2) : DN K)))
    (hk : x.1 = y.1) (hinj : ∀ a ∈ l, ∀ b ∈ l, a.1 = b.1 → a = b) : x = y := by
  rcases hx with rfl | hx <;> rcases hy with rfl | hy
  · rfl
  · obtain ⟨b, _, rfl⟩ := List.mem_map.mp hy; simp at hk
  · obtain ⟨a, _, rfl⟩ := List.mem_map.mp hx; simp at hk
  · obtain ⟨a, ha, rfl⟩ := List.mem_map.mp hx
    obtain ⟨b, hb, rfl⟩ := List.mem_map.mp hy
    simp only [Option.some.injEq] at hk
    rw [hinj a ha b hb hk]

/-- **`SmoothJoinV2` computes its specification** (`smoothSpecV2`, what the correspondence compares
`sj2` lines against): inside iff some operand is positive, or the rounding test passes for the two
operands with the largest distances (found by sorting), with their normals — whenever operands that
report the same distance also report the same normal. -/
theorem smoothV2_eq_spec (n : Nat) (sqrt abs : K → K) (radius : K) (es : List (K × Pt K))
    (hinj : ∀ a ∈ es, ∀ b ∈ es, a.1 = b.1 → a = b) :
    smoothJoinV2 n sqrt abs radius es = smoothSpecV2 n sqrt abs radius es := by
  -- the sorted list the specification looks at
  have hperm : (es.mergeSort (fun a b => decide (b.1 ≤ a.1))).Perm es := List.mergeSort_perm _ _
  have hpw : (es.mergeSort (fun a b => decide (b.1 ≤ a.1))).Pairwise (fun a b => b.1 ≤ a.1) := by
    have := List.pairwise_mergeSort (le := fun a b : K × Pt K => decide (b.1 ≤ a.1))
      (fun a b c => by simp only [decide_eq_true_eq]; exact fun h1 h2 => le_trans h2 h1)
      (fun a b => by simp only [Bool.or_eq_true, decide_eq_true_eq]; exact le_total _ _) es
    simpa using this
  generalize hs : es.mergeSort (fun a b => decide (b.1 ≤ a.1)) = s at hperm hpw
  have hkeys := stepFold_keys (V := Pt K) (fun _ => (0 : K)) es
  have htop : top2Spec (es.map (·.1)) = (s[0]?.map (·.1), s[1]?.map (·.1)) := by
    rw [← top2Spec_perm (hperm.map (·.1)), top2Spec_of_desc _ (List.pairwise_map.mpr hpw)]
    simp
  rw [htop] at hkeys
  simp only [Prod.map, Prod.mk.injEq] at hkeys
  have hmem := stepFold_mem (α := K) (E := DN K) Prod.fst 0 ((none, fun _ => 0), (none, fun _ => 0))
    (es.map fun e => (some e.1, e.2))
  -- each slot is the operand the specification picks
  have slot : ∀ (x : DN K) (o : Option (K × Pt K)),
      (x = (none, fun _ => 0) ∨ x ∈ es.map (fun e => ((some e.1, e.2) : DN K))) →
      (∀ e, o = some e → e ∈ es) → x.1 = o.map (·.1) →
      x = (o.map (·.1), (o.map (·.2)).getD (fun _ => 0)) := by
    intro x o hx ho hk
    cases o with
    | none =>
      refine slot_eq (l := es) hx (Or.inl rfl) ?_ hinj
      simpa using hk
    | some e =>
      refine slot_eq (l := es) hx (Or.inr (List.mem_map.mpr ⟨e, ho e rfl, rfl⟩)) ?_ hinj
      simpa using hk
  have hin : ∀ (k : Nat) (e : K × Pt K), s[k]? = some e → e ∈ es := fun k e h =>
    hperm.subset (List.mem_of_getElem? h)
  have h0 := slot _ (s[0]?) (by rcases hmem.1 with h | h | h <;> [exact Or.inl h; exact Or.inl h; exact Or.inr h])
    (hin 0) hkeys.1
  have h1 := slot _ (s[1]?) (by rcases hmem.2 with h | h | h <;> [exact Or.inl h; exact Or.inl h; exact Or.inr h])
    (hin 1) hkeys.2
  unfold smoothJoinV2 smoothSpecV2
  simp only [smoothLoop_eq, hs]
  have hany : (es.map fun e => ((some e.1, e.2) : DN K)).any (fun e => posE (Prod.fst e))
      = es.any (fun e => decide (0 < e.1)) := by
    simp [List.any_map, Function.comp_def, posE]
  rw [hany]
  cases es.any (fun e => decide (0 < e.1))
  · simp only [Bool.false_eq_true, if_false, Bool.false_or]
    rw [show stepFold (E := DN K) Prod.fst 0 ((none, fun _ => 0), (none, fun _ => 0))
          (es.map fun e => (some e.1, e.2))
        = ((s[0]?.map (·.1), (s[0]?.map (·.2)).getD (fun _ => 0)),
           (s[1]?.map (·.1), (s[1]?.map (·.2)).getD (fun _ => 0))) from Prod.ext h0 h1]
  · simp

/-- `SmoothJoinV2` gives the same answer for every ordering of its operands, provided operands that
report the same distance at the point also report the same normal (with tied distances and different
normals "the two closest operands" is not well defined; the distances used never depend on the order,
see `smoothV2_reduces` + `smooth_perm`). -/
theorem smoothV2_perm (n : Nat) (sqrt abs : K → K) (radius : K) {es₁ es₂ : List (K × Pt K)}
    (h : es₁.Perm es₂) (hinj : ∀ a ∈ es₁, ∀ b ∈ es₁, a.1 = b.1 → a = b) :
    smoothJoinV2 n sqrt abs radius es₁ = smoothJoinV2 n sqrt abs radius es₂ := by
  have hloop : smoothLoop (E := DN K) Prod.fst 0 ((none, fun _ => 0), (none, fun _ => 0))
        (es₁.map fun e => (some e.1, e.2))
      = smoothLoop (E := DN K) Prod.fst 0 ((none, fun _ => 0), (none, fun _ => 0))
        (es₂.map fun e => (some e.1, e.2)) := by
    simp only [smoothLoop_eq]
    rw [(h.map _).any_eq]
    split_ifs
    · rfl
    · congr 1
      -- the distances in the slots agree (they are the top two of the same multiset)
      have key : ∀ es : List (K × Pt K),
          Prod.map Prod.fst Prod.fst (stepFold (E := DN K) Prod.fst 0 ((none, fun _ => 0), (none, fun _ => 0))
            (es.map fun e => (some e.1, e.2)))
          = top2Spec (es.map (·.1)) := by
        intro es
        rw [stepFold_key]
        simp only [Prod.map, List.map_map, Function.comp_def]
        have := stepFold_id_eq (es.map (·.1))
        simp only [List.map_map, Function.comp_def] at this
        rw [this]
        have := foldl_ins1_eq_top2Spec (es.map (·.1))
        simp only [List.map_map, Function.comp_def] at this
        exact this
      have hk : Prod.map Prod.fst Prod.fst (stepFold (E := DN K) Prod.fst 0 ((none, fun _ => 0), (none, fun _ => 0))
            (es₁.map fun e => (some e.1, e.2)))
          = Prod.map Prod.fst Prod.fst (stepFold (E := DN K) Prod.fst 0 ((none, fun _ => 0), (none, fun _ => 0))
            (es₂.map fun e => (some e.1, e.2))) := by
        rw [key, key, top2Spec_perm (h.map _)]
      have m1 := stepFold_mem (α := K) (E := DN K) Prod.fst 0 ((none, fun _ => 0), (none, fun _ => 0))
        (es₁.map fun e => (some e.1, e.2))
      have m2 := stepFold_mem (α := K) (E := DN K) Prod.fst 0 ((none, fun _ => 0), (none, fun _ => 0))
        (es₂.map fun e => (some e.1, e.2))
      have sub : ∀ y, y ∈ es₂.map (fun e => ((some e.1, e.2) : DN K)) →
          y ∈ es₁.map (fun e => ((some e.1, e.2) : DN K)) := fun y hy => (h.map _).symm.subset hy
      simp only [Prod.map, Prod.mk.injEq] at hk
      refine Prod.ext ?_ ?_
      · refine slot_eq (l := es₁) ?_ ?_ hk.1 hinj
        · rcases m1.1 with h1 | h1 | h1
          · left; exact h1
          · left; exact h1
          · right; exact h1
        · rcases m2.1 with h1 | h1 | h1
          · left; exact h1
          · left; exact h1
          · right; exact sub _ h1
      · refine slot_eq (l := es₁) ?_ ?_ hk.2 hinj
        · rcases m1.2 with h1 | h1 | h1
          · left; exact h1
          · left; exact h1
          · right; exact h1
        · rcases m2.2 with h1 | h1 | h1
          · left; exact h1
          · left; exact h1
          · right; exact sub _ h1
  unfold smoothJoinV2
  simp only [hloop]

/-- **Parallel normals (concentric or duplicated operands): no fillet.**  If every two operands report unit
normals that are equal or opposite at the point (`|n_a · n_b| = 1`: concentric spheres or circles, the same
operand listed twice, parallel faces) and there are at least two operands, the fillet radius
`radius·sqrt(1 − cos²)` is `radius·sqrt 0 = 0` and `SmoothJoinV2` answers exactly like the plain union, for
every radius, whatever the distances — it adds no point at all.  (For one operand see `smoothV2_single`.)
This is what exact arithmetic gives on the inputs where IEEE doubles produce `cos = 1.0000000000000002` and
a NaN radius; `smoothV2_unordered_radius_eq_union` below shows the closure gives the same answer there. -/
theorem smoothV2_parallel_eq_union (n : Nat) (sqrt abs : K → K) (radius : K) (es : List (K × Pt K))
    (hs : sqrt 0 = 0) (hlen : 2 ≤ es.length)
    (hpar : ∀ a ∈ es, ∀ b ∈ es, abs (dotN n a.2 b.2) = 1) :
    smoothJoinV2 n sqrt abs radius es = es.any (fun e => decide (0 < e.1)) := by
  rw [smoothJoinV2_eq_slots, smoothV2Slots_eq]
  cases hany : es.any (fun e => decide (0 < e.1))
  · simp only [Bool.false_eq_true, if_false]
    have hle : ∀ e ∈ es, e.1 ≤ 0 := by
      intro e he
      have := List.any_eq_false.mp hany e he
      simpa using this
    match es, hlen with
    | a :: b :: rest, _ =>
      have hm := stepFold_mem_two (α := K) (E := DN K) Prod.fst ((none, fun _ => 0), (none, fun _ => 0))
        ((some a.1, a.2) : DN K) ((some b.1, b.2) : DN K) (rest.map fun e => (some e.1, e.2))
      have hm' : ∀ x : DN K, x ∈ ((some a.1, a.2) : DN K) :: ((some b.1, b.2) : DN K) ::
            (rest.map fun e => ((some e.1, e.2) : DN K)) →
          ∃ e ∈ a :: b :: rest, x = (some e.1, e.2) := by
        intro x hx
        have hx' : x ∈ (a :: b :: rest).map (fun e => ((some e.1, e.2) : DN K)) := by simpa using hx
        obtain ⟨e, he, rfl⟩ := List.mem_map.mp hx'
        exact ⟨e, he, rfl⟩
      simp only [List.map_cons]
      obtain ⟨e0, he0, h0⟩ := hm' _ hm.1
      obtain ⟨e1, he1, h1⟩ := hm' _ hm.2
      rw [h0, h1]
      have hr0 : smoothV2Radius n sqrt abs radius ((some e0.1, e0.2) : DN K) (some e1.1, e1.2) = 0 := by
        simp only [smoothV2Radius, hpar e0 he0 e1 he1]
        rw [show (1 : K) - 1 * 1 = 0 by ring, hs, mul_zero]
      rw [hr0]
      have hz : ∀ c : K, c ≤ 0 → clampAdd (some c) (0 : K) = 0 := by
        intro c hc; simp only [clampAdd]; split_ifs with h
        · exfalso; linarith
        · rfl
      simp [smoothTest, hz _ (hle e0 he0), hz _ (hle e1 he1)]
  · simp

/-! ### The smooth joins as solids: bounds wrapper + closure, asked at many points -/

/-- **`SmoothJoin(radius, sdfs...)` as a solid computes its specification at every point**: inside iff the
point is within the joint bounds of the operands grown by `radius` (the `CheckedFuncSolid` test) and some
operand is positive there or the rounding test passes on the two largest distances there.  This is the
value the correspondence compares `sjb` lines against. -/
theorem smoothSolid_eq_spec (n : Nat) (r : K) (s0 : Sdf K) (rest : List (Sdf K)) (p : Pt K) :
    (smoothSolid n r s0 rest).f p
      = (((boxesJoin s0.box (rest.map (·.box))).expand r).contains n p
          && smoothSpec r ((s0 :: rest).map (·.d p))) := by
  simp only [smoothSolid, smooth_eq_spec]

/-- The solid `SmoothJoin` returns — bounds test included — answers the same at every point for
**every ordering of its operands**. -/
theorem smoothSolid_perm (n : Nat) (r : K) {s0 t0 : Sdf K} {rest rest' : List (Sdf K)}
    (h : (s0 :: rest).Perm (t0 :: rest')) (p : Pt K) :
    (smoothSolid n r s0 rest).f p = (smoothSolid n r t0 rest').f p := by
  simp only [smoothSolid]
  have hb : (s0.box :: rest.map (·.box)).Perm (t0.box :: rest'.map (·.box)) := by
    simpa using h.map (·.box)
  rw [expand_boxesJoin_perm n r hb p, smooth_perm r (h.map (·.d p))]

/-- **A smooth join contains the plain union** of its operands (operands positive only inside their own
bounds, `radius ≥ 0`): the grown joint bounds never cut an operand off. -/
theorem smoothSolid_contains_union (n : Nat) (r : K) (hr : 0 ≤ r) (s0 : Sdf K) (rest : List (Sdf K))
    (hb : ∀ s ∈ s0 :: rest, SdfBounded n s) (p : Pt K)
    (h : (s0 :: rest).any (fun s => decide (0 < s.d p)) = true) :
    (smoothSolid n r s0 rest).f p = true := by
  obtain ⟨s, hs, hpos⟩ := List.any_eq_true.mp h
  have hpos' : 0 < s.d p := by simpa using hpos
  have hbox := expand_boxesJoin_contains_of_mem n hr s0.box (rest.map (·.box))
    (b := s.box) (by simpa using List.mem_map_of_mem (f := (·.box)) hs) (hb s hs p hpos')
  simp only [smoothSolid, hbox, Bool.true_and]
  apply smooth_contains_union
  rw [List.any_map]
  exact h

/-- **Away from where operands meet** — fewer than two operands within `radius` of the point — the smooth
join answers exactly like the plain union, inside, around and outside its bounds. -/
theorem smoothSolid_far (n : Nat) (r : K) (hr : 0 ≤ r) (s0 : Sdf K) (rest : List (Sdf K))
    (hb : ∀ s ∈ s0 :: rest, SdfBounded n s) (p : Pt K)
    (h : ((s0 :: rest).map (·.d p)).countP (fun d => decide (-r < d)) < 2) :
    (smoothSolid n r s0 rest).f p = (s0 :: rest).any (fun s => decide (0 < s.d p)) := by
  cases hany : (s0 :: rest).any (fun s => decide (0 < s.d p))
  · have : smoothJoin r ((s0 :: rest).map (·.d p)) = false := by
      rw [smooth_far r _ h, List.any_map]; exact hany
    simp only [smoothSolid, this, Bool.and_false]
  · exact smoothSolid_contains_union n r hr s0 rest hb p hany

/-- With **radius 0** the solid is exactly the plain union of its operands. -/
theorem smoothSolid_zero_radius (n : Nat) (s0 : Sdf K) (rest : List (Sdf K))
    (hb : ∀ s ∈ s0 :: rest, SdfBounded n s) (p : Pt K) :
    (smoothSolid n 0 s0 rest).f p = (s0 :: rest).any (fun s => decide (0 < s.d p)) := by
  cases hany : (s0 :: rest).any (fun s => decide (0 < s.d p))
  · have : smoothJoin 0 ((s0 :: rest).map (·.d p)) = false := by
      rw [smooth_zero_radius, List.any_map]; exact hany
    simp only [smoothSolid, this, Bool.and_false]
  · exact smoothSolid_contains_union n 0 (le_refl 0) s0 rest hb p hany

/-- With a **single operand** the solid is that operand (`SDF > 0`), whatever the radius `≥ 0`. -/
theorem smoothSolid_single (n : Nat) (r : K) (hr : 0 ≤ r) (s0 : Sdf K) (hb : SdfBounded n s0) (p : Pt K) :
    (smoothSolid n r s0 []).f p = decide (0 < s0.d p) := by
  have := smoothSolid_far n r hr s0 [] (by simpa using hb) p
    (by simp only [List.map_cons, List.map_nil, List.countP_cons, List.countP_nil]; split_ifs <;> simp)
  simpa using this

/-- A smooth join **only adds** points within `radius` of at least two operands (and inside its bounds). -/
theorem smoothSolid_adds_only_near_two (n : Nat) (r : K) (s0 : Sdf K) (rest : List (Sdf K)) (p : Pt K)
    (hin : (smoothSolid n r s0 rest).f p = true)
    (hout : (s0 :: rest).any (fun s => decide (0 < s.d p)) = false) :
    2 ≤ ((s0 :: rest).map (·.d p)).countP (fun d => decide (-r < d)) := by
  simp only [smoothSolid, Bool.and_eq_true] at hin
  exact smooth_adds_only_near_two r _ hin.2 (by rw [List.any_map]; exact hout)

/-- Non-vacuity: two unit squares side by side, radius `1/2`; the operands are positive only inside their
bounds, the solid contains a point of the union, adds the point `(1, 9/8)` just above the seam (both
distances `-1/8`) and rejects `(1, 2)` outside the grown bounds although both operands are "near" there
according to the harness-chosen field. -/
example :
    let a : Sdf Rat := ⟨⟨fun _ => 0, fun i => if i = 0 then 1 else 1⟩, fun p => if p 1 ≤ 1 then (if p 0 ≤ 1 then 1/4 else -1/8) else -1/8⟩
    let b : Sdf Rat := ⟨⟨fun i => if i = 0 then 1 else 0, fun i => if i = 0 then 2 else 1⟩, fun p => if p 1 ≤ 1 then (if 1 ≤ p 0 then 1/4 else -1/8) else -1/8⟩
    (smoothSolid 2 (1/2) a [b]).f (fun i => if i = 0 then 1/2 else 1/2) = true ∧
    (smoothSolid 2 (1/2) a [b]).f (fun i => if i = 0 then 1 else 9/8) = true ∧
    (smoothSolid 2 (1/2) a [b]).f (fun i => if i = 0 then 1 else 2) = false := by
  decide +kernel

/-- `SmoothJoinV2` as a solid is the same bounds test around the V2 closure; with operands that report
equal normals whenever they report equal distances at the point it computes its specification there. -/
theorem smoothSolidV2_eq_spec (n : Nat) (sqrt abs : K → K) (r : K) (s0 : NSdf K) (rest : List (NSdf K))
    (p : Pt K)
    (hinj : ∀ a ∈ (s0 :: rest).map (·.dn p), ∀ b ∈ (s0 :: rest).map (·.dn p), a.1 = b.1 → a = b) :
    (smoothSolidV2 n sqrt abs r s0 rest).f p
      = (((boxesJoin s0.box (rest.map (·.box))).expand r).contains n p
          && smoothSpecV2 n sqrt abs r ((s0 :: rest).map (·.dn p))) := by
  simp only [smoothSolidV2]
  rw [smoothV2_eq_spec n sqrt abs r _ hinj]

/-- `SmoothJoinV2` as a solid is order independent (bounds included), under the same tie condition. -/
theorem smoothSolidV2_perm (n : Nat) (sqrt abs : K → K) (r : K) {s0 t0 : NSdf K} {rest rest' : List (NSdf K)}
    (h : (s0 :: rest).Perm (t0 :: rest')) (p : Pt K)
    (hinj : ∀ a ∈ (s0 :: rest).map (·.dn p), ∀ b ∈ (s0 :: rest).map (·.dn p), a.1 = b.1 → a = b) :
    (smoothSolidV2 n sqrt abs r s0 rest).f p = (smoothSolidV2 n sqrt abs r t0 rest').f p := by
  simp only [smoothSolidV2]
  have hb : (s0.box :: rest.map (·.box)).Perm (t0.box :: rest'.map (·.box)) := by
    simpa using h.map (·.box)
  rw [expand_boxesJoin_perm n r hb p, smoothV2_perm n sqrt abs r (h.map (·.dn p)) hinj]

/-- `SmoothJoinV2` as a solid contains the plain union, and equals it wherever fewer than two operands are
within `radius` (in particular for a single operand and for radius 0). -/
theorem smoothSolidV2_far (n : Nat) (sqrt abs : K → K) (r : K) (hr : 0 ≤ r)
    (hs0 : ∀ x, 0 ≤ sqrt x) (hs1 : ∀ x, x ≤ 1 → sqrt x ≤ 1) (s0 : NSdf K) (rest : List (NSdf K))
    (hb : ∀ s ∈ s0 :: rest, NSdfBounded n s) (p : Pt K) :
    ((s0 :: rest).any (fun s => decide (0 < (s.dn p).1)) = true → (smoothSolidV2 n sqrt abs r s0 rest).f p = true) ∧
    (((s0 :: rest).map (fun s => (s.dn p).1)).countP (fun d => decide (-r < d)) < 2 →
      (smoothSolidV2 n sqrt abs r s0 rest).f p = (s0 :: rest).any (fun s => decide (0 < (s.dn p).1))) := by
  have union : (s0 :: rest).any (fun s => decide (0 < (s.dn p).1)) = true →
      (smoothSolidV2 n sqrt abs r s0 rest).f p = true := by
    intro h
    obtain ⟨s, hs, hpos⟩ := List.any_eq_true.mp h
    have hpos' : 0 < (s.dn p).1 := by simpa using hpos
    have hbox := expand_boxesJoin_contains_of_mem n hr s0.box (rest.map (·.box))
      (b := s.box) (by simpa using List.mem_map_of_mem (f := (·.box)) hs) (hb s hs p hpos')
    simp only [smoothSolidV2, hbox, Bool.true_and]
    obtain ⟨c, hc⟩ := smoothV2_reduces n sqrt abs r ((s0 :: rest).map (·.dn p))
    rw [hc]
    apply smooth_contains_union
    rw [List.map_map, List.any_map]
    exact h
  refine ⟨union, fun hfar => ?_⟩
  cases hany : (s0 :: rest).any (fun s => decide (0 < (s.dn p).1))
  · have : smoothJoinV2 n sqrt abs r ((s0 :: rest).map (·.dn p)) = false := by
      rw [smoothV2_far n sqrt abs r _ hr hs0 hs1 (by simpa [List.map_map, Function.comp_def] using hfar),
        List.any_map]
      exact hany
    simp only [smoothSolidV2, this, Bool.and_false]
  · exact union hany

/-- Non-vacuity of the `sqrt` hypotheses: the exact square root used by the driver on {0, 1}
(`fun x => if x = 1 then 1 else 0`) satisfies them. -/
example : (∀ x : Rat, 0 ≤ (fun x => if x = 1 then (1 : Rat) else 0) x) ∧
    (∀ x : Rat, x ≤ 1 → (fun x => if x = 1 then (1 : Rat) else 0) x ≤ 1) := by
  constructor <;> intro x <;> (try intro _) <;> simp only <;> split_ifs <;> norm_num

/-- The closure **before the repair** (`legacySmoothJoin`, kept in the model file) violated both
clauses: order dependence with three operands (defect F2) … -/
theorem legacy_order_dependent :
    ∃ (r : Int) (ds₁ ds₂ : List Int), ds₁.Perm ds₂ ∧ legacySmoothJoin r ds₁ ≠ legacySmoothJoin r ds₂ :=
  ⟨4, [-1, -4, 0], [-4, -1, 0], List.Perm.swap _ _ _, by decide⟩

/-- … and a single operand outset by the radius (defect F3). -/
theorem legacy_single_outset :
    ∃ (r d : Int), legacySmoothJoin r [d] ≠ decide (0 < d) := ⟨2, -1, by decide⟩

end Smooth

/-! ### `SmoothJoinV2` when the fillet radius is not a number (IEEE: `cos = 1.0000000000000002`) -/
section SmoothNaN
open M3d.SolidAlg

/-- **An unordered fillet radius adds nothing** — for EVERY scalar structure (no algebraic law is used, so this
holds for IEEE doubles with their NaN as it does for a field): if the radius `r = radius·sqrt(1 − cos²)` the
closure computes from the two slots its loop ends with is *unordered* (`r·r < y` is false for every `y`, which is
what a NaN does), `SmoothJoinV2` answers exactly like the plain union: the final statement is the positive test
`d1*d1 + d2*d2 > r*r`, which an unordered `r` fails.  The Go closure is in this situation whenever the two
nearest operands report bit-identical unit normals `n` whose self-dot rounds to `1.0000000000000002`
(`1 − cos²` is then negative and `math.Sqrt` returns NaN): concentric spheres, duplicated operands.  A rewrite
of the final test into the negated form `!(d1*d1 + d2*d2 <= r*r)` answers `true` there
(`negated_test_differs_at_nan`), i.e. contains points arbitrarily far from every operand. -/
theorem smoothV2_unordered_radius_eq_union {α : Type} [LE α] [DecidableLE α] [LT α] [DecidableLT α]
    [OfNat α 0] [OfNat α 1] [Add α] [Sub α] [Mul α]
    (n : Nat) (sqrt abs : α → α) (radius : α) (es : List (α × Pt α))
    (hnan : ∀ c0 c1, smoothV2Slots es = some (c0, c1) → Unordered (smoothV2Radius n sqrt abs radius c0 c1)) :
    smoothJoinV2 n sqrt abs radius es = es.any (fun e => decide (0 < e.1)) := by
  rw [smoothJoinV2_eq_slots]
  have hs := smoothV2Slots_eq es
  cases hany : es.any (fun e => decide (0 < e.1))
  · rw [hany] at hs
    simp only [Bool.false_eq_true, if_false] at hs
    rw [hs]
    exact smoothTest_unordered _ _ _ (hnan _ _ hs)
  · rw [hany] at hs
    simp only [if_true] at hs
    rw [hs]

/-- The same in the scalar with a NaN over an ordered field (`NF K`: arithmetic propagates NaN, comparisons with
NaN are false, `sqrt` of a negative number is NaN): whenever the dot product of the two normals the loop ends
with exceeds 1 in absolute value — by however little — `SmoothJoinV2` is the plain union. -/
theorem smoothV2_cos_above_one_eq_union {K : Type} [Field K] [LinearOrder K] [IsStrictOrderedRing K]
    (n : Nat) (f : K → K) (radius : NF K) (es : List (NF K × Pt (NF K)))
    (hcos : ∀ c0 c1, smoothV2Slots es = some (c0, c1) →
      ∃ γ : K, dotN n c0.2 c1.2 = NF.of γ ∧ 1 < γ * γ) :
    smoothJoinV2 n (NF.sqrtWith f) NF.abs radius es = es.any (fun e => decide (0 < e.1)) := by
  apply smoothV2_unordered_radius_eq_union
  intro c0 c1 h
  obtain ⟨γ, hd, hγ⟩ := hcos c0 c1 h
  have hr : smoothV2Radius n (NF.sqrtWith f) NF.abs radius c0 c1 = NF.nan := by
    simp only [smoothV2Radius, hd]
    have habs : ∃ δ : K, NF.abs (NF.of γ) = NF.of δ ∧ δ * δ = γ * γ := by
      by_cases hneg : γ < 0
      · exact ⟨-γ, by simp [NF.abs, NF.of, hneg], by ring⟩
      · exact ⟨γ, by simp [NF.abs, NF.of, hneg], rfl⟩
    obtain ⟨δ, hδ, hδ2⟩ := habs
    rw [hδ]
    have h1 : (1 : NF K) - NF.of δ * NF.of δ = NF.of (1 - δ * δ) := rfl
    rw [h1]
    have h2 : NF.sqrtWith f (NF.of (1 - δ * δ)) = NF.nan := by
      have : 1 - δ * δ < 0 := by rw [hδ2]; linarith
      simp [NF.sqrtWith, NF.of, this]
    rw [h2, NF.mul_nan]
  rw [hr]
  exact NF.unordered_nan

/-- **Away from where operands meet, NaN included**: run the `SmoothJoinV2` closure in `NF K` — an ordered field
with a NaN that arithmetic propagates, on which every comparison is false and where the square root of a negative
number is NaN — on REAL distances and a real radius `R ≥ 0`, but with ARBITRARY normals (not unit, with a self-dot
above 1, NaN components: anything).  If fewer than two operands are within `R` of the point, the answer is exactly
the plain union.  (Either the fillet radius comes out as NaN and the positive final test fails, or it is a number
`≤ R` and the loop and the test are the ones of the field, `smooth_far`.)  This removes the "no NaN / unit normals"
assumption from `smoothV2_far` for the clause of the property that forbids adding far points. -/
theorem smoothV2_far_nan {K : Type} [Field K] [LinearOrder K] [IsStrictOrderedRing K] (n : Nat) (f : K → K) (R : K) (es : List (K × Pt (NF K)))
    (hr : 0 ≤ R) (hs0 : ∀ x, 0 ≤ f x) (hs1 : ∀ x, x ≤ 1 → f x ≤ 1)
    (h : (es.map (·.1)).countP (fun d => decide (-R < d)) < 2) :
    smoothJoinV2 n (NF.sqrtWith f) NF.abs (NF.of R) (es.map fun e => (NF.of e.1, e.2))
      = es.any (fun e => decide (0 < e.1)) := by
  have hanyN : (es.map fun e => ((NF.of e.1, e.2) : NF K × Pt (NF K))).any (fun e => decide (0 < e.1))
      = es.any (fun e => decide (0 < e.1)) := by
    rw [List.any_map]
    congr 1
    funext e
    exact decide_eq_decide.mpr (NF.of_lt_of 0 e.1)
  rw [smoothJoinV2_eq_slots, smoothV2Slots_eq, hanyN]
  cases hany : es.any (fun e => decide (0 < e.1))
  · simp only [Bool.false_eq_true, if_false]
    -- the distances in the two slots are the two largest distances, embedded
    have hkeys := stepFold_key (α := NF K) (E := DN (NF K)) Prod.fst 0
      ((none, fun _ => 0), (none, fun _ => 0))
      ((es.map fun e => ((NF.of e.1, e.2) : NF K × Pt (NF K))).map fun e => (some e.1, e.2))
    have hl : (((es.map fun e => ((NF.of e.1, e.2) : NF K × Pt (NF K))).map
          fun e => ((some e.1, e.2) : DN (NF K))).map Prod.fst)
        = ((es.map (·.1)).map some).map (Option.map NF.of) := by
      simp [List.map_map, Function.comp_def]
    rw [hl] at hkeys
    have ht := stepFold_map_of (K := K) 0 (none, none) ((es.map (·.1)).map some)
    simp only [Prod.map, Option.map_none] at ht hkeys
    rw [ht, stepFold_id_eq, foldl_ins1_eq_top2Spec] at hkeys
    generalize stepFold (E := DN (NF K)) Prod.fst 0 ((none, fun _ => 0), (none, fun _ => 0))
      ((es.map fun e => ((NF.of e.1, e.2) : NF K × Pt (NF K))).map fun e => (some e.1, e.2)) = st at hkeys
    obtain ⟨c0, c1⟩ := st
    simp only [Prod.mk.injEq] at hkeys
    -- the radius: NaN or a number ≤ R
    cases hv : (smoothV2Radius n (NF.sqrtWith f) NF.abs (NF.of R) c0 c1).v with
    | none =>
      have : smoothV2Radius n (NF.sqrtWith f) NF.abs (NF.of R) c0 c1 = NF.nan := by
        cases hh : smoothV2Radius n (NF.sqrtWith f) NF.abs (NF.of R) c0 c1 with
        | mk v => rw [hh] at hv; simp only at hv; rw [hv]; rfl
      rw [this]
      exact smoothTest_unordered _ _ _ NF.unordered_nan
    | some ρ =>
      have hρ : smoothV2Radius n (NF.sqrtWith f) NF.abs (NF.of R) c0 c1 = NF.of ρ := by
        cases hh : smoothV2Radius n (NF.sqrtWith f) NF.abs (NF.of R) c0 c1 with
        | mk v => rw [hh] at hv; simp only at hv; rw [hv]; rfl
      have hle := radius_of_le n f R hr hs0 hs1 c0 c1 ρ hρ
      rw [hρ, hkeys.1, hkeys.2, smoothTest_of]
      -- in K: the plain smooth join with radius ρ ≤ R, far
      have hfar : (es.map (·.1)).countP (fun d => decide (-ρ < d)) < 2 := by
        refine lt_of_le_of_lt (List.countP_mono_left ?_) h
        intro d _ hd
        simp only [decide_eq_true_eq] at hd ⊢
        linarith
      have h1 := smooth_far ρ (es.map (·.1)) hfar
      rw [smooth_eq_spec] at h1
      unfold smoothSpec at h1
      rw [List.any_map] at h1
      have h2 : (es.any ((fun d => decide (0 < d)) ∘ fun x => x.1)) = false := hany
      rw [h2] at h1
      simpa using h1
  · simp

/-- Non-vacuity of `smoothV2_far_nan`: its hypotheses hold for the NaN-producing input of
`negated_test_differs_at_nan` (two operands 5 radii away, `sqrt` the constant 0 function). -/
example : ∃ (f : Rat → Rat) (R : Rat) (es : List (Rat × Pt (NF Rat))), 0 ≤ R ∧ (∀ x, 0 ≤ f x) ∧
    (∀ x, x ≤ 1 → f x ≤ 1) ∧ (es.map (·.1)).countP (fun d => decide (-R < d)) < 2 ∧ es.length = 2 :=
  ⟨fun _ => 0, 1, [(-5, fun _ => NF.nan), (-5, fun _ => NF.nan)], by norm_num, fun _ => le_refl _,
    fun _ _ => by norm_num, by decide +kernel, rfl⟩

/-- Non-vacuity, and the difference the final test's form makes: two copies of one operand at distance `-5` with
the normal `(3/5 + 1/1024, 4/5)` (self-dot just above 1), radius 1: the closure answers `false` (= the plain
union; the point is 5 radii away from both), the negated form of the test answers `true`. -/
theorem negated_test_differs_at_nan :
    let n : Pt (NF Rat) := fun i => if i = 0 then NF.of (3/5 + 1/1024) else NF.of (4/5)
    let es : List (NF Rat × Pt (NF Rat)) := [(NF.of (-5), n), (NF.of (-5), n)]
    smoothJoinV2 2 (NF.sqrtWith fun _ => 0) NF.abs (NF.of 1) es = false ∧
    es.any (fun e => decide (0 < e.1)) = false ∧
    (∃ c0 c1, smoothV2Slots es = some (c0, c1) ∧
      smoothV2Radius 2 (NF.sqrtWith fun _ => 0) NF.abs (NF.of 1) c0 c1 = NF.nan ∧
      smoothTestNegated c0.1 c1.1 (smoothV2Radius 2 (NF.sqrtWith fun _ => 0) NF.abs (NF.of 1) c0 c1) = true) := by
  refine ⟨by decide +kernel, by decide +kernel, _, _, rfl, by decide +kernel, by decide +kernel⟩

end SmoothNaN
end M3d.C04
