import M3d.Lemmas.Bounded
import M3d.Lemmas.BoundedPoly
import M3d.Lemmas.BoundedStacked
import M3d.Lemmas.BoundedPolyHull
import M3d.Lemmas.BoundedPolyRect
import M3d.Lemmas.BoundedRectSet
import M3d.Lemmas.BoundedRectSetOrd
import M3d.Lemmas.BoundedTriLine
import Mathlib.Analysis.Real.Sqrt
/-!
# C03 — Solids never contain points outside their reported bounding box

Theorems about `M3d.Bd.SolidExpr` (lean/M3d/Model/Bounded.lean), the deep embedding of the solid
constructors and combinators of `model2d`/`model3d`/`toolbox3d`, with `bounds`/`contains` computed
exactly as the Go code computes `Min()/Max()/Contains()`.  Everything is proved for every linear
ordered field `K` (ℚ is the instance the correspondence executes, ℝ the one with square roots).

* `bounded_sound`   — if every opaque leaf answers `false` outside its box, so does every expression;
* `bounds_ordered`  — `Min ≤ Max` for every expression whose leaves / parameters have it;
* `wrapper_does_not_cut_*` — wrappers that put a box in front of a membership test do not remove
  points of the underlying definition;
* one lemma per combinator and the closed-form primitive leaves (`sphere`, `rect`, `capsule`,
  `cylinder`, `cone`, `torus` via the axis extent of a tilted disc).
-/
set_option linter.unusedSectionVars false
set_option linter.unusedVariables false
namespace M3d.C03
open M3d.Bd

variable {K : Type} [Field K] [LinearOrder K] [IsStrictOrderedRing K]

/-- `P` holds for every opaque leaf (`prim`) of the expression.  Constructors whose `Contains`
starts with an explicit bounds check need nothing. -/
inductive Leaves (P : Solid K → Prop) : SolidExpr K → Prop
  | prim (s) : P s → Leaves P (.prim s)
  | checked (box e) : Leaves P e → Leaves P (.checked box e)
  | cache (e) : Leaves P e → Leaves P (.cache e)
  | joined (a rest) : Leaves P a → (∀ e ∈ rest, Leaves P e) → Leaves P (.joined a rest)
  | inter (a rest) : Leaves P a → (∀ e ∈ rest, Leaves P e) → Leaves P (.inter a rest)
  | sub (p n) : Leaves P p → Leaves P n → Leaves P (.sub p n)
  | stack (a rest) : Leaves P a → (∀ e ∈ rest, Leaves P e) → Leaves P (.stack a rest)
  | stacked (a rest) : Leaves P a → (∀ e ∈ rest, Leaves P e) → Leaves P (.stacked a rest)
  | xform (ts e) : Leaves P e → Leaves P (.xform ts e)
  | profile (e a b) : Leaves P e → Leaves P (.profile e a b)
  | cross (e axis v) : Leaves P e → Leaves P (.cross e axis v)
  | revolve (e axis) : Leaves P e → Leaves P (.revolve e axis)
  | clamp (e axis mn mx) : Leaves P e → Leaves P (.clamp e axis mn mx)
  | sdf (s o) : Leaves P (.sdf s o)
  | smooth (r f rest) : Leaves P (.smooth r f rest)
  | inset (c i) : Leaves P (.inset c i)
  | hollow (c r) : Leaves P (.hollow c r)
  | metaball (fall rt o f rest) : Leaves P (.metaball fall rt o f rest)
  | polytope (d3 box cs) : Leaves P (.polytope d3 box cs)
  | rectSet (t) : Leaves P (.rectSet t)
  | heightMap (lo hi a b g) : Leaves P (.heightMap lo hi a b g)

theorem evalL_eq (sq : K → K) (eps : K) (es : List (SolidExpr K)) :
    evalL sq eps es = es.map (fun e => e.eval sq eps) := by
  induction es with
  | nil => simp [evalL]
  | cons e es ih => simp [evalL, ih]

theorem mem_evalL {sq : K → K} {eps : K} {es : List (SolidExpr K)} {P : Solid K → Prop}
    (h : ∀ e ∈ es, P (e.eval sq eps)) : ∀ s ∈ evalL sq eps es, P s := by
  intro s hs
  rw [evalL_eq] at hs
  obtain ⟨e, he, rfl⟩ := List.mem_map.mp hs
  exact h e he

/-! ## The structural theorems -/

/-- **`bounded_sound`.**  If every opaque leaf is bounded (`Contains(p) ⇒ p` in its reported box) then
so is every expression built from the combinators: `e.contains p = true` implies `p` lies in
`e.bounds` on every axis the solid uses.  Structural induction, one lemma per combinator. -/
theorem bounded_sound (sq : K → K) (eps : K) (e : SolidExpr K) (h : Leaves Bounded e) :
    Bounded (e.eval sq eps) := by
  induction h with
  | prim s hs => simpa [SolidExpr.eval] using hs
  | checked box e _ ih => simp only [SolidExpr.eval]; exact force_bounded _ _
  | cache e _ ih => simp only [SolidExpr.eval]; exact cache_bounded _
  | joined a rest _ _ iha ihr => simp only [SolidExpr.eval]; exact joined_bounded _ _ iha (mem_evalL ihr)
  | inter a rest _ _ iha ihr => simp only [SolidExpr.eval]; exact inter_bounded _ _ iha (mem_evalL ihr)
  | sub p n _ _ ihp _ => simp only [SolidExpr.eval]; exact sub_bounded _ _ ihp
  | stack a rest _ _ iha _ => simp only [SolidExpr.eval]; exact stack_bounded _ _ iha
  | stacked a rest _ _ _ _ => simp only [SolidExpr.eval]; exact stacked_bounded _ _
  | xform ts e _ _ => simp only [SolidExpr.eval]; exact xform_bounded _ _
  | profile e a b _ _ => simp only [SolidExpr.eval]; exact profile_bounded _ _ _
  | cross e axis v _ _ => simp only [SolidExpr.eval]; exact cross_bounded _ _ _
  | revolve e axis _ _ => simp only [SolidExpr.eval]; exact revolve_bounded _ _ _ _
  | clamp e axis mn mx _ _ => simp only [SolidExpr.eval]; exact clamp_bounded _ _ _ _
  | sdf s o => simp only [SolidExpr.eval]; exact sdf_bounded _ _
  | smooth r f rest => simp only [SolidExpr.eval]; exact smooth_bounded _ _ _
  | inset c i => simp only [SolidExpr.eval]; exact inset_bounded _ _
  | hollow c r => simp only [SolidExpr.eval]; exact hollow_bounded _ _
  | metaball fall rt o f rest => simp only [SolidExpr.eval]; exact metaball_bounded _ _ _ _ _
  | polytope d3 box cs => simp only [SolidExpr.eval]; exact polytope_bounded _ _ _
  | rectSet t => simp only [SolidExpr.eval]; exact rectSet_bounded _
  | heightMap lo hi a b g => simp only [SolidExpr.eval]; exact heightMap_bounded _ _ _ _ _

/-- `bounded_sound` in terms of `contains`/`bounds`: the statement of the property. -/
theorem contains_in_bounds (sq : K → K) (eps : K) (e : SolidExpr K) (h : Leaves Bounded e) (p : Pt K)
    (hp : e.contains sq eps p = true) (i : Fin 3) (hi : Active (e.eval sq eps).d3 i) :
    (e.bounds sq eps).lo i ≤ p i ∧ p i ≤ (e.bounds sq eps).hi i :=
  bounded_sound sq eps e h p hp i hi

/-- The side conditions under which the library builds the solid at all (`FuncSolid` panics on
inverted bounds) plus `Min ≤ Max` of the leaves that matter.  Note what is *absent*: nothing is
required of the later operands of a join / stack, of any operand of an intersection, of the negative
operand of a subtraction, of the transform of `TransformSolid`, or of the inset of a collider solid. -/
inductive Valid (sq : K → K) (eps : K) : SolidExpr K → Prop
  | prim (s) : Ordered s → Valid sq eps (.prim s)
  | checked (box e) : (∀ i, Active (e.eval sq eps).d3 i → box.lo i ≤ box.hi i) → Valid sq eps (.checked box e)
  | cache (e) : Valid sq eps e → Valid sq eps (.cache e)
  | joined (a rest) : Valid sq eps a → Valid sq eps (.joined a rest)
  | inter (a rest) : Valid sq eps (.inter a rest)
  | sub (p n) : Valid sq eps p → Valid sq eps (.sub p n)
  | stack (a rest) : Valid sq eps a → Valid sq eps (.stack a rest)
  | stacked (a rest) : Valid sq eps a → (a.eval sq eps).d3 = true → Valid sq eps (.stacked a rest)
  | xform (ts e) : Valid sq eps e → Valid sq eps (.xform ts e)
  | profile (e a b) : Valid sq eps e → a ≤ b → Valid sq eps (.profile e a b)
  | cross (e axis v) : Valid sq eps e → (e.eval sq eps).d3 = true → Valid sq eps (.cross e axis v)
  | revolve (e axis) : Ordered (revolveS sq eps (e.eval sq eps) axis) → Valid sq eps (.revolve e axis)
  | clamp (e axis mn mx) : Valid sq eps e → Valid sq eps (.clamp e axis mn mx)
  | sdf (s o) : Ordered (sdfS s o) → Valid sq eps (.sdf s o)
  | smooth (r f rest) : 0 ≤ r → (∀ i, Active f.d3 i → f.box.lo i ≤ f.box.hi i) → Valid sq eps (.smooth r f rest)
  | inset (c i) : Valid sq eps (.inset c i)
  | hollow (c r) : 0 ≤ r → (∀ i, Active c.d3 i → c.box.lo i ≤ c.box.hi i) → Valid sq eps (.hollow c r)
  | metaball (fall rt o f rest) : Ordered (metaballS fall rt o f rest) → Valid sq eps (.metaball fall rt o f rest)
  | polytope (d3 box cs) : (∀ i, Active d3 i → box.lo i ≤ box.hi i) → Valid sq eps (.polytope d3 box cs)
  | rectSet (t) : (∀ i, t.box.lo i ≤ t.box.hi i) → Valid sq eps (.rectSet t)
  | heightMap (lo hi a b g) : lo 0 ≤ hi 0 → lo 1 ≤ hi 1 → a ≤ b → Valid sq eps (.heightMap lo hi a b g)

/-- **`bounds_ordered`.**  `Min() ≤ Max()` componentwise for every expression whose leaves have it:
in particular an `IntersectedSolid` of disjoint operands still reports `min ≤ max` (`Max()` ends with
`.Max(i.Min())`), negative `Scale`/`VecScale` factors swap, `NewColliderSolidInset` clamps, and
`TransformSolid` never hands `FuncSolid` an inverted box. -/
theorem bounds_ordered (sq : K → K) (eps : K) (e : SolidExpr K) (h : Valid sq eps e) :
    Ordered (e.eval sq eps) := by
  induction h with
  | prim s hs => simpa [SolidExpr.eval] using hs
  | checked box e hb => simp only [SolidExpr.eval]; exact hb
  | cache e _ ih => simp only [SolidExpr.eval]; exact ih
  | joined a rest _ ih => simp only [SolidExpr.eval]; exact joined_ordered _ _ ih
  | inter a rest => simp only [SolidExpr.eval]; exact inter_ordered _ _
  | sub p n _ ih => simp only [SolidExpr.eval]; exact sub_ordered _ _ ih
  | stack a rest _ ih => simp only [SolidExpr.eval]; exact stack_ordered _ _ ih
  | stacked a rest _ h3 ih => simp only [SolidExpr.eval]; exact stacked_ordered _ _ ih h3
  | xform ts e _ ih => simp only [SolidExpr.eval]; exact xform_ordered _ _ ih
  | profile e a b _ hab ih => simp only [SolidExpr.eval]; exact profile_ordered _ _ _ ih hab
  | cross e axis v _ h3 ih => simp only [SolidExpr.eval]; exact cross_ordered _ _ _ ih h3
  | revolve e axis h => simp only [SolidExpr.eval]; exact h
  | clamp e axis mn mx _ ih => simp only [SolidExpr.eval]; exact clamp_ordered _ _ _ _ ih
  | sdf s o h => simp only [SolidExpr.eval]; exact h
  | smooth r f rest hr hf => simp only [SolidExpr.eval]; exact smooth_ordered _ _ _ hr hf
  | inset c i => simp only [SolidExpr.eval]; exact inset_ordered _ _
  | hollow c r hr hc => simp only [SolidExpr.eval]; exact hollow_ordered _ _ hr hc
  | metaball fall rt o f rest h => simp only [SolidExpr.eval]; exact h
  | polytope d3 box cs h => simp only [SolidExpr.eval]; exact h
  | rectSet t h => simp only [SolidExpr.eval]; exact fun i _ => h i
  | heightMap lo hi a b g h0 h1 hab =>
    simp only [SolidExpr.eval, heightMapS, checkedS]
    intro i _
    rcases fin3 i with rfl | rfl | rfl <;> simpa

/-! ## One lemma per combinator -/

/-- `checked_clips`: `CheckedFuncSolid(min, max, f)` (hence `ForceSolidBounds`, `CacheSolidBounds`,
`TransformSolid`, `ProfileSolid`, `CrossSectionSolid`, `RevolveSolid`, `SDFToSolid`, `SmoothJoin`,
`MetaballSolid`, `ClampAxis`, `SliceSolid`) answers `false` outside `[min, max]`, whatever `f` is. -/
theorem checked_clips (d3 : Bool) (box : Box K) (g : Pt K → Bool) : Bounded (checkedS d3 box g) :=
  checked_bounded d3 box g

/-- `joined_bounds`: `JoinedSolid` of bounded operands is bounded by the running `Min`/`Max`. -/
theorem joined_bounds (a : Solid K) (rest : List (Solid K)) (ha : Bounded a) (hr : ∀ s ∈ rest, Bounded s) :
    Bounded (joinedS a rest) := joined_bounded a rest ha hr

/-- `intersected_bounds`: `IntersectedSolid` of bounded operands is bounded by `[max of mins,
(min of maxes).Max(max of mins)]`, and that box always has `min ≤ max` — also when the operands'
boxes are disjoint (the reported box is then degenerate on the offending axis and contains no
point of the solid). -/
theorem intersected_bounds (a : Solid K) (rest : List (Solid K)) (ha : Bounded a) (hr : ∀ s ∈ rest, Bounded s) :
    Bounded (interS a rest) ∧ Ordered (interS a rest) := ⟨inter_bounded a rest ha hr, inter_ordered a rest⟩

/-- `subtracted_bounds`: `SubtractedSolid` reports the bounds of its positive part, and is inside. -/
theorem subtracted_bounds (pos neg : Solid K) (hp : Bounded pos) : Bounded (subS pos neg) := sub_bounded pos neg hp

/-- `stacked_bounds`: `StackSolids` (a join of `TransformSolid`-translated operands) is bounded as soon
as its first operand is; the deprecated `StackedSolid` checks `InBounds` itself. -/
theorem stacked_bounds (a : Solid K) (rest : List (Solid K)) (ha : Bounded a) :
    Bounded (stackS a rest) ∧ Bounded (stackedS a rest) := ⟨stack_bounded a rest ha, stacked_bounded a rest⟩

/-- `transform_bounds`: per transform kind (`Translate`, `Scale`, `VecScale` — negative factors swap
min/max — `Matrix3Transform`/`Matrix2Transform`, and `JoinedTransform` chains), `ApplyBounds` returns
a box with `min ≤ max` that contains the image of every point of the original box. -/
theorem transform_bounds (d3 : Bool) (ts : List (Xf1 K)) (hf : ∀ t ∈ ts, t.Fits d3) (b : Box K)
    (hb : ∀ i, Active d3 i → b.lo i ≤ b.hi i) :
    (∀ i, Active d3 i → (applyBoundsL ts b).lo i ≤ (applyBoundsL ts b).hi i) ∧
    (∀ p, InBox d3 b p → InBox d3 (applyBoundsL ts b) (applyL ts p)) :=
  ⟨applyBoundsL_ordered d3 ts b hb, fun p hp => applyBoundsL_encloses d3 ts hf b p hp⟩

/-- `smoothjoin_bounds`: every point `SmoothJoin`'s closure accepts has some SDF value `> -r`, hence
lies in the union of the operands' boxes grown by `r` — the box `SmoothJoin` reports. -/
theorem smoothjoin_bounds (r : K) (hr : 0 ≤ r) (first : SDFL K) (rest : List (SDFL K))
    (hb : ∀ s ∈ first :: rest, SDFBoxed s) (hd : ∀ s ∈ rest, s.d3 = first.d3) (p : Pt K)
    (hp : smoothPred r ((first :: rest).map (fun s => s.d p)) = true) :
    InBox first.d3 (smoothS r first rest).box p := by
  have := smooth_no_cut r hr first rest hb hd p hp
  exact smooth_bounded r first rest p this

/-- `inset_hollow_bounds`: `ColliderContains(c, p, inset)` (inset or outset) only holds inside the box
`NewColliderSolidInset` computes, and `SphereCollision(p, r)` only inside the box
`NewColliderSolidHollow` computes; `NewColliderSolidInset`'s box always has `min ≤ max`. -/
theorem inset_hollow_bounds (c : ColL K) (hc : ColOK c) (p : Pt K) :
    (∀ inset, colliderContains c p inset = true → InBox c.d3 (insetS c inset).box p) ∧
    (∀ r, 0 < r → c.sphere p r = true → InBox c.d3 (hollowS c r).box p) ∧
    (∀ inset, Ordered (insetS c inset)) :=
  ⟨fun inset h => inset_bounded c inset p (inset_no_cut c hc inset p h),
   fun r hr h => hollow_bounded c r p (hollow_no_cut c hc r hr p h),
   fun inset => inset_ordered c inset⟩

/-- `metaball_bounds`: under the stated contract of `Metaball` (the field is at least
`MetaballDistBound(d)` at distance more than `d` from the bounds) and a non-increasing falloff, the
outset search ends with `valueForOutset(maxOutset) ≤ threshold`, and then no point outside the
union box grown by `maxOutset` has a field sum above the threshold. -/
theorem metaball_bounds (fall : K → K) (hfall : ∀ a b, a ≤ b → fall b ≤ fall a) (rt diag tiny outset : K)
    (first : MBL K) (rest : List (MBL K)) (hm : ∀ m ∈ first :: rest, MBBounded m)
    (hd : ∀ m ∈ rest, m.d3 = first.d3)
    (ho : mbOutset (valueForOutset fall (first :: rest)) (fall rt) diag tiny = some outset) (p : Pt K)
    (hp : fall rt < (first :: rest).foldl (fun sum m => sum + fall (m.field p)) 0) :
    InBox first.d3 (metaballS fall rt outset first rest).box p := by
  have hv := mbOutset_ok _ _ _ _ _ ho
  have := metaball_no_cut fall hfall rt outset first rest hm hd hv p hp
  exact metaball_bounded fall rt outset first rest p this

/-! ## Wrappers do not cut -/

/-- `CacheSolidBounds` does not cut: on a bounded operand it is the same set. -/
theorem wrapper_does_not_cut_cache (sq : K → K) (eps : K) (e : SolidExpr K) (h : Leaves Bounded e) (p : Pt K) :
    (SolidExpr.cache e).contains sq eps p = e.contains sq eps p := by
  simp only [SolidExpr.contains, SolidExpr.eval]
  exact cache_f_iff _ (bounded_sound sq eps e h) p

/-- `TransformSolid` does not cut: the image under the transform of every point of a bounded
operand is contained in the transformed solid (any chain of translations, scalings with non-zero —
possibly negative, possibly anisotropic — factors, and matrices with their inverse). -/
theorem wrapper_does_not_cut_transform (sq : K → K) (eps : K) (ts : List (Xf1 K)) (e : SolidExpr K)
    (h : Leaves Bounded e) (hf : ∀ t ∈ ts, t.Fits (e.eval sq eps).d3) (hi : ∀ t ∈ ts, t.Invertible)
    (q : Pt K) (hq : e.contains sq eps q = true) : (SolidExpr.xform ts e).contains sq eps (applyL ts q) = true := by
  simp only [SolidExpr.contains, SolidExpr.eval] at hq ⊢
  exact xform_no_cut ts _ (bounded_sound sq eps e h) hf hi q hq

/-- `StackedSolid` (deprecated type; `Contains` = `InBounds(s, c) &&` "some operand moved up by the running
`currentZ` contains `c`") does not cut: for 3-D operands that are bounded and report `Min().Z ≤ Max().Z`,
wherever the loop over the moved operands (`stackedAny`, the underlying definition) says inside, the
solid answers `true` — the running `lastMax.Z` of `Max()` and the running `currentZ` of `Contains` agree,
and `JoinedSolid(s).Min()` is below every moved operand. -/
theorem wrapper_does_not_cut_stacked (sq : K → K) (eps : K) (a : SolidExpr K) (rest : List (SolidExpr K))
    (hl : ∀ e ∈ a :: rest, Leaves Bounded e) (h3 : ∀ e ∈ a :: rest, (e.eval sq eps).d3 = true)
    (ho : ∀ e ∈ a :: rest, (e.bounds sq eps).lo 2 ≤ (e.bounds sq eps).hi 2) (p : Pt K)
    (hp : stackedAny p ((a.bounds sq eps).lo 2) (a.eval sq eps :: evalL sq eps rest) = true) :
    (SolidExpr.stacked a rest).contains sq eps p = true := by
  simp only [SolidExpr.contains, SolidExpr.eval]
  refine stacked_no_cut _ _ ?_ p hp
  intro s hs
  rcases List.mem_cons.mp hs with rfl | hs
  · exact ⟨h3 a (List.mem_cons_self ..), bounded_sound sq eps a (hl a (List.mem_cons_self ..)),
      ho a (List.mem_cons_self ..)⟩
  · rw [evalL_eq] at hs
    obtain ⟨e, he, rfl⟩ := List.mem_map.mp hs
    have hm : e ∈ a :: rest := List.mem_cons_of_mem _ he
    exact ⟨h3 e hm, bounded_sound sq eps e (hl e hm), ho e hm⟩

/-- non-vacuity of `wrapper_does_not_cut_stacked`: two unit cubes; the point `(1/2, 1/2, 3/2)` lies in the
second cube moved up by one, and the stacked solid contains it. -/
example : (SolidExpr.stacked (α := ℚ) (.prim (rectS true (mk3 0 0 0) (mk3 1 1 1)))
      [.prim (rectS true (mk3 0 0 0) (mk3 1 1 1))]).contains (fun x => x) 0 (mk3 (1 / 2) (1 / 2) (3 / 2)) = true := by
  decide +kernel

/-- `ProfileSolid` does not cut. -/
theorem wrapper_does_not_cut_profile (sq : K → K) (eps : K) (e : SolidExpr K) (a b : K) (h : Leaves Bounded e)
    (p : Pt K) (hp : e.contains sq eps (mk3 (p 0) (p 1) 0) = true) (hz : a ≤ p 2 ∧ p 2 ≤ b) :
    (SolidExpr.profile e a b).contains sq eps p = true := by
  simp only [SolidExpr.contains, SolidExpr.eval] at hp ⊢
  exact profile_no_cut _ a b (bounded_sound sq eps e h) p hp hz

/-- `CrossSectionSolid` / `toolbox3d.SliceSolid` do not cut. -/
theorem wrapper_does_not_cut_cross (sq : K → K) (eps : K) (e : SolidExpr K) (axis : Fin 3) (v : K)
    (h : Leaves Bounded e) (h3 : (e.eval sq eps).d3 = true) (p : Pt K)
    (hp : e.contains sq eps (to3D axis v p) = true) : (SolidExpr.cross e axis v).contains sq eps p = true := by
  simp only [SolidExpr.contains, SolidExpr.eval] at hp ⊢
  exact cross_no_cut _ axis v (bounded_sound sq eps e h) h3 p hp

/-- `RevolveSolid` does not cut a point that lies in the box of its bounding cylinder
(`cylinder_bounded` shows that box contains every point of the cylinder). -/
theorem wrapper_does_not_cut_revolve (sq : K → K) (eps : K) (e : SolidExpr K) (axis : Pt K) (c : Pt K)
    (hbox : InBox true ((SolidExpr.revolve e axis).bounds sq eps) c)
    (hc : e.contains sq eps (mk3 (pnorm sq (projectOut sq c (pnormalize sq axis))) (pdot (pnormalize sq axis) c) 0) = true) :
    (SolidExpr.revolve e axis).contains sq eps c = true := by
  simp only [SolidExpr.contains, SolidExpr.bounds, SolidExpr.eval] at hc hbox ⊢
  exact revolve_no_cut sq eps _ axis c hbox hc

/-- `SDFToSolid` does not cut: wherever `sdf(p) > -outset` the wrapper answers `true`. -/
theorem wrapper_does_not_cut_sdf (sq : K → K) (eps : K) (s : SDFL K) (outset : K) (hs : SDFBoxed s) (p : Pt K)
    (hp : -outset < s.d p) : (SolidExpr.sdf s outset).contains sq eps p = true := by
  simp only [SolidExpr.contains, SolidExpr.eval]
  exact sdf_no_cut s outset hs p hp

/-- `SmoothJoin` does not cut: the bounds are grown by the full radius. -/
theorem wrapper_does_not_cut_smooth (sq : K → K) (eps : K) (r : K) (hr : 0 ≤ r) (first : SDFL K)
    (rest : List (SDFL K)) (hb : ∀ s ∈ first :: rest, SDFBoxed s) (hd : ∀ s ∈ rest, s.d3 = first.d3) (p : Pt K)
    (hp : smoothPred r ((first :: rest).map (fun s => s.d p)) = true) :
    (SolidExpr.smooth r first rest).contains sq eps p = true := by
  simp only [SolidExpr.contains, SolidExpr.eval]
  exact smooth_no_cut r hr first rest hb hd p hp

/-- `NewColliderSolidInset` / `NewColliderSolidHollow` do not cut. -/
theorem wrapper_does_not_cut_collider (sq : K → K) (eps : K) (c : ColL K) (hc : ColOK c) (p : Pt K) :
    (∀ inset, colliderContains c p inset = true → (SolidExpr.inset c inset).contains sq eps p = true) ∧
    (∀ r, 0 < r → c.sphere p r = true → (SolidExpr.hollow c r).contains sq eps p = true) := by
  simp only [SolidExpr.contains, SolidExpr.eval]
  exact ⟨fun inset h => inset_no_cut c hc inset p h, fun r hr h => hollow_no_cut c hc r hr p h⟩

/-- `MetaballSolid` does not cut (outset as found by the search). -/
theorem wrapper_does_not_cut_metaball (sq : K → K) (eps : K) (fall : K → K) (hfall : ∀ a b, a ≤ b → fall b ≤ fall a)
    (rt diag tiny outset : K) (first : MBL K) (rest : List (MBL K)) (hm : ∀ m ∈ first :: rest, MBBounded m)
    (hd : ∀ m ∈ rest, m.d3 = first.d3)
    (ho : mbOutset (valueForOutset fall (first :: rest)) (fall rt) diag tiny = some outset) (p : Pt K)
    (hp : fall rt < (first :: rest).foldl (fun sum m => sum + fall (m.field p)) 0) :
    (SolidExpr.metaball fall rt outset first rest).contains sq eps p = true := by
  simp only [SolidExpr.contains, SolidExpr.eval]
  exact metaball_no_cut fall hfall rt outset first rest hm hd (mbOutset_ok _ _ _ _ _ ho) p hp

/-! ## Polytope-derived solids: un-normalised constraints -/

/-- **`polytope_scale_invariant`.**  `ConvexPolytope.Contains` does not depend on the lengths of the
constraint normals: the system `{Normal: n·s, Max: m·s}` with one factor `s > 0` per constraint (plane
equations in intercept form, normals of length 1e-6 or 1e90, …) accepts exactly the points of `{n, m}`.
This is why kind `polycut` may demand of `ConvexPolytope.Solid()` of the *scaled* system the answers of
the half-space test of the *unscaled* one. -/
theorem polytope_scale_invariant (l : List (SCon K)) (hs : ∀ c ∈ l, 0 < c.s) (p : Pt K) :
    polyContains (scaledCs l) p = polyContains (unscaledCs l) p := polyContains_scaled l hs p

/-- **`wrapper_does_not_cut_polytope`.**  `ConvexPolytope.Solid()` answers `InBounds(box) && Contains`;
with a box that encloses the intersection of the half-spaces (what `Mesh().Min()/Max()` has to deliver)
the solid of the scaled system is exactly the half-space test of the unscaled one: nothing is cut, for
any positive factors.  The enclosure hypothesis is what kind `polycut` and the site
`c03:wrapper-cuts:polytope` test on the implementation (it is proved below for the *model* of `Mesh()`
only in the form of scale invariance, `mesh_vertices_scale_invariant`). -/
theorem wrapper_does_not_cut_polytope (sq : K → K) (eps : K) (d3 : Bool) (box : Box K) (l : List (SCon K))
    (hs : ∀ c ∈ l, 0 < c.s) (henc : ∀ q, polyContains (unscaledCs l) q = true → InBox d3 box q) (p : Pt K) :
    (SolidExpr.polytope d3 box (scaledCs l)).contains sq eps p = polyContains (unscaledCs l) p := by
  simp only [SolidExpr.contains, SolidExpr.eval]
  rw [polytope_no_cut d3 box (scaledCs l) (fun q hq => henc q (by rwa [polyContains_scaled l hs q] at hq)) p]
  exact polyContains_scaled l hs p

/-- **`mesh_vertices_scale_invariant`.**  The vertices that `ConvexPolytope.Mesh()` enumerates — for every
sorted index triple (pair in 2-D) the solution of the linear system, kept when `|det| ≥ rawArea·1e-8`
(`rawArea` = product of the normals' lengths, so the test is *relative*) and no other constraint is
violated by more than `spatialEpsilon·|normal|` — are the same for every positive rescaling of the
constraints, for every square-root function; hence so is the box `Solid()` reports (`vertsBox`).  An
absolute threshold on the determinant (seeded change C03-6) falsifies exactly this. -/
theorem mesh_vertices_scale_invariant (sq : K → K) (hsq : SqrtOK sq) (tol : K) (l : List (SCon K))
    (hs : ∀ c ∈ l, 0 < c.s) :
    meshVerts3 sq tol (scaledCs l) = meshVerts3 sq tol (unscaledCs l) ∧
    meshVerts2 sq tol (scaledCs l) = meshVerts2 sq tol (unscaledCs l) ∧
    vertsBox (meshVerts3 sq tol (scaledCs l)) = vertsBox (meshVerts3 sq tol (unscaledCs l)) ∧
    vertsBox (meshVerts2 sq tol (scaledCs l)) = vertsBox (meshVerts2 sq tol (unscaledCs l)) := by
  have h3 := meshVerts3_scaled sq hsq tol l hs
  have h2 := meshVerts2_scaled sq hsq tol l hs
  exact ⟨h3, h2, by rw [h3], by rw [h2]⟩

/-- **`polytope_box_encloses`.**  The box `ConvexPolytope.Solid()` takes from `Mesh()` — modelled as the box
spanned by the vertices that `Mesh()` enumerates (`vertsBox ∘ meshVerts3/2`) — contains every point of the
intersection of the half-spaces, provided that intersection is bounded (`R` bounds every coordinate) and
none of its basic points (three / two constraints with independent normals active) is rejected by the
conditioning test `|det| < rawArea·tol` of `vertex` (`tol` = the literal `1e-8`; the hypothesis says the
polytope has no vertex whose normals are parallel to within `1e-8`).  Proof: ray shooting inside the active
planes until `d` independent constraints are active (a basic feasible point that dominates the given point
on the chosen axis), Cramer's rule, completeness of the index enumeration.
Not modelled: `addConvexFace`, `Repair(epsilon)` and the removal of degenerate triangles (they move a
vertex by at most `spatialEpsilon`); 2-D systems have normals with a zero third slot. -/
theorem polytope_box_encloses (sq : K → K) (hsq : SqrtOK sq) (tol : K) (htol : 0 ≤ tol) (cs : List (Pt K × K))
    (R : K) (p : Pt K) (hp : polyContains cs p = true) :
    ((∀ j q, polyContains cs q = true → q j ≤ R ∧ -R ≤ q j) →
      (∀ a ∈ cs, ∀ b ∈ cs, ∀ c ∈ cs, det3 a.1 b.1 c.1 ≠ 0 →
        ¬ sabs (det3 a.1 b.1 c.1) < pnorm sq a.1 * pnorm sq b.1 * pnorm sq c.1 * tol) →
      InBox true (vertsBox (meshVerts3 sq tol cs)) p) ∧
    ((∀ l ∈ cs, l.1.z = 0) → (∀ q, polyContains cs q = true → (q 0 ≤ R ∧ -R ≤ q 0) ∧ (q 1 ≤ R ∧ -R ≤ q 1)) →
      (∀ a ∈ cs, ∀ b ∈ cs, det2 a.1 b.1 ≠ 0 → ¬ sabs (det2 a.1 b.1) < pnorm sq a.1 * pnorm sq b.1 * tol) →
      InBox false (vertsBox (meshVerts2 sq tol cs)) p) := by
  have hpf := (polyContains_iff cs p).mp hp
  refine ⟨fun hR hcond => ?_, fun hz hR hcond => ?_⟩
  · exact verts_box_encloses3 sq hsq tol htol cs R
      (fun j q hq => hR j q ((polyContains_iff cs q).mpr hq)) hcond p hpf
  · exact verts_box_encloses2 sq hsq tol htol cs hz R
      (fun q hq => (hR q ((polyContains_iff cs q).mpr hq)).1)
      (fun q hq => (hR q ((polyContains_iff cs q).mpr hq)).2) hcond p hpf

/-- **`wrapper_does_not_cut_polytope_mesh`.**  `ConvexPolytope.Solid()` with the box of the model of `Mesh()`,
for constraints with arbitrary positive factors (3-D): under the hypotheses of `polytope_box_encloses` for
the *unscaled* system, `Contains` of the solid of the *scaled* system is exactly the half-space test of the
unscaled one — the box cuts nothing, whatever the lengths of the normals.  (`mesh_vertices_scale_invariant`
+ `polytope_box_encloses` + `wrapper_does_not_cut_polytope`.) -/
theorem wrapper_does_not_cut_polytope_mesh (sq : K → K) (hsq : SqrtOK sq) (eps tol : K) (htol : 0 ≤ tol)
    (l : List (SCon K)) (hs : ∀ c ∈ l, 0 < c.s) (R : K)
    (hR : ∀ j q, polyContains (unscaledCs l) q = true → q j ≤ R ∧ -R ≤ q j)
    (hcond : ∀ a ∈ unscaledCs l, ∀ b ∈ unscaledCs l, ∀ c ∈ unscaledCs l, det3 a.1 b.1 c.1 ≠ 0 →
      ¬ sabs (det3 a.1 b.1 c.1) < pnorm sq a.1 * pnorm sq b.1 * pnorm sq c.1 * tol) (p : Pt K) :
    (SolidExpr.polytope true (vertsBox (meshVerts3 sq tol (scaledCs l))) (scaledCs l)).contains sq eps p =
      polyContains (unscaledCs l) p := by
  rw [(mesh_vertices_scale_invariant sq hsq tol l hs).1]
  exact wrapper_does_not_cut_polytope sq eps true _ l hs
    (fun q hq => (polytope_box_encloses sq hsq tol htol (unscaledCs l) R q hq).1 hR hcond) p

/-- the 2-D twin of `wrapper_does_not_cut_polytope_mesh` (`model2d.ConvexPolytope.Solid()`). -/
theorem wrapper_does_not_cut_polytope_mesh2 (sq : K → K) (hsq : SqrtOK sq) (eps tol : K) (htol : 0 ≤ tol)
    (l : List (SCon K)) (hs : ∀ c ∈ l, 0 < c.s) (hz : ∀ c ∈ unscaledCs l, c.1.z = 0) (R : K)
    (hR : ∀ q, polyContains (unscaledCs l) q = true → (q 0 ≤ R ∧ -R ≤ q 0) ∧ (q 1 ≤ R ∧ -R ≤ q 1))
    (hcond : ∀ a ∈ unscaledCs l, ∀ b ∈ unscaledCs l, det2 a.1 b.1 ≠ 0 →
      ¬ sabs (det2 a.1 b.1) < pnorm sq a.1 * pnorm sq b.1 * tol) (p : Pt K) :
    (SolidExpr.polytope false (vertsBox (meshVerts2 sq tol (scaledCs l))) (scaledCs l)).contains sq eps p =
      polyContains (unscaledCs l) p := by
  rw [(mesh_vertices_scale_invariant sq hsq tol l hs).2.1]
  exact wrapper_does_not_cut_polytope sq eps false _ l hs
    (fun q hq => (polytope_box_encloses sq hsq tol htol (unscaledCs l) R q hq).2 hz hR hcond) p

/-- non-vacuity of `polytope_box_encloses` (2-D, `ℝ`, `Real.sqrt`, `tol = 0`): the unit square. -/
example (p : Pt ℝ)
    (hp : polyContains [(mk3 1 0 0, (1 : ℝ)), (mk3 (-1) 0 0, 0), (mk3 0 1 0, 1), (mk3 0 (-1) 0, 0)] p = true) :
    InBox false (vertsBox (meshVerts2 Real.sqrt 0
      [(mk3 1 0 0, (1 : ℝ)), (mk3 (-1) 0 0, 0), (mk3 0 1 0, 1), (mk3 0 (-1) 0, 0)])) p := by
  refine (polytope_box_encloses Real.sqrt (fun x hx => ⟨Real.sqrt_nonneg x, Real.mul_self_sqrt hx⟩) 0 (le_refl _)
    _ 1 p hp).2 ?_ ?_ ?_
  · intro l hl
    simp only [List.mem_cons, List.not_mem_nil, or_false] at hl
    rcases hl with rfl | rfl | rfl | rfl <;> rfl
  · intro q hq
    have h := (polyContains_iff _ q).mp hq
    have h1 := h _ (List.mem_cons_self ..)
    have h2 := h _ (List.mem_cons_of_mem _ (List.mem_cons_self ..))
    have h3 := h _ (List.mem_cons_of_mem _ (List.mem_cons_of_mem _ (List.mem_cons_self ..)))
    have h4 := h _ (List.mem_cons_of_mem _ (List.mem_cons_of_mem _ (List.mem_cons_of_mem _ (List.mem_cons_self ..))))
    simp only [pdot_xyz, mk3_x, mk3_y, mk3_z] at h1 h2 h3 h4
    simp only [get_x, get_y]
    constructor <;> constructor <;> linarith
  · intro a _ b _ _
    rw [mul_zero, sabs_eq]
    exact not_lt.mpr (abs_nonneg _)

/-- non-vacuity: the unit square with normals of length `2⁻⁴⁰`, `2⁴⁰`, `1`, `1/4`: the factors are
positive, the scaled system accepts the centre, and (with the exact square root of the squares that
occur) the model of `Mesh()` enumerates the four corners, as for unit normals. -/
example : (∀ c ∈ ([⟨1 / 1099511627776, mk3 1 0 0, 1⟩, ⟨1099511627776, mk3 (-1) 0 0, 0⟩, ⟨1, mk3 0 1 0, 1⟩,
        ⟨1 / 4, mk3 0 (-1) 0, 0⟩] : List (SCon ℚ)), 0 < c.s) ∧
    polyContains (scaledCs ([⟨1 / 1099511627776, mk3 1 0 0, 1⟩, ⟨1099511627776, mk3 (-1) 0 0, 0⟩,
        ⟨1, mk3 0 1 0, 1⟩, ⟨1 / 4, mk3 0 (-1) 0, 0⟩] : List (SCon ℚ))) (mk3 (1 / 2) (1 / 2) 0) = true ∧
    (meshVerts2 (α := ℚ) (fun x => if x = 1 then 1 else if x = 1 / 16 then 1 / 4 else if x = 1208925819614629174706176
        then 1099511627776 else 1 / 1099511627776) (1 / 100000000)
      (scaledCs [⟨1 / 1099511627776, mk3 1 0 0, 1⟩, ⟨1099511627776, mk3 (-1) 0 0, 0⟩, ⟨1, mk3 0 1 0, 1⟩,
        ⟨1 / 4, mk3 0 (-1) 0, 0⟩])).map (fun v => (v.x, v.y)) = [(1, 1), (1, 0), (0, 1), (0, 0)] := by
  refine ⟨?_, by decide +kernel, by decide +kernel⟩
  intro c hc
  simp only [List.mem_cons, List.not_mem_nil, or_false] at hc
  rcases hc with rfl | rfl | rfl | rfl <;> norm_num

/-! ## `NewConvexPolytopeRect`: the polytope of a rect is the rect -/

/-- **`rect_polytope_contains`.**  `NewConvexPolytopeRect(min, max).Contains(p)` — the half-space test of the six
(3-D) / four (2-D) axis constraints `rectCons3/rectCons2`, which the tie
`M3d.KernelsTie.Polytope.newConvexPolytopeRect` proves to be the constraints of the regenerated source — is the box
test `min ≤ p ≤ max` (`Rect.Contains`, `InBounds`): containment in the rect polytope *is* being inside the declared
box, for every `min, max` (inverted ones included: both are empty). -/
theorem rect_polytope_contains (lo hi p : Pt K) :
    polyContains (rectCons3 lo hi) p = inB true ⟨lo, hi⟩ p ∧
    polyContains (rectCons2 lo hi) p = inB false ⟨lo, hi⟩ p :=
  ⟨polyContains_rect3 lo hi p, polyContains_rect2 lo hi p⟩

/-- **`rect_polytope_mesh_box`.**  For `min ≤ max` the vertices that `Mesh()` enumerates for
`NewConvexPolytopeRect(min, max)` are exactly the corners (the 12 of 20 index triples with two constraints of the same
axis have determinant `0 < rawArea·tol` and are rejected; the other 8 have `|det| = 1 ≥ tol` and solve to a corner,
which no other constraint rejects because `spatialEpsilon ≥ 0`), so the box `Solid()` reports — `Mesh().Min()/Max()`
in the model of the vertex enumeration — is `[min, max]` itself.  `tol` is the conditioning literal (`1e-8` in the
source; needed: `0 < tol ≤ 1`).  2-D: the unused third slot of the box is `0`. -/
theorem rect_polytope_mesh_box (sq : K → K) (hsq : SqrtOK sq) (tol : K) (h0 : 0 < tol) (h1 : tol ≤ 1) (lo hi : Pt K)
    (hx : lo.x ≤ hi.x) (hy : lo.y ≤ hi.y) :
    (lo.z ≤ hi.z → vertsBox (meshVerts3 sq tol (rectCons3 lo hi)) = ⟨lo, hi⟩) ∧
    vertsBox (meshVerts2 sq tol (rectCons2 lo hi)) = ⟨mk3 lo.x lo.y 0, mk3 hi.x hi.y 0⟩ :=
  ⟨fun hz => vertsBox_rect3 sq hsq tol h0 h1 lo hi hx hy hz, vertsBox_rect2 sq hsq tol h0 h1 lo hi hx hy⟩

/-- **`wrapper_does_not_cut_polytope_rect`.**  `NewConvexPolytopeRect(min, max).Solid()` (box = that of the
vertices the model of `Mesh()` enumerates, membership = `InBounds && ConvexPolytope.Contains`) contains exactly the
points of `[min, max]`, for every `min, max`: nothing outside the declared rect is contained and nothing inside it is
cut.  This is what kind `prect` demands of the implementation. -/
theorem wrapper_does_not_cut_polytope_rect (sq : K → K) (hsq : SqrtOK sq) (eps tol : K) (h0 : 0 < tol) (h1 : tol ≤ 1)
    (lo hi p : Pt K) :
    (SolidExpr.polytope true (vertsBox (meshVerts3 sq tol (rectCons3 lo hi))) (rectCons3 lo hi)).contains sq eps p =
      inB true ⟨lo, hi⟩ p ∧
    (SolidExpr.polytope false (vertsBox (meshVerts2 sq tol (rectCons2 lo hi))) (rectCons2 lo hi)).contains sq eps p =
      inB false ⟨lo, hi⟩ p := by
  simp only [SolidExpr.contains, SolidExpr.eval]
  exact ⟨rectPolyS3_contains sq hsq tol h0 h1 lo hi p, rectPolyS2_contains sq hsq tol h0 h1 lo hi p⟩

/-- non-vacuity of `rect_polytope_mesh_box` / `wrapper_does_not_cut_polytope_rect` (`ℝ`, `Real.sqrt`, the literal
`1e-8`): the solid of `NewConvexPolytopeRect((0,0,0), (1,2,3))` reports `[(0,0,0), (1,2,3)]` and contains its corner
`(1,2,3)` but not `(1,2,4)`. -/
example :
    vertsBox (meshVerts3 Real.sqrt (1e-8 : ℝ) (rectCons3 (mk3 0 0 0) (mk3 1 2 3))) = ⟨mk3 0 0 0, mk3 1 2 3⟩ ∧
    (SolidExpr.polytope true (vertsBox (meshVerts3 Real.sqrt (1e-8 : ℝ) (rectCons3 (mk3 0 0 0) (mk3 1 2 3))))
      (rectCons3 (mk3 0 0 0) (mk3 1 2 3))).contains Real.sqrt (1e-8 : ℝ) (mk3 1 2 3) = true ∧
    (SolidExpr.polytope true (vertsBox (meshVerts3 Real.sqrt (1e-8 : ℝ) (rectCons3 (mk3 0 0 0) (mk3 1 2 3))))
      (rectCons3 (mk3 0 0 0) (mk3 1 2 3))).contains Real.sqrt (1e-8 : ℝ) (mk3 1 2 4) = false := by
  have hsq : SqrtOK Real.sqrt := fun x hx => ⟨Real.sqrt_nonneg x, Real.mul_self_sqrt hx⟩
  have h0 : (0 : ℝ) < 1e-8 := by norm_num
  have h1 : (1e-8 : ℝ) ≤ 1 := by norm_num
  refine ⟨(rect_polytope_mesh_box Real.sqrt hsq _ h0 h1 (mk3 0 0 0) (mk3 1 2 3) (by simp [mk3]) (by simp [mk3])).1
    (by simp [mk3]), ?_, ?_⟩
  · rw [(wrapper_does_not_cut_polytope_rect Real.sqrt hsq _ _ h0 h1 _ _ _).1]
    simp [inB, axisOk, mk3, Pt.get]
  · rw [(wrapper_does_not_cut_polytope_rect Real.sqrt hsq _ _ h0 h1 _ _ _).1]
    simp [inB, axisOk, mk3, Pt.get]
    norm_num

/-! ## Primitive leaves with closed forms -/

/-- `rect_bounded`: `Rect.Contains` is the bounds test itself. -/
theorem rect_bounded (d3 : Bool) (lo hi : Pt K) : Bounded (rectS d3 lo hi) := rect_bounded' d3 lo hi

/-- `sphere_bounded`: `Sphere`/`Circle` contain only points of `[Center - Radius, Center + Radius]`. -/
theorem sphere_bounded (d3 : Bool) (c : Pt K) (r : K) : Bounded (sphereS d3 c r) := sphere_bounded' d3 c r

/-- the model's square-root-free `Sphere.Contains` is the code's `Dist(center) <= radius` for every
square-root function -/
theorem sphere_contains_sq_iff (sq : K → K) (hsq : SqrtOK sq) (d3 : Bool) (c : Pt K) (r : K) (p : Pt K) :
    sphereContainsSqrt sq d3 c r p = (sphereS d3 c r).f p := sphere_contains_sqrt sq hsq d3 c r p

/-- `capsule_bounded`: a point within `Radius` of a point of the segment lies in the capsule's box. -/
theorem capsule_bounded (d3 : Bool) (p1 p2 : Pt K) (r t : K) (ht0 : 0 ≤ t) (ht1 : t ≤ 1) (hr : 0 ≤ r) (p : Pt K)
    (hp : distSq d3 p (padd p1 (pscale (psub p2 p1) t)) ≤ r * r) : InBox d3 (capsuleBox p1 p2 r) p :=
  capsule_bounded' d3 p1 p2 r t ht0 ht1 hr p hp

/-- `circle_axis_bound`: for a non-zero normal, `circleAxisBound(i, normal, 1)` is non-negative and its
square is at least `1 − nᵢ²` (the squared extent along axis `i` of the unit disc with unit normal
`n = normal/|normal|`), and `circleAxisBound(i, normal, -1)` is its negative; and that extent is
indeed what a disc reaches: `wᵢ² ≤ ρ²(1 − nᵢ²)` for `w ⟂ n`, `|w| ≤ ρ`. -/
theorem circle_axis_bound (sq : K → K) (hsq : SqrtOK sq) (eps : K) (heps : 0 < eps) (N : Pt K) (hN : 0 < pdot N N)
    (i : Fin 3) :
    (0 ≤ circleAxisBound sq eps i N 1 ∧
      1 - (pnormalize sq N) i * (pnormalize sq N) i ≤ circleAxisBound sq eps i N 1 * circleAxisBound sq eps i N 1 ∧
      circleAxisBound sq eps i N (-1) = -(circleAxisBound sq eps i N 1)) ∧
    (∀ (w : Pt K) (rho2 : K), pdot w (pnormalize sq N) = 0 → pdot w w ≤ rho2 →
      w i * w i ≤ rho2 * (1 - (pnormalize sq N) i * (pnormalize sq N) i)) :=
  ⟨cab_props sq hsq eps heps N hN i,
   fun w rho2 hw hww => disc_axis_extent _ w rho2 (pnormalize_unit sq hsq N hN) hw hww i⟩

/-- `cylinder_bounded`: every point of the cylinder (`P1 + t(P2−P1) + w`, `0 ≤ t ≤ 1`, `w ⟂` axis,
`|w| ≤ Radius`) lies in `[Cylinder.Min(), Cylinder.Max()]`, for every orientation. -/
theorem cylinder_bounded (sq : K → K) (hsq : SqrtOK sq) (eps : K) (heps : 0 < eps) (p1 p2 : Pt K) (r : K)
    (hax : 0 < pdot (psub p2 p1) (psub p2 p1)) (hr : 0 ≤ r) (t : K) (ht0 : 0 ≤ t) (ht1 : t ≤ 1) (w : Pt K)
    (hw : pdot w (pnormalize sq (psub p2 p1)) = 0) (hww : pdot w w ≤ r * r) (p : Pt K)
    (hp : ∀ i, p i = p1 i + (p2 i - p1 i) * t + w i) : InBox true (cylinderBox sq eps p1 p2 r) p :=
  cylinder_bounded' sq hsq eps heps p1 p2 r hax hr t ht0 ht1 w hw hww p hp

/-- `cone_bounded`: every point of the cone lies in `[Cone.Min(), Cone.Max()]`. -/
theorem cone_bounded (sq : K → K) (hsq : SqrtOK sq) (eps : K) (heps : 0 < eps) (tip base : Pt K) (r : K)
    (hax : 0 < pdot (psub tip base) (psub tip base)) (hr : 0 ≤ r) (t : K) (ht0 : 0 ≤ t) (ht1 : t ≤ 1) (w : Pt K)
    (hw : pdot w (pnormalize sq (psub tip base)) = 0) (hww : pdot w w ≤ (r * (1 - t)) * (r * (1 - t))) (p : Pt K)
    (hp : ∀ i, p i = base i + (tip i - base i) * t + w i) : InBox true (coneBox sq eps tip base r) p :=
  cone_bounded' sq hsq eps heps tip base r hax hr t ht0 ht1 w hw hww p hp

/-- `torus_bounded`: every point within `InnerRadius` of the ring of radius `OuterRadius` around
`Axis` lies in `[Torus.Min(), Torus.Max()]`. -/
theorem torus_bounded (sq : K → K) (hsq : SqrtOK sq) (eps : K) (heps : 0 < eps) (center axis : Pt K)
    (outer inner : K) (hax : 0 < pdot axis axis) (ho : 0 ≤ outer) (hi0 : 0 ≤ inner) (u v : Pt K)
    (hu : pdot u (pnormalize sq axis) = 0) (huu : pdot u u ≤ outer * outer) (hvv : pdot v v ≤ inner * inner)
    (p : Pt K) (hp : ∀ i, p i = center i + u i + v i) : InBox true (torusBox sq eps center axis outer inner) p :=
  torus_bounded' sq hsq eps heps center axis outer inner hax ho hi0 u v hu huu hvv p hp

/-- `rectset_bounded`: `rectSetSolid` (a tree of `InBounds`-guarded splits over single rects). -/
theorem rectset_bounded (t : RectTree K) : Bounded (rectSetS t) := rectSet_bounded t

/-- `ramp_bounded`: `toolbox3d.Ramp` — every point `Contains` accepts (off the plane through `P1`
where the code divides by zero) is a convex combination `(1-t)²·P1 + t(1-t)·P2 + t·m` of the axis end
points and a point `m` of the wrapped solid, hence inside the hull box the repaired `Min()/Max()`
report (the original code reported the wrapped solid's box: defect fixed in /repo b97dbc9). -/
theorem ramp_bounded (s : Solid K) (hs : Bounded s) (h3 : s.d3 = true) (p1 p2 c : Pt K)
    (hne : pdot (psub p2 p1) (psub c p1) ≠ 0) (hc : rampContains s p1 p2 c = true) :
    InBox true (rampS s p1 p2).box c := ramp_bounded' s hs h3 p1 p2 c hne hc

/-! ## Non-vacuity -/

/-- the hypotheses about the square root are satisfiable: `Real.sqrt` -/
example : SqrtOK Real.sqrt := fun x hx => ⟨Real.sqrt_nonneg x, Real.mul_self_sqrt hx⟩

/-- `Leaves Bounded` holds for a tree over closed-form leaves (so `bounded_sound` is not vacuous):
a negatively, anisotropically scaled join of a rect and a sphere, intersected with a rect. -/
example : Leaves (K := ℚ) Bounded
    (.inter (.xform [.vecScale (mk3 (-2) 1 (1/2))] (.joined (.prim (rectS true (mk3 0 0 0) (mk3 1 1 1)))
      [.prim (sphereS true (mk3 0 0 0) 1)])) [.prim (rectS true (mk3 (-1) (-1) (-1)) (mk3 3 3 3))]) := by
  refine .inter _ _ (.xform _ _ (.joined _ _ (.prim _ (rect_bounded _ _ _)) ?_)) ?_
  · intro e he
    simp only [List.mem_cons, List.not_mem_nil, or_false] at he
    subst he; exact .prim _ (sphere_bounded _ _ _)
  · intro e he
    simp only [List.mem_cons, List.not_mem_nil, or_false] at he
    subst he; exact .prim _ (rect_bounded _ _ _)

/-- the collider contract is consistent (an empty collider) -/
example : ColOK (K := ℚ) ⟨true, ⟨mk3 0 0 0, mk3 1 1 1⟩, fun _ => false, fun _ _ => false⟩ :=
  ⟨fun _ h => by simp at h, fun _ _ _ h => by simp at h, fun _ _ _ h _ => by simp at h⟩

/-- the SDF contract holds for the SDF of a slab-like box function (here: min over the face distances) -/
example : SDFBoxed (K := ℚ) ⟨false, ⟨mk3 0 0 0, mk3 1 1 0⟩,
    fun p => min (min (p 0 - 0) (1 - p 0)) (min (p 1 - 0) (1 - p 1))⟩ := by
  intro p i hi
  rcases fin3 i with rfl | rfl | rfl
  · simp only [get0]
    exact ⟨le_trans (min_le_left _ _) (min_le_left _ _), le_trans (min_le_left _ _) (min_le_right _ _)⟩
  · simp only [get1]
    exact ⟨le_trans (min_le_right _ _) (min_le_left _ _), le_trans (min_le_right _ _) (min_le_right _ _)⟩
  · rcases hi with hi | hi <;> exact absurd hi (by decide)

/-! ## `toolbox3d.RectSet` objects (programs of `Add/Remove/AddRectSet/RemoveRectSet` over several sets)

`RectSet.Min()/Max()` are read off the first / last entry of the per-axis split slices, the tree of
`Solid()` caches them and puts an `InBounds` test in front of the per-rect tests: a box imposed on the
underlying definition "some stored rect contains the point".  The model (`Model/RectSet.lean`,
`Model/RectSetProg.lean`) runs a program over `*RectSet` objects on a store of **values**: no object
shares its split slices or its rect map with another one. -/
section RectSetObjects
open M3d.RectSet
variable {F : Type} [LinearOrder F] [OfNat F 0]

/-- **`RectSet.Min()/Max()` after any history** (`NewRectSet()`, then any finite sequence of `Add`, `Remove`,
`AddRectSet`, `RemoveRectSet`, the argument sets built the same way; any boxes): `Min ≤ Max` on every axis
(`(0,0,0),(0,0,0)` for a set without rects), and every point of every rect stored in the set lies in
`[Min(), Max()]` — the reported box does not cut the set. -/
theorem rectset_bounds (h : Hist F) :
    (∀ ax, ax < 3 → h.eval.min.get ax ≤ h.eval.max.get ax) ∧
    (∀ r ∈ h.eval.rects, ∀ p, r.contains p = true → (⟨h.eval.min, h.eval.max⟩ : RectSet.Rect F).contains p = true) :=
  ⟨inv_min_le_max (hinv h).inv, fun _ hr _ hc => inv_box_encloses (hinv h).inv hr hc⟩

/-- **`RectSet.Solid()` after any history**: `newRectSetSolid` terminates, `Contains` answers `true` exactly
where some stored rect contains the point (the `InBounds` tests of the tree cut nothing), and only inside the
box the solid reports (`solidBox`: the rect itself for a single rect, otherwise the cached `Min()/Max()`). -/
theorem wrapper_does_not_cut_rectset (h : Hist F) :
    ∃ t, solidOf h.eval = some t ∧ (∀ p, t.contains p = h.eval.anyRect p) ∧
      (∀ p, t.contains p = true → (solidBox h.eval).contains p = true) :=
  inv_solid (hinv h).inv

/-- **The box `Solid()` reports is ordered**: if every box of the history (added or removed, also through the
argument sets) has `lo ≤ hi` on every axis, so has every rect stored in the set (`splitRect` only cuts strictly
inside a rect, `Remove` only deletes), hence the box of the solid — the rect itself for a single rect, the cached
`Min()/Max()` otherwise — has `Min ≤ Max`. -/
theorem rectset_solid_ordered (h : Hist F) (hb : ∀ r ∈ h.boxes, ∀ ax, ax < 3 → r.lo.get ax ≤ r.hi.get ax) :
    (∀ r ∈ h.eval.rects, ∀ ax, ax < 3 → r.lo.get ax ≤ r.hi.get ax) ∧
    ∀ ax, ax < 3 → (solidBox h.eval).lo.get ax ≤ (solidBox h.eval).hi.get ax := by
  have ho := hist_rects_ord h hb
  refine ⟨ho, inv_solidBox_ordered (hinv h).inv ?_⟩
  intro r hr
  exact ho r (by rw [hr]; exact List.mem_singleton_self r)

/-- … at every `Solid()` call of every program whose receivers' histories (`solidCalls`) only use boxes with
`lo ≤ hi`. -/
theorem rectset_program_solid_ordered (cs : List (Cmd F))
    (hb : ∀ h ∈ solidCalls (fun _ => (Hist.new : Hist F)) cs, ∀ r ∈ h.boxes, ∀ ax, ax < 3 → r.lo.get ax ≤ r.hi.get ax) :
    ∀ s ∈ progStates (fun _ => (RS.empty : RS F)) cs,
      ∀ ax, ax < 3 → (solidBox s).lo.get ax ≤ (solidBox s).hi.get ax := by
  intro s hs
  rw [progStates_eq cs (fun _ => RS.empty) (fun _ => Hist.new) (fun _ => rfl)] at hs
  obtain ⟨h, hh, rfl⟩ := List.mem_map.mp hs
  exact (rectset_solid_ordered h (hb h hh)).2

/-- **Programs over `RectSet` objects** `v_0, v_1, …` (each starting as `NewRectSet()`; statements `v_i.Add`,
`v_i.Remove`, `v_i.AddRectSet(v_j)`, `v_i.RemoveRectSet(v_j)` — also `i = j`, also with `v_j` edited again
afterwards —, `v_i = NewRectSet()`, `v_i.Solid()`): at every `Solid()` call the receiver `s` (its value at that
moment, `progStates`) reports ordered bounds that enclose all its rects, and the returned solid answers exactly
"some rect stored in the receiver at the time of the call contains the point", only inside the box it reports.
In particular editing `v_j` after `v_i.AddRectSet(v_j)` (or editing `v_i`) never moves the bounds of the
other object: this is what the correspondence kind `rsprog` compares the real objects with. -/
theorem rectset_program_bounds (cs : List (Cmd F)) :
    ∀ s ∈ progStates (fun _ => (RS.empty : RS F)) cs,
      (∀ ax, ax < 3 → s.min.get ax ≤ s.max.get ax) ∧
      (∀ r ∈ s.rects, ∀ p, r.contains p = true → (⟨s.min, s.max⟩ : RectSet.Rect F).contains p = true) ∧
      ∃ t, solidOf s = some t ∧ (∀ p, t.contains p = s.anyRect p) ∧
        (∀ p, t.contains p = true → (solidBox s).contains p = true) := by
  intro s hs
  obtain ⟨h, rfl⟩ := progStates_hist cs s hs
  exact ⟨(rectset_bounds h).1, (rectset_bounds h).2, wrapper_does_not_cut_rectset h⟩

/-- … and the same holds for every object after the whole program (whether or not `Solid()` is ever called). -/
theorem rectset_program_final_bounds (cs : List (Cmd F)) (i : Nat) :
    let s := progFinal (fun _ => (RS.empty : RS F)) cs i
    (∀ ax, ax < 3 → s.min.get ax ≤ s.max.get ax) ∧
    (∀ r ∈ s.rects, ∀ p, r.contains p = true → (⟨s.min, s.max⟩ : RectSet.Rect F).contains p = true) := by
  obtain ⟨h, e⟩ := progFinal_hist (K := F) cs i
  simp only [e]
  exact rectset_bounds h

/-- What the driver prints for a program is `1:` + the stored-rect test per point: the markers `D`
(non-terminating `newRectSetSolid`) and `Y` (tree ≠ stored-rect test, or a contained point outside the
reported box) never occur. -/
theorem rectset_program_answers (cs : List (Cmd F)) (pts : List (V3 F)) :
    progAnswers cs pts = (progStates (fun _ => (RS.empty : RS F)) cs).map fun s =>
      "1:" ++ String.join (pts.map fun p => if s.anyRect p then "1" else "0") := by
  unfold progAnswers
  apply List.map_congr_left
  intro s hs
  obtain ⟨_, _, t, ht, hu, hb⟩ := rectset_program_bounds cs s hs
  unfold solidAnswer
  rw [ht]
  show "1:" ++ String.join (pts.map _) = "1:" ++ String.join (pts.map _)
  congr 2
  apply List.map_congr_left
  intro p _
  show (if (t.contains p != s.anyRect p) = true then "Y"
    else if (s.anyRect p && !(solidBox s).contains p) = true then "Y" else if s.anyRect p = true then "1" else "0") = _
  have e1 : (t.contains p != s.anyRect p) = false := by rw [hu p]; simp
  simp only [e1, Bool.false_eq_true, if_false]
  cases hsp : s.anyRect p
  · simp
  · have := hb p (by rw [hu p]; exact hsp)
    simp [this]

/-- Non-vacuity / the scenario of a copy that is edited afterwards: `v_0 = {[0,1]³, [1,2]×[0,1]²}`, `v_1.AddRectSet(v_0)`
into the empty `v_1`, then `v_1.Add([1/4,1/2]×[0,1]²)` introduces a split strictly inside `v_0`'s range; `v_0` still
reports `x ≤ 2` and its solid still contains `(2, 1, 1)` and `(3/2, 1/2, 1/2)`. -/
example :
    let cs : List (Cmd Rat) := [.add 0 ⟨⟨0, 0, 0⟩, ⟨1, 1, 1⟩⟩, .add 0 ⟨⟨1, 0, 0⟩, ⟨2, 1, 1⟩⟩, .addSet 1 0,
      .add 1 ⟨⟨1/4, 0, 0⟩, ⟨1/2, 1, 1⟩⟩, .solid 0, .solid 1]
    (progStates (fun _ => RS.empty) cs).map (fun s => (s.max.x, s.rects.length)) = [(2, 2), (2, 4)] ∧
    progAnswers cs [⟨2, 1, 1⟩, ⟨3/2, 1/2, 1/2⟩, ⟨3, 0, 0⟩] = ["1:110", "1:110"] := by
  decide +kernel

end RectSetObjects

/-! ## `toolbox3d.TriangularLine` / `TriangularPolygon` / `L1LineJoin` (line_join.go) -/
section TriLine

/-- `TriangularLine(th, p1, p2)` answers `false` outside the box it reports. -/
theorem triline_bounded (th : K) (p1 p2 : Pt K) : Bounded (triLineS th p1 p2) := checked_bounded _ _ _

/-- `TriangularLine` reports `Min ≤ Max` for every non-negative thickness. -/
theorem triline_bounds_ordered (th : K) (hth : 0 ≤ th) (p1 p2 : Pt K) : Ordered (triLineS th p1 p2) := by
  intro i _
  simp only [triLineS, checkedS, triBox, psub_get, padd_get, pmin_get, pmax_get]
  have : min (p1 i) (p2 i) ≤ max (p1 i) (p2 i) := min_le_max
  rcases fin3 i with rfl | rfl | rfl <;> simp only [get0, get1, get2] <;> linarith

/-- **`wrapper_does_not_cut_triline`.**  The box `p1.Min(p2) - (th,th,th) .. p1.Max(p2) + (th,th,th)` that
`TriangularLine` puts in front of its membership test (`triDef`: projection between the endpoints and L1
distance to the segment `< th`, the L1 distance being the minimum over the candidates of `Segment.ClosestL1`)
does not cut: for every segment — oblique ones included, whose flat end caps and L1 ridge reach up to `th`
past the hull of the endpoints on each axis — and every point, the solid answers exactly what the definition
says.  This is the answer kind `triline` demands of the real `TriangularLine` (and of the one-segment
`TriangularPolygon`), so a box with a smaller padding shows up as a point of the definition answered `false`. -/
theorem wrapper_does_not_cut_triline (th : K) (p1 p2 c : Pt K) :
    (triLineS th p1 p2).f c = triDef th p1 p2 c := by
  cases h : triDef th p1 p2 c
  · simp [triLineS, checkedS, h]
  · exact (checked_f _ _ _ _).mpr ⟨triDef_in_box th p1 p2 c h, h⟩

/-- the reach of the shape past the hull of the endpoints is really needed: every point of the definition
is within `th` of the hull on each axis (so the padding `th` suffices) … -/
theorem triline_def_in_box (th : K) (p1 p2 c : Pt K) (h : triDef th p1 p2 c = true) :
    InBox true (triBox th p1 p2) c := triDef_in_box th p1 p2 c h

/-- … non-vacuity: on the 45° segment `(0,0,0)–(1,1,0)` with `th = 1` the end-cap point `(-2/5, 2/5, 0)` is in
the definition and contained, although it is `2/5 > 1 - 1/√2` past the endpoint hull on the x axis. -/
example : triDef (1 : ℚ) (mk3 0 0 0) (mk3 1 1 0) (mk3 (-2/5) (2/5) 0) = true ∧
    (triLineS (1 : ℚ) (mk3 0 0 0) (mk3 1 1 0)).f (mk3 (-2/5) (2/5) 0) = true ∧
    (triLineS (1 : ℚ) (mk3 0 0 0) (mk3 1 1 0)).f (mk3 (-2/5) (-2/5) 0) = false := by
  decide +kernel

end TriLine

end M3d.C03
