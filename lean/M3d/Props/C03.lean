import M3d.Lemmas.Bounded
import Mathlib.Analysis.Real.Sqrt
/-!
# C03 — Solids never contain points outside their reported bounding box

Theorems about `M3d.Bd.SolidExpr` (lean/M3d/Model/Bounded.lean), the deep embedding of the solid
constructors and combinators of `model2d`/`model3d`/`toolbox3d`, with `bounds`/`contains` computed
exactly as the Go code computes `Min()/Max()/Contains()`.  Everything is proved for every linear
ordered field `K` (ℚ is the instance the correspondence executes, ℝ the one with square roots).

* `bounded_sound`   — if every opaque leaf answers `false` outside its box, so does every expression;
* `bounds_ordered`  — `Min ≤ Max` for every expression whose leaves / parameters have it;
* `wrapper_does_not_cut_*` — wrappers that put a box in front of a membership test do not remove
  points of the underlying definition;
* one lemma per combinator and the closed-form primitive leaves (`sphere`, `rect`, `capsule`,
  `cylinder`, `cone`, `torus` via the axis extent of a tilted disc).
-/
set_option linter.unusedSectionVars false
set_option linter.unusedVariables false
namespace M3d.C03
open M3d.Bd

variable {K : Type} [Field K] [LinearOrder K] [IsStrictOrderedRing K]

/-- `P` holds for every opaque leaf (`prim`) of the expression.  Constructors whose `Contains`
starts with an explicit bounds check need nothing. -/
inductive Leaves (P : Solid K → Prop) : SolidExpr K → Prop
  | prim (s) : P s → Leaves P (.prim s)
  | checked (box e) : Leaves P e → Leaves P (.checked box e)
  | cache (e) : Leaves P e → Leaves P (.cache e)
  | joined (a rest) : Leaves P a → (∀ e ∈ rest, Leaves P e) → Leaves P (.joined a rest)
  | inter (a rest) : Leaves P a → (∀ e ∈ rest, Leaves P e) → Leaves P (.inter a rest)
  | sub (p n) : Leaves P p → Leaves P n → Leaves P (.sub p n)
  | stack (a rest) : Leaves P a → (∀ e ∈ rest, Leaves P e) → Leaves P (.stack a rest)
  | stacked (a rest) : Leaves P a → (∀ e ∈ rest, Leaves P e) → Leaves P (.stacked a rest)
  | xform (ts e) : Leaves P e → Leaves P (.xform ts e)
  | profile (e a b) : Leaves P e → Leaves P (.profile e a b)
  | cross (e axis v) : Leaves P e → Leaves P (.cross e axis v)
  | revolve (e axis) : Leaves P e → Leaves P (.revolve e axis)
  | clamp (e axis mn mx) : Leaves P e → Leaves P (.clamp e axis mn mx)
  | sdf (s o) : Leaves P (.sdf s o)
  | smooth (r f rest) : Leaves P (.smooth r f rest)
  | inset (c i) : Leaves P (.inset c i)
  | hollow (c r) : Leaves P (.hollow c r)
  | metaball (fall rt o f rest) : Leaves P (.metaball fall rt o f rest)
  | polytope (d3 box cs) : Leaves P (.polytope d3 box cs)
  | rectSet (t) : Leaves P (.rectSet t)
  | heightMap (lo hi a b g) : Leaves P (.heightMap lo hi a b g)

theorem evalL_eq (sq : K → K) (eps : K) (es : List (SolidExpr K)) :
    evalL sq eps es = es.map (fun e => e.eval sq eps) := by
  induction es with
  | nil => simp [evalL]
  | cons e es ih => simp [evalL, ih]

theorem mem_evalL {sq : K → K} {eps : K} {es : List (SolidExpr K)} {P : Solid K → Prop}
    (h : ∀ e ∈ es, P (e.eval sq eps)) : ∀ s ∈ evalL sq eps es, P s := by
  intro s hs
  rw [evalL_eq] at hs
  obtain ⟨e, he, rfl⟩ := List.mem_map.mp hs
  exact h e he

/-! ## The structural theorems -/

/-- **`bounded_sound`.**  If every opaque leaf is bounded (`Contains(p) ⇒ p` in its reported box) then
so is every expression built from the combinators: `e.contains p = true` implies `p` lies in
`e.bounds` on every axis the solid uses.  Structural induction, one lemma per combinator. -/
theorem bounded_sound (sq : K → K) (eps : K) (e : SolidExpr K) (h : Leaves Bounded e) :
    Bounded (e.eval sq eps) := by
  induction h with
  | prim s hs => simpa [SolidExpr.eval] using hs
  | checked box e _ ih => simp only [SolidExpr.eval]; exact force_bounded _ _
  | cache e _ ih => simp only [SolidExpr.eval]; exact cache_bounded _
  | joined a rest _ _ iha ihr => simp only [SolidExpr.eval]; exact joined_bounded _ _ iha (mem_evalL ihr)
  | inter a rest _ _ iha ihr => simp only [SolidExpr.eval]; exact inter_bounded _ _ iha (mem_evalL ihr)
  | sub p n _ _ ihp _ => simp only [SolidExpr.eval]; exact sub_bounded _ _ ihp
  | stack a rest _ _ iha _ => simp only [SolidExpr.eval]; exact stack_bounded _ _ iha
  | stacked a rest _ _ _ _ => simp only [SolidExpr.eval]; exact stacked_bounded _ _
  | xform ts e _ _ => simp only [SolidExpr.eval]; exact xform_bounded _ _
  | profile e a b _ _ => simp only [SolidExpr.eval]; exact profile_bounded _ _ _
  | cross e axis v _ _ => simp only [SolidExpr.eval]; exact cross_bounded _ _ _
  | revolve e axis _ _ => simp only [SolidExpr.eval]; exact revolve_bounded _ _ _ _
  | clamp e axis mn mx _ _ => simp only [SolidExpr.eval]; exact clamp_bounded _ _ _ _
  | sdf s o => simp only [SolidExpr.eval]; exact sdf_bounded _ _
  | smooth r f rest => simp only [SolidExpr.eval]; exact smooth_bounded _ _ _
  | inset c i => simp only [SolidExpr.eval]; exact inset_bounded _ _
  | hollow c r => simp only [SolidExpr.eval]; exact hollow_bounded _ _
  | metaball fall rt o f rest => simp only [SolidExpr.eval]; exact metaball_bounded _ _ _ _ _
  | polytope d3 box cs => simp only [SolidExpr.eval]; exact polytope_bounded _ _ _
  | rectSet t => simp only [SolidExpr.eval]; exact rectSet_bounded _
  | heightMap lo hi a b g => simp only [SolidExpr.eval]; exact heightMap_bounded _ _ _ _ _

/-- `bounded_sound` in terms of `contains`/`bounds`: the statement of the property. -/
theorem contains_in_bounds (sq : K → K) (eps : K) (e : SolidExpr K) (h : Leaves Bounded e) (p : Pt K)
    (hp : e.contains sq eps p = true) (i : Fin 3) (hi : Active (e.eval sq eps).d3 i) :
    (e.bounds sq eps).lo i ≤ p i ∧ p i ≤ (e.bounds sq eps).hi i :=
  bounded_sound sq eps e h p hp i hi

/-- The side conditions under which the library builds the solid at all (`FuncSolid` panics on
inverted bounds) plus `Min ≤ Max` of the leaves that matter.  Note what is *absent*: nothing is
required of the later operands of a join / stack, of any operand of an intersection, of the negative
operand of a subtraction, of the transform of `TransformSolid`, or of the inset of a collider solid. -/
inductive Valid (sq : K → K) (eps : K) : SolidExpr K → Prop
  | prim (s) : Ordered s → Valid sq eps (.prim s)
  | checked (box e) : (∀ i, Active (e.eval sq eps).d3 i → box.lo i ≤ box.hi i) → Valid sq eps (.checked box e)
  | cache (e) : Valid sq eps e → Valid sq eps (.cache e)
  | joined (a rest) : Valid sq eps a → Valid sq eps (.joined a rest)
  | inter (a rest) : Valid sq eps (.inter a rest)
  | sub (p n) : Valid sq eps p → Valid sq eps (.sub p n)
  | stack (a rest) : Valid sq eps a → Valid sq eps (.stack a rest)
  | stacked (a rest) : Valid sq eps a → (a.eval sq eps).d3 = true → Valid sq eps (.stacked a rest)
  | xform (ts e) : Valid sq eps e → Valid sq eps (.xform ts e)
  | profile (e a b) : Valid sq eps e → a ≤ b → Valid sq eps (.profile e a b)
  | cross (e axis v) : Valid sq eps e → (e.eval sq eps).d3 = true → Valid sq eps (.cross e axis v)
  | revolve (e axis) : Ordered (revolveS sq eps (e.eval sq eps) axis) → Valid sq eps (.revolve e axis)
  | clamp (e axis mn mx) : Valid sq eps e → Valid sq eps (.clamp e axis mn mx)
  | sdf (s o) : Ordered (sdfS s o) → Valid sq eps (.sdf s o)
  | smooth (r f rest) : 0 ≤ r → (∀ i, Active f.d3 i → f.box.lo i ≤ f.box.hi i) → Valid sq eps (.smooth r f rest)
  | inset (c i) : Valid sq eps (.inset c i)
  | hollow (c r) : 0 ≤ r → (∀ i, Active c.d3 i → c.box.lo i ≤ c.box.hi i) → Valid sq eps (.hollow c r)
  | metaball (fall rt o f rest) : Ordered (metaballS fall rt o f rest) → Valid sq eps (.metaball fall rt o f rest)
  | polytope (d3 box cs) : (∀ i, Active d3 i → box.lo i ≤ box.hi i) → Valid sq eps (.polytope d3 box cs)
  | rectSet (t) : (∀ i, t.box.lo i ≤ t.box.hi i) → Valid sq eps (.rectSet t)
  | heightMap (lo hi a b g) : lo 0 ≤ hi 0 → lo 1 ≤ hi 1 → a ≤ b → Valid sq eps (.heightMap lo hi a b g)

/-- **`bounds_ordered`.**  `Min() ≤ Max()` componentwise for every expression whose leaves have it:
in particular an `IntersectedSolid` of disjoint operands still reports `min ≤ max` (`Max()` ends with
`.Max(i.Min())`), negative `Scale`/`VecScale` factors swap, `NewColliderSolidInset` clamps, and
`TransformSolid` never hands `FuncSolid` an inverted box. -/
theorem bounds_ordered (sq : K → K) (eps : K) (e : SolidExpr K) (h : Valid sq eps e) :
    Ordered (e.eval sq eps) := by
  induction h with
  | prim s hs => simpa [SolidExpr.eval] using hs
  | checked box e hb => simp only [SolidExpr.eval]; exact hb
  | cache e _ ih => simp only [SolidExpr.eval]; exact ih
  | joined a rest _ ih => simp only [SolidExpr.eval]; exact joined_ordered _ _ ih
  | inter a rest => simp only [SolidExpr.eval]; exact inter_ordered _ _
  | sub p n _ ih => simp only [SolidExpr.eval]; exact sub_ordered _ _ ih
  | stack a rest _ ih => simp only [SolidExpr.eval]; exact stack_ordered _ _ ih
  | stacked a rest _ h3 ih => simp only [SolidExpr.eval]; exact stacked_ordered _ _ ih h3
  | xform ts e _ ih => simp only [SolidExpr.eval]; exact xform_ordered _ _ ih
  | profile e a b _ hab ih => simp only [SolidExpr.eval]; exact profile_ordered _ _ _ ih hab
  | cross e axis v _ h3 ih => simp only [SolidExpr.eval]; exact cross_ordered _ _ _ ih h3
  | revolve e axis h => simp only [SolidExpr.eval]; exact h
  | clamp e axis mn mx _ ih => simp only [SolidExpr.eval]; exact clamp_ordered _ _ _ _ ih
  | sdf s o h => simp only [SolidExpr.eval]; exact h
  | smooth r f rest hr hf => simp only [SolidExpr.eval]; exact smooth_ordered _ _ _ hr hf
  | inset c i => simp only [SolidExpr.eval]; exact inset_ordered _ _
  | hollow c r hr hc => simp only [SolidExpr.eval]; exact hollow_ordered _ _ hr hc
  | metaball fall rt o f rest h => simp only [SolidExpr.eval]; exact h
  | polytope d3 box cs h => simp only [SolidExpr.eval]; exact h
  | rectSet t h => simp only [SolidExpr.eval]; exact fun i _ => h i
  | heightMap lo hi a b g h0 h1 hab =>
    simp only [SolidExpr.eval, heightMapS, checkedS]
    intro i _
    rcases fin3 i with rfl | rfl | rfl <;> simpa

/-! ## One lemma per combinator -/

/-- `checked_clips`: `CheckedFuncSolid(min, max, f)` (hence `ForceSolidBounds`, `CacheSolidBounds`,
`TransformSolid`, `ProfileSolid`, `CrossSectionSolid`, `RevolveSolid`, `SDFToSolid`, `SmoothJoin`,
`MetaballSolid`, `ClampAxis`, `SliceSolid`) answers `false` outside `[min, max]`, whatever `f` is. -/
theorem checked_clips (d3 : Bool) (box : Box K) (g : Pt K → Bool) : Bounded (checkedS d3 box g) :=
  checked_bounded d3 box g

/-- `joined_bounds`: `JoinedSolid` of bounded operands is bounded by the running `Min`/`Max`. -/
theorem joined_bounds (a : Solid K) (rest : List (Solid K)) (ha : Bounded a) (hr : ∀ s ∈ rest, Bounded s) :
    Bounded (joinedS a rest) := joined_bounded a rest ha hr

/-- `intersected_bounds`: `IntersectedSolid` of bounded operands is bounded by `[max of mins,
(min of maxes).Max(max of mins)]`, and that box always has `min ≤ max` — also when the operands'
boxes are disjoint (the reported box is then degenerate on the offending axis and contains no
point of the solid). -/
theorem intersected_bounds (a : Solid K) (rest : List (Solid K)) (ha : Bounded a) (hr : ∀ s ∈ rest, Bounded s) :
    Bounded (interS a rest) ∧ Ordered (interS a rest) := ⟨inter_bounded a rest ha hr, inter_ordered a rest⟩

/-- `subtracted_bounds`: `SubtractedSolid` reports the bounds of its positive part, and is inside. -/
theorem subtracted_bounds (pos neg : Solid K) (hp : Bounded pos) : Bounded (subS pos neg) := sub_bounded pos neg hp

/-- `stacked_bounds`: `StackSolids` (a join of `TransformSolid`-translated operands) is bounded as soon
as its first operand is; the deprecated `StackedSolid` checks `InBounds` itself. -/
theorem stacked_bounds (a : Solid K) (rest : List (Solid K)) (ha : Bounded a) :
    Bounded (stackS a rest) ∧ Bounded (stackedS a rest) := ⟨stack_bounded a rest ha, stacked_bounded a rest⟩

/-- `transform_bounds`: per transform kind (`Translate`, `Scale`, `VecScale` — negative factors swap
min/max — `Matrix3Transform`/`Matrix2Transform`, and `JoinedTransform` chains), `ApplyBounds` returns
a box with `min ≤ max` that contains the image of every point of the original box. -/
theorem transform_bounds (d3 : Bool) (ts : List (Xf1 K)) (hf : ∀ t ∈ ts, t.Fits d3) (b : Box K)
    (hb : ∀ i, Active d3 i → b.lo i ≤ b.hi i) :
    (∀ i, Active d3 i → (applyBoundsL ts b).lo i ≤ (applyBoundsL ts b).hi i) ∧
    (∀ p, InBox d3 b p → InBox d3 (applyBoundsL ts b) (applyL ts p)) :=
  ⟨applyBoundsL_ordered d3 ts b hb, fun p hp => applyBoundsL_encloses d3 ts hf b p hp⟩

/-- `smoothjoin_bounds`: every point `SmoothJoin`'s closure accepts has some SDF value `> -r`, hence
lies in the union of the operands' boxes grown by `r` — the box `SmoothJoin` reports. -/
theorem smoothjoin_bounds (r : K) (hr : 0 ≤ r) (first : SDFL K) (rest : List (SDFL K))
    (hb : ∀ s ∈ first :: rest, SDFBoxed s) (hd : ∀ s ∈ rest, s.d3 = first.d3) (p : Pt K)
    (hp : smoothPred r ((first :: rest).map (fun s => s.d p)) = true) :
    InBox first.d3 (smoothS r first rest).box p := by
  have := smooth_no_cut r hr first rest hb hd p hp
  exact smooth_bounded r first rest p this

/-- `inset_hollow_bounds`: `ColliderContains(c, p, inset)` (inset or outset) only holds inside the box
`NewColliderSolidInset` computes, and `SphereCollision(p, r)` only inside the box
`NewColliderSolidHollow` computes; `NewColliderSolidInset`'s box always has `min ≤ max`. -/
theorem inset_hollow_bounds (c : ColL K) (hc : ColOK c) (p : Pt K) :
    (∀ inset, colliderContains c p inset = true → InBox c.d3 (insetS c inset).box p) ∧
    (∀ r, 0 < r → c.sphere p r = true → InBox c.d3 (hollowS c r).box p) ∧
    (∀ inset, Ordered (insetS c inset)) :=
  ⟨fun inset h => inset_bounded c inset p (inset_no_cut c hc inset p h),
   fun r hr h => hollow_bounded c r p (hollow_no_cut c hc r hr p h),
   fun inset => inset_ordered c inset⟩

/-- `metaball_bounds`: under the stated contract of `Metaball` (the field is at least
`MetaballDistBound(d)` at distance more than `d` from the bounds) and a non-increasing falloff, the
outset search ends with `valueForOutset(maxOutset) ≤ threshold`, and then no point outside the
union box grown by `maxOutset` has a field sum above the threshold. -/
theorem metaball_bounds (fall : K → K) (hfall : ∀ a b, a ≤ b → fall b ≤ fall a) (rt diag tiny outset : K)
    (first : MBL K) (rest : List (MBL K)) (hm : ∀ m ∈ first :: rest, MBBounded m)
    (hd : ∀ m ∈ rest, m.d3 = first.d3)
    (ho : mbOutset (valueForOutset fall (first :: rest)) (fall rt) diag tiny = some outset) (p : Pt K)
    (hp : fall rt < (first :: rest).foldl (fun sum m => sum + fall (m.field p)) 0) :
    InBox first.d3 (metaballS fall rt outset first rest).box p := by
  have hv := mbOutset_ok _ _ _ _ _ ho
  have := metaball_no_cut fall hfall rt outset first rest hm hd hv p hp
  exact metaball_bounded fall rt outset first rest p this

/-! ## Wrappers do not cut -/

/-- `CacheSolidBounds` does not cut: on a bounded operand it is the same set. -/
theorem wrapper_does_not_cut_cache (sq : K → K) (eps : K) (e : SolidExpr K) (h : Leaves Bounded e) (p : Pt K) :
    (SolidExpr.cache e).contains sq eps p = e.contains sq eps p := by
  simp only [SolidExpr.contains, SolidExpr.eval]
  exact cache_f_iff _ (bounded_sound sq eps e h) p

/-- `TransformSolid` does not cut: the image under the transform of every point of a bounded
operand is contained in the transformed solid (any chain of translations, scalings with non-zero —
possibly negative, possibly anisotropic — factors, and matrices with their inverse). -/
theorem wrapper_does_not_cut_transform (sq : K → K) (eps : K) (ts : List (Xf1 K)) (e : SolidExpr K)
    (h : Leaves Bounded e) (hf : ∀ t ∈ ts, t.Fits (e.eval sq eps).d3) (hi : ∀ t ∈ ts, t.Invertible)
    (q : Pt K) (hq : e.contains sq eps q = true) : (SolidExpr.xform ts e).contains sq eps (applyL ts q) = true := by
  simp only [SolidExpr.contains, SolidExpr.eval] at hq ⊢
  exact xform_no_cut ts _ (bounded_sound sq eps e h) hf hi q hq

/-- `ProfileSolid` does not cut. -/
theorem wrapper_does_not_cut_profile (sq : K → K) (eps : K) (e : SolidExpr K) (a b : K) (h : Leaves Bounded e)
    (p : Pt K) (hp : e.contains sq eps (mk3 (p 0) (p 1) 0) = true) (hz : a ≤ p 2 ∧ p 2 ≤ b) :
    (SolidExpr.profile e a b).contains sq eps p = true := by
  simp only [SolidExpr.contains, SolidExpr.eval] at hp ⊢
  exact profile_no_cut _ a b (bounded_sound sq eps e h) p hp hz

/-- `CrossSectionSolid` / `toolbox3d.SliceSolid` do not cut. -/
theorem wrapper_does_not_cut_cross (sq : K → K) (eps : K) (e : SolidExpr K) (axis : Fin 3) (v : K)
    (h : Leaves Bounded e) (h3 : (e.eval sq eps).d3 = true) (p : Pt K)
    (hp : e.contains sq eps (to3D axis v p) = true) : (SolidExpr.cross e axis v).contains sq eps p = true := by
  simp only [SolidExpr.contains, SolidExpr.eval] at hp ⊢
  exact cross_no_cut _ axis v (bounded_sound sq eps e h) h3 p hp

/-- `RevolveSolid` does not cut a point that lies in the box of its bounding cylinder
(`cylinder_bounded` shows that box contains every point of the cylinder). -/
theorem wrapper_does_not_cut_revolve (sq : K → K) (eps : K) (e : SolidExpr K) (axis : Pt K) (c : Pt K)
    (hbox : InBox true ((SolidExpr.revolve e axis).bounds sq eps) c)
    (hc : e.contains sq eps (mk3 (pnorm sq (projectOut sq c (pnormalize sq axis))) (pdot (pnormalize sq axis) c) 0) = true) :
    (SolidExpr.revolve e axis).contains sq eps c = true := by
  simp only [SolidExpr.contains, SolidExpr.bounds, SolidExpr.eval] at hc hbox ⊢
  exact revolve_no_cut sq eps _ axis c hbox hc

/-- `SDFToSolid` does not cut: wherever `sdf(p) > -outset` the wrapper answers `true`. -/
theorem wrapper_does_not_cut_sdf (sq : K → K) (eps : K) (s : SDFL K) (outset : K) (hs : SDFBoxed s) (p : Pt K)
    (hp : -outset < s.d p) : (SolidExpr.sdf s outset).contains sq eps p = true := by
  simp only [SolidExpr.contains, SolidExpr.eval]
  exact sdf_no_cut s outset hs p hp

/-- `SmoothJoin` does not cut: the bounds are grown by the full radius. -/
theorem wrapper_does_not_cut_smooth (sq : K → K) (eps : K) (r : K) (hr : 0 ≤ r) (first : SDFL K)
    (rest : List (SDFL K)) (hb : ∀ s ∈ first :: rest, SDFBoxed s) (hd : ∀ s ∈ rest, s.d3 = first.d3) (p : Pt K)
    (hp : smoothPred r ((first :: rest).map (fun s => s.d p)) = true) :
    (SolidExpr.smooth r first rest).contains sq eps p = true := by
  simp only [SolidExpr.contains, SolidExpr.eval]
  exact smooth_no_cut r hr first rest hb hd p hp

/-- `NewColliderSolidInset` / `NewColliderSolidHollow` do not cut. -/
theorem wrapper_does_not_cut_collider (sq : K → K) (eps : K) (c : ColL K) (hc : ColOK c) (p : Pt K) :
    (∀ inset, colliderContains c p inset = true → (SolidExpr.inset c inset).contains sq eps p = true) ∧
    (∀ r, 0 < r → c.sphere p r = true → (SolidExpr.hollow c r).contains sq eps p = true) := by
  simp only [SolidExpr.contains, SolidExpr.eval]
  exact ⟨fun inset h => inset_no_cut c hc inset p h, fun r hr h => hollow_no_cut c hc r hr p h⟩

/-- `MetaballSolid` does not cut (outset as found by the search). -/
theorem wrapper_does_not_cut_metaball (sq : K → K) (eps : K) (fall : K → K) (hfall : ∀ a b, a ≤ b → fall b ≤ fall a)
    (rt diag tiny outset : K) (first : MBL K) (rest : List (MBL K)) (hm : ∀ m ∈ first :: rest, MBBounded m)
    (hd : ∀ m ∈ rest, m.d3 = first.d3)
    (ho : mbOutset (valueForOutset fall (first :: rest)) (fall rt) diag tiny = some outset) (p : Pt K)
    (hp : fall rt < (first :: rest).foldl (fun sum m => sum + fall (m.field p)) 0) :
    (SolidExpr.metaball fall rt outset first rest).contains sq eps p = true := by
  simp only [SolidExpr.contains, SolidExpr.eval]
  exact metaball_no_cut fall hfall rt outset first rest hm hd (mbOutset_ok _ _ _ _ _ ho) p hp

/-! ## Primitive leaves with closed forms -/

/-- `rect_bounded`: `Rect.Contains` is the bounds test itself. -/
theorem rect_bounded (d3 : Bool) (lo hi : Pt K) : Bounded (rectS d3 lo hi) := rect_bounded' d3 lo hi

/-- `sphere_bounded`: `Sphere`/`Circle` contain only points of `[Center - Radius, Center + Radius]`. -/
theorem sphere_bounded (d3 : Bool) (c : Pt K) (r : K) : Bounded (sphereS d3 c r) := sphere_bounded' d3 c r

/-- the model's square-root-free `Sphere.Contains` is the code's `Dist(center) <= radius` for every
square-root function -/
theorem sphere_contains_sq_iff (sq : K → K) (hsq : SqrtOK sq) (d3 : Bool) (c : Pt K) (r : K) (p : Pt K) :
    sphereContainsSqrt sq d3 c r p = (sphereS d3 c r).f p := sphere_contains_sqrt sq hsq d3 c r p

/-- `capsule_bounded`: a point within `Radius` of a point of the segment lies in the capsule's box. -/
theorem capsule_bounded (d3 : Bool) (p1 p2 : Pt K) (r t : K) (ht0 : 0 ≤ t) (ht1 : t ≤ 1) (hr : 0 ≤ r) (p : Pt K)
    (hp : distSq d3 p (padd p1 (pscale (psub p2 p1) t)) ≤ r * r) : InBox d3 (capsuleBox p1 p2 r) p :=
  capsule_bounded' d3 p1 p2 r t ht0 ht1 hr p hp

/-- `circle_axis_bound`: for a non-zero normal, `circleAxisBound(i, normal, 1)` is non-negative and its
square is at least `1 − nᵢ²` (the squared extent along axis `i` of the unit disc with unit normal
`n = normal/|normal|`), and `circleAxisBound(i, normal, -1)` is its negative; and that extent is
indeed what a disc reaches: `wᵢ² ≤ ρ²(1 − nᵢ²)` for `w ⟂ n`, `|w| ≤ ρ`. -/
theorem circle_axis_bound (sq : K → K) (hsq : SqrtOK sq) (eps : K) (heps : 0 < eps) (N : Pt K) (hN : 0 < pdot N N)
    (i : Fin 3) :
    (0 ≤ circleAxisBound sq eps i N 1 ∧
      1 - (pnormalize sq N) i * (pnormalize sq N) i ≤ circleAxisBound sq eps i N 1 * circleAxisBound sq eps i N 1 ∧
      circleAxisBound sq eps i N (-1) = -(circleAxisBound sq eps i N 1)) ∧
    (∀ (w : Pt K) (rho2 : K), pdot w (pnormalize sq N) = 0 → pdot w w ≤ rho2 →
      w i * w i ≤ rho2 * (1 - (pnormalize sq N) i * (pnormalize sq N) i)) :=
  ⟨cab_props sq hsq eps heps N hN i,
   fun w rho2 hw hww => disc_axis_extent _ w rho2 (pnormalize_unit sq hsq N hN) hw hww i⟩

/-- `cylinder_bounded`: every point of the cylinder (`P1 + t(P2−P1) + w`, `0 ≤ t ≤ 1`, `w ⟂` axis,
`|w| ≤ Radius`) lies in `[Cylinder.Min(), Cylinder.Max()]`, for every orientation. -/
theorem cylinder_bounded (sq : K → K) (hsq : SqrtOK sq) (eps : K) (heps : 0 < eps) (p1 p2 : Pt K) (r : K)
    (hax : 0 < pdot (psub p2 p1) (psub p2 p1)) (hr : 0 ≤ r) (t : K) (ht0 : 0 ≤ t) (ht1 : t ≤ 1) (w : Pt K)
    (hw : pdot w (pnormalize sq (psub p2 p1)) = 0) (hww : pdot w w ≤ r * r) (p : Pt K)
    (hp : ∀ i, p i = p1 i + (p2 i - p1 i) * t + w i) : InBox true (cylinderBox sq eps p1 p2 r) p :=
  cylinder_bounded' sq hsq eps heps p1 p2 r hax hr t ht0 ht1 w hw hww p hp

/-- `cone_bounded`: every point of the cone lies in `[Cone.Min(), Cone.Max()]`. -/
theorem cone_bounded (sq : K → K) (hsq : SqrtOK sq) (eps : K) (heps : 0 < eps) (tip base : Pt K) (r : K)
    (hax : 0 < pdot (psub tip base) (psub tip base)) (hr : 0 ≤ r) (t : K) (ht0 : 0 ≤ t) (ht1 : t ≤ 1) (w : Pt K)
    (hw : pdot w (pnormalize sq (psub tip base)) = 0) (hww : pdot w w ≤ (r * (1 - t)) * (r * (1 - t))) (p : Pt K)
    (hp : ∀ i, p i = base i + (tip i - base i) * t + w i) : InBox true (coneBox sq eps tip base r) p :=
  cone_bounded' sq hsq eps heps tip base r hax hr t ht0 ht1 w hw hww p hp

/-- `torus_bounded`: every point within `InnerRadius` of the ring of radius `OuterRadius` around
`Axis` lies in `[Torus.Min(), Torus.Max()]`. -/
theorem torus_bounded (sq : K → K) (hsq : SqrtOK sq) (eps : K) (heps : 0 < eps) (center axis : Pt K)
    (outer inner : K) (hax : 0 < pdot axis axis) (ho : 0 ≤ outer) (hi0 : 0 ≤ inner) (u v : Pt K)
    (hu : pdot u (pnormalize sq axis) = 0) (huu : pdot u u ≤ outer * outer) (hvv : pdot v v ≤ inner * inner)
    (p : Pt K) (hp : ∀ i, p i = center i + u i + v i) : InBox true (torusBox sq eps center axis outer inner) p :=
  torus_bounded' sq hsq eps heps center axis outer inner hax ho hi0 u v hu huu hvv p hp

/-- `rectset_bounded`: `rectSetSolid` (a tree of `InBounds`-guarded splits over single rects). -/
theorem rectset_bounded (t : RectTree K) : Bounded (rectSetS t) := rectSet_bounded t

/-- `ramp_bounded`: `toolbox3d.Ramp` — every point `Contains` accepts (off the plane through `P1`
where the code divides by zero) is a convex combination `(1-t)²·P1 + t(1-t)·P2 + t·m` of the axis end
points and a point `m` of the wrapped solid, hence inside the hull box the repaired `Min()/Max()`
report (the original code reported the wrapped solid's box: defect fixed in /repo b97dbc9). -/
theorem ramp_bounded (s : Solid K) (hs : Bounded s) (h3 : s.d3 = true) (p1 p2 c : Pt K)
    (hne : pdot (psub p2 p1) (psub c p1) ≠ 0) (hc : rampContains s p1 p2 c = true) :
    InBox true (rampS s p1 p2).box c := ramp_bounded' s hs h3 p1 p2 c hne hc

/-! ## Non-vacuity -/

/-- the hypotheses about the square root are satisfiable: `Real.sqrt` -/
example : SqrtOK Real.sqrt := fun x hx => ⟨Real.sqrt_nonneg x, Real.mul_self_sqrt hx⟩

/-- `Leaves Bounded` holds for a tree over closed-form leaves (so `bounded_sound` is not vacuous):
a negatively, anisotropically scaled join of a rect and a sphere, intersected with a rect. -/
example : Leaves (K := ℚ) Bounded
    (.inter (.xform [.vecScale (mk3 (-2) 1 (1/2))] (.joined (.prim (rectS true (mk3 0 0 0) (mk3 1 1 1)))
      [.prim (sphereS true (mk3 0 0 0) 1)])) [.prim (rectS true (mk3 (-1) (-1) (-1)) (mk3 3 3 3))]) := by
  refine .inter _ _ (.xform _ _ (.joined _ _ (.prim _ (rect_bounded _ _ _)) ?_)) ?_
  · intro e he
    simp only [List.mem_cons, List.not_mem_nil, or_false] at he
    subst he; exact .prim _ (sphere_bounded _ _ _)
  · intro e he
    simp only [List.mem_cons, List.not_mem_nil, or_false] at he
    subst he; exact .prim _ (rect_bounded _ _ _)

/-- the collider contract is consistent (an empty collider) -/
example : ColOK (K := ℚ) ⟨true, ⟨mk3 0 0 0, mk3 1 1 1⟩, fun _ => false, fun _ _ => false⟩ :=
  ⟨fun _ h => by simp at h, fun _ _ _ h => by simp at h, fun _ _ _ h _ => by simp at h⟩

/-- the SDF contract holds for the SDF of a slab-like box function (here: min over the face distances) -/
example : SDFBoxed (K := ℚ) ⟨false, ⟨mk3 0 0 0, mk3 1 1 0⟩,
    fun p => min (min (p 0 - 0) (1 - p 0)) (min (p 1 - 0) (1 - p 1))⟩ := by
  intro p i hi
  rcases fin3 i with rfl | rfl | rfl
  · simp only [get0]
    exact ⟨le_trans (min_le_left _ _) (min_le_left _ _), le_trans (min_le_left _ _) (min_le_right _ _)⟩
  · simp only [get1]
    exact ⟨le_trans (min_le_right _ _) (min_le_left _ _), le_trans (min_le_right _ _) (min_le_right _ _)⟩
  · rcases hi with hi | hi <;> exact absurd hi (by decide)

end M3d.C03
