import M3d.Lemmas.Triangulate
import M3d.Lemmas.TriCert
import M3d.Lemmas.TriMore
import M3d.Lemmas.TriProfile
import M3d.Lemmas.TriMono
import M3d.Lemmas.TriScale
import M3d.Lemmas.TriWinding
import M3d.Lemmas.TriProfileMfd
import M3d.Lemmas.TriPlace
import M3d.Lemmas.TriFace
import M3d.Lemmas.TriEar
import M3d.Lemmas.TriOff
import M3d.Lemmas.TriStart
import M3d.Lemmas.Surface
/-!
# C14 — triangulation covers the polygon exactly

Property theorems only.  Models: `M3d/Model/Triangulate.lean` (transcribes `model2d/triangulate.go`,
`model3d/triangulate.go`, `model3d/mesh.go: ProfileMesh`); helper lemmas in
`M3d/Lemmas/Triangulate.lean`, `M3d/Lemmas/TriCert.lean`.

All statements are over an arbitrary linear ordered field `K` (so in particular ℝ and ℚ — at ℚ the
functions are literally the ones the driver executes on the real outputs of the Go code).
`orient a b c` is twice the signed area of the triangle (positive = counter-clockwise, y up), so
"clockwise" is `orient < 0`.
-/
namespace M3d.C14
open M3d.Tri M3d.Surface

variable {K : Type} [Field K] [LinearOrder K] [IsStrictOrderedRing K]

/-! ## Ear clipping (`model2d.Triangulate`) -/

/-- **Removing any vertex `i` of a polygon removes exactly the triangle
`(polygon[(i+n-1)%n], polygon[i], polygon[(i+1)%n])` from its shoelace area** — the identity
`area(P) = area(P minus vertex i) + area(triangle(i−1,i,i+1))` that one step of `Triangulate`
(`OrderedDelete(&newPoly, i)` + the emitted triangle) relies on, for every `i`, ear or not. -/
theorem shoelace_fan (l : List (P2 K)) (i : Nat) (hi : i < l.length) (h2 : 2 ≤ l.length) :
    shoelace2 l = shoelace2 (l.eraseIdx i) + triArea2 (earTri l i) :=
  shoelace2_eraseIdx l i hi h2

/-- **Whatever ears are chosen**: for ANY sequence of `n−2` in-range indices removed one after the
other from an `n`-gon (`n ≥ 2`), the signed areas of the emitted triangles sum to the polygon's
shoelace area, exactly `n−2` triangles are emitted, and every triangle vertex is an input vertex.
(`Triangulate`'s base case `len == 3` is the removal of index 1 from the triangle.) -/
theorem ear_clip_area (l : List (P2 K)) (is : List Nat) (hv : ValidSeq l is)
    (hn : is.length + 2 = l.length) :
    sumArea2 (clipSeq l is) = shoelace2 l ∧
    (clipSeq l is).length = l.length - 2 ∧
    ∀ t ∈ clipSeq l is, t.1 ∈ l ∧ t.2.1 ∈ l ∧ t.2.2 ∈ l := by
  refine ⟨?_, ?_, clipSeq_mem l is hv⟩
  · have h := clipSeq_area l is hv
    have hr : shoelace2 (clipRest l is) = 0 :=
      shoelace2_length_le_two _ (by rw [clipRest_length l is hv]; omega)
    rw [hr, add_zero] at h
    exact h
  · rw [clipSeq_length]; omega

/-- Non-vacuity: the unit square, ears at 0 then at 1 (of the remaining triangle). -/
example :
    let sq : List (P2 Rat) := [⟨0, 0⟩, ⟨0, 1⟩, ⟨1, 1⟩, ⟨1, 0⟩]
    ValidSeq sq [0, 1] ∧ sumArea2 (clipSeq sq [0, 1]) = -2 ∧ shoelace2 sq = -2 := by
  refine ⟨by simp [ValidSeq], by decide +kernel, by decide +kernel⟩

/-- **`Triangulate` uses only input vertices** and returns at most `n − 2` triangles: for the
faithful model `triangulate` (colinear removal, first-ear search with the exact ear test,
recursion — either version of the diagonal test), whenever it returns (no panic). -/
theorem triangulate_uses_input_vertices (strictDiag : Bool) (fuel : Nat) (poly : List (P2 K))
    (ts : List (PTri K)) (h : triangulate strictDiag fuel poly = some ts) :
    (∀ t ∈ ts, t.1 ∈ poly ∧ t.2.1 ∈ poly ∧ t.2.2 ∈ poly) ∧ ts.length + 2 ≤ poly.length :=
  triangulate_mem strictDiag fuel poly ts h

/-! ## The certificate checker -/

/-- The area equation of the checker is redundant: it follows from the edge conditions. -/
theorem cert_area_redundant (c : Nat → P2 K) (nv : Nat) (cw : Bool) (bnd : List Edge) (tris : List Tri) :
    certOk c nv cw bnd tris = true ↔ edgesOk c nv cw bnd tris = true :=
  certOk_iff_edgesOk c nv cw bnd tris

/-- **Soundness of the certificate checker that the driver runs on every real output.**
If `certOk c nv cw bnd tris` holds for coordinates `c` of the `nv` input vertices, boundary edges
`bnd` (every loop in its documented direction) and returned triangles `tris` (as vertex ids), then

1. every triangle corner is an input vertex;
2. every triangle is non-degenerate with the required orientation (clockwise iff `cw`);
3. after splitting edges at input vertices that lie on them (T-junctions), the triangles are
   **glued along interior edges into a region whose boundary is exactly the input boundary**
   (`Glued`): no directed edge is used twice, every boundary edge is used once in boundary direction
   and never backwards, every other edge is matched by its reverse exactly once;
4. **chain level: the boundary of the sum of the oriented triangles is the oriented input
   boundary** — every antisymmetric, subdivision-additive functional on directed edges (shoelace
   terms, signed ray crossings of a winding number, …) has the same total over the triangles'
   edges as over the input boundary;
5. the signed triangle areas sum to the region's shoelace area (outer loops minus holes). -/
theorem triangulation_certificate_sound (c : Nat → P2 K) (nv : Nat) (cw : Bool) (bnd : List Edge)
    (tris : List Tri) (h : certOk c nv cw bnd tris = true) :
    (∀ t ∈ tris, t.1 < nv ∧ t.2.1 < nv ∧ t.2.2 < nv) ∧
    (∀ t ∈ tris, if cw = true then triOrient c t < 0 else 0 < triOrient c t) ∧
    (∃ B E, refineAll c nv bnd = some B ∧ refineAll c nv (dirEdges tris) = some E ∧ Glued B E) ∧
    (∀ f : Edge → K, (∀ e, f (swap e) = -f e) → SegAdditive c f →
        sumF f (dirEdges tris) = sumF f bnd) ∧
    sumF (triOrient c) tris = sumF (crossE c) bnd := by
  have he := (certOk_iff_edgesOk c nv cw bnd tris).1 h
  obtain ⟨h1, h2, h3⟩ := edgesOk_spec he
  exact ⟨h1, h2, h3, fun f ha hs => edgesOk_chain he f ha hs, edgesOk_area he⟩

/-- Non-vacuity: the unit square (clockwise) split by a diagonal passes; the same two triangles
with one of them reversed do not. -/
example :
    let c : Nat → P2 Rat := fun i => ([⟨0, 0⟩, ⟨0, 1⟩, ⟨1, 1⟩, ⟨1, 0⟩] : List (P2 Rat)).getD i ⟨0, 0⟩
    certOk c 4 true (loopEdges [4]) [(0, 1, 2), (0, 2, 3)] = true ∧
    certOk c 4 true (loopEdges [4]) [(0, 1, 2), (0, 3, 2)] = false := by
  decide +kernel

/-! ### placement and unit of length -/

/-- **`cert_similarity_invariant`.**  The checker's verdict does not depend on the placement or on
the unit of length: for every similarity `p ↦ (a·x − b·y + e, b·x + a·y + f)` with `(a,b) ≠ 0`
(all orientation-preserving rigid placements — rotation by any angle, translation — composed with a
uniform scaling by `√(a²+b²)`), the same triangle list is a valid certificate for the mapped
coordinates iff it is one for the original coordinates.  So the property "the returned triangles
triangulate the region" is itself invariant: an implementation whose output for `k·P` is not the
`k`-multiple of a valid triangulation of `P` violates it at `k·P`, whatever the unit. -/
theorem cert_similarity_invariant (a b e f : K) (h : a ≠ 0 ∨ b ≠ 0) (c : Nat → P2 K) (nv : Nat)
    (cw : Bool) (bnd : List Edge) (tris : List Tri) :
    certOk (fun i => simMap a b e f (c i)) nv cw bnd tris = certOk c nv cw bnd tris :=
  certOk_simMap h c nv cw bnd tris

/-- **`cert_scale_invariant`** (what the driver uses for `S k` op lines: the Go code was given
the coordinates `k · pts0`, the checker is run on `pts0`).  For every factor `k ≠ 0`:

* `certOk` on the scaled coordinate table ⇔ `certOk` on the unscaled one, and likewise the tolerant
  variant `edgesOkG` that classifies the known finding;
* the scaled coordinate table is the coordinate table of the scaled point list (what the driver's
  `coordFn` builds), including its default value;
* shoelace areas scale by `k²`: the area printed for the scaled instance is `k²` times the area of
  the unscaled one, and the triangle areas scale alike, so clause 5 of
  `triangulation_certificate_sound` at one scale is the same equation at every other. -/
theorem cert_scale_invariant (k : K) (hk : k ≠ 0) (c : Nat → P2 K) (nv : Nat) (cw : Bool)
    (bnd : List Edge) (tris : List Tri) :
    (certOk (fun i => scaleP k (c i)) nv cw bnd tris = true ↔ certOk c nv cw bnd tris = true) ∧
    (∀ strict, edgesOkG strict (fun i => scaleP k (c i)) nv cw bnd tris = edgesOkG strict c nv cw bnd tris) ∧
    (∀ (l : List (P2 K)) (i : Nat), (l.map (scaleP k)).getD i ⟨0, 0⟩ = scaleP k (l.getD i ⟨0, 0⟩)) ∧
    (∀ l : List (P2 K), shoelace2 (l.map (scaleP k)) = k * k * shoelace2 l) ∧
    sumF (triOrient fun i => scaleP k (c i)) tris = k * k * sumF (triOrient c) tris := by
  have hf : (fun i => scaleP k (c i)) = fun i => simMap k 0 0 0 (c i) := by
    funext i; exact scaleP_eq_simMap k (c i)
  refine ⟨?_, ?_, getD_map_scaleP k, shoelace2_scaleP k, ?_⟩
  · rw [hf, certOk_simMap (Or.inl hk)]
  · intro strict; rw [hf, edgesOkG_simMap (Or.inl hk)]
  · rw [hf]
    induction tris with
    | nil => simp [sumF_nil]
    | cons t ts ih => rw [sumF_cons, sumF_cons, ih, triOrient_simMap]; ring

/-- Non-vacuity: the unit square in units of 2⁻²⁰ (and rotated by the 3-4-5 angle, translated):
same verdicts as at unit scale, for the valid and for the invalid triangle list. -/
example :
    let c : Nat → P2 Rat := fun i => ([⟨0, 0⟩, ⟨0, 1⟩, ⟨1, 1⟩, ⟨1, 0⟩] : List (P2 Rat)).getD i ⟨0, 0⟩
    certOk (fun i => scaleP (1 / 1048576) (c i)) 4 true (loopEdges [4]) [(0, 1, 2), (0, 2, 3)] = true ∧
    certOk (fun i => scaleP (1 / 1048576) (c i)) 4 true (loopEdges [4]) [(0, 1, 2), (0, 3, 2)] = false ∧
    certOk (fun i => simMap (3 / 5) (4 / 5) 7 (-2) (c i)) 4 true (loopEdges [4]) [(0, 1, 2), (0, 2, 3)] = true := by
  decide +kernel

/-- **`cert_placement_invariant`** ("any rigid placement": what the driver uses for op lines with
a far placement `O e f` and/or a unit `S k`: the Go code was given the points `k·(p + (e,f))` —
`placeP k e f p` — for the written points `p`, the checker is run on the written points).  For every
translation vector `(e,f)` (however large compared with the polygon) and every factor `k ≠ 0`:

* `certOk` / the tolerant `edgesOkG` give the same verdict on the placed coordinate table
  `i ↦ placeP k e f (c i)` as on `c`;
* that table is the coordinate table of the placed point list at every vertex id (`i < length`; ids
  beyond are not vertices: the checker rejects triangles that use them);
* the shoelace area of every closed polygon is multiplied by `k²` and does not depend on `(e,f)`
  at all (the printed area), every orientation determinant likewise;
* `isClockwise` — the model of `isPolygonClockwise`, which decides which vertices `isVertexEar`
  treats as convex and how `triangulateMonotoneMesh` orients its fan triangles — gives the same
  answer for the placed polygon as for the written one.

So an implementation whose triangulation of `P + v` is not the translate of a valid triangulation
of `P` violates the property at `P + v`. -/
theorem cert_placement_invariant (k e f : K) (hk : k ≠ 0) (c : Nat → P2 K) (nv : Nat) (cw : Bool)
    (bnd : List Edge) (tris : List Tri) :
    certOk (fun i => placeP k e f (c i)) nv cw bnd tris = certOk c nv cw bnd tris ∧
    (∀ strict, edgesOkG strict (fun i => placeP k e f (c i)) nv cw bnd tris = edgesOkG strict c nv cw bnd tris) ∧
    (∀ (l : List (P2 K)) (i : Nat), i < l.length →
      (l.map (placeP k e f)).getD i ⟨0, 0⟩ = placeP k e f (l.getD i ⟨0, 0⟩)) ∧
    (∀ l : List (P2 K), shoelace2 (l.map (placeP k e f)) = k * k * shoelace2 l) ∧
    (∀ p q r : P2 K, orient (placeP k e f p) (placeP k e f q) (placeP k e f r) = k * k * orient p q r) ∧
    (∀ l : List (P2 K), isClockwise (l.map (placeP k e f)) = isClockwise l) := by
  have hf : (fun i => placeP k e f (c i)) = fun i => simMap k 0 (k * e) (k * f) (c i) := by
    funext i; exact placeP_eq_simMap k e f (c i)
  refine ⟨?_, ?_, ?_, shoelace2_placeP k e f, ?_, isClockwise_placeP k e f hk⟩
  · rw [hf, certOk_simMap (Or.inl hk)]
  · intro strict; rw [hf, edgesOkG_simMap (Or.inl hk)]
  · intro l i hi; simp [List.getD, hi]
  · intro p q r
    rw [placeP_eq_simMap, placeP_eq_simMap, placeP_eq_simMap, orient_simMap]; ring

/-- Non-vacuity: the unit square placed at `(123456789, −987654321)` (offset/size ≈ 1e9) in units
of 2⁻¹⁰: same verdicts as at the origin for the valid and for the invalid triangle list, and it is
still clockwise. -/
example :
    let l : List (P2 Rat) := [⟨0, 0⟩, ⟨0, 1⟩, ⟨1, 1⟩, ⟨1, 0⟩]
    let c : Nat → P2 Rat := fun i => l.getD i ⟨0, 0⟩
    let g : P2 Rat → P2 Rat := placeP (1 / 1024) 123456789 (-987654321)
    certOk (fun i => g (c i)) 4 true (loopEdges [4]) [(0, 1, 2), (0, 2, 3)] = true ∧
    certOk (fun i => g (c i)) 4 true (loopEdges [4]) [(0, 1, 2), (0, 3, 2)] = false ∧
    isClockwise (l.map g) = true ∧ shoelace2 (l.map g) = -2 / 1048576 := by
  decide +kernel

/-- **`triangulate_translation_equivariant`.**  The faithful model of `model2d.Triangulate`
(colinear removal, orientation of the polygon, first ear in index order with the exact convexity and
point-in-ear tests, recursion, both panics) commutes with every translation: for the polygon moved
by ANY vector `(e,f)` it panics iff it panics for the polygon itself, and otherwise returns the
same ears in the same order, moved by `(e,f)`.  (Every decision of the Go code is a function of
coordinate differences — `clockwiseAngle` of `p1−p2, p3−p2`, the matrix of `p1−p2, p3−p2` applied to
`p−p2`; a version that decides the orientation from ABSOLUTE coordinates is not of this form.)
This is why the `earseq` / `ear` answers expected at a far placement are the ones at the origin. -/
theorem triangulate_translation_equivariant (strictDiag : Bool) (e f : K) (fuel : Nat) (poly : List (P2 K)) :
    triangulate strictDiag fuel (poly.map (translate e f)) =
      (triangulate strictDiag fuel poly).map (mapTris (translate e f)) ∧
    isClockwise (poly.map (translate e f)) = isClockwise poly ∧
    (∀ v, v < poly.length →
      isVertexEar strictDiag (poly.map (translate e f)) v = isVertexEar strictDiag poly v) :=
  ⟨triangulate_translate' strictDiag e f fuel poly, isClockwise_translate e f poly,
    fun v hv => isVertexEar_translate strictDiag e f poly v hv⟩

/-- Non-vacuity: the L-shaped hexagon of size 4 at the origin and at `(10⁹, 10⁹)`: four
triangles, the same ears. -/
example :
    let l : List (P2 Rat) := [⟨0, 0⟩, ⟨4, 0⟩, ⟨4, 2⟩, ⟨2, 2⟩, ⟨2, 4⟩, ⟨0, 4⟩]
    (triangulate false 7 l).map List.length = some 4 ∧
    triangulate false 7 (l.map (translate 1000000000 1000000000)) =
      (triangulate false 7 l).map (mapTris (translate 1000000000 1000000000)) := by
  decide +kernel

/-- **`triangulate_any_start_any_order`.**  `Triangulate` (model2d and the `model3d` wrapper that
`TriangulateFace` / `ReadOFF` go through) takes the polygon as "a series of points, in order; the
first point is re-used as the ending point", i.e. as a CYCLIC list: the same polygon can be listed
from any starting vertex (`l.rotate k` = Go `append(p[k:], p[:k]...)`) and in either order
(`l.reverse`).  For every list `l` of any length, every `k`:
the shoelace sum — hence the area the returned triangles must add up to — is the same for every
starting vertex and only changes sign under reversal; the orientation of the polygon (`isClockwise`,
the model of `isPolygonClockwise`, with which the orientation of every returned triangle is checked)
is the same for every starting vertex and flips under reversal.  So the answer the `ear` / `ear3` /
`face` / `off` kinds demand for a polygon is the same whichever vertex the list starts at, convex or
reflex, and for both orders, at every size — the orientation is a property of the WHOLE outline
(the example below: it cannot be read off the turn at one vertex of the list). -/
theorem triangulate_any_start_any_order (l : List (P2 K)) (k : Nat) :
    shoelace2 (l.rotate k) = shoelace2 l ∧
    shoelace2 l.reverse = -shoelace2 l ∧
    |shoelace2 (l.rotate k)| = |shoelace2 l| ∧ |shoelace2 l.reverse| = |shoelace2 l| ∧
    isClockwise (l.rotate k) = isClockwise l ∧
    (shoelace2 l ≠ 0 → isClockwise l.reverse = !isClockwise l) :=
  ⟨shoelace2_rotateN l k, shoelace2_reverse l, by rw [shoelace2_rotateN],
    by rw [shoelace2_reverse, abs_neg], isClockwise_rotate l k, isClockwise_reverse l⟩

/-- Non-vacuity and regression example: the arrow head `tip (0,4), wing (2,0), notch (0,1), wing (−2,0)`
is clockwise from every starting vertex; listed from a wing, the SECOND vertex of the list is the
notch, where the outline turns counter-clockwise (`orient > 0`) — the turn at one vertex is not the
orientation of the polygon.  The model of `Triangulate` returns two triangles for each of the four
starting vertices and for the reversed list. -/
example :
    let l : List (P2 Rat) := [⟨0, 4⟩, ⟨2, 0⟩, ⟨0, 1⟩, ⟨-2, 0⟩]
    (∀ k ∈ [0, 1, 2, 3], isClockwise (l.rotate k) = true ∧
      (triangulate false 5 (l.rotate k)).map List.length = some 2) ∧
    0 < orient ((l.rotate 1).getD 0 zeroP) ((l.rotate 1).getD 1 zeroP) ((l.rotate 1).getD 2 zeroP) ∧
    isClockwise l.reverse = false ∧ (triangulate false 5 l.reverse).map List.length = some 2 := by
  decide +kernel

/-! ### pointwise: inside, non-overlapping, covering -/

/-- **`triangulation_winding_sum`** (chain level → winding numbers, T-junctions included).  For
EVERY certificate accepted by the checker and EVERY point `p` of the plane, the winding numbers
(signed crossings of the ray from `p`, half-open rule) of all returned triangles add up to the
winding number of the input boundary.  The T-junction refinement is covered because the signed
crossing is additive under subdivision of an edge at a vertex inside it, around every point
(`crossing_segAdditive`) — so this is clause 4 of `triangulation_certificate_sound` instantiated
with the crossing functional. -/
theorem triangulation_winding_sum (c : Nat → P2 K) (nv : Nat) (cw : Bool) (bnd : List Edge)
    (tris : List Tri) (h : certOk c nv cw bnd tris = true) (p : P2 K) :
    sumF (fun t => winding c p (triEdges t)) tris = winding c p bnd := by
  have he := (certOk_iff_edgesOk c nv cw bnd tris).1 h
  have h1 : sumF (fun t => winding c p (triEdges t)) tris = sumF (crossing c p) (dirEdges tris) := by
    unfold dirEdges; rw [sumF_flatMap]; rfl
  rw [h1]
  exact edgesOk_chain he (crossing c p) (crossing_antisymm c p) (crossing_segAdditive c p)

/-- **`triangle_winding_indicator`.**  The winding number of a non-degenerate triangle oriented
as the flag `cw` says (clockwise: `orient < 0`) is `∓1` (`−1` for clockwise) around every point
strictly inside it (`insideTri`: strictly on the inner side of all three edges) and `0` around every
point strictly outside it (`outsideTri`: strictly on the outer side of some edge).  Proved from the
barycentric identities `Σ oᵢ = O`, `Σ oᵢ·(yᵢ − p.y) = 0` by a case analysis over which corners lie
above the ray. -/
theorem triangle_winding_indicator (c : Nat → P2 K) (cw : Bool) (t : Tri) (p : P2 K)
    (ho : if cw = true then triOrient c t < 0 else 0 < triOrient c t) :
    (insideTri c cw t p = true → winding c p (triEdges t) = cwSign cw) ∧
    (outsideTri c cw t p = true → winding c p (triEdges t) = 0) :=
  tri_winding c cw t p ho

/-- **`triangulation_cover_partial`** ("lie inside the region, do not overlap, cover it", pointwise).
Let the checker accept `tris` for the boundary `bnd`, and let `p` be any point that lies strictly
inside or strictly outside each returned triangle (i.e. not on a triangle edge — all points except
a set of measure zero).  Then **the number of triangles containing `p` equals the winding number of
the input boundary around `p`** (up to the orientation sign: `−winding` for clockwise output).
Consequently, wherever the input boundary winds once in its documented direction (`winding = ∓1`)
EXACTLY ONE triangle contains `p`, and wherever it does not wind (`winding = 0`) NO triangle does:
the triangles do not overlap, stay inside the region and cover it.

Now proved: (a) the triangle winding number is the indicator of its interior
(`triangle_winding_indicator`), (c) T-junction refinement (`triangulation_winding_sum`).
Still `_partial` because of (b): that the boundary of a *simple, correctly oriented* region has
winding number `∓1` at its interior points and `0` outside (the polygonal Jordan curve theorem) is a
fact about the INPUT which is not mechanised; the theorem is stated relative to the boundary's
winding number, which is the standard definition of the region enclosed by oriented loops
(outer loops minus holes). -/
theorem triangulation_cover_partial (c : Nat → P2 K) (nv : Nat) (cw : Bool) (bnd : List Edge)
    (tris : List Tri) (h : certOk c nv cw bnd tris = true) (p : P2 K)
    (hgen : ∀ t ∈ tris, insideTri c cw t p = true ∨ outsideTri c cw t p = true) :
    (((tris.filter fun t => insideTri c cw t p).length : K) = cwSign cw * winding c p bnd) ∧
    (winding c p bnd = cwSign cw → (tris.filter fun t => insideTri c cw t p).length = 1) ∧
    (winding c p bnd = 0 → (tris.filter fun t => insideTri c cw t p).length = 0) := by
  have hs := triangulation_winding_sum c nv cw bnd tris h p
  have ho := (triangulation_certificate_sound c nv cw bnd tris h).2.1
  have hc := sum_winding_count c cw p tris ho hgen
  have hsq : cwSign cw * cwSign cw = (1 : K) := by cases cw <;> simp [cwSign]
  have hcount : ((tris.filter fun t => insideTri c cw t p).length : K) = cwSign cw * winding c p bnd := by
    rw [← hs, hc, ← mul_assoc, hsq, one_mul]
  refine ⟨hcount, fun hw => ?_, fun hw => ?_⟩
  · rw [hw, hsq] at hcount
    exact_mod_cast hcount
  · rw [hw, mul_zero] at hcount
    exact_mod_cast hcount

/-- Non-vacuity and a sanity check of the functional: around the point `(1/4,1/2)` of the unit
square (clockwise) the two triangles of the split have winding numbers −1 and 0, the boundary −1;
exactly one triangle contains the point, and it is strictly inside or outside each. -/
example :
    let c : Nat → P2 Rat := fun i => ([⟨0, 0⟩, ⟨0, 1⟩, ⟨1, 1⟩, ⟨1, 0⟩] : List (P2 Rat)).getD i ⟨0, 0⟩
    let p : P2 Rat := ⟨1/4, 1/2⟩
    winding c p (triEdges (0, 1, 2)) = -1 ∧ winding c p (triEdges (0, 2, 3)) = 0 ∧
      winding c p (loopEdges [4]) = -1 ∧
      insideTri c true (0, 1, 2) p = true ∧ outsideTri c true (0, 2, 3) p = true ∧
      ([(0, 1, 2), (0, 2, 3)].filter fun t => insideTri c true t p).length = 1 := by
  decide +kernel

/-- **Discrete Stokes** in the form used for `diagonals_cancel` and the certificate: interior edges
cancel in pairs. -/
theorem glued_boundary_sum {B E : List Edge} (h : Glued B E) (f : Edge → K)
    (hf : ∀ e, f (swap e) = -f e) : sumF f E = sumF f B :=
  glued_sum h f hf


/-- **`ear_clip_orientation`.** `isVertexEar` only accepts a vertex whose triangle
`(p1, p2, p3)` turns the way the polygon does: for a clockwise polygon (negative shoelace area)
the emitted triangle is clockwise or degenerate (`orient ≤ 0`), for a counter-clockwise one it is
strictly counter-clockwise.  (`Triangulate` documents the orientation of its output as undefined;
what the code guarantees, and what the certificate checks on every run, is that every triangle is
oriented like the polygon — for `TriangulateMesh`, whose input loops are clockwise, that is the
documented clockwise.)  Holds for the original strict point-in-ear test and the repaired one. -/
theorem ear_clip_orientation (strictDiag : Bool) (l : List (P2 K)) (v : Nat)
    (h : isVertexEar strictDiag l v = true) :
    (isClockwise l = true → triArea2 (earTri l v) ≤ 0) ∧
    (isClockwise l = false → 0 < triArea2 (earTri l v)) := by
  have := isVertexEar_orient h
  constructor
  · intro hc; exact this.1 hc
  · intro hc
    by_contra hn
    have := this.2 (not_lt.1 hn)
    rw [hc] at this; cases this

/-- **`ear_test_rejects_interior_vertex`** — the point-in-ear test has NO lower tolerance.
`isVertexEar` (both versions of the diagonal test) rejects the corner `v` of the polygon `l` as soon as
some OTHER vertex `l[i]` (not `v` and not one of its two neighbours) lies strictly inside the triangle
`(p1, p2, p3) = (l[v−1], l[v], l[v+1])` that cutting the ear would emit — strictly on the inner side of
all three edges, **however close to one of them**: the statement is in terms of the signs of the three
orientation determinants only, there is no bound on the barycentric coordinates
`X = orient p2 p3 p / O`, `Y = orient p1 p2 p / O` (`blocks_eq_orient`).  The repaired test
(`strictDiag = false`) also rejects when the vertex lies ON the open diagonal `p3p1`.  Conversely an
accepted ear contains no other vertex of the polygon strictly inside or on its open diagonal.
(An ear triangle with a polygon vertex strictly inside sticks out of the polygon next to that vertex,
so a version of the test that ignores vertices within some ε of the two polygon sides of the ear
returns triangles that leave the region; the `nearside` family of the harness has vertices at
barycentric distances 1e-12 … 1e-8 from a side.) -/
theorem ear_test_rejects_interior_vertex (l : List (P2 K)) (v i : Nat) (hi : i < l.length)
    (h1 : i ≠ (v + l.length - 1) % l.length) (h2 : i ≠ v) (h3 : i ≠ (v + 1) % l.length) :
    (StrictlyInside (prevAt l v) (curAt l v) (nextAt l v) (curAt l i) →
      ∀ sd, isVertexEar sd l v = false) ∧
    (OnOpenDiagonal (prevAt l v) (curAt l v) (nextAt l v) (curAt l i) → isVertexEar false l v = false) ∧
    (isVertexEar false l v = true → orient (prevAt l v) (curAt l v) (nextAt l v) ≠ 0 →
      ¬ StrictlyInside (prevAt l v) (curAt l v) (nextAt l v) (curAt l i) ∧
      ¬ OnOpenDiagonal (prevAt l v) (curAt l v) (nextAt l v) (curAt l i)) := by
  refine ⟨fun h sd => ?_, fun h => ?_, fun h hO => ?_⟩
  · exact isVertexEar_false_of_blocks sd l v i hi h1 h2 h3 (blocks_of_strictlyInside sd _ _ _ _ h)
  · exact isVertexEar_false_of_blocks false l v i hi h1 h2 h3 (blocks_of_onOpenDiagonal _ _ _ _ h)
  · have hb := not_blocks_of_isVertexEar false l v i hi h1 h2 h3 h
    constructor
    · intro hin
      rw [blocks_of_strictlyInside false _ _ _ _ hin] at hb; cases hb
    · intro hd
      rw [blocks_of_onOpenDiagonal _ _ _ _ hd] at hb; cases hb

/-- Non-vacuity at two scales at once: the corner `(0,0)` of the counter-clockwise polygon
`(2^30,0) (0,2^30) (0,0) (2^10,0) (2^9,1) (2^11,0)` has the notch tip `(2^9, 1)` strictly inside its
ear `(0,2^30) (0,0) (2^10,0)` at the barycentric distance `X = 2^-30 ≈ 9.3e-10` from the side
`(0,0)(2^10,0)`; the ear is rejected, and the model of `Triangulate` returns four triangles. -/
example :
    let l : List (P2 Rat) := [⟨1073741824, 0⟩, ⟨0, 1073741824⟩, ⟨0, 0⟩, ⟨1024, 0⟩, ⟨512, 1⟩, ⟨2048, 0⟩]
    StrictlyInside (prevAt l 2) (curAt l 2) (nextAt l 2) (curAt l 4) ∧
    orient (curAt l 2) (nextAt l 2) (curAt l 4) / orient (prevAt l 2) (curAt l 2) (nextAt l 2) = 1 / 1073741824 ∧
    isVertexEar false l 2 = false ∧ (triangulate false 7 l).map List.length = some 4 := by
  refine ⟨Or.inl ⟨by decide +kernel, by decide +kernel, by decide +kernel⟩, by decide +kernel,
    by decide +kernel, by decide +kernel⟩

/-- Regression example for the repaired defect: in the polygon
`(0,-2) (0,0) (7,2) (7,-6) (4,-6) (4,-3) (3,-3) (3,-2)` (after the first two ears have been cut:
`(3,-2) (7,2) (7,-6) (4,-6) (4,-3) (3,-3)`) the vertex `(4,-3)` lies ON the diagonal of the
candidate ear at `(7,2)`; the original strict test accepted that ear, the repaired test rejects it. -/
example :
    let l : List (P2 Rat) := [⟨3, -2⟩, ⟨7, 2⟩, ⟨7, -6⟩, ⟨4, -6⟩, ⟨4, -3⟩, ⟨3, -3⟩]
    isVertexEar true l 1 = true ∧ isVertexEar false l 1 = false := by
  decide +kernel

/-- **`diagonals_cancel`.**  Add any list `ds` of diagonals, each in both directions, to the
boundary edges `bnd` (what `triangulateMonotoneDecomp` does with the sweep's `Generated` list) and
decompose the resulting directed-edge multiset into closed walks in ANY way (the face walk by
smallest angle is one): the shoelace areas of the walks sum to the shoelace area of the boundary. -/
theorem diagonals_cancel (c : Nat → P2 K) (bnd ds : List Edge) (walks : List (List Nat))
    (h : (walks.flatMap cycleEdges).Perm (bnd ++ (ds ++ ds.map swap))) :
    sumF (fun w => shoelace2 (w.map c)) walks = sumF (crossE c) bnd := by
  have h1 : sumF (fun w => shoelace2 (w.map c)) walks = sumF (crossE c) (walks.flatMap cycleEdges) := by
    rw [sumF_flatMap]; congr 1; funext w; exact shoelace2_walk c w
  rw [h1, sumF_perm _ h, sumF_append, sumF_map_swap_cancel c _ (crossE_antisymm c), add_zero]

/-- Non-vacuity: the square `0 1 2 3` with the diagonal `(0,2)` splits into the walks `0 1 2`
and `0 2 3`. -/
example : ([[0, 1, 2], [0, 2, 3]].flatMap cycleEdges).Perm
    ([(0, 1), (1, 2), (2, 3), (3, 0)] ++ ([(0, 2)] ++ [(0, 2)].map swap)) := by
  decide

/-! ## The stack algorithm (`triangulateMonotoneMesh`) -/

/-- **`monotone_stack_area`.**  Run the stack algorithm (the model `monoLoopG` of the loop of
`triangulateMonotoneMesh`: first vertex a start vertex, then chain vertices classified `upper` /
`lower` in sweep order, finally the end vertex) with every fan triangle oriented as the chain
geometry dictates (`rawFan`: `{stack[i], stack[i+1], v}` on the upper chain, first two swapped on
the lower chain — the rule the same-chain branch of the Go code applies literally).  Then, for
EVERY classification sequence and all coordinates,

* the signed areas of the emitted triangles sum to the shoelace area of the polygon
  `start, upper chain →, end, lower chain ←`;
* the stack is empty at the end (no "polygon was not monotone" panic from the final check);
* exactly `n − 2` triangles are emitted for the `n` vertices.

Relation to the Go code: it orients the fan triangles with `if !isPolygonClockwise(tri) {swap}`
(`fixCW`), which yields the same triangle as `rawFan` whenever that one is clockwise
(`fixCW_eq_rawFan` below) — true for every fan triangle of an x-monotone clockwise polygon (a
geometric fact that is not mechanised; it is what the exact `mono` correspondence and the
orientation clause of the certificate check on every run). -/
theorem monotone_stack_area (c : Nat → P2 K) (ty : Nat → VType) (n : Nat) (v0 v1 e : Nat) (mid : List Nat)
    (hv1 : ty v1 = .upper ∨ ty v1 = .lower) (hmid : ∀ v ∈ mid, ty v = .upper ∨ ty v = .lower)
    (he : ty e = .end) :
    let s := monoLoopG rawFan c ty n ⟨[v0], .start, [], true⟩ 0 (v1 :: mid ++ [e])
    sumF (triOrient c) s.tris = shoelace2 ((monoPolygon ty v0 (v1 :: mid) e).map c) ∧ s.stack = [] ∧
      s.tris.length + 2 = (monoPolygon ty v0 (v1 :: mid) e).length :=
  monoRun_spec c ty n v0 v1 e mid hv1 hmid he

/-- `fixCW` (the Go orientation repair) returns the chain-dictated triangle whenever that triangle
is strictly clockwise. -/
theorem fixCW_eq_rawFan (c : Nat → P2 K) (ty : VType) (t : Tri) (h : triOrient c (rawFan ty t) < 0) :
    fixCW c t = rawFan ty t := by
  unfold rawFan at h ⊢
  by_cases hu : ty = .upper
  · rw [if_pos hu] at h ⊢
    have h'' : orient (c t.1) (c t.2.1) (c t.2.2) ≤ 0 := le_of_lt h
    unfold fixCW; rw [if_pos h'']
  · rw [if_neg hu] at h ⊢
    have h' : 0 < triOrient c t := by
      have := triOrient_flip c t; rw [this] at h; linarith
    have h'' : ¬ orient (c t.1) (c t.2.1) (c t.2.2) ≤ 0 := not_le.2 h'
    unfold fixCW; rw [if_neg h'']; rfl

/-- Non-vacuity: the clockwise monotone pentagon `0:(0,0) 1:(1,2) 2:(2,-1) 3:(3,1) 4:(4,0)`
(sweep order 0,1,2,3,4; 1 and 3 on the upper chain, 2 on the lower chain): three triangles,
total `2·area = -13`, equal to the shoelace sum of the polygon `0 1 3 4 2`. -/
example :
    let c : Nat → P2 Rat := fun i => ([⟨0, 0⟩, ⟨1, 2⟩, ⟨2, -1⟩, ⟨3, 1⟩, ⟨4, 0⟩] : List (P2 Rat)).getD i ⟨0, 0⟩
    let ty : Nat → VType := fun i => if i = 0 then .start else if i = 4 then .end else if i = 2 then .lower else .upper
    let s := monoLoopG rawFan c ty 5 ⟨[0], .start, [], true⟩ 0 [1, 2, 3, 4]
    s.tris.length = 3 ∧ sumF (triOrient c) s.tris = -13 ∧ monoPolygon ty 0 [1, 2, 3] 4 = [0, 1, 3, 4, 2] ∧
      (monoLoop c ty 5 ⟨[0], .start, [], true⟩ 0 [1, 2, 3, 4]).tris = s.tris := by
  decide +kernel

/-! ## The sweep's vertex classification (`triangulateSweepState.VertexType`) -/

/-- **`sweep_types_exhaustive`.**  With pairwise distinct abscissae of a vertex and its two
neighbours and a proper turn (`orient ≠ 0`) the classification is defined (no panic) … -/
theorem sweep_types_exhaustive (p v n : P2 K) (h1 : p.x ≠ n.x) (h2 : p.x ≠ v.x) (h3 : n.x ≠ v.x)
    (h0 : orient p v n ≠ 0) : ∃ t, vertexType p v n = some t := by
  by_cases hl : v.x < p.x ∧ v.x < n.x
  · rw [vertexType_left hl.1 hl.2 h1, if_neg h0]; split <;> exact ⟨_, rfl⟩
  · by_cases hr : p.x < v.x ∧ n.x < v.x
    · rw [vertexType_right hr.1 hr.2 h1, if_neg h0]; split <;> exact ⟨_, rfl⟩
    · rw [vertexType_chain h1 h2 h3 hl hr]; split <;> exact ⟨_, rfl⟩

/-- … and it is the textbook one: a vertex with both neighbours to its right is a *start* vertex
iff the boundary turns clockwise there (convex for a clockwise loop) and a *split* vertex iff it
turns counter-clockwise (reflex); with both neighbours to its left, *end* iff clockwise, *merge*
iff counter-clockwise; otherwise it is a chain vertex, *lower* iff the boundary runs right to left.
The slope comparisons of `sortedEdge.Compare` are exactly these orientation signs. -/
theorem sweep_types_turn (p v n : P2 K) (h1 : p.x ≠ n.x) :
    (v.x < p.x → v.x < n.x →
      (vertexType p v n = some .start ↔ orient p v n < 0) ∧
      (vertexType p v n = some .split ↔ 0 < orient p v n)) ∧
    (p.x < v.x → n.x < v.x →
      (vertexType p v n = some .end ↔ orient p v n < 0) ∧
      (vertexType p v n = some .merge ↔ 0 < orient p v n)) := by
  constructor
  · intro hp hn
    rw [vertexType_left hp hn h1]
    rcases lt_trichotomy (orient p v n) 0 with h | h | h
    · simp [h, h.ne, not_lt.2 h.le]
    · simp [h]
    · simp [h, h.ne', not_lt.2 h.le]
  · intro hp hn
    rw [vertexType_right hp hn h1]
    rcases lt_trichotomy (orient p v n) 0 with h | h | h
    · simp [h, h.ne, not_lt.2 h.le]
    · simp [h]
    · simp [h, h.ne', not_lt.2 h.le]

/-! ## Planar 3-D faces -/

/-- **Chart independence.**  Under an affine map of the plane every orientation determinant is
multiplied by the determinant of the linear part.  `TriangulateFace` triangulates the face in the
chart `(basis1·(p−p0), basis2·(p−p0))`, the driver evaluates the certificate in the exact chart
obtained by dropping a coordinate; both are affine charts of the same plane, related by an
invertible affine map, so non-degeneracy, consistent orientation of all triangles with the polygon
and the area equation (all statements about signs and ratios of `orient`) transfer. -/
theorem orient_affine (a b cc d e f : K) (p q r : P2 K) :
    orient (affine a b cc d e f p) (affine a b cc d e f q) (affine a b cc d e f r)
      = (a * d - b * cc) * orient p q r :=
  orient_affine' a b cc d e f p q r

/-! ### the chart of `TriangulateFace`: which vertex supplies `basis2`

A planar face is written in plane coordinates: `polygon = cs.map (planePt p0 u w)`, `cs` starting with
`(0,0), (1,0)` (so `u = polygon[1] − polygon[0]`), `w` any in-plane vector not parallel to `u`
(`0 < lagr u w`, Lagrange's `|u|²|w|² − (u·w)² = |u×w|²`).  Every planar face with `polygon[0] ≠ polygon[1]`
that spans its plane has this form. -/

/-- **`face_chart_orient`.**  For ANY two vectors `b1`, `b2` — normalised or not, exact, rounded, or the
normalised rounding noise left by `ProjectOut` of a colinear vertex — the chart
`p ↦ (b1·(p−p0), b2·(p−p0))` that `TriangulateFace` builds multiplies the orientation determinant of every
three points of the face's plane by ONE number, `D = (b1·u)(b2·w) − (b1·w)(b2·u)`.  So the 2-D polygon
handed to `Triangulate` is an orientation-faithful image of the face (same colinearities, same convex /
reflex vertices up to a global flip, same point-in-triangle relations, hence the same valid triangulations)
exactly when `D ≠ 0`; when `D = 0` — e.g. `b2` parallel to `b1`, second part — it is a subset of a line. -/
theorem face_chart_orient (b1 b2 p0 u w : P3 K) (a b c : P2 K) :
    orient
      (⟨dot3 b1 (sub3 (planePt p0 u w a) p0), dot3 b2 (sub3 (planePt p0 u w a) p0)⟩ : P2 K)
      ⟨dot3 b1 (sub3 (planePt p0 u w b) p0), dot3 b2 (sub3 (planePt p0 u w b) p0)⟩
      ⟨dot3 b1 (sub3 (planePt p0 u w c) p0), dot3 b2 (sub3 (planePt p0 u w c) p0)⟩
      = (dot3 b1 u * dot3 b2 w - dot3 b1 w * dot3 b2 u) * orient a b c ∧
    ∀ k : K, dot3 b1 u * dot3 (scale3 k b1) w - dot3 b1 w * dot3 (scale3 k b1) u = 0 := by
  refine ⟨chart_orient b1 b2 p0 u w a b c, fun k => ?_⟩
  simp only [dot3, scale3]; ring

/-- **`face_chart_faithful`** — the chart the CURRENT `TriangulateFace` computes (exact side; model
`faceBasisIdx` / `faceChart`: `basis2` = residual of the first vertex of `polygon[2:]` with a non-zero
residual, what the `dot < minDot` selection picks) is orientation-faithful on EVERY planar face that spans
its plane, **however many colinear vertices the face starts with**: the selected vertex `j ≥ 2` is the first
one off the line `polygon[0] polygon[1]` (all vertices `2 … j−1` are ON that line and are skipped), the
chart is the linear image `chartMap u w mu` of the plane coordinates (`mu ≠ 0` the height of vertex `j`), and
every orientation determinant is multiplied by the non-zero constant `|u|²·mu·|u×w|²`.  This is what makes
`ok` the required answer of the `face` / `off` kinds for faces whose first three vertices are colinear. -/
theorem face_chart_faithful (p0 u w : P3 K) (huw : 0 < lagr u w) (cs : List (P2 K))
    (hspan : ∃ q ∈ cs, q.y ≠ 0) :
    ∃ j mu, faceBasisIdx ((⟨0, 0⟩ :: ⟨1, 0⟩ :: cs).map (planePt p0 u w)) = some j ∧
      2 ≤ j ∧ j < cs.length + 2 ∧
      mu = ((⟨0, 0⟩ :: ⟨1, 0⟩ :: cs).getD j ⟨0, 0⟩).y ∧ mu ≠ 0 ∧
      (∀ k, 2 ≤ k → k < j → ((⟨0, 0⟩ :: ⟨1, 0⟩ :: cs).getD k ⟨0, 0⟩).y = 0) ∧
      faceChart ((⟨0, 0⟩ :: ⟨1, 0⟩ :: cs).map (planePt p0 u w))
        = some ((⟨0, 0⟩ :: ⟨1, 0⟩ :: cs).map (chartMap u w mu)) ∧
      dot3 u u * (mu * lagr u w) ≠ 0 ∧
      ∀ a b c : P2 K, orient (chartMap u w mu a) (chartMap u w mu b) (chartMap u w mu c)
        = (dot3 u u * (mu * lagr u w)) * orient a b c := by
  have hlt : cs.findIdx (fun q => decide (q.y ≠ 0)) < cs.length := by
    apply List.findIdx_lt_length_of_exists
    obtain ⟨q, hq, hy⟩ := hspan
    exact ⟨q, hq, by simpa using hy⟩
  have hj : faceBasisIdx ((⟨0, 0⟩ :: ⟨1, 0⟩ :: cs).map (planePt p0 u w))
      = some (cs.findIdx (fun q => decide (q.y ≠ 0)) + 2) := by
    rw [faceBasisIdx_plane huw, if_pos hlt]
  have hget : ∀ k, ((⟨0, 0⟩ :: ⟨1, 0⟩ :: cs : List (P2 K)).getD (k + 2) ⟨0, 0⟩) = cs.getD k ⟨0, 0⟩ := by
    intro k; simp [List.getD_eq_getElem?_getD]
  have hmu : ((⟨0, 0⟩ :: ⟨1, 0⟩ :: cs : List (P2 K)).getD
      (cs.findIdx (fun q => decide (q.y ≠ 0)) + 2) ⟨0, 0⟩).y ≠ 0 := by
    rw [hget, List.getD_eq_getElem?_getD, List.getElem?_eq_getElem hlt]
    have := List.findIdx_getElem (w := hlt)
    simpa using this
  refine ⟨_, _, hj, by omega, by omega, rfl, hmu, ?_, ?_, ?_, ?_⟩
  · intro k h2 hk
    obtain ⟨k', rfl⟩ : ∃ k', k = k' + 2 := ⟨k - 2, by omega⟩
    have hk' : k' < cs.findIdx (fun q => decide (q.y ≠ 0)) := by omega
    have := List.not_of_lt_findIdx hk'
    rw [hget, List.getD_eq_getElem?_getD, List.getElem?_eq_getElem (by omega)]
    simpa using this
  · unfold faceChart
    rw [hj, Option.map_some, faceChartAt_plane]
  · exact mul_ne_zero (dot3_pos_of_lagr_pos huw).ne' (mul_ne_zero hmu huw.ne')
  · intro a b c
    exact orient_chartMap u w _ a b c

/-- **`face_chart_colinear_vertex_panics`** — why the selection must skip colinear vertices.  If `basis2`
is taken from a vertex `j` ON the line `polygon[0] polygon[1]` (in particular `j = 2` when the face starts with
three colinear vertices: what "take the first candidate" does as soon as the residual of that vertex is not
recognised as zero), the chart maps the whole face into the line `Y = 0`, and the model of `Triangulate`
panics ("polygon does not span a 2-D space") — on every face, for every fuel. -/
theorem face_chart_colinear_vertex_panics (sd : Bool) (fuel : Nat) (p0 u w : P3 K) (cs : List (P2 K)) (j : Nat)
    (hj : ((⟨0, 0⟩ :: ⟨1, 0⟩ :: cs).getD j ⟨0, 0⟩).y = 0) :
    triangulate sd (fuel + 1) (faceChartAt ((⟨0, 0⟩ :: ⟨1, 0⟩ :: cs).map (planePt p0 u w)) j) = none := by
  rw [faceChartAt_plane, hj]
  apply triangulate_none_of_flat
  intro a ha
  obtain ⟨q, _, rfl⟩ := List.mem_map.1 ha
  simp [chartMap]

/-- Non-vacuity / regression (the face of the seeded change, exact coordinates): the pentagon
`(0,0) (1,0) (2,0) (2,2) (0,2)` in the plane through `(1,2,3)` spanned by `(1,2,2)`, `(2,−1,1)` starts
with three colinear vertices; the model selection takes vertex 3, its chart is triangulated; the chart
from vertex 2 makes `Triangulate` panic. -/
example :
    let poly : List (P3 Rat) := [⟨1, 2, 3⟩, ⟨2, 4, 5⟩, ⟨3, 6, 7⟩, ⟨7, 4, 9⟩, ⟨5, 0, 5⟩]
    faceBasisIdx poly = some 3 ∧
    (faceChart poly).map (fun ch => (triangulate false 10 ch).map List.length) = some (some 2) ∧
    triangulate false 10 (faceChartAt poly 2) = none := by
  decide +kernel

/-! ## `ReadOFF`: every face of the file -/

/-- **`readOFF_every_face`.**  The face loop of `model3d.ReadOFF` (`readOffFaces`: read a face,
triangulate it with `triangulateFileFace`, append; an error aborts) returns, for a file with ANY number
of faces — there is no bound in the statement, in particular none related to the bounded pre-allocation
of the result slice — the triangulations of ALL its faces in file order: the result is the concatenation
of one list per face, the `i`-th of which is what the per-face routine returns for face `i`; its length
is the sum of the per-face counts; and the loop fails exactly when some face fails.  With the per-face
certificate (`triangulation_certificate_sound` in the face's chart) this is what the `offmesh` kind
demands of the real output: every face of the file is covered. -/
theorem readOFF_every_face {F T : Type} (tri : F → Option (List T)) (faces : List F) :
    (∀ out, readOffFaces tri faces = some out ↔
      ∃ tss : List (List T), List.Forall₂ (fun f ts => tri f = some ts) faces tss ∧ out = tss.flatten) ∧
    (∀ out tss, readOffFaces tri faces = some out →
      List.Forall₂ (fun f ts => tri f = some ts) faces tss →
        tss.length = faces.length ∧ out.length = (tss.map List.length).sum) ∧
    (readOffFaces tri faces = none ↔ ∃ f ∈ faces, tri f = none) := by
  refine ⟨readOffFaces_eq_some tri faces, fun out tss h h2 => ⟨h2.length_eq.symm, ?_⟩,
    readOffFaces_eq_none tri faces⟩
  obtain ⟨tss', h3, rfl⟩ := (readOffFaces_eq_some tri faces out).1 h
  have : tss' = tss := by
    clear h
    induction h3 generalizing tss with
    | nil => cases h2; rfl
    | cons ha _ ih =>
      cases h2 with
      | cons hb h2' =>
        rw [ha] at hb
        rw [Option.some.inj hb, ih _ h2']
  rw [this, List.length_flatten]

/-- Non-vacuity beyond every pre-allocation bound: a file of `65537 = 2^16 + 1` quadrilateral faces,
each triangulated into two triangles, yields `131074` triangles (and `n` faces yield `2n` for every `n`). -/
example (tri : Nat → Option (List Nat)) (h : tri 4 = some [0, 1]) :
    (readOffFaces tri (List.replicate 65537 4)).map List.length = some 131074 ∧
    ∀ n, (readOffFaces tri (List.replicate n 4)).map List.length = some (2 * n) := by
  have key : ∀ n, (readOffFaces tri (List.replicate n 4)).map List.length = some (2 * n) := by
    intro n
    rw [readOffFaces_replicate tri 4 [0, 1] h n]
    simp [List.length_flatten, Nat.mul_comm]
  exact ⟨key 65537, key⟩

/-- **`off_copy_cert_transfer`.**  A translation of space acts as a translation in each of the three
drop-a-coordinate charts in which the driver evaluates the certificate of a planar face, and the
certificate checker is translation invariant: for the corners `c3` of a face, the triangles `tris`
are a valid certificate for the face translated by ANY vector `t` (in particular `r·T`, copy number `r`
of a tile: `copyPt`) iff they are one for the face itself.  This is why the `offmesh` driver evaluates a
block of identical copies once. -/
theorem off_copy_cert_transfer (t : P3 K) (c3 : Nat → P3 K) (nv : Nat) (cw : Bool) (bnd : List Edge)
    (tris : List Tri) :
    certOk (fun i => chartXY (translate3 t (c3 i))) nv cw bnd tris = certOk (fun i => chartXY (c3 i)) nv cw bnd tris ∧
    certOk (fun i => chartYZ (translate3 t (c3 i))) nv cw bnd tris = certOk (fun i => chartYZ (c3 i)) nv cw bnd tris ∧
    certOk (fun i => chartZX (translate3 t (c3 i))) nv cw bnd tris = certOk (fun i => chartZX (c3 i)) nv cw bnd tris ∧
    ∀ (r : K) (T p : P3 K), copyPt r T p = translate3 ⟨r * T.x, r * T.y, r * T.z⟩ p := by
  refine ⟨?_, ?_, ?_, fun r T p => rfl⟩
  · simp only [chartXY_translate3]; exact certOk_translate _ _ _ nv cw bnd tris
  · simp only [chartYZ_translate3]; exact certOk_translate _ _ _ nv cw bnd tris
  · simp only [chartZX_translate3]; exact certOk_translate _ _ _ nv cw bnd tris

/-- Non-vacuity: the unit square in the plane `z = 5`, and translated by `(10⁶, −3, 7)·1000`. -/
example :
    let c3 : Nat → P3 Rat := fun i => ([⟨0, 0, 5⟩, ⟨0, 1, 5⟩, ⟨1, 1, 5⟩, ⟨1, 0, 5⟩] : List (P3 Rat)).getD i ⟨0, 0, 0⟩
    certOk (fun i => chartXY (c3 i)) 4 true (loopEdges [4]) [(0, 1, 2), (0, 2, 3)] = true ∧
    certOk (fun i => chartXY (copyPt 1000 ⟨1000000, -3, 7⟩ (c3 i))) 4 true (loopEdges [4]) [(0, 1, 2), (0, 2, 3)] = true ∧
    certOk (fun i => chartXY (copyPt 1000 ⟨1000000, -3, 7⟩ (c3 i))) 4 true (loopEdges [4]) [(0, 1, 2)] = false := by
  decide +kernel

/-! ## `ProfileMesh` -/

/-- **`profile_volume_eq_area_times_height`.**  If the cap triangles `tris` glue to a region with
boundary `bnd` (the unrefined edge conditions of the certificate: what `edgesOkG false` checks),
then `ProfileMesh`'s soup — bottom caps, top caps with two corners swapped, and one quad on every
cap edge that no second cap triangle shares — encloses the signed volume (divergence theorem,
`vol6 = 6·volume`) `(maxZ − minZ) · area`, where `area = −½ Σ orient` is the (clockwise-positive)
area of the caps, which by `triangulation_certificate_sound` is the region's shoelace area. -/
theorem profile_volume_eq_area_times_height (c : Nat → P2 K) (z0 z1 : K) (bnd : List Edge) (tris : List Tri)
    (h : Glued bnd (dirEdges tris)) :
    vol6 (lift c z0 z1) (profileSoup tris) = 6 * ((z1 - z0) * (-(sumF (crossE c) bnd) / 2)) := by
  have hp := unshared_perm_boundary h
  have hs : sumF (crossE c) (unsharedEdges tris) = sumF (triOrient c) tris := by
    rw [sumF_perm _ hp, ← glued_sum h (crossE c) (crossE_antisymm c), sumF_dirEdges_cross]
  rw [profileSoup_eq_on, vol6_profileSoupOn c z0 z1 tris _ hs,
    ← sumF_dirEdges_cross, glued_sum h (crossE c) (crossE_antisymm c)]
  ring

/-- Non-vacuity: the unit square extruded from z=0 to z=3 has `6·volume = 18`. -/
example :
    let c : Nat → P2 Rat := fun i => ([⟨0, 0⟩, ⟨0, 1⟩, ⟨1, 1⟩, ⟨1, 0⟩] : List (P2 Rat)).getD i ⟨0, 0⟩
    gluedOk (loopEdges [4]) (dirEdges [(0, 1, 2), (0, 2, 3)]) = true ∧
    vol6 (lift c 0 3) (profileSoup [(0, 1, 2), (0, 2, 3)]) = 18 ∧
    closedManifold (profileSoup [(0, 1, 2), (0, 2, 3)]) = true := by
  decide +kernel

/-- **`profile_vertices_on_caps`.**  In the model of `ProfileMesh` every vertex of the soup is a
copy of an input vertex of the outline at height exactly `minZ` (even ids) or exactly `maxZ` (odd
ids), and the top cap and the upper rim of the side walls use the SAME vertex ids — so the same
`Coord3D` values; over a field "the bottom vertex moved up by `maxZ − minZ`" is that very point
(`z0 + (z1 − z0) = z1`, which is NOT an identity of float64: an implementation that builds the top
cap as `bottom + (maxZ − minZ)` while the walls end at `maxZ` leaves the rim open).  This is what
the `profile` kind compares: a vertex of the real mesh that is neither at `minZ` nor at `maxZ`
has no id and is reported. -/
theorem profile_vertices_on_caps (c : Nat → P2 K) (z0 z1 : K) (i : Nat) :
    ((lift c z0 z1 i).z = z0 ∨ (lift c z0 z1 i).z = z1) ∧
    (lift c z0 z1 i).x = (c (i / 2)).x ∧ (lift c z0 z1 i).y = (c (i / 2)).y ∧
    (lift c z0 z1 (bot i)).z = z0 ∧ (lift c z0 z1 (top i)).z = z1 ∧
    (lift c z0 z1 (top i)).z = (lift c z0 z1 (bot i)).z + (z1 - z0) := by
  have hb : (bot i) % 2 = 0 := by unfold bot; omega
  have ht : ¬ (top i) % 2 = 0 := by unfold top; omega
  refine ⟨?_, rfl, rfl, ?_, ?_, ?_⟩
  · unfold lift; dsimp only; split
    · exact Or.inl rfl
    · exact Or.inr rfl
  · unfold lift; dsimp only; rw [if_pos hb]
  · unfold lift; dsimp only; rw [if_neg ht]
  · unfold lift; dsimp only; rw [if_pos hb, if_neg ht]; ring

/-- **`profile_mesh_edge_manifold`** (universal, from the cap certificate).  If the cap triangles
`tris` glue to a region with boundary `bnd` (`Glued`: what the certificate checker establishes for
the caps), the boundary consists of closed oriented curves (`ClosedCurves`: every boundary vertex
has exactly one outgoing and one incoming boundary edge, no loop edge — true of every list of closed
polygons), and no cap triangle repeats a vertex, then `ProfileMesh`'s soup is **closed, consistently
oriented and edge-manifold** (`EdgeBalanced`: every directed edge occurs exactly once and its reverse
exactly once, i.e. every undirected edge is shared by exactly two triangles traversing it in opposite
directions) and has no degenerate face.  Proof: the directed edges of the soup are a rearrangement of
six families (bottom, top, two quad diagonals, two verticals) over the swap-closed, duplicate-free
edge set "caps + reversed boundary". -/
theorem profile_mesh_edge_manifold (bnd : List Edge) (tris : List Tri) (h : Glued bnd (dirEdges tris))
    (hc : ClosedCurves bnd) (hd : NoDegenerate tris) :
    EdgeBalanced (profileSoup tris) ∧ NoDegenerate (profileSoup tris) :=
  ⟨profileSoup_edgeBalanced h hc, profileSoup_noDegenerate h hc hd⟩

/-- Non-vacuity: the square split by a diagonal satisfies the hypotheses. -/
example :
    gluedOk (loopEdges [4]) (dirEdges [(0, 1, 2), (0, 2, 3)]) = true ∧
    closedCurves (loopEdges [4]) = true ∧ noDegenerate [(0, 1, 2), (0, 2, 3)] = true ∧
    edgeBalanced (profileSoup [(0, 1, 2), (0, 2, 3)]) = true := by
  decide +kernel

/-- **`profile_mesh_manifold_partial`.**  Full manifoldness of the extruded soup (in addition to
`profile_mesh_edge_manifold`: every vertex fan is a single cycle, no pinched vertex) is *decided per
instance* by the proved decider of the shared surface library: whenever the driver's
`closedManifold (…)` evaluates to `true` on a real `ProfileMesh` output, that output is a
closed, consistently oriented manifold (`ClosedManifold`: every directed edge matched by its
reverse exactly once, every vertex fan a single cycle, no degenerate face).
What is missing for the universal statement "certified caps ⇒ `ClosedManifold (profileSoup tris)`":
`FanConnected`.  It does NOT follow from the combinatorial gluing conditions alone (a closed fan of
triangles around a boundary vertex next to its boundary fan satisfies `Glued`); excluding it needs
the geometric part of the certificate (orientation of all triangles + angle sum at the vertex), which
is not mechanised. -/
theorem profile_mesh_manifold_partial (soup : List Tri) (h : closedManifold soup = true) :
    ClosedManifold soup :=
  (closedManifold_iff soup).1 h

end M3d.C14
