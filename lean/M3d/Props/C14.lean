import M3d.Lemmas.Triangulate
import M3d.Lemmas.TriCert
/-!
# C14 — triangulation covers the polygon exactly

Property theorems only.  Models: `M3d/Model/Triangulate.lean` (transcribes `model2d/triangulate.go`,
`model3d/triangulate.go`, `model3d/mesh.go: ProfileMesh`); helper lemmas in
`M3d/Lemmas/Triangulate.lean`, `M3d/Lemmas/TriCert.lean`.

All statements are over an arbitrary linear ordered field `K` (so in particular ℝ and ℚ — at ℚ the
functions are literally the ones the driver executes on the real outputs of the Go code).
`orient a b c` is twice the signed area of the triangle (positive = counter-clockwise, y up), so
"clockwise" is `orient < 0`.
-/
namespace M3d.C14
open M3d.Tri M3d.Surface

variable {K : Type} [Field K] [LinearOrder K] [IsStrictOrderedRing K]

/-! ## Ear clipping (`model2d.Triangulate`) -/

/-- **Removing any vertex `i` of a polygon removes exactly the triangle
`(polygon[(i+n-1)%n], polygon[i], polygon[(i+1)%n])` from its shoelace area** — the identity
`area(P) = area(P minus vertex i) + area(triangle(i−1,i,i+1))` that one step of `Triangulate`
(`OrderedDelete(&newPoly, i)` + the emitted triangle) relies on, for every `i`, ear or not. -/
theorem shoelace_fan (l : List (P2 K)) (i : Nat) (hi : i < l.length) (h2 : 2 ≤ l.length) :
    shoelace2 l = shoelace2 (l.eraseIdx i) + triArea2 (earTri l i) :=
  shoelace2_eraseIdx l i hi h2

/-- **Whatever ears are chosen**: for ANY sequence of `n−2` in-range indices removed one after the
other from an `n`-gon (`n ≥ 2`), the signed areas of the emitted triangles sum to the polygon's
shoelace area, exactly `n−2` triangles are emitted, and every triangle vertex is an input vertex.
(`Triangulate`'s base case `len == 3` is the removal of index 1 from the triangle.) -/
theorem ear_clip_area (l : List (P2 K)) (is : List Nat) (hv : ValidSeq l is)
    (hn : is.length + 2 = l.length) :
    sumArea2 (clipSeq l is) = shoelace2 l ∧
    (clipSeq l is).length = l.length - 2 ∧
    ∀ t ∈ clipSeq l is, t.1 ∈ l ∧ t.2.1 ∈ l ∧ t.2.2 ∈ l := by
  refine ⟨?_, ?_, clipSeq_mem l is hv⟩
  · have h := clipSeq_area l is hv
    have hr : shoelace2 (clipRest l is) = 0 :=
      shoelace2_length_le_two _ (by rw [clipRest_length l is hv]; omega)
    rw [hr, add_zero] at h
    exact h
  · rw [clipSeq_length]; omega

/-- Non-vacuity: the unit square, ears at 0 then at 1 (of the remaining triangle). -/
example :
    let sq : List (P2 Rat) := [⟨0, 0⟩, ⟨0, 1⟩, ⟨1, 1⟩, ⟨1, 0⟩]
    ValidSeq sq [0, 1] ∧ sumArea2 (clipSeq sq [0, 1]) = -2 ∧ shoelace2 sq = -2 := by
  refine ⟨by simp [ValidSeq], by decide +kernel, by decide +kernel⟩

/-! ## The certificate checker -/

/-- The area equation of the checker is redundant: it follows from the edge conditions. -/
theorem cert_area_redundant (c : Nat → P2 K) (nv : Nat) (cw : Bool) (bnd : List Edge) (tris : List Tri) :
    certOk c nv cw bnd tris = true ↔ edgesOk c nv cw bnd tris = true :=
  certOk_iff_edgesOk c nv cw bnd tris

/-- **Soundness of the certificate checker that the driver runs on every real output.**
If `certOk c nv cw bnd tris` holds for coordinates `c` of the `nv` input vertices, boundary edges
`bnd` (every loop in its documented direction) and returned triangles `tris` (as vertex ids), then

1. every triangle corner is an input vertex;
2. every triangle is non-degenerate with the required orientation (clockwise iff `cw`);
3. after splitting edges at input vertices that lie on them (T-junctions), the triangles are
   **glued along interior edges into a region whose boundary is exactly the input boundary**
   (`Glued`): no directed edge is used twice, every boundary edge is used once in boundary direction
   and never backwards, every other edge is matched by its reverse exactly once;
4. **chain level: the boundary of the sum of the oriented triangles is the oriented input
   boundary** — every antisymmetric, subdivision-additive functional on directed edges (shoelace
   terms, signed ray crossings of a winding number, …) has the same total over the triangles'
   edges as over the input boundary;
5. the signed triangle areas sum to the region's shoelace area (outer loops minus holes). -/
theorem triangulation_certificate_sound (c : Nat → P2 K) (nv : Nat) (cw : Bool) (bnd : List Edge)
    (tris : List Tri) (h : certOk c nv cw bnd tris = true) :
    (∀ t ∈ tris, t.1 < nv ∧ t.2.1 < nv ∧ t.2.2 < nv) ∧
    (∀ t ∈ tris, if cw = true then triOrient c t < 0 else 0 < triOrient c t) ∧
    (∃ B E, refineAll c nv bnd = some B ∧ refineAll c nv (dirEdges tris) = some E ∧ Glued B E) ∧
    (∀ f : Edge → K, (∀ e, f (swap e) = -f e) → SegAdditive c f →
        sumF f (dirEdges tris) = sumF f bnd) ∧
    sumF (triOrient c) tris = sumF (crossE c) bnd := by
  have he := (certOk_iff_edgesOk c nv cw bnd tris).1 h
  obtain ⟨h1, h2, h3⟩ := edgesOk_spec he
  exact ⟨h1, h2, h3, fun f ha hs => edgesOk_chain he f ha hs, edgesOk_area he⟩

/-- Non-vacuity: the unit square (clockwise) split by a diagonal passes; the same two triangles
with one of them reversed do not. -/
example :
    let c : Nat → P2 Rat := fun i => ([⟨0, 0⟩, ⟨0, 1⟩, ⟨1, 1⟩, ⟨1, 0⟩] : List (P2 Rat)).getD i ⟨0, 0⟩
    certOk c 4 true (loopEdges [4]) [(0, 1, 2), (0, 2, 3)] = true ∧
    certOk c 4 true (loopEdges [4]) [(0, 1, 2), (0, 3, 2)] = false := by
  decide +kernel

/-- **Discrete Stokes** in the form used for `diagonals_cancel` and the certificate: interior edges
cancel in pairs. -/
theorem glued_boundary_sum {B E : List Edge} (h : Glued B E) (f : Edge → K)
    (hf : ∀ e, f (swap e) = -f e) : sumF f E = sumF f B :=
  glued_sum h f hf

end M3d.C14
