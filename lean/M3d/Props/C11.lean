import M3d.Lemmas.MeshDiag
import M3d.Lemmas.MeshDiagHier
/-!
# C11 — mesh diagnostics, repair and nesting agree with their definitions

Property theorems only.  Models: `M3d/Model/MeshDiag.lean` (on the id soups of
`M3d/Model/Surface.lean`); lemmas: `M3d/Lemmas/MeshDiag*.lean`.
-/
namespace M3d.C11
open M3d.Surface M3d.MeshDiag

/-- **`Mesh.NeedsRepair` is exact**: the scan (with its early exit on a third use of an edge, for
every iteration order of the faces) returns true iff some undirected edge of the mesh is not used
by exactly two (face, side) incidences. -/
theorem needs_repair_iff (ts : List Tri) :
    needsRepair ts = true ↔ ∃ e ∈ dirEdges ts, edgeMult ts e ≠ 2 := by
  rw [needsRepair_iff_segs]
  simp only [edgeMult, segsOf, List.mem_map]
  constructor
  · rintro ⟨u, ⟨e, he, rfl⟩, hu⟩; exact ⟨e, he, hu⟩
  · rintro ⟨e, he, hu⟩; exact ⟨_, ⟨e, he, rfl⟩, hu⟩

/-- On meshes without degenerate faces the multiplicity of an edge is the number of faces that
traverse it in one direction plus the number that traverse it in the other: `NeedsRepair` is
false iff every edge is shared by exactly two triangles. -/
theorem needs_repair_iff_two_faces (ts : List Tri) (hd : NoDegenerate ts) :
    needsRepair ts = false ↔
      ∀ e ∈ dirEdges ts, (dirEdges ts).count e + (dirEdges ts).count (swap e) = 2 := by
  rw [← Bool.not_eq_true, needs_repair_iff]
  simp only [not_exists, not_and, Decidable.not_not, edgeMult, segsOf]
  constructor
  · intro h e he; rw [← count_undirected _ e (dirEdges_nondeg hd he)]; exact h e he
  · intro h e he; rw [count_undirected _ e (dirEdges_nondeg hd he)]; exact h e he

/-- **`Mesh.InconsistentEdges` is exact**: it lists, each once, exactly the directed edges that
are traversed (at least) twice in the same direction. -/
theorem inconsistent_edges_eq (ts : List Tri) :
    (inconsistentEdges ts).Nodup ∧
      ∀ e, e ∈ inconsistentEdges ts ↔ 2 ≤ (dirEdges ts).count e := by
  refine ⟨(nodup_eraseDups _).filter _, fun e => ?_⟩
  simp only [inconsistentEdges, List.mem_filter, List.mem_eraseDups, decide_eq_true_eq]
  constructor
  · rintro ⟨_, h⟩; omega
  · intro h; exact ⟨List.count_pos_iff.mp (by omega), by omega⟩

/-- The two edge diagnostics together are the *edge-balanced* predicate of the shared surface
library (`M3d.Surface.EdgeBalanced`: closed, edge-manifold, consistently oriented): a mesh without
degenerate faces is edge-balanced iff `NeedsRepair` is false and `InconsistentEdges` is empty. -/
theorem edge_balanced_iff_clean (ts : List Tri) (hd : NoDegenerate ts) :
    EdgeBalanced ts ↔ needsRepair ts = false ∧ inconsistentEdges ts = [] := by
  rw [needs_repair_iff_two_faces ts hd, inconsistentEdges_eq_nil_iff]
  constructor
  · intro h
    exact ⟨fun e he => by have := h e he; omega, fun e he => by have := h e he; omega⟩
  · rintro ⟨h1, h2⟩ e he
    have a := h1 e he
    have b := h2 e he
    have c : 0 < (dirEdges ts).count e := List.count_pos_iff.mpr he
    omega

/-- Non-vacuity: a tetrahedron is clean, an opened one needs repair, a re-oriented face shows up
as inconsistent edges. -/
example : needsRepair [(0,1,2),(0,2,3),(0,3,1),(1,3,2)] = false ∧
    needsRepair [(0,1,2),(0,2,3),(0,3,1)] = true ∧
    inconsistentEdges [(0,2,1),(0,2,3),(0,3,1),(1,3,2)] = [(0,2),(2,1),(1,0)] := by decide

/-! ## fan connectivity -/

/-- **`Mesh.SingularVertices` is exact** (meshes without degenerate faces, every iteration order):
the stack search with its swap-remove bookkeeping reports exactly the vertices whose fan graph —
the faces at the vertex, two of them adjacent when `SharesEdge` — is disconnected. -/
theorem singular_vertices_eq (ts : List Tri) (hd : NoDegenerate ts) (v : Nat) :
    v ∈ singularVertices ts ↔ v ∈ verts ts ∧ ¬ FanGraphConnected ts v :=
  singular_iff ts hd v

/-- Without any hypothesis on the faces: what the search leaves unvisited at `v` is exactly the
set of faces at `v` that cannot be reached from the first one (`tris[0]`) through shared edges. -/
theorem singular_search_exact (ts : List Tri) (v : Nat) (t : Face) (rest : List Face)
    (hF : facesAt v (enum ts) = t :: rest) (y : Face) :
    y ∈ fanUnvisited ts v ↔ y ∈ rest ∧ ¬ Reach fanAdj rest t y :=
  mem_fanUnvisited ts v t rest hF y

/-- Non-vacuity: two tetrahedra touching in vertex 0 — vertex 0 is singular, nothing else is. -/
example : singularVertices [(0,1,2),(0,2,3),(0,3,1),(1,3,2),(0,5,4),(0,6,5),(0,4,6),(4,5,6)] = [0] := by
  decide

/-- **`ptrCoord.Clusters` partitions the faces at a vertex into its fan components**: the families
are a rearrangement of the faces at `p` (nothing lost, nothing twice), every family is connected
(all its members are reachable from one of them through faces sharing an edge at `p`), and no face
of one family is adjacent to a face of another. -/
theorem clusters_partition (ts : List Tri) (p : Nat) :
    (clusters ts p).flatten.Perm (facesAt p (enum ts)) ∧
    (∀ F ∈ clusters ts p, ∃ x ∈ F, ∀ y ∈ F, Reach (adjAt p) (facesAt p (enum ts)) x y) ∧
    (clusters ts p).Pairwise (fun F G => ∀ a ∈ F, ∀ b ∈ G, adjAt p a b = false) :=
  families_spec (adjAt p) _ _ (Nat.le_refl _) ((enum_nodup ts).filter _)

/-! ## hierarchy -/

/-- **`removeAllConnected` extracts a connected component**: the stripped faces and the remaining
ones are a rearrangement of what was in the mesh, every stripped face is connected (through faces
sharing a vertex) to a face at the start vertex, and no remaining face shares a vertex with a
stripped one. -/
theorem components_partition (rem : List Face) (c : Nat) :
    ((removeAllConnected rem c).1 ++ (removeAllConnected rem c).2).Perm rem ∧
    (∀ y ∈ (removeAllConnected rem c).1, ∃ a ∈ facesAt c rem, Reach sharesVert rem a y) ∧
    (∀ a ∈ (removeAllConnected rem c).1, ∀ b ∈ (removeAllConnected rem c).2, sharesVert a b = false) :=
  ⟨(removeAllConnected_spec rem c).1, (removeAllConnected_spec rem c).2.1, (removeAllConnected_spec rem c).2.2.1⟩

theorem hierInv_init (ts : List Tri) (sorted : List Nat) (hs : ∀ v ∈ verts ts, v ∈ sorted) :
    HierInv (enum ts) sorted (enum ts) := by
  refine ⟨fun _ h => h, fun g hg => ?_, fun _ _ h hh _ => hh⟩
  refine ⟨g.2.1, hs _ ?_, by simp [hasVert, triVerts]⟩
  simp only [verts, List.mem_eraseDups, vertsAll, List.mem_flatMap]
  exact ⟨g.2, mem_enum_snd hg, by simp [triVerts]⟩

/-- **The hierarchy loses and duplicates no face** — for *every* containment oracle (even a wrong
one), every face order and every sweep order that lists all vertices: the `FullMesh` of the forest
built by `uncheckedMeshToHierarchy` is a rearrangement of the input faces. -/
theorem hierarchy_partition (encTop encIn : Comp → Comp → Bool) (sorted : List Nat) (ts : List Tri)
    (hs : ∀ v ∈ verts ts, v ∈ sorted) :
    ((Forest.fullMesh (·.2) (meshToHierarchy encTop encIn sorted ts)).map (·.2)).Perm ts := by
  have h := (hierLoop_spec (enum ts) encTop encIn sorted (enum ts) .nil (hierInv_init ts sorted hs)).1
  simp only [Forest.fullMesh, List.nil_append] at h
  have := h.map (·.2)
  rw [enum_map_snd] at this
  exact this

/-- … and **every node of the hierarchy is a connected component of the mesh**: non-empty,
connected (through faces sharing a vertex) to the faces at its sweep vertex, and closed (a face
sharing a vertex with a face of the node belongs to the node). -/
theorem hierarchy_nodes_are_components (encTop encIn : Comp → Comp → Bool) (sorted : List Nat)
    (ts : List Tri) (hs : ∀ v ∈ verts ts, v ∈ sorted) :
    ∀ x ∈ Forest.nodes (meshToHierarchy encTop encIn sorted ts),
      (∀ y ∈ x.2, ∃ a ∈ facesAt x.1 (enum ts), Reach sharesVert (enum ts) a y) ∧
      (∀ a ∈ x.2, ∀ h ∈ enum ts, sharesVert a h = true → h ∈ x.2) ∧ x.2 ≠ [] := by
  intro x hx
  have h := (hierLoop_spec (enum ts) encTop encIn sorted (enum ts) .nil (hierInv_init ts sorted hs)).2 x hx
  rcases h with h | h
  · simp [Forest.nodes] at h
  · exact h

/-- The components in sweep order (`strippedComps`) are what the loop inserts, one leaf at a time. -/
theorem hierarchy_is_insertion_sequence (enc : Comp → Comp → Bool) (sorted : List Nat) (ts : List Tri) :
    meshToHierarchy enc enc sorted ts =
      (strippedComps (enum ts) sorted (enum ts)).foldl (fun f x => Forest.insertLeaf enc x f) .nil := by
  unfold meshToHierarchy
  rw [hierLoop_eq_foldl]
  congr 1
  funext f x
  exact Forest.insertTop_eq_insertLeaf enc x f

/-- **Nesting** — assume the containment oracle `enc` (the same answer for the sweep vertex and
for `VertexSlice()[0]`, as for a correct point-in-component test on non-intersecting components)
is, on the components `cs` of the mesh: irreflexive, transitive, laminar (two components
enclosing a third are nested), and compatible with the sweep (a component is swept after every
component that encloses it).  Then in the forest built by `uncheckedMeshToHierarchy` every
component is nested under exactly the components that enclose it:
`a` is an ancestor of `b` iff `enc a b`. -/
theorem hierarchy_nesting (enc : Comp → Comp → Bool) (sorted : List Nat) (ts : List Tri)
    (hsn : sorted.Nodup)
    (hirr : ∀ a ∈ strippedComps (enum ts) sorted (enum ts), enc a a = false)
    (hord : (strippedComps (enum ts) sorted (enum ts)).Pairwise (fun a b => enc b a = false))
    (htrans : ∀ a ∈ strippedComps (enum ts) sorted (enum ts), ∀ b ∈ strippedComps (enum ts) sorted (enum ts),
      ∀ c ∈ strippedComps (enum ts) sorted (enum ts), enc a b = true → enc b c = true → enc a c = true)
    (hlam : ∀ a ∈ strippedComps (enum ts) sorted (enum ts), ∀ b ∈ strippedComps (enum ts) sorted (enum ts),
      ∀ c ∈ strippedComps (enum ts) sorted (enum ts), enc a c = true → enc b c = true →
        a = b ∨ enc a b = true ∨ enc b a = true) :
    (Forest.nodes (meshToHierarchy enc enc sorted ts)).Perm (strippedComps (enum ts) sorted (enum ts)) ∧
    ∀ a ∈ Forest.nodes (meshToHierarchy enc enc sorted ts),
      ∀ b ∈ Forest.nodes (meshToHierarchy enc enc sorted ts),
        Forest.IsAnc a b (meshToHierarchy enc enc sorted ts) ↔ enc a b = true := by
  rw [hierarchy_is_insertion_sequence]
  have hnd := strippedComps_nodup (enum ts) sorted (enum ts) hsn
  have := Forest.build_wellNested enc (strippedComps (enum ts) sorted (enum ts)) .nil
    (by simpa [Forest.nodes] using hnd) (by intro a ha; simp [Forest.nodes] at ha)
    (by simpa [Forest.nodes] using hirr) (by intro x _ b hb; simp [Forest.nodes] at hb) hord
    (by simpa [Forest.nodes] using htrans) (by simpa [Forest.nodes] using hlam)
  exact ⟨by simpa [Forest.nodes] using this.2, this.1⟩

/-- **Even–odd** — under the hypotheses of `hierarchy_nesting`, and for a point whose containment
in the components (`inside`) is consistent with the nesting (a point inside a component is inside
every component enclosing that one; two components containing the point are nested — true for
non-intersecting closed components and a correct oracle), `MeshHierarchy.Contains` (OR-ed over the
roots) is the parity of the number of components containing the point, i.e. the even–odd rule on
the whole mesh. -/
theorem hierarchy_contains_eq_evenodd (enc : Comp → Comp → Bool) (inside : Comp → Bool)
    (sorted : List Nat) (ts : List Tri) (hsn : sorted.Nodup)
    (hirr : ∀ a ∈ strippedComps (enum ts) sorted (enum ts), enc a a = false)
    (hord : (strippedComps (enum ts) sorted (enum ts)).Pairwise (fun a b => enc b a = false))
    (htrans : ∀ a ∈ strippedComps (enum ts) sorted (enum ts), ∀ b ∈ strippedComps (enum ts) sorted (enum ts),
      ∀ c ∈ strippedComps (enum ts) sorted (enum ts), enc a b = true → enc b c = true → enc a c = true)
    (hlam : ∀ a ∈ strippedComps (enum ts) sorted (enum ts), ∀ b ∈ strippedComps (enum ts) sorted (enum ts),
      ∀ c ∈ strippedComps (enum ts) sorted (enum ts), enc a c = true → enc b c = true →
        a = b ∨ enc a b = true ∨ enc b a = true)
    (hup : ∀ a ∈ strippedComps (enum ts) sorted (enum ts), ∀ b ∈ strippedComps (enum ts) sorted (enum ts),
      enc a b = true → inside b = true → inside a = true)
    (hnest : ∀ a ∈ strippedComps (enum ts) sorted (enum ts), ∀ b ∈ strippedComps (enum ts) sorted (enum ts),
      inside a = true → inside b = true → a = b ∨ enc a b = true ∨ enc b a = true) :
    Forest.contains inside (meshToHierarchy enc enc sorted ts) =
      decide ((strippedComps (enum ts) sorted (enum ts)).countP inside % 2 = 1) := by
  obtain ⟨hperm, hanc⟩ := hierarchy_nesting enc sorted ts hsn hirr hord htrans hlam
  have hnd : (Forest.nodes (meshToHierarchy enc enc sorted ts)).Nodup :=
    hperm.nodup_iff.mpr (strippedComps_nodup (enum ts) sorted (enum ts) hsn)
  have hm : ∀ a, a ∈ Forest.nodes (meshToHierarchy enc enc sorted ts) ↔
      a ∈ strippedComps (enum ts) sorted (enum ts) := fun a => hperm.mem_iff
  rw [Forest.contains_eq_parity inside _ hnd]
  · simp only [Forest.cnt, hperm.countP_eq]
  · intro a b h hb
    exact hup a ((hm a).mp h.mem.1) b ((hm b).mp h.mem.2) ((hanc a h.mem.1 b h.mem.2).mp h) hb
  · intro a ha b hb hia hib
    rcases hnest a ((hm a).mp ha) b ((hm b).mp hb) hia hib with h | h | h
    · exact Or.inl h
    · exact Or.inr (Or.inl ((hanc a ha b hb).mpr h))
    · exact Or.inr (Or.inr ((hanc b hb a ha).mpr h))

/-- Non-vacuity of the nesting hypotheses: two tetrahedra, the first (swept from vertex 0)
enclosing the second (swept from vertex 4) — the hypotheses hold, the second ends up as the child
of the first, and a point inside both is classified as outside. -/
example :
    let ts : List Tri := [(0,1,2),(0,2,3),(0,3,1),(1,3,2),(4,5,6),(4,6,7),(4,7,5),(5,7,6)]
    let enc : Comp → Comp → Bool := fun a b => a.1 == 0 && b.1 == 4
    let sorted := [0,4,1,2,3,5,6,7]
    let cs := strippedComps (enum ts) sorted (enum ts)
    cs.length = 2 ∧ sorted.Nodup ∧ (∀ a ∈ cs, enc a a = false) ∧
    cs.Pairwise (fun a b => enc b a = false) ∧
    (∀ a ∈ cs, ∀ b ∈ cs, ∀ c ∈ cs, enc a b = true → enc b c = true → enc a c = true) ∧
    (∀ a ∈ cs, ∀ b ∈ cs, ∀ c ∈ cs, enc a c = true → enc b c = true → a = b ∨ enc a b = true ∨ enc b a = true) ∧
    Forest.contains (fun c => c.1 == 0) (meshToHierarchy enc enc sorted ts) = true ∧
    Forest.contains (fun _ => true) (meshToHierarchy enc enc sorted ts) = false := by
  decide

end M3d.C11
