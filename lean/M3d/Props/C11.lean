import M3d.Lemmas.MeshDiag
/-!
# C11 — mesh diagnostics, repair and nesting agree with their definitions

Property theorems only.  Models: `M3d/Model/MeshDiag.lean` (on the id soups of
`M3d/Model/Surface.lean`); lemmas: `M3d/Lemmas/MeshDiag*.lean`.
-/
namespace M3d.C11
open M3d.Surface M3d.MeshDiag

/-- **`Mesh.NeedsRepair` is exact**: the scan (with its early exit on a third use of an edge, for
every iteration order of the faces) returns true iff some undirected edge of the mesh is not used
by exactly two (face, side) incidences. -/
theorem needs_repair_iff (ts : List Tri) :
    needsRepair ts = true ↔ ∃ e ∈ dirEdges ts, edgeMult ts e ≠ 2 := by
  rw [needsRepair_iff_segs]
  simp only [edgeMult, segsOf, List.mem_map]
  constructor
  · rintro ⟨u, ⟨e, he, rfl⟩, hu⟩; exact ⟨e, he, hu⟩
  · rintro ⟨e, he, hu⟩; exact ⟨_, ⟨e, he, rfl⟩, hu⟩

/-- On meshes without degenerate faces the multiplicity of an edge is the number of faces that
traverse it in one direction plus the number that traverse it in the other: `NeedsRepair` is
false iff every edge is shared by exactly two triangles. -/
theorem needs_repair_iff_two_faces (ts : List Tri) (hd : NoDegenerate ts) :
    needsRepair ts = false ↔
      ∀ e ∈ dirEdges ts, (dirEdges ts).count e + (dirEdges ts).count (swap e) = 2 := by
  rw [← Bool.not_eq_true, needs_repair_iff]
  simp only [not_exists, not_and, Decidable.not_not, edgeMult, segsOf]
  constructor
  · intro h e he; rw [← count_undirected _ e (dirEdges_nondeg hd he)]; exact h e he
  · intro h e he; rw [count_undirected _ e (dirEdges_nondeg hd he)]; exact h e he

/-- **`Mesh.InconsistentEdges` is exact**: it lists, each once, exactly the directed edges that
are traversed (at least) twice in the same direction. -/
theorem inconsistent_edges_eq (ts : List Tri) :
    (inconsistentEdges ts).Nodup ∧
      ∀ e, e ∈ inconsistentEdges ts ↔ 2 ≤ (dirEdges ts).count e := by
  refine ⟨(nodup_eraseDups _).filter _, fun e => ?_⟩
  simp only [inconsistentEdges, List.mem_filter, List.mem_eraseDups, decide_eq_true_eq]
  constructor
  · rintro ⟨_, h⟩; omega
  · intro h; exact ⟨List.count_pos_iff.mp (by omega), by omega⟩

/-- The two edge diagnostics together are the *edge-balanced* predicate of the shared surface
library (`M3d.Surface.EdgeBalanced`: closed, edge-manifold, consistently oriented): a mesh without
degenerate faces is edge-balanced iff `NeedsRepair` is false and `InconsistentEdges` is empty. -/
theorem edge_balanced_iff_clean (ts : List Tri) (hd : NoDegenerate ts) :
    EdgeBalanced ts ↔ needsRepair ts = false ∧ inconsistentEdges ts = [] := by
  rw [needs_repair_iff_two_faces ts hd, inconsistentEdges_eq_nil_iff]
  constructor
  · intro h
    exact ⟨fun e he => by have := h e he; omega, fun e he => by have := h e he; omega⟩
  · rintro ⟨h1, h2⟩ e he
    have a := h1 e he
    have b := h2 e he
    have c : 0 < (dirEdges ts).count e := List.count_pos_iff.mpr he
    omega

/-- Non-vacuity: a tetrahedron is clean, an opened one needs repair, a re-oriented face shows up
as inconsistent edges. -/
example : needsRepair [(0,1,2),(0,2,3),(0,3,1),(1,3,2)] = false ∧
    needsRepair [(0,1,2),(0,2,3),(0,3,1)] = true ∧
    inconsistentEdges [(0,2,1),(0,2,3),(0,3,1),(1,3,2)] = [(0,2),(2,1),(1,0)] := by decide

end M3d.C11
