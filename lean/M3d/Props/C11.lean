import M3d.Lemmas.MeshDiag
import M3d.Lemmas.MeshDiagHier
import M3d.Lemmas.MeshDiagOrient
import M3d.Lemmas.MeshDiagOrientComp
import M3d.Lemmas.MeshDiagRepair
import M3d.Lemmas.MeshDiagLink
import M3d.Lemmas.MeshDiagSweep
import M3d.Lemmas.MeshDiagHist
import M3d.Lemmas.MeshDiagCycle
import M3d.Lemmas.MeshDiagHier2
import M3d.Lemmas.MeshDiagProbe
import M3d.Lemmas.MeshDiagSelf
/-!
# C11 — mesh diagnostics, repair and nesting agree with their definitions

Property theorems only.  Models: `M3d/Model/MeshDiag.lean` (on the id soups of
`M3d/Model/Surface.lean`); lemmas: `M3d/Lemmas/MeshDiag*.lean`.
-/
namespace M3d.C11
open M3d.Surface M3d.MeshDiag

/-- **`Mesh.NeedsRepair` is exact**: the scan (with its early exit on a third use of an edge, for
every iteration order of the faces) returns true iff some undirected edge of the mesh is not used
by exactly two (face, side) incidences. -/
theorem needs_repair_iff (ts : List Tri) :
    needsRepair ts = true ↔ ∃ e ∈ dirEdges ts, edgeMult ts e ≠ 2 := by
  rw [needsRepair_iff_segs]
  simp only [edgeMult, segsOf, List.mem_map]
  constructor
  · rintro ⟨u, ⟨e, he, rfl⟩, hu⟩; exact ⟨e, he, hu⟩
  · rintro ⟨e, he, hu⟩; exact ⟨_, ⟨e, he, rfl⟩, hu⟩

/-- On meshes without degenerate faces the multiplicity of an edge is the number of faces that
traverse it in one direction plus the number that traverse it in the other: `NeedsRepair` is
false iff every edge is shared by exactly two triangles. -/
theorem needs_repair_iff_two_faces (ts : List Tri) (hd : NoDegenerate ts) :
    needsRepair ts = false ↔
      ∀ e ∈ dirEdges ts, (dirEdges ts).count e + (dirEdges ts).count (swap e) = 2 := by
  rw [← Bool.not_eq_true, needs_repair_iff]
  simp only [not_exists, not_and, Decidable.not_not, edgeMult, segsOf]
  constructor
  · intro h e he; rw [← count_undirected _ e (dirEdges_nondeg hd he)]; exact h e he
  · intro h e he; rw [count_undirected _ e (dirEdges_nondeg hd he)]; exact h e he

/-- **`Mesh.InconsistentEdges` is exact**: it lists, each once, exactly the directed edges that
are traversed (at least) twice in the same direction. -/
theorem inconsistent_edges_eq (ts : List Tri) :
    (inconsistentEdges ts).Nodup ∧
      ∀ e, e ∈ inconsistentEdges ts ↔ 2 ≤ (dirEdges ts).count e := by
  refine ⟨(nodup_eraseDups _).filter _, fun e => ?_⟩
  simp only [inconsistentEdges, List.mem_filter, List.mem_eraseDups, decide_eq_true_eq]
  constructor
  · rintro ⟨_, h⟩; omega
  · intro h; exact ⟨List.count_pos_iff.mp (by omega), by omega⟩

/-- The two edge diagnostics together are the *edge-balanced* predicate of the shared surface
library (`M3d.Surface.EdgeBalanced`: closed, edge-manifold, consistently oriented): a mesh without
degenerate faces is edge-balanced iff `NeedsRepair` is false and `InconsistentEdges` is empty. -/
theorem edge_balanced_iff_clean (ts : List Tri) (hd : NoDegenerate ts) :
    EdgeBalanced ts ↔ needsRepair ts = false ∧ inconsistentEdges ts = [] := by
  rw [needs_repair_iff_two_faces ts hd, inconsistentEdges_eq_nil_iff]
  constructor
  · intro h
    exact ⟨fun e he => by have := h e he; omega, fun e he => by have := h e he; omega⟩
  · rintro ⟨h1, h2⟩ e he
    have a := h1 e he
    have b := h2 e he
    have c : 0 < (dirEdges ts).count e := List.count_pos_iff.mpr he
    omega

/-- Non-vacuity: a tetrahedron is clean, an opened one needs repair, a re-oriented face shows up
as inconsistent edges. -/
example : needsRepair [(0,1,2),(0,2,3),(0,3,1),(1,3,2)] = false ∧
    needsRepair [(0,1,2),(0,2,3),(0,3,1)] = true ∧
    inconsistentEdges [(0,2,1),(0,2,3),(0,3,1),(1,3,2)] = [(0,2),(2,1),(1,0)] := by decide

/-! ## 2-D twins -/

/-- **`model2d.Mesh.Manifold` is exact**: true iff every vertex lies on exactly two segments. -/
theorem manifold2_iff (ss : List Seg) :
    manifold2 ss = true ↔ ∀ v ∈ segVertsAll ss, (segsAt v ss).length = 2 := by
  simp [manifold2, segVerts, List.mem_eraseDups]

/-- **`model2d.Mesh.InconsistentVertices` is exact** (no degenerate segment): it lists, each once,
exactly the vertices that start more than one segment or end more than one segment. -/
theorem inconsistent_vertices2_eq (ss : List Seg) (hl : NoLoopSeg ss) :
    (inconsistentVertices2 ss).Nodup ∧
    ∀ v, v ∈ inconsistentVertices2 ss ↔
      v ∈ segVertsAll ss ∧ ((starts ss).count v > 1 ∨ (ends ss).count v > 1) := by
  refine ⟨(nodup_eraseDups _).filter _, fun v => ?_⟩
  simp only [inconsistentVertices2, segVerts, List.mem_filter, List.mem_eraseDups, numFirst_eq,
    numSecond_eq v ss hl, Bool.or_eq_true, decide_eq_true_eq]

/-- The two 2-D diagnostics together are the closed-oriented-curves predicate of the shared
surface library (`M3d.Surface.InOutOne`): without degenerate segments, every vertex has exactly
one outgoing and one incoming segment iff `Manifold()` holds and `InconsistentVertices()` is empty. -/
theorem in_out_one_iff_clean2 (ss : List Seg) (hl : NoLoopSeg ss) :
    InOutOne ss ↔ manifold2 ss = true ∧ inconsistentVertices2 ss = [] := by
  rw [manifold2_iff]
  have hiv : inconsistentVertices2 ss = [] ↔
      ∀ v ∈ segVertsAll ss, (starts ss).count v ≤ 1 ∧ (ends ss).count v ≤ 1 := by
    rw [List.eq_nil_iff_forall_not_mem]
    constructor
    · intro h v hv
      have := h v
      rw [(inconsistent_vertices2_eq ss hl).2 v] at this
      constructor <;> (apply Nat.le_of_not_lt; intro hc; exact this ⟨hv, by omega⟩)
    · intro h v hv
      obtain ⟨hv', hc⟩ := ((inconsistent_vertices2_eq ss hl).2 v).mp hv
      have := h v hv'
      omega
  rw [hiv]
  have hlen : ∀ v, (segsAt v ss).length = (starts ss).count v + (ends ss).count v := by
    intro v; rw [segsAt_length, numFirst_eq, numSecond_eq v ss hl]
  constructor
  · intro h
    exact ⟨fun v hv => by rw [hlen]; have := h v hv; omega, fun v hv => by have := h v hv; omega⟩
  · rintro ⟨h1, h2⟩ v hv
    have a := h1 v hv
    rw [hlen] at a
    have b := h2 v hv
    omega

example : manifold2 [(0,1),(1,2),(2,0)] = true ∧ inconsistentVertices2 [(0,1),(2,1),(2,0)] = [1,2] ∧
    manifold2 [(0,1),(1,2)] = false := by decide

/-! ## fan connectivity -/

/-- **`Mesh.SingularVertices` is exact** (meshes without degenerate faces, every iteration order):
the stack search with its swap-remove bookkeeping reports exactly the vertices whose fan graph —
the faces at the vertex, two of them adjacent when `SharesEdge` — is disconnected. -/
theorem singular_vertices_eq (ts : List Tri) (hd : NoDegenerate ts) (v : Nat) :
    v ∈ singularVertices ts ↔ v ∈ verts ts ∧ ¬ FanGraphConnected ts v :=
  singular_iff ts hd v

/-- The adjacency of that fan graph is "share an edge at `v`" — a common vertex other than `v`,
the adjacency `ptrCoord.Clusters` uses (so `SingularVertices` and `Clusters` talk about the same
graph; before fix 5660fd7 they did not: coincident faces were adjacent for `Clusters` only). -/
theorem fan_adjacency_is_shared_edge_at_vertex {v : Nat} {s t : Face} (hs : TriNondeg s.2)
    (hvs : hasVert v s.2 = true) (hvt : hasVert v t.2 = true) : fanAdj s t = adjAt v s t :=
  fanAdj_eq_adjAt hs hvs hvt

/-- Without any hypothesis on the faces: what the search leaves unvisited at `v` is exactly the
set of faces at `v` that cannot be reached from the first one (`tris[0]`) through shared edges. -/
theorem singular_search_exact (ts : List Tri) (v : Nat) (t : Face) (rest : List Face)
    (hF : facesAt v (enum ts) = t :: rest) (y : Face) :
    y ∈ fanUnvisited ts v ↔ y ∈ rest ∧ ¬ Reach fanAdj rest t y :=
  mem_fanUnvisited ts v t rest hF y

/-- Non-vacuity: two tetrahedra touching in vertex 0 — vertex 0 is singular, nothing else is. -/
example : singularVertices [(0,1,2),(0,2,3),(0,3,1),(1,3,2),(0,5,4),(0,6,5),(0,4,6),(4,5,6)] = [0] := by
  decide

/-- **`ptrCoord.Clusters` partitions the faces at a vertex into its fan components**: the families
are a rearrangement of the faces at `p` (nothing lost, nothing twice), every family is connected
(all its members are reachable from one of them through faces sharing an edge at `p`), and no face
of one family is adjacent to a face of another. -/
theorem clusters_partition (ts : List Tri) (p : Nat) :
    (clusters ts p).flatten.Perm (facesAt p (enum ts)) ∧
    (∀ F ∈ clusters ts p, ∃ x ∈ F, ∀ y ∈ F, Reach (adjAt p) (facesAt p (enum ts)) x y) ∧
    (clusters ts p).Pairwise (fun F G => ∀ a ∈ F, ∀ b ∈ G, adjAt p a b = false) :=
  families_spec (adjAt p) _ _ (Nat.le_refl _) ((enum_nodup ts).filter _)

/-- **`SingularVertices` and `ptrCoord.Clusters` agree** (no degenerate faces): a vertex is reported
singular iff `Clusters` finds at least two families of faces at it ("a non-singular vertex has
exactly one cluster", as `Clusters`' documentation promises). -/
theorem singular_iff_clusters (ts : List Tri) (hd : NoDegenerate ts) (v : Nat) :
    v ∈ singularVertices ts ↔ v ∈ verts ts ∧ 2 ≤ (clusters ts v).length := by
  rw [singular_vertices_eq ts hd v, fanGraphConnected_iff_clusters ts hd v]
  constructor
  · rintro ⟨h1, h2⟩; exact ⟨h1, by omega⟩
  · rintro ⟨h1, h2⟩; exact ⟨h1, by omega⟩

/-- **Link to the shared surface library**: on a mesh without degenerate faces whose vertex links
are single cycles (`Surface.FanConnected`, the vertex condition of `ClosedManifold` that the
C01/C10 theorems establish for meshing and mesh-processing outputs) `SingularVertices` reports
nothing.  (The converse — no singular vertex and edge-balanced ⇒ every link is one cycle — is
`no_singular_vertices_fan_connected` below; the driver also checks `fanConnected ts =
(SingularVertices = ∅)` on every edge-balanced correspondence case.) -/
theorem fan_connected_no_singular_vertices (ts : List Tri) (hd : NoDegenerate ts)
    (hf : FanConnected ts) : singularVertices ts = [] := by
  rw [List.eq_nil_iff_forall_not_mem]
  intro v hv
  obtain ⟨hvm, hnot⟩ := (singular_vertices_eq ts hd v).mp hv
  exact hnot (fanGraphConnected_of_fanCycle ts hd v (hf v hvm))

/-- A closed oriented manifold (`Surface.ClosedManifold`) passes all three 3-D diagnostics. -/
theorem closed_manifold_diagnostics_clean (ts : List Tri) (h : ClosedManifold ts) :
    needsRepair ts = false ∧ inconsistentEdges ts = [] ∧ singularVertices ts = [] :=
  ⟨((edge_balanced_iff_clean ts h.2.2).mp h.1).1, ((edge_balanced_iff_clean ts h.2.2).mp h.1).2,
    fan_connected_no_singular_vertices ts h.2.2 h.2.1⟩

/-- **The converse** (closes the former "Partial"): on an edge-balanced mesh without degenerate
faces, a vertex that `SingularVertices` does not report has a link that is ONE simple cycle
(`Surface.FanCycle`): edge balance makes "next link vertex" a bijection, the connected fan graph
makes that bijection a single cycle. -/
theorem no_singular_vertices_fan_connected (ts : List Tri) (hd : NoDegenerate ts)
    (hb : EdgeBalanced ts) (hs : singularVertices ts = []) : FanConnected ts := by
  intro v hv
  apply fanCycle_of_fanGraphConnected ts hd hb v hv
  cases Classical.em (FanGraphConnected ts v) with
  | inl h => exact h
  | inr h =>
    have : v ∈ singularVertices ts := (singular_vertices_eq ts hd v).mpr ⟨hv, h⟩
    rw [hs] at this; cases this

/-- **The three 3-D diagnostics together characterise closed oriented manifolds** (no degenerate
face): `NeedsRepair` false, `InconsistentEdges` empty and `SingularVertices` empty iff the mesh is a
`Surface.ClosedManifold` (every edge shared by exactly two triangles that traverse it in opposite
directions, the triangles around every vertex form one cycle). -/
theorem closed_manifold_iff_diagnostics_clean (ts : List Tri) (hd : NoDegenerate ts) :
    ClosedManifold ts ↔
      needsRepair ts = false ∧ inconsistentEdges ts = [] ∧ singularVertices ts = [] := by
  constructor
  · exact closed_manifold_diagnostics_clean ts
  · rintro ⟨h1, h2, h3⟩
    have hb : EdgeBalanced ts := (edge_balanced_iff_clean ts hd).mpr ⟨h1, h2⟩
    exact ⟨hb, no_singular_vertices_fan_connected ts hd hb h3, hd⟩

/-- Non-vacuity: a tetrahedron is clean and a closed manifold; two tetrahedra glued at vertex 0 are
edge-balanced but vertex 0 is singular and its link is two cycles. -/
example : closedManifold [(0,1,2),(0,2,3),(0,3,1),(1,3,2)] = true ∧
    edgeBalanced [(0,1,2),(0,2,3),(0,3,1),(1,3,2),(0,5,4),(0,6,5),(0,4,6),(4,5,6)] = true ∧
    fanConnected [(0,1,2),(0,2,3),(0,3,1),(1,3,2),(0,5,4),(0,6,5),(0,4,6),(4,5,6)] = false := by
  decide


/-! ## orientation -/

/-- **`maybeFaceOrientations` returns consistent flips** (meshes without degenerate faces, every
iteration order of the faces and of `Neighbors`): whenever the search succeeds, flipping the
flagged faces of a group makes no directed edge of the group occur twice — every edge shared by
two faces of the group is traversed in opposite directions.  (The statement for the whole mesh,
the partition into components and the converse are the next three theorems.) -/
theorem orientations_consistent (ts : List Tri) (hd : NoDegenerate ts)
    (gs : List (List (Face × Bool))) (h : faceOrientations ts = .groups gs) :
    ∀ g ∈ gs, (dirEdges (applyFlags g)).Nodup := by
  unfold faceOrientations at h
  exact orientAll_spec (enum ts) (fun f hf => hd _ (mem_enum_snd hf)) _ _ _ _ (fun _ h => h) h
    (by intro g hg; cases hg)

/-- **The groups are exactly the `Neighbors`-components** (meshes without degenerate faces, every
iteration order): when the search succeeds, (1) the groups partition the faces — every face is in
exactly one group; (2) every group is connected: each of its faces is reached from the group's
start face (flag `false`) through a chain of `Mesh.Neighbors` steps (two or more common corners);
(3) every group is closed: a `Neighbors`-neighbour of a face of the group is in the group.  The
`seenEdges` bookkeeping therefore never mixes two components, and the majority vote of
`RepairNormalsMajority` is taken per component. -/
theorem orientation_groups_are_components (ts : List Tri) (hd : NoDegenerate ts)
    (gs : List (List (Face × Bool))) (h : faceOrientations ts = .groups gs) :
    (gs.flatMap fun g => g.map (·.1)).Perm (enum ts) ∧
    (∀ g ∈ gs, ∃ s, g.head? = some (s, false) ∧ ∀ f ∈ g, Reach isNeighbor (enum ts) s f.1) ∧
    (∀ g ∈ gs, ∀ f ∈ g, ∀ h ∈ enum ts, isNeighbor f.1 h = true → h ∈ g.map (·.1)) := by
  have hinv := orientInv_of_groups ts hd gs h
  exact ⟨by simpa [groupFaces] using hinv.perm, hinv.conn, hinv.gclosed⟩

/-- **A successful search orients the whole mesh**: there is a flip assignment `φ` on the face
indices that agrees with every flag returned (`φ i = flag of face i`) and after which NO directed
edge of the mesh is used twice (`Orientable`); the re-oriented mesh is the groups with their flags
applied.  Faces of different groups never share an edge (they would be `Neighbors`), which is why
the per-group bookkeeping suffices. -/
theorem orientations_consistent_whole_mesh (ts : List Tri) (hd : NoDegenerate ts)
    (gs : List (List (Face × Bool))) (h : faceOrientations ts = .groups gs) :
    ∃ φ : Nat → Bool, (dirEdges (orientedBy φ (enum ts))).Nodup ∧
      (orientedBy φ (enum ts)).Perm (applyFlags gs.flatten) ∧
      ∀ g ∈ gs, ∀ p ∈ g, φ p.1.1 = p.2 := by
  have hinv := orientInv_of_groups ts hd gs h
  exact groups_orient_all (enum_nodup ts) (fun f hf => hd _ (mem_enum_snd hf))
    (fun f hf g hg => enum_idx_inj hf hg) (by simpa using hinv.perm) hinv.gclosed
    (orientations_consistent ts hd gs h)

/-- **`nil` exactly for non-orientable input** (meshes without degenerate faces, every iteration
order of the faces, of `remaining` and of `Neighbors`): `maybeFaceOrientations` returns groups iff
the mesh has a consistent orientation (`Orientable`: some set of faces can be flipped so that no
directed edge is used twice); it returns `nil` (`FaceOrientations`/`RepairNormalsMajority` panic
"mesh is not orientable", `Orientable()` false) iff it does not; and the "impossible case
detected" panic is unreachable. -/
theorem orientation_search_exact (ts : List Tri) (hd : NoDegenerate ts) :
    ((∃ gs, faceOrientations ts = .groups gs) ↔ Orientable ts) ∧
    (faceOrientations ts = .notOrientable ↔ ¬ Orientable ts) ∧
    faceOrientations ts ≠ .impossible := by
  have hdall : ∀ f ∈ enum ts, TriNondeg f.2 := fun f hf => hd _ (mem_enum_snd hf)
  have himp : faceOrientations ts ≠ .impossible :=
    orientAll_not_impossible (enum ts) hdall _ _ _ (fun _ h => h)
  have hiff : (∃ gs, faceOrientations ts = .groups gs) ↔ Orientable ts := by
    constructor
    · rintro ⟨gs, h⟩
      obtain ⟨φ, hφ, _⟩ := orientations_consistent_whole_mesh ts hd gs h
      exact ⟨φ, hφ⟩
    · rintro ⟨φ, hφ⟩
      rw [dirEdges_orientedBy] at hφ
      exact orientAll_complete (enum ts) φ hφ hdall (enum_nodup ts) _ _ _ (fun _ h => h) (enum_nodup ts)
  refine ⟨hiff, ?_, himp⟩
  rw [← hiff]
  cases hres : faceOrientations ts with
  | groups gs => simp
  | notOrientable => simp
  | impossible => exact absurd hres himp

/-- Non-vacuity: a re-oriented tetrahedron is orientable and accepted (one group, the odd face
flagged); a Möbius band and a fin on a closed surface (an edge with three faces) are rejected. -/
example :
    (match faceOrientations [(0,2,1),(0,2,3),(0,3,1),(1,3,2)] with
      | .groups gs => gs.map fun g => g.map fun p => (p.1.1, p.2)
      | _ => []) = [[(0,false),(1,true),(2,true),(3,true)]] ∧
    (match faceOrientations [(0,1,3),(1,4,3),(1,2,4),(2,5,4),(2,3,5),(3,0,5)] with
      | .notOrientable => true | _ => false) = true ∧
    (match faceOrientations [(0,1,2),(0,2,3),(0,3,1),(1,3,2),(0,1,4)] with
      | .notOrientable => true | _ => false) = true := by
  decide

/-- **`RepairNormalsMajority` flips the minority side of every group**: the number of faces it
flips in a group is `min(k, n − k)` where `k` of the group's `n` faces carry the flag, it uses
either the flags found by the search or their complement, and complementing all flags of a group
reverses every edge (so the group stays consistently oriented whichever side is flipped). -/
theorem majority_minimal_flips (g : List (Face × Bool)) :
    (majorityFlags g).countP (·.2) = min (g.countP (·.2)) (g.length - g.countP (·.2)) ∧
    (majorityFlags g = g ∨ majorityFlags g = g.map fun p => (p.1, !p.2)) ∧
    (dirEdges (applyFlags (g.map fun p => (p.1, !p.2)))).Perm ((dirEdges (applyFlags g)).map swap) :=
  ⟨majorityFlags_count g, majorityFlags_cases g, dirEdges_applyFlags_compl g⟩

/-- Hence the output of `RepairNormalsMajority` is consistently oriented group by group. -/
theorem repair_normals_majority_consistent (ts : List Tri) (hd : NoDegenerate ts)
    (fl : List (List (Face × Bool))) (h : repairNormalsMajority ts = some fl) :
    ∀ g ∈ fl, (dirEdges (applyFlags g)).Nodup := by
  unfold repairNormalsMajority at h
  cases hf : faceOrientations ts with
  | groups gs =>
    rw [hf] at h
    simp only [Option.some.injEq] at h
    subst h
    intro g hg
    obtain ⟨g0, hg0, rfl⟩ := List.mem_map.mp hg
    have h0 := orientations_consistent ts hd gs hf g0 hg0
    rcases majorityFlags_cases g0 with h1 | h1
    · rw [h1]; exact h0
    · rw [h1]
      refine (dirEdges_applyFlags_compl g0).nodup_iff.mpr ?_
      exact List.Pairwise.map swap (fun a b hne hab => hne (by
        have := congrArg swap hab; simp only [swap, Prod.mk.injEq] at this; exact Prod.ext this.1 this.2)) h0
  | notOrientable => rw [hf] at h; cases h
  | impossible => rw [hf] at h; cases h

/-- **`RepairNormalsMajority` yields a clean mesh whenever that is achievable** (meshes without
degenerate faces, every iteration order).  (1) It succeeds iff the mesh is `Orientable` (otherwise
it panics "mesh is not orientable").  When it succeeds: (2) the output is the input with some
faces flipped — every face exactly once; (3) on the WHOLE output no directed edge is used twice,
i.e. `InconsistentEdges` is empty; (4) if moreover `NeedsRepair` is false (every edge shared by
exactly two triangles — flipping faces cannot change that), the output is `Surface.EdgeBalanced`:
all edge diagnostics are clean. -/
theorem repair_normals_majority_clean (ts : List Tri) (hd : NoDegenerate ts) :
    ((∃ fl, repairNormalsMajority ts = some fl) ↔ Orientable ts) ∧
    ∀ fl, repairNormalsMajority ts = some fl →
      (fl.flatten.map (·.1)).Perm (enum ts) ∧
      (dirEdges (applyFlags fl.flatten)).Nodup ∧
      (needsRepair ts = false → EdgeBalanced (applyFlags fl.flatten)) := by
  constructor
  · rw [← (orientation_search_exact ts hd).1]
    unfold repairNormalsMajority
    cases faceOrientations ts <;> simp
  intro fl h
  have hsound := repair_normals_majority_consistent ts hd fl h
  unfold repairNormalsMajority at h
  cases hf : faceOrientations ts with
  | notOrientable => rw [hf] at h; cases h
  | impossible => rw [hf] at h; cases h
  | groups gs =>
    rw [hf] at h
    simp only [Option.some.injEq] at h
    subst h
    have hinv := orientInv_of_groups ts hd gs hf
    have hperm : (groupFaces (gs.map majorityFlags)).Perm (enum ts) := by
      rw [groupFaces_majority]; simpa using hinv.perm
    have hgc : ∀ g ∈ gs.map majorityFlags, ∀ f ∈ g, ∀ h ∈ enum ts, isNeighbor f.1 h = true →
        h ∈ g.map (·.1) := by
      intro g hg f hf' h hh hn
      obtain ⟨g0, hg0, rfl⟩ := List.mem_map.mp hg
      rw [majorityFlags_map_fst]
      have hf1 : f.1 ∈ g0.map (·.1) := by
        rw [← majorityFlags_map_fst]; exact List.mem_map_of_mem hf'
      obtain ⟨f0, hf0, hf0e⟩ := List.mem_map.mp hf1
      exact hinv.gclosed g0 hg0 f0 hf0 h hh (by rw [hf0e]; exact hn)
    obtain ⟨φ, hφ, hφperm, _⟩ := groups_orient_all (enum_nodup ts)
      (fun f hf => hd _ (mem_enum_snd hf)) (fun f hf g hg => enum_idx_inj hf hg) hperm hgc hsound
    have hfaces : ((gs.map majorityFlags).flatten.map (·.1)).Perm (enum ts) := by
      have : groupFaces (gs.map majorityFlags) = (gs.map majorityFlags).flatten.map (·.1) := by
        simp [groupFaces, List.flatMap_def, List.map_flatten]
      rw [← this]; exact hperm
    have hnodup : (dirEdges (applyFlags (gs.map majorityFlags).flatten)).Nodup :=
      (hφperm.flatMap_right triEdges).nodup_iff.mp hφ
    refine ⟨hfaces, hnodup, fun hnr e he => ?_⟩
    -- undirected multiplicities are those of the input
    have hts : (dirEdges ((gs.map majorityFlags).flatten.map (·.1.2))).Perm (dirEdges ts) := by
      have := (hfaces.map (·.2)).flatMap_right triEdges
      rw [enum_map_snd, List.map_map] at this
      exact this
    have hU : ∀ e', (dirEdges (applyFlags (gs.map majorityFlags).flatten)).count e' +
        (dirEdges (applyFlags (gs.map majorityFlags).flatten)).count (swap e') =
        (dirEdges ts).count e' + (dirEdges ts).count (swap e') := by
      intro e'
      rw [undirected_count_applyFlags, hts.count_eq, hts.count_eq]
    have h2 := (needs_repair_iff_two_faces ts hd).mp hnr
    have hc1 := List.nodup_iff_count_le_one.mp hnodup e
    have hc2 := List.nodup_iff_count_le_one.mp hnodup (swap e)
    have hpos : 0 < (dirEdges (applyFlags (gs.map majorityFlags).flatten)).count e :=
      List.count_pos_iff.mpr he
    have hUe := hU e
    have hsum : (dirEdges ts).count e + (dirEdges ts).count (swap e) = 2 := by
      by_cases hin : e ∈ dirEdges ts
      · exact h2 e hin
      · have h0 : (dirEdges ts).count e = 0 := List.count_eq_zero.mpr hin
        have hin' : swap e ∈ dirEdges ts := by
          apply List.count_pos_iff.mp
          omega
        have := h2 (swap e) hin'
        rw [swap_swap] at this
        omega
    omega

/-- Non-vacuity: a tetrahedron with one face re-oriented is accepted, that face is the minority
and is the one flipped; a Möbius band is rejected. -/
example :
    (repairNormalsMajority [(0,2,1),(0,2,3),(0,3,1),(1,3,2)]).map (fun fl => fl.map fun g => g.map fun p => (p.1.1, p.2))
      = some [[(0,true),(1,false),(2,false),(3,false)]] ∧
    repairNormalsMajority [(0,1,3),(1,4,3),(1,2,4),(2,5,4),(2,3,5),(3,0,5)] = none := by
  decide

/-- **`RepairNormals` undoes exactly the flips the oracle sees** — with the even–odd containment
test as the oracle `inside`: the output flips the faces with `inside f` and no other, and counts
them; in particular if the mesh is some mesh `orig` with the faces flagged by `bad` flipped, and
the oracle reports exactly those faces (`inside f = bad f.1`, a correct even–odd test on a closed
non-intersecting surface), the output is `orig` again — clean whenever `orig` was. -/
theorem repair_normals_restores (orig : List Tri) (bad : Nat → Bool) :
    (repairNormals (fun f => bad f.1)
        ((enum orig).map fun f => if bad f.1 then flipTri f.2 else f.2)).1 = orig ∧
    (repairNormals (fun f => bad f.1)
        ((enum orig).map fun f => if bad f.1 then flipTri f.2 else f.2)).2 = (enum orig).countP (fun f => bad f.1) := by
  have key : ∀ (ts : List Tri) (n : Nat),
      (enumFrom n ((enumFrom n ts).map fun f => if bad f.1 then flipTri f.2 else f.2)).map
          (fun f => if bad f.1 then flipTri f.2 else f.2) = ts ∧
      (enumFrom n ((enumFrom n ts).map fun f => if bad f.1 then flipTri f.2 else f.2)).countP (fun f => bad f.1)
        = (enumFrom n ts).countP (fun f => bad f.1) := by
    intro ts
    induction ts with
    | nil => intro n; simp [enumFrom]
    | cons t ts ih =>
      intro n
      have ff : flipTri (flipTri t) = t := by obtain ⟨a, b, c⟩ := t; rfl
      simp only [enumFrom, List.map_cons, List.countP_cons]
      refine ⟨?_, ?_⟩
      · rw [(ih (n + 1)).1]
        cases hb : bad n <;> simp [ff]
      · rw [(ih (n + 1)).2]
  exact ⟨(key orig 0).1, (key orig 0).2⟩

/-- 2-D twin (`model2d.Mesh.RepairNormals`): with an oracle that reports exactly the reversed
segments, the output is the original segment list and the count is the number of reversed ones. -/
theorem repair_normals2_restores (orig : List Seg) (bad : Nat → Bool) :
    (repairNormals2 (fun f => bad f.1)
        (((List.range orig.length).zip orig).map fun f => if bad f.1 then swap f.2 else f.2)).1 = orig ∧
    (repairNormals2 (fun f => bad f.1)
        (((List.range orig.length).zip orig).map fun f => if bad f.1 then swap f.2 else f.2)).2
      = ((List.range orig.length).zip orig).countP (fun f => bad f.1) := by
  have key : ∀ (l : List Nat) (o : List Seg) (g : Nat × Seg → Seg),
      l.zip ((l.zip o).map g) = (l.zip o).map fun p => (p.1, g p) := by
    intro l
    induction l with
    | nil => intro o g; rfl
    | cons x xs ih =>
      intro o g
      cases o with
      | nil => rfl
      | cons y ys => simp only [List.zip_cons_cons, List.map_cons, ih]
  have hlen : (((List.range orig.length).zip orig).map fun f => if bad f.1 then swap f.2 else f.2).length
      = orig.length := by simp
  simp only [repairNormals2, hlen, key, List.map_map, List.countP_map]
  constructor
  · have : ((fun (f : Nat × Seg) => if bad f.1 = true then swap f.2 else f.2) ∘
        fun (p : Nat × Seg) => (p.1, if bad p.1 = true then swap p.2 else p.2)) = Prod.snd := by
      funext p
      simp only [Function.comp]
      cases bad p.1 <;> simp [swap_swap]
    rw [this]
    exact List.map_snd_zip (by simp)
  · rfl

/-- Non-vacuity: a square with two sides reversed is restored. -/
example : (repairNormals2 (fun f => f.1 == 1 || f.1 == 3) [(0,1),(2,1),(2,3),(0,3)]).1
    = [(0,1),(1,2),(2,3),(3,0)] := by decide

/-! ## vertex merging -/

/-- **`Repair` identifies exactly the equivalence classes of "share a grid hash"** — for every
hash assignment `hashOf` (the 2×2×2 block of rounded cells of a vertex; 2×2 in 2-D) and every
`KeyRange` order `vs` of the vertices: two vertices are mapped to the same canonical vertex iff
they are related by the equivalence closure of `linked` (a chain of vertices, consecutive ones
sharing a hash); the canonical vertex of `a` is a vertex of the mesh in `a`'s own class. -/
theorem repair_merges_classes {H : Type} [BEq H] [LawfulBEq H] (hashOf : Nat → List H)
    (vs : List Nat) (hnd : vs.Nodup) (a b : Nat) (ha : a ∈ vs) (hb : b ∈ vs) :
    (canonOf (repairClasses hashOf vs) a = canonOf (repairClasses hashOf vs) b ↔
      Reach (linked hashOf) vs a b) ∧
    canonOf (repairClasses hashOf vs) a ∈ vs ∧
    Reach (linked hashOf) vs a (canonOf (repairClasses hashOf vs) a) :=
  ⟨canonOf_eq_iff hashOf vs hnd a b ha hb, canonOf_mem hashOf vs hnd a ha⟩

/-- Non-vacuity: cells 0,1 | 1,2 | 5 — the first two vertices chain together, the third stays. -/
example :
    let hashOf : Nat → List Nat := fun v => if v = 0 then [0, 1] else if v = 1 then [1, 2] else [5, 6]
    (repairClasses hashOf [0, 1, 2]).map (fun k => (k.elements, k.canonical)) = [([1, 0], 1), ([2], 2)] ∧
    repair hashOf [0, 1, 2] [(0, 1, 2)] = [(1, 1, 2)] := by
  decide

/-! ## hierarchy -/

/-- **`removeAllConnected` extracts a connected component**: the stripped faces and the remaining
ones are a rearrangement of what was in the mesh, every stripped face is connected (through faces
sharing a vertex) to a face at the start vertex, and no remaining face shares a vertex with a
stripped one. -/
theorem components_partition (rem : List Face) (c : Nat) :
    ((removeAllConnected rem c).1 ++ (removeAllConnected rem c).2).Perm rem ∧
    (∀ y ∈ (removeAllConnected rem c).1, ∃ a ∈ facesAt c rem, Reach sharesVert rem a y) ∧
    (∀ a ∈ (removeAllConnected rem c).1, ∀ b ∈ (removeAllConnected rem c).2, sharesVert a b = false) :=
  ⟨(removeAllConnected_spec rem c).1, (removeAllConnected_spec rem c).2.1, (removeAllConnected_spec rem c).2.2.1⟩

theorem hierInv_init (ts : List Tri) (sorted : List Nat) (hs : ∀ v ∈ verts ts, v ∈ sorted) :
    HierInv (enum ts) sorted (enum ts) := by
  refine ⟨fun _ h => h, fun g hg => ?_, fun _ _ h hh _ => hh⟩
  refine ⟨g.2.1, hs _ ?_, by simp [hasVert, triVerts]⟩
  simp only [verts, List.mem_eraseDups, vertsAll, List.mem_flatMap]
  exact ⟨g.2, mem_enum_snd hg, by simp [triVerts]⟩

/-- **The hierarchy loses and duplicates no face** — for *every* containment oracle (even a wrong
one), every face order and every sweep order that lists all vertices: the `FullMesh` of the forest
built by `uncheckedMeshToHierarchy` is a rearrangement of the input faces. -/
theorem hierarchy_partition (encTop encIn : Comp → Comp → Bool) (sorted : List Nat) (ts : List Tri)
    (hs : ∀ v ∈ verts ts, v ∈ sorted) :
    ((Forest.fullMesh (·.2) (meshToHierarchy encTop encIn sorted ts)).map (·.2)).Perm ts := by
  have h := (hierLoop_spec (enum ts) encTop encIn sorted (enum ts) .nil (hierInv_init ts sorted hs)).1
  simp only [Forest.fullMesh, List.nil_append] at h
  have := h.map (·.2)
  rw [enum_map_snd] at this
  exact this

/-- … and **every node of the hierarchy is a connected component of the mesh**: non-empty,
connected (through faces sharing a vertex) to the faces at its sweep vertex, and closed (a face
sharing a vertex with a face of the node belongs to the node). -/
theorem hierarchy_nodes_are_components (encTop encIn : Comp → Comp → Bool) (sorted : List Nat)
    (ts : List Tri) (hs : ∀ v ∈ verts ts, v ∈ sorted) :
    ∀ x ∈ Forest.nodes (meshToHierarchy encTop encIn sorted ts),
      (∀ y ∈ x.2, ∃ a ∈ facesAt x.1 (enum ts), Reach sharesVert (enum ts) a y) ∧
      (∀ a ∈ x.2, ∀ h ∈ enum ts, sharesVert a h = true → h ∈ x.2) ∧ x.2 ≠ [] := by
  intro x hx
  have h := (hierLoop_spec (enum ts) encTop encIn sorted (enum ts) .nil (hierInv_init ts sorted hs)).2 x hx
  rcases h with h | h
  · simp [Forest.nodes] at h
  · exact h

/-- The components in sweep order (`strippedComps`) are what the loop inserts, one leaf at a time. -/
theorem hierarchy_is_insertion_sequence (enc : Comp → Comp → Bool) (sorted : List Nat) (ts : List Tri) :
    meshToHierarchy enc enc sorted ts =
      (strippedComps (enum ts) sorted (enum ts)).foldl (fun f x => Forest.insertLeaf enc x f) .nil := by
  unfold meshToHierarchy
  rw [hierLoop_eq_foldl]
  congr 1
  funext f x
  exact Forest.insertTop_eq_insertLeaf enc x f

/-- **Only the classification of whole components matters** — the builder probes containment
with two different points of the new component (the sweep's minimum vertex at the root level,
`mesh.VertexSlice()[0]` — an arbitrary vertex — inside `insertLeaf`).  If both probes answer, for
every pair of components, what the relation `enc` ("encloses") says, the hierarchy is the one
built from `enc` alone; so `hierarchy_nesting` / `hierarchy_contains_eq_evenodd` apply whichever
vertices are used.  A probe that is NOT classified like the component (e.g. a point off the
component, such as the centre of its bounding box, which may lie in a notch of a non-convex
encloser) violates this hypothesis: see the example below. -/
theorem hierarchy_probe_independent (enc encTop encIn : Comp → Comp → Bool) (sorted : List Nat)
    (ts : List Tri)
    (hagree : ∀ a ∈ strippedComps (enum ts) sorted (enum ts), ∀ b ∈ strippedComps (enum ts) sorted (enum ts),
      encTop a b = enc a b ∧ encIn a b = enc a b) :
    meshToHierarchy encTop encIn sorted ts = meshToHierarchy enc enc sorted ts := by
  rw [hierarchy_is_insertion_sequence]
  unfold meshToHierarchy
  rw [hierLoop_eq_foldl]
  refine Forest.foldl_insertTop_congr encTop encIn enc _ .nil fun x hx y hy => ?_
  rcases hy with hy | hy
  · simp [Forest.nodes] at hy
  · exact hagree y hy x hx

/-- Why the probe must be a point of the leaf: three nested tetrahedra `A ⊃ B ⊃ C` (swept from
vertices 0, 4, 8).  With correct probes `C` becomes a child of `B`, and a point inside all three is
classified as inside (odd).  If the inner probe does not see that `B` encloses `C` (a point off
`C`, outside `B`), `C` is attached as a sibling of `B` and the same point is classified as
outside — every face is still there (`hierarchy_partition`), only nesting and `Contains` break. -/
example :
    let ts : List Tri := [(0,1,2),(0,2,3),(0,3,1),(1,3,2),(4,5,6),(4,6,7),(4,7,5),(5,7,6),
      (8,9,10),(8,10,11),(8,11,9),(9,11,10)]
    let enc : Comp → Comp → Bool := fun a b => decide (a.1 < b.1)
    let encBad : Comp → Comp → Bool := fun a b => a.1 == 0 && b.1 != 0
    let sorted := [0,4,8,1,2,3,5,6,7,9,10,11]
    let good := meshToHierarchy enc enc sorted ts
    let bad := meshToHierarchy enc encBad sorted ts
    (Forest.nodes good).map (·.1) = [0,4,8] ∧ (Forest.nodes bad).map (·.1) = [0,4,8] ∧
    Forest.contains (fun _ => true) good = true ∧ Forest.contains (fun _ => true) bad = false ∧
    ((Forest.fullMesh (·.2) bad).map (·.1)).length = 12 := by
  decide

/-- **Nesting** — assume the containment oracle `enc` (the same answer for the sweep vertex and
for `VertexSlice()[0]`, as for a correct point-in-component test on non-intersecting components)
is, on the components `cs` of the mesh: irreflexive, transitive, laminar (two components
enclosing a third are nested), and compatible with the sweep (a component is swept after every
component that encloses it).  Then in the forest built by `uncheckedMeshToHierarchy` every
component is nested under exactly the components that enclose it:
`a` is an ancestor of `b` iff `enc a b`. -/
theorem hierarchy_nesting (enc : Comp → Comp → Bool) (sorted : List Nat) (ts : List Tri)
    (hsn : sorted.Nodup)
    (hirr : ∀ a ∈ strippedComps (enum ts) sorted (enum ts), enc a a = false)
    (hord : (strippedComps (enum ts) sorted (enum ts)).Pairwise (fun a b => enc b a = false))
    (htrans : ∀ a ∈ strippedComps (enum ts) sorted (enum ts), ∀ b ∈ strippedComps (enum ts) sorted (enum ts),
      ∀ c ∈ strippedComps (enum ts) sorted (enum ts), enc a b = true → enc b c = true → enc a c = true)
    (hlam : ∀ a ∈ strippedComps (enum ts) sorted (enum ts), ∀ b ∈ strippedComps (enum ts) sorted (enum ts),
      ∀ c ∈ strippedComps (enum ts) sorted (enum ts), enc a c = true → enc b c = true →
        a = b ∨ enc a b = true ∨ enc b a = true) :
    (Forest.nodes (meshToHierarchy enc enc sorted ts)).Perm (strippedComps (enum ts) sorted (enum ts)) ∧
    ∀ a ∈ Forest.nodes (meshToHierarchy enc enc sorted ts),
      ∀ b ∈ Forest.nodes (meshToHierarchy enc enc sorted ts),
        Forest.IsAnc a b (meshToHierarchy enc enc sorted ts) ↔ enc a b = true := by
  rw [hierarchy_is_insertion_sequence]
  have hnd := strippedComps_nodup (enum ts) sorted (enum ts) hsn
  have := Forest.build_wellNested enc (strippedComps (enum ts) sorted (enum ts)) .nil
    (by simpa [Forest.nodes] using hnd) (by intro a ha; simp [Forest.nodes] at ha)
    (by simpa [Forest.nodes] using hirr) (by intro x _ b hb; simp [Forest.nodes] at hb) hord
    (by simpa [Forest.nodes] using htrans) (by simpa [Forest.nodes] using hlam)
  exact ⟨by simpa [Forest.nodes] using this.2, this.1⟩

/-- **Even–odd** — under the hypotheses of `hierarchy_nesting`, and for a point whose containment
in the components (`inside`) is consistent with the nesting (a point inside a component is inside
every component enclosing that one; two components containing the point are nested — true for
non-intersecting closed components and a correct oracle), `MeshHierarchy.Contains` (OR-ed over the
roots) is the parity of the number of components containing the point, i.e. the even–odd rule on
the whole mesh. -/
theorem hierarchy_contains_eq_evenodd (enc : Comp → Comp → Bool) (inside : Comp → Bool)
    (sorted : List Nat) (ts : List Tri) (hsn : sorted.Nodup)
    (hirr : ∀ a ∈ strippedComps (enum ts) sorted (enum ts), enc a a = false)
    (hord : (strippedComps (enum ts) sorted (enum ts)).Pairwise (fun a b => enc b a = false))
    (htrans : ∀ a ∈ strippedComps (enum ts) sorted (enum ts), ∀ b ∈ strippedComps (enum ts) sorted (enum ts),
      ∀ c ∈ strippedComps (enum ts) sorted (enum ts), enc a b = true → enc b c = true → enc a c = true)
    (hlam : ∀ a ∈ strippedComps (enum ts) sorted (enum ts), ∀ b ∈ strippedComps (enum ts) sorted (enum ts),
      ∀ c ∈ strippedComps (enum ts) sorted (enum ts), enc a c = true → enc b c = true →
        a = b ∨ enc a b = true ∨ enc b a = true)
    (hup : ∀ a ∈ strippedComps (enum ts) sorted (enum ts), ∀ b ∈ strippedComps (enum ts) sorted (enum ts),
      enc a b = true → inside b = true → inside a = true)
    (hnest : ∀ a ∈ strippedComps (enum ts) sorted (enum ts), ∀ b ∈ strippedComps (enum ts) sorted (enum ts),
      inside a = true → inside b = true → a = b ∨ enc a b = true ∨ enc b a = true) :
    Forest.contains inside (meshToHierarchy enc enc sorted ts) =
      decide ((strippedComps (enum ts) sorted (enum ts)).countP inside % 2 = 1) := by
  obtain ⟨hperm, hanc⟩ := hierarchy_nesting enc sorted ts hsn hirr hord htrans hlam
  have hnd : (Forest.nodes (meshToHierarchy enc enc sorted ts)).Nodup :=
    hperm.nodup_iff.mpr (strippedComps_nodup (enum ts) sorted (enum ts) hsn)
  have hm : ∀ a, a ∈ Forest.nodes (meshToHierarchy enc enc sorted ts) ↔
      a ∈ strippedComps (enum ts) sorted (enum ts) := fun a => hperm.mem_iff
  rw [Forest.contains_eq_parity inside _ hnd]
  · simp only [Forest.cnt, hperm.countP_eq]
  · intro a b h hb
    exact hup a ((hm a).mp h.mem.1) b ((hm b).mp h.mem.2) ((hanc a h.mem.1 b h.mem.2).mp h) hb
  · intro a ha b hb hia hib
    rcases hnest a ((hm a).mp ha) b ((hm b).mp hb) hia hib with h | h | h
    · exact Or.inl h
    · exact Or.inr (Or.inl ((hanc a ha b hb).mpr h))
    · exact Or.inr (Or.inr ((hanc b hb a ha).mpr h))

/-- Non-vacuity of the nesting hypotheses: two tetrahedra, the first (swept from vertex 0)
enclosing the second (swept from vertex 4) — the hypotheses hold, the second ends up as the child
of the first, and a point inside both is classified as outside. -/
example :
    let ts : List Tri := [(0,1,2),(0,2,3),(0,3,1),(1,3,2),(4,5,6),(4,6,7),(4,7,5),(5,7,6)]
    let enc : Comp → Comp → Bool := fun a b => a.1 == 0 && b.1 == 4
    let sorted := [0,4,1,2,3,5,6,7]
    let cs := strippedComps (enum ts) sorted (enum ts)
    cs.length = 2 ∧ sorted.Nodup ∧ (∀ a ∈ cs, enc a a = false) ∧
    cs.Pairwise (fun a b => enc b a = false) ∧
    (∀ a ∈ cs, ∀ b ∈ cs, ∀ c ∈ cs, enc a b = true → enc b c = true → enc a c = true) ∧
    (∀ a ∈ cs, ∀ b ∈ cs, ∀ c ∈ cs, enc a c = true → enc b c = true → a = b ∨ enc a b = true ∨ enc b a = true) ∧
    Forest.contains (fun c => c.1 == 0) (meshToHierarchy enc enc sorted ts) = true ∧
    Forest.contains (fun _ => true) (meshToHierarchy enc enc sorted ts) = false := by
  decide

/-! ### shortcuts in front of the root-level containment test, and the sweep order -/

/-- **A test in front of the root-level containment call is harmless iff it never rejects an
encloser.**  `ClosedMeshLoop` asks every root `x` whether `x.MeshSolid.Contains(minVertex)`; put a
cheap test `keep x new` in front (`if !keep { continue }`, model `rootKeep`).  If `keep` holds
whenever the root really encloses the new component, the hierarchy is the one built without the
test, so `hierarchy_nesting` / `hierarchy_contains_eq_evenodd` still apply.  (The example after
`bbox_max_corner_is_not_the_far_corner` shows what happens otherwise.) -/
theorem hierarchy_root_prefilter_sound (keep enc : Comp → Comp → Bool) (sorted : List Nat)
    (ts : List Tri)
    (hkeep : ∀ a ∈ strippedComps (enum ts) sorted (enum ts), ∀ b ∈ strippedComps (enum ts) sorted (enum ts),
      enc a b = true → keep a b = true) :
    meshToHierarchy (rootKeep keep enc) enc sorted ts = meshToHierarchy enc enc sorted ts := by
  refine hierarchy_probe_independent enc (rootKeep keep enc) enc sorted ts fun a ha b hb => ⟨?_, rfl⟩
  cases he : enc a b with
  | false => simp [rootKeep, he]
  | true => simp [rootKeep, he, hkeep a ha b hb he]

/-- **The bounding-box shortcut is sound with the FAR corner**: over every linear ordered field,
for every sweep axis, if the sweep vertex of an enclosed component lies in the bounding box
`[mn a, mx a]` of each component `a` enclosing it (a solid lies in its bounding box), then skipping
a root when `farCorner.Dot(axis) < minVertex.Dot(axis)` changes nothing: the projection of every
point of a box is at most that of the corner taking, per coordinate, the maximum where the axis is
non-negative and the MINIMUM where it is negative. -/
theorem bbox_far_corner_prefilter_sound {K : Type} [Field K] [LinearOrder K] [IsStrictOrderedRing K]
    (axis : Vec3 K) (pos : Nat → Vec3 K) (mn mx : Comp → Vec3 K) (enc : Comp → Comp → Bool)
    (sorted : List Nat) (ts : List Tri)
    (hbox : ∀ a ∈ strippedComps (enum ts) sorted (enum ts), ∀ b ∈ strippedComps (enum ts) sorted (enum ts),
      enc a b = true → InBox (mn a) (mx a) (pos b.1)) :
    meshToHierarchy (rootKeep (cornerKeep axis (fun y => farCorner axis (mn y) (mx y)) pos) enc) enc sorted ts =
      meshToHierarchy enc enc sorted ts := by
  refine hierarchy_root_prefilter_sound _ enc sorted ts fun a ha b hb he => ?_
  have := vdot_le_farCorner axis (mn a) (mx a) (pos b.1) (hbox a ha b hb he)
  simp only [cornerKeep, Bool.not_eq_true', decide_eq_false_iff_not, not_lt]
  exact this

/-- … and `Max()` IS the far corner when no component of the axis is negative — the situation of
`model2d` (`arbitraryAxis = (0.95, 0.27)`): there the shortcut with `x.Max()` is sound. -/
theorem bbox_max_corner_prefilter_sound_of_nonneg {K : Type} [Field K] [LinearOrder K]
    [IsStrictOrderedRing K] (axis : Vec3 K) (hx : 0 ≤ axis.x) (hy : 0 ≤ axis.y) (hz : 0 ≤ axis.z)
    (pos : Nat → Vec3 K) (mn mx : Comp → Vec3 K) (enc : Comp → Comp → Bool)
    (sorted : List Nat) (ts : List Tri)
    (hbox : ∀ a ∈ strippedComps (enum ts) sorted (enum ts), ∀ b ∈ strippedComps (enum ts) sorted (enum ts),
      enc a b = true → InBox (mn a) (mx a) (pos b.1)) :
    meshToHierarchy (rootKeep (cornerKeep axis (fun y => maxCorner (mn y) (mx y)) pos) enc) enc sorted ts =
      meshToHierarchy enc enc sorted ts := by
  have := bbox_far_corner_prefilter_sound axis pos mn mx enc sorted ts hbox
  simpa only [farCorner_eq_max_of_nonneg axis _ _ hx hy hz] using this

/-- With a negative axis component — `model3d`'s `arbitraryAxis = (0.95, 0.27, -0.148)` — `Max()`
is NOT the far corner: every box that is not flat in that direction has a point (its corner
`(max.x, max.y, min.z)`) whose projection exceeds that of `Max()` by `|axis.z|·(max.z − min.z)`.
A component starting there is skipped by a shortcut that uses `Max()`. -/
theorem bbox_max_corner_is_not_the_far_corner {K : Type} [Field K] [LinearOrder K] [IsStrictOrderedRing K]
    (axis mn mx : Vec3 K) (hbox : mn.x ≤ mx.x ∧ mn.y ≤ mx.y ∧ mn.z < mx.z) (hz : axis.z < 0) :
    ∃ p, InBox mn mx p ∧ vdot (maxCorner mn mx) axis < vdot p axis ∧
      vdot p axis ≤ vdot (farCorner axis mn mx) axis :=
  ⟨⟨mx.x, mx.y, mn.z⟩, (maxCorner_not_bound axis mn mx hbox hz).1, (maxCorner_not_bound axis mn mx hbox hz).2,
    vdot_le_farCorner axis mn mx _ (maxCorner_not_bound axis mn mx hbox hz).1⟩

/-- The column with a void, at model level (integer coordinates, axis ×1000): a tetrahedral
component `A` (swept from vertex 0) with bounding box `[0,2]×[0,2]×[0,20]` encloses `B` (swept from
vertex 4 at `(1,1,10)`).  `Max().Dot(axis) = -518 < -259 = minVertex.Dot(axis)`, so the shortcut
with `Max()` skips `A`: `B` becomes a second root and a point inside both is classified as inside;
with the far corner `(2,2,0)` the hierarchy is the right one (`B` child of `A`, the point outside). -/
example :
    let ts : List Tri := [(0,1,2),(0,2,3),(0,3,1),(1,3,2),(4,5,6),(4,6,7),(4,7,5),(5,7,6)]
    let enc : Comp → Comp → Bool := fun a b => a.1 == 0 && b.1 == 4
    let sorted := [0,4,1,2,3,5,6,7]
    let axis : Vec3 Int := ⟨952, 269, -148⟩
    let pos : Nat → Vec3 Int := fun v => if v == 4 then ⟨1, 1, 10⟩ else ⟨0, 0, 0⟩
    let mn : Vec3 Int := ⟨0, 0, 0⟩
    let mx : Vec3 Int := ⟨2, 2, 20⟩
    let good := meshToHierarchy enc enc sorted ts
    let viaFar := meshToHierarchy (rootKeep (cornerKeep axis (fun _ => farCorner axis mn mx) pos) enc) enc sorted ts
    let viaMax := meshToHierarchy (rootKeep (cornerKeep axis (fun _ => maxCorner mn mx) pos) enc) enc sorted ts
    vdot (maxCorner mn mx) axis = -518 ∧ vdot (pos 4) axis = -259 ∧ vdot (farCorner axis mn mx) axis = 2442 ∧
    Forest.contains (fun _ => true) good = false ∧ Forest.contains (fun _ => true) viaFar = false ∧
    Forest.contains (fun _ => true) viaMax = true ∧
    ((Forest.fullMesh (·.2) viaMax).map (·.1)).length = 8 := by
  decide

/-- **The sweep order from the sweep key** — the order hypothesis `hord` of `hierarchy_nesting`
(no component encloses a component stripped before it) follows from what the code's comment says:
the vertices are visited by non-decreasing key (`sort.Sort` over `c.Dot(arbitraryAxis)`, ties in
any order), every vertex is listed, and an enclosing component has a vertex whose key is smaller
than the key of every vertex of the enclosed one (`hull_point_not_before_all` is the linear half of
that geometric fact: a point of the convex hull of `b`'s vertices does not project below all of
them).  Proved through: the sweep vertex of a stripped component is the FIRST vertex of that
component in the sweep order (`strippedComps_first`). -/
theorem hierarchy_sweep_order_from_key {K : Type} [LinearOrder K] (key : Nat → K)
    (enc : Comp → Comp → Bool) (sorted : List Nat) (ts : List Tri)
    (hs : ∀ v ∈ verts ts, v ∈ sorted) (hsorted : SweepSorted key sorted)
    (hgeo : ∀ a ∈ strippedComps (enum ts) sorted (enum ts), ∀ b ∈ strippedComps (enum ts) sorted (enum ts),
      enc b a = true → ∃ v ∈ compVerts b, ∀ w ∈ compVerts a, key v < key w) :
    (strippedComps (enum ts) sorted (enum ts)).Pairwise (fun a b => enc b a = false) := by
  refine strippedComps_sweep_pairwise key enc (enum ts) sorted (hierInv_init ts sorted hs) ?_ hsorted hgeo
  intro g hg w hw
  refine hs w ?_
  simp only [verts, List.mem_eraseDups, vertsAll, List.mem_flatMap]
  exact ⟨g.2, mem_enum_snd hg, by simpa [hasVert] using hw⟩

/-- `hierarchy_nesting` with the order hypothesis replaced by the sweep key. -/
theorem hierarchy_nesting_of_sweep_key {K : Type} [LinearOrder K] (key : Nat → K)
    (enc : Comp → Comp → Bool) (sorted : List Nat) (ts : List Tri)
    (hsn : sorted.Nodup) (hs : ∀ v ∈ verts ts, v ∈ sorted) (hsorted : SweepSorted key sorted)
    (hgeo : ∀ a ∈ strippedComps (enum ts) sorted (enum ts), ∀ b ∈ strippedComps (enum ts) sorted (enum ts),
      enc b a = true → ∃ v ∈ compVerts b, ∀ w ∈ compVerts a, key v < key w)
    (htrans : ∀ a ∈ strippedComps (enum ts) sorted (enum ts), ∀ b ∈ strippedComps (enum ts) sorted (enum ts),
      ∀ c ∈ strippedComps (enum ts) sorted (enum ts), enc a b = true → enc b c = true → enc a c = true)
    (hlam : ∀ a ∈ strippedComps (enum ts) sorted (enum ts), ∀ b ∈ strippedComps (enum ts) sorted (enum ts),
      ∀ c ∈ strippedComps (enum ts) sorted (enum ts), enc a c = true → enc b c = true →
        a = b ∨ enc a b = true ∨ enc b a = true) :
    (Forest.nodes (meshToHierarchy enc enc sorted ts)).Perm (strippedComps (enum ts) sorted (enum ts)) ∧
    ∀ a ∈ Forest.nodes (meshToHierarchy enc enc sorted ts),
      ∀ b ∈ Forest.nodes (meshToHierarchy enc enc sorted ts),
        Forest.IsAnc a b (meshToHierarchy enc enc sorted ts) ↔ enc a b = true := by
  refine hierarchy_nesting enc sorted ts hsn ?_ (hierarchy_sweep_order_from_key key enc sorted ts hs hsorted hgeo)
    htrans hlam
  -- irreflexive: a component has no vertex before all of its own vertices
  intro a ha
  cases he : enc a a with
  | false => rfl
  | true =>
    obtain ⟨v, hv, hlt⟩ := hgeo a ha a ha he
    exact absurd (hlt v hv) (lt_irrefl _)

/-- Non-vacuity of the key hypotheses: the two nested tetrahedra of the example below, keys
`0,4,1,2,3,5,6,7 ↦ 0,1,2,…` (the encloser starts first). -/
example :
    let ts : List Tri := [(0,1,2),(0,2,3),(0,3,1),(1,3,2),(4,5,6),(4,6,7),(4,7,5),(5,7,6)]
    let enc : Comp → Comp → Bool := fun a b => a.1 == 0 && b.1 == 4
    let sorted := [0,4,1,2,3,5,6,7]
    let key : Nat → Nat := fun v => (sorted.idxOf v)
    let cs := strippedComps (enum ts) sorted (enum ts)
    SweepSorted key sorted ∧ (∀ v ∈ verts ts, v ∈ sorted) ∧
    (∀ a ∈ cs, ∀ b ∈ cs, enc b a = true → ∃ v ∈ compVerts b, ∀ w ∈ compVerts a, key v < key w) := by
  decide

/-! ## The diagnostics on a mesh with a history (`Add`, `Remove`, lazily built vertex index)

A `model3d.Mesh` is a set of face pointers plus a vertex index that is built on first use and then
maintained incrementally (`Remove` deletes from a slice by swapping with its last element), see
`M3d/Model/MeshDiagHist.lean`.  The property is about the mesh — the current set of faces —, so
every diagnostic must give, at any point of any history, the answer its definition gives on the
current faces, whether or not the index happens to be built (seeded change C11-8: a shortcut in
`NeedsRepair` that looks at the index only when it is cached). -/

/-- **The vertex index is coherent along every history** of `Add` / `Remove` / index-building
calls, starting from `NewMesh()`: the face set has no repetition, and when the index exists its
keys are distinct, no slice is empty and the slice of every vertex is a rearrangement of the faces
at that vertex (in an order that depends on the history). -/
theorem mesh_index_coherent_on_every_history (ops : List MeshOp) :
    (MeshSt.empty.run ops).faces.Nodup ∧ ∀ ix, (MeshSt.empty.run ops).index = some ix →
      (ixKeys ix).Nodup ∧ (∀ e ∈ ix, e.2 ≠ []) ∧
        ∀ v, (ixValue ix v).Perm (facesAt v (MeshSt.empty.run ops).faces) := by
  have h := MeshSt.ok_run ops MeshSt.ok_empty
  exact ⟨h.1, fun ix hix => ⟨(h.2 ix hix).1.1, (h.2 ix hix).1.2, (h.2 ix hix).2⟩⟩

/-- Non-vacuity: add three faces at vertex 0, build the index, remove the first one: the slice of
vertex 0 is `[2, 1]` (swap-remove order), not the order of the face set `[1, 2]`. -/
example :
    let st := MeshSt.empty.run [.add (0, (0,1,2)), .add (1, (0,2,3)), .add (2, (0,3,1)), .touch,
      .remove (0, (0,1,2))]
    (st.index.map fun ix => (ixValue ix 0).map (·.1)) = some [2, 1] ∧ st.faces.map (·.1) = [1, 2] := by
  decide

/-- **`NeedsRepair` after any history**: true iff some undirected edge of the CURRENT face set is
not used exactly twice — whatever was added, removed or queried before, index cached or not. -/
theorem needs_repair_after_any_history (ops : List MeshOp) :
    needsRepairSt (MeshSt.empty.run ops) = true ↔
      ∃ e ∈ dirEdges (MeshSt.empty.run ops).tris, edgeMult (MeshSt.empty.run ops).tris e ≠ 2 :=
  needs_repair_iff _

/-- **`NeedsRepair` depends on the face set only**: two meshes (any two states, reached by any
histories, with or without a cached index) holding the same faces give the same answer. -/
theorem needs_repair_same_faces_same_answer (st1 st2 : MeshSt) (h : st1.faces.Perm st2.faces) :
    needsRepairSt st1 = needsRepairSt st2 := by
  have hseg : (segsOf st1.tris).Perm (segsOf st2.tris) := by
    unfold segsOf dirEdges MeshSt.tris
    exact ((h.map _).flatMap_right _).map _
  have key : ∀ a b : List Tri, (segsOf a).Perm (segsOf b) → needsRepair a = true → needsRepair b = true := by
    intro a b hp
    rw [needsRepair_iff_segs, needsRepair_iff_segs]
    rintro ⟨e, he, hc⟩
    exact ⟨e, hp.mem_iff.mp he, by rw [← hp.count_eq e]; exact hc⟩
  unfold needsRepairSt
  cases h1 : needsRepair st1.tris with
  | true => exact (key _ _ hseg h1).symm
  | false =>
    cases h2 : needsRepair st2.tris with
    | false => rfl
    | true => rw [key _ _ hseg.symm h2] at h1; cases h1

/-- **`SingularVertices` after any history** (no degenerate face): the stack search, run on the
slices of the index in whatever order the history left them, reports exactly the vertices of the
current face set whose fan graph (faces at the vertex, adjacent when they share an edge there) is
disconnected. -/
theorem singular_vertices_after_any_history (ops : List MeshOp)
    (hd : ∀ f ∈ (MeshSt.empty.run ops).faces, TriNondeg f.2) (v : Nat) :
    v ∈ singularVerticesSt (MeshSt.empty.run ops) ↔
      (∃ f ∈ (MeshSt.empty.run ops).faces, hasVert v f.2 = true) ∧
        ¬ FanGraphConnectedF (MeshSt.empty.run ops).faces v :=
  mem_singularVerticesSt (MeshSt.ok_run ops MeshSt.ok_empty) hd v

/-- On a freshly built mesh the stateful `SingularVertices` is the one of the earlier theorems
(`singular_vertices_eq`): the two models agree. -/
theorem singular_vertices_fresh_mesh (ts : List Tri) (hd : NoDegenerate ts) (v : Nat) :
    v ∈ singularVerticesSt ⟨enum ts, none⟩ ↔ v ∈ singularVertices ts := by
  have hok : MeshSt.OK ⟨enum ts, none⟩ := ⟨enum_nodup ts, fun _ h => by cases h⟩
  rw [mem_singularVerticesSt hok (fun f hf => hd _ (mem_enum_snd hf)) v, singular_iff ts hd v]
  refine and_congr ?_ Iff.rfl
  simp only [verts, vertsAll, List.mem_eraseDups, List.mem_flatMap]
  constructor
  · rintro ⟨f, hf, hv⟩
    refine ⟨f.2, mem_enum_snd hf, ?_⟩
    simpa [hasVert] using hv
  · rintro ⟨t, ht, hv⟩
    have : t ∈ (enum ts).map (·.2) := by rw [enum_map_snd]; exact ht
    obtain ⟨f, hf, rfl⟩ := List.mem_map.mp this
    exact ⟨f, hf, by simpa [hasVert] using hv⟩

/-- **`SingularVertices` depends on the face set only**: two states reached by any histories that
hold the same faces report the same vertices. -/
theorem singular_vertices_same_faces_same_answer (ops1 ops2 : List MeshOp)
    (h : (MeshSt.empty.run ops1).faces.Perm (MeshSt.empty.run ops2).faces)
    (hd : ∀ f ∈ (MeshSt.empty.run ops1).faces, TriNondeg f.2) (v : Nat) :
    v ∈ singularVerticesSt (MeshSt.empty.run ops1) ↔ v ∈ singularVerticesSt (MeshSt.empty.run ops2) := by
  have hd2 : ∀ f ∈ (MeshSt.empty.run ops2).faces, TriNondeg f.2 := fun f hf => hd f (h.mem_iff.mpr hf)
  rw [singular_vertices_after_any_history ops1 hd v, singular_vertices_after_any_history ops2 hd2 v]
  have hm : ∀ x, x ∈ facesAt v (MeshSt.empty.run ops1).faces ↔ x ∈ facesAt v (MeshSt.empty.run ops2).faces := by
    intro x; simp only [facesAt, List.mem_filter, h.mem_iff]
  refine and_congr ?_ (not_congr (connected_congr_mem hm))
  constructor
  · rintro ⟨f, hf, hv⟩; exact ⟨f, h.mem_iff.mp hf, hv⟩
  · rintro ⟨f, hf, hv⟩; exact ⟨f, h.mem_iff.mpr hf, hv⟩

/-- **A shortcut in front of the edge scan that looks at the cached index is harmless iff it only
fires on meshes that need repair.**  "Some vertex has fewer than TWO triangles" is such a test (no
degenerate face): a vertex with a single triangle lies on an edge that is used once. -/
theorem needs_repair_fan_below_two_prefilter_sound (ops : List MeshOp)
    (hd : ∀ f ∈ (MeshSt.empty.run ops).faces, TriNondeg f.2) :
    needsRepairPre (fanBelow 2) (MeshSt.empty.run ops) = needsRepairSt (MeshSt.empty.run ops) := by
  have hok := MeshSt.ok_run ops MeshSt.ok_empty
  generalize MeshSt.empty.run ops = st at hd hok
  unfold needsRepairPre needsRepairSt
  cases hi : st.index with
  | none => rfl
  | some ix =>
    simp only
    by_cases hp : fanBelow 2 ix = true
    · simp only [hp, if_true]
      obtain ⟨e, he, hlen⟩ := List.any_eq_true.mp hp
      have hI := hok.2 ix hi
      have hne := hI.1.2 e he
      have hval := ixValue_of_mem ix hI.1.1 e he
      have hperm : e.2.Perm (facesAt e.1 st.faces) := hval ▸ hI.2 e.1
      obtain ⟨f, hf⟩ : ∃ f, e.2 = [f] := by
        cases hs : e.2 with
        | nil => exact absurd hs hne
        | cons a r =>
          cases r with
          | nil => exact ⟨a, rfl⟩
          | cons b r => rw [hs] at hlen; simp at hlen; omega
      have hfa : facesAt e.1 st.faces = [f] := List.perm_singleton.mp (hf ▸ hperm.symm)
      have hta : trisAt e.1 st.tris = [f.2] := by
        have : trisAt e.1 st.tris = (facesAt e.1 st.faces).map (·.2) := by
          unfold trisAt facesAt MeshSt.tris
          rw [List.filter_map]; rfl
        rw [this, hfa]; rfl
      have hfm : f ∈ st.faces := (List.mem_filter.mp (hfa ▸ List.mem_cons_self : f ∈ facesAt e.1 st.faces)).1
      exact (needsRepair_of_single_face (hd f hfm) hta).symm
    · simp [hp]

/-- **"Fewer than THREE triangles" is not such a test** (the seeded change C11-8 at model level): on
the double cover of one triangle every edge is used exactly twice — `NeedsRepair` is false by
definition, and on the mesh without a cached index —, every vertex has a (connected) fan of two
triangles, no vertex is singular, no edge inconsistent; the shortcut answers `true` as soon as any
earlier call has built the index, so the same face set gets two different answers. -/
theorem needs_repair_fan_below_three_prefilter_unsound :
    let ops : List MeshOp := [.add (0, (0,1,2)), .add (1, (0,2,1))]
    let st := MeshSt.empty.run ops
    (∀ e ∈ dirEdges st.tris, edgeMult st.tris e = 2) ∧ needsRepairSt st = false ∧
    singularVerticesSt st = [] ∧ inconsistentEdgesSt st = [] ∧
    needsRepairPre (fanBelow 3) st = false ∧
    needsRepairPre (fanBelow 3) (MeshSt.empty.run (ops ++ [.touch])) = true ∧
    needsRepairPre (fanBelow 2) (MeshSt.empty.run (ops ++ [.touch])) = false := by
  decide

/-- **2-D `Manifold` after any history** (`model2d.Mesh` is the same template; a segment `(a, b)` is
the face with corners `a, b, b`): the scan over the slices of the index, in whatever state the
history left it, answers as the definition on the current segments — every vertex lies on exactly
two segments (`manifold2_iff`). -/
theorem manifold2_after_any_history (ops : List MeshOp)
    (hseg : ∀ f ∈ (MeshSt.empty.run ops).faces, f.2.2.2 = f.2.2.1) :
    manifoldSt (MeshSt.empty.run ops) = manifold2 (MeshSt.empty.run ops).segs ∧
    (manifoldSt (MeshSt.empty.run ops) = true ↔
      ∀ v ∈ segVertsAll (MeshSt.empty.run ops).segs, (segsAt v (MeshSt.empty.run ops).segs).length = 2) := by
  have h := manifoldSt_eq (MeshSt.ok_run ops MeshSt.ok_empty) hseg
  exact ⟨h, by rw [h]; exact manifold2_iff _⟩

/-- Non-vacuity: a triangle outline built segment by segment with the index cached from the start,
one segment removed and added again. -/
example :
    let ops : List MeshOp := [.touch, .add (0, segTri (0,1)), .add (1, segTri (1,2)), .add (2, segTri (2,0)),
      .remove (0, segTri (0,1)), .add (0, segTri (0,1))]
    manifoldSt (MeshSt.empty.run ops) = true ∧ manifoldSt (MeshSt.empty.run (ops.take 5)) = false ∧
    (MeshSt.empty.run ops).segs = [(1,2),(2,0),(0,1)] := by
  decide

/-! ## The sweep axes as they are in the source (regenerated) -/

/-- **The signs of the sweep axes of the CURRENT source** (`M3d/Gen/HierAxis.lean` is regenerated
from `var arbitraryAxis` of `model2d/mesh_hierarchy.go` and `model3d/mesh_hierarchy.go` on every
run): the 2-D axis has no negative component, the 3-D axis has a negative `Z`. -/
theorem hierarchy_axis_signs :
    0 ≤ axis2Q.x ∧ 0 ≤ axis2Q.y ∧ 0 ≤ axis2Q.z ∧ 0 ≤ axis3Q.x ∧ 0 ≤ axis3Q.y ∧ axis3Q.z < 0 := by
  decide +kernel

/-- … hence, for the axes as they are in the source now: in `model2d` a bounding-box shortcut with
`x.Max()` in front of the root-level containment test is harmless
(`bbox_max_corner_prefilter_sound_of_nonneg`), … -/
theorem max_corner_shortcut_sound_for_the_2d_axis
    (pos : Nat → Vec3 Rat) (mn mx : Comp → Vec3 Rat) (enc : Comp → Comp → Bool)
    (sorted : List Nat) (ts : List Tri)
    (hbox : ∀ a ∈ strippedComps (enum ts) sorted (enum ts), ∀ b ∈ strippedComps (enum ts) sorted (enum ts),
      enc a b = true → InBox (mn a) (mx a) (pos b.1)) :
    meshToHierarchy (rootKeep (cornerKeep axis2Q (fun y => maxCorner (mn y) (mx y)) pos) enc) enc sorted ts =
      meshToHierarchy enc enc sorted ts :=
  bbox_max_corner_prefilter_sound_of_nonneg axis2Q hierarchy_axis_signs.1 hierarchy_axis_signs.2.1
    hierarchy_axis_signs.2.2.1 pos mn mx enc sorted ts hbox

/-- … and in `model3d` it is not: every box that is not flat in `Z` has a point beyond the
projection of `Max()` (the seeded change C11-6). -/
theorem max_corner_is_not_the_far_corner_for_the_3d_axis (mn mx : Vec3 Rat)
    (hbox : mn.x ≤ mx.x ∧ mn.y ≤ mx.y ∧ mn.z < mx.z) :
    ∃ p, InBox mn mx p ∧ vdot (maxCorner mn mx) axis3Q < vdot p axis3Q ∧
      vdot p axis3Q ≤ vdot (farCorner axis3Q mn mx) axis3Q :=
  bbox_max_corner_is_not_the_far_corner axis3Q mn mx hbox hierarchy_axis_signs.2.2.2.2.2

/-! ## 2-D hierarchy: the loop tracer partitions closed oriented curves -/

/-- **2-D `MeshToHierarchy` loses and duplicates no segment** (the 2-D twin of `hierarchy_partition`;
the former "Partial"): on closed oriented curves — `Surface.InOutOne`, every vertex has exactly one
outgoing and one incoming segment, which by `in_out_one_iff_clean2` is `Manifold()` ∧ no inconsistent
vertex — for EVERY containment oracle and every sweep order that lists all vertices, the loop tracer
(`removeAllConnected` following `Outgoing(c)[0]`) never reaches its "mesh is non-manifold" panic,
closes every loop before its work list runs out, and the `FullMesh` of the resulting forest is a
rearrangement of the input segments.  (Every vertex returns to itself under "next vertex"
(`exists_first_return`, pigeonhole), the loop traced from a live vertex is its orbit
(`traceLoop_spec`), the live vertices stay closed under next/previous (`orbit_closed`), so later
loops never run into an earlier one.) -/
theorem hierarchy2_partition (encTop encIn : Comp2 → Comp2 → Bool) (sorted : List Nat)
    (ss : List Seg) (hio : InOutOne ss) (hs : ∀ v ∈ segVerts ss, v ∈ sorted) :
    ∃ forest, meshToHierarchy2 encTop encIn sorted ss = some forest ∧
      (Forest.fullMesh (·.2) forest).Perm ss :=
  meshToHierarchy2_partition encTop encIn sorted ss hio hs

/-- Non-vacuity: a triangle `0→1→2→0` and a digon `3→4→3`, the digon declared inside the triangle:
two nodes, nothing lost; on an inconsistently oriented outline the tracer panics (`none`). -/
example :
    let enc : Comp2 → Comp2 → Bool := fun a b => a.1 == 0 && b.1 == 3
    inOutOne [(0,1),(3,4),(1,2),(4,3),(2,0)] = true ∧
    (meshToHierarchy2 enc enc [0,3,1,2,4] [(0,1),(3,4),(1,2),(4,3),(2,0)]).map
        (fun f => (Forest.fullMesh (·.2) f, (Forest.nodes f).map (·.1))) =
      some ([(0,1),(1,2),(2,0),(3,4),(4,3)], [0,3]) ∧
    (meshToHierarchy2 enc enc [0,1,2] [(0,1),(2,1),(2,0)]).isNone = true := by
  decide

/-! ## The probe point of `RepairNormals`

`RepairNormals(epsilon)` asks the even–odd solid about ONE point per face: "adding the normal,
scaled by epsilon, to the center of the segment" (doc comment).  `repair_normals2_restores` /
`repair_normals_restores` take the answers as an oracle; the theorems below are about the POINT. -/

section probe
variable {K : Type} [Field K] [LinearOrder K] [IsStrictOrderedRing K]

/-- **The probe of `model2d.Mesh.RepairNormals` is `epsilon` off the midpoint, on the left,
whatever the length of the segment.**  With an exact square root (`L = |s| > 0`) the point
`center.Add(normal.Scale(epsilon))` of the source is the point of the normal line through the
midpoint at parameter `epsilon / L` (units of the left vector `(-dy, dx)`); its squared distance
from the midpoint is `epsilon²` — the length of the segment cancels —, it projects onto the
midpoint, and it lies on the left of the directed segment (cross product `epsilon · L > 0` for
`epsilon > 0`), the side the normal points to. -/
theorem repair_normals2_probe_is_epsilon_off_the_midpoint (sqrt : K → K) (half eps : K) (s : GSeg K)
    (hh : half * 2 = 1)
    (hsq : vnorm2 sqrt (segLeft s) * vnorm2 sqrt (segLeft s) = (segLeft s).normSq)
    (hpos : 0 < vnorm2 sqrt (segLeft s)) :
    probeDoc sqrt half eps s = probeAt half (eps / vnorm2 sqrt (segLeft s)) s ∧
    ((probeDoc sqrt half eps s).sub (segMid half s)).normSq = eps * eps ∧
    (s.2.sub s.1).dot ((probeDoc sqrt half eps s).sub (segMid half s)) = 0 ∧
    (s.2.sub s.1).cross ((probeDoc sqrt half eps s).sub s.1) = eps * vnorm2 sqrt (segLeft s) := by
  refine ⟨probeDoc_eq_probeAt sqrt half eps s, probeDoc_dist_sq sqrt half eps s hsq hpos.ne', ?_, ?_⟩
  · rw [probeDoc_eq_probeAt]; exact (probeAt_left half _ hh s).2
  · rw [probeDoc_eq_probeAt, (probeAt_left half _ hh s).1, ← segLeft_normSq, ← hsq]
    field_simp

/-- **Dropping the normalisation moves the probe `epsilon · |s|` away** (the seeded change C11-11:
`s.Mid().Add(XY(-delta.Y, delta.X).Scale(epsilon))`).  That point is the documented probe for the
epsilon `epsilon · |s|`: its squared distance from the midpoint is `epsilon² |s|²`, so it is the
documented point only for segments of length 1. -/
theorem repair_normals2_unnormalised_probe_is_epsilon_times_length_off (sqrt : K → K) (half eps : K)
    (s : GSeg K) (hpos : 0 < vnorm2 sqrt (segLeft s)) :
    probeAt half eps s = probeDoc sqrt half (eps * vnorm2 sqrt (segLeft s)) s ∧
    ((probeAt half eps s).sub (segMid half s)).normSq = eps * eps * (s.2.sub s.1).normSq :=
  ⟨probeAt_eq_probeDoc_scaled sqrt half eps s hpos.ne', probeAt_dist_sq half eps s⟩

/-- 3-D twin: `center.Add(normal.Scale(epsilon))` of `model3d.Mesh.RepairNormals` is the point of
the normal line through the centroid at parameter `epsilon / |cross|`; `probeAt3 τ` lies at squared
distance `τ² |cross|²` from the centroid (so the probe of the source is `epsilon` away, a probe
without normalisation `epsilon ·` twice the area). -/
theorem repair_normals3_probe_is_epsilon_off_the_centroid (sqrt : K → K) (third eps : K) (t : GTri K)
    (hsq : vnorm3 sqrt (triCross t) * vnorm3 sqrt (triCross t) = vdot (triCross t) (triCross t))
    (hpos : 0 < vnorm3 sqrt (triCross t)) :
    probeDoc3 sqrt third eps t = probeAt3 third (eps / vnorm3 sqrt (triCross t)) t ∧
    vdot (v3sub (probeDoc3 sqrt third eps t) (triCentre third t))
      (v3sub (probeDoc3 sqrt third eps t) (triCentre third t)) = eps * eps := by
  refine ⟨probeDoc3_eq_probeAt3 sqrt third eps t, ?_⟩
  rw [probeDoc3_eq_probeAt3, probeAt3_dist_sq, ← hsq]
  field_simp

/-- **Between two points of the normal line the even–odd answer can only change where the mesh
crosses the line.**  The crossings of the ray from the point at parameter `τ` of a line, along the
line, are the crossings of the line at a parameter `> τ`; if no segment crosses the normal line of
`g` at a parameter in `(0, T]` (`clearUpTo`), every probe `probeAt τ g` with `0 < τ ≤ T` gets the
same answer.  This is what "just off the segment" means: the answer of `RepairNormals` for a
segment is the even–odd status of the region to the left of its midpoint, as long as the probe
stays inside the clearance. -/
theorem probe_parity_constant_within_clearance (half : K) (geo : List (GSeg K)) (g : GSeg K)
    (T τ₁ τ₂ : K) (hclear : clearUpTo half geo g T = true)
    (h1 : 0 < τ₁ ∧ τ₁ ≤ T) (h2 : 0 < τ₂ ∧ τ₂ ≤ T) :
    evenOddRay geo (probeAt half τ₁ g) (segLeft g) = evenOddRay geo (probeAt half τ₂ g) (segLeft g) :=
  evenOddRay_probeAt_eq half geo g T τ₁ τ₂ hclear h1 h2

/-- Non-vacuity, and what happens beyond the clearance: the 1000 × 1 plate with the bottom side
`(0,0) → (1000,0)` (left = up = into the plate).  The line is clear up to parameter `1/2000` (half
the thickness), the probes at `1/100000` (ε = 1/100 normalised) and `1/2000` are both inside; the
probe at parameter `1/100` (ε not normalised: the point `(500, 10)`) is outside. -/
example :
    let geo : List (GSeg Rat) := [(⟨0,0⟩, ⟨1000,0⟩), (⟨1000,0⟩, ⟨1000,1⟩), (⟨1000,1⟩, ⟨0,1⟩), (⟨0,1⟩, ⟨0,0⟩)]
    let g : GSeg Rat := (⟨0,0⟩, ⟨1000,0⟩)
    clearUpTo (1/2) geo g (1/2000) = true ∧ clearUpTo (1/2) geo g (1/100) = false ∧
    evenOddRay geo (probeAt (1/2) (1/100000) g) (segLeft g) = true ∧
    evenOddRay geo (probeAt (1/2) (1/2000) g) (segLeft g) = true ∧
    probeAt (1/2) (1/100) g = ⟨500, 10⟩ ∧
    evenOddRay geo (probeAt (1/2) (1/100) g) (segLeft g) = false := by
  decide +kernel

/-- **`RepairNormals` does not depend on the offset as long as every probe stays inside the
clearance of its segment.**  `contains` is the solid the code asks (`ColliderSolid.Contains`, a ray
in one fixed direction); `hdir` says that on the clear stretches it gives the even–odd answer
counted along the normal (independence of the ray direction: the collider's own correctness, C07;
checked by the driver on every `rn2` case).  Then two versions of `RepairNormals` whose probes lie
at parameters `τ₁ g`, `τ₂ g ∈ (0, T g]` return the same mesh and the same count.  Instances: the
source (`τ = ε / |g|`, admissible iff `ε ≤ T g · |g|`, the Euclidean clearance), the point the
driver evaluates (`τ = ε / (|n.x| + |n.y|) ≤ ε / |g|`, `l1_offset_le`), a version without
normalisation (`τ = ε`, admissible only when `ε · |g|` is within the clearance). -/
theorem repair_normals2_offset_irrelevant_within_clearance (half : K) (pos : Nat → Vec2 K)
    (ss : List Seg) (contains : Vec2 K → Bool) (T τ₁ τ₂ : GSeg K → K)
    (hclear : ∀ s ∈ ss, clearUpTo half (ss.map (geoOf pos)) (geoOf pos s) (T (geoOf pos s)) = true)
    (hdir : ∀ s ∈ ss, ∀ τ, 0 < τ → τ ≤ T (geoOf pos s) →
      contains (probeAt half τ (geoOf pos s)) =
        evenOddRay (ss.map (geoOf pos)) (probeAt half τ (geoOf pos s)) (segLeft (geoOf pos s)))
    (h₁ : ∀ s ∈ ss, 0 < τ₁ (geoOf pos s) ∧ τ₁ (geoOf pos s) ≤ T (geoOf pos s))
    (h₂ : ∀ s ∈ ss, 0 < τ₂ (geoOf pos s) ∧ τ₂ (geoOf pos s) ≤ T (geoOf pos s)) :
    repairNormals2At contains (fun g => probeAt half (τ₁ g) g) pos ss =
      repairNormals2At contains (fun g => probeAt half (τ₂ g) g) pos ss := by
  apply repairNormals2_congr
  intro f hf
  have hs := mem_of_mem_zip_range hf
  simp only []
  rw [hdir f.2 hs _ (h₁ f.2 hs).1 (h₁ f.2 hs).2, hdir f.2 hs _ (h₂ f.2 hs).1 (h₂ f.2 hs).2]
  exact evenOddRay_probeAt_eq half _ _ _ _ _ (hclear f.2 hs) (h₁ f.2 hs) (h₂ f.2 hs)

/-- **3-D twin of the clearance theorem** (`model3d.Mesh.RepairNormals`): `contains` is the solid
the code asks; `hdir`: on the clear stretches it gives the even–odd count along the normal (for a
normal line that meets no edge; direction independence is the collider's correctness, C07).  Two
versions whose probes lie at parameters `τ₁ g, τ₂ g ∈ (0, T g]` of the normal line through the
centroid (units of the cross product) return the same mesh and count.  The source uses
`τ = ε / |cross|` (distance ε), a version without normalisation `τ = ε` (distance `ε ·` twice the
area of the triangle). -/
theorem repair_normals3_offset_irrelevant_within_clearance (third : K) (pos : Nat → Vec3 K)
    (ts : List Tri) (contains : Vec3 K → Bool) (T τ₁ τ₂ : GTri K → K)
    (hclear : ∀ t ∈ ts, clearUpTo3 third (ts.map (geoOf3 pos)) (geoOf3 pos t) (T (geoOf3 pos t)) = true)
    (hdir : ∀ t ∈ ts, ∀ τ, 0 < τ → τ ≤ T (geoOf3 pos t) →
      contains (probeAt3 third τ (geoOf3 pos t)) =
        evenOddRay3 (ts.map (geoOf3 pos)) (probeAt3 third τ (geoOf3 pos t)) (triCross (geoOf3 pos t)))
    (h₁ : ∀ t ∈ ts, 0 < τ₁ (geoOf3 pos t) ∧ τ₁ (geoOf3 pos t) ≤ T (geoOf3 pos t))
    (h₂ : ∀ t ∈ ts, 0 < τ₂ (geoOf3 pos t) ∧ τ₂ (geoOf3 pos t) ≤ T (geoOf3 pos t)) :
    repairNormals3At contains (fun g => probeAt3 third (τ₁ g) g) pos ts =
      repairNormals3At contains (fun g => probeAt3 third (τ₂ g) g) pos ts := by
  apply repairNormals_congr
  intro f hf
  have hs : f.2 ∈ ts := by
    have : ∀ (l : List Tri) (n : Nat) (f : Face), f ∈ enumFrom n l → f.2 ∈ l := by
      intro l
      induction l with
      | nil => intro n f h; simp [enumFrom] at h
      | cons x xs ih =>
        intro n f h
        simp only [enumFrom, List.mem_cons] at h
        rcases h with rfl | h
        · exact List.mem_cons_self
        · exact List.mem_cons_of_mem _ (ih _ _ h)
    exact this ts 0 f hf
  simp only []
  rw [hdir f.2 hs _ (h₁ f.2 hs).1 (h₁ f.2 hs).2, hdir f.2 hs _ (h₂ f.2 hs).1 (h₂ f.2 hs).2]
  exact evenOddRay3_probeAt3_eq third _ _ _ _ _ (hclear f.2 hs) (h₁ f.2 hs) (h₂ f.2 hs)

/-- Non-vacuity / beyond the clearance in 3-D: a 1000 × 1000 × 1 slab (two big triangles per large
face, the side walls left out of the count along this line); the bottom triangle
`(0,0,0),(0,1000,0),(1000,0,0)` reversed so that its cross product points up: the stretch is clear up
to `1/2000000` (half the thickness in units of the cross product `10⁶`), the probes at `ε/|cross|`
are inside, the probe at parameter `ε = 1/100` is `10⁴` above the slab. -/
example :
    let geo : List (GTri Rat) := [(⟨0,0,0⟩, ⟨1000,0,0⟩, ⟨0,1000,0⟩), (⟨0,0,1⟩, ⟨1000,0,1⟩, ⟨0,1000,1⟩)]
    let g : GTri Rat := (⟨0,0,0⟩, ⟨1000,0,0⟩, ⟨0,1000,0⟩)
    clearUpTo3 (1/3) geo g (1/2000000) = true ∧ clearUpTo3 (1/3) geo g (1/100) = false ∧
    evenOddRay3 geo (probeAt3 (1/3) (1/100000000) g) (triCross g) = true ∧
    probeAt3 (1/3) (1/100) g = ⟨1000/3, 1000/3, 10000⟩ ∧
    evenOddRay3 geo (probeAt3 (1/3) (1/100) g) (triCross g) = false := by
  decide +kernel

/-- The same for `RepairNormals` as its documentation words it (ray "in the direction of the
normal"): no hypothesis on a collider is left. -/
theorem repair_normals2_ray_offset_irrelevant_within_clearance (half : K) (pos : Nat → Vec2 K)
    (ss : List Seg) (T τ₁ τ₂ : GSeg K → K)
    (hclear : ∀ s ∈ ss, clearUpTo half (ss.map (geoOf pos)) (geoOf pos s) (T (geoOf pos s)) = true)
    (h₁ : ∀ s ∈ ss, 0 < τ₁ (geoOf pos s) ∧ τ₁ (geoOf pos s) ≤ T (geoOf pos s))
    (h₂ : ∀ s ∈ ss, 0 < τ₂ (geoOf pos s) ∧ τ₂ (geoOf pos s) ≤ T (geoOf pos s)) :
    repairNormals2Ray half τ₁ pos ss = repairNormals2Ray half τ₂ pos ss := by
  apply repairNormals2_congr
  intro f hf
  have hs := mem_of_mem_zip_range hf
  exact evenOddRay_probeAt_eq half _ _ _ _ _ (hclear f.2 hs) (h₁ f.2 hs) (h₂ f.2 hs)

/-- **The source's `RepairNormals` inside the clearance** (corollary for an exact square root): if
`0 < ε ≤ T g · |g|` for every segment — ε does not exceed the Euclidean clearance — the source
(`probeDoc`) returns what any version with admissible offsets returns, in particular what the driver
computes with the offset `ε / (|n.x| + |n.y|)`. -/
theorem repair_normals2_documented_probe_within_clearance (sqrt : K → K) (half eps : K)
    (pos : Nat → Vec2 K) (ss : List Seg) (contains : Vec2 K → Bool) (T : GSeg K → K) (heps : 0 < eps)
    (hsq : ∀ s ∈ ss, vnorm2 sqrt (segLeft (geoOf pos s)) * vnorm2 sqrt (segLeft (geoOf pos s)) =
      (segLeft (geoOf pos s)).normSq)
    (hpos : ∀ s ∈ ss, 0 < vnorm2 sqrt (segLeft (geoOf pos s)))
    (hclear : ∀ s ∈ ss, clearUpTo half (ss.map (geoOf pos)) (geoOf pos s) (T (geoOf pos s)) = true)
    (hdir : ∀ s ∈ ss, ∀ τ, 0 < τ → τ ≤ T (geoOf pos s) →
      contains (probeAt half τ (geoOf pos s)) =
        evenOddRay (ss.map (geoOf pos)) (probeAt half τ (geoOf pos s)) (segLeft (geoOf pos s)))
    (hT : ∀ s ∈ ss, eps / vnorm2 sqrt (segLeft (geoOf pos s)) ≤ T (geoOf pos s)) :
    repairNormals2At contains (probeDoc sqrt half eps) pos ss =
      repairNormals2At contains
        (fun g => probeAt half (eps / (|(segLeft g).x| + |(segLeft g).y|)) g) pos ss := by
  have hdoc : repairNormals2At contains (probeDoc sqrt half eps) pos ss =
      repairNormals2At contains (fun g => probeAt half (eps / vnorm2 sqrt (segLeft g)) g) pos ss := by
    apply repairNormals2_congr
    intro f _
    simp only [probeDoc_eq_probeAt]
  rw [hdoc]
  apply repair_normals2_offset_irrelevant_within_clearance half pos ss contains T _ _ hclear hdir
  · intro s hs
    exact ⟨div_pos heps (hpos s hs), hT s hs⟩
  · intro s hs
    have hle := l1_offset_le (vnorm2 sqrt (segLeft (geoOf pos s))) eps (segLeft (geoOf pos s)) (hpos s hs)
      (hsq s hs) heps.le
    refine ⟨div_pos heps ?_, le_trans hle (hT s hs)⟩
    have hL := hpos s hs
    have hsq' := hsq s hs
    by_contra hcon
    have h0 : |(segLeft (geoOf pos s)).x| + |(segLeft (geoOf pos s)).y| = 0 :=
      le_antisymm (not_lt.1 hcon) (add_nonneg (abs_nonneg _) (abs_nonneg _))
    have hx : (segLeft (geoOf pos s)).x = 0 := by
      have := abs_nonneg (segLeft (geoOf pos s)).y
      exact abs_eq_zero.1 (by linarith [abs_nonneg (segLeft (geoOf pos s)).x])
    have hy : (segLeft (geoOf pos s)).y = 0 := by
      have := abs_nonneg (segLeft (geoOf pos s)).x
      exact abs_eq_zero.1 (by linarith [abs_nonneg (segLeft (geoOf pos s)).y])
    simp only [Vec2.normSq, hx, hy, mul_zero, add_zero] at hsq'
    have : vnorm2 sqrt (segLeft (geoOf pos s)) = 0 := by
      rcases mul_eq_zero.1 hsq' with h | h <;> exact h
    linarith

/-- **`RepairNormals` restores a correctly oriented mesh from any re-orientation of its segments, as
long as every probe stays inside the clearance of its segment** (the geometric form of
`repair_normals2_restores`: the oracle is now the solid asked about the probe POINT).  `orig` is
any mesh whose normals point out of the solid (`hout`: the probe of every segment is not contained),
`bad` marks the segments that were reversed.  Hypotheses: the offsets `τ g ∈ (0, T g]` do not depend
on the direction of the segment (`ε / |g|` does not); within the parameters `(−T g, T g]` the
segment itself is the only thing that crosses its normal line (`hone`: clearance on BOTH sides);
on that stretch the solid answers like the even–odd count along the normal (`hdir`: the collider
does not look at the orientation of the segments, and its parity does not depend on the ray
direction — C07; checked by the driver on every `rn2` case).  Then `RepairNormals` of the damaged
mesh returns `orig` and the number of reversed segments: the probe of a reversed segment is the
mirror image of the original probe (`probeAt_swapG`), the ray between the two crosses exactly the
segment itself, so the answers are opposite (`evenOddRay_flip_across`). -/
theorem repair_normals2_restores_within_clearance (half : K) (hh : half * 2 = 1) (pos : Nat → Vec2 K)
    (orig : List Seg) (bad : Nat → Bool) (contains : Vec2 K → Bool) (T τ : GSeg K → K)
    (hne : ∀ s ∈ orig, 0 < ((geoOf pos s).2.sub (geoOf pos s).1).normSq)
    (hτ : ∀ s ∈ orig, 0 < τ (geoOf pos s) ∧ τ (geoOf pos s) ≤ T (geoOf pos s))
    (hτsym : ∀ s ∈ orig, τ (swapG (geoOf pos s)) = τ (geoOf pos s))
    (hone : ∀ s ∈ orig, (lineHitsIn (orig.map (geoOf pos)) (segMid half (geoOf pos s))
      (segLeft (geoOf pos s)) (-(T (geoOf pos s))) (T (geoOf pos s))).length = 1)
    (hdir : ∀ s ∈ orig, ∀ t, -(T (geoOf pos s)) ≤ t → t ≤ T (geoOf pos s) → t ≠ 0 →
      contains (probeAt half t (geoOf pos s)) =
        evenOddRay (orig.map (geoOf pos)) (probeAt half t (geoOf pos s)) (segLeft (geoOf pos s)))
    (hout : ∀ s ∈ orig, contains (probeAt half (τ (geoOf pos s)) (geoOf pos s)) = false) :
    repairNormals2At contains (fun g => probeAt half (τ g) g) pos
        (((List.range orig.length).zip orig).map fun f => if bad f.1 then swap f.2 else f.2) =
      (orig, ((List.range orig.length).zip orig).countP fun f => bad f.1) := by
  have hcongr : repairNormals2At contains (fun g => probeAt half (τ g) g) pos
        (((List.range orig.length).zip orig).map fun f => if bad f.1 then swap f.2 else f.2) =
      repairNormals2 (fun f => bad f.1)
        (((List.range orig.length).zip orig).map fun f => if bad f.1 then swap f.2 else f.2) := by
    apply repairNormals2_congr
    intro f hf
    obtain ⟨p, hp, rfl⟩ := mem_zip_damaged hf
    have hs : p.2 ∈ orig := (List.of_mem_zip hp).2
    have hτs := hτ p.2 hs
    cases hb : bad p.1
    · simp only [hb, Bool.false_eq_true, if_false]
      exact hout p.2 hs
    · simp only [hb, if_true, geoOf_swap, hτsym p.2 hs, probeAt_swapG]
      rw [hdir p.2 hs _ (by linarith [hτs.2]) (by linarith [hτs.1, hτs.2]) (by linarith [hτs.1]),
        evenOddRay_flip_across half hh _ _ (List.mem_map.2 ⟨p.2, hs, rfl⟩) (hne p.2 hs) _ _ hτs (hone p.2 hs),
        ← hdir p.2 hs _ (by linarith [hτs.1, hτs.2]) hτs.2 hτs.1.ne', hout p.2 hs]
      rfl
  rw [hcongr]
  exact Prod.ext (repair_normals2_restores orig bad).1 (repair_normals2_restores orig bad).2

/-- Non-vacuity (every hypothesis holds, nothing is assumed about a collider): the single segment
`(0,0) → (4,0)` as `orig`, the solid "odd number of crossings along the normal", `τ = 1/4`,
`T = 1`; reversed, it is turned back. -/
example :
    let pos : Nat → Vec2 Rat := fun i => if i = 0 then ⟨0, 0⟩ else ⟨4, 0⟩
    let solid : Vec2 Rat → Bool := fun p => evenOddRay [(⟨0, 0⟩, ⟨4, 0⟩)] p ⟨0, 4⟩
    repairNormals2At solid (fun g => probeAt (1/2) (1/4) g) pos [(1, 0)] = ([(0, 1)], 1) ∧
    (lineHitsIn [((⟨0, 0⟩, ⟨4, 0⟩) : GSeg Rat)] (segMid (1/2) (⟨0, 0⟩, ⟨4, 0⟩)) (segLeft (⟨0, 0⟩, ⟨4, 0⟩)) (-1) 1).length = 1 ∧
    solid (probeAt (1/2) (1/4) (⟨0, 0⟩, ⟨4, 0⟩)) = false := by
  decide +kernel

/-- **A closed oriented curve crosses every line an even number of times, so the even–odd answer
along a line does not depend on which way one counts.**  For `Surface.InOutOne` soups (`Manifold()`
and no inconsistent vertex, `in_out_one_iff_clean2`) in ANY position — self-crossing or not — and
every line, the number of segments with one end strictly to the left of the line and the other not
is even; hence, for a point that is not itself on a crossing, the crossings in front of it and the
crossings behind it have the same parity.  (One instance of the direction independence that `hdir`
of the clearance theorems assumes of the collider: opposite directions with the same side rule.) -/
theorem closed_curves_cross_every_line_evenly (pos : Nat → Vec2 K) (ss : List Seg) (hio : InOutOne ss)
    (p d : Vec2 K) :
    ((ss.map (geoOf pos)).filter (crossesLine p d)).length % 2 = 0 ∧
    ((∀ g ∈ ss.map (geoOf pos), crossesLine p d g = true → hitParam p d g ≠ 0) →
      evenOddRay (ss.map (geoOf pos)) p d =
        (((ss.map (geoOf pos)).filter fun g => crossesLine p d g && decide (hitParam p d g < 0)).length % 2 == 1)) :=
  ⟨crossings_even_of_inOutOne pos ss hio p d, evenOddRay_eq_backward pos ss hio p d⟩

/-- Non-vacuity: the unit square, the line through `(1/2, 1/3)` along `(1, 1/7)` crosses two sides;
one in front, one behind: inside both ways.  An open polyline has an odd crossing count. -/
example :
    let pos : Nat → Vec2 Rat := fun i => [⟨0,0⟩, ⟨1,0⟩, ⟨1,1⟩, ⟨0,1⟩].getD i ⟨0,0⟩
    inOutOne [(0,1),(1,2),(2,3),(3,0)] = true ∧
    (([(0,1),(1,2),(2,3),(3,0)].map (geoOf pos)).filter (crossesLine ⟨1/2, 1/3⟩ ⟨1, 1/7⟩)).length = 2 ∧
    evenOddRay ([(0,1),(1,2),(2,3),(3,0)].map (geoOf pos)) ⟨1/2, 1/3⟩ ⟨1, 1/7⟩ = true ∧
    (([(0,1),(1,2),(2,3)].map (geoOf pos)).filter (crossesLine ⟨1/2, 1/3⟩ ⟨1, 1/7⟩)).length = 1 := by
  decide +kernel

/-- **C11-11 at model level** (the 1000 × 1 plate with all four sides reversed, `epsilon = 1/100`,
the even–odd solid counted along a fixed direction): with the probe of the source all four
segments are reversed and the result is the outward-oriented closed curve; with the probe that is
not normalised the two long sides get the probes `(500, 10)` and `(500, −9)` — outside the plate —
and are kept: two flips, and the result is not consistently oriented. -/
theorem repair_normals2_unnormalised_probe_unsound :
    let pos : Nat → Vec2 Rat := fun i => [⟨0,0⟩, ⟨1000,0⟩, ⟨1000,1⟩, ⟨0,1⟩].getD i ⟨0,0⟩
    let dmg : List Seg := [(3,0),(2,3),(1,2),(0,1)]
    let sqrt : Rat → Rat := fun x => if x = 1000000 then 1000 else 1
    let solid := evenOddSolid pos dmg ⟨1, 1/3⟩
    repairNormals2At solid (probeDoc sqrt (1/2) (1/100)) pos dmg = ([(0,3),(3,2),(2,1),(1,0)], 4) ∧
    closedCurves [(0,3),(3,2),(2,1),(1,0)] = true ∧
    repairNormals2At solid (probeAt (1/2) (1/100)) pos dmg = ([(0,3),(2,3),(2,1),(0,1)], 2) ∧
    closedCurves [(0,3),(2,3),(2,1),(0,1)] = false ∧
    (dmg.map fun s => probeAt (1/2) (1/100) (geoOf pos s)) = [⟨1/100, 1/2⟩, ⟨500, -9⟩, ⟨99999/100, 1/2⟩, ⟨500, 10⟩] := by
  decide +kernel

end probe

/-! ## `Mesh.SelfIntersections` agrees with its exhaustive definition (round 7, seeded change C11-13)

`SelfIntersections` asks the hierarchy of `MeshToCollider(m)` for every face.  Models: `Model/MeshDiagSelf.lean` on top of
C07's `triTri` (`Triangle.TriangleCollisions`), `bvhTriTri` (`joinedMultiCollider.TriangleCollisions` over an n-ary
hierarchy) and `boxOverlap3` (its bounds test `min > max`), reused read-only. -/
section selfint
open M3d.Col M3d.MeshDiagSelf
variable {K : Type} [Field K] [LinearOrder K] [IsStrictOrderedRing K]

/-- **`Mesh.SelfIntersections()` = the exhaustive count.**  For every hierarchy `tree` over the faces (any shape, any
width, any grouping — what `MeshToCollider` builds is one of them), every order in which `m.Iterate` visits the faces,
over every ordered field with an exact square root: the sum over the faces `q` of
`len(collider.TriangleCollisions(q))` is the number of ordered pairs `(T, q)` of faces for which
`T.TriangleCollisions(q)` reports a segment.  The bounds test of the hierarchy (`min > max` on some axis) never hides
a pair: a reported pair has a common point, which lies in the bounding box of the query triangle and in the bounds of
every node that holds the other triangle — also when one of the boxes has NO thickness (faces in an axis-aligned
plane), where `min = max` on that axis. -/
theorem self_intersections_eq_exhaustive {sqrtF : K → K} (hs : SqrtOK sqrtF) (eps : K) (heps : 0 < eps)
    (tree : WTree (Tri3 K)) (order faces : List (Tri3 K)) (ht : tree.leaves.Perm faces) (ho : order.Perm faces) :
    selfIntersections sqrtF eps tree order = selfIntersectionsDef sqrtF eps faces :=
  selfIntersections_eq hs eps heps tree order faces ht ho

/-- **What is counted.**  A pair `(T, q)` counts only if the two faces share at most one vertex and cut through each
other: they have two DIFFERENT common points `p1 ≠ p2`, the ends of the reported segment (all points between them are
common too, `M3d.Col.triTriCore_some`). -/
theorem self_intersections_counts_crossing_pairs {sqrtF : K → K} (hs : SqrtOK sqrtF) (eps : K) (heps : 0 < eps)
    (T q : Tri3 K) (s : V3 K × V3 K) (h : triTri sqrtF eps T q = some s) :
    triInCommon T q ≤ 1 ∧ ∃ p1 p2, p1 ≠ p2 ∧ (InTri T p1 ∧ InTri q p1) ∧ (InTri T p2 ∧ InTri q p2) ∧
      (s = (p1, p2) ∨ s = (p2, p1)) :=
  triTri_some_crossing hs eps heps T q s h

/-- **A mesh whose faces meet only in single points reports 0** — whatever the hierarchy: if no two faces have two
different points in common (faces of an embedded surface sharing an edge are excluded by `inCommon > 1`: hypothesis
only for pairs with at most one common vertex), `SelfIntersections()` is 0; and `SelfIntersections() = 0` iff
`Triangle.TriangleCollisions` reports nothing for every ordered pair of faces. -/
theorem self_intersections_zero_iff {sqrtF : K → K} (hs : SqrtOK sqrtF) (eps : K) (heps : 0 < eps)
    (tree : WTree (Tri3 K)) (order faces : List (Tri3 K)) (ht : tree.leaves.Perm faces) (ho : order.Perm faces) :
    (selfIntersections sqrtF eps tree order = 0 ↔ ∀ T ∈ faces, ∀ q ∈ faces, triTri sqrtF eps T q = none) ∧
    ((∀ T ∈ faces, ∀ q ∈ faces, triInCommon T q ≤ 1 →
        ∀ p1 p2, InTri T p1 ∧ InTri q p1 → InTri T p2 ∧ InTri q p2 → p1 = p2) →
      selfIntersections sqrtF eps tree order = 0) := by
  rw [self_intersections_eq_exhaustive hs eps heps tree order faces ht ho, selfIntersectionsDef_eq_zero_iff]
  refine ⟨Iff.rfl, fun h T hT q hq => ?_⟩
  cases hq' : triTri sqrtF eps T q with
  | none => rfl
  | some s =>
    obtain ⟨g0, p1, p2, hne, h1, h2, _⟩ := triTri_some_crossing hs eps heps T q s hq'
    exact absurd (h T hT q hq g0 p1 p2 h1 h2) hne

/-- **C11-13 at model level, and non-vacuity** (`decide +kernel` over `Rat`): the face `T` of the plane `z = 0` and the
face `q` of the plane `x = 1/2` cut through each other along the segment `(1/2, 1/4, 0) – (1/2, 1, 0)`.  The definition
counts 2 (both ordered pairs), the hierarchy of the source — flat or split — counts 2; a bounds test that asks for a
common VOLUME of the boxes (`min >= max` rejects) drops both queries at the root, because the bounding box of each
face has no thickness along one axis: 0 self-intersections on a mesh that does intersect itself.  (`sqrtF` only
scales the normals here: the two planes are perpendicular.) -/
theorem self_intersections_volume_gate_unsound :
    let T : Tri3 Rat := (⟨0,0,0⟩, ⟨2,0,0⟩, ⟨0,2,0⟩)
    let q : Tri3 Rat := (⟨1/2,1/4,-1⟩, ⟨1/2,1/4,1⟩, ⟨1/2,1,0⟩)
    let sq : Rat → Rat := fun x => x
    (triTri sq (1/100000000) T q).map (fun s => (s.1.x, s.1.y, s.1.z, s.2.x, s.2.y, s.2.z)) =
      some (1/2, 1/4, 0, 1/2, 1, 0) ∧
    selfIntersectionsDef sq (1/100000000) [T, q] = 2 ∧
    selfIntersections sq (1/100000000) (flatTree [T, q]) [T, q] = 2 ∧
    selfIntersections sq (1/100000000) (.nodeCons (flatTree [q]) (.nodeCons (flatTree [T]) .nil)) [q, T] = 2 ∧
    selfIntersectionsVol sq (1/100000000) (flatTree [T, q]) [T, q] = 0 := by
  decide +kernel

end selfint

end M3d.C11
