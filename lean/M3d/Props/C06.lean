import M3d.Lemmas.SdfRect
import M3d.Lemmas.SdfSeg
import M3d.Lemmas.SdfRound
import M3d.Lemmas.SdfNormals
import M3d.Lemmas.SdfMisc
import M3d.Lemmas.SdfProfile
import M3d.Lemmas.SdfTri
import M3d.Lemmas.SdfTriFull
import M3d.Lemmas.SdfXform
import M3d.Lemmas.SdfMesh
import M3d.Lemmas.SdfTriDeg
import M3d.Lemmas.SdfTriDeg2
import Mathlib.Analysis.Real.Sqrt
import Mathlib.Algebra.Order.Field.Rat
import Mathlib.Tactic.NormNum
/-!
# C06 — signed distance fields report true distance, nearest point and normal

Property theorems only.  Model: `M3d/Model/Sdf.lean` (transcribes `genericSDF` of `Sphere/Circle`, `Rect`,
`Capsule`, `Cylinder`, `Cone`, `Torus`, `filledCircleDist`, `safeNormal`, `Segment.Closest`,
`Triangle.Closest/Dist`, `meshSDF`, `profileSDF`, `profilePointSDF`, `colliderSDF`, `TransformSDF`,
`transformedCollider.SphereCollision` over `Translate`/`Scale`/`Rotation`/`JoinedTransform`; the driver runs the very
same definitions at `Float` bit-for-bit against the Go code and at `ℚ`).  Helper lemmas: `M3d/Lemmas/Sdf*.lean`.

Everything is proved for **every** linear ordered field `K` and every `E : Env K` with `E.Exact`
(`E.sqrt` an exact square root on the non-negatives, `0 < 1e-5 < 1`, `0.5 · 2 = 1`) — satisfied by `ℝ` with
`Real.sqrt` (first `example`).  Distances are stated through their squares wherever possible.

Vocabulary: `InBox3 lo hi q` (`lo ≤ q ≤ hi`), `OnFace3 lo hi q f` (in the box, coordinate `f.1` at the
`MinVal` (`f.2 = false`) / `MaxVal` (`f.2 = true`) plane), `OnBoundary3` (on some face), `faceDist3 lo hi c f`
(distance from an inside point to the plane of `f`), `faceNormal3 f` (`±e_axis`), `V3.lerp s0 s1 t = s0 + t (s1 - s0)`,
`triPoint t0 t1 t2 a b = t0 + a (t1 - t0) + b (t2 - t0)`, `InTri a b` (`a, b ≥ 0`, `a + b ≤ 1`).
-/
namespace M3d.C06
open M3d.Sdf

set_option linter.unusedSectionVars false

variable {K : Type} [Field K] [LinearOrder K] [IsStrictOrderedRing K]

/-- Non-vacuity of the standing hypothesis: over `ℝ`, `math.Sqrt ↦ Real.sqrt` is `Exact`. -/
example : (⟨Real.sqrt, 1 / 100000, 1 / 2⟩ : Env ℝ).Exact :=
  ⟨fun s _ => Real.sqrt_nonneg s, fun _ hs => Real.mul_self_sqrt hs, by norm_num, by norm_num, by norm_num⟩

/-! ## Rect -/

/-- **3-D `Rect.{SDF, PointSDF, NormalSDF}` are exact** (`MinVal ≤ MaxVal`).
* `Contains(c)` ⇔ `MinVal ≤ c ≤ MaxVal`;
* **inside**: the value is `≥ 0`, it is the distance to the plane of a face `f` and `≤` the distance to the plane
  of every face (the minimum over the six faces); the normal is `±e_axis` of that face `f`; the reported point
  lies on that face, at squared distance `value²`; and no point of the boundary is closer;
* **outside**: the value is `< 0`, `value²` is the squared distance to the reported point, no point of the box is
  closer than the reported point, and the normal is `±e_axis` of a face that contains the reported point. -/
theorem rect_sdf_exact {E : Env K} (hE : E.Exact) (lo hi c : V3 K)
    (hx : lo.x ≤ hi.x) (hy : lo.y ≤ hi.y) (hz : lo.z ≤ hi.z) :
    (rectContains3 lo hi c = true ↔ InBox3 lo hi c) ∧
    (InBox3 lo hi c → ∃ f : Face, f.1 < 3 ∧
      (rectOut3 E lo hi c).val = faceDist3 lo hi c f ∧ 0 ≤ (rectOut3 E lo hi c).val ∧
      (∀ g : Face, g.1 < 3 → (rectOut3 E lo hi c).val ≤ faceDist3 lo hi c g) ∧
      (rectOut3 E lo hi c).n = faceNormal3 f ∧ OnFace3 lo hi (rectOut3 E lo hi c).p f ∧
      c.sqDist (rectOut3 E lo hi c).p = (rectOut3 E lo hi c).val * (rectOut3 E lo hi c).val ∧
      ∀ q, OnBoundary3 lo hi q → (rectOut3 E lo hi c).val * (rectOut3 E lo hi c).val ≤ c.sqDist q) ∧
    (¬ InBox3 lo hi c →
      (rectOut3 E lo hi c).val < 0 ∧
      (rectOut3 E lo hi c).val * (rectOut3 E lo hi c).val = c.sqDist (rectOut3 E lo hi c).p ∧
      (∀ q, InBox3 lo hi q → c.sqDist (rectOut3 E lo hi c).p ≤ c.sqDist q) ∧
      ∃ f : Face, (rectOut3 E lo hi c).n = faceNormal3 f ∧ OnFace3 lo hi (rectOut3 E lo hi c).p f) :=
  ⟨rectContains3_iff lo hi c, rectOut3_inside E lo hi c, rectOut3_outside hE lo hi c hx hy hz⟩

/-- **2-D `Rect`**: the same statement for `model2d.Rect` (four faces). -/
theorem rect2_sdf_exact {E : Env K} (hE : E.Exact) (lo hi c : V2 K) (hx : lo.x ≤ hi.x) (hy : lo.y ≤ hi.y) :
    (rectContains2 lo hi c = true ↔ InBox2 lo hi c) ∧
    (InBox2 lo hi c → ∃ f : Face, f.1 < 2 ∧
      (rectOut2 E lo hi c).val = faceDist2 lo hi c f ∧ 0 ≤ (rectOut2 E lo hi c).val ∧
      (∀ g : Face, g.1 < 2 → (rectOut2 E lo hi c).val ≤ faceDist2 lo hi c g) ∧
      (rectOut2 E lo hi c).n = faceNormal2 f ∧ OnFace2 lo hi (rectOut2 E lo hi c).p f ∧
      c.sqDist (rectOut2 E lo hi c).p = (rectOut2 E lo hi c).val * (rectOut2 E lo hi c).val ∧
      ∀ q, OnBoundary2 lo hi q → (rectOut2 E lo hi c).val * (rectOut2 E lo hi c).val ≤ c.sqDist q) ∧
    (¬ InBox2 lo hi c →
      (rectOut2 E lo hi c).val < 0 ∧
      (rectOut2 E lo hi c).val * (rectOut2 E lo hi c).val = c.sqDist (rectOut2 E lo hi c).p ∧
      (∀ q, InBox2 lo hi q → c.sqDist (rectOut2 E lo hi c).p ≤ c.sqDist q) ∧
      ∃ f : Face, (rectOut2 E lo hi c).n = faceNormal2 f ∧ OnFace2 lo hi (rectOut2 E lo hi c).p f) :=
  ⟨rectContains2_iff lo hi c, rectOut2_inside E lo hi c, rectOut2_outside hE lo hi c hx hy⟩

example : InBox3 (⟨0, 0, 0⟩ : V3 ℚ) ⟨2, 4, 6⟩ ⟨1, 1, 1⟩ ∧ ¬ InBox3 (⟨0, 0, 0⟩ : V3 ℚ) ⟨2, 4, 6⟩ ⟨3, 1, 1⟩ := by
  constructor <;> norm_num [InBox3]

/-! ## Sphere / Circle -/

/-- **`Sphere.{SDF, PointSDF, NormalSDF}` are exact.**  With `ρ = ‖c - Center‖` (`ρ ≥ 0`, `ρ² = ‖c - Center‖²`):
the value of all three is `Radius - ρ`; the normal `n` is a unit vector with `c - Center = ρ n` (the outward
direction through `c`); the point is `Center + Radius n` (on the sphere) and `‖c - point‖² = value²`.  Includes the
documented degenerate query `c = Center` (`ρ = 0`, arbitrary direction `(1,0,0)`). -/
theorem sphere_sdf_exact {E : Env K} (hE : E.Exact) (center c : V3 K) (r : K) :
    ∃ ρ, 0 ≤ ρ ∧ ρ * ρ = c.sqDist center ∧ sphereSDF E center r c = r - ρ ∧
      (sphereOut E center r c).val = r - ρ ∧ (sphereOut E center r c).n.normSq = 1 ∧
      (sphereOut E center r c).p = center.add ((sphereOut E center r c).n.scale r) ∧
      c.sub center = (sphereOut E center r c).n.scale ρ ∧
      c.sqDist (sphereOut E center r c).p = (sphereOut E center r c).val * (sphereOut E center r c).val :=
  sphereOut_spec hE center c r

/-- **`Circle`** (model2d): the same statement. -/
theorem circle_sdf_exact {E : Env K} (hE : E.Exact) (center c : V2 K) (r : K) :
    ∃ ρ, 0 ≤ ρ ∧ ρ * ρ = c.sqDist center ∧ circleSDF E center r c = r - ρ ∧
      (circleOut E center r c).val = r - ρ ∧ (circleOut E center r c).n.normSq = 1 ∧
      (circleOut E center r c).p = center.add ((circleOut E center r c).n.scale r) ∧
      c.sub center = (circleOut E center r c).n.scale ρ ∧
      c.sqDist (circleOut E center r c).p = (circleOut E center r c).val * (circleOut E center r c).val :=
  circleOut_spec hE center c r

/-! ## Segment -/

/-- **3-D `Segment.Closest` is the minimiser of the squared distance over the segment** (`s0 ≠ s1`): the
returned point is `s0 + t (s1 - s0)` for some `t ∈ [0,1]`, no point of the segment is closer to `c`, and the code
(normalised direction, `mag` compared with `norm`) computes the same point as the `sqrt`-free form the exact
correspondence runs. -/
theorem segment_closest_optimal {E : Env K} (hE : E.Exact) (s0 s1 c : V3 K) (hne : 0 < (s1.sub s0).normSq) :
    (∃ t, 0 ≤ t ∧ t ≤ 1 ∧ segClosest3 E s0 s1 c = V3.lerp s0 s1 t) ∧
    (∀ t, 0 ≤ t → t ≤ 1 → (segClosest3 E s0 s1 c).sqDist c ≤ (V3.lerp s0 s1 t).sqDist c) ∧
    segClosest3 E s0 s1 c = segClosestQ3 s0 s1 c := by
  rw [segClosest3_eq_Q hE s0 s1 c hne]
  exact ⟨segClosestQ3_mem s0 s1 c hne, segClosestQ3_le s0 s1 c hne, rfl⟩

/-- **2-D `Segment.Closest`**: the same statement. -/
theorem segment2_closest_optimal {E : Env K} (hE : E.Exact) (s0 s1 c : V2 K) (hne : 0 < (s1.sub s0).normSq) :
    (∃ t, 0 ≤ t ∧ t ≤ 1 ∧ segClosest2 E s0 s1 c = V2.lerp s0 s1 t) ∧
    (∀ t, 0 ≤ t → t ≤ 1 → (segClosest2 E s0 s1 c).sqDist c ≤ (V2.lerp s0 s1 t).sqDist c) ∧
    segClosest2 E s0 s1 c = segClosestQ2 s0 s1 c := by
  rw [segClosest2_eq_Q hE s0 s1 c hne]
  exact ⟨segClosestQ2_mem s0 s1 c hne, segClosestQ2_le s0 s1 c hne, rfl⟩

example : 0 < ((⟨1, 2, 2⟩ : V3 ℚ).sub ⟨0, 0, 0⟩).normSq := by norm_num [V3.sub, V3.normSq]

/-! ## Triangle -/

/-- **3-D `Triangle.Closest` per region** (non-degenerate triangle: the matrix `(v1 v2 n)` is invertible and the
edges have positive length).
* If the `components` test succeeds, the returned point is `t0 + a v1 + b v2` with `(a, b)` in the triangle, and
  it is the closest point of the *whole plane* of the triangle, hence of the triangle.
* Otherwise the returned point lies on an edge and no point of any of the three edges is closer.

(`triangle_closest_optimal` below lifts the second case to the whole triangle.) -/
theorem triangle_closest_regions {E : Env K} (hE : E.Exact) (t0 t1 t2 c : V3 K)
    (hdet : (M3.ofColumns (t1.sub t0) (t2.sub t0) (triNormal E t0 t1 t2)).det ≠ 0)
    (h01 : 0 < (t1.sub t0).normSq) (h12 : 0 < (t2.sub t1).normSq) (h20 : 0 < (t0.sub t2).normSq) :
    (triInside (triComponents E t0 t1 t2 c) = true →
      (∃ a b, InTri a b ∧ triClosest E t0 t1 t2 c = triPoint t0 t1 t2 a b) ∧
      ∀ a' b', c.sqDist (triClosest E t0 t1 t2 c) ≤ c.sqDist (triPoint t0 t1 t2 a' b')) ∧
    (triInside (triComponents E t0 t1 t2 c) = false →
      (∃ t, 0 ≤ t ∧ t ≤ 1 ∧ (triClosest E t0 t1 t2 c = V3.lerp t0 t1 t ∨
        triClosest E t0 t1 t2 c = V3.lerp t1 t2 t ∨ triClosest E t0 t1 t2 c = V3.lerp t2 t0 t)) ∧
      ∀ t, 0 ≤ t → t ≤ 1 →
        (triClosest E t0 t1 t2 c).sqDist c ≤ (V3.lerp t0 t1 t).sqDist c ∧
        (triClosest E t0 t1 t2 c).sqDist c ≤ (V3.lerp t1 t2 t).sqDist c ∧
        (triClosest E t0 t1 t2 c).sqDist c ≤ (V3.lerp t2 t0 t).sqDist c) := by
  constructor
  · intro hin
    have hcl : triClosest E t0 t1 t2 c =
        triPoint t0 t1 t2 (triComponents E t0 t1 t2 c).x (triComponents E t0 t1 t2 c).y := by
      unfold triClosest; simp only [hin, if_true]; rfl
    refine ⟨⟨_, _, (triInside_iff _).mp hin, hcl⟩, ?_⟩
    intro a' b'
    have hdec := triComponents_decomp E t0 t1 t2 c hdet
    obtain ⟨o1, o2⟩ := triNormal_orth E t0 t1 t2
    have := tri_projection_optimal t0 t1 t2 (triNormal E t0 t1 t2) (triComponents E t0 t1 t2 c).x
      (triComponents E t0 t1 t2 c).y (triComponents E t0 t1 t2 c).z o1 o2 a' b'
    rw [← hdec] at this
    rw [hcl]; exact this
  · intro hout
    have hcl : triClosest E t0 t1 t2 c = (triEdgeClosest E t0 t1 t2 c).2 := by
      unfold triClosest; simp only [hout, Bool.false_eq_true, if_false]
    rw [hcl]
    exact triEdgeClosest_optimal hE t0 t1 t2 c h01 h12 h20

/-- **3-D `Triangle.Closest` is the projection onto the triangle** (non-degenerate triangle): the returned point
is a point `t0 + a v1 + b v2` of the triangle (`a, b ≥ 0`, `a + b ≤ 1`) and no point of the triangle is closer to
`c`.  (Edge region: when the orthogonal projection of `c` onto the plane falls outside the triangle, the segment
from it to any point of the triangle crosses an edge at a point that is at least as close.) -/
theorem triangle_closest_optimal {E : Env K} (hE : E.Exact) (t0 t1 t2 c : V3 K)
    (hdet : (M3.ofColumns (t1.sub t0) (t2.sub t0) (triNormal E t0 t1 t2)).det ≠ 0)
    (h01 : 0 < (t1.sub t0).normSq) (h12 : 0 < (t2.sub t1).normSq) (h20 : 0 < (t0.sub t2).normSq) :
    (∃ a b, InTri a b ∧ triClosest E t0 t1 t2 c = triPoint t0 t1 t2 a b) ∧
    ∀ a' b', InTri a' b' → (triClosest E t0 t1 t2 c).sqDist c ≤ (triPoint t0 t1 t2 a' b').sqDist c := by
  obtain ⟨hreg1, hreg2⟩ := triangle_closest_regions hE t0 t1 t2 c hdet h01 h12 h20
  by_cases hin : triInside (triComponents E t0 t1 t2 c) = true
  · obtain ⟨hm, ho⟩ := hreg1 hin
    refine ⟨hm, fun a' b' _ => ?_⟩
    rw [V3.sqDist_comm, V3.sqDist_comm _ c]; exact ho a' b'
  · have hout : triInside (triComponents E t0 t1 t2 c) = false := by simpa using hin
    obtain ⟨⟨t, ht0, ht1, hm⟩, ho⟩ := hreg2 hout
    constructor
    · rcases hm with h | h | h
      · exact ⟨t, 0, ⟨ht0, le_rfl, by linarith⟩, by rw [h, ((triPoint_edges t0 t1 t2 t 0).1 rfl)]⟩
      · exact ⟨1 - t, t, ⟨by linarith, ht0, by linarith⟩, by rw [h, ((triPoint_edges t0 t1 t2 (1 - t) t).2.2 (by ring))]⟩
      · refine ⟨0, 1 - t, ⟨le_rfl, by linarith, by linarith⟩, ?_⟩
        rw [h, ((triPoint_edges t0 t1 t2 0 (1 - t)).2.1 rfl)]; congr 1; ring
    · intro a' b' hin'
      obtain ⟨o1, o2⟩ := triNormal_orth E t0 t1 t2
      have hnot : ¬ InTri (triComponents E t0 t1 t2 c).x (triComponents E t0 t1 t2 c).y := by
        rw [← triInside_iff]; simpa using hin
      exact edge_optimal_imp_triangle_optimal t0 t1 t2 (triNormal E t0 t1 t2) c _ _ _ _ o1 o2
        (triComponents_decomp E t0 t1 t2 c hdet) hnot ho a' b' hin'

/-! ## Capsule -/

/-- **`Capsule.SDF = Radius - (distance to the segment P1 P2)`** in every region of the case split (both caps,
the end point itself, the middle): there is a point `q = P1 + t (P2 - P1)`, `t ∈ [0,1]`, of the segment such that
no point of the segment is closer to `c`, and the value is `Radius - ‖c - q‖`. -/
theorem capsule_sdf_exact {E : Env K} (hE : E.Exact) (p1 p2 c : V3 K) (r : K) (hne : 0 < (p2.sub p1).normSq) :
    ∃ q : V3 K, (∃ t, 0 ≤ t ∧ t ≤ 1 ∧ q = V3.lerp p1 p2 t) ∧
      (∀ t, 0 ≤ t → t ≤ 1 → q.sqDist c ≤ (V3.lerp p1 p2 t).sqDist c) ∧
      (capsuleOut3 E p1 p2 r c).val = r - E.sqrt (c.sqDist q) :=
  ⟨segClosestQ3 p1 p2 c, segClosestQ3_mem p1 p2 c hne, segClosestQ3_le p1 p2 c hne, capsuleOut3_val hE p1 p2 c r hne⟩

/-- **2-D `Capsule`**: the same statement. -/
theorem capsule2_sdf_exact {E : Env K} (hE : E.Exact) (p1 p2 c : V2 K) (r : K) (hne : 0 < (p2.sub p1).normSq) :
    ∃ q : V2 K, (∃ t, 0 ≤ t ∧ t ≤ 1 ∧ q = V2.lerp p1 p2 t) ∧
      (∀ t, 0 ≤ t → t ≤ 1 → q.sqDist c ≤ (V2.lerp p1 p2 t).sqDist c) ∧
      (capsuleOut2 E p1 p2 r c).val = r - E.sqrt (c.sqDist q) :=
  ⟨segClosestQ2 p1 p2 c, segClosestQ2_mem p1 p2 c hne, segClosestQ2_le p1 p2 c hne, capsuleOut2_val hE p1 p2 c r hne⟩

/-! ## Normals of Cylinder, Cone, Torus -/

/-- **Cylinder (and capsule) side: the reported normal is the outward unit normal.**  With the unit axis `a`,
`d = a · (c - P1)` and `δ = c - (P1 + d a) ≠ 0` (query off the axis), `safeNormal(δ, b1, a)` is a unit vector,
orthogonal to both tangent directions of the side (`a` and `a × n`), and `δ = ‖δ‖ n` with `‖δ‖ > 0`: it points
from the axis through the nearest point towards the query side. -/
theorem cylinder_normal_is_gradient {E : Env K} (hE : E.Exact) (p1 axis c : V3 K) (ha : axis.normSq = 1)
    (hδ : 0 < (c.sub (p1.add (axis.scale (axis.dot (c.sub p1))))).normSq) :
    let δ := c.sub (p1.add (axis.scale (axis.dot (c.sub p1))))
    let n := sideNormal3 E p1 axis (axis.dot (c.sub p1)) c
    n.normSq = 1 ∧ n.dot axis = 0 ∧ n.dot (axis.cross n) = 0 ∧ 0 < δ.norm E ∧ δ = n.scale (δ.norm E) :=
  sideNormal3_spec hE p1 axis c ha hδ

/-- **Cylinder end caps.**  The axis the code normalises, `(P2 - P1)/‖P2 - P1‖`, is a unit vector; the cap normal
at `P2` (`axis`) has positive dot product with `P2 - P1` and the cap normal at `P1` (`-axis`) with `P1 - P2`
(outward); and `filledCircleDist` either keeps the previous candidate or reports exactly that cap normal. -/
theorem cylinder_cap_normal_outward {E : Env K} (hE : E.Exact) (p1 p2 : V3 K) (hne : 0 < (p2.sub p1).normSq)
    (c center ax : V3 K) (radius : K) (st : St K) :
    (let axis := (p2.sub p1).scale (1 / (p2.sub p1).norm E)
     axis.normSq = 1 ∧ 0 < axis.dot (p2.sub p1) ∧ 0 < (axis.scale (-1)).dot (p1.sub p2)) ∧
    (filledCircleDist E c center ax radius st = st ∨ (filledCircleDist E c center ax radius st).n = ax) :=
  ⟨axis_spec hE p1 p2 hne, filledCircleDist_normal E c center ax radius st⟩

/-- **Cone, slanted side (repaired code): the reported normal is the outward unit normal.**  `H = Tip - Base ≠ 0`,
`a` the radial unit vector computed by the code (`a · a = 1`, `a · H = 0`), `R` the radius: the normal
`normalize(a ‖H‖ + H R/‖H‖)` is a unit vector orthogonal to the generator `Tip - (Base + R a)` and to the
circumferential direction `H × a` (the two tangent directions of the side at the nearest point), and has
positive dot product with the outward radial direction. -/
theorem cone_normal_is_gradient {E : Env K} (hE : E.Exact) (tip base a : V3 K) (r : K)
    (hH : 0 < (tip.sub base).normSq) (ha1 : a.normSq = 1) (ha2 : a.dot (tip.sub base) = 0) :
    let n := coneSideNormal E tip base r a
    n.normSq = 1 ∧ n.dot ((tip.sub base).sub (a.scale r)) = 0 ∧ n.dot ((tip.sub base).cross a) = 0 ∧ 0 < n.dot a :=
  coneSideNormal_spec hE tip base a r hH ha1 ha2

/-- The radial vector the code feeds into the cone normal (`safeNormal(p - Base, fallback, Tip - Base)`) does
satisfy the hypotheses of `cone_normal_is_gradient`, provided the `OrthoBasis` fallback is a unit vector
orthogonal to the centre line. -/
theorem cone_radial_unit_orth {E : Env K} (hE : E.Exact) (tip base p : V3 K) (hH : 0 < (tip.sub base).normSq)
    (hfb1 : ((tip.sub base).orthoBasis E).1.normSq = 1)
    (hfb2 : (tip.sub base).dot ((tip.sub base).orthoBasis E).1 = 0) :
    (coneRadial E tip base p).normSq = 1 ∧ (coneRadial E tip base p).dot (tip.sub base) = 0 :=
  coneRadial_spec hE tip base p hH hfb1 hfb2

/-- **Defect F6 (search theorem).**  On the model of the code *before* the repair (`normalize(a R + H)`, radius
and height swapped) the normal is not orthogonal to the generator of the side whenever `‖H‖² ≠ R²`. -/
theorem cone_old_normal_not_orthogonal {E : Env K} (hE : E.Exact) (tip base a : V3 K) (r : K)
    (ha1 : a.normSq = 1) (ha2 : a.dot (tip.sub base) = 0) (hHR : (tip.sub base).normSq ≠ r * r)
    (hm : 0 < ((a.scale r).add (tip.sub base)).normSq) :
    (coneSideNormalOld E tip base r a).dot ((tip.sub base).sub (a.scale r)) ≠ 0 :=
  coneSideNormalOld_not_orth hE tip base a r ha1 ha2 hHR hm

/-- the documented failing input: `Cone{Tip:(0,0,4), Base:0, Radius:1}`, radial direction `(1,0,0)` -/
example : (⟨1, 0, 0⟩ : V3 ℚ).normSq = 1 ∧ (⟨1, 0, 0⟩ : V3 ℚ).dot ((⟨0, 0, 4⟩ : V3 ℚ).sub ⟨0, 0, 0⟩) = 0 ∧
    ((⟨0, 0, 4⟩ : V3 ℚ).sub ⟨0, 0, 0⟩).normSq ≠ 1 * 1 := by
  norm_num [V3.normSq, V3.dot, V3.sub]

/-- **Torus: the reported normal is the outward unit normal.**  `rp` the nearest point of the centre ring,
`A` the axis (`A ≠ 0`, `rp × A ≠ 0`): the normal is a unit vector orthogonal to the circumferential tangent `rp × A`
(and to the tangent of the tube circle `n × (rp × A)`); and for a query `centered = k rp + z A` off the ring it is
`(centered - rp)/‖centered - rp‖`, with positive dot product with the direction from the tube centre to the query. -/
theorem torus_normal_is_gradient {E : Env K} (hE : E.Exact) (A rp centered : V3 K) (hA : 0 < A.normSq)
    (hinv : 0 < (rp.cross A).normSq) :
    ((torusNormal E A rp centered).normSq = 1 ∧ (rp.cross A).dot (torusNormal E A rp centered) = 0 ∧
      (torusNormal E A rp centered).dot ((torusNormal E A rp centered).cross (rp.cross A)) = 0) ∧
    (∀ k z : K, centered = (rp.scale k).add (A.scale z) → 0 < (centered.sub rp).normSq →
      torusNormal E A rp centered = (centered.sub rp).scale (1 / (centered.sub rp).norm E) ∧
      0 < (torusNormal E A rp centered).dot (centered.sub rp)) :=
  ⟨torusNormal_unit_orth hE A rp centered hA hinv, fun k z h1 h2 => torusNormal_outward hE A rp centered k z h1 h2⟩

/-! ## Extruded profiles -/

/-- **`profileSDF.SDF`: the case analysis is the distance to the extruded boundary.**  Given the value `s` of a
true 2-D SDF at `c.XY()` and `MinZ ≤ MaxZ`, the square of the returned value is the minimum over the three pieces
of the boundary (side = 2-D boundary × `[MinZ, MaxZ]`, bottom cap, top cap) of the squared distance to that piece,
and the value is `≥ 0` exactly inside (`s > 0` and `MinZ ≤ z ≤ MaxZ`), `≤ 0` otherwise. -/
theorem profile_sdf_exact {E : Env K} (hE : E.Exact) (lo hi s z : K) (h : lo ≤ hi) :
    profileSDF E lo hi s z * profileSDF E lo hi s z = profBoundarySq lo hi s z ∧
    ((0 < s ∧ lo ≤ z ∧ z ≤ hi) → 0 ≤ profileSDF E lo hi s z) ∧
    (¬ (0 < s ∧ lo ≤ z ∧ z ≤ hi) → profileSDF E lo hi s z ≤ 0) :=
  profileSDF_spec hE lo hi s z h

/-- **`profilePointSDF.PointSDF`** returns the same value as `profileSDF.SDF`, and when the 2-D point is at the 2-D
distance `|s|` from `c.XY()`, the 3-D point it reports is at the reported distance from `c`. -/
theorem profile_point_sdf_exact {E : Env K} (hE : E.Exact) (lo hi s : K) (p2 : V2 K) (c : V3 K) (h : lo ≤ hi)
    (hp : (⟨c.x, c.y⟩ : V2 K).sqDist p2 = s * s) :
    (profilePointSDF E lo hi p2 s c).2 = profileSDF E lo hi s c.z ∧
    c.sqDist (profilePointSDF E lo hi p2 s c).1 =
      (profilePointSDF E lo hi p2 s c).2 * (profilePointSDF E lo hi p2 s c).2 :=
  profilePointSDF_spec hE lo hi s p2 c h hp

/-! ## Collider- and transform-derived fields -/

/-- **`ColliderToSDF`: the bisection brackets the threshold of the ball query.**  If the collider's
`SphereCollision(c, r)` / `CircleCollision(c, r)` answers `D ≤ r` (`D > 0` the distance from `c` to the surface) and
`2^-Iterations < D ≤ 2^Iterations`, then `colliderSDF.SDF(c)` is `+res` when `Contains(c)` and `-res` otherwise, with
`res > 0` and `|res - D| < D / 2^(Iterations+1)`. -/
theorem collider_sdf_brackets (D : K) (coll : K → Bool) (hc : ∀ r, coll r = decide (D ≤ r)) (contains : Bool)
    (iters : Nat) (h1 : 1 < D * 2 ^ iters) (h2 : D ≤ 2 ^ iters) :
    ∃ res : K, 0 < res ∧ |res - D| * 2 ^ (iters + 1) < D ∧
      colliderSDF 2 coll contains iters = if contains then res else -res :=
  colliderSDF_brackets D coll hc contains iters h1 h2

example : (1 : ℚ) < 3 * 2 ^ 5 ∧ (3 : ℚ) ≤ 2 ^ 5 := by norm_num

/-- **A `JoinedTransform` of `Translate`, `Scale` (factor `≠ 0`) and distance-preserving matrices (`Rotation`) is a
similarity and `Inverse()` inverts it**: with `k = ∏ |Scale factors| > 0`, squared distances are multiplied by `k²`,
`t.Apply(t.Inverse().Apply(c)) = c` and back, `t.ApplyDistance(d) = d k` and `t.Inverse().ApplyDistance(d) = d / k`. -/
theorem joined_transform_similarity (ts : List (Xf3 K)) (h : ∀ t ∈ ts, t.Good) :
    0 < xfFactor3 ts ∧
    (∀ a b, (xfApply3 ts a).sqDist (xfApply3 ts b) = xfFactor3 ts * xfFactor3 ts * a.sqDist b) ∧
    (∀ c, xfApply3 ts (xfApply3 (xfInverse3 ts) c) = c) ∧ (∀ c, xfApply3 (xfInverse3 ts) (xfApply3 ts c) = c) ∧
    (∀ d, xfDist3 ts d = d * xfFactor3 ts) ∧ (∀ d, xfDist3 (xfInverse3 ts) d = d / xfFactor3 ts) :=
  let S := xf3_sim ts h
  ⟨S.kpos, S.sq_map, S.fg, S.gf, S.df_eq, S.dg_eq⟩

/-- 2-D twin of `joined_transform_similarity`. -/
theorem joined_transform2_similarity (ts : List (Xf2 K)) (h : ∀ t ∈ ts, t.Good) :
    0 < xfFactor2 ts ∧
    (∀ a b, (xfApply2 ts a).sqDist (xfApply2 ts b) = xfFactor2 ts * xfFactor2 ts * a.sqDist b) ∧
    (∀ c, xfApply2 ts (xfApply2 (xfInverse2 ts) c) = c) ∧ (∀ c, xfApply2 (xfInverse2 ts) (xfApply2 ts c) = c) ∧
    (∀ d, xfDist2 ts d = d * xfFactor2 ts) ∧ (∀ d, xfDist2 (xfInverse2 ts) d = d / xfFactor2 ts) :=
  let S := xf2_sim ts h
  ⟨S.kpos, S.sq_map, S.fg, S.gf, S.df_eq, S.dg_eq⟩

example : ∀ t ∈ [Xf3.translate (⟨1, 2, 3⟩ : V3 ℚ), Xf3.scale (-2), Xf3.scale (1 / 4)], t.Good := by
  intro t ht
  simp only [List.mem_cons, List.not_mem_nil, or_false] at ht
  rcases ht with rfl | rfl | rfl
  · trivial
  · show (-2 : ℚ) ≠ 0; norm_num
  · show (1 / 4 : ℚ) ≠ 0; norm_num

/-- a rotation by the angle with `cos = 3/5`, `sin = 4/5` about the z axis is a `Good` matrix member -/
example : (Xf3.rot (⟨3 / 5, -4 / 5, 0, 4 / 5, 3 / 5, 0, 0, 0, 1⟩ : M3 ℚ)).Good :=
  M3.good_of_ortho _ (by norm_num [M3.det]) (by norm_num [M3.Ortho])

example : (Xf2.rot (⟨3 / 5, -4 / 5, 4 / 5, 3 / 5⟩ : M2 ℚ)).Good :=
  M2.good_of_ortho _ (by norm_num [M2.det]) (by norm_num [M2.Ortho])

/-- **`TransformSDF(t, s)` is the signed distance of the transformed shape** (`t` a similarity of factor `k` as in
`joined_transform_similarity`; `c' = t.Inverse().Apply(c)`):
* the value is `k · s.SDF(c')`, positive exactly where `s.SDF(c')` is (the image of the shape contains `c` iff the shape
  contains `c'`);
* for every point `p`, `‖c - t(p)‖² = k² ‖c' - p‖²`; hence a point `p` at the reported distance of `s` from `c'` is mapped
  to a point at the reported distance of the transformed field from `c`, and if no point of a set `B` (the boundary of
  the shape) is closer to `c'` than `|s.SDF(c')|`, no point of its image is closer to `c` than the transformed value. -/
theorem transform_sdf_exact (ts : List (Xf3 K)) (h : ∀ t ∈ ts, t.Good) (sdf : V3 K → K) (c : V3 K) :
    transformSDF3 ts sdf c = xfFactor3 ts * sdf (xfApply3 (xfInverse3 ts) c) ∧
    (0 < transformSDF3 ts sdf c ↔ 0 < sdf (xfApply3 (xfInverse3 ts) c)) ∧
    (∀ p, c.sqDist (xfApply3 ts p) = xfFactor3 ts * xfFactor3 ts * (xfApply3 (xfInverse3 ts) c).sqDist p) ∧
    (∀ p, (xfApply3 (xfInverse3 ts) c).sqDist p =
        sdf (xfApply3 (xfInverse3 ts) c) * sdf (xfApply3 (xfInverse3 ts) c) →
      c.sqDist (xfApply3 ts p) = transformSDF3 ts sdf c * transformSDF3 ts sdf c) ∧
    (∀ B : V3 K → Prop,
      (∀ b, B b → sdf (xfApply3 (xfInverse3 ts) c) * sdf (xfApply3 (xfInverse3 ts) c) ≤
        (xfApply3 (xfInverse3 ts) c).sqDist b) →
      ∀ b, B b → transformSDF3 ts sdf c * transformSDF3 ts sdf c ≤ c.sqDist (xfApply3 ts b)) := by
  have S := xf3_sim ts h
  have hv : transformSDF3 ts sdf c = xfFactor3 ts * sdf (xfApply3 (xfInverse3 ts) c) := by
    unfold transformSDF3; rw [S.df_eq]; ring
  refine ⟨hv, ?_, S.nearest c, ?_, ?_⟩
  · rw [hv]; exact ⟨fun hp => (pos_iff_pos_of_mul_pos hp).mp S.kpos, fun hp => mul_pos S.kpos hp⟩
  · intro p hp; rw [S.nearest c p, hp, hv]; ring
  · intro B hB b hb
    rw [S.nearest c b, hv]
    have := mul_le_mul_of_nonneg_left (hB b hb) (mul_nonneg S.kpos.le S.kpos.le)
    calc _ = xfFactor3 ts * xfFactor3 ts * (sdf (xfApply3 (xfInverse3 ts) c) * sdf (xfApply3 (xfInverse3 ts) c)) := by ring
      _ ≤ _ := this

/-- 2-D twin of `transform_sdf_exact` (`model2d.TransformSDF`). -/
theorem transform2_sdf_exact (ts : List (Xf2 K)) (h : ∀ t ∈ ts, t.Good) (sdf : V2 K → K) (c : V2 K) :
    transformSDF2 ts sdf c = xfFactor2 ts * sdf (xfApply2 (xfInverse2 ts) c) ∧
    (0 < transformSDF2 ts sdf c ↔ 0 < sdf (xfApply2 (xfInverse2 ts) c)) ∧
    (∀ p, c.sqDist (xfApply2 ts p) = xfFactor2 ts * xfFactor2 ts * (xfApply2 (xfInverse2 ts) c).sqDist p) ∧
    (∀ p, (xfApply2 (xfInverse2 ts) c).sqDist p =
        sdf (xfApply2 (xfInverse2 ts) c) * sdf (xfApply2 (xfInverse2 ts) c) →
      c.sqDist (xfApply2 ts p) = transformSDF2 ts sdf c * transformSDF2 ts sdf c) ∧
    (∀ B : V2 K → Prop,
      (∀ b, B b → sdf (xfApply2 (xfInverse2 ts) c) * sdf (xfApply2 (xfInverse2 ts) c) ≤
        (xfApply2 (xfInverse2 ts) c).sqDist b) →
      ∀ b, B b → transformSDF2 ts sdf c * transformSDF2 ts sdf c ≤ c.sqDist (xfApply2 ts b)) := by
  have S := xf2_sim ts h
  have hv : transformSDF2 ts sdf c = xfFactor2 ts * sdf (xfApply2 (xfInverse2 ts) c) := by
    unfold transformSDF2; rw [S.df_eq]; ring
  refine ⟨hv, ?_, S.nearest c, ?_, ?_⟩
  · rw [hv]; exact ⟨fun hp => (pos_iff_pos_of_mul_pos hp).mp S.kpos, fun hp => mul_pos S.kpos hp⟩
  · intro p hp; rw [S.nearest c p, hp, hv]; ring
  · intro B hB b hb
    rw [S.nearest c b, hv]
    have := mul_le_mul_of_nonneg_left (hB b hb) (mul_nonneg S.kpos.le S.kpos.le)
    calc _ = xfFactor2 ts * xfFactor2 ts * (sdf (xfApply2 (xfInverse2 ts) c) * sdf (xfApply2 (xfInverse2 ts) c)) := by ring
      _ ≤ _ := this

/-- **`ColliderToSDF(TransformCollider(t, shape))` brackets `k ·` (distance of the inverse-mapped point).**
`t` a similarity of factor `k`; the wrapped collider's `SphereCollision(c, r)` is `|SDF(c)| ≤ r` (`Sphere`, `Rect`,
`Capsule`, …); `s = shape.SDF(t.Inverse().Apply(c))`.  The transformed collider answers the ball query
`|s| ≤ t.Inverse().ApplyDistance(r)`, i.e. `k |s| ≤ r`, so for `2^-Iterations < k |s| ≤ 2^Iterations` the derived
field is `± res` (sign from `Contains`) with `|res - k |s|| < k |s| / 2^(Iterations+1)` — by `transform_sdf_exact`
`k |s|` is the distance from `c` to the transformed surface. -/
theorem transformed_collider_sdf_brackets (ts : List (Xf3 K)) (h : ∀ t ∈ ts, t.Good) (sdf : V3 K → K) (c : V3 K)
    (contains : Bool) (iters : Nat)
    (h1 : 1 < xfFactor3 ts * abs (sdf (xfApply3 (xfInverse3 ts) c)) * 2 ^ iters)
    (h2 : xfFactor3 ts * abs (sdf (xfApply3 (xfInverse3 ts) c)) ≤ 2 ^ iters) :
    ∃ res : K, 0 < res ∧
      |res - xfFactor3 ts * abs (sdf (xfApply3 (xfInverse3 ts) c))| * 2 ^ (iters + 1) <
        xfFactor3 ts * abs (sdf (xfApply3 (xfInverse3 ts) c)) ∧
      transformedColliderSDF3 2 ts sdf contains iters c = if contains then res else -res := by
  have S := xf3_sim ts h
  exact colliderSDF_brackets _ _ (fun r => xfBallQuery_threshold S.kpos S.dg_eq _ r) contains iters h1 h2

/-- 2-D twin (`CircleCollision`). -/
theorem transformed_collider2_sdf_brackets (ts : List (Xf2 K)) (h : ∀ t ∈ ts, t.Good) (sdf : V2 K → K) (c : V2 K)
    (contains : Bool) (iters : Nat)
    (h1 : 1 < xfFactor2 ts * abs (sdf (xfApply2 (xfInverse2 ts) c)) * 2 ^ iters)
    (h2 : xfFactor2 ts * abs (sdf (xfApply2 (xfInverse2 ts) c)) ≤ 2 ^ iters) :
    ∃ res : K, 0 < res ∧
      |res - xfFactor2 ts * abs (sdf (xfApply2 (xfInverse2 ts) c))| * 2 ^ (iters + 1) <
        xfFactor2 ts * abs (sdf (xfApply2 (xfInverse2 ts) c)) ∧
      transformedColliderSDF2 2 ts sdf contains iters c = if contains then res else -res := by
  have S := xf2_sim ts h
  exact colliderSDF_brackets _ _ (fun r => xfBallQuery_threshold S.kpos S.dg_eq _ r) contains iters h1 h2

/-- **… and it is `k ×` the field derived from the original collider at the mapped point, up to the bisection
resolution**: with `s` as above and both `|s|` and `k |s|` inside `(2^-Iterations, 2^Iterations]`,
`ColliderToSDF(TransformCollider(t, shape)).SDF(c) = ± resT`, `ColliderToSDF(shape).SDF(t⁻¹ c) = ± res0` (same sign
for the same containment flag) and `|resT - k res0| < k |s| / 2^Iterations`.  (A radius mapped with the forward
transform instead — seeded change C06-2 — gives `resT ≈ |s| / k`, off by `k²`.) -/
theorem transformed_collider_sdf_vs_original (ts : List (Xf3 K)) (h : ∀ t ∈ ts, t.Good) (sdf : V3 K → K) (c : V3 K)
    (contains : Bool) (iters : Nat)
    (h1 : 1 < xfFactor3 ts * abs (sdf (xfApply3 (xfInverse3 ts) c)) * 2 ^ iters)
    (h2 : xfFactor3 ts * abs (sdf (xfApply3 (xfInverse3 ts) c)) ≤ 2 ^ iters)
    (h3 : 1 < abs (sdf (xfApply3 (xfInverse3 ts) c)) * 2 ^ iters) (h4 : abs (sdf (xfApply3 (xfInverse3 ts) c)) ≤ 2 ^ iters) :
    ∃ resT res0 : K, 0 < resT ∧ 0 < res0 ∧
      transformedColliderSDF3 2 ts sdf contains iters c = (if contains then resT else -resT) ∧
      colliderSDF 2 (fun r => decide (absS (sdf (xfApply3 (xfInverse3 ts) c)) ≤ r)) contains iters =
        (if contains then res0 else -res0) ∧
      |resT - xfFactor3 ts * res0| * 2 ^ iters < xfFactor3 ts * abs (sdf (xfApply3 (xfInverse3 ts) c)) := by
  obtain ⟨resT, hT0, hT1, hT2⟩ := transformed_collider_sdf_brackets ts h sdf c contains iters h1 h2
  obtain ⟨res0, h00, h01, h02⟩ := colliderSDF_brackets (abs (sdf (xfApply3 (xfInverse3 ts) c)))
    (fun r => decide (absS (sdf (xfApply3 (xfInverse3 ts) c)) ≤ r)) (fun r => by rw [absS_eq]) contains iters h3 h4
  refine ⟨resT, res0, hT0, h00, hT2, h02, ?_⟩
  have kpos := (xf3_sim ts h).kpos
  set k := xfFactor3 ts
  set a := abs (sdf (xfApply3 (xfInverse3 ts) c))
  have hp : (0 : K) < 2 ^ iters := by positivity
  have e1 : |k * res0 - k * a| * 2 ^ (iters + 1) < k * a := by
    rw [← mul_sub, abs_mul, abs_of_pos kpos, mul_assoc]
    exact mul_lt_mul_of_pos_left h01 kpos
  have tri : |resT - k * res0| ≤ |resT - k * a| + |k * res0 - k * a| := by
    have := abs_sub_le resT (k * a) (k * res0)
    rwa [abs_sub_comm (k * a) (k * res0)] at this
  have : |resT - k * res0| * 2 ^ (iters + 1) < 2 * (k * a) := by
    have hp1 : (0 : K) < 2 ^ (iters + 1) := by positivity
    calc |resT - k * res0| * 2 ^ (iters + 1) ≤ (|resT - k * a| + |k * res0 - k * a|) * 2 ^ (iters + 1) :=
          mul_le_mul_of_nonneg_right tri hp1.le
      _ = |resT - k * a| * 2 ^ (iters + 1) + |k * res0 - k * a| * 2 ^ (iters + 1) := by ring
      _ < k * a + k * a := add_lt_add hT1 e1
      _ = 2 * (k * a) := by ring
  rw [pow_succ] at this
  linarith

/-! ## Meshes -/

/-- **`meshSDF`: sign = parity of ray crossings.**  For the unsigned mesh distance `d ≥ 0` (the minimum over the
faces, C08), the value has magnitude `d`; it is `+d` when the query is inside the bounds and the fixed ray crosses
the surface an odd number of times, `-d` otherwise. -/
theorem mesh_sdf_sign_parity (inBounds : Bool) (collisions : Nat) (d : K) (hd : 0 ≤ d) :
    |meshSign (parityInside inBounds collisions) d| = d ∧
    (inBounds = true ∧ collisions % 2 = 1 → meshSign (parityInside inBounds collisions) d = d) ∧
    (¬ (inBounds = true ∧ collisions % 2 = 1) → meshSign (parityInside inBounds collisions) d = -d) :=
  meshSign_spec inBounds collisions d hd

/-- **`meshDistFunc.Dist` never lets a leaf with a NaN distance influence the result** (a zero-length 2-D segment
`{p, p}` has `Closest = 0/0`): with `leaf f = none` for such a leaf — the test `dist < *curDist` is false for NaN —
the scan over the pieces equals the scan over the list with those pieces removed; it finds nothing only when every
leaf is NaN, and otherwise returns the evaluation of a piece of the list such that **no evaluated piece has a
smaller distance** (the exhaustive minimum over the pieces that have a distance).  (Seeded change C06-8 stores the
NaN instead, after which everything found before is forgotten.) -/
theorem mesh_scan_ignores_nan_leaves {L : Type} [LinearOrder L] {β γ : Type} (leaf : β → Option (L × γ)) (fs : List β) :
    scanWith leaf fs = scanWith leaf (fs.filter fun f => (leaf f).isSome) ∧
    (scanWith leaf fs = none ↔ ∀ f ∈ fs, leaf f = none) ∧
    ∀ x, scanWith leaf fs = some x →
      (∃ f ∈ fs, leaf f = some x) ∧ ∀ g ∈ fs, ∀ y, leaf g = some y → x.1 ≤ y.1 :=
  ⟨scanWith_filter leaf fs, (scanWith_spec leaf fs).1, (scanWith_spec leaf fs).2⟩

/-- **… and ignoring covered pieces does not change the exhaustive minimum**: with a reference distance `D` of every
piece that the evaluated leaves report, if every NaN piece is covered by an evaluated piece at most as far, the
scan over a non-empty list returns `r` with `r.1 = D f` for a piece `f` and `r.1 ≤ D g` for **every** piece `g`. -/
theorem mesh_scan_min_over_all_pieces {L : Type} [LinearOrder L] {β γ : Type} (leaf : β → Option (L × γ)) (D : β → L)
    (fs : List β) (hne : fs ≠ [])
    (hD : ∀ f ∈ fs, ∀ x, leaf f = some x → x.1 = D f)
    (hcov : ∀ g ∈ fs, leaf g = none → ∃ f ∈ fs, ∃ x, leaf f = some x ∧ x.1 ≤ D g) :
    ∃ r, scanWith leaf fs = some r ∧ (∃ f ∈ fs, leaf f = some r ∧ r.1 = D f) ∧ ∀ g ∈ fs, r.1 ≤ D g :=
  scanWith_covered leaf D fs hne hD hcov

/-- **2-D `meshSDF` (`MeshToSDF`, `GroupedSegmentsToSDF`): the magnitude is the exhaustive minimum over the boundary's
pieces, zero-length pieces included.**  The leaf evaluation is the one of the float run (`segLeaf2Skip`: a zero-length
segment `{p, p}` has a NaN distance and is ignored, every proper segment is evaluated by `Segment.Closest` /
`Coord.Dist`).  If every zero-length piece `{p, p}` has `p` as an end point of a proper segment of the mesh (a closed
polyline whose last point repeats the first; a vertex listed twice), then for a non-empty mesh the scan returns
`(d, p, i)` with `d ≥ 0`, `d² = ‖p - c‖²`, `p = Closest(c)` of the proper segment `i`, `p` on that segment, and
`d² ≤ ‖q - c‖²` for every point `q` of every piece of the mesh. -/
theorem mesh2_sdf_exhaustive_min_degenerate {E : Env K} (hE : E.Exact) (segs : List (Seg K × Nat)) (c : V2 K)
    (hne : segs ≠ [])
    (hcov : ∀ g ∈ segs, g.1.a = g.1.b → ∃ f ∈ segs, f.1.a ≠ f.1.b ∧ (f.1.a = g.1.a ∨ f.1.b = g.1.a)) :
    ∃ d p i, scanWith (segLeaf2Skip E c) segs = some (d, p, i) ∧ 0 ≤ d ∧ d * d = p.sqDist c ∧
      (∃ f ∈ segs, f.2 = i ∧ f.1.a ≠ f.1.b ∧ p = segClosest2 E f.1.a f.1.b c ∧
        ∃ t, 0 ≤ t ∧ t ≤ 1 ∧ p = V2.lerp f.1.a f.1.b t) ∧
      ∀ g ∈ segs, ∀ t, 0 ≤ t → t ≤ 1 → d * d ≤ (V2.lerp g.1.a g.1.b t).sqDist c :=
  meshScan2Skip_spec hE segs c hne hcov

/-- non-vacuity: the triangle outline `(0,0) (1,0) (0,1) (0,0)` with the closing point repeated -/
example : ∀ g ∈ [((⟨⟨0, 0⟩, ⟨1, 0⟩⟩ : Seg ℚ), 0), (⟨⟨1, 0⟩, ⟨0, 1⟩⟩, 1), (⟨⟨0, 1⟩, ⟨0, 0⟩⟩, 2), (⟨⟨0, 0⟩, ⟨0, 0⟩⟩, 3)],
    g.1.a = g.1.b → ∃ f ∈ [((⟨⟨0, 0⟩, ⟨1, 0⟩⟩ : Seg ℚ), 0), (⟨⟨1, 0⟩, ⟨0, 1⟩⟩, 1), (⟨⟨0, 1⟩, ⟨0, 0⟩⟩, 2),
      (⟨⟨0, 0⟩, ⟨0, 0⟩⟩, 3)], f.1.a ≠ f.1.b ∧ (f.1.a = g.1.a ∨ f.1.b = g.1.a) := by
  intro g hg hdeg
  simp only [List.mem_cons, List.not_mem_nil, or_false] at hg
  rcases hg with rfl | rfl | rfl | rfl
  · simp only [V2.mk.injEq] at hdeg; norm_num at hdeg
  · simp only [V2.mk.injEq] at hdeg; norm_num at hdeg
  · simp only [V2.mk.injEq] at hdeg; norm_num at hdeg
  · exact ⟨_, List.mem_cons_self .., by simp only [ne_eq, V2.mk.injEq]; norm_num, Or.inl rfl⟩

/-- **2-D `meshSDF` without zero-length pieces**: the faithful model `meshScan2` (the linear scan the driver runs at
`Float` against the real pruned search) returns the exhaustive minimum over all points of all segments. -/
theorem mesh2_sdf_exhaustive_min {E : Env K} (hE : E.Exact) (segs : List (Seg K × Nat)) (c : V2 K)
    (hne : segs ≠ []) (hnd : ∀ f ∈ segs, f.1.a ≠ f.1.b) :
    ∃ d p i, meshScan2 E segs c = some (d, p, i) ∧ 0 ≤ d ∧ d * d = p.sqDist c ∧
      (∃ f ∈ segs, f.2 = i ∧ p = segClosest2 E f.1.a f.1.b c ∧ ∃ t, 0 ≤ t ∧ t ≤ 1 ∧ p = V2.lerp f.1.a f.1.b t) ∧
      ∀ g ∈ segs, ∀ t, 0 ≤ t → t ≤ 1 → d * d ≤ (V2.lerp g.1.a g.1.b t).sqDist c := by
  obtain ⟨d, p, i, h, hd, hdd, ⟨f, hf, hfi, _, hp, ht⟩, hmin⟩ :=
    meshScan2Skip_spec hE segs c hne (fun g hg hdeg => absurd hdeg (hnd g hg))
  rw [scanWith_skip_eq E c segs hnd] at h
  exact ⟨d, p, i, h, hd, hdd, ⟨f, hf, hfi, hp, ht⟩, hmin⟩

/-- **3-D `meshSDF` (`MeshToSDF`, `GroupedTrianglesToSDF`): the magnitude is the exhaustive minimum over the faces**
(non-degenerate triangles, non-empty mesh): the model's scan returns `(d, p, i)` with `d ≥ 0`, `d² = ‖p - c‖²`,
`p = Closest(c)` of face `i`, a point of that triangle, and no point of any triangle of the mesh is closer. -/
theorem mesh_sdf_exhaustive_min {E : Env K} (hE : E.Exact) (faces : List (Tri K × Nat)) (c : V3 K) (hne : faces ≠ [])
    (hnd : ∀ f ∈ faces, (M3.ofColumns (f.1.b.sub f.1.a) (f.1.c.sub f.1.a) (triNormal E f.1.a f.1.b f.1.c)).det ≠ 0 ∧
      0 < (f.1.b.sub f.1.a).normSq ∧ 0 < (f.1.c.sub f.1.b).normSq ∧ 0 < (f.1.a.sub f.1.c).normSq) :
    ∃ d p i, meshScan E faces c = some (d, p, i) ∧ 0 ≤ d ∧ d * d = p.sqDist c ∧
      (∃ f ∈ faces, f.2 = i ∧ p = triClosest E f.1.a f.1.b f.1.c c ∧
        ∃ a b, InTri a b ∧ p = triPoint f.1.a f.1.b f.1.c a b) ∧
      ∀ g ∈ faces, ∀ a b, InTri a b → d * d ≤ (triPoint g.1.a g.1.b g.1.c a b).sqDist c := by
  rw [meshScan_eq_scanWith]
  obtain ⟨r, hr, ⟨f, hf, hfr, _⟩, hmin⟩ := scanWith_covered
    (fun f : Tri K × Nat => some ((triClosest E f.1.a f.1.b f.1.c c).dist E c, triClosest E f.1.a f.1.b f.1.c c, f.2))
    (fun f => (triClosest E f.1.a f.1.b f.1.c c).dist E c) faces hne
    (by intro f _ x hx; cases hx; rfl)
    (by intro g _ hg; cases hg)
  cases hfr
  refine ⟨_, _, _, hr, (V3.dist_facts hE _ _).1, (V3.dist_facts hE _ _).2, ?_, ?_⟩
  · obtain ⟨h0, h1, h2, h3⟩ := hnd f hf
    exact ⟨f, hf, rfl, rfl, (triangle_closest_optimal hE f.1.a f.1.b f.1.c c h0 h1 h2 h3).1⟩
  · intro g hg a b hab
    obtain ⟨h0, h1, h2, h3⟩ := hnd g hg
    have hd0 := (V3.dist_facts hE (triClosest E f.1.a f.1.b f.1.c c) c).1
    have := sq_le_of_le hd0 (hmin g hg)
    rw [(V3.dist_facts hE (triClosest E g.1.a g.1.b g.1.c c) c).2] at this
    exact le_trans this ((triangle_closest_optimal hE g.1.a g.1.b g.1.c c h0 h1 h2 h3).2 a b hab)

/-! ## 3-D triangles with a repeated corner (`Triangle.Dist`, `Triangle.Closest`) -/

/-- **The running minimum of `Triangle.Closest` / `Triangle.Dist` started at `math.Inf(1)` is the first strict minimum
over the three edges** whenever every edge has a distance (over a field: always): the models with the loop spelled out
(`triClosestN`, `triDistN`; the driver runs them at `Float` on triangles with NaN edge distances) are `triClosest` and
`triDist`, so `triangle_closest_optimal` is a statement about them too. -/
theorem triangle_running_min_is_first_min (E : Env K) (t0 t1 t2 c : V3 K) :
    triClosestN E t0 t1 t2 c = triClosest E t0 t1 t2 c ∧ triDistN E t0 t1 t2 c = triDist E t0 t1 t2 c :=
  ⟨triClosestN_eq E t0 t1 t2 c, triDistN_eq E t0 t1 t2 c⟩

/-- **`Triangle.Dist` and `Triangle.Closest` of a triangle with a repeated corner (collapsed to a segment) are the
distance to, and the nearest point of, that segment.**  The model is the float run (`triDistSkip`, `triClosestSkip`):
the cross product of the sides is exactly `0`, so the normal is `0 · (1/0)`, every `component` is NaN and the in-plane
shortcut is not taken; the edge of length `0` has `Closest = 0 · (1/0)` and a NaN distance, which fails
`d < result` and is skipped.  If the three corners are not all the same point:
* `Dist` is a number `d` (not the `math.Inf(1)` the loop starts from, not NaN), `d ≥ 0`, and it is the distance of the query from `Closest`
  (`d = ‖Closest - c‖`, `d² = ‖Closest - c‖²`);
* `Closest` is `Segment.Closest` of a proper edge and lies on an edge of the triangle;
* **no point of the triangle is closer**: neither a point of any of the three edges (the zero-length one included)
  nor any point `t0 + u (t1 - t0) + v (t2 - t0)`, `u, v ≥ 0`, `u + v ≤ 1`.
(Seeded C06-15 folds the edge distances with `math.Min`, which propagates the NaN: `Dist` is NaN.) -/
theorem triangle_repeated_corner_dist_exact {E : Env K} (hE : E.Exact) (t0 t1 t2 c : V3 K)
    (hrep : t0 = t1 ∨ t1 = t2 ∨ t2 = t0) (hne : ¬ (t0 = t1 ∧ t1 = t2)) :
    ∃ d, triDistSkip E t0 t1 t2 c = d ∧ 0 ≤ d ∧
      d = (triClosestSkip E t0 t1 t2 c).dist E c ∧ d * d = (triClosestSkip E t0 t1 t2 c).sqDist c ∧
      (∃ f ∈ triSegments t0 t1 t2, f.1 ≠ f.2 ∧ triClosestSkip E t0 t1 t2 c = segClosest3 E f.1 f.2 c ∧
        ∃ t, 0 ≤ t ∧ t ≤ 1 ∧ triClosestSkip E t0 t1 t2 c = V3.lerp f.1 f.2 t) ∧
      (∀ t, 0 ≤ t → t ≤ 1 → d * d ≤ (V3.lerp t0 t1 t).sqDist c ∧ d * d ≤ (V3.lerp t1 t2 t).sqDist c ∧
        d * d ≤ (V3.lerp t2 t0 t).sqDist c) ∧
      ∀ u v, InTri u v → d * d ≤ (triPoint t0 t1 t2 u v).sqDist c := by
  have hnan := triNormalNaN_of_repeated t0 t1 t2 hrep
  obtain ⟨d, p, hscan, hd0, hdd, hdp, hon, hmin⟩ :=
    edgeScanSkip_spec hE (triSegments t0 t1 t2) c (by simp [triSegments]) (triSegments_cover t0 t1 t2 hne)
  have hcl : triClosestSkip E t0 t1 t2 c = p := by
    simp only [triClosestSkip, hnan, if_true, hscan]
  have hdist : triDistSkip E t0 t1 t2 c = d := by
    simp only [triDistSkip, hnan, if_true]
    rw [triDistSkip_scan, hscan]; rfl
  -- the three edges in the orientation of the triangle
  have hedge : ∀ p q : V3 K, newSegment3 p q ∈ triSegments t0 t1 t2 → ∀ t, 0 ≤ t → t ≤ 1 →
      d * d ≤ (V3.lerp p q t).sqDist c := by
    intro p q hm t h0 h1
    obtain ⟨t', h0', h1', he⟩ := newSegment3_lerp p q t h0 h1
    rw [he]; exact hmin _ hm t' h0' h1'
  have h01 := hedge t0 t1 (by simp [triSegments])
  have h12 := hedge t1 t2 (by simp [triSegments])
  have h20 := hedge t2 t0 (by simp [triSegments])
  refine ⟨d, hdist, hd0, by rw [hcl]; exact hdp, by rw [hcl]; exact hdd, ?_, ?_, ?_⟩
  · obtain ⟨f, hf, hfnd, hp, ht⟩ := hon
    exact ⟨f, hf, hfnd, by rw [hcl]; exact hp, by rw [hcl]; exact ht⟩
  · intro t h0 h1
    exact ⟨h01 t h0 h1, h12 t h0 h1, h20 t h0 h1⟩
  · intro u v huv
    obtain ⟨t, h0, h1, h | h⟩ := triPoint_on_edge_of_repeated t0 t1 t2 hrep u v huv
    · rw [h]; exact h01 t h0 h1
    · rw [h]; exact h20 t h0 h1

/-- Non-vacuity and the expected numbers: the triangle `{a, a, b}`, `a = (0,0,0)`, `b = (2,0,0)` over `ℚ` (with the
exact "square root" of the squares that occur): the query `(1, 3, 4)` is at distance `5` from the point `(1,0,0)` of the
remaining edge; in `{a, a, a}`, `a = (1,4,4)`, the loops skip all three edges and the answer is the corner itself
(`triangle_point_dist_exact`): the query `(1, 0, 1)` is at distance `5` from it. -/
example :
    triDistSkip exEnvQ ⟨0, 0, 0⟩ ⟨0, 0, 0⟩ ⟨2, 0, 0⟩ ⟨1, 3, 4⟩ = 5 ∧
    (triClosestSkip exEnvQ ⟨0, 0, 0⟩ ⟨0, 0, 0⟩ ⟨2, 0, 0⟩ ⟨1, 3, 4⟩).x = 1 ∧
    (triClosestSkip exEnvQ ⟨0, 0, 0⟩ ⟨0, 0, 0⟩ ⟨2, 0, 0⟩ ⟨1, 3, 4⟩).y = 0 ∧
    (triClosestSkip exEnvQ ⟨0, 0, 0⟩ ⟨0, 0, 0⟩ ⟨2, 0, 0⟩ ⟨1, 3, 4⟩).z = 0 ∧
    triDistSkip exEnvQ ⟨0, 0, 0⟩ ⟨2, 0, 0⟩ ⟨0, 0, 0⟩ ⟨1, 3, 4⟩ = 5 ∧
    triDistSkip exEnvQ ⟨2, 0, 0⟩ ⟨0, 0, 0⟩ ⟨0, 0, 0⟩ ⟨1, 3, 4⟩ = 5 ∧
    triDistSkip exEnvQ ⟨1, 4, 4⟩ ⟨1, 4, 4⟩ ⟨1, 4, 4⟩ ⟨1, 0, 1⟩ = 5 ∧
    (triClosestSkip exEnvQ ⟨1, 4, 4⟩ ⟨1, 4, 4⟩ ⟨1, 4, 4⟩ ⟨1, 0, 1⟩).y = 4 := by
  decide +kernel

/-- **A triangle whose three corners are one point `a`** (what is left when vertex merging maps all three vertices of a
small face to the same vertex): the float run skips all three edges (each has a NaN distance), `Closest` returns the
untouched start value `t[0] = a` and `Dist` — still `math.Inf(1)` after the loop — returns `c.Dist(t[0])`.  So
`Dist = ‖c - a‖`, `Closest = a`, the only point of the triangle.  (Before the repair in /repo the start value of `Closest`
was `Coord3D{}` and `Dist` returned `+Inf`: `MeshToSDF` of a mesh containing such a face reported the distance to the
origin.) -/
theorem triangle_point_dist_exact {E : Env K} (hE : E.Exact) (a c : V3 K) :
    triClosestSkip E a a a c = a ∧ triDistSkip E a a a c = c.dist E a ∧ 0 ≤ triDistSkip E a a a c ∧
      triDistSkip E a a a c * triDistSkip E a a a c = (triClosestSkip E a a a c).sqDist c ∧
      ∀ u v, triPoint a a a u v = a := by
  have hnan := triNormalNaN_of_repeated a a a (Or.inl rfl)
  have hcl : triClosestSkip E a a a c = a := by
    simp only [triClosestSkip, hnan, if_true, edgeScanSkip_point]
  have hd : triDistSkip E a a a c = c.dist E a := by
    simp only [triDistSkip, hnan, if_true]
    rw [triDistSkip_scan, edgeScanSkip_point]; rfl
  refine ⟨hcl, hd, ?_, ?_, triPoint_self a⟩
  · rw [hd]; exact (V3.dist_facts hE _ _).1
  · rw [hd, hcl, (V3.dist_facts hE _ _).2]; exact V3.sqDist_comm c a

/-- **`Triangle.Dist` / `Triangle.Closest` of any triangle whose normal is `0 · (1/0)`** (the cross product of the sides
is exactly `0`: a repeated corner, or three corners on a line) **are the minimum over its three edges**, provided the
corners are not all the same point: `Dist` is a number `d ≥ 0`, the distance of the query from `Closest`, `Closest` is
`Segment.Closest` of an edge of positive length, and no point of any of the three edges is closer. -/
theorem triangle_nan_normal_edges_min {E : Env K} (hE : E.Exact) (t0 t1 t2 c : V3 K)
    (hnan : triNormalNaN t0 t1 t2 = true) (hne : ¬ (t0 = t1 ∧ t1 = t2)) :
    ∃ d, triDistSkip E t0 t1 t2 c = d ∧ 0 ≤ d ∧
      d = (triClosestSkip E t0 t1 t2 c).dist E c ∧ d * d = (triClosestSkip E t0 t1 t2 c).sqDist c ∧
      (∃ f ∈ triSegments t0 t1 t2, f.1 ≠ f.2 ∧ triClosestSkip E t0 t1 t2 c = segClosest3 E f.1 f.2 c ∧
        ∃ t, 0 ≤ t ∧ t ≤ 1 ∧ triClosestSkip E t0 t1 t2 c = V3.lerp f.1 f.2 t) ∧
      ∀ t, 0 ≤ t → t ≤ 1 → d * d ≤ (V3.lerp t0 t1 t).sqDist c ∧ d * d ≤ (V3.lerp t1 t2 t).sqDist c ∧
        d * d ≤ (V3.lerp t2 t0 t).sqDist c := by
  obtain ⟨d, p, hscan, hd0, hdd, hdp, hon, hmin⟩ :=
    edgeScanSkip_spec hE (triSegments t0 t1 t2) c (by simp [triSegments]) (triSegments_cover t0 t1 t2 hne)
  have hcl : triClosestSkip E t0 t1 t2 c = p := by
    simp only [triClosestSkip, hnan, if_true, hscan]
  have hdist : triDistSkip E t0 t1 t2 c = d := by
    simp only [triDistSkip, hnan, if_true]
    rw [triDistSkip_scan, hscan]; rfl
  have hedge : ∀ p q : V3 K, newSegment3 p q ∈ triSegments t0 t1 t2 → ∀ t, 0 ≤ t → t ≤ 1 →
      d * d ≤ (V3.lerp p q t).sqDist c := by
    intro p q hm t h0 h1
    obtain ⟨t', h0', h1', he⟩ := newSegment3_lerp p q t h0 h1
    rw [he]; exact hmin _ hm t' h0' h1'
  refine ⟨d, hdist, hd0, by rw [hcl]; exact hdp, by rw [hcl]; exact hdd, ?_, ?_⟩
  · obtain ⟨f, hf, hfnd, hp, ht⟩ := hon
    exact ⟨f, hf, hfnd, by rw [hcl]; exact hp, by rw [hcl]; exact ht⟩
  · intro t h0 h1
    exact ⟨hedge t0 t1 (by simp [triSegments]) t h0 h1, hedge t1 t2 (by simp [triSegments]) t h0 h1,
      hedge t2 t0 (by simp [triSegments]) t h0 h1⟩

/-- Non-vacuity: three different corners on a line, `(0,0,0)`, `(2,0,0)`, `(1,0,0)`; the query `(3, 3, 4)` is at
distance `√(1 + 9 + 16)`, here `26 ↦ 26` under the example's "square root" (only the selection is evaluated). -/
example : triNormalNaN (⟨0, 0, 0⟩ : V3 ℚ) ⟨2, 0, 0⟩ ⟨1, 0, 0⟩ = true ∧
    (triClosestSkip exEnvQ ⟨0, 0, 0⟩ ⟨2, 0, 0⟩ ⟨1, 0, 0⟩ ⟨3, 3, 4⟩).x = 2 := by
  decide +kernel

/-- **Exact mode of the collapsed triangle** (`x.tri3d`): the `sqrt`-free edge scan that the driver runs at `ℚ`
(`triEdgeScanQ`: zero-length edges skipped, squared distances compared) returns exactly the point `Closest` and the
square of `Dist` of the float-run model. -/
theorem triangle_repeated_corner_exact_mode {E : Env K} (hE : E.Exact) (t0 t1 t2 c : V3 K)
    (hrep : t0 = t1 ∨ t1 = t2 ∨ t2 = t0) (hne : ¬ (t0 = t1 ∧ t1 = t2)) :
    ∃ d, triDistSkip E t0 t1 t2 c = d ∧ 0 ≤ d ∧
      triEdgeScanQ t0 t1 t2 c = some (d * d, triClosestSkip E t0 t1 t2 c) := by
  have hnan := triNormalNaN_of_repeated t0 t1 t2 hrep
  obtain ⟨d, p, hscan, hd0, _, _, _, _⟩ :=
    edgeScanSkip_spec hE (triSegments t0 t1 t2) c (by simp [triSegments]) (triSegments_cover t0 t1 t2 hne)
  have hcl : triClosestSkip E t0 t1 t2 c = p := by
    simp only [triClosestSkip, hnan, if_true, hscan]
  have hdist : triDistSkip E t0 t1 t2 c = d := by
    simp only [triDistSkip, hnan, if_true]
    rw [triDistSkip_scan, hscan]; rfl
  refine ⟨d, hdist, hd0, ?_⟩
  rw [triEdgeScanQ_eq hE, hscan, hcl]; rfl

/-- **A 3-D mesh that contains collapsed slivers still reports the exhaustive minimum** (`MeshToSDF`,
`GroupedTrianglesToSDF` on the leftovers of vertex merging).  Every face is either non-degenerate or has a repeated
corner (two equal corners: a segment; three: a point); the leaf evaluation is the float run (`meshLeafSkip`: `Closest` of a sliver skips its
zero-length edge).  The scan returns `(d, p, i)`: `d ≥ 0`, `d² = ‖p - c‖²`, `p = Closest(c)` of face `i`, and **no point
of any triangle of the mesh — slivers included — is closer**. -/
theorem mesh_sdf_exhaustive_min_slivers {E : Env K} (hE : E.Exact) (faces : List (Tri K × Nat)) (c : V3 K)
    (hne : faces ≠ [])
    (hfaces : ∀ f ∈ faces,
      ((M3.ofColumns (f.1.b.sub f.1.a) (f.1.c.sub f.1.a) (triNormal E f.1.a f.1.b f.1.c)).det ≠ 0 ∧
        0 < (f.1.b.sub f.1.a).normSq ∧ 0 < (f.1.c.sub f.1.b).normSq ∧ 0 < (f.1.a.sub f.1.c).normSq) ∨
      (f.1.a = f.1.b ∨ f.1.b = f.1.c ∨ f.1.c = f.1.a)) :
    ∃ d p i, scanWith (meshLeafSkip E c) faces = some (d, p, i) ∧ 0 ≤ d ∧ d * d = p.sqDist c ∧
      (∃ f ∈ faces, f.2 = i ∧ p = triClosestSkip E f.1.a f.1.b f.1.c c) ∧
      ∀ g ∈ faces, ∀ a b, InTri a b → d * d ≤ (triPoint g.1.a g.1.b g.1.c a b).sqDist c := by
  -- per face: `Closest` is at most as far as every point of the face
  have hface : ∀ g ∈ faces, ∀ a b, InTri a b →
      (triClosestSkip E g.1.a g.1.b g.1.c c).dist E c * (triClosestSkip E g.1.a g.1.b g.1.c c).dist E c
        ≤ (triPoint g.1.a g.1.b g.1.c a b).sqDist c := by
    intro g hg a b hab
    rw [(V3.dist_facts hE _ _).2]
    rcases hfaces g hg with ⟨h0, h1, h2, h3⟩ | hrep
    · rw [triClosestSkip_of_det E _ _ _ c h0]
      exact (triangle_closest_optimal hE g.1.a g.1.b g.1.c c h0 h1 h2 h3).2 a b hab
    · by_cases hall : g.1.a = g.1.b ∧ g.1.b = g.1.c
      · obtain ⟨h1, h2⟩ := hall
        rw [← h2, ← h1]
        obtain ⟨hcl, _, _, _, hpt⟩ := triangle_point_dist_exact hE g.1.a c
        rw [hcl, hpt]
      · obtain ⟨d, _, _, _, hdd, _, _, htri⟩ := triangle_repeated_corner_dist_exact hE g.1.a g.1.b g.1.c c hrep hall
        rw [← hdd]; exact htri a b hab
  obtain ⟨r, hr, ⟨f, hf, hfr, _⟩, hmin⟩ := scanWith_covered (meshLeafSkip E c)
    (fun f => (triClosestSkip E f.1.a f.1.b f.1.c c).dist E c) faces hne
    (by intro f _ x hx; unfold meshLeafSkip at hx; cases hx; rfl)
    (by intro g _ hg; unfold meshLeafSkip at hg; cases hg)
  unfold meshLeafSkip at hfr
  cases hfr
  refine ⟨_, _, _, hr, (V3.dist_facts hE _ _).1, (V3.dist_facts hE _ _).2, ⟨f, hf, rfl, rfl⟩, ?_⟩
  intro g hg a b hab
  have hd0 := (V3.dist_facts hE (triClosestSkip E f.1.a f.1.b f.1.c c) c).1
  exact le_trans (sq_le_of_le hd0 (hmin g hg)) (hface g hg a b hab)
/-! ## Lipschitz -/

/-- **A true distance function never changes faster than the distance moved**: for a symmetric `d` with the
triangle inequality and `f p = inf_{s ∈ S} d p s`, `|f p - f q| ≤ d p q`. -/
theorem lipschitz_of_exact {X : Type} (d : X → X → K) (S : X → Prop) (f : X → K)
    (hsymm : ∀ a b, d a b = d b a) (htri : ∀ a b c, d a c ≤ d a b + d b c)
    (hlb : ∀ p s, S s → f p ≤ d p s) (hinf : ∀ p ε, 0 < ε → ∃ s, S s ∧ d p s < f p + ε) (p q : X) :
    |f p - f q| ≤ d p q :=
  dist_to_set_lipschitz d S f hsymm htri hlb hinf p q

/-- … and so does the *signed* distance (`+f` inside, `-f` outside), provided every path from the inside to the
outside meets the boundary `S` (for `p` inside and `q` outside there is `b ∈ S` with `d p b + d b q = d p q`). -/
theorem lipschitz_signed_of_exact {X : Type} (d : X → X → K) (S : X → Prop) (f : X → K) (inside : X → Prop)
    (sdf : X → K) (hsdf : ∀ p, sdf p = f p ∨ sdf p = -f p)
    (hsign : ∀ p, (inside p → sdf p = f p) ∧ (¬ inside p → sdf p = -f p))
    (hnn : ∀ a b, 0 ≤ d a b) (hsymm : ∀ a b, d a b = d b a) (htri : ∀ a b c, d a c ≤ d a b + d b c)
    (hlb : ∀ p s, S s → f p ≤ d p s) (hinf : ∀ p ε, 0 < ε → ∃ s, S s ∧ d p s < f p + ε)
    (hcross : ∀ p q, inside p → ¬ inside q → ∃ b, S b ∧ d p b + d b q = d p q) (p q : X) :
    |sdf p - sdf q| ≤ d p q :=
  signed_dist_lipschitz d S f inside sdf hsdf hsign hnn hsymm htri hlb hinf hcross p q

end M3d.C06
