import M3d.Lemmas.Partition
import M3d.Lemmas.C2F
import M3d.Lemmas.RastCollider
import M3d.Model.DcRepair
import M3d.Gen.McTable
import Mathlib.Analysis.Real.Sqrt
import Mathlib.Tactic.Linarith
import Mathlib.Algebra.Order.Field.Basic
import Mathlib.Algebra.Order.Field.Rat
import Mathlib.Tactic.NormNum
/-!
# C12 — meshing results do not depend on parallelism, buffering or filtering

Property theorems only.  Models: `M3d/Model/Partition.lean` (block splitting, `Pieces`, the worker
pool of `MarchingCubesFilter`/`MarchingSquaresFilter` as an arbitrary schedule, the ring of slab
caches of `squareSpacer.Scan`, the z-window of `dcCubeLayout`, the tiles of `RasterizeSolidFilter`);
the plain meshes are `M3d.Marching.mcMesh/msMesh` (the models C01 is about) over the lookup tables
REGENERATED from /repo (`M3d.Gen.mcTable/msTable`).
-/
namespace M3d.C12
open M3d.Marching M3d.Partition M3d.Gen M3d.C2F M3d.RastCollider M3d.DcRepair

/-! ## block splitting (`mcBlock.Split`, `msBlock.Split`) -/

/-- `mcBlock.Split`, all blocks: every cell of the block lies in exactly one of the two halves (and
the halves contain nothing else); when the block is splittable (`Volume ≥ 2`, which is what
`Volume/2 ≥ minVolume ≥ 1` gives `Pieces`) both halves are non-empty and strictly smaller. -/
theorem split_partitions (b : Block) :
    (∀ c, (b.Mem c ↔ (b.split.1.Mem c ∨ b.split.2.Mem c)) ∧ ¬ (b.split.1.Mem c ∧ b.split.2.Mem c)) ∧
    b.cells.Perm (b.split.1.cells ++ b.split.2.cells) ∧
    (2 ≤ b.volume → 0 < b.split.1.volume ∧ 0 < b.split.2.volume ∧
      b.split.1.volume < b.volume ∧ b.split.2.volume < b.volume) := by
  refine ⟨fun c => Block.mem_split b c, Block.cells_split_perm b, fun h => ?_⟩
  have hl := Block.split_volume_lt b h
  have ha := Block.split_volume_add b
  omega

/-- 2-D twin: `msBlock.Split`. -/
theorem split2_partitions (b : Block2) :
    (∀ c, (b.Mem c ↔ (b.split.1.Mem c ∨ b.split.2.Mem c)) ∧ ¬ (b.split.1.Mem c ∧ b.split.2.Mem c)) ∧
    b.cells.Perm (b.split.1.cells ++ b.split.2.cells) ∧
    (2 ≤ b.area → 0 < b.split.1.area ∧ 0 < b.split.2.area ∧
      b.split.1.area < b.area ∧ b.split.2.area < b.area) := by
  refine ⟨fun c => Block2.mem_split b c, Block2.cells_split_perm b, fun h => ?_⟩
  have hl := Block2.split_area_lt b h
  have ha := Block2.split_area_add b
  omega

/-! ## `Pieces` -/

/-- `mcBlock.Pieces(minVolume, g, f)`, every block, every `minVolume ≥ 1`, every filter oracle `g`:
the recursion terminates (it is a total Lean function whose termination measure is `Volume`), the
cells of the block are listed without repetition by `cells`, and — up to order — they are exactly
the cells of the leaf blocks handed to `f` together with the cells of the blocks rejected by `g`:
no cell is skipped, none is visited twice, none of a rejected block reaches `f`. -/
theorem pieces_partition (minVol : Nat) (hpos : 0 < minVol) (g : Block → Bool) (b : Block) :
    b.cells.Nodup ∧
    (∀ c, c ∈ b.cells ↔ b.Mem c) ∧
    b.cells.Perm ((pieces minVol hpos g b).flatMap Block.cells ++ (rejected minVol hpos g b).flatMap Block.cells) :=
  ⟨Block.cells_nodup b, Block.mem_cells b, cells_perm_pieces minVol hpos g b⟩

/-- Counting form: a cell of the block occurs exactly once among the cells of leaves and rejected
blocks, a cell outside the block never. -/
theorem pieces_each_cell_once (minVol : Nat) (hpos : 0 < minVol) (g : Block → Bool) (b : Block)
    (c : Nat × Nat × Nat) :
    (b.Mem c → (((pieces minVol hpos g b).flatMap Block.cells ++
        (rejected minVol hpos g b).flatMap Block.cells).count c = 1)) ∧
    (¬ b.Mem c → (((pieces minVol hpos g b).flatMap Block.cells ++
        (rejected minVol hpos g b).flatMap Block.cells).count c = 0)) := by
  have hp := (cells_perm_pieces minVol hpos g b).count_eq c
  constructor
  · intro hm
    rw [← hp]
    exact List.count_eq_one_of_mem (Block.cells_nodup b) ((Block.mem_cells b c).2 hm)
  · intro hm
    rw [← hp]
    exact List.count_eq_zero_of_not_mem (fun h => hm ((Block.mem_cells b c).1 h))

/-- 2-D twin: `msBlock.Pieces`. -/
theorem pieces2_partition (minArea : Nat) (hpos : 0 < minArea) (g : Block2 → Bool) (b : Block2) :
    b.cells.Nodup ∧
    (∀ c, c ∈ b.cells ↔ b.Mem c) ∧
    b.cells.Perm ((pieces2 minArea hpos g b).flatMap Block2.cells ++ (rejected2 minArea hpos g b).flatMap Block2.cells) :=
  ⟨Block2.cells_nodup b, Block2.mem_cells b, cells_perm_pieces2 minArea hpos g b⟩

/-! ## filters and workers -/

/-- The regenerated table draws nothing in a cell whose eight corners are labelled alike (rows 0
and 255 of `mcLookupTable()` are empty) — so cells inside a block that a conservative filter
rejects contribute no triangle. -/
theorem filter_conservative_same_mesh (lab : Nat → Nat → Nat → Bool) (c : Nat × Nat × Nat)
    (h : uniformCell lab c) : cellTris mcTable lab c = [] := by
  have h0 : getRow mcTable 0 = [] := by decide
  have h255 : getRow mcTable 255 = [] := by decide
  unfold cellTris
  rcases cellCfg_uniform lab c h with e | e <;> rw [e]
  · rw [h0]; rfl
  · rw [h255]; rfl

/-- 2-D: rows 0 and 15 of `msLookupTable()` are empty. -/
theorem filter_conservative_same_mesh2 (lab : Nat → Nat → Bool) (c : Nat × Nat)
    (h : uniformCell2 lab c) : cellSegs msTable lab c = [] := by
  have h0 : getRow msTable 0 = [] := by decide
  have h15 : getRow msTable 15 = [] := by decide
  unfold cellSegs
  rcases cellCfg2_uniform lab c h with e | e <;> rw [e]
  · rw [h0]; rfl
  · rw [h15]; rfl

/-- A filter is conservative for a labelling when every block it rejects during the two rounds of
`Pieces` (queue building with `divideVolume`, then per worker with `subDivideVolume`) consists of
cells with eight equally labelled corners. -/
def Conservative (lab : Nat → Nat → Nat → Bool) (g : Block → Bool) (root : Block) : Prop :=
  (∀ r ∈ rejected (divideVolume root.volume) (divideVolume_pos _) g root, ∀ c ∈ r.cells, uniformCell lab c) ∧
  (∀ q ∈ blockQueue g root, ∀ r ∈ rejected subDivideVolume subDivideVolume_pos g q,
    ∀ c ∈ r.cells, uniformCell lab c)

def Conservative2 (lab : Nat → Nat → Bool) (g : Block2 → Bool) (root : Block2) : Prop :=
  (∀ r ∈ rejected2 (divideVolume root.area) (divideVolume_pos _) g root, ∀ c ∈ r.cells, uniformCell2 lab c) ∧
  (∀ q ∈ blockQueue2 g root, ∀ r ∈ rejected2 subDivideVolume subDivideVolume_pos g q,
    ∀ c ∈ r.cells, uniformCell2 lab c)

/-- `MarchingCubesFilter` = `MarchingCubes`, as multisets of faces: for every lattice size, every
labelling, every conservative filter `g`, every number of workers and every way the queue blocks
are received by the workers and the per-worker meshes are merged (`sched`: any list of lists of
blocks that together are the queue), the faces produced are a permutation of the faces of the
plain sequential `mcMesh` over the regenerated table.  (A `*Mesh` is a set of face pointers and
`AddMesh` adds every face, so the list up to order is the mesh.) -/
theorem mesh_indep_of_workers_and_filter (nx ny nz : Nat) (lab : Nat → Nat → Nat → Bool)
    (g : Block → Bool) (sched : List (List Block))
    (hs : Schedule (blockQueue g (rootBlock nx ny nz)) sched)
    (hc : Conservative lab g (rootBlock nx ny nz)) :
    (mcFilterMesh mcTable lab g sched).Perm (mcMesh mcTable nx ny nz lab) := by
  rw [mcMesh_eq_cells]
  exact filter_contrib_perm (cellTris mcTable lab) g (rootBlock nx ny nz) sched hs
    (fun r hr c hcell => filter_conservative_same_mesh lab c (hc.1 r hr c hcell))
    (fun q hq r hr c hcell => filter_conservative_same_mesh lab c (hc.2 q hq r hr c hcell))

/-- non-vacuity: one worker receiving the whole queue is a schedule; the always-true filter is
conservative. -/
example (g : Block → Bool) (root : Block) : Schedule (blockQueue g root) [blockQueue g root] := by
  simp [Schedule]

example (lab : Nat → Nat → Nat → Bool) (root : Block) : Conservative lab (fun _ => true) root := by
  constructor
  · intro r hr; rw [rejected_of_true] at hr; cases hr
  · intro q _ r hr; rw [rejected_of_true] at hr; cases hr


/-- The same for `MarchingSquaresFilter` / `MarchingSquares`. -/
theorem ms_mesh_indep_of_workers_and_filter (nx ny : Nat) (lab : Nat → Nat → Bool)
    (g : Block2 → Bool) (sched : List (List Block2))
    (hs : Schedule2 (blockQueue2 g (rootBlock2 nx ny)) sched)
    (hc : Conservative2 lab g (rootBlock2 nx ny)) :
    (msFilterMesh msTable lab g sched).Perm (msMesh msTable nx ny lab) := by
  rw [msMesh_eq_cells]
  exact filter_contrib_perm2 (cellSegs msTable lab) g (rootBlock2 nx ny) sched hs
    (fun r hr c hcell => filter_conservative_same_mesh2 lab c (hc.1 r hr c hcell))
    (fun q hq r hr c hcell => filter_conservative_same_mesh2 lab c (hc.2 q hq r hr c hcell))

/-- Two runs with different worker counts / schedules / conservative filters give the same face
multiset (both equal the plain one). -/
theorem mesh_same_across_settings (nx ny nz : Nat) (lab : Nat → Nat → Nat → Bool)
    (g1 g2 : Block → Bool) (s1 s2 : List (List Block))
    (h1 : Schedule (blockQueue g1 (rootBlock nx ny nz)) s1) (c1 : Conservative lab g1 (rootBlock nx ny nz))
    (h2 : Schedule (blockQueue g2 (rootBlock nx ny nz)) s2) (c2 : Conservative lab g2 (rootBlock nx ny nz)) :
    (mcFilterMesh mcTable lab g1 s1).Perm (mcFilterMesh mcTable lab g2 s2) :=
  (mesh_indep_of_workers_and_filter nx ny nz lab g1 s1 h1 c1).trans
    (mesh_indep_of_workers_and_filter nx ny nz lab g2 s2 h2 c2).symm

/-- `MarchingCubesSearchFilter` = `MarchingCubesSearch` (and `MarchingCubesInterior`'s mesh), as face
multisets: `mcSearch` replaces every vertex `v` of the mesh by `mcSearchPoint(s, …, v)`, a function
`f` of the vertex alone (the bisection along its lattice edge; the worker pool of `mcSearch` writes
`outVertices[i]` for disjoint `i`), so refining the filtered mesh and refining the plain mesh give
the same faces — every `f`, lattice, labelling, conservative filter and schedule. -/
theorem search_commutes_with_filter {V : Type} (f : Nat × Nat × Nat → V) (nx ny nz : Nat)
    (lab : Nat → Nat → Nat → Bool) (g : Block → Bool) (sched : List (List Block))
    (hs : Schedule (blockQueue g (rootBlock nx ny nz)) sched)
    (hc : Conservative lab g (rootBlock nx ny nz)) :
    ((mcFilterMesh mcTable lab g sched).map fun t => (f t.1, f t.2.1, f t.2.2)).Perm
      ((mcMesh mcTable nx ny nz lab).map fun t => (f t.1, f t.2.1, f t.2.2)) :=
  (mesh_indep_of_workers_and_filter nx ny nz lab g sched hs hc).map _

/-- 2-D twin: `MarchingSquaresSearchFilter` = `MarchingSquaresSearch`. -/
theorem ms_search_commutes_with_filter {V : Type} (f : Nat × Nat → V) (nx ny : Nat)
    (lab : Nat → Nat → Bool) (g : Block2 → Bool) (sched : List (List Block2))
    (hs : Schedule2 (blockQueue2 g (rootBlock2 nx ny)) sched)
    (hc : Conservative2 lab g (rootBlock2 nx ny)) :
    ((msFilterMesh msTable lab g sched).map fun s => (f s.1, f s.2)).Perm
      ((msMesh msTable nx ny lab).map fun s => (f s.1, f s.2)) :=
  (ms_mesh_indep_of_workers_and_filter nx ny lab g sched hs hc).map _

/-! ## the slab pipeline of `MarchingCubes` -/

/-- `squareSpacer.Scan` for every `GOMAXPROCS ≥ 1` and every number of layers: with the ring of
`g+1` caches (`g = min(GOMAXPROCS, len(Zs)-1)`), at step `z` the cache `(z-1) mod (g+1)` holds
layer `z-1` and the cache `z mod (g+1)` holds layer `z`; the callback sees every consecutive pair
of layers exactly once, in order. -/
theorem scan_visits_each_layer_once (procs nz : Nat) (hp : 1 ≤ procs) :
    scan procs nz = (List.range' 1 (nz - 1)).map (fun z => (z, z - 1, z)) :=
  scan_eq procs nz hp

/-- Hence `MarchingCubes` through the pipeline is the plain cell-by-cell mesh for every
`GOMAXPROCS`: list equality, not just up to order. -/
theorem mc_scan_mesh_indep_of_procs (table : List (List (List Nat))) (nx ny nzp procs : Nat)
    (lab : Nat → Nat → Nat → Bool) (hp : 1 ≤ procs) :
    mcScanMesh table nx ny nzp procs lab = mcMesh table nx ny (nzp - 1) lab := by
  unfold mcScanMesh mcMesh
  rw [scan_eq procs nzp hp, List.flatMap_map, List.range'_eq_map_range, List.flatMap_map]
  apply List.flatMap_congr
  intro z _
  have e1 : 1 + z - 1 = z := by omega
  simp only [e1]
  apply List.flatMap_congr
  intro y _
  apply List.flatMap_congr
  intro x _
  rw [show (1 + z) = z + 1 by omega, cellCfgLayers_eq]
  rfl

/-! ## the z-window of dual contouring -/

/-- `dcCubeLayout` windows: for every `len(Zs) = nz`, every buffer height `B` with `2 < B ≤ nz`
(all `BufRows` the constructor can produce for `nz ≥ 3`, see `dc_bufrows_valid`) and every edge
activity pattern, running `appendMesh / Remaining / Shift` until nothing remains triangulates
exactly the active edge slots `0 … 2nz-2`, each once, in increasing order — regardless of `B`.
(`Shift` moves by `min(Remaining, B-2)` rows and carries the `Triangulated` flags; an edge's flag
depends only on that edge, so this is the statement for every single lattice edge.) -/
theorem dc_windows_each_edge_once (nz B : Nat) (hB : 2 < B) (hBn : B ≤ nz) (active : Nat → Bool) :
    (dcRun nz B hB active dcInit).flatten.map Prod.fst = (List.range (2 * nz - 1)).filter active := by
  have h := dcRun_emits nz B hB active _ dcInit 0 rfl (by simpa [dcInit] using hBn) (by omega)
    (dcInit_inv B active)
  simpa [dcInit, List.range_eq_range'] using h

/-- non-vacuity: a 12-layer lattice with the minimal buffer (`BufRows = 4`, five windows in the
correspondence) satisfies the hypotheses; all 23 slots are triangulated. -/
example : (dcRun 12 4 (by decide) (fun _ => true) dcInit).flatten.map Prod.fst = List.range 23 := by
  have h := dc_windows_each_edge_once 12 4 (by decide) (by decide) (fun _ => true)
  simpa using h

/-- The clamp of `newDcCubeLayout` yields a valid buffer height whenever `len(Zs) ≥ 3` (the only
case `mesh` accepts), for every `BufferSize` (0 = default) and every `len(Xs)·len(Ys)`. -/
theorem dc_bufrows_valid (bufSize nx ny nz : Nat) (h : 3 ≤ nz) :
    2 < dcBufRows bufSize nx ny nz ∧ dcBufRows bufSize nx ny nz ≤ nz :=
  dcBufRows_bounds bufSize nx ny nz h

/-- The edges triangulated with one buffer size are the edges triangulated with any other. -/
theorem dc_mesh_indep_of_bufsize (nz B1 B2 : Nat) (h1 : 2 < B1) (h1n : B1 ≤ nz) (h2 : 2 < B2)
    (h2n : B2 ≤ nz) (active : Nat → Bool) :
    (dcRun nz B1 h1 active dcInit).flatten.map Prod.fst = (dcRun nz B2 h2 active dcInit).flatten.map Prod.fst := by
  rw [dc_windows_each_edge_once nz B1 h1 h1n, dc_windows_each_edge_once nz B2 h2 h2n]

/-- In the window in which an X- or Y-edge (even slot) of an inner lattice row (`1 ≤ row ≤ nz-2`)
is triangulated, its local row `l` satisfies `1 ≤ l ≤ B-2`: the two cube rows `l-1, l` that
`EdgeCubes` reads are inside the buffer (this is what the two-row overlap of `Shift` is for). -/
theorem dc_shift_preserves_overlap (nz B : Nat) (hB : 2 < B) (hBn : B ≤ nz) (active : Nat → Bool) :
    ∀ w ∈ dcRun nz B hB active dcInit, ∀ p ∈ w, p.1 % 2 = 0 → 2 ≤ p.1 → p.1 < 2 * (nz - 1) →
      2 ≤ p.2 ∧ p.2 + 2 < 2 * B :=
  dcRun_local nz B hB active _ dcInit 0 rfl (by simpa [dcInit] using hBn) (by omega)
    (dcInit_inv B active) (Or.inr rfl)

/-! ## `Repair = true`: the order of the repair steps -/

/-- `DualContouring.mesh` with `Repair = true` (since fix 09ce28e): the singular groups are sorted
by a total order on their coordinates before `group.Repair` is applied to one after the other, so
the repaired mesh does not depend on the order in which the groups were ENUMERATED (Go map
iteration: `EdgeToSlice.Range`, `Mesh.Iterate`, `ptrCoord.Clusters`) — for every repair step
function, every mesh, any two enumerations of the same groups.  The order `le` must be total,
transitive and separate distinct groups (distinct singular edges / vertices have distinct
coordinates).  Same statement for the floating-point sum over the (sorted) triangles of a vertex
cluster and for the triangles round a singular edge (sorted by angle, equal angles by coordinates:
a total order on distinct triangles), whose order decides how they are paired. -/
theorem dc_repair_indep_of_enumeration {G M : Type} (le : G → G → Bool)
    (htrans : ∀ a b c, le a b = true → le b c = true → le a c = true)
    (htotal : ∀ a b, (le a b || le b a) = true)
    (hanti : ∀ a b, le a b = true → le b a = true → a = b)
    (step : M → G → M) (enum₁ enum₂ : List G) (h : enum₁.Perm enum₂) (m : M) :
    repairSorted le step enum₁ m = repairSorted le step enum₂ m := by
  unfold repairSorted
  have hp : (enum₁.mergeSort le).Perm (enum₂.mergeSort le) :=
    ((List.mergeSort_perm enum₁ le).trans h).trans (List.mergeSort_perm enum₂ le).symm
  rw [List.Perm.eq_of_pairwise (le := fun a b => le a b = true) (fun a b _ _ => hanti a b)
    (List.pairwise_mergeSort htrans htotal enum₁) (List.pairwise_mergeSort htrans htotal enum₂) hp]

/-- non-vacuity, and why the sort is needed: `≤` on `Nat` is such an order; with the
non-commuting step "cons" the result in ENUMERATION order (the code before 09ce28e,
`repairEnumOrder`) differs between two enumerations of the same two groups, the sorted one does
not. -/
example : repairEnumOrder (fun (m : List Nat) g => g :: m) [1, 2] [] ≠
      repairEnumOrder (fun (m : List Nat) g => g :: m) [2, 1] [] ∧
    repairSorted (fun a b => decide (a ≤ b)) (fun (m : List Nat) g => g :: m) [1, 2] [] =
      repairSorted (fun a b => decide (a ≤ b)) (fun (m : List Nat) g => g :: m) [2, 1] [] := by
  refine ⟨by decide, ?_⟩
  exact dc_repair_indep_of_enumeration (fun a b => decide (a ≤ b))
    (fun a b c h1 h2 => by simp only [decide_eq_true_eq] at *; omega)
    (fun a b => by simp only [Bool.or_eq_true, decide_eq_true_eq]; omega)
    (fun a b h1 h2 => by simp only [decide_eq_true_eq] at *; omega)
    _ [1, 2] [2, 1] (List.Perm.swap 2 1 []) []

/-! ## raster tiles -/

/-- The tiles of `RasterizeSolidFilter` (any image size, any tile size ≥ 1, i.e. any `Subsamples`)
partition the pixels: the pixels of all tiles are, up to order, every pixel exactly once. -/
theorem tiles_partition_pixels (w h fs : Nat) (hfs : 0 < fs) :
    ((tiles w h fs).flatMap tilePixels).Perm (allPixels w h) ∧ (allPixels w h).Nodup ∧
    (∀ p, p ∈ allPixels w h ↔ p.1 < w ∧ p.2 < h) :=
  ⟨tiles_pixels_perm w h fs hfs, allPixels_nodup w h, mem_allPixels w h⟩

/-- `filterSize = max(1, 16/subsamples)` is a valid tile size. -/
theorem filterSize_pos (ss : Nat) : 0 < filterSize ss := by unfold filterSize; omega

/-- If the solid takes one value on the tile's mid point and on every sub-sample point of a pixel,
the colour written by the tile fill (0 inside, 255 outside) is the colour `rasterizePixel` would
have produced for that pixel. -/
theorem tile_fill_eq_render {P : Type} (sh : Shade) (contains : P → Bool) (samples : Nat × Nat → List P)
    (mid : Tile → P) (t : Tile) (p : Nat × Nat) (hne : samples p ≠ [])
    (hu : ∀ q ∈ samples p, contains q = contains (mid t)) :
    fillTile contains mid t = renderPixel sh contains samples p := by
  unfold fillTile renderPixel
  cases hm : contains (mid t)
  · rw [insideCount_none contains _ (fun q hq => (hu q hq).trans hm), sh.empty]
    simp
  · rw [insideCount_all contains _ (fun q hq => (hu q hq).trans hm),
      sh.full _ (List.length_pos_iff.2 hne)]
    simp

/-- `RasterizeSolidFilter` = `RasterizeSolid` for every conservative filter: if the filter only
skips tiles on which the solid is constant (mid point and all sub-samples of its pixels), the
pixel writes are those of the unfiltered rasteriser, each pixel written once. -/
theorem raster_indep_of_filter {P : Type} (sh : Shade) (contains : P → Bool) (samples : Nat × Nat → List P)
    (mid : Tile → P) (w h fs : Nat) (hfs : 0 < fs) (keep : Tile → Bool)
    (hne : ∀ p, samples p ≠ [])
    (hc : ∀ t ∈ tiles w h fs, keep t = false → ∀ p ∈ tilePixels t, ∀ q ∈ samples p,
      contains q = contains (mid t)) :
    (rasterFilter w h fs keep (fillTile contains mid) (renderPixel sh contains samples)).Perm
      (rasterPlain w h (renderPixel sh contains samples)) := by
  unfold rasterFilter rasterPlain
  have e : (tiles w h fs).flatMap (fun t => (tilePixels t).map fun p =>
        (p, if keep t then renderPixel sh contains samples p else fillTile contains mid t))
      = (tiles w h fs).flatMap (fun t => (tilePixels t).map fun p => (p, renderPixel sh contains samples p)) := by
    apply List.flatMap_congr
    intro t ht
    apply List.map_congr_left
    intro p hp
    cases hk : keep t
    · simp only [Bool.false_eq_true, if_false]
      rw [tile_fill_eq_render sh contains samples mid t p (hne p) (hc t ht hk p hp)]
    · simp
  rw [e, ← List.map_flatMap]
  exact (tiles_pixels_perm w h fs hfs).map _

/-! ## the tile filter of `RasterizeCollider`

`RasterizeCollider` renders the hollow solid "within `e = 0.5·LineWidth/Scale` of the collider" through
`RasterizeSolidFilter` with the filter `c.CircleCollision(center, MinVal.Dist(center) + margin)`.  The
theorems below show that this filter is conservative — for every image geometry, tile size, line
width and scale — exactly when the margin is at least the radius `e` of the hollow solid, IN MODEL
UNITS; `M3d.RastMarginTie` proves `e ≤ margin` for the two expressions REGENERATED from the source.
`math.Sqrt` (inside `Coord.Dist`) is the parameter `sq` with `sq x · sq x = x`, `0 ≤ sq x`.  The
collider enters through its circle test `hits`, assumed exact (`hspec`: C07/C08). -/

/-- The geometric core, every ordered field: a tile rectangle `[lo, hi]`, a point `p` of it that lies
within `e` of some point `q` of the collider `C`, a margin `≥ e ≥ 0`.  Then `q` lies within
`MinVal.Dist(center) + margin` of the tile's mid point — the filter's circle test succeeds.  (So a
tile the filter skips contains no point of the thick line.) -/
theorem collider_filter_conservative {K : Type} [Field K] [LinearOrder K] [IsStrictOrderedRing K]
    (sq : K → K) (hsq : ∀ x : K, 0 ≤ x → sq x * sq x = x ∧ 0 ≤ sq x)
    (C : P2 K → Prop) (lo hi p : P2 K) (e margin : K) (he : 0 ≤ e) (hm : e ≤ margin)
    (hx : lo.x ≤ p.x ∧ p.x ≤ hi.x) (hy : lo.y ≤ p.y ∧ p.y ≤ hi.y)
    (hhit : ∃ q, C q ∧ sqDist p q ≤ e * e) :
    ∃ q, C q ∧ sqDist (mid lo hi) q ≤
      (sq (sqDist lo (mid lo hi)) + margin) * (sq (sqDist lo (mid lo hi)) + margin) := by
  obtain ⟨q, hq, hd⟩ := hhit
  obtain ⟨h2, h0⟩ := hsq _ (sqDist_nonneg lo (mid lo hi))
  refine ⟨q, hq, ?_⟩
  have h1 : sqDist (mid lo hi) p ≤ sq (sqDist lo (mid lo hi)) * sq (sqDist lo (mid lo hi)) := by
    rw [h2]; exact sqDist_mid_le lo hi p hx hy
  have ht := sqDist_triangle (mid lo hi) p q _ e h0 he h1 hd
  exact le_trans ht (mul_self_le_mul_self (add_nonneg h0 he) (by linarith))

/-- The sub-sample points `rasterizePixel` evaluates for the pixels of a tile, and the mid point whose
colour fills a skipped tile, lie in the rectangle `RasterizeSolidFilter` hands to the filter — every
image origin, pixel size `≥ 0`, sub-sample count and tile.  (This was a hypothesis of
`raster_indep_of_filter`; here it is proved for the tile geometry of the code.) -/
theorem raster_samples_in_tile {K : Type} [Field K] [LinearOrder K] [IsStrictOrderedRing K]
    (mn : P2 K) (pw ph : K) (hpw : 0 ≤ pw) (hph : 0 ≤ ph) (w h fs ss : Nat) (t : Tile)
    (ht : t ∈ tiles w h fs) :
    (∀ p ∈ tilePixels t, ∀ q ∈ samples mn pw ph ss p,
      ((tileLo mn pw ph t).x ≤ q.x ∧ q.x ≤ (tileHi mn pw ph t).x) ∧
      ((tileLo mn pw ph t).y ≤ q.y ∧ q.y ≤ (tileHi mn pw ph t).y)) ∧
    (((tileLo mn pw ph t).x ≤ (tileMid mn pw ph t).x ∧ (tileMid mn pw ph t).x ≤ (tileHi mn pw ph t).x) ∧
      ((tileLo mn pw ph t).y ≤ (tileMid mn pw ph t).y ∧ (tileMid mn pw ph t).y ≤ (tileHi mn pw ph t).y)) := by
  refine ⟨fun p hp q hq => samples_in_tile mn pw ph hpw hph ss t p hp q hq, ?_⟩
  obtain ⟨h1, h2⟩ := tile_nonempty w h fs t ht
  have hc := corner_mono mn pw ph hpw hph t.x t.nextX t.y t.nextY h1 h2
  exact mid_mem _ _ hc.1 hc.2

/-- `RasterizeSolidFilter` = `RasterizeSolid` for every filter that is conservative ON THE RECTANGLE IT
IS HANDED: if the filter returns false only for tiles on whose closed rectangle `[tileLo, tileHi]`
the solid is constant, the pixel writes are those of the unfiltered rasteriser — every solid, image
size and origin, pixel size `≥ 0`, `Subsamples ≥ 1`.  (`raster_indep_of_filter` with its hypothesis
about sample points discharged by `raster_samples_in_tile`.) -/
theorem raster_rect_filter_indep {K : Type} [Field K] [LinearOrder K] [IsStrictOrderedRing K]
    (sh : Shade) (contains : P2 K → Bool) (keep : Tile → Bool)
    (mn : P2 K) (pw ph : K) (hpw : 0 ≤ pw) (hph : 0 ≤ ph) (w h ss : Nat) (hss : 0 < ss)
    (hcons : ∀ t ∈ tiles w h (filterSize ss), keep t = false → ∀ z z' : P2 K,
      ((tileLo mn pw ph t).x ≤ z.x ∧ z.x ≤ (tileHi mn pw ph t).x) →
      ((tileLo mn pw ph t).y ≤ z.y ∧ z.y ≤ (tileHi mn pw ph t).y) →
      ((tileLo mn pw ph t).x ≤ z'.x ∧ z'.x ≤ (tileHi mn pw ph t).x) →
      ((tileLo mn pw ph t).y ≤ z'.y ∧ z'.y ≤ (tileHi mn pw ph t).y) → contains z = contains z') :
    (rasterFilter w h (filterSize ss) keep (fillTile contains (tileMid mn pw ph))
        (renderPixel sh contains (samples mn pw ph ss))).Perm
      (rasterPlain w h (renderPixel sh contains (samples mn pw ph ss))) := by
  refine raster_indep_of_filter sh _ _ _ w h (filterSize ss) (filterSize_pos ss) _
    (fun p => samples_ne_nil mn pw ph ss hss p) ?_
  intro t ht hk p hp q hq
  obtain ⟨hsamp, hmid⟩ := raster_samples_in_tile mn pw ph hpw hph w h (filterSize ss) ss t ht
  obtain ⟨hqx, hqy⟩ := hsamp p hp q hq
  exact hcons t ht hk q _ hqx hqy hmid.1 hmid.2

/-- `RasterizeCollider` = the unfiltered rendering of its hollow solid, as pixel writes: for every
image size and origin, pixel size, `Subsamples ≥ 1`, collider (a point set `C` with an exact circle
test), bounds test of the solid, radius `e ≥ 0` of the hollow solid and filter margin `≥ e`.
With a margin below `e` (e.g. half the line width in PIXELS when `Scale < 1`) the statement is
false: a tile the thick line enters near a corner is skipped. -/
theorem raster_collider_indep_of_filter {K : Type} [Field K] [LinearOrder K] [IsStrictOrderedRing K]
    (sq : K → K) (hsq : ∀ x : K, 0 ≤ x → sq x * sq x = x ∧ 0 ≤ sq x)
    (sh : Shade) (C : P2 K → Prop) (hits : P2 K → K → Bool)
    (hspec : ∀ c r, 0 ≤ r → (hits c r = true ↔ ∃ q, C q ∧ sqDist c q ≤ r * r))
    (inB : P2 K → Bool) (mn : P2 K) (pw ph : K) (hpw : 0 ≤ pw) (hph : 0 ≤ ph)
    (w h ss : Nat) (hss : 0 < ss) (e margin : K) (he : 0 ≤ e) (hm : e ≤ margin) :
    (rasterFilter w h (filterSize ss) (colliderKeep sq hits margin mn pw ph)
        (fillTile (hollowContains inB hits e) (tileMid mn pw ph))
        (renderPixel sh (hollowContains inB hits e) (samples mn pw ph ss))).Perm
      (rasterPlain w h (renderPixel sh (hollowContains inB hits e) (samples mn pw ph ss))) := by
  refine raster_indep_of_filter sh _ _ _ w h (filterSize ss) (filterSize_pos ss) _
    (fun p => samples_ne_nil mn pw ph ss hss p) ?_
  intro t ht hk p hp q hq
  obtain ⟨hsamp, hmid⟩ := raster_samples_in_tile mn pw ph hpw hph w h (filterSize ss) ss t ht
  -- no point of the tile's rectangle is within `e` of the collider
  have nohit : ∀ z : P2 K, ((tileLo mn pw ph t).x ≤ z.x ∧ z.x ≤ (tileHi mn pw ph t).x) →
      ((tileLo mn pw ph t).y ≤ z.y ∧ z.y ≤ (tileHi mn pw ph t).y) → hits z e = false := by
    intro z hzx hzy
    by_contra hne
    have hz : hits z e = true := by simpa using hne
    have hex := collider_filter_conservative sq hsq C _ _ z e margin he hm hzx hzy ((hspec z e he).1 hz)
    obtain ⟨_, h0⟩ := hsq _ (sqDist_nonneg (tileLo mn pw ph t) (mid (tileLo mn pw ph t) (tileHi mn pw ph t)))
    have hkeep : colliderKeep sq hits margin mn pw ph t = true := by
      unfold colliderKeep tileMid
      exact (hspec _ _ (by linarith)).2 hex
    rw [hk] at hkeep
    cases hkeep
  obtain ⟨hqx, hqy⟩ := hsamp p hp q hq
  simp only [hollowContains, nohit q hqx hqy, nohit _ hmid.1 hmid.2, Bool.and_false]

/-- non-vacuity of `collider_filter_conservative` / `raster_collider_indep_of_filter` over ℝ with
`Real.sqrt`: the hypotheses on `sq` hold, and for the tile `[0,2]²`, the point `p = (2,2)` of it and
the collider point `q = (2,3)` at distance `e = 1`, the conclusion holds with the margin `1` (and
`q` is at distance `√2 + 0.41…` from the centre `(1,1)`, so a margin of `0.4` would not do). -/
example : (∀ x : ℝ, 0 ≤ x → Real.sqrt x * Real.sqrt x = x ∧ 0 ≤ Real.sqrt x) ∧
    ∃ q : P2 ℝ, q = ⟨2, 3⟩ ∧ sqDist (mid (⟨0, 0⟩ : P2 ℝ) ⟨2, 2⟩) q ≤
      (Real.sqrt (sqDist (⟨0, 0⟩ : P2 ℝ) (mid ⟨0, 0⟩ ⟨2, 2⟩)) + 1) *
      (Real.sqrt (sqDist (⟨0, 0⟩ : P2 ℝ) (mid ⟨0, 0⟩ ⟨2, 2⟩)) + 1) := by
  have hs : ∀ x : ℝ, 0 ≤ x → Real.sqrt x * Real.sqrt x = x ∧ 0 ≤ Real.sqrt x :=
    fun x hx => ⟨Real.mul_self_sqrt hx, Real.sqrt_nonneg x⟩
  refine ⟨hs, ?_⟩
  exact collider_filter_conservative Real.sqrt hs (fun q => q = ⟨2, 3⟩) ⟨0, 0⟩ ⟨2, 2⟩ ⟨2, 2⟩ 1 1
    (by norm_num) (le_refl _) (by norm_num) (by norm_num)
    ⟨⟨2, 3⟩, rfl, by norm_num [sqDist]⟩

/-! ## coarse-to-fine (`MarchingSquaresC2F`, `MarchingCubesC2F`)

Reading of "all coarse spacings that still see every feature" used by the check (and evaluated by
the DRIVER on every `msc2f`/`mcc2f` case with `R = m`): `seenAll2/3 m R` — every fine cell with a sign
change is, in the max-norm, within `R·δ` of a coarse cell with a sign change; for `R = m` (one coarse
spacing) this says: the coarse cell the feature lies in, or one that shares a face, an edge or a
corner with it, is crossed by the coarse mesh.  Under that hypothesis the theorems below show that
the filter rejects only blocks without sign change whenever the margin is at least `(R+m)·δ`
(`= 2·bigDelta` for `R = m`), and hence — by `filter_contrib_perm` — that the C2F face multiset is the
plain one.  `M3d.C2FMarginTie` proves `2·bigDelta ≤ margin` for the margin expressions REGENERATED
from the source. -/

/-- A fine cell without sign change draws nothing (rows 0 and 15 of the regenerated table). -/
theorem c2f_not_mixed_no_segs (lab : Nat → Nat → Bool) (c : Nat × Nat) (h : mixed2 lab c = false) :
    cellSegs msTable lab c = [] := by
  have h0 : getRow msTable 0 = [] := by decide
  have h15 : getRow msTable 15 = [] := by decide
  unfold mixed2 at h
  unfold cellSegs
  by_cases e0 : cellCfg2 lab c.1 c.2 = 0
  · rw [e0, h0]; rfl
  · by_cases e1 : cellCfg2 lab c.1 c.2 = 15
    · rw [e1, h15]; rfl
    · simp [e0, e1] at h

theorem c2f_not_mixed_no_tris (lab : Nat → Nat → Nat → Bool) (c : Nat × Nat × Nat)
    (h : mixed3 lab c = false) : cellTris mcTable lab c = [] := by
  have h0 : getRow mcTable 0 = [] := by decide
  have h255 : getRow mcTable 255 = [] := by decide
  unfold mixed3 at h
  unfold cellTris
  by_cases e0 : cellCfg lab c.1 c.2.1 c.2.2 = 0
  · rw [e0, h0]; rfl
  · by_cases e1 : cellCfg lab c.1 c.2.1 c.2.2 = 255
    · rw [e1, h255]; rfl
    · simp [e0, e1] at h

/-- `MarchingSquaresC2F` = `MarchingSquares(Search)` at the fine spacing, discrete core.  For every
ratio `m`, reach `R`, lattice sizes, fine and coarse labellings, every block oracle `g` (the region
filter) and every schedule of the worker pool: if the coarse spacing sees every feature with reach
`R` (`seenAll2`) and the filter keeps every block that contains a cell within reach `R` of a coarse
sign-change cell (`hkeep`; discharged for the geometric filter by `c2f_ms_sound`), then the faces
produced are a permutation of the plain fine mesh. -/
theorem c2f_ms_mesh_eq (m R nx ny cnx cny : Nat) (labF labC : Nat → Nat → Bool)
    (g : Block2 → Bool) (sched : List (List Block2))
    (hs : Schedule2 (blockQueue2 g (rootBlock2 nx ny)) sched)
    (hseen : seenAll2 m R labF labC nx ny cnx cny = true)
    (hkeep : ∀ b c J, c ∈ b.cells → J ∈ coarseMixed2 labC cnx cny → near2 m R c J = true → g b = true) :
    (msFilterMesh msTable labF g sched).Perm (msMesh msTable nx ny labF) := by
  have key : ∀ b, g b = false → ∀ c ∈ b.cells, c ∈ (rootBlock2 nx ny).cells →
      cellSegs msTable labF c = [] := by
    intro b hb c hc hroot
    have h := (List.all_eq_true.1 hseen) c hroot
    rcases Bool.or_eq_true_iff.1 h with h1 | h2
    · exact c2f_not_mixed_no_segs labF c (by simpa using h1)
    · obtain ⟨J, hJ, hn⟩ := List.any_eq_true.1 h2
      have := hkeep b c J hc hJ hn
      rw [hb] at this; cases this
  rw [msMesh_eq_cells]
  exact filter_contrib_perm2 (cellSegs msTable labF) g (rootBlock2 nx ny) sched hs
    (fun r hr c hcell => by
      obtain ⟨e1, e2⟩ := rejected2_spec _ _ g _ r hr
      exact key r e1 c hcell (e2 c hcell))
    (fun q hq r hr c hcell => by
      obtain ⟨e1, e2⟩ := rejected2_spec _ _ g q r hr
      exact key r e1 c hcell (pieces2_sub _ _ g _ q hq c (e2 c hcell)))

/-- 3-D twin: `MarchingCubesC2F`. -/
theorem c2f_mc_mesh_eq (m R nx ny nz cnx cny cnz : Nat) (labF labC : Nat → Nat → Nat → Bool)
    (g : Block → Bool) (sched : List (List Block))
    (hs : Schedule (blockQueue g (rootBlock nx ny nz)) sched)
    (hseen : seenAll3 m R labF labC nx ny nz cnx cny cnz = true)
    (hkeep : ∀ b c J, c ∈ b.cells → J ∈ coarseMixed3 labC cnx cny cnz → near3 m R c J = true → g b = true) :
    (mcFilterMesh mcTable labF g sched).Perm (mcMesh mcTable nx ny nz labF) := by
  have key : ∀ b, g b = false → ∀ c ∈ b.cells, c ∈ (rootBlock nx ny nz).cells →
      cellTris mcTable labF c = [] := by
    intro b hb c hc hroot
    have h := (List.all_eq_true.1 hseen) c hroot
    rcases Bool.or_eq_true_iff.1 h with h1 | h2
    · exact c2f_not_mixed_no_tris labF c (by simpa using h1)
    · obtain ⟨J, hJ, hn⟩ := List.any_eq_true.1 h2
      have := hkeep b c J hc hJ hn
      rw [hb] at this; cases this
  rw [mcMesh_eq_cells]
  exact filter_contrib_perm (cellTris mcTable labF) g (rootBlock nx ny nz) sched hs
    (fun r hr c hcell => by
      obtain ⟨e1, e2⟩ := rejected_spec _ _ g _ r hr
      exact key r e1 c hcell (e2 c hcell))
    (fun q hq r hr c hcell => by
      obtain ⟨e1, e2⟩ := rejected_spec _ _ g q r hr
      exact key r e1 c hcell (pieces_sub _ _ g _ q hq c (e2 c hcell)))

/-- non-vacuity of `c2f_ms_mesh_eq`: a 4×4-cell fine lattice with one inside point, ratio 2, coarse
lattice 3×3 cells with the same point inside: the coarse pass sees every feature with reach 0, and
the always-true filter satisfies `hkeep`. -/
example : seenAll2 2 0 (fun x y => x == 2 && y == 2) (fun x y => x == 1 && y == 1) 4 4 3 3 = true := by
  decide

/-- The covering arithmetic of the margin, all axes (generalises the former
`c2f_margin_sound_partial`, which was the case `r = 0`): a fine cell `[a, a+δ]ⁿ` inside a block
with bounds `[lo, hi]`; a coarse cell `[c, c+Δ]ⁿ` whose max-norm distance to the fine cell is at most
`r`; a point `v` of that coarse cell (e.g. a coarse-mesh vertex — vertices stay on the edges of
their coarse cell also after `msSearch/mcSearch`); a margin `M ≥ r + Δ`.  Then `v` lies in the
block's bounds grown by `M`, so a rect-collision filter over the coarse mesh keeps the block. -/
theorem c2f_cover {K : Type} [Field K] [LinearOrder K] [IsStrictOrderedRing K] {n : Nat}
    (lo hi a c v : Fin n → K) (δ Δ r M : K)
    (hblock : ∀ i, lo i ≤ a i ∧ a i + δ ≤ hi i)
    (hnear : ∀ i, a i ≤ c i + Δ + r ∧ c i ≤ a i + δ + r)
    (hv : ∀ i, c i ≤ v i ∧ v i ≤ c i + Δ) (hM : r + Δ ≤ M) :
    ∀ i, lo i - M ≤ v i ∧ v i ≤ hi i + M := fun i =>
  cover_axis (lo i) (hi i) (a i) (c i) (v i) δ Δ r M (hblock i).1 (hblock i).2
    (hnear i).1 (hnear i).2 (hv i).1 (hv i).2 hM

/-- The instance with the constants of the code (both `MarchingSquaresC2F` and `MarchingCubesC2F`
add `2·bigDelta·√3`; `s` stands for `√3`): reach `r ≤ Δ`, margin `extra + 2·Δ·s` with `extra ≥ 0`.
(The literal expressions are regenerated from the source and compared with `2·Δ` in
`M3d.C2FMarginTie`.) -/
theorem c2f_margin_sound {K : Type} [Field K] [LinearOrder K] [IsStrictOrderedRing K] {n : Nat}
    (lo hi a c v : Fin n → K) (δ Δ r extra s : K)
    (hs : s * s = 3) (hs0 : 0 ≤ s) (hΔ : 0 ≤ Δ) (he : 0 ≤ extra) (hr : r ≤ Δ)
    (hblock : ∀ i, lo i ≤ a i ∧ a i + δ ≤ hi i)
    (hnear : ∀ i, a i ≤ c i + Δ + r ∧ c i ≤ a i + δ + r)
    (hv : ∀ i, c i ≤ v i ∧ v i ≤ c i + Δ) :
    ∀ i, lo i - (extra + 2 * Δ * s) ≤ v i ∧ v i ≤ hi i + (extra + 2 * Δ * s) := by
  have hs1 : 1 ≤ s := by nlinarith
  have hm : r + Δ ≤ extra + 2 * Δ * s := by nlinarith [mul_nonneg hΔ (sub_nonneg.2 hs1)]
  exact c2f_cover lo hi a c v δ Δ r _ hblock hnear hv hm

/-- non-vacuity of `c2f_cover` / `c2f_margin_sound`: over ℚ, a unit fine cell at the origin of a
block `[0,1]²`, a coarse cell `[2,3]²` at distance `r = 1`, its corner `v = (3,3)`, margin `2`. -/
example : ∀ _i : Fin 2, (0 : ℚ) - 2 ≤ 3 ∧ (3 : ℚ) ≤ 1 + 2 :=
  c2f_cover (K := ℚ) (fun _ => 0) (fun _ => 1) (fun _ => 0) (fun _ => 2) (fun _ => 3) 1 1 1 2
    (fun _ => by norm_num) (fun _ => by norm_num) (fun _ => by norm_num) (by norm_num)

/-- the first row entry of the regenerated marching-squares table for configuration `k` is a
segment (four corner indices) -/
def rowHeadOk2 (k : Nat) : Bool :=
  match getRow msTable k with
  | [_, _, _, _] :: _ => true
  | _ => false

def rowHeadOk3 (k : Nat) : Bool :=
  match getRow mcTable k with
  | [_, _, _, _, _, _] :: _ => true
  | _ => false

/-- Every cell with a sign change carries a mesh vertex, and that vertex lies on the cell (doubled
lattice coordinates: the cell `(x,y)` is `[2x, 2x+2] × [2y, 2y+2]`): rows 1…14 of the REGENERATED
table are non-empty.  This is the hypothesis `hverts` of `c2f_ms_sound` for the coarse mesh before
`msSearch` (which keeps every vertex on its lattice edge). -/
theorem coarse_mixed_cell_has_vertex2 (lab : Nat → Nat → Bool) (c : Nat × Nat)
    (h : mixed2 lab c = true) :
    ∃ s ∈ cellSegs msTable lab c, (2 * c.1 ≤ s.1.1 ∧ s.1.1 ≤ 2 * c.1 + 2) ∧
      (2 * c.2 ≤ s.1.2 ∧ s.1.2 ≤ 2 * c.2 + 2) := by
  have htab : ∀ k, k < 16 → k ≠ 0 → k ≠ 15 → rowHeadOk2 k = true := by decide
  have hlt := cellCfg2_lt lab c.1 c.2
  simp only [mixed2, Bool.and_eq_true, bne_iff_ne, ne_eq] at h
  have hk := htab _ hlt h.1 h.2
  unfold rowHeadOk2 at hk
  unfold cellSegs
  split at hk
  · rename_i a0 a1 b0 b1 rest heq
    rw [heq]
    refine ⟨(gv2Of c.1 c.2 a0 a1, gv2Of c.1 c.2 b0 b1), by simp, ?_⟩
    have := cornerOff_le a0 0; have := cornerOff_le a1 0
    have := cornerOff_le a0 1; have := cornerOff_le a1 1
    simp only [gv2Of]
    omega
  · cases hk

/-- 3-D twin (rows 1…254 of the regenerated marching-cubes table are non-empty). -/
theorem coarse_mixed_cell_has_vertex3 (lab : Nat → Nat → Nat → Bool) (c : Nat × Nat × Nat)
    (h : mixed3 lab c = true) :
    ∃ t ∈ cellTris mcTable lab c, (2 * c.1 ≤ t.1.1 ∧ t.1.1 ≤ 2 * c.1 + 2) ∧
      (2 * c.2.1 ≤ t.1.2.1 ∧ t.1.2.1 ≤ 2 * c.2.1 + 2) ∧
      (2 * c.2.2 ≤ t.1.2.2 ∧ t.1.2.2 ≤ 2 * c.2.2 + 2) := by
  have htab : (List.range 256).all (fun k => k == 0 || k == 255 || rowHeadOk3 k) = true := by
    decide +kernel
  have hlt := cellCfg_lt lab c.1 c.2.1 c.2.2
  simp only [mixed3, Bool.and_eq_true, bne_iff_ne, ne_eq] at h
  have hk := List.all_eq_true.1 htab _ (List.mem_range.2 hlt)
  simp only [Bool.or_eq_true, beq_iff_eq, h.1, h.2, false_or] at hk
  unfold rowHeadOk3 at hk
  unfold cellTris
  split at hk
  · rename_i a0 a1 b0 b1 c0 c1 rest heq
    rw [heq]
    refine ⟨(gvOf c.1 c.2.1 c.2.2 a0 a1, gvOf c.1 c.2.1 c.2.2 b0 b1, gvOf c.1 c.2.1 c.2.2 c0 c1),
      by simp, ?_⟩
    have := cornerOff_le a0 0; have := cornerOff_le a1 0
    have := cornerOff_le a0 1; have := cornerOff_le a1 1
    have := cornerOff_le a0 2; have := cornerOff_le a1 2
    simp only [gvOf]
    omega
  · cases hk

/-- `msSearch` / `mcSearchPoint` (model `M3d.C2F.searchAxis`: `iters` halvings between the outside end
`f` and the inside end `t` of the lattice edge, then the midpoint) never move a vertex off its
lattice edge, whatever the solid answers: this is why `hverts` of `c2f_ms_sound` (a vertex in the
closed box of every coarse sign-change cell, `coarse_mixed_cell_has_vertex2/3` before the search)
also holds for the searched coarse mesh.  (The bisection is modelled from the source, not tied; on
the real code the harness checks `hverts` itself for every generated solid, kind `same …-hverts`.) -/
theorem c2f_search_stays_on_edge {K : Type} [Field K] [LinearOrder K] [IsStrictOrderedRing K]
    (inside : K → Bool) (iters : Nat) (f t : K) :
    min f t ≤ searchAxis inside iters f t ∧ searchAxis inside iters f t ≤ max f t :=
  searchAxis_mem inside (min f t) (max f t) iters f t (min_le_left _ _) (le_max_left _ _)
    (min_le_right _ _) (le_max_right _ _)

/-- The region filter of `MarchingSquaresC2F` seen as a block oracle: SOME vertex of the coarse
mesh lies in the block's bounds `Bounds(ε)` grown by `M` (then `collider.RectCollision` of the
expanded rect is true — completeness of `RectCollision` for a segment with an end point inside the
rect is C07/C08).  Fine lattice `fx + i·δ`, `fy + j·δ`. -/
def C2FKeeps2 {K : Type} [Field K] [LinearOrder K] (verts : List (K × K)) (fx fy δ ε M : K)
    (b : Block2) : Prop :=
  ∃ v ∈ verts, (fx + b.x0 * δ - ε - M ≤ v.1 ∧ v.1 ≤ fx + b.x1 * δ + ε + M) ∧
    (fy + b.y0 * δ - ε - M ≤ v.2 ∧ v.2 ≤ fy + b.y1 * δ + ε + M)

def C2FKeeps3 {K : Type} [Field K] [LinearOrder K] (verts : List (K × K × K)) (fx fy fz δ ε M : K)
    (b : Block) : Prop :=
  ∃ v ∈ verts, (fx + b.x0 * δ - ε - M ≤ v.1 ∧ v.1 ≤ fx + b.x1 * δ + ε + M) ∧
    (fy + b.y0 * δ - ε - M ≤ v.2.1 ∧ v.2.1 ≤ fy + b.y1 * δ + ε + M) ∧
    (fz + b.z0 * δ - ε - M ≤ v.2.2 ∧ v.2.2 ≤ fz + b.z1 * δ + ε + M)

/-- coordinate of the coarse lattice point `J` along an axis whose fine lattice starts at `f`
(both lattices start one spacing below `s.Min()`: `Min - Δ = f - (m-1)·δ`) -/
def coarseCoord {K : Type} [Field K] (f δ : K) (m J : Nat) : K := f - ((m : K) - 1) * δ + J * ((m : K) * δ)

/-- `MarchingSquaresC2F` is sound for every coarse spacing that sees every feature: for every
ratio `m` (`bigDelta = m·smallDelta`), reach `R`, solid (through its two labellings), schedule of the
worker pool and filter `g` that keeps a block whenever a coarse-mesh vertex lies in its bounds grown
by `M` — if the coarse spacing sees every feature with reach `R`, the coarse mesh has a vertex on
every coarse sign-change cell (`hverts`; true of marching squares, see `coarse_mixed_cell_has_vertex2`,
and preserved by `msSearch`, which moves a vertex along its lattice edge), and `M ≥ (R+m)·δ`, then
the C2F face multiset is the plain fine one.  With `R = m`: `M ≥ 2·bigDelta`, which the regenerated
margin satisfies (`M3d.C2FMarginTie.ms_total_margin_covers`). -/
theorem c2f_ms_sound {K : Type} [Field K] [LinearOrder K] [IsStrictOrderedRing K]
    (m R nx ny cnx cny : Nat) (labF labC : Nat → Nat → Bool)
    (g : Block2 → Bool) (sched : List (List Block2))
    (hs : Schedule2 (blockQueue2 g (rootBlock2 nx ny)) sched)
    (hseen : seenAll2 m R labF labC nx ny cnx cny = true)
    (fx fy δ ε M : K) (hδ : 0 ≤ δ) (hε : 0 ≤ ε) (verts : List (K × K))
    (hverts : ∀ J ∈ coarseMixed2 labC cnx cny, ∃ v ∈ verts,
      (coarseCoord fx δ m J.1 ≤ v.1 ∧ v.1 ≤ coarseCoord fx δ m J.1 + (m : K) * δ) ∧
      (coarseCoord fy δ m J.2 ≤ v.2 ∧ v.2 ≤ coarseCoord fy δ m J.2 + (m : K) * δ))
    (hM : ((R : K) + m) * δ ≤ M)
    (hg : ∀ b, C2FKeeps2 verts fx fy δ ε M b → g b = true) :
    (msFilterMesh msTable labF g sched).Perm (msMesh msTable nx ny labF) := by
  refine c2f_ms_mesh_eq m R nx ny cnx cny labF labC g sched hs hseen ?_
  intro b c J hc hJ hn
  obtain ⟨v, hv, ⟨vx1, vx2⟩, ⟨vy1, vy2⟩⟩ := hverts J hJ
  have hmem := (Block2.mem_cells b c).1 hc
  simp only [near2, Bool.and_eq_true] at hn
  apply hg
  exact ⟨v, hv,
    block_kept_axis fx δ ε M v.1 hδ hε m R c.1 J.1 b.x0 b.x1 hmem.1 hmem.2.1 hn.1 vx1 vx2 hM,
    block_kept_axis fy δ ε M v.2 hδ hε m R c.2 J.2 b.y0 b.y1 hmem.2.2.1 hmem.2.2.2 hn.2 vy1 vy2 hM⟩

/-- 3-D twin: `MarchingCubesC2F`. -/
theorem c2f_mc_sound {K : Type} [Field K] [LinearOrder K] [IsStrictOrderedRing K]
    (m R nx ny nz cnx cny cnz : Nat) (labF labC : Nat → Nat → Nat → Bool)
    (g : Block → Bool) (sched : List (List Block))
    (hs : Schedule (blockQueue g (rootBlock nx ny nz)) sched)
    (hseen : seenAll3 m R labF labC nx ny nz cnx cny cnz = true)
    (fx fy fz δ ε M : K) (hδ : 0 ≤ δ) (hε : 0 ≤ ε) (verts : List (K × K × K))
    (hverts : ∀ J ∈ coarseMixed3 labC cnx cny cnz, ∃ v ∈ verts,
      (coarseCoord fx δ m J.1 ≤ v.1 ∧ v.1 ≤ coarseCoord fx δ m J.1 + (m : K) * δ) ∧
      (coarseCoord fy δ m J.2.1 ≤ v.2.1 ∧ v.2.1 ≤ coarseCoord fy δ m J.2.1 + (m : K) * δ) ∧
      (coarseCoord fz δ m J.2.2 ≤ v.2.2 ∧ v.2.2 ≤ coarseCoord fz δ m J.2.2 + (m : K) * δ))
    (hM : ((R : K) + m) * δ ≤ M)
    (hg : ∀ b, C2FKeeps3 verts fx fy fz δ ε M b → g b = true) :
    (mcFilterMesh mcTable labF g sched).Perm (mcMesh mcTable nx ny nz labF) := by
  refine c2f_mc_mesh_eq m R nx ny nz cnx cny cnz labF labC g sched hs hseen ?_
  intro b c J hc hJ hn
  obtain ⟨v, hv, ⟨vx1, vx2⟩, ⟨vy1, vy2⟩, ⟨vz1, vz2⟩⟩ := hverts J hJ
  have hmem := (Block.mem_cells b c).1 hc
  simp only [near3, Bool.and_eq_true] at hn
  apply hg
  exact ⟨v, hv,
    block_kept_axis fx δ ε M v.1 hδ hε m R c.1 J.1 b.x0 b.x1 hmem.1 hmem.2.1 hn.1.1 vx1 vx2 hM,
    block_kept_axis fy δ ε M v.2.1 hδ hε m R c.2.1 J.2.1 b.y0 b.y1 hmem.2.2.1 hmem.2.2.2.1 hn.1.2 vy1 vy2 hM,
    block_kept_axis fz δ ε M v.2.2 hδ hε m R c.2.2 J.2.2 b.z0 b.z1 hmem.2.2.2.2.1 hmem.2.2.2.2.2 hn.2 vz1 vz2 hM⟩

end M3d.C12
