import M3d.Lemmas.Partition
import M3d.Gen.McTable
import Mathlib.Tactic.Linarith
import Mathlib.Algebra.Order.Field.Basic
/-!
# C12 — meshing results do not depend on parallelism, buffering or filtering

Property theorems only.  Models: `M3d/Model/Partition.lean` (block splitting, `Pieces`, the worker
pool of `MarchingCubesFilter`/`MarchingSquaresFilter` as an arbitrary schedule, the ring of slab
caches of `squareSpacer.Scan`, the z-window of `dcCubeLayout`, the tiles of `RasterizeSolidFilter`);
the plain meshes are `M3d.Marching.mcMesh/msMesh` (the models C01 is about) over the lookup tables
REGENERATED from /repo (`M3d.Gen.mcTable/msTable`).
-/
namespace M3d.C12
open M3d.Marching M3d.Partition M3d.Gen

/-! ## block splitting (`mcBlock.Split`, `msBlock.Split`) -/

/-- `mcBlock.Split`, all blocks: every cell of the block lies in exactly one of the two halves (and
the halves contain nothing else); when the block is splittable (`Volume ≥ 2`, which is what
`Volume/2 ≥ minVolume ≥ 1` gives `Pieces`) both halves are non-empty and strictly smaller. -/
theorem split_partitions (b : Block) :
    (∀ c, (b.Mem c ↔ (b.split.1.Mem c ∨ b.split.2.Mem c)) ∧ ¬ (b.split.1.Mem c ∧ b.split.2.Mem c)) ∧
    b.cells.Perm (b.split.1.cells ++ b.split.2.cells) ∧
    (2 ≤ b.volume → 0 < b.split.1.volume ∧ 0 < b.split.2.volume ∧
      b.split.1.volume < b.volume ∧ b.split.2.volume < b.volume) := by
  refine ⟨fun c => Block.mem_split b c, Block.cells_split_perm b, fun h => ?_⟩
  have hl := Block.split_volume_lt b h
  have ha := Block.split_volume_add b
  omega

/-- 2-D twin: `msBlock.Split`. -/
theorem split2_partitions (b : Block2) :
    (∀ c, (b.Mem c ↔ (b.split.1.Mem c ∨ b.split.2.Mem c)) ∧ ¬ (b.split.1.Mem c ∧ b.split.2.Mem c)) ∧
    b.cells.Perm (b.split.1.cells ++ b.split.2.cells) ∧
    (2 ≤ b.area → 0 < b.split.1.area ∧ 0 < b.split.2.area ∧
      b.split.1.area < b.area ∧ b.split.2.area < b.area) := by
  refine ⟨fun c => Block2.mem_split b c, Block2.cells_split_perm b, fun h => ?_⟩
  have hl := Block2.split_area_lt b h
  have ha := Block2.split_area_add b
  omega

/-! ## `Pieces` -/

/-- `mcBlock.Pieces(minVolume, g, f)`, every block, every `minVolume ≥ 1`, every filter oracle `g`:
the recursion terminates (it is a total Lean function whose termination measure is `Volume`), the
cells of the block are listed without repetition by `cells`, and — up to order — they are exactly
the cells of the leaf blocks handed to `f` together with the cells of the blocks rejected by `g`:
no cell is skipped, none is visited twice, none of a rejected block reaches `f`. -/
theorem pieces_partition (minVol : Nat) (hpos : 0 < minVol) (g : Block → Bool) (b : Block) :
    b.cells.Nodup ∧
    (∀ c, c ∈ b.cells ↔ b.Mem c) ∧
    b.cells.Perm ((pieces minVol hpos g b).flatMap Block.cells ++ (rejected minVol hpos g b).flatMap Block.cells) :=
  ⟨Block.cells_nodup b, Block.mem_cells b, cells_perm_pieces minVol hpos g b⟩

/-- Counting form: a cell of the block occurs exactly once among the cells of leaves and rejected
blocks, a cell outside the block never. -/
theorem pieces_each_cell_once (minVol : Nat) (hpos : 0 < minVol) (g : Block → Bool) (b : Block)
    (c : Nat × Nat × Nat) :
    (b.Mem c → (((pieces minVol hpos g b).flatMap Block.cells ++
        (rejected minVol hpos g b).flatMap Block.cells).count c = 1)) ∧
    (¬ b.Mem c → (((pieces minVol hpos g b).flatMap Block.cells ++
        (rejected minVol hpos g b).flatMap Block.cells).count c = 0)) := by
  have hp := (cells_perm_pieces minVol hpos g b).count_eq c
  constructor
  · intro hm
    rw [← hp]
    exact List.count_eq_one_of_mem (Block.cells_nodup b) ((Block.mem_cells b c).2 hm)
  · intro hm
    rw [← hp]
    exact List.count_eq_zero_of_not_mem (fun h => hm ((Block.mem_cells b c).1 h))

/-- 2-D twin: `msBlock.Pieces`. -/
theorem pieces2_partition (minArea : Nat) (hpos : 0 < minArea) (g : Block2 → Bool) (b : Block2) :
    b.cells.Nodup ∧
    (∀ c, c ∈ b.cells ↔ b.Mem c) ∧
    b.cells.Perm ((pieces2 minArea hpos g b).flatMap Block2.cells ++ (rejected2 minArea hpos g b).flatMap Block2.cells) :=
  ⟨Block2.cells_nodup b, Block2.mem_cells b, cells_perm_pieces2 minArea hpos g b⟩

/-! ## filters and workers -/

/-- The regenerated table draws nothing in a cell whose eight corners are labelled alike (rows 0
and 255 of `mcLookupTable()` are empty) — so cells inside a block that a conservative filter
rejects contribute no triangle. -/
theorem filter_conservative_same_mesh (lab : Nat → Nat → Nat → Bool) (c : Nat × Nat × Nat)
    (h : uniformCell lab c) : cellTris mcTable lab c = [] := by
  have h0 : getRow mcTable 0 = [] := by decide
  have h255 : getRow mcTable 255 = [] := by decide
  unfold cellTris
  rcases cellCfg_uniform lab c h with e | e <;> rw [e]
  · rw [h0]; rfl
  · rw [h255]; rfl

/-- 2-D: rows 0 and 15 of `msLookupTable()` are empty. -/
theorem filter_conservative_same_mesh2 (lab : Nat → Nat → Bool) (c : Nat × Nat)
    (h : uniformCell2 lab c) : cellSegs msTable lab c = [] := by
  have h0 : getRow msTable 0 = [] := by decide
  have h15 : getRow msTable 15 = [] := by decide
  unfold cellSegs
  rcases cellCfg2_uniform lab c h with e | e <;> rw [e]
  · rw [h0]; rfl
  · rw [h15]; rfl

/-- A filter is conservative for a labelling when every block it rejects during the two rounds of
`Pieces` (queue building with `divideVolume`, then per worker with `subDivideVolume`) consists of
cells with eight equally labelled corners. -/
def Conservative (lab : Nat → Nat → Nat → Bool) (g : Block → Bool) (root : Block) : Prop :=
  (∀ r ∈ rejected (divideVolume root.volume) (divideVolume_pos _) g root, ∀ c ∈ r.cells, uniformCell lab c) ∧
  (∀ q ∈ blockQueue g root, ∀ r ∈ rejected subDivideVolume subDivideVolume_pos g q,
    ∀ c ∈ r.cells, uniformCell lab c)

def Conservative2 (lab : Nat → Nat → Bool) (g : Block2 → Bool) (root : Block2) : Prop :=
  (∀ r ∈ rejected2 (divideVolume root.area) (divideVolume_pos _) g root, ∀ c ∈ r.cells, uniformCell2 lab c) ∧
  (∀ q ∈ blockQueue2 g root, ∀ r ∈ rejected2 subDivideVolume subDivideVolume_pos g q,
    ∀ c ∈ r.cells, uniformCell2 lab c)

/-- `MarchingCubesFilter` = `MarchingCubes`, as multisets of faces: for every lattice size, every
labelling, every conservative filter `g`, every number of workers and every way the queue blocks
are received by the workers and the per-worker meshes are merged (`sched`: any list of lists of
blocks that together are the queue), the faces produced are a permutation of the faces of the
plain sequential `mcMesh` over the regenerated table.  (A `*Mesh` is a set of face pointers and
`AddMesh` adds every face, so the list up to order is the mesh.) -/
theorem mesh_indep_of_workers_and_filter (nx ny nz : Nat) (lab : Nat → Nat → Nat → Bool)
    (g : Block → Bool) (sched : List (List Block))
    (hs : Schedule (blockQueue g (rootBlock nx ny nz)) sched)
    (hc : Conservative lab g (rootBlock nx ny nz)) :
    (mcFilterMesh mcTable lab g sched).Perm (mcMesh mcTable nx ny nz lab) := by
  rw [mcMesh_eq_cells]
  exact filter_contrib_perm (cellTris mcTable lab) g (rootBlock nx ny nz) sched hs
    (fun r hr c hcell => filter_conservative_same_mesh lab c (hc.1 r hr c hcell))
    (fun q hq r hr c hcell => filter_conservative_same_mesh lab c (hc.2 q hq r hr c hcell))

/-- non-vacuity: one worker receiving the whole queue is a schedule; the always-true filter is
conservative. -/
example (g : Block → Bool) (root : Block) : Schedule (blockQueue g root) [blockQueue g root] := by
  simp [Schedule]

example (lab : Nat → Nat → Nat → Bool) (root : Block) : Conservative lab (fun _ => true) root := by
  constructor
  · intro r hr; rw [rejected_of_true] at hr; cases hr
  · intro q _ r hr; rw [rejected_of_true] at hr; cases hr


/-- The same for `MarchingSquaresFilter` / `MarchingSquares`. -/
theorem ms_mesh_indep_of_workers_and_filter (nx ny : Nat) (lab : Nat → Nat → Bool)
    (g : Block2 → Bool) (sched : List (List Block2))
    (hs : Schedule2 (blockQueue2 g (rootBlock2 nx ny)) sched)
    (hc : Conservative2 lab g (rootBlock2 nx ny)) :
    (msFilterMesh msTable lab g sched).Perm (msMesh msTable nx ny lab) := by
  rw [msMesh_eq_cells]
  exact filter_contrib_perm2 (cellSegs msTable lab) g (rootBlock2 nx ny) sched hs
    (fun r hr c hcell => filter_conservative_same_mesh2 lab c (hc.1 r hr c hcell))
    (fun q hq r hr c hcell => filter_conservative_same_mesh2 lab c (hc.2 q hq r hr c hcell))

/-- Two runs with different worker counts / schedules / conservative filters give the same face
multiset (both equal the plain one). -/
theorem mesh_same_across_settings (nx ny nz : Nat) (lab : Nat → Nat → Nat → Bool)
    (g1 g2 : Block → Bool) (s1 s2 : List (List Block))
    (h1 : Schedule (blockQueue g1 (rootBlock nx ny nz)) s1) (c1 : Conservative lab g1 (rootBlock nx ny nz))
    (h2 : Schedule (blockQueue g2 (rootBlock nx ny nz)) s2) (c2 : Conservative lab g2 (rootBlock nx ny nz)) :
    (mcFilterMesh mcTable lab g1 s1).Perm (mcFilterMesh mcTable lab g2 s2) :=
  (mesh_indep_of_workers_and_filter nx ny nz lab g1 s1 h1 c1).trans
    (mesh_indep_of_workers_and_filter nx ny nz lab g2 s2 h2 c2).symm

/-! ## the slab pipeline of `MarchingCubes` -/

/-- `squareSpacer.Scan` for every `GOMAXPROCS ≥ 1` and every number of layers: with the ring of
`g+1` caches (`g = min(GOMAXPROCS, len(Zs)-1)`), at step `z` the cache `(z-1) mod (g+1)` holds
layer `z-1` and the cache `z mod (g+1)` holds layer `z`; the callback sees every consecutive pair
of layers exactly once, in order. -/
theorem scan_visits_each_layer_once (procs nz : Nat) (hp : 1 ≤ procs) :
    scan procs nz = (List.range' 1 (nz - 1)).map (fun z => (z, z - 1, z)) :=
  scan_eq procs nz hp

/-- Hence `MarchingCubes` through the pipeline is the plain cell-by-cell mesh for every
`GOMAXPROCS`: list equality, not just up to order. -/
theorem mc_scan_mesh_indep_of_procs (table : List (List (List Nat))) (nx ny nzp procs : Nat)
    (lab : Nat → Nat → Nat → Bool) (hp : 1 ≤ procs) :
    mcScanMesh table nx ny nzp procs lab = mcMesh table nx ny (nzp - 1) lab := by
  unfold mcScanMesh mcMesh
  rw [scan_eq procs nzp hp, List.flatMap_map, List.range'_eq_map_range, List.flatMap_map]
  apply List.flatMap_congr
  intro z _
  have e1 : 1 + z - 1 = z := by omega
  simp only [e1]
  apply List.flatMap_congr
  intro y _
  apply List.flatMap_congr
  intro x _
  rw [show (1 + z) = z + 1 by omega, cellCfgLayers_eq]
  rfl

/-! ## the z-window of dual contouring -/

/-- `dcCubeLayout` windows: for every `len(Zs) = nz`, every buffer height `B` with `2 < B ≤ nz`
(all `BufRows` the constructor can produce for `nz ≥ 3`, see `dc_bufrows_valid`) and every edge
activity pattern, running `appendMesh / Remaining / Shift` until nothing remains triangulates
exactly the active edge slots `0 … 2nz-2`, each once, in increasing order — regardless of `B`.
(`Shift` moves by `min(Remaining, B-2)` rows and carries the `Triangulated` flags; an edge's flag
depends only on that edge, so this is the statement for every single lattice edge.) -/
theorem dc_windows_each_edge_once (nz B : Nat) (hB : 2 < B) (hBn : B ≤ nz) (active : Nat → Bool) :
    (dcRun nz B hB active dcInit).flatten.map Prod.fst = (List.range (2 * nz - 1)).filter active := by
  have h := dcRun_emits nz B hB active _ dcInit 0 rfl (by simpa [dcInit] using hBn) (by omega)
    (dcInit_inv B active)
  simpa [dcInit, List.range_eq_range'] using h

/-- non-vacuity: a 12-layer lattice with the minimal buffer (`BufRows = 4`, five windows in the
correspondence) satisfies the hypotheses; all 23 slots are triangulated. -/
example : (dcRun 12 4 (by decide) (fun _ => true) dcInit).flatten.map Prod.fst = List.range 23 := by
  have h := dc_windows_each_edge_once 12 4 (by decide) (by decide) (fun _ => true)
  simpa using h

/-- The clamp of `newDcCubeLayout` yields a valid buffer height whenever `len(Zs) ≥ 3` (the only
case `mesh` accepts), for every `BufferSize` (0 = default) and every `len(Xs)·len(Ys)`. -/
theorem dc_bufrows_valid (bufSize nx ny nz : Nat) (h : 3 ≤ nz) :
    2 < dcBufRows bufSize nx ny nz ∧ dcBufRows bufSize nx ny nz ≤ nz :=
  dcBufRows_bounds bufSize nx ny nz h

/-- The edges triangulated with one buffer size are the edges triangulated with any other. -/
theorem dc_mesh_indep_of_bufsize (nz B1 B2 : Nat) (h1 : 2 < B1) (h1n : B1 ≤ nz) (h2 : 2 < B2)
    (h2n : B2 ≤ nz) (active : Nat → Bool) :
    (dcRun nz B1 h1 active dcInit).flatten.map Prod.fst = (dcRun nz B2 h2 active dcInit).flatten.map Prod.fst := by
  rw [dc_windows_each_edge_once nz B1 h1 h1n, dc_windows_each_edge_once nz B2 h2 h2n]

/-- In the window in which an X- or Y-edge (even slot) of an inner lattice row (`1 ≤ row ≤ nz-2`)
is triangulated, its local row `l` satisfies `1 ≤ l ≤ B-2`: the two cube rows `l-1, l` that
`EdgeCubes` reads are inside the buffer (this is what the two-row overlap of `Shift` is for). -/
theorem dc_shift_preserves_overlap (nz B : Nat) (hB : 2 < B) (hBn : B ≤ nz) (active : Nat → Bool) :
    ∀ w ∈ dcRun nz B hB active dcInit, ∀ p ∈ w, p.1 % 2 = 0 → 2 ≤ p.1 → p.1 < 2 * (nz - 1) →
      2 ≤ p.2 ∧ p.2 + 2 < 2 * B :=
  dcRun_local nz B hB active _ dcInit 0 rfl (by simpa [dcInit] using hBn) (by omega)
    (dcInit_inv B active) (Or.inr rfl)

/-! ## raster tiles -/

/-- The tiles of `RasterizeSolidFilter` (any image size, any tile size ≥ 1, i.e. any `Subsamples`)
partition the pixels: the pixels of all tiles are, up to order, every pixel exactly once. -/
theorem tiles_partition_pixels (w h fs : Nat) (hfs : 0 < fs) :
    ((tiles w h fs).flatMap tilePixels).Perm (allPixels w h) ∧ (allPixels w h).Nodup ∧
    (∀ p, p ∈ allPixels w h ↔ p.1 < w ∧ p.2 < h) :=
  ⟨tiles_pixels_perm w h fs hfs, allPixels_nodup w h, mem_allPixels w h⟩

/-- `filterSize = max(1, 16/subsamples)` is a valid tile size. -/
theorem filterSize_pos (ss : Nat) : 0 < filterSize ss := by unfold filterSize; omega

/-- If the solid takes one value on the tile's mid point and on every sub-sample point of a pixel,
the colour written by the tile fill (0 inside, 255 outside) is the colour `rasterizePixel` would
have produced for that pixel. -/
theorem tile_fill_eq_render {P : Type} (sh : Shade) (contains : P → Bool) (samples : Nat × Nat → List P)
    (mid : Tile → P) (t : Tile) (p : Nat × Nat) (hne : samples p ≠ [])
    (hu : ∀ q ∈ samples p, contains q = contains (mid t)) :
    fillTile contains mid t = renderPixel sh contains samples p := by
  unfold fillTile renderPixel
  cases hm : contains (mid t)
  · rw [insideCount_none contains _ (fun q hq => (hu q hq).trans hm), sh.empty]
    simp
  · rw [insideCount_all contains _ (fun q hq => (hu q hq).trans hm),
      sh.full _ (List.length_pos_iff.2 hne)]
    simp

/-- `RasterizeSolidFilter` = `RasterizeSolid` for every conservative filter: if the filter only
skips tiles on which the solid is constant (mid point and all sub-samples of its pixels), the
pixel writes are those of the unfiltered rasteriser, each pixel written once. -/
theorem raster_indep_of_filter {P : Type} (sh : Shade) (contains : P → Bool) (samples : Nat × Nat → List P)
    (mid : Tile → P) (w h fs : Nat) (hfs : 0 < fs) (keep : Tile → Bool)
    (hne : ∀ p, samples p ≠ [])
    (hc : ∀ t ∈ tiles w h fs, keep t = false → ∀ p ∈ tilePixels t, ∀ q ∈ samples p,
      contains q = contains (mid t)) :
    (rasterFilter w h fs keep (fillTile contains mid) (renderPixel sh contains samples)).Perm
      (rasterPlain w h (renderPixel sh contains samples)) := by
  unfold rasterFilter rasterPlain
  have e : (tiles w h fs).flatMap (fun t => (tilePixels t).map fun p =>
        (p, if keep t then renderPixel sh contains samples p else fillTile contains mid t))
      = (tiles w h fs).flatMap (fun t => (tilePixels t).map fun p => (p, renderPixel sh contains samples p)) := by
    apply List.flatMap_congr
    intro t ht
    apply List.map_congr_left
    intro p hp
    cases hk : keep t
    · simp only [Bool.false_eq_true, if_false]
      rw [tile_fill_eq_render sh contains samples mid t p (hne p) (hc t ht hk p hp)]
    · simp
  rw [e, ← List.map_flatMap]
  exact (tiles_pixels_perm w h fs hfs).map _

/-! ## coarse-to-fine margin (partial) -/

/-- `MarchingCubesC2F` keeps a fine block iff its bounds grown by `extraSpace + 2·√3·bigDelta`
meet the coarse mesh.  PARTIAL: only the covering arithmetic is proved.  Geometric hypothesis,
stated explicitly ("every feature is seen by the coarse mesh"): the fine cell `[a, a+δ]³` that has
a sign change meets (on every axis `i`: `a i ≤ c i + Δ`, `c i ≤ a i + δ`) a coarse cell
`[c, c+Δ]³` that carries a coarse-mesh vertex `v` (`c i ≤ v i ≤ c i + Δ`; vertices stay on the
edges of their coarse cell also after `mcSearch`).  Then `v` lies in the fine block's bounds
`[lo, hi]` grown by the margin `m = extra + 2·s·Δ` (`s = √3`), so the rect-collision filter keeps
the block.  Full statement (not proved): for every solid whose fine sign changes all satisfy the
hypothesis, `MarchingCubesC2F` = `MarchingCubesSearch` at the fine spacing. -/
theorem c2f_margin_sound_partial {K : Type} [Field K] [LinearOrder K] [IsStrictOrderedRing K]
    (lo hi a c v : Fin 3 → K) (δ Δ extra s : K)
    (hs : s * s = 3) (hs0 : 0 ≤ s) (hΔ : 0 ≤ Δ) (he : 0 ≤ extra)
    (hblock : ∀ i, lo i ≤ a i ∧ a i + δ ≤ hi i)
    (hmeet : ∀ i, a i ≤ c i + Δ ∧ c i ≤ a i + δ)
    (hv : ∀ i, c i ≤ v i ∧ v i ≤ c i + Δ) :
    ∀ i, lo i - (extra + 2 * Δ * s) ≤ v i ∧ v i ≤ hi i + (extra + 2 * Δ * s) := by
  have hs1 : 1 ≤ s := by nlinarith
  have hm : Δ ≤ extra + 2 * Δ * s := by nlinarith
  intro i
  obtain ⟨b1, b2⟩ := hblock i
  obtain ⟨m1, m2⟩ := hmeet i
  obtain ⟨v1, v2⟩ := hv i
  constructor <;> linarith

end M3d.C12
