import M3d.Lemmas.Joined
import M3d.Lemmas.BoxExact
import M3d.Lemmas.KD
import M3d.Lemmas.KNN
import M3d.Lemmas.MDF
import M3d.Lemmas.Group
import Mathlib.Algebra.Order.Ring.Rat
import Mathlib.Algebra.Order.Field.Rat
/-!
# C08 — Spatial indexes return exactly the brute-force answer

Property theorems only.  Models: `M3d/Model/{Prune,Box,Spatial}.lean`; lemmas:
`M3d/Lemmas/{Prune,Box,BoxExact,Joined,KD,KNN,MDF,Group}.lean`.

Conventions: `K` is an arbitrary linear ordered field (ℝ, ℚ, …).  A leaf of a hierarchy is a
record of functions (`Leaf3`, `Leaf2`); the single hypothesis on leaves is `LeafSound3/2`: whatever
a leaf reports lies in its own bounding box.  `WF3 f` = every node's box contains the boxes of
the leaves below it (which the constructors guarantee, `*_wf`) and every leaf is sound.
-/
namespace M3d.C08
open M3d.Prune M3d.Box M3d.Spatial

variable {K : Type} [Field K] [LinearOrder K] [IsStrictOrderedRing K]

/-! ## 1. The generic branch-and-bound library -/

/-- **Pruned search = linear scan for every sound bound** (n-ary hierarchies; state, items and
bounds arbitrary): if an item covered by a bound that rejects the state could not have changed
that state, skipping rejected subtrees does not change the result of the fold. -/
theorem prune_search_eq_scan {ι β σ : Type} {covers : β → ι → Prop} {adm : β → σ → Bool}
    {step : σ → ι → σ} (hskip : ∀ b s i, covers b i → adm b s = false → step s i = s)
    (f : Forest ι β) (s : σ) (h : Forest.Sound covers f) :
    f.search adm step s = f.items.foldl step s :=
  Forest.search_eq_foldl hskip f s h

/-- The same for binary trees (leaves carry items, inner nodes a bound). -/
theorem prune_btree_search_eq_scan {ι β σ : Type} {covers : β → ι → Prop} {adm : β → σ → Bool}
    {step : σ → ι → σ} (hskip : ∀ b s i, covers b i → adm b s = false → step s i = s)
    (t : BTree ι β) (s : σ) (h : BTree.Sound covers t) :
    t.search adm step s = t.items.foldl step s :=
  BTree.search_eq_foldl hskip t s h

/-- Early-exit existential query = `List.any`. -/
theorem prune_any_eq_scan {ι β : Type} {covers : β → ι → Prop} {adm : β → Bool} {p : ι → Bool}
    (hskip : ∀ b i, covers b i → adm b = false → p i = false)
    (f : Forest ι β) (h : Forest.Sound covers f) : f.any adm p = f.items.any p :=
  Forest.any_eq_any hskip f h

/-- Collecting query = concatenation of the leaf answers (order and multiplicity preserved). -/
theorem prune_collect_eq_scan {ι β γ : Type} {covers : β → ι → Prop} {adm : β → Bool}
    {g : ι → List γ} (hskip : ∀ b i, covers b i → adm b = false → g i = [])
    (f : Forest ι β) (h : Forest.Sound covers f) : f.collect adm g = f.items.flatMap g :=
  Forest.collect_eq_flatMap hskip f h

omit [Field K] [IsStrictOrderedRing K] in
/-- Minimum search with a running bound: keeping the minimum while skipping every subtree whose
lower bound is not below the best so far gives the minimum of the linear scan. -/
theorem prune_min_eq_scan {ι β : Type} (lb : β → K) (val : ι → K) (f : Forest ι β)
    (h : Forest.Sound (fun b i => lb b ≤ val i) f) (s : Option K) :
    f.search (fun b s => match s with | none => true | some c => decide (lb b < c))
        (fun s i => minStep s (val i)) s = scanMin s (f.items.map val) := by
  rw [Forest.search_eq_foldl (covers := fun b i => lb b ≤ val i) _ f s h]
  · simp only [scanMin, List.foldl_map]
  · intro b s i hc ha
    cases s with
    | none => simp at ha
    | some c =>
        simp only [decide_eq_false_iff_not, not_lt] at ha
        simp [minStep, not_lt.2 (le_trans ha hc)]

/-! ## 2. Box facts -/

/-- **`pointToBoundsDistSquared` is a lower bound** of the squared distance to every point of
the box (3D / 2D). -/
theorem pt_box_dist_lower_bound (c p : V3 K) (b : Box3 K) (h : b.Contains p) :
    ptBoxDistSq3 c b ≤ c.sqDist p := ptBoxDistSq3_le c p b h
theorem pt_box_dist_lower_bound2 (c p : V2 K) (b : Box2 K) (h : b.Contains p) :
    ptBoxDistSq2 c b ≤ c.sqDist p := ptBoxDistSq2_le c p b h

/-- **The union of two boxes contains both** (`BoundsUnion`, `NewJoinedCollider`'s bounds). -/
theorem box_union_contains (a b : Box3 K) (p : V3 K) :
    (a.Contains p → (a.union b).Contains p) ∧ (b.Contains p → (a.union b).Contains p) :=
  ⟨fun h => h.of_sub (Box3.sub_union_left a b), fun h => h.of_sub (Box3.sub_union_right a b)⟩
theorem box_union_contains2 (a b : Box2 K) (p : V2 K) :
    (a.Contains p → (a.union b).Contains p) ∧ (b.Contains p → (a.union b).Contains p) :=
  ⟨fun h => h.of_sub (Box2.sub_union_left a b), fun h => h.of_sub (Box2.sub_union_right a b)⟩

/-- **Soundness of the slab test** `rayCollisionWithBounds` + `maxFrac >= minFrac && maxFrac >= 0`:
whenever some `t ≥ 0` has the ray point in the box the answer is "possible" — for every direction,
zero components included, flat boxes included; and if moreover `t ≤ 1` the segment test agrees. -/
theorem slab_prefilter_sound (o d : V3 K) (b : Box3 K) (t : K) (ht : 0 ≤ t)
    (h : b.Contains (o.along d t)) :
    rayAdmits (rayBounds3 o d b) = true ∧ (t ≤ 1 → segAdmits (rayBounds3 o d b) = true) :=
  ⟨rayAdmits_sound3 o d b t ht h, fun h1 => segAdmits_sound3 o d b t ht h1 h⟩
theorem slab_prefilter_sound2 (o d : V2 K) (b : Box2 K) (t : K) (ht : 0 ≤ t)
    (h : b.Contains (o.along d t)) :
    rayAdmits (rayBounds2 o d b) = true ∧ (t ≤ 1 → segAdmits (rayBounds2 o d b) = true) :=
  ⟨rayAdmits_sound2 o d b t ht h, fun h1 => segAdmits_sound2 o d b t ht h1 h⟩

/-- **The slab test is exact on non-empty boxes, for every direction vector**: `rayCollisionWithBounds` +
`maxFrac >= minFrac && maxFrac >= 0` (`JoinedCollider.rayCollidesWithBounds`, the hit test of
`Rect.FirstRayCollision` used by `render3d.FilteredObject`) answers "possible" if AND ONLY IF some `t ≥ 0` has
the ray point `o + t·d` in the box.  No assumption on `d`: zero components, components of very different
magnitude, directions far shorter or longer than 1 (a `Ray`'s direction need not be normalised).  The
correspondence kinds `slab3/slabd3` compare the real function with this model, so a deviation on a box with
`min ≤ max` is a ray that meets the box and is pruned, or one that misses it and is descended into. -/
theorem slab_prefilter_exact (o d : V3 K) (b : Box3 K) (hb : b.NonEmpty) :
    rayAdmits (rayBounds3 o d b) = true ↔ ∃ t, 0 ≤ t ∧ b.Contains (o.along d t) :=
  rayAdmits_iff3 o d b hb
theorem slab_prefilter_exact2 (o d : V2 K) (b : Box2 K) (hb : b.NonEmpty) :
    rayAdmits (rayBounds2 o d b) = true ↔ ∃ t, 0 ≤ t ∧ b.Contains (o.along d t) :=
  rayAdmits_iff2 o d b hb

/-- **The segment prefilter of `joinedMultiCollider.SegmentCollision` is exact**: with `d = s[1] - s[0]` it
answers "possible" iff some point `o + t·d`, `0 ≤ t ≤ 1`, of the segment lies in the (non-empty) box —
segments of every length, arbitrarily short ones included. -/
theorem slab_segment_prefilter_exact (o d : V3 K) (b : Box3 K) (hb : b.NonEmpty) :
    segAdmits (rayBounds3 o d b) = true ↔ ∃ t, 0 ≤ t ∧ t ≤ 1 ∧ b.Contains (o.along d t) :=
  segAdmits_iff3 o d b hb
theorem slab_segment_prefilter_exact2 (o d : V2 K) (b : Box2 K) (hb : b.NonEmpty) :
    segAdmits (rayBounds2 o d b) = true ↔ ∃ t, 0 ≤ t ∧ t ≤ 1 ∧ b.Contains (o.along d t) :=
  segAdmits_iff2 o d b hb

/-- **The pruning decision for a ray does not depend on the length of its direction vector**: for every
`s > 0` the slab test gives the same answer for `d` and `s·d` (so a hierarchy may not treat direction
components below some absolute threshold as "parallel": un-normalised, very short directions must prune
exactly like unit directions). -/
theorem slab_direction_length_irrelevant (o d : V3 K) (b : Box3 K) (hb : b.NonEmpty) (s : K) (hs : 0 < s) :
    rayAdmits (rayBounds3 o (V3.smul s d) b) = rayAdmits (rayBounds3 o d b) :=
  rayAdmits_scale3 o d b hb s hs
theorem slab_direction_length_irrelevant2 (o d : V2 K) (b : Box2 K) (hb : b.NonEmpty) (s : K) (hs : 0 < s) :
    rayAdmits (rayBounds2 o (V2.smul s d) b) = rayAdmits (rayBounds2 o d b) :=
  rayAdmits_scale2 o d b hb s hs

/-- Non-vacuity: the unit cube is non-empty; the ray from `(1/2, 1/2, -1)` with the un-normalised direction
`(0, 0, 2⁻³⁰)` (every component far below `1e-8`, origin outside the z-slab) is admitted — it enters the cube at
`t = 2³⁰` — and so is the short segment from `(1/2, 1/2, -2⁻³¹)` with that direction, while the same ray pointing
away is rejected. -/
example :
    let b : Box3 Rat := ⟨⟨0, 0, 0⟩, ⟨1, 1, 1⟩⟩
    b.NonEmpty ∧ rayAdmits (rayBounds3 (⟨1/2, 1/2, -1⟩ : V3 Rat) ⟨0, 0, 1/1073741824⟩ b) = true ∧
      segAdmits (rayBounds3 (⟨1/2, 1/2, -1/2147483648⟩ : V3 Rat) ⟨0, 0, 1/1073741824⟩ b) = true ∧
      rayAdmits (rayBounds3 (⟨1/2, 1/2, -1⟩ : V3 Rat) ⟨0, 0, -1/1073741824⟩ b) = false := by
  intro b
  refine ⟨?_, by decide +kernel, by decide +kernel, by decide +kernel⟩
  simp only [b, Box3.NonEmpty]
  norm_num

/-- **Sphere / box prefilter is sound, touching counts** (`sphereTouchesBounds`, `circleTouchesBounds`). -/
theorem sphere_prefilter_sound (c p : V3 K) (r : K) (b : Box3 K) (hp : b.Contains p)
    (hd : c.sqDist p ≤ r * r) : sphereTouches3 c r b = true := sphereTouches3_sound c p r b hp hd
theorem sphere_prefilter_sound2 (c p : V2 K) (r : K) (b : Box2 K) (hp : b.Contains p)
    (hd : c.sqDist p ≤ r * r) : sphereTouches2 c r b = true := sphereTouches2_sound c p r b hp hd

/-- **Box-overlap prefilters are sound, touching counts** (`RectCollision`, `TriangleCollisions`). -/
theorem overlap_prefilter_sound (r b : Box3 K) (p : V3 K) (h1 : r.Contains p) (h2 : b.Contains p) :
    rectAdmits3 r b = true ∧ triAdmits3 r b = true :=
  ⟨rectAdmits3_sound r b p h1 h2, triAdmits3_sound r b p h1 h2⟩

/-! ## 3. Grouping and hierarchy construction only reorder -/

/-- **`GroupBounders` / `GroupTriangles` / `GroupSegments` only reorder their input**: whatever
the per-axis sort produced (`sorted`: one permutation of the object ids per axis — no assumption
on the comparison or the sort algorithm) and whatever axis `bestSplitAxis` picks (any oracle with
values in range), every object appears exactly once in the output. -/
theorem group_bounders_perm (bestAxis : List (List Nat) → Nat)
    (hax : ∀ s, s ≠ [] → bestAxis s < s.length) (sorted : List (List Nat)) (n : Nat)
    (h : SortedInv sorted (List.range n)) :
    (groupBounders bestAxis n sorted).Perm (List.range n) :=
  groupBounders_perm bestAxis hax n sorted _ h (by simp)

/-- The stable partition used in the model is what the Go code's index arithmetic in
`splitBounders` computes: in every per-axis list exactly `mid` objects carry the flag. -/
theorem split_positions (sorted : List (List Nat)) (base : List Nat) (h : SortedInv sorted base)
    (axis mid : Nat) (ha : axis < sorted.length) (hm : mid ≤ base.length) :
    ∀ l ∈ sorted, (l.filter (fun id => ((sorted.getD axis []).take mid).contains id)).length = mid :=
  split_filter_length h axis mid ha hm

/-- **`NewBVHAreaDensity` / `newBVH` only reorder**: for every choice of split axis and split
index in range (`areaDensityBVHSplit` is one such choice) the BVH exists and its leaves are a
permutation of the input. -/
theorem bvh_leaves_perm (split : List (List Nat) → Nat × Nat)
    (hsp : ∀ s, s ≠ [] → (split s).1 < s.length ∧ 0 < (split s).2 ∧ (split s).2 < (s.getD 0 []).length)
    (sorted : List (List Nat)) (n : Nat) (hn : 0 < n) (h : SortedInv sorted (List.range n)) :
    ∃ t, newBVH split n sorted = some t ∧ t.leaves.Perm (List.range n) :=
  newBVH_perm split hsp n sorted _ h (by simpa using hn) (by simp)

omit [IsStrictOrderedRing K] in
/-- **`areaDensityBVHSplit` cuts strictly inside**: on at least three faces the returned index satisfies
`2 ≤ index < len(faces)`, for every area function and every scores — `newBVH` always recurses on two non-empty
halves. -/
theorem area_density_split_in_range {β : Type} (union : β → β → β) (area : β → K) (cnt : Nat → K)
    (boxes : List β) (h : 3 ≤ boxes.length) :
    2 ≤ (areaDensitySplit union area cnt boxes).1 ∧ (areaDensitySplit union area cnt boxes).1 < boxes.length :=
  areaDensitySplit_range union area cnt boxes h

omit [IsStrictOrderedRing K] in
/-- **`NewBVHAreaDensity` end to end, with the REAL split rule** (`bvhSplit`: `areaDensityBVHSplit` on every axis,
then the axis with the strictly smallest score, 2D and 3D; `area` / `cnt` arbitrary, in the code `boundsArea` and
`float64(·)`): whatever the per-axis sorts produced, the construction terminates with a tree whose leaves are a
permutation of the objects — every object exactly once.  (The `bvhx` kind replays this very function against the
tree the library builds.) -/
theorem bvh_area_density_perm {β : Type} (union : β → β → β) (area : β → K) (cnt : Nat → K) (boxOf : Nat → β)
    (sorted : List (List Nat)) (n : Nat) (hn : 0 < n) (hd : sorted.length = 2 ∨ sorted.length = 3)
    (h : SortedInv sorted (List.range n)) :
    ∃ t, newBVH (bvhSplit union area cnt boxOf) n sorted = some t ∧ t.leaves.Perm (List.range n) := by
  refine newBVH_perm_of sorted.length _ ?_ n sorted _ h rfl (by simpa using hn) (by simp)
  intro s b hs hl h3
  refine bvhSplit_range union area cnt boxOf s (by rw [hl]; exact hd) ?_ h3
  intro l hl'
  have h0 : (s.getD 0 []).Perm b := getD_of_ne_nil hs 0 (List.length_pos_of_ne_nil hs.2.1)
  rw [(hs.2.2 l hl').length_eq, h0.length_eq]

/-- **`NewJoinedCollider` (with the flattening of equal-bounds children) keeps exactly the same
leaves in the same order.** -/
theorem flatten_same_leaves {ι β : Type} [DecidableEq β] (flatten : Bool) (boxOf : ι → β)
    (union : β → β → β) (children : Forest ι β) :
    (newJoined flatten boxOf union children).items = children.items :=
  items_newJoined flatten children

/-- **`GroupedTrianglesToCollider` / `GroupedCollidersToCollider` / `GroupedSegmentsToCollider`:
the hierarchy has the given leaves, in order, each once, and is well formed.** -/
theorem grouped_collider_wf (flatten : Bool) (leaves : List (Leaf3 K)) (hl : ∀ l ∈ leaves, LeafSound3 l) :
    (grouped flatten (·.box) Box3.union leaves).items = leaves ∧
      WF3 (grouped flatten (·.box) Box3.union leaves) := by
  have hi := items_grouped (boxOf := fun l : Leaf3 K => l.box) (union := Box3.union) flatten leaves
  exact ⟨hi, sound_grouped boxAlg3 flatten leaves, fun l h => hl l (by rw [hi] at h; exact h)⟩

theorem grouped_collider_wf2 (leaves : List (Leaf2 K)) (hl : ∀ l ∈ leaves, LeafSound2 l) :
    (grouped false (·.box) Box2.union leaves).items = leaves ∧
      WF2 (grouped false (·.box) Box2.union leaves) := by
  have hi := items_grouped (boxOf := fun l : Leaf2 K => l.box) (union := Box2.union) false leaves
  exact ⟨hi, sound_grouped boxAlg2 false leaves, fun l h => hl l (by rw [hi] at h; exact h)⟩

/-- **`BVHToCollider` / `BVHToObject`: same leaves as the BVH, well formed.** -/
theorem bvh_collider_wf (flatten : Bool) (s : Shape (Leaf3 K)) (hl : ∀ l ∈ s.leaves, LeafSound3 l) :
    (s.toForest flatten (·.box) Box3.union).items = s.leaves ∧
      WF3 (s.toForest flatten (·.box) Box3.union) := by
  have hi := items_shapeToForest (boxOf := fun l : Leaf3 K => l.box) (union := Box3.union) flatten s
  exact ⟨hi, sound_shapeToForest boxAlg3 flatten s, fun l h => hl l (by rw [hi] at h; exact h)⟩

/-- **`BVHToCollider` / `BVHToObject` on a BVH whose branches have ANY number of children** (`BVH` is
documented as "a leaf, or a branch with two or more children"; `t` is the BVH as an ordered forest
without bounds, `Forest _ Unit`): the resulting hierarchy contains every leaf object of the BVH
exactly once, in order — the objects below a third, fourth, … child of a branch included — and is well
formed, so every query theorem of §4 applies to it.  `flatten = true`: model3d `NewJoinedCollider`;
`false`: model2d and render3d `FilteredObject{JoinedObject}`. -/
theorem nary_bvh_collider_wf (flatten : Bool) (t : Forest (Leaf3 K) Unit)
    (hl : ∀ l ∈ t.items, LeafSound3 l) :
    (bvhJoin flatten (·.box) Box3.union t).items = t.items ∧
      WF3 (bvhJoin flatten (·.box) Box3.union t) := by
  have hi := items_bvhJoin (boxOf := fun l : Leaf3 K => l.box) (union := Box3.union) flatten t
  exact ⟨hi, sound_bvhJoin boxAlg3 flatten t, fun l h => hl l (by rw [hi] at h; exact h)⟩

theorem nary_bvh_collider_wf2 (t : Forest (Leaf2 K) Unit) (hl : ∀ l ∈ t.items, LeafSound2 l) :
    (bvhJoin false (·.box) Box2.union t).items = t.items ∧
      WF2 (bvhJoin false (·.box) Box2.union t) := by
  have hi := items_bvhJoin (boxOf := fun l : Leaf2 K => l.box) (union := Box2.union) false t
  exact ⟨hi, sound_bvhJoin boxAlg2 false t, fun l h => hl l (by rw [hi] at h; exact h)⟩

/-! ## 4. Joined colliders answer as the linear scan over their leaves -/

/-- **`JoinedCollider.RayCollisions`**: the collisions reported by the hierarchy are the
concatenation (multiset union, even in order) of the collisions of the individual leaves, and the
returned count is their number. -/
theorem joined_ray_eq_concat (o d : V3 K) (f : Forest (Leaf3 K) (Box3 K)) (h : WF3 f) :
    joinedRay3 o d f = f.items.flatMap (fun l => l.ray o d) ∧
      joinedRayCount3 o d f = (f.items.flatMap (fun l => l.ray o d)).length :=
  ⟨joinedRay3_eq o d f h, joinedRayCount3_eq o d f h⟩

omit [Field K] [IsStrictOrderedRing K] in
/-- What a left-to-right scan keeping the strictly closer hit returns: a hit of some leaf with
minimal parameter, `none` iff no leaf is hit. -/
theorem first_scan_spec {ι : Type} (g : ι → Option (Hit K)) (l : List ι) :
    let r := l.foldl (fun s i => Forest.merge closer s (g i)) none
    (r = none ↔ ∀ i ∈ l, g i = none) ∧
    (∀ m, r = some m → (∃ i ∈ l, g i = some m) ∧ ∀ i ∈ l, ∀ h, g i = some h → m.scale ≤ h.scale) := by
  have key : ∀ (l : List ι) (s : Option (Hit K)),
      (l.foldl (fun s i => Forest.merge closer s (g i)) s = s ∨
        ∃ i ∈ l, l.foldl (fun s i => Forest.merge closer s (g i)) s = g i ∧ g i ≠ none) ∧
      (∀ i ∈ l, ∀ h, g i = some h →
        ∃ m, l.foldl (fun s i => Forest.merge closer s (g i)) s = some m ∧ m.scale ≤ h.scale) ∧
      (∀ h0, s = some h0 →
        ∃ m, l.foldl (fun s i => Forest.merge closer s (g i)) s = some m ∧ m.scale ≤ h0.scale) := by
    intro l
    induction l with
    | nil => intro s; exact ⟨Or.inl rfl, fun i hi => by simp at hi, fun h0 h => ⟨h0, h, le_refl _⟩⟩
    | cons a l ih =>
        intro s
        simp only [List.foldl_cons]
        obtain ⟨h1, h2, h3⟩ := ih (Forest.merge closer s (g a))
        -- one merge step
        have hstep : (Forest.merge closer s (g a) = s ∨ (Forest.merge closer s (g a) = g a ∧ g a ≠ none)) ∧
            (∀ h, g a = some h → ∃ m, Forest.merge closer s (g a) = some m ∧ m.scale ≤ h.scale) ∧
            (∀ h0, s = some h0 → ∃ m, Forest.merge closer s (g a) = some m ∧ m.scale ≤ h0.scale) := by
          cases hg : g a with
          | none =>
              rw [Forest.merge_none_right]
              exact ⟨Or.inl rfl, fun h hh => (by cases hh), fun h0 h => ⟨h0, h, le_refl _⟩⟩
          | some x =>
              cases s with
              | none =>
                  refine ⟨Or.inr ⟨rfl, by simp⟩, ?_, ?_⟩
                  · intro h hh; cases hh; exact ⟨x, rfl, le_refl _⟩
                  · intro h0 h; cases h
              | some c =>
                  rw [merge_some_some]
                  by_cases hlt : x.scale < c.scale
                  · simp only [closer, hlt, decide_true, if_true]
                    refine ⟨Or.inr (by simp), ?_, ?_⟩
                    · intro h hh; cases hh; exact ⟨x, rfl, le_refl _⟩
                    · intro h0 h; cases h; exact ⟨x, rfl, le_of_lt hlt⟩
                  · simp only [closer, hlt, decide_false, Bool.false_eq_true, if_false]
                    refine ⟨Or.inl (by simp), ?_, ?_⟩
                    · intro h hh; cases hh; exact ⟨c, rfl, not_lt.1 hlt⟩
                    · intro h0 h; cases h; exact ⟨c, rfl, le_refl _⟩
        obtain ⟨s1, s2, s3⟩ := hstep
        refine ⟨?_, ?_, ?_⟩
        · rcases h1 with h1 | ⟨i, hi, h1⟩
          · rcases s1 with s1 | ⟨s1, s1'⟩
            · exact Or.inl (h1.trans s1)
            · exact Or.inr ⟨a, by simp, h1.trans s1, s1'⟩
          · exact Or.inr ⟨i, by simp [hi], h1⟩
        · intro i hi h hh
          rcases List.mem_cons.1 hi with rfl | hi
          · obtain ⟨m, e, hle⟩ := s2 h hh
            obtain ⟨m', e', hle'⟩ := h3 m e
            exact ⟨m', e', le_trans hle' hle⟩
          · exact h2 i hi h hh
        · intro h0 hs
          obtain ⟨m, e, hle⟩ := s3 h0 hs
          obtain ⟨m', e', hle'⟩ := h3 m e
          exact ⟨m', e', le_trans hle' hle⟩
  obtain ⟨k1, k2, _⟩ := key l none
  refine ⟨⟨?_, ?_⟩, ?_⟩
  · intro hr i hi
    cases hg : g i with
    | none => rfl
    | some h => obtain ⟨m, e, _⟩ := k2 i hi h hg; rw [hr] at e; cases e
  · intro hall
    rcases k1 with k1 | ⟨i, hi, _, hne⟩
    · exact k1
    · exact absurd (hall i hi) hne
  · intro m hm
    refine ⟨?_, ?_⟩
    · rcases k1 with k1 | ⟨i, hi, e, _⟩
      · rw [k1] at hm; cases hm
      · exact ⟨i, hi, by rw [← e]; exact hm⟩
    · intro i hi h hh
      obtain ⟨m', e, hle⟩ := k2 i hi h hh
      rw [hm] at e; cases e; exact hle

/-- **`JoinedCollider.FirstRayCollision` = the closest of the leaves' first collisions**: the
result is `none` iff no leaf is hit, otherwise it is the first collision of some leaf and no leaf
has a first collision with a smaller parameter (ties: the leftmost leaf, as in the scan). -/
theorem joined_first_eq_min (o d : V3 K) (f : Forest (Leaf3 K) (Box3 K)) (h : WF3 f) :
    joinedFirst3 o d f = f.items.foldl (fun s l => Forest.merge closer s (l.first o d)) none ∧
    (joinedFirst3 o d f = none ↔ ∀ l ∈ f.items, l.first o d = none) ∧
    (∀ m, joinedFirst3 o d f = some m → (∃ l ∈ f.items, l.first o d = some m) ∧
      ∀ l ∈ f.items, ∀ h', l.first o d = some h' → m.scale ≤ h'.scale) := by
  have e := joinedFirst3_eq o d f h
  have sp := first_scan_spec (fun l : Leaf3 K => l.first o d) f.items
  simp only at sp
  rw [← e] at sp
  exact ⟨e, sp.1, sp.2⟩

/-- **`JoinedCollider.SphereCollision` ⇔ some leaf collides with the sphere.** -/
theorem joined_sphere_iff (c : V3 K) (r : K) (f : Forest (Leaf3 K) (Box3 K)) (h : WF3 f) :
    joinedSphere3 c r f = true ↔ ∃ l ∈ f.items, l.sphere c r = true := by
  rw [joinedSphere3_eq c r f h, List.any_eq_true]

/-- **`joinedMultiCollider.SegmentCollision` ⇔ some leaf collides with the segment.** -/
theorem multi_segment_eq (p q : V3 K) (f : Forest (Leaf3 K) (Box3 K)) (h : WF3 f) :
    joinedSeg3 p q f = f.items.any (fun l => l.seg p q) := joinedSeg3_eq p q f h

/-- **`joinedMultiCollider.RectCollision` ⇔ some leaf collides with the rect** (touching boxes count). -/
theorem multi_rect_eq (r : Box3 K) (f : Forest (Leaf3 K) (Box3 K)) (h : WF3 f) :
    joinedRect3 r f = f.items.any (fun l => l.rect r) := joinedRect3_eq r f h

/-- **`joinedMultiCollider.TriangleCollisions` = concatenation of the leaves' intersections.** -/
theorem multi_triangle_eq (a b c : V3 K) (f : Forest (Leaf3 K) (Box3 K)) (h : WF3 f) :
    joinedTri3 a b c f = f.items.flatMap (fun l => l.tri a b c) := joinedTri3_eq a b c f h

/-- The 2D twins (`model2d.JoinedCollider`, `joinedMultiCollider`). -/
theorem joined2_ray_eq_concat (o d : V2 K) (f : Forest (Leaf2 K) (Box2 K)) (h : WF2 f) :
    joinedRay2 o d f = f.items.flatMap (fun l => l.ray o d) := joinedRay2_eq o d f h
theorem joined2_first_eq_min (o d : V2 K) (f : Forest (Leaf2 K) (Box2 K)) (h : WF2 f) :
    joinedFirst2 o d f = f.items.foldl (fun s l => Forest.merge closer s (l.first o d)) none ∧
    (joinedFirst2 o d f = none ↔ ∀ l ∈ f.items, l.first o d = none) ∧
    (∀ m, joinedFirst2 o d f = some m → (∃ l ∈ f.items, l.first o d = some m) ∧
      ∀ l ∈ f.items, ∀ h', l.first o d = some h' → m.scale ≤ h'.scale) := by
  have e := joinedFirst2_eq o d f h
  have sp := first_scan_spec (fun l : Leaf2 K => l.first o d) f.items
  simp only at sp
  rw [← e] at sp
  exact ⟨e, sp.1, sp.2⟩
theorem joined2_circle_iff (c : V2 K) (r : K) (f : Forest (Leaf2 K) (Box2 K)) (h : WF2 f) :
    joinedSphere2 c r f = true ↔ ∃ l ∈ f.items, l.sphere c r = true := by
  rw [joinedSphere2_eq c r f h, List.any_eq_true]
theorem multi2_segment_eq (p q : V2 K) (f : Forest (Leaf2 K) (Box2 K)) (h : WF2 f) :
    joinedSeg2 p q f = f.items.any (fun l => l.seg p q) := joinedSeg2_eq p q f h
theorem multi2_rect_eq (r : Box2 K) (f : Forest (Leaf2 K) (Box2 K)) (h : WF2 f) :
    joinedRect2 r f = f.items.any (fun l => l.rect r) := joinedRect2_eq r f h

/-- **A box query reaches the leaves unchanged**: `RectCollision(r)` of a mesh collider is `true` exactly when
one of its triangles / segments / member colliders answers `true` to the caller's box `r` ITSELF — the leaves'
own tests (for `Triangle.RectCollision`: the triangle's edges against the box and the box's edges against the
triangle) run on `r`, not on a box derived from it.  (`multi_rect_eq` in `∃` form; the intersection
`r.clip node` computed by the overlap test decides only whether to descend.) -/
theorem multi_rect_iff (r : Box3 K) (f : Forest (Leaf3 K) (Box3 K)) (h : WF3 f) :
    joinedRect3 r f = true ↔ ∃ l ∈ f.items, l.rect r = true := by
  rw [multi_rect_eq r f h, List.any_eq_true]
theorem multi2_rect_iff (r : Box2 K) (f : Forest (Leaf2 K) (Box2 K)) (h : WF2 f) :
    joinedRect2 r f = true ↔ ∃ l ∈ f.items, l.rect r = true := by
  rw [multi2_rect_eq r f h, List.any_eq_true]

/-- **The corners computed by `RectCollision`'s overlap test are the intersection of the two boxes** — as a
statement about point sets.  This is why handing the children `r.clip node` instead of `r` LOOKS harmless; it is
not, because a leaf is asked about a box through edge tests, not about a point set: under a node of zero
thickness the clipped box is flat, its edges lie in the plane of the faces, and a face pierced by `r` in its
interior is no longer found (see the example `flat node` below).  The property demands the scan over the leaves
with the caller's box (`multi_rect_iff`). -/
theorem clip_contains (r b : Box3 K) (p : V3 K) :
    (r.clip b).Contains p ↔ r.Contains p ∧ b.Contains p := by
  simp only [Box3.clip, Box3.Contains, V3.max, V3.min, smin_eq_min, smax_eq_max, max_le_iff, le_min_iff]
  tauto
theorem clip_contains2 (r b : Box2 K) (p : V2 K) :
    (r.clip b).Contains p ↔ r.Contains p ∧ b.Contains p := by
  simp only [Box2.clip, Box2.Contains, V2.max, V2.min, smin_eq_min, smax_eq_max, max_le_iff, le_min_iff]
  tauto

/-- **`MeshToCollider` end to end**: number the triangles `0..n-1` (`leafOf`), group them in ANY
order `order` that is a permutation of the indices (by `group_bounders_perm` the output of
`GroupTriangles` is one), build the collider with `GroupedTrianglesToCollider`: a ray query
returns the concatenation of the triangles' own answers over a permutation of ALL triangles. -/
theorem mesh_collider_ray (n : Nat) (leafOf : Nat → Leaf3 K) (hl : ∀ i < n, LeafSound3 (leafOf i))
    (order : List Nat) (hperm : order.Perm (List.range n)) (o d : V3 K) :
    (order.map leafOf).Perm ((List.range n).map leafOf) ∧
      joinedRay3 o d (grouped true (·.box) Box3.union (order.map leafOf))
        = (order.map leafOf).flatMap (fun l => l.ray o d) := by
  have hs : ∀ l ∈ order.map leafOf, LeafSound3 l := by
    intro l hl'
    obtain ⟨i, hi, rfl⟩ := List.mem_map.1 hl'
    exact hl i (List.mem_range.1 ((hperm.mem_iff).1 hi))
  obtain ⟨hi, hwf⟩ := grouped_collider_wf (K := K) true (order.map leafOf) hs
  refine ⟨hperm.map _, ?_⟩
  rw [joinedRay3_eq o d _ hwf, hi]

/-! ## 5. `meshDistFunc` / mesh SDF -/

/-- **`meshDistFunc.Dist` (behind `MeshToSDF`, `PointSDF`, `FaceSDF`) finds a face at minimal
distance**: `faces` in the order handed to `GroupedTrianglesToSDF`, `box i`/`d i` the bounding box
of face `i` and its distance from the query point `c`.  Hypothesis on each face: its distance is
non-negative and is attained (or exceeded) by some point of its own box.  Then the search returns
a face of the list whose distance is `≤` the distance of every face. -/
theorem mesh_dist_eq_min {ι : Type} (c : V3 K) (box : ι → Box3 K) (d : ι → K) (faces : List ι)
    (hne : faces ≠ [])
    (hleaf : ∀ i ∈ faces, 0 ≤ d i ∧ ∃ p, (box i).Contains p ∧ c.sqDist p ≤ d i * d i) :
    ∃ s, halve faces = some s ∧
      ∃ v i, (s.toMDF box Box3.union).dist (ptBoxDistSq3 c) d none = some (v, i) ∧
        i ∈ faces ∧ v = d i ∧ ∀ j ∈ faces, v ≤ d j := by
  obtain ⟨s, hs, hleaves⟩ := halve_spec faces hne
  refine ⟨s, hs, ?_⟩
  have hl : (s.toMDF box Box3.union).leaves = faces := by rw [MDF.leaves_toMDF, hleaves]
  have hsound : MDF.Sound (ptBoxDistSq3 c) d (s.toMDF box Box3.union) := by
    -- restrict to the faces of the list: use the generic lemma on the sub-predicate
    have : ∀ s' : Shape ι, (∀ i ∈ s'.leaves, i ∈ faces) →
        MDF.Sound (ptBoxDistSq3 c) d (s'.toMDF box Box3.union) := by
      intro s'
      induction s' with
      | leaf i => intro _; trivial
      | node l r ihl ihr =>
          intro hm
          have hml : ∀ i ∈ l.leaves, i ∈ faces := fun i hi => hm i (by simp [Shape.leaves, hi])
          have hmr : ∀ i ∈ r.leaves, i ∈ faces := fun i hi => hm i (by simp [Shape.leaves, hi])
          refine ⟨?_, ?_, ihl hml, ihr hmr⟩
          · intro i hi
            rw [MDF.leaves_toMDF] at hi
            obtain ⟨_, p, hp, hd⟩ := hleaf i (hml i hi)
            exact le_trans (ptBoxDistSq3_le c p _ (hp.of_sub (MDF.box_ge boxAlg3 l i hi))) hd
          · intro i hi
            rw [MDF.leaves_toMDF] at hi
            obtain ⟨_, p, hp, hd⟩ := hleaf i (hmr i hi)
            exact le_trans (ptBoxDistSq3_le c p _ (hp.of_sub (MDF.box_ge boxAlg3 r i hi))) hd
    exact this s (fun i hi => by rw [hleaves] at hi; exact hi)
  obtain ⟨v, i, e, hi, hv, hmin⟩ := MDF.dist_spec (ptBoxDistSq3 c) d _ hsound
    (fun i hi => (hleaf i (by rw [hl] at hi; exact hi)).1)
  exact ⟨v, i, e, by rw [hl] at hi; exact hi, hv, fun j hj => hmin j (by rw [hl]; exact hj)⟩

/-- The 2D twin (`model2d.meshDistFunc`). -/
theorem mesh_dist_eq_min2 {ι : Type} (c : V2 K) (box : ι → Box2 K) (d : ι → K) (faces : List ι)
    (hne : faces ≠ [])
    (hleaf : ∀ i ∈ faces, 0 ≤ d i ∧ ∃ p, (box i).Contains p ∧ c.sqDist p ≤ d i * d i) :
    ∃ s, halve faces = some s ∧
      ∃ v i, (s.toMDF box Box2.union).dist (ptBoxDistSq2 c) d none = some (v, i) ∧
        i ∈ faces ∧ v = d i ∧ ∀ j ∈ faces, v ≤ d j := by
  obtain ⟨s, hs, hleaves⟩ := halve_spec faces hne
  refine ⟨s, hs, ?_⟩
  have hl : (s.toMDF box Box2.union).leaves = faces := by rw [MDF.leaves_toMDF, hleaves]
  have hsound : MDF.Sound (ptBoxDistSq2 c) d (s.toMDF box Box2.union) := by
    have : ∀ s' : Shape ι, (∀ i ∈ s'.leaves, i ∈ faces) →
        MDF.Sound (ptBoxDistSq2 c) d (s'.toMDF box Box2.union) := by
      intro s'
      induction s' with
      | leaf i => intro _; trivial
      | node l r ihl ihr =>
          intro hm
          have hml : ∀ i ∈ l.leaves, i ∈ faces := fun i hi => hm i (by simp [Shape.leaves, hi])
          have hmr : ∀ i ∈ r.leaves, i ∈ faces := fun i hi => hm i (by simp [Shape.leaves, hi])
          refine ⟨?_, ?_, ihl hml, ihr hmr⟩
          · intro i hi
            rw [MDF.leaves_toMDF] at hi
            obtain ⟨_, p, hp, hd⟩ := hleaf i (hml i hi)
            exact le_trans (ptBoxDistSq2_le c p _ (hp.of_sub (MDF.box_ge boxAlg2 l i hi))) hd
          · intro i hi
            rw [MDF.leaves_toMDF] at hi
            obtain ⟨_, p, hp, hd⟩ := hleaf i (hmr i hi)
            exact le_trans (ptBoxDistSq2_le c p _ (hp.of_sub (MDF.box_ge boxAlg2 r i hi))) hd
    exact this s (fun i hi => by rw [hleaves] at hi; exact hi)
  obtain ⟨v, i, e, hi, hv, hmin⟩ := MDF.dist_spec (ptBoxDistSq2 c) d _ hsound
    (fun i hi => (hleaf i (by rw [hl] at hi; exact hi)).1)
  exact ⟨v, i, e, by rw [hl] at hi; exact hi, hv, fun j hj => hmin j (by rw [hl]; exact hj)⟩

/-! ## 6. `CoordTree` -/

section KDTree
variable {P : Type} (coord : P → Nat → K) (sq : P → P → K)
  (hplane : ∀ p q ax, (coord q ax - coord p ax) * (coord q ax - coord p ax) ≤ sq p q)

/-- **`NewCoordTree` stores every point exactly once and establishes the k-d ordering**
(`coordtree_slice_perm` + `kd_invariant`): for EVERY per-axis order of the point ids (whatever
`sort.Slice` did with ties) `Slice()` is a permutation of the input, everything in `LessThan` is
`<` the split value on the split axis and everything in `GreaterEqual` is not — duplicates and
equal coordinates included.  `dim` = 3 (model3d) or 2 (model2d). -/
theorem kd_invariant {α : Type} [LT α] [DecidableLT α] (dim : Nat) (hd : 0 < dim) (cv : Nat → Nat → α)
    (coords : List (List Nat)) (n : Nat) (h : SortedInv coords (List.range n)) (hl : coords.length = dim) :
    (kdBuild dim cv n coords 0).slice.Perm (List.range n) ∧ KD.Inv cv (kdBuild dim cv n coords 0) :=
  kdBuild_spec dim cv n coords _ 0 h hl hd (by simp)

/-- **`Contains(p)` ⇔ `p` is one of the stored points.** -/
theorem kd_contains_iff [DecidableEq P] (t : KD P) (h : KD.Inv coord t) (p : P) :
    t.contains coord p = true ↔ p ∈ t.slice := KD.contains_iff coord p t h

include hplane in
/-- **`NearestNeighbor(p)` = argmin of the squared distance over all stored points**: on a
non-empty tree the search returns a stored point `c` together with `sq p c`, and no stored point
is closer. -/
theorem kd_nn_eq_min (t : KD P) (h : KD.Inv coord t) (p : P) (hne : t.slice ≠ []) :
    ∃ c, t.nn coord sq p none = some (sq p c, c) ∧ c ∈ t.slice ∧ ∀ q ∈ t.slice, sq p c ≤ sq p q := by
  have hperm := KD.visitOrder_perm coord p t
  rw [KD.nn_eq_scan coord sq hplane p t none h]
  obtain ⟨h1, h2, _⟩ := scanNN_spec sq p (KD.visitOrder coord p t) none
  obtain ⟨x, hx⟩ := List.exists_mem_of_ne_nil _ hne
  obtain ⟨v, q, e, _⟩ := h2 x ((hperm.mem_iff).2 hx)
  rcases h1 with h1 | ⟨c, hc, h1⟩
  · rw [h1] at e; cases e
  · refine ⟨c, h1, (hperm.mem_iff).1 hc, ?_⟩
    intro q hq
    obtain ⟨v', q', e', hle⟩ := h2 q ((hperm.mem_iff).2 hq)
    rw [h1] at e'; cases e'; exact hle

include hplane in
/-- **`KNN(k, p)` returns the `k` smallest squared distances in ascending order** (all of them
when `k` exceeds the number of points, nothing for `k = 0`), as a list of squared distances. -/
theorem kd_knn_eq_k_smallest (t : KD P) (h : KD.Inv coord t) (k : Nat) (p : P) :
    (t.KNN coord sq k p).map (·.1) = ((t.slice.map (sq p)).insertionSort (· ≤ ·)).take k := by
  unfold KD.KNN
  by_cases hk : k = 0
  · simp [hk]
  · simp only [hk, if_false]
    rw [KD.knn_eq_scan coord sq hplane k p t [] h, scanKNN_eq_k_smallest sq k (Nat.pos_of_ne_zero hk)]
    congr 1
    exact List.Perm.eq_of_pairwise' (List.pairwise_insertionSort _ _) (List.pairwise_insertionSort _ _)
      ((List.perm_insertionSort _ _).trans
        ((((KD.visitOrder_perm coord p t).map _)).trans (List.perm_insertionSort _ _).symm))

include hplane in
/-- **`SphereCollision(p, r)` ⇔ some stored point is within distance `r`** (`≤`: touching counts);
`r2 = r*r`. -/
theorem kd_sphere_iff (t : KD P) (h : KD.Inv coord t) (p : P) (r2 : K) :
    t.sphere coord sq p r2 = true ↔ ∃ c ∈ t.slice, sq p c ≤ r2 := by
  rw [KD.sphere_eq_any coord sq hplane p r2 t h, List.any_eq_true]
  simp only [decide_eq_true_eq]

include hplane in
/-- **The points returned by `KNN(k, p)` are stored points, each with its own squared distance, none more often
than it is stored**: as (distance, point) pairs the answer is a sub-multiset of `(sq p c, c)` over the stored
points `c` (together with `kd_knn_eq_k_smallest`: the answer is a selection of `k` nearest stored points — with
duplicates in the cloud a point can be returned as often as it occurs, never more). -/
theorem kd_knn_points_stored (t : KD P) (h : KD.Inv coord t) (k : Nat) (p : P) :
    (t.KNN coord sq k p).Subperm (t.slice.map fun c => (sq p c, c)) := by
  unfold KD.KNN
  by_cases hk : k = 0
  · simp [hk]
  · simp only [hk, if_false]
    rw [KD.knn_eq_scan coord sq hplane k p t [] h]
    have := scanKNN_subperm sq k p (KD.visitOrder coord p t) []
    simp only [List.nil_append] at this
    exact this.trans ((KD.visitOrder_perm coord p t).map _).subperm

include hplane in
/-- **A table of k-nearest answers equals the table of brute-force answers**: the queries `(k, p)` are issued
one after the other against the same tree and all answers are read afterwards (`nbrs[i] = tree.KNN(k, pts[i])`,
a k-NN graph).  Entry `i` is the list of the `kᵢ` smallest squared distances from `pᵢ` — whatever queries were
issued before or after it: an answer is a value and is not affected by later queries on the tree. -/
theorem kd_knn_table_eq_scan (t : KD P) (h : KD.Inv coord t) (qs : List (Nat × P)) :
    (t.knnTable coord sq qs).map (fun r => r.map (·.1)) =
      qs.map fun q => ((t.slice.map (sq q.2)).insertionSort (· ≤ ·)).take q.1 := by
  simp only [KD.knnTable, List.map_map]
  apply List.map_congr_left
  intro q _
  exact kd_knn_eq_k_smallest coord sq hplane t h q.1 q.2

end KDTree

/-- **`Slice()` of a freshly built tree is a permutation of the input** (`coordtree_slice_perm`). -/
theorem coordtree_slice_perm {α : Type} [LT α] [DecidableLT α] (dim : Nat) (hd : 0 < dim) (cv : Nat → Nat → α)
    (coords : List (List Nat)) (n : Nat) (h : SortedInv coords (List.range n)) (hl : coords.length = dim) :
    (kdBuild dim cv n coords 0).slice.Perm (List.range n) :=
  (kd_invariant dim hd cv coords n h hl).1

/-- **`NewCoordTree(points).NearestNeighbor(p)` end to end (3D)**: `pts i` are the input points,
`coords` the three per-axis orders produced by sorting (any permutations of the indices).  The
search on the constructed tree returns an input point at minimal squared distance from `p`. -/
theorem coordtree_nn_is_argmin (pts : Nat → V3 K) (n : Nat) (hn : 0 < n) (coords : List (List Nat))
    (h : SortedInv coords (List.range n)) (hl : coords.length = 3) (p : V3 K) :
    let t := (kdBuild 3 (fun i ax => coord3 (pts i) ax) n coords 0).map pts
    ∃ i, i < n ∧ t.nn coord3 V3.sqDist p none = some (p.sqDist (pts i), pts i) ∧
      ∀ j < n, p.sqDist (pts i) ≤ p.sqDist (pts j) := by
  intro t
  obtain ⟨hperm, hinv⟩ := kd_invariant 3 (by norm_num) (fun i ax => coord3 (pts i) ax) coords n h hl
  have hinv' : KD.Inv coord3 t := KD.inv_map pts coord3 _ hinv
  have hslice : t.slice = (kdBuild 3 (fun i ax => coord3 (pts i) ax) n coords 0).slice.map pts :=
    KD.slice_map pts _
  have hne : t.slice ≠ [] := by
    rw [hslice]
    intro hnil
    have := congrArg List.length hnil
    rw [List.length_map, hperm.length_eq] at this
    simp at this; omega
  obtain ⟨c, e, hc, hmin⟩ := kd_nn_eq_min coord3 V3.sqDist hplane3 t hinv' p hne
  rw [hslice] at hc
  obtain ⟨i, hi, rfl⟩ := List.mem_map.1 hc
  refine ⟨i, List.mem_range.1 ((hperm.mem_iff).1 hi), e, ?_⟩
  intro j hj
  apply hmin
  rw [hslice]
  exact List.mem_map.2 ⟨j, (hperm.mem_iff).2 (List.mem_range.2 hj), rfl⟩

/-- The geometric hypothesis of the k-d tree theorems holds for `Coord3D` and `Coord`. -/
theorem kd_plane_bound3 (p q : V3 K) (ax : Nat) :
    (coord3 q ax - coord3 p ax) * (coord3 q ax - coord3 p ax) ≤ p.sqDist q := hplane3 p q ax
theorem kd_plane_bound2 (p q : V2 K) (ax : Nat) :
    (coord2 q ax - coord2 p ax) * (coord2 q ax - coord2 p ax) ≤ p.sqDist q := hplane2 p q ax

/-! ## 7. render3d: `BVHToObject` -/

/-- **`BVHToObject(bvh).Cast` = the closest hit among ALL objects of the BVH**: the hierarchy of
`FilteredObject{JoinedObject, BoundsRect}` nodes (no flattening) returns `none` iff no object is
hit, otherwise an object's own hit with minimal ray parameter. -/
theorem bvh_object_cast_eq_min (s : Shape (Leaf3 K)) (hl : ∀ l ∈ s.leaves, LeafSound3 l) (o d : V3 K) :
    let f := s.toForest false (·.box) Box3.union
    joinedFirst3 o d f = s.leaves.foldl (fun st l => Forest.merge closer st (l.first o d)) none ∧
    (joinedFirst3 o d f = none ↔ ∀ l ∈ s.leaves, l.first o d = none) ∧
    (∀ m, joinedFirst3 o d f = some m → (∃ l ∈ s.leaves, l.first o d = some m) ∧
      ∀ l ∈ s.leaves, ∀ h', l.first o d = some h' → m.scale ≤ h'.scale) := by
  intro f
  obtain ⟨hi, hwf⟩ := bvh_collider_wf (K := K) false s hl
  have := joined_first_eq_min o d f hwf
  rw [hi] at this
  exact this

/-- **`BVHToObject(bvh).Cast` for branches of any width = the closest hit among ALL objects of the
BVH** (`t`: the BVH as an ordered forest, any number of children per branch): `none` iff no object
is hit, otherwise an object's own hit with minimal ray parameter — an object stored under the third
or a later child of a branch is found like any other. -/
theorem nary_bvh_object_cast_eq_min (t : Forest (Leaf3 K) Unit) (hl : ∀ l ∈ t.items, LeafSound3 l)
    (o d : V3 K) :
    let f := bvhJoin false (·.box) Box3.union t
    joinedFirst3 o d f = t.items.foldl (fun st l => Forest.merge closer st (l.first o d)) none ∧
    (joinedFirst3 o d f = none ↔ ∀ l ∈ t.items, l.first o d = none) ∧
    (∀ m, joinedFirst3 o d f = some m → (∃ l ∈ t.items, l.first o d = some m) ∧
      ∀ l ∈ t.items, ∀ h', l.first o d = some h' → m.scale ≤ h'.scale) := by
  intro f
  obtain ⟨hi, hwf⟩ := nary_bvh_collider_wf (K := K) false t hl
  have := joined_first_eq_min o d f hwf
  rw [hi] at this
  exact this

/-- **`BVHToCollider(bvh)` for branches of any width (model3d, with flattening): ray collisions are the
concatenation of the collisions of ALL triangles of the BVH.** -/
theorem nary_bvh_collider_ray (t : Forest (Leaf3 K) Unit) (hl : ∀ l ∈ t.items, LeafSound3 l)
    (o d : V3 K) :
    joinedRay3 o d (bvhJoin true (·.box) Box3.union t) = t.items.flatMap (fun l => l.ray o d) := by
  obtain ⟨hi, hwf⟩ := nary_bvh_collider_wf (K := K) true t hl
  rw [(joined_ray_eq_concat o d _ hwf).1, hi]

/-! ## Non-vacuity -/

/-- A concrete sound leaf over ℚ: the unit cube, hit by a ray at parameter 1 exactly when the
ray point at 1 lies in the cube. -/
def cubeLeaf (id : Nat) (lo hi : Rat) : Leaf3 Rat :=
  let b : Box3 Rat := ⟨⟨lo, lo, lo⟩, ⟨hi, hi, hi⟩⟩
  { id := id, box := b,
    ray := fun o d => if (b.min.x ≤ (o.along d 1).x ∧ (o.along d 1).x ≤ b.max.x) ∧
        (b.min.y ≤ (o.along d 1).y ∧ (o.along d 1).y ≤ b.max.y) ∧
        (b.min.z ≤ (o.along d 1).z ∧ (o.along d 1).z ≤ b.max.z) then [⟨1, id⟩] else [],
    first := fun _ _ => none, sphere := fun _ _ => false, seg := fun _ _ => false,
    rect := fun _ => false, tri := fun _ _ _ => [] }

theorem cubeLeaf_sound (id : Nat) (lo hi : Rat) : LeafSound3 (cubeLeaf id lo hi) where
  ray := by
    intro o d h hh
    simp only [cubeLeaf] at hh
    split at hh
    · rename_i hc
      simp only [List.mem_singleton] at hh
      subst hh
      exact ⟨by norm_num, hc⟩
    · simp at hh
  first := by intro o d h hh; simp [cubeLeaf] at hh
  sphere := by intro c r hh; simp [cubeLeaf] at hh
  seg := by intro p q hh; simp [cubeLeaf] at hh
  rect := by intro r hh; simp [cubeLeaf] at hh
  tri := by intro a b c hh; simp [cubeLeaf] at hh

/-- The hypotheses of the collider theorems are satisfiable and the conclusion is not trivial:
two cubes, a ray from the origin with direction (1/2,1/2,1/2) hits the first at parameter 1 and
the hierarchy reports exactly that hit. -/
example :
    let f := grouped true (·.box) Box3.union [cubeLeaf 0 0 1, cubeLeaf 1 5 6]
    WF3 f ∧ joinedRay3 (⟨0, 0, 0⟩ : V3 Rat) ⟨1/2, 1/2, 1/2⟩ f = [⟨1, 0⟩] := by
  intro f
  have hs : ∀ l ∈ [cubeLeaf 0 0 1, cubeLeaf 1 5 6], LeafSound3 l := by
    intro l hl
    simp only [List.mem_cons, List.not_mem_nil, or_false] at hl
    rcases hl with rfl | rfl <;> exact cubeLeaf_sound _ _ _
  obtain ⟨hi, hwf⟩ := grouped_collider_wf (K := Rat) true _ hs
  refine ⟨hwf, ?_⟩
  rw [(joined_ray_eq_concat _ _ f hwf).1, hi]
  decide +kernel

/-- A branch with THREE children (`Branch: {a, b, c}`): the hierarchy built by `BVHToObject` /
`BVHToCollider` is well formed, keeps all three objects, and a ray that only meets the object under
the third child is reported. -/
example :
    let t : Forest (Leaf3 Rat) Unit :=
      .node () (.leaf (cubeLeaf 0 0 1) (.leaf (cubeLeaf 1 5 6) (.leaf (cubeLeaf 2 9 10) .nil))) .nil
    let f := bvhJoin true (·.box) Box3.union t
    WF3 f ∧ f.items.length = 3 ∧ joinedRay3 (⟨9, 9, 9⟩ : V3 Rat) ⟨1/2, 1/2, 1/2⟩ f = [⟨1, 2⟩] := by
  intro t f
  have hs : ∀ l ∈ t.items, LeafSound3 l := by
    intro l hl
    simp only [t, Forest.items, List.mem_cons, List.not_mem_nil, or_false, List.append_nil] at hl
    rcases hl with rfl | rfl | rfl <;> exact cubeLeaf_sound _ _ _
  obtain ⟨hi, hwf⟩ := nary_bvh_collider_wf (K := Rat) true t hs
  refine ⟨hwf, by rw [hi]; rfl, ?_⟩
  rw [nary_bvh_collider_ray t hs]
  decide +kernel

/-- A sound leaf that answers a box query the way `Triangle.RectCollision` does for an axis-aligned face: the
rectangle `[x0,x1] × [0,1]` in the plane `z = 0`; it reports a collision when the vertical edge of the query box
at its `(min.x, min.y)` corner has positive length and pierces the rectangle (an EDGE test, not a point-set test). -/
def floorLeaf (id : Nat) (x0 x1 : Rat) : Leaf3 Rat :=
  { id := id, box := ⟨⟨x0, 0, 0⟩, ⟨x1, 1, 0⟩⟩,
    ray := fun _ _ => [], first := fun _ _ => none, sphere := fun _ _ => false, seg := fun _ _ => false,
    rect := fun r => decide (r.min.z < r.max.z) && decide (r.min.z ≤ 0) && decide (0 ≤ r.max.z) &&
      decide (x0 ≤ r.min.x) && decide (r.min.x ≤ x1) && decide (0 ≤ r.min.y) && decide (r.min.y ≤ 1) &&
      decide (r.min.x ≤ r.max.x) && decide (r.min.y ≤ r.max.y),
    tri := fun _ _ _ => [] }

theorem floorLeaf_sound (id : Nat) (x0 x1 : Rat) : LeafSound3 (floorLeaf id x0 x1) where
  ray := by intro o d h hh; simp [floorLeaf] at hh
  first := by intro o d h hh; simp [floorLeaf] at hh
  sphere := by intro c r hh; simp [floorLeaf] at hh
  seg := by intro p q hh; simp [floorLeaf] at hh
  rect := by
    intro r hh
    simp only [floorLeaf, Bool.and_eq_true, decide_eq_true_eq] at hh
    obtain ⟨⟨⟨⟨⟨⟨⟨⟨h1, h2⟩, h3⟩, h4⟩, h5⟩, h6⟩, h7⟩, h8⟩, h9⟩ := hh
    exact ⟨⟨r.min.x, r.min.y, 0⟩, ⟨⟨h4, h5⟩, ⟨h6, h7⟩, le_refl _, le_refl _⟩,
      ⟨⟨le_refl _, h8⟩, ⟨le_refl _, h9⟩, h2, h3⟩⟩
  tri := by intro a b c hh; simp [floorLeaf] at hh

/-- `flat node`: a floor of two coplanar faces — the node over them has ZERO thickness — and a small box that
straddles the floor over the interior of the first face.  The hierarchy is well formed, the real traversal (children
asked the caller's box) reports the collision, as the scan over the faces does; every face asked the box CLIPPED to
the node's bounds answers "no", although the clipped box still contains the very points the faces share with the
box (`clip_contains`).  So the leaves must be handed the caller's box. -/
example :
    let f := grouped true (·.box) Box3.union [floorLeaf 0 0 1, floorLeaf 1 1 2]
    let r : Box3 Rat := ⟨⟨1/4, 1/4, -1⟩, ⟨1/2, 1/2, 1⟩⟩
    let node : Box3 Rat := ⟨⟨0, 0, 0⟩, ⟨2, 1, 0⟩⟩
    WF3 f ∧ joinedRect3 r f = true ∧ f.items.any (fun l => l.rect r) = true ∧
      f.items.any (fun l => l.rect (r.clip node)) = false ∧ (r.clip node).Contains ⟨1/4, 1/4, 0⟩ := by
  intro f r node
  have hs : ∀ l ∈ [floorLeaf 0 0 1, floorLeaf 1 1 2], LeafSound3 l := by
    intro l hl
    simp only [List.mem_cons, List.not_mem_nil, or_false] at hl
    rcases hl with rfl | rfl <;> exact floorLeaf_sound _ _ _
  obtain ⟨hi, hwf⟩ := grouped_collider_wf (K := Rat) true _ hs
  refine ⟨hwf, ?_, ?_, ?_, ?_⟩
  · rw [multi_rect_eq r f hwf, hi]; decide +kernel
  · rw [hi]; decide +kernel
  · rw [hi]; decide +kernel
  · rw [clip_contains]; simp only [Box3.Contains, r, node]; norm_num

/-- The k-d tree invariant is satisfiable with duplicates and equal split coordinates, and the
nearest-neighbour search on such a tree returns the expected distance. -/
example :
    let t : KD (V3 Rat) := .node ⟨1, 0, 0⟩ 0 (.node ⟨0, 5, 0⟩ 1 .nil .nil) (.node ⟨1, 0, 0⟩ 1 .nil (.node ⟨1, 2, 0⟩ 2 .nil .nil))
    KD.Inv coord3 t ∧ (t.nn coord3 V3.sqDist ⟨1, 2, 1⟩ none).map (·.1) = some 1 := by
  intro t
  refine ⟨?_, by decide +kernel⟩
  simp only [t, KD.Inv, KD.slice, coord3]
  norm_num

/-- Grouping: the invariant on the per-axis lists holds for actual sort results, e.g. three
different orders of 4 ids. -/
example : SortedInv [[0, 1, 2, 3], [3, 1, 0, 2], [2, 3, 1, 0]] (List.range 4) := by
  refine ⟨by decide, by decide, ?_⟩
  intro l hl
  simp only [List.mem_cons, List.not_mem_nil, or_false] at hl
  rcases hl with rfl | rfl | rfl <;> decide

/-- The real split rule on a concrete scene over ℚ (three unit squares in a row and a far one, 2D): the hypotheses of
`bvh_area_density_perm` hold and the tree is the expected one — the far object is cut off first. -/
example :
    let boxOf : Nat → Box2 Rat := fun i => if i = 3 then ⟨⟨10, 0⟩, ⟨11, 1⟩⟩ else ⟨⟨i, 0⟩, ⟨i + 1, 1⟩⟩
    let sorted := [[0, 1, 2, 3], [2, 0, 3, 1]]
    SortedInv sorted (List.range 4) ∧
      newBVH (bvhSplit Box2.union boundsArea2 (fun k => (k : Rat)) boxOf) 4 sorted
        = some (.node (.node (.node (.leaf 0) (.leaf 1)) (.leaf 2)) (.leaf 3)) := by
  intro boxOf sorted
  refine ⟨⟨by decide, by decide, ?_⟩, by decide +kernel⟩
  intro l hl
  simp only [sorted, List.mem_cons, List.not_mem_nil, or_false] at hl
  rcases hl with rfl | rfl <;> decide

end M3d.C08
