import M3d.Props.C01Bitmap.W00
import M3d.Props.C01Bitmap.W01
import M3d.Props.C01Bitmap.W02
import M3d.Props.C01Bitmap.W03
import M3d.Props.C01Bitmap.W04
import M3d.Props.C01Bitmap.W05
import M3d.Props.C01Bitmap.W06
import M3d.Props.C01Bitmap.W07
import M3d.Props.C01Bitmap.W08
import M3d.Props.C01Bitmap.W09
import M3d.Props.C01Bitmap.W10
import M3d.Props.C01Bitmap.W11
import M3d.Props.C01Bitmap.W12
import M3d.Props.C01Bitmap.W13
import M3d.Props.C01Bitmap.W14
import M3d.Props.C01Bitmap.W15
/-!
All 65 536 labellings of a 4×4 pixel window satisfy `windowOk`: the chunks are decided by the
kernel in 16 parallel modules and assembled here.
-/
namespace M3d.C01
open M3d.Marching

theorem windowsOk_spec (lo : Nat) : ∀ n, windowsOk lo n = true → ∀ k, k < n → windowOk (lo + k) = true := by
  intro n
  induction n with
  | zero => intro _ k hk; omega
  | succ n ih =>
    intro h k hk
    simp only [windowsOk, Bool.and_eq_true] at h
    by_cases e : k = n
    · subst e; exact h.1
    · exact ih h.2 k (by omega)

/-- **Bitmap outlining is watertight at every lattice corner**: for every labelling of the 4×4
pixels around a lattice corner, each mesh vertex sitting at that corner (the corner itself or one
of its four pulled-in copies) has exactly one incoming and one outgoing segment.  Since a pixel
only puts vertices at its own four corners and only reads its 3×3 neighbourhood, this covers every
vertex of `Bitmap.Mesh` on every bitmap (pixels outside the image read as false). -/
theorem bitmap_in_out_one_aux : ∀ w, w < 65536 → windowOk w = true := by
  intro w hw
  have key : ∀ c, c < 16 → windowsOk (c * 4096) 4096 = true := by
    intro c hc
    have : c = 0 ∨ c = 1 ∨ c = 2 ∨ c = 3 ∨ c = 4 ∨ c = 5 ∨ c = 6 ∨ c = 7 ∨ c = 8 ∨ c = 9 ∨ c = 10 ∨
        c = 11 ∨ c = 12 ∨ c = 13 ∨ c = 14 ∨ c = 15 := by omega
    rcases this with h|h|h|h|h|h|h|h|h|h|h|h|h|h|h|h <;> subst h
    · exact bitmap_windows_00
    · exact bitmap_windows_01
    · exact bitmap_windows_02
    · exact bitmap_windows_03
    · exact bitmap_windows_04
    · exact bitmap_windows_05
    · exact bitmap_windows_06
    · exact bitmap_windows_07
    · exact bitmap_windows_08
    · exact bitmap_windows_09
    · exact bitmap_windows_10
    · exact bitmap_windows_11
    · exact bitmap_windows_12
    · exact bitmap_windows_13
    · exact bitmap_windows_14
    · exact bitmap_windows_15
  have h := windowsOk_spec ((w / 4096) * 4096) 4096 (key (w / 4096) (by omega)) (w % 4096) (Nat.mod_lt _ (by omega))
  have e : w / 4096 * 4096 + w % 4096 = w := by omega
  rw [e] at h
  exact h

end M3d.C01
