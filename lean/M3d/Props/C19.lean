import M3d.Lemmas.RenderSampling
import M3d.Lemmas.RenderAnalytic
import M3d.Lemmas.LightTree
import M3d.Gen.ReflectAmount
/-!
# C19 — materials and lights sample what their densities say

Property theorems only.  Models: `M3d/Model/RenderSampling.lean` (the functions the driver
`drv_c19` runs against the real Go code); lemmas: `M3d/Lemmas/RenderSampling.lean` (ordered
fields), `M3d/Lemmas/RenderAnalytic.lean` (ℝ, Mathlib analysis).

`K` is any linear ordered field (ℝ, ℚ, …).  Theorems that involve `math.Sqrt` assume only
`SqrtOK K`: `sqrt x * sqrt x = x` and `0 ≤ sqrt x` for `0 ≤ x` (true of `Real.sqrt`).
-/
set_option linter.unusedSectionVars false
namespace M3d.C19
open M3d.RS

variable {K : Type} [Field K] [LinearOrder K] [IsStrictOrderedRing K] [HasSqrt K]

/-! ## 1. Schlick reflectance and the two-lobe split -/

/-- **`RefractMaterial.reflectAmount` is Schlick's approximation**: as a function of the cosine
of incidence it equals the normal-incidence reflectance `R₀ = ((n−1)/(n+1))²` at `cos = 1`,
total reflection `1` at grazing incidence `cos = 0`, never increases with the cosine on `[0,1]`,
and stays in `[R₀, 1]` — for every index of refraction `n ≥ 0` (above and below 1). -/
theorem schlick_endpoints_monotone (ior : K) (h : 0 ≤ ior) :
    schlick ior 1 = ((ior - 1) / (ior + 1)) ^ 2 ∧ schlick ior 0 = 1 ∧
    (∀ c d : K, c ≤ d → d ≤ 1 → schlick ior d ≤ schlick ior c) ∧
    (∀ c : K, 0 ≤ c → c ≤ 1 → ((ior - 1) / (ior + 1)) ^ 2 ≤ schlick ior c ∧ schlick ior c ≤ 1) := by
  have hr0 : schlickR0 ior = ((ior - 1) / (ior + 1)) ^ 2 := by simp only [schlickR0]; ring
  refine ⟨by rw [schlick_one, hr0], schlick_zero ior, fun c d hcd hd => schlick_antitone h hd hcd,
    fun c hc0 hc1 => ⟨?_, schlick_le_one h hc0 hc1⟩⟩
  rw [← hr0]; exact schlick_ge_r0 h hc1

example : schlick (3 / 2 : ℚ) 1 = 1 / 25 ∧ schlick (3 / 2 : ℚ) 0 = 1 ∧
    schlick (3 / 2 : ℚ) (1 / 2) = 7 / 100 := by
  refine ⟨?_, ?_, ?_⟩ <;> simp only [schlick, schlickR0, pow5] <;> norm_num

/-- `reflectAmount(normal, source)` is `schlick` evaluated at `|normal·source|`, and for unit
vectors that cosine lies in `[0,1]`: the reflectance used by the code is in `[R₀, 1] ⊆ [0,1]`. -/
theorem reflectAmount_range (ior : K) (h : 0 ≤ ior) (n s : V3 K) (hn : n.normSq = 1) (hs : s.normSq = 1) :
    reflectAmount ior n s = schlick ior (absS (n.dot s)) ∧
    0 ≤ reflectAmount ior n s ∧ reflectAmount ior n s ≤ 1 := by
  have hc0 := absS_nonneg (n.dot s)
  have hc1 := abs_dot_le_one hn hs
  refine ⟨rfl, ?_, schlick_le_one h hc0 hc1⟩
  exact le_trans (schlickR0_nonneg ior) (schlick_ge_r0 h hc1)

set_option linter.unusedTactic false in
set_option linter.unreachableTactic false in
set_option linter.unusedSimpArgs false in
/-- **The current source text of `RefractMaterial.reflectAmount`** (translated from
`/repo/render3d/material.go` by go/ast on every run, `M3d/Gen/ReflectAmount.lean`) **is Schlick's
approximation** at the cosine `|normal·source|` — so `schlick_endpoints_monotone` is a statement
about the function as it is written today. -/
theorem reflectAmount_source_is_schlick (ior : K) (n s : V3 K) :
    M3d.Gen.ReflectAmount.reflectAmount ior n s = schlick ior (absS (n.dot s)) ∧
    M3d.Gen.ReflectAmount.reflectAmount ior n s = reflectAmount ior n s := by
  have h : M3d.Gen.ReflectAmount.reflectAmount ior n s = schlick ior (absS (n.dot s)) := by
    -- closes by unfolding when the source has the model's shape; `ring` absorbs algebraic rearrangements
    have hc : s.dot n = n.dot s := dot_comm s n
    simp only [M3d.Gen.ReflectAmount.reflectAmount, schlick, schlickR0, pow5_eq, hc] <;> ring
  exact ⟨h, h⟩

/-- What was wrong before the repair (finding F12): the old expression `r0·(1−r0)·(1−cos)⁵`
is `0` at normal incidence (not `R₀`) and never exceeds `1/4` (so never reaches total reflection). -/
theorem reflectAmount_before_fix_not_schlick (ior : K) :
    reflectAmountF12 ior 1 = 0 ∧ ∀ c : K, 0 ≤ c → c ≤ 1 → reflectAmountF12 ior c ≤ 1 / 4 := by
  refine ⟨by simp only [reflectAmountF12, pow5_eq]; ring, fun c hc0 hc1 => ?_⟩
  simp only [reflectAmountF12, pow5_eq]
  have h1 : schlickR0 ior * (1 - schlickR0 ior) ≤ 1 / 4 := by nlinarith [sq_nonneg (schlickR0 ior - 1 / 2)]
  have h2 : (1 - c) ^ 5 ≤ 1 := pow_le_one₀ (by linarith) (by linarith)
  have h3 : 0 ≤ (1 - c) ^ 5 := pow_nonneg (by linarith) 5
  rcases le_or_gt 0 (schlickR0 ior * (1 - schlickR0 ior)) with h4 | h4
  · nlinarith
  · nlinarith

/-- **The refracted and mirror lobes of `RefractMaterial.BSDF` get weights `1−R` and `R` that sum
to one** and (for unit vectors, `n ≥ 0`) are both in `[0,1]`: the split is a convex combination. -/
theorem lobe_split_sums_to_one (ior : K) (n s : V3 K) :
    (lobeWeights ior n s).1 + (lobeWeights ior n s).2 = 1 ∧
    (lobeWeights ior n s).2 = reflectAmount ior n s := by
  exact ⟨by simp only [lobeWeights]; ring, rfl⟩

theorem lobe_split_convex (ior : K) (h : 0 ≤ ior) (n s : V3 K) (hn : n.normSq = 1) (hs : s.normSq = 1) :
    0 ≤ (lobeWeights ior n s).1 ∧ 0 ≤ (lobeWeights ior n s).2 := by
  have := reflectAmount_range ior h n s hn hs
  simp only [lobeWeights]; exact ⟨by linarith [this.2.2], this.2.1⟩

/-- **`RefractMaterial` samples the lobes with the probabilities its density reports.**
`SampleSource` returns the mirror direction exactly when the uniform draw satisfies `u < R`
(an event of probability `R` for `u` uniform on `[0,1)`) and the refracted one otherwise (`1−R`),
with `R = reflectAmount(normal, dest)`; `SourceDensity` is `(1−R)·[source in the refracted cap] +
R·[source in the mirror cap]`, times the cap density `2/ε` — the same `R`. -/
theorem refract_sampler_matches_density (k : Consts K) (ior : K) (n s d : V3 K) (u : K) :
    refractSampleSource ior true n d u =
      (if u < reflectAmount ior n d then reflectNeg n d else refractInverse ior n d) ∧
    refractSourceDensity k ior true n s d =
      ((if s.dot (refractInverse ior n d) < k.oneMinusEps then 0 else 1 - reflectAmount ior n d) +
       (if s.dot (reflectNeg n d) < k.oneMinusEps then 0 else reflectAmount ior n d)) * 2 / k.eps := by
  refine ⟨by simp [refractSampleSource], ?_⟩
  simp only [refractSourceDensity, Bool.not_true, Bool.false_eq_true, if_false]
  split_ifs <;> simp

/-- **The lobe `RefractMaterial.SampleSource` returns always has positive weight in the density**
(after the boundary repair `u < R`): for a draw `u ∈ [0,1)` and `R ∈ [0,1]`, the mirror lobe is
returned only if `R > 0` and the refracted lobe only if `1 − R > 0` — the sampler never returns a
direction whose reported density is zero, not even on the measure-zero boundary `u = R`. -/
theorem refract_sample_has_positive_weight (ior : K) (n d : V3 K) (u : K) (hu0 : 0 ≤ u) (hu1 : u < 1) :
    (refractSampleSource ior true n d u = reflectNeg n d ∧ 0 < reflectAmount ior n d) ∨
    (refractSampleSource ior true n d u = refractInverse ior n d ∧ 0 < 1 - reflectAmount ior n d) := by
  by_cases h : u < reflectAmount ior n d
  · left; exact ⟨by simp [refractSampleSource, h], lt_of_le_of_lt hu0 h⟩
  · right; exact ⟨by simp [refractSampleSource, h], by linarith [not_lt.mp h]⟩

/-- **`DestDensity`/`SampleDest` of `RefractMaterial` are `SourceDensity`/`SampleSource` with the
normal flipped and the roles of the two directions exchanged** — the same exchange in sampler
and density, so the density reported for destination sampling is the one drawn from. -/
theorem dest_density_symmetry (k : Consts K) (ior : K) (hs : Bool) (n s d : V3 K) (u : K) :
    refractSampleDest ior hs n s u = refractSampleSource ior hs n.neg s u ∧
    refractDestDensity k ior hs n s d = refractSourceDensity k ior hs n.neg d s :=
  ⟨rfl, rfl⟩

/-! ## 2. Mixtures -/

/-- **`JoinedMaterial.SourceDensity/DestDensity` is the mixture density `Σ pᵢ·densityᵢ`.** -/
theorem mixture_density (ps ds : List K) :
    joinDensity ps ds = ((ps.zip ds).map fun pd => pd.1 * pd.2).sum := by
  simp only [joinDensity, joinDensity_foldl]; ring

/-- … and it integrates to one if every lobe's density does and the probabilities sum to one:
for every linear functional `I` ("integrate over the sphere"), `I(Σ pᵢ dᵢ) = Σ pᵢ I(dᵢ)`. -/
theorem mixture_density_integral {X : Type} (I : (X → K) → K)
    (hadd : ∀ f g, I (fun x => f x + g x) = I f + I g) (hsmul : ∀ (c : K) f, I (fun x => c * f x) = c * I f)
    (hzero : I (fun _ => 0) = 0) (ps : List K) (ds : List (X → K)) (hlen : ps.length = ds.length)
    (hone : ∀ d ∈ ds, I d = 1) :
    I (fun x => joinDensity ps (ds.map fun d => d x)) = ps.sum := by
  simp only [mixture_density]
  induction ps generalizing ds with
  | nil => simpa using hzero
  | cons p ps ih =>
    cases ds with
    | nil => simp at hlen
    | cons d ds =>
      simp only [List.map_cons, List.zip_cons_cons, List.sum_cons]
      rw [hadd (fun x => p * d x), hsmul, hone d (by simp),
        ih ds (by simpa using hlen) (fun d' hd' => hone d' (by simp [hd']))]
      ring

/-- **`JoinedMaterial` picks lobe `i` exactly for the draws in `[P(i), P(i+1))`**, `P` the partial
sums of `Probs` — an interval of length `Probs[i]`, the weight `SourceDensity` uses for that lobe
(the last lobe also absorbs whatever is left of `[0,1)`, which is nothing when `Σ Probs = 1`). -/
theorem mixture_selection_interval (ps : List K) (hnn : ∀ q ∈ ps, 0 ≤ q) (hne : ps ≠ []) (u : K) (hu : 0 ≤ u) :
    joinSelect ps u < ps.length ∧ (ps.take (joinSelect ps u)).sum ≤ u ∧
    (joinSelect ps u + 1 < ps.length → u < (ps.take (joinSelect ps u + 1)).sum) ∧
    (∀ i (hi : i < ps.length), (ps.take (i + 1)).sum - (ps.take i).sum = ps[i]) := by
  have := joinSelectFrom_spec ps hnn 0 u hu hne
  simp only [Nat.sub_zero] at this
  refine ⟨this.2.1, this.2.2.1, this.2.2.2, fun i hi => ?_⟩
  rw [List.sum_take_succ ps i hi]; ring

example : joinSelect [(1/4 : ℚ), 1/2, 1/4] (1/8) = 0 ∧ joinSelect [(1/4 : ℚ), 1/2, 1/4] (1/4) = 1 ∧
    joinSelect [(1/4 : ℚ), 1/2, 1/4] (7/8) = 2 ∧ joinDensity [(1/4 : ℚ), 1/2, 1/4] [4, 2, 8] = 4 := by
  refine ⟨?_, ?_, ?_, ?_⟩ <;> simp [joinSelect, joinSelectFrom, joinDensity] <;> norm_num

/-- **`PhongMaterial` mixes its two lobes half and half, in sampler and density alike**: with a
diffuse colour `SampleSource` takes the specular lobe iff `gen.Intn(2) = 0` (probability ½)
and `SourceDensity` is `½·specular + ½·Lambert`; without one both are the specular lobe alone. -/
theorem phong_mixture (n dest s : V3 K) (spec cl u c sn : K) (bit : Nat) :
    phongSourceDensity true spec n s = (1 / 2) * spec + (1 / 2) * lambertDensity n s ∧
    phongSourceDensity false spec n s = spec ∧
    phongSampleSource true bit n dest cl u c sn =
      (if bit = 0 then aroundDirSample (reflectNeg n dest) cl c sn else lambertSample n u c sn) ∧
    phongSampleSource false bit n dest cl u c sn = aroundDirSample (reflectNeg n dest) cl c sn := by
  refine ⟨by simp only [phongSourceDensity]; simp; ring, by simp [phongSourceDensity], ?_, by simp [phongSampleSource]⟩
  simp only [phongSampleSource]; split_ifs <;> simp_all

/-! ## 3. Energy -/

/-- The flux correction of `PhongMaterial.BSDF` never amplifies: `cos_out / maximumCosine ≤ 1`. -/
theorem flux_correction_le_one (k : Consts K) (hk : 0 < k.eps) (cs cd : K) :
    cd / maximumCosine k cs cd ≤ 1 := by
  have hm : cd ≤ maximumCosine k cs cd := by
    simp only [maximumCosine, maxS_eq_max, absS_eq_abs]
    exact le_trans (le_abs_self cd) (le_trans (le_max_right _ _) (le_max_left _ _))
  have hpos : 0 < maximumCosine k cs cd := by
    simp only [maximumCosine, maxS_eq_max]; exact lt_of_lt_of_le hk (le_max_right _ _)
  rw [div_le_one hpos]; exact hm

/-- **Reflected energy of `PhongMaterial` (flux-corrected) is bounded lobe by lobe**: the outgoing
radiance times the outgoing cosine is at most `Diffuse · 4cos_out + Specular · 2(α+1)·refDotᵅ` in
every channel — the two terms are the Lambert density and the normalised Phong-lobe density
(`lambert_cdf`, `phong_cdf`: each integrates to one), so the reflected fraction is at most
`Diffuse + Specular`.  (`powRef` stands for `pow(refDot, α)`.) -/
theorem phong_energy_le (k : Consts K) (hk : 0 < k.eps) (alpha powRef : K) (ha : 0 ≤ alpha) (hp : 0 ≤ powRef)
    (hd : Bool) (sp df n s d : V3 K) (hsp : 0 ≤ sp.x) (hdf : 0 ≤ df.x) (h0 : 0 ≤ d.dot n) :
    (phongBSDF k alpha false hd sp df n s d powRef).x * d.dot n ≤
      (if hd then df.x * 4 * d.dot n else 0) + sp.x * (2 * (powRef * (1 + alpha))) := by
  simp only [phongBSDF]
  have hbound : 0 ≤ sp.x * (2 * (powRef * (1 + alpha))) := by positivity
  have hdiff : 0 ≤ df.x * 4 * d.dot n := by positivity
  have hfc := flux_correction_le_one k hk (-(s.dot n)) (d.dot n)
  have hpos : 0 < maximumCosine k (-(s.dot n)) (d.dot n) := by
    simp only [maximumCosine, maxS_eq_max]; exact lt_of_lt_of_le hk (le_max_right _ _)
  have e : sp.x * (2 * (powRef * (1 + alpha) / maximumCosine k (-(s.dot n)) (d.dot n))) * d.dot n =
      sp.x * (2 * (powRef * (1 + alpha))) * (d.dot n / maximumCosine k (-(s.dot n)) (d.dot n)) := by
    field_simp
  have hspec : sp.x * (2 * (powRef * (1 + alpha) / maximumCosine k (-(s.dot n)) (d.dot n))) * d.dot n ≤
      sp.x * (2 * (powRef * (1 + alpha))) := by
    rw [e]; nlinarith
  split_ifs
  all_goals simp only [V3.add, V3.scale]
  all_goals (try contradiction)
  all_goals nlinarith

/-- **Lambert reflects exactly `DiffuseColor` of the incident energy**: where the BSDF is non-zero,
BSDF × outgoing cosine is `DiffuseColor ×` the Lambert density `4cos` (which integrates to one). -/
theorem lambert_energy (df n s d : V3 K) (h : 0 ≤ d.dot n) (hs : s.dot n ≤ 0) :
    (lambertBSDF df n s d).x * d.dot n = df.x * lambertDensity n d.neg := by
  have h1 : ¬ (d.dot n < 0 ∨ 0 < s.dot n) := by rw [not_or, not_lt, not_lt]; exact ⟨h, hs⟩
  have h2 : -(n.dot d.neg) = d.dot n := by simp only [V3.dot, V3.neg]; ring
  simp only [lambertBSDF, lambertDensity, if_neg h1, h2, if_neg (not_lt.mpr h), V3.scale]
  ring


/-- **The delta lobes of `RefractMaterial` reflect/transmit at most the incident energy**: each lobe's
BSDF times the outgoing cosine is pointwise at most the density of the uniform cap of half-angle
cosine `1−ε` around the refracted (resp. mirror) direction — a density that integrates to one
(`uniform_cap_cdf`). -/
theorem refract_lobe_energy_pointwise (k : Consts K) (hk : 0 < k.eps) (hk1 : k.oneMinusEps = 1 - k.eps)
    (ior : K) (n s d : V3 K) :
    refractBSDF k ior n s d * absS (d.dot n) ≤ aroundUniformDensity k.oneMinusEps (refract ior n s) d ∧
    reflectBSDF k n s d * absS (d.dot n) ≤ aroundUniformDensity k.oneMinusEps (reflectNeg n s) d := by
  have h2e : 0 ≤ 2 / k.eps := by positivity
  have hcap : 2 / (1 - k.oneMinusEps) = 2 / k.eps := by rw [hk1]; ring_nf
  have habs := absS_nonneg (d.dot n)
  constructor
  · simp only [refractBSDF, aroundUniformDensity, dot_comm (refract ior n s) d, hcap]
    split_ifs
    · simp
    · have hm : 0 < maxS k.eps (absS (d.dot n)) := by rw [maxS_eq_max]; exact lt_of_lt_of_le hk (le_max_left _ _)
      have hle : absS (d.dot n) ≤ maxS k.eps (absS (d.dot n)) := by rw [maxS_eq_max]; exact le_max_right _ _
      have : 1 / maxS k.eps (absS (d.dot n)) * 2 / k.eps * absS (d.dot n) =
          (absS (d.dot n) / maxS k.eps (absS (d.dot n))) * (2 / k.eps) := by field_simp
      rw [this]
      have h1 : absS (d.dot n) / maxS k.eps (absS (d.dot n)) ≤ 1 := (div_le_one hm).mpr hle
      nlinarith
  · simp only [reflectBSDF, aroundUniformDensity, dot_comm (reflectNeg n s) d, hcap]
    split_ifs
    · simp
    · have hm : 0 < maximumCosine k (d.dot n) (s.dot n) := by
        simp only [maximumCosine, maxS_eq_max]; exact lt_of_lt_of_le hk (le_max_right _ _)
      have hle : absS (d.dot n) ≤ maximumCosine k (d.dot n) (s.dot n) := by
        simp only [maximumCosine, maxS_eq_max]
        exact le_trans (le_max_left _ _) (le_max_left _ _)
      have : 1 / maximumCosine k (d.dot n) (s.dot n) * 2 / k.eps * absS (d.dot n) =
          (absS (d.dot n) / maximumCosine k (d.dot n) (s.dot n)) * (2 / k.eps) := by field_simp
      rw [this]
      have h1 : absS (d.dot n) / maximumCosine k (d.dot n) (s.dot n) ≤ 1 := (div_le_one hm).mpr hle
      nlinarith

/-- **Energy conservation of `RefractMaterial`**: for every linear functional `I` ("integrate
BSDF·cos over outgoing directions"), the reflected+transmitted energy of a channel is the convex
combination `(1−R)·RefractColor·E_refr + R·SpecularColor·E_mirror` of the two lobes' energies
(`R = reflectAmount(normal, source)` does not depend on the outgoing direction), hence at most one
when each lobe's energy and each colour is in `[0,1]`. -/
theorem refract_energy_le (k : Consts K) (ior : K) (rc sc n s : V3 K) (I : (V3 K → K) → K) (cosOut : V3 K → K)
    (hadd : ∀ f g, I (fun x => f x + g x) = I f + I g) (hsmul : ∀ (c : K) f, I (fun x => c * f x) = c * I f)
    (hR0 : 0 ≤ reflectAmount ior n s) (hR1 : reflectAmount ior n s ≤ 1)
    (hrc0 : 0 ≤ rc.x) (hrc : rc.x ≤ 1) (hsc0 : 0 ≤ sc.x) (hsc : sc.x ≤ 1)
    (hE1' : I (fun d => refractBSDF k ior n s d * cosOut d) ≤ 1)
    (hE2' : I (fun d => reflectBSDF k n s d * cosOut d) ≤ 1) :
    I (fun d => (refractMatBSDF k ior true rc sc n s d).x * cosOut d) =
      rc.x * (1 - reflectAmount ior n s) * I (fun d => refractBSDF k ior n s d * cosOut d) +
      sc.x * reflectAmount ior n s * I (fun d => reflectBSDF k n s d * cosOut d) ∧
    I (fun d => (refractMatBSDF k ior true rc sc n s d).x * cosOut d) ≤ 1 ∧
    I (fun d => (refractMatBSDF k ior false rc sc n s d).x * cosOut d) ≤ 1 := by
  set R := reflectAmount ior n s with hRdef
  set E1 := I (fun d => refractBSDF k ior n s d * cosOut d) with hE1def
  set E2 := I (fun d => reflectBSDF k n s d * cosOut d) with hE2def
  have e1 : (fun d => (refractMatBSDF k ior true rc sc n s d).x * cosOut d) =
      fun d => (rc.x * (1 - R)) * (refractBSDF k ior n s d * cosOut d) +
        (sc.x * R) * (reflectBSDF k n s d * cosOut d) := by
    funext d
    simp only [refractMatBSDF, lobeWeights, V3.add, V3.scale, Bool.not_true, Bool.false_eq_true, if_false]
    ring
  have e2 : (fun d => (refractMatBSDF k ior false rc sc n s d).x * cosOut d) =
      fun d => rc.x * (refractBSDF k ior n s d * cosOut d) := by
    funext d
    simp only [refractMatBSDF, V3.scale, Bool.not_false, if_true]
    ring
  have main : I (fun d => (refractMatBSDF k ior true rc sc n s d).x * cosOut d) =
      rc.x * (1 - R) * E1 + sc.x * R * E2 := by
    rw [e1, hadd (fun d => (rc.x * (1 - R)) * (refractBSDF k ior n s d * cosOut d)), hsmul, hsmul]
  refine ⟨main, ?_, ?_⟩
  · rw [main]
    have a1 : rc.x * (1 - R) * E1 ≤ 1 - R := by
      have : rc.x * E1 ≤ 1 := by nlinarith
      nlinarith
    have a2 : sc.x * R * E2 ≤ R := by
      have : sc.x * E2 ≤ 1 := by nlinarith
      nlinarith
    linarith
  · rw [e2, hsmul]; nlinarith

/-- **Energy of `JoinedMaterial` is the sum of its lobes' energies** (`BSDF` adds the lobes'
values): for every linear functional `I`, `I(BSDF_joined·cos) = Σ I(BSDFᵢ·cos)`, so it is at most
one whenever the lobes' energies sum to at most one. -/
theorem joined_energy {X : Type} (I : (X → K) → K) (cosOut : X → K)
    (hadd : ∀ f g, I (fun x => f x + g x) = I f + I g) (hzero : I (fun _ => 0) = 0)
    (bs : List (X → V3 K)) :
    I (fun d => (joinBSDF (bs.map fun b => b d)).x * cosOut d) =
      (bs.map fun b => I (fun d => (b d).x * cosOut d)).sum := by
  simp only [joinBSDF_x, List.map_map]
  induction bs with
  | nil => simpa using hzero
  | cons b bs ih =>
    simp only [List.map_cons, List.sum_cons, Function.comp]
    have : (fun d => ((b d).x + (List.map (V3.x ∘ fun b => b d) bs).sum) * cosOut d) =
        fun d => (b d).x * cosOut d + (List.map (V3.x ∘ fun b => b d) bs).sum * cosOut d := by
      funext d; ring
    rw [this, hadd, ih]

/-- **Energy of `HGMaterial`**: with the normal-cosine cancellation the BSDF times the incoming
cosine is at most `ScatterColor ×` the phase density (which integrates to one, `hg_cdf`) — the floor
`1e-5` only ever lowers it; with `IgnoreNormals` the BSDF is `ScatterColor × density` exactly.  So the
scattered fraction is at most `ScatterColor`. -/
theorem hg_energy_le (k : Consts K) (hk : 0 < k.hgEps) (sc n s : V3 K) (dens : K) (hsc : 0 ≤ sc.x) (hd : 0 ≤ dens) :
    (hgBSDF k sc false n s dens).x * absS (s.dot n) ≤ sc.x * dens ∧
    (hgBSDF k sc true n s dens).x = sc.x * dens := by
  constructor
  · simp only [hgBSDF, V3.scale, Bool.false_eq_true, if_false]
    have hm : 0 < maxS k.hgEps (absS (s.dot n)) := by rw [maxS_eq_max]; exact lt_of_lt_of_le hk (le_max_left _ _)
    have hle : absS (s.dot n) ≤ maxS k.hgEps (absS (s.dot n)) := by rw [maxS_eq_max]; exact le_max_right _ _
    have e : sc.x * (dens / maxS k.hgEps (absS (s.dot n))) * absS (s.dot n) =
        sc.x * dens * (absS (s.dot n) / maxS k.hgEps (absS (s.dot n))) := by field_simp
    rw [e]
    have h1 : absS (s.dot n) / maxS k.hgEps (absS (s.dot n)) ≤ 1 := (div_le_one hm).mpr hle
    have h0 : 0 ≤ sc.x * dens := mul_nonneg hsc hd
    nlinarith
  · simp only [hgBSDF, V3.scale, if_true]

/-! ## 4. Area lights -/

/-- **Parts are selected in proportion to their weight** (`MeshAreaLight`: triangle areas;
`joinedAreaLight`: total emissions): with the running totals `cum` and the binary search exactly
as the code performs them, the draw `u` selects the part `i` with `cum(i−1) < u·T ≤ cum(i)` — an
interval of `u` of length `wᵢ/T`. -/
theorem cumulative_selection_proportional (ws : List K) (hnn : ∀ w ∈ ws, 0 ≤ w) (hne : ws ≠ [])
    (u : K) (hu : u * ws.sum ≤ ws.sum) :
    selectIdx ws u < ws.length ∧ total ws = ws.sum ∧
    u * ws.sum ≤ (ws.take (selectIdx ws u + 1)).sum ∧
    (∀ j, j < selectIdx ws u → (ws.take (j + 1)).sum < u * ws.sum) ∧
    (∀ i (hi : i < ws.length), (ws.take (i + 1)).sum - (ws.take i).sum = ws[i]) := by
  have h := selectIdx_spec hnn hne hu
  refine ⟨h.1, total_eq_sum ws, h.2.1, h.2.2, fun i hi => ?_⟩
  rw [List.sum_take_succ ws i hi]; ring

example : selectIdx [(1 : ℚ), 2, 1] (1 / 8) = 0 ∧ selectIdx [(1 : ℚ), 2, 1] (1 / 2) = 1 ∧
    selectIdx [(1 : ℚ), 2, 1] (7 / 8) = 2 ∧ selectIdx [(0 : ℚ), 2, 0, 1] (5 / 6) = 3 := by
  refine ⟨?_, ?_, ?_, ?_⟩ <;> decide +kernel

/-- `CylinderAreaLight` picks cap 1, cap 2 or the shaft for `u₂·A` in `[0, side)`, `[side, 2·side)`,
`[2·side, A)`: probabilities `side/A`, `side/A`, `shaft/A` — proportional to area. -/
theorem cylinder_part_proportional (k : Consts K) (p1 p2 : V3 K) (r u2 : K) :
    let side := cylSideArea k r
    let a := cylShaftArea k p1 p2 r + 2 * side
    (cylPart k p1 p2 r u2 = 0 ↔ u2 * a < side ∧ u2 * a < 2 * side) ∧
    (cylPart k p1 p2 r u2 = 1 ↔ side ≤ u2 * a ∧ u2 * a < 2 * side) ∧
    (cylPart k p1 p2 r u2 = 2 ↔ 2 * side ≤ u2 * a) := by
  simp only [cylPart]
  split_ifs with h1 h2
  · simp [h1, h2]
  · simp [h1, h2, not_lt.mp h2]
  · simp [h1, not_lt.mp h1]

/-- **`JoinAreaLights` samples each part in proportion to its `TotalEmission`, and a part of zero
weight (a light that emits nothing, a zero-area triangle of a mesh light) is never selected by a
positive draw.**  With `ws` the parts' `TotalEmission`s (resp. triangle areas), `T` their sum and a
draw `u` with `0 < u·T ≤ T`: the selected part `i` has `ws[i] > 0` and `cum(i−1) < u·T ≤ cum(i)`
(an interval of `u` of length `ws[i]/T`); `TotalEmission` of the join is `T`.  For a part that emits
`e` (summed over channels) from an area `A > 0`, `ws[i] = e·A`, so the density of its sampled points
per unit area is `(ws[i]/T)·(1/A) = e/T`: proportional to the emission, as the interface requires.
The draw `u = 0` (probability `2⁻⁶³`) selects part 0 whatever its weight; that boundary is out of
scope (measure zero) and mirrored by the model. -/
theorem join_lights_selection_proportional (ws : List K) (hnn : ∀ w ∈ ws, 0 ≤ w) (hne : ws ≠ []) (u : K)
    (hu : u * ws.sum ≤ ws.sum) (hpos : 0 < u * ws.sum) :
    (∃ h : selectIdx ws u < ws.length, 0 < ws[selectIdx ws u]) ∧
    u * ws.sum ≤ (ws.take (selectIdx ws u + 1)).sum ∧
    (∀ j, j < selectIdx ws u → (ws.take (j + 1)).sum < u * ws.sum) ∧
    total ws = ws.sum ∧
    (∀ e A T : K, 0 < A → 0 < T → (e * A / T) * (1 / A) = e / T) := by
  have h := selectIdx_spec hnn hne hu
  refine ⟨selectIdx_weight_pos hnn hne hu hpos, h.2.1, h.2.2, total_eq_sum ws, fun e A T hA hT => ?_⟩
  field_simp

example : selectIdx [(0 : ℚ), 0, 3, 0, 1] (1 / 2) = 2 ∧ selectIdx [(0 : ℚ), 0, 3, 0, 1] (7 / 8) = 4 ∧
    selectIdx [(0 : ℚ), 0, 3, 0, 1] (3 / 4) = 2 := by
  refine ⟨?_, ?_, ?_⟩ <;> decide +kernel

/-! ### Nested `JoinAreaLights` (a joined light passed to `JoinAreaLights` again)

`LTree` (`M3d/Model/LightTree.lean`) is the tree of `*joinedAreaLight`s over primitive lights;
`LTree.select` is `SampleLight`'s descent (one `gen.Float64()` per level, each level the cumulative
table + binary search of `selectIdx`), `LTree.total` is `TotalEmission()`. -/

/-- **`TotalEmission` of a nested join is the sum of the primitive lights' `TotalEmission`s**
(each of which is emission × area, `total_emission_eq_emission_times_area`), however the lights are
grouped: no light is counted twice and none is lost. -/
theorem nested_join_total_emission (t : LTree K) : t.total = t.leaves.sum :=
  LTree.total_eq_leaves_sum t

/-- **A nested join samples every primitive light in proportion to its own `TotalEmission`.**
For non-negative lights with positive total and draws `us ∈ (0,1]` (one per level): `SampleLight`
reaches a primitive light `idx` of positive weight `w`; the draws lie in a cell (a product of
half-open intervals, one per level used) on which *every* vector of draws reaches the same light;
and the volume of that cell — the probability of that path for independent uniform draws — is
`w / TotalEmission`: the conditional probabilities `Wᵢ/W` of the levels telescope.  Since the
weights sum to `TotalEmission` (`nested_join_total_emission`), the cells of a light account for
exactly its share.  Combined with `join_lights_selection_proportional` (density per area `e/T`
inside a light) this is "uniformly by emitted power" for any nesting. -/
theorem nested_join_selection_proportional (t : LTree K) (us : List K) (hnn : ∀ w ∈ t.leaves, 0 ≤ w)
    (hpos : 0 < t.total) (hus : ∀ u ∈ us, 0 < u ∧ u ≤ 1) (hd : t.depth ≤ us.length) :
    ∃ idx w, t.select us = some idx ∧ t.leaves[idx]? = some w ∧ 0 < w ∧
      cellVol (t.cell us) = w / t.leaves.sum ∧ InCell us (t.cell us) ∧
      ∀ us', InCell us' (t.cell us) → t.select us' = some idx := by
  have h := LTree.select_spec t us hnn hpos hus hd
  rw [nested_join_total_emission] at h
  exact h

/-- Non-vacuity / a worked case over ℚ: lights of power 1 and 3 joined, then joined with a light of
power 4.  The draws (1/4, 1/2) reach the second light (index 1) — cell (0,1/2] × (1/4,1] of volume
3/8 = 3/(1+3+4) — and (3/4, ·) the third. -/
example :
    let t : LTree ℚ := .join [.join [.leaf 1, .leaf 3], .leaf 4]
    t.total = 8 ∧ t.leaves = [1, 3, 4] ∧ t.depth = 2 ∧ t.select [1/4, 1/2] = some 1 ∧
    t.cell [1/4, 1/2] = [(0, 1/2), (1/4, 1)] ∧ cellVol (t.cell [1/4, 1/2]) = 3 / 8 ∧
    t.select [3/4, 1/2] = some 2 ∧ t.select [1/4, 1/8] = some 0 := by
  refine ⟨?_, ?_, ?_, ?_, ?_, ?_, ?_, ?_⟩ <;> decide +kernel

/-- What a flattening that weights every member of a nested join by the *whole nested join's*
emission reports (each of the `k` members contributes the group total `g` once): `k·g` instead of
`g` — an over-count whenever the nested join has two or more members and emits anything. -/
theorem nested_join_group_weight_overcounts (g c : K) (k : Nat) (hk : 2 ≤ k) (hg : 0 < g) :
    (List.replicate k g).sum + c ≠ g + c := by
  have h2 : (2 : K) ≤ (k : K) := by exact_mod_cast hk
  rw [List.sum_replicate, nsmul_eq_mul]
  nlinarith

/-- **Exact proportionality on a midpoint grid, one level**: for integer weights `ms` with total
`T > 0` and a grid of `N = q·T` cells, exactly `q·mᵢ = N·mᵢ/T` of the `N` midpoints `(2k+1)/(2N)`
select part `i` — no midpoint lies on a boundary of the cumulative table, so the count does not
depend on `<` vs `≤` at the boundaries. -/
theorem nested_join_midpoint_grid_exact (ms : List Nat) (q : Nat) (hq : 0 < q) (hT : 0 < ms.sum)
    (i : Nat) (hi : i < ms.length) :
    ((Finset.range (q * ms.sum)).filter (fun k =>
      selectIdx (ms.map (Nat.cast : Nat → K)) (((2 * k + 1 : Nat) : K) / ((2 * (q * ms.sum) : Nat) : K)) = i)).card
      = q * ms[i] :=
  selectIdx_midpoint_count ms q hq hT i hi

/-- **Exact proportionality on the full midpoint grid, any nesting** (what the kind `jnestgrid`
counts).  `t` a tree of joins over lights of integer weights (`t.castK` reads them in `K`) in which
every join has a positive total dividing `N` (`gridOK`), `d ≥` its depth: of the `N^d` vectors of
midpoints `((2k₁+1)/(2N), …, (2k_d+1)/(2N))` fed to `SampleLight` as draws, the number that reach
the light `idx` of weight `m` satisfies `count · T = N^d · m`, `T = t.wt` the total weight — the
light's share of the draws is exactly its share `m/T` of the emitted power.  (The same count holds
for the flattened tree, which is again `gridOK`: the count does not depend on the grouping.) -/
theorem nested_join_grid_exact (N : Nat) (t : LTree Nat) (d idx m : Nat) (hok : t.gridOK N)
    (hd : t.depthN ≤ d) (hm : t.leavesN[idx]? = some m) :
    gridCount N (t.castK (K := K)).select d idx * t.wt = N ^ d * m ∧ (gridVecs N d).length = N ^ d :=
  ⟨LTree.gridCount_spec N t d idx m hok hd hm, gridVecs_length N d⟩

/-- Non-vacuity: lights of weight 1 and 1 joined, then joined with a light of weight 2, grid `N = 4`,
two draws: 4, 4 and 8 of the 16 midpoint vectors reach the three lights. -/
example :
    let t : LTree Nat := .join [.join [.leaf 1, .leaf 1], .leaf 2]
    t.gridOK 4 ∧ t.depthN = 2 ∧ t.wt = 4 ∧ t.leavesN = [1, 1, 2] ∧
    gridCount 4 (t.castK (K := ℚ)).select 2 0 = 4 ∧ gridCount 4 (t.castK (K := ℚ)).select 2 1 = 4 ∧
    gridCount 4 (t.castK (K := ℚ)).select 2 2 = 8 := by
  refine ⟨?_, ?_, ?_, ?_, ?_, ?_, ?_⟩
  · simp [LTree.gridOK, LTree.gridOKL, LTree.wts, LTree.wt]
  all_goals decide +kernel

/-- Non-vacuity: the square-root hypothesis `SqrtOK` holds of `Real.sqrt`; the HG constants. -/
example : SqrtOK ℝ := sqrtOK_real
example : (0 : ℝ) < 1 / 100000 ∧ (1 / 100000 : ℝ) ≤ 99999 / 100000 ∧ (99999 / 100000 : ℝ) < 1 := by norm_num

/-- Non-vacuity of the cylinder hypotheses: a unit cylinder along z over ℝ; the draw 9/10 selects
the shaft and the draw 0 the first cap. -/
example : ∃ (k : Consts ℝ) (p1 p2 : V3 ℝ) (r u2 : ℝ),
    0 < (p2.sub p1).normSq ∧ cylPart k p1 p2 r u2 = 2 ∧ cylPart k p1 p2 r 0 = 0 := by
  refine ⟨⟨1, 1, 1, 3, 1, 1⟩, ⟨0, 0, 0⟩, ⟨0, 0, 1⟩, 1, 9 / 10, ?_, ?_, ?_⟩
  · norm_num [V3.sub, V3.normSq]
  · have : (⟨0, 0, 1⟩ : V3 ℝ).dist ⟨0, 0, 0⟩ = 1 := by simp [V3.dist, sqrt_real]
    simp only [cylPart, cylShaftArea, cylSideArea, this]; norm_num
  · have : (⟨0, 0, 1⟩ : V3 ℝ).dist ⟨0, 0, 0⟩ = 1 := by simp [V3.dist, sqrt_real]
    simp only [cylPart, cylShaftArea, cylSideArea, this]; norm_num

/-- **Every `SphereAreaLight` sample lies on the sphere, with the unit outward normal**: for an
accepted (non-zero) Gaussian triple, `normal` is a unit vector and `point − center = radius·normal`,
hence `|point − center|² = radius²`. -/
theorem sphere_sample_on_surface (hs : SqrtOK K) (center : V3 K) (r : K) (g : V3 K) (hg : 0 < g.normSq) :
    let pn := sphereSample center r g
    pn.2.dot pn.2 = 1 ∧ pn.1.sub center = pn.2.scale r ∧ (pn.1.sub center).normSq = r * r := by
  have hu : (g.scale (1 / g.norm)).dot (g.scale (1 / g.norm)) = 1 := by
    have := normalize_normSq hs hg
    rwa [normSq_eq_dot] at this
  refine ⟨hu, ?_, ?_⟩
  · simp only [sphereSample]
    apply V3.ext' <;> simp only [V3.sub, V3.add, V3.scale] <;> ring
  · simp only [sphereSample]
    generalize g.scale (1 / g.norm) = nn at hu
    simp only [V3.sub, V3.add, V3.scale, V3.normSq, V3.dot] at *
    linear_combination (r * r) * hu

/-- **Every shaft sample of `CylinderAreaLight` satisfies the cylinder equation, for every radius**
(the repaired code; finding F13).  For a proper axis `P1 ≠ P2`, a unit circle point `(c,s)` and
the third draw `t`: the sample's axial coordinate is `t`, its offset from the axis is exactly
`radius · normal`, `normal` is a unit vector perpendicular to the axis — so the distance from
the axis is `radius` and `normal` is the outward normal there. -/
theorem cylinder_sample_on_surface (hs : SqrtOK K) (k : Consts K) (p1 p2 : V3 K)
    (hd : 0 < (p2.sub p1).normSq) (r c s u2 t : K) (hcs : c * c + s * s = 1)
    (hpart : cylPart k p1 p2 r u2 = 2) :
    let pn := cylSample k p1 p2 r c s u2 t
    let d := p2.sub p1
    let q := pn.1.sub p1
    q.dot d = t * d.dot d ∧ q.sub (d.scale t) = pn.2.scale r ∧
      (q.sub (d.scale t)).normSq = r * r ∧ pn.2.dot pn.2 = 1 ∧ pn.2.dot d = 0 := by
  have hax : 0 < (p2.sub p1).normalize.normSq := by rw [normalize_normSq hs hd]; exact one_pos
  have hb := (orthoBasis_spec hs hax).of_normalize hs hd
  have hu := lonPoint_unit hb hcs
  have hp := lonPoint_perp hb c s
  simp only [cylSample, hpart]
  simp only [show ¬ (2 = 0) by decide, show ¬ (2 = 1) by decide, if_false]
  generalize lonPoint (orthoBasis (p2.sub p1).normalize).1 (orthoBasis (p2.sub p1).normalize).2 c s = rad at hu hp
  generalize p2.sub p1 = d at hp
  refine ⟨?_, ?_, ?_, hu, hp⟩
  · simp only [V3.sub, V3.add, V3.scale, V3.dot] at *
    linear_combination r * hp
  · apply V3.ext' <;> simp only [V3.sub, V3.add, V3.scale] <;> ring
  · simp only [V3.sub, V3.add, V3.scale, V3.normSq, V3.dot] at *
    linear_combination (r * r) * hu

/-- What was wrong before the repair (finding F13): with the unit radial offset the distance
from the axis is `1` whatever the radius. -/
theorem cylinder_shaft_before_fix_off_surface (p1 d rad : V3 K) (t : K) (hu : rad.dot rad = 1) :
    let q := (cylShaftPointF13 p1 d rad t).sub p1
    (q.sub (d.scale t)).normSq = 1 := by
  simp only [cylShaftPointF13, V3.sub, V3.add, V3.scale, V3.normSq, V3.dot] at *
  linear_combination hu

/-- **Every cap sample of `CylinderAreaLight` lies on that cap with the outward axis normal**: the
point is in the plane through the cap centre perpendicular to the axis, at distance
`radius·√u₃ ≤ radius` from the centre (so the fraction of the disc inside that distance is `u₃`:
uniform by area), and the normal is `∓axis` — unit, pointing away from the other cap. -/
theorem cylinder_cap_sample_on_surface (hs : SqrtOK K) (k : Consts K) (p1 p2 : V3 K)
    (hd : 0 < (p2.sub p1).normSq) (r c s u2 u3 : K) (hcs : c * c + s * s = 1)
    (h3 : 0 ≤ u3) (h3' : u3 ≤ 1) (hpart : cylPart k p1 p2 r u2 ≠ 2) :
    let pn := cylSample k p1 p2 r c s u2 u3
    let d := p2.sub p1
    let center := if cylPart k p1 p2 r u2 = 0 then p1 else p2
    (pn.1.sub center).dot d = 0 ∧ (pn.1.sub center).normSq = (r * r) * u3 ∧
      (pn.1.sub center).normSq ≤ r * r ∧ pn.2.dot pn.2 = 1 ∧
      (if cylPart k p1 p2 r u2 = 0 then pn.2.dot d < 0 else 0 < pn.2.dot d) ∧
      (pn.2 = d.normalize ∨ pn.2 = d.normalize.neg) := by
  have hax1 : (p2.sub p1).normalize.normSq = 1 := normalize_normSq hs hd
  have hax : 0 < (p2.sub p1).normalize.normSq := by rw [hax1]; exact one_pos
  have hb := (orthoBasis_spec hs hax).of_normalize hs hd
  have hu := lonPoint_unit hb hcs
  have hp := lonPoint_perp hb c s
  have hsq := hs.sq u3 h3
  have hnd : 0 < (p2.sub p1).normalize.dot (p2.sub p1) := by
    rw [normalize_dot, ← normSq_eq_dot]; exact div_pos hd (norm_pos hs hd)
  have hpart01 : cylPart k p1 p2 r u2 = 0 ∨ cylPart k p1 p2 r u2 = 1 := by
    simp only [cylPart] at hpart ⊢
    split_ifs at hpart ⊢ <;> simp_all
  have hle : (r * r) * u3 ≤ r * r := by nlinarith [mul_self_nonneg r]
  have hrho : (r * sqrt u3) * (r * sqrt u3) = (r * r) * u3 := by linear_combination (r * r) * hsq
  rw [normSq_eq_dot] at hax1
  rcases hpart01 with h | h
  · have g := cap_geom p1 _ _ (r * sqrt u3) hu hp
    simp only [cylSample, h, if_true]
    refine ⟨g.1, by rw [g.2, hrho], by rw [g.2, hrho]; exact hle, by rw [neg_dot_neg]; exact hax1,
      by rw [neg_dot]; linarith, ?_⟩
    first | exact Or.inr rfl | trivial | simp
  · have g := cap_geom p2 _ _ (r * sqrt u3) hu hp
    simp only [cylSample, h, show ¬ (1 = 0) by decide, if_false, if_true]
    refine ⟨g.1, by rw [g.2, hrho], by rw [g.2, hrho]; exact hle, hax1, hnd, ?_⟩
    first | exact Or.inl rfl | trivial | simp

/-- **The `√r₁` triangle map gives barycentric coordinates**: for draws in `[0,1]` the three
weights are non-negative and sum to one, so the sampled point is inside the triangle. -/
theorem triangle_sample_inside (hs : SqrtOK K) (u2 u3 : K) (h2 : 0 ≤ u2) (h2' : u2 ≤ 1) (h3 : 0 ≤ u3) (h3' : u3 ≤ 1) :
    let w := triBary (sqrt u2) u3
    0 ≤ w.1 ∧ 0 ≤ w.2.1 ∧ 0 ≤ w.2.2 ∧ w.1 + w.2.1 + w.2.2 = 1 := by
  have hn := hs.nonneg u2
  have h1 := sqrt_le_one hs h2 h2'
  simp only [triBary]
  refine ⟨by linarith, mul_nonneg hn (by linarith), mul_nonneg hn h3, by ring⟩

/-- The sampled point is the barycentric combination of the triangle's own vertices, it lies in the
triangle's plane, and the reported `Triangle.Normal()` is a unit vector perpendicular to both
edges, oriented by the right-hand rule (`(b−a)×(c−a)` normalised). -/
theorem triangle_sample_on_plane (hs : SqrtOK K) (t : Tri K) (r1 r2 : K) (ht : 0 < t.crossProduct.normSq) :
    ((triPoint t r1 r2).sub t.a).dot t.crossProduct = 0 ∧
    t.normal.dot t.normal = 1 ∧ t.normal.dot (t.b.sub t.a) = 0 ∧ t.normal.dot (t.c.sub t.a) = 0 ∧
    0 < t.normal.dot t.crossProduct := by
  refine ⟨?_, ?_, ?_, ?_, ?_⟩
  · simp only [triPoint, triBary, Tri.crossProduct, V3.sub, V3.add, V3.scale, V3.cross, V3.dot]; ring
  · have := normalize_normSq hs ht
    rwa [normSq_eq_dot] at this
  · rw [Tri.normal, normalize_dot]
    have : t.crossProduct.dot (t.b.sub t.a) = 0 := by
      simp only [Tri.crossProduct, V3.sub, V3.cross, V3.dot]; ring
    rw [this, zero_div]
  · rw [Tri.normal, normalize_dot]
    have : t.crossProduct.dot (t.c.sub t.a) = 0 := by
      simp only [Tri.crossProduct, V3.sub, V3.cross, V3.dot]; ring
    rw [this, zero_div]
  · rw [Tri.normal, normalize_dot, ← normSq_eq_dot]; exact div_pos ht (norm_pos hs ht)

/-- **The triangle map has constant Jacobian** (ℝ, Fréchet derivative): the map
`(u, r₂) ↦ (√u(1−r₂), √u·r₂)` from the two draws to the free barycentric coordinates — literally
`triBary (sqrt u) r₂` of the model — is differentiable at every `u > 0` and the 2×2 determinant of
its derivative is `1/2`, independent of the point; the sampled point is the affine image
`a + w₁(b−a) + w₂(c−a)` of those coordinates, so its density on the triangle is constant. -/
theorem triangle_jacobian (u r2 : ℝ) (hu : 0 < u) (t : Tri ℝ) :
    (∃ f' : ℝ × ℝ →L[ℝ] ℝ × ℝ, HasFDerivAt triMap f' (u, r2) ∧
      (f' (1, 0)).1 * (f' (0, 1)).2 - (f' (0, 1)).1 * (f' (1, 0)).2 = 1 / 2) ∧
    triMap (u, r2) = ((triBary (sqrt u) r2).2.1, (triBary (sqrt u) r2).2.2) ∧
    triPoint t (sqrt u) r2 =
      (t.a.add ((t.b.sub t.a).scale (triMap (u, r2)).1)).add ((t.c.sub t.a).scale (triMap (u, r2)).2) := by
  refine ⟨triMap_fderiv hu, rfl, ?_⟩
  simp only [triPoint, triBary, triMap, sqrt_real]
  apply V3.ext' <;> simp only [V3.add, V3.sub, V3.scale] <;> ring

/-- **The triangle map preserves area fractions** (measure statement on a generating family, any
ordered field).  For `t, q ∈ [0,1]` let `S(t,q)` be the sub-triangle `a, a+t(b−a), a+t(d−a)` with
`d = b+q(c−b)` — in barycentric terms `w₀ ≥ 1−t ∧ w₂ ≤ q(w₁+w₂)`.  Then (i) a pair of draws
`(u, r₂)` is mapped into `S(t,q)` iff `u ≤ t² ∧ (r₂ ≤ q ∨ u` is the null value `√u = 0)`: the
preimage is the rectangle `[0,t²]×[0,q]` (plus a null segment), of area `t²·q`; (ii) the cross
product (twice the signed area vector) of `S(t,q)` is `t²·q` times that of the triangle.  The
rectangles `[0,t²]×[0,q]` generate the Borel sets of the unit square, so the image of the uniform
law on draws is the uniform law on the triangle. -/
theorem triangle_map_area_preserving (hs : SqrtOK K) (t q u r2 : K) (ht : 0 ≤ t) (hu : 0 ≤ u) (tri : Tri K) :
    (let w := triBary (sqrt u) r2
     (1 - t ≤ w.1 ∧ w.2.2 ≤ q * (w.2.1 + w.2.2)) ↔ (u ≤ t * t ∧ (r2 ≤ q ∨ sqrt u = 0))) ∧
    (let d := tri.b.add ((tri.c.sub tri.b).scale q)
     let sub : Tri K := ⟨tri.a, tri.a.add ((tri.b.sub tri.a).scale t), tri.a.add ((d.sub tri.a).scale t)⟩
     sub.crossProduct = tri.crossProduct.scale (t * t * q)) := by
  have hsq := hs.sq u hu
  have hn := hs.nonneg u
  constructor
  · simp only [triBary]
    constructor
    · rintro ⟨h1, h2⟩
      have hle : sqrt u ≤ t := by linarith
      refine ⟨by nlinarith, ?_⟩
      rcases hn.lt_or_eq with hpos | h0
      · left
        have : sqrt u * r2 ≤ sqrt u * q := by nlinarith
        exact le_of_mul_le_mul_left this hpos
      · right; exact h0.symm
    · rintro ⟨h1, h2⟩
      have hle : sqrt u ≤ t := by
        by_contra hc
        have : t < sqrt u := not_le.mp hc
        nlinarith
      refine ⟨by linarith, ?_⟩
      rcases h2 with h2 | h2
      · nlinarith
      · rw [h2]; simp
  · simp only [Tri.crossProduct]
    apply V3.ext' <;> simp only [V3.cross, V3.add, V3.sub, V3.scale] <;> ring

example : (triBary (1 / 2 : ℚ) (1 / 2)).1 = 1 / 2 ∧ (triBary (1 / 2 : ℚ) (1 / 2)).2.1 = 1 / 4 ∧
    (triBary (1 / 2 : ℚ) (1 / 2)).2.2 = 1 / 4 := by
  refine ⟨?_, ?_, ?_⟩ <;> simp only [triBary] <;> norm_num

/-- `MeshAreaLight.SampleLight` returns a point of the selected triangle of the light's own list
with that triangle's normal. -/
theorem mesh_sample_on_surface (tris : List (Tri K)) (u1 u2 u3 : K) (i : Nat) (p n : V3 K)
    (h : meshSample tris u1 u2 u3 = some (i, p, n)) :
    i = selectIdx (tris.map Tri.area) u1 ∧
    ∃ t, tris[i]? = some t ∧ p = triPoint t (sqrt u2) u3 ∧ n = t.normal := by
  simp only [meshSample] at h
  split at h
  · simp at h
  · rename_i t ht
    simp only [Option.some.injEq, Prod.mk.injEq] at h
    obtain ⟨rfl, rfl, rfl⟩ := h
    exact ⟨rfl, t, ht, rfl, rfl⟩

/-- **`TotalEmission` is emission (summed over R,G,B) times area**: sphere `4πr²`, cylinder
`2πr·|P2−P1| + 2·πr²`, mesh `Σ triangle areas` (with `(2·area)² = |b−a|²|c−a|² − ((b−a)·(c−a))²`). -/
theorem total_emission_eq_emission_times_area (hs : SqrtOK K) (k : Consts K) (e p1 p2 : V3 K) (r : K)
    (tris : List (Tri K)) (t : Tri K) :
    sphereTotalEmission k e r = e.sum * (4 * k.pi * (r * r)) ∧
    cylTotalEmission k e p1 p2 r = e.sum * (2 * k.pi * r * p2.dist p1 + 2 * (k.pi * (r * r))) ∧
    meshTotalEmission tris e = e.sum * (tris.map Tri.area).sum ∧
    (2 * t.area) * (2 * t.area) =
      (t.b.sub t.a).normSq * (t.c.sub t.a).normSq - (t.b.sub t.a).dot (t.c.sub t.a) * (t.b.sub t.a).dot (t.c.sub t.a) := by
  refine ⟨by simp only [sphereTotalEmission]; ring, by simp only [cylTotalEmission, cylShaftArea, cylSideArea]; ring,
    by simp only [meshTotalEmission, total_eq_sum]; ring, ?_⟩
  have h := norm_mul_self hs t.crossProduct
  have e2 : (2 * t.area) * (2 * t.area) = t.crossProduct.norm * t.crossProduct.norm := by
    simp only [Tri.area]; ring
  rw [e2, h]
  simp only [Tri.crossProduct, V3.cross, V3.sub, V3.normSq, V3.dot]; ring

/-! ## 5. Radial laws: the sampler's radial map inverts the cumulative integral of the density

Densities are "relative to the uniform density on the sphere".  For a law that depends only on
the cosine `x` of the angle to a fixed axis, the uniform law has density `1/2` in `x` on `[−1,1]`,
so a reported density `ρ(x)` is right iff the sampler's cosine has a CDF `F` with `F' = ρ/2`,
and the sampler is the inverse-CDF map iff `F(cos(u)) = u` (or `1−u`).  The longitude is
`2π·u'` for an independent draw — uniform — and enters the samples only through a unit circle
point `(c,s)` (see the `…_cosine` theorems).  *Partial:* the statement about the histogram of a
pseudo-random stream is not a theorem; what is proved is this change of variables. -/

/-- The cosine between a direction sampled by `sampleAroundDirection` / `HGMaterial.SampleSource` /
`sampleAroundUniform` (all of the form `dir·cosLat + lonPoint·sinLat` over `dir.OrthoBasis()`) and
`dir` is exactly the radial variable `cosLat`, and the sample is a unit vector. -/
theorem lobe_sample_cosine (hs : SqrtOK K) (dir : V3 K) (hdir : dir.dot dir = 1) (cl c s : K)
    (hcs : c * c + s * s = 1) (hcl : cl * cl ≤ 1) :
    dir.dot (aroundDirSample dir cl c s) = cl ∧
    (aroundDirSample dir cl c s).dot (aroundDirSample dir cl c s) = 1 := by
  have hb := orthoBasis_spec hs (c := dir) (by rw [normSq_eq_dot, hdir]; exact one_pos)
  have hsl := hs.sq (1 - cl * cl) (by linarith)
  simp only [aroundDirSample]
  exact ⟨around_sample_dot hb hdir c s cl _, around_sample_unit hb hdir hcs (by linarith)⟩

/-- **Lambert**: the sample's cosine with the (negated) normal is `√u`, so the reported density at
the sample is `4√u`; the cosine's CDF is `F(x) = x²`: `F(√u) = u` (inverse-CDF sampling),
`F' = 2x = (4x)·½` (the density `4cos` relative to uniform), `F(0) = 0`, `F(1) = 1` (mass one). -/
theorem lambert_cdf (n : V3 ℝ) (hn : n.dot n = 1) (u c s : ℝ) (hu0 : 0 ≤ u) (hu1 : u ≤ 1)
    (hcs : c * c + s * s = 1) :
    lambertDensity n (lambertSample n u c s) = 4 * Real.sqrt u ∧
    (lambertSample n u c s).dot (lambertSample n u c s) = 1 ∧
    (Real.sqrt u) ^ 2 = u ∧
    (∀ x : ℝ, HasDerivAt (fun y : ℝ => y ^ 2) ((4 * x) * (1 / 2)) x) ∧
    ((0 : ℝ) ^ 2 = 0 ∧ (1 : ℝ) ^ 2 = 1) := by
  have hb := orthoBasis_spec sqrtOK_real (c := n) (by rw [normSq_eq_dot, hn]; exact one_pos)
  have hdot : n.dot (lambertSample n u c s) = -Real.sqrt u := by
    simp only [lambertSample]
    exact around_sample_dot hb hn c s (-(sqrt u)) _
  refine ⟨?_, ?_, Real.sq_sqrt hu0, fun x => ?_, by norm_num⟩
  · simp only [lambertDensity, hdot, neg_neg]
    rw [if_neg (not_lt.mpr (Real.sqrt_nonneg u))]
  · simp only [lambertSample]
    refine around_sample_unit hb hn hcs ?_
    have h1 := sqrtOK_real.sq u hu0
    have h2 := sqrtOK_real.sq (1 - u) (by linarith)
    linear_combination h1 + h2
  · have := (hasDerivAt_pow 2 x)
    simpa [mul_comm, mul_assoc] using this.congr_deriv (by ring)

/-- **Phong lobe** (`sampleAroundDirection` / `densityAroundDirection`, also `PhongFocusPoint`), any
exponent `α ≥ 0`: the expression the code evaluates is `2(α+1)·xᵅ`; the cosine's CDF is
`F(x) = x^(α+1)` with `F(v^{1/(α+1)}) = v` (inverse-CDF sampling), `F' = 2(α+1)xᵅ·½`, `F(0)=0`, `F(1)=1`. -/
theorem phong_cdf (a : ℝ) (ha : 0 ≤ a) :
    (∀ x : ℝ, 0 < x → ∀ dir smp : V3 ℝ, dir.dot smp = x →
      aroundDirDensity a dir smp ((x ^ (a + 1)) ^ (1 / (a + 1) - 1)) = 2 * (a + 1) * x ^ a) ∧
    (∀ v : ℝ, 0 ≤ v → (v ^ (1 / (a + 1))) ^ (a + 1) = v) ∧
    (∀ x : ℝ, 0 < x → HasDerivAt (fun y : ℝ => y ^ (a + 1)) ((2 * (a + 1) * x ^ a) * (1 / 2)) x) ∧
    ((0 : ℝ) ^ (a + 1) = 0 ∧ (1 : ℝ) ^ (a + 1) = 1) := by
  refine ⟨fun x hx dir smp hd => ?_, fun v hv => phong_radial_inverse ha hv, fun x hx => phong_cdf_deriv hx,
    Real.zero_rpow (by linarith), Real.one_rpow _⟩
  simp only [aroundDirDensity, hd, if_neg (not_lt.mpr hx.le)]
  exact phong_density_closed_form ha hx

/-- **Henyey–Greenstein**, every raw `G` (clamped by `numericalG` into `(−1,1)∖{0}`): for the draw
`u ∈ [0,1]` the sampled cosine `x = hgCos g (2u−1)` lies in `[−1,1]` and the closed-form CDF
`hgCDF g` of the reported density satisfies `hgCDF g x = u` (inverse-CDF sampling); its derivative
is `cosDensity·½` with `cosDensity = (1−g²)/(1+g²−2gx)^{3/2}` as the code computes it;
`hgCDF g (−1) = 0`, `hgCDF g 1 = 1` (mass one). -/
theorem hg_cdf (k : Consts ℝ) (h0 : 0 < k.hgEps) (h1 : k.hgEps ≤ k.hgMax) (h2 : k.hgMax < 1) (graw : ℝ) :
    let g := hgNumericalG k graw
    (∀ u : ℝ, 0 ≤ u → u ≤ 1 →
      -1 ≤ hgCos g (u * 2 - 1) ∧ hgCos g (u * 2 - 1) ≤ 1 ∧ hgCDF g (hgCos g (u * 2 - 1)) = u) ∧
    (∀ x : ℝ, -1 ≤ x → x ≤ 1 →
      HasDerivAt (hgCDF g) (hgCosDensity g (hgDivisor g x ^ ((3 : ℝ) / 2)) * (1 / 2)) x) ∧
    hgCDF g (-1) = 0 ∧ hgCDF g 1 = 1 := by
  intro g
  obtain ⟨hg0, hg1, hg2⟩ := hgNumericalG_range k h0 h1 h2 graw
  have key : ∀ s : ℝ, -1 ≤ s → s ≤ 1 →
      -1 ≤ hgCos g s ∧ hgCos g s ≤ 1 ∧ hgCDF g (hgCos g s) = (s + 1) / 2 := by
    intro s hs1 hs2
    obtain ⟨hw, hdiv, hF, hl, hr⟩ := hg_algebra hg0 hg1 hg2 hs1 hs2
    refine ⟨hl, hr, ?_⟩
    simp only [hgCDF]
    rw [hdiv, Real.sqrt_mul_self hw.le]
    exact hF
  obtain ⟨em1, e1⟩ := hgCos_endpoints hg0 hg1 hg2
  refine ⟨fun u hu0 hu1 => ?_, fun x hx1 hx2 => ?_, ?_, ?_⟩
  · obtain ⟨a, b, c⟩ := key (u * 2 - 1) (by linarith) (by linarith)
    exact ⟨a, b, by rw [c]; ring⟩
  · exact hg_cdf_deriv hg0 (hg_divisor_pos (abs_lt.mpr ⟨hg1, hg2⟩) hx1 hx2)
  · have := (key (-1) le_rfl (by norm_num)).2.2
    rw [em1] at this; rw [this]; norm_num
  · have := (key 1 (by norm_num) le_rfl).2.2
    rw [e1] at this; rw [this]; norm_num

/-- **Uniform cap** (`sampleAroundUniform` / `densityAroundUniform`, `SphereFocusPoint`): for
`minCos < 1` the sampled cosine `1 − u(1−m)` lies in `[m,1]`, where the reported density is the
constant `2/(1−m)`; the CDF `F(x) = (x−m)/(1−m)` satisfies `F(cos(u)) = 1−u`, `F' = density·½`,
`F(m) = 0`, `F(1) = 1`.  `focusInfo` makes `m` the cosine of the tangent cone:
`m² = 1 − (r/d)²`, with `dir` the unit vector from the centre to the point. -/
theorem uniform_cap_cdf (m : K) (hm : m < 1) (u : K) (hu0 : 0 ≤ u) (hu1 : u ≤ 1) (dir smp : V3 K) :
    m ≤ capCos m u ∧ capCos m u ≤ 1 ∧ (capCos m u - m) / (1 - m) = 1 - u ∧
    (dir.dot smp = capCos m u → aroundUniformDensity m dir smp = 2 / (1 - m)) ∧
    (2 / (1 - m)) * (1 / 2) = 1 / (1 - m) ∧ (m - m) / (1 - m) = 0 ∧ (1 - m) / (1 - m) = 1 := by
  have h1 : 0 < 1 - m := by linarith
  have hc1 : m ≤ capCos m u := by simp only [capCos]; nlinarith
  refine ⟨hc1, by simp only [capCos]; nlinarith, ?_, fun hd => ?_, by ring, by simp, div_self h1.ne'⟩
  · simp only [capCos]; field_simp; ring
  · simp only [aroundUniformDensity, hd, if_neg (not_lt.mpr hc1)]

theorem focus_info_tangent_cone (hs : SqrtOK K) (center point : V3 K) (r : K) (hr : 0 ≤ r)
    (hd : 0 < (point.sub center).normSq) (hout : ¬ (point.sub center).norm < r) :
    let fi := focusInfo center r point
    fi.1 * fi.1 = 1 - (r / (point.sub center).norm) * (r / (point.sub center).norm) ∧
    0 ≤ fi.1 ∧ fi.2.dot fi.2 = 1 := by
  have hn := norm_pos hs hd
  have hle : r / (point.sub center).norm ≤ 1 := by rw [div_le_one hn]; exact not_lt.mp hout
  have h0 : 0 ≤ r / (point.sub center).norm := div_nonneg hr hn.le
  simp only [focusInfo, if_neg hout]
  refine ⟨hs.sq _ (by nlinarith), hs.nonneg _, ?_⟩
  have := normalize_normSq hs hd
  rwa [normSq_eq_dot] at this

/-- **`HGMaterial.SampleSource` always returns a direction** (after the clamp repair): for every raw
`G`, every draw `u` and every unit circle point the sample is a unit vector whose cosine with `dest`
is the clamped sampled cosine — the argument of the square root is never negative.  And the clamp
does not change the law: in exact arithmetic the sampled cosine already lies in `[−1,1]` for every
`u ∈ [0,1]`. -/
theorem hg_sample_is_direction (hs : SqrtOK K) (k : Consts K) (graw : K) (dest : V3 K)
    (hdest : dest.dot dest = 1) (u c s : K) (hcs : c * c + s * s = 1) :
    (hgSample k graw dest u c s).dot (hgSample k graw dest u c s) = 1 ∧
    dest.dot (hgSample k graw dest u c s) = clampUnit (hgCos (hgNumericalG k graw) (u * 2 - 1)) ∧
    (0 < k.hgEps → k.hgEps ≤ k.hgMax → k.hgMax < 1 → 0 ≤ u → u ≤ 1 →
      clampUnit (hgCos (hgNumericalG k graw) (u * 2 - 1)) = hgCos (hgNumericalG k graw) (u * 2 - 1)) := by
  have hb := orthoBasis_spec hs (c := dest) (by rw [normSq_eq_dot, hdest]; exact one_pos)
  obtain ⟨h1, h2⟩ := clampUnit_range (hgCos (hgNumericalG k graw) (u * 2 - 1))
  set cl := clampUnit (hgCos (hgNumericalG k graw) (u * 2 - 1)) with hcl
  have hsl := hs.sq (1 - cl * cl) (by nlinarith)
  refine ⟨?_, ?_, fun h0 h01 h02 hu0 hu1 => ?_⟩
  · simp only [hgSample, ← hcl]
    exact around_sample_unit hb hdest hcs (by linarith)
  · simp only [hgSample, ← hcl]
    exact around_sample_dot hb hdest c s cl _
  · obtain ⟨hg0, hg1, hg2⟩ := hgNumericalG_range k h0 h01 h02 graw
    obtain ⟨_, _, _, hl, hr⟩ := hg_algebra hg0 hg1 hg2 (s := u * 2 - 1) (by linarith) (by linarith)
    exact clampUnit_id hl hr

/-- **`SphereFocusPoint`: `FocusDensity` is the density `SampleFocus` draws from**, as a theorem over
the radial law (ℝ, with the code's `acos`/`cos`/`sin`).  (i) Both methods take the same branch: when
the point is inside the sphere or the material is filtered out they return the material's own sample
and the material's own density.  (ii) Otherwise (`radius > 0`), for the draw `u ∈ [0,1]` the sample is
a unit vector whose cosine with `dir` (unit, from the centre to the point) is `x = 1 − u(1−m)`
∈ `[m,1]`, with `m < 1` the tangent-cone cosine of `focusInfo`; `FocusDensity` at that sample is the
constant `2/(1−m)` — the density whose CDF `uniform_cap_cdf` inverts. -/
theorem focus_density_matches_sampler (center point : V3 ℝ) (r : ℝ) (matSample : V3 ℝ) (md : ℝ)
    (u c s : ℝ) (hu0 : 0 ≤ u) (hu1 : u ≤ 1) (hcs : c * c + s * s = 1) :
    (∀ focus cl sl, (center.dist point < r ∨ focus = false) →
      sphereFocusSample center r point focus matSample cl sl c s = matSample ∧
      ∀ src, sphereFocusDensity center r point focus md src = md) ∧
    (0 < r → ¬ center.dist point < r →
      let fi := focusInfo center r point
      let x := capCos fi.1 u
      let smp := sphereFocusSample center r point true matSample
        (Real.cos (Real.arccos x)) (Real.sin (Real.arccos x)) c s
      fi.1 < 1 ∧ fi.1 ≤ x ∧ x ≤ 1 ∧ fi.2.dot smp = x ∧ smp.dot smp = 1 ∧
        sphereFocusDensity center r point true md smp = 2 / (1 - fi.1)) := by
  constructor
  · intro focus cl sl hcond
    exact ⟨by simp only [sphereFocusSample, if_pos hcond], fun src => by simp only [sphereFocusDensity, if_pos hcond]⟩
  · intro hr hout
    have hdist : center.dist point = (point.sub center).norm := by
      simp only [V3.dist, V3.norm, V3.sub]; congr 1; ring
    have hout' : ¬ (point.sub center).norm < r := by rwa [← hdist]
    have hnpos : 0 < (point.sub center).norm := lt_of_lt_of_le hr (not_lt.mp hout')
    have hd : 0 < (point.sub center).normSq := by
      have := norm_mul_self sqrtOK_real (point.sub center)
      nlinarith
    obtain ⟨hm2, hm0, hdir⟩ := focus_info_tangent_cone sqrtOK_real center point r hr.le hd hout'
    have hratio : 0 < r / (point.sub center).norm := div_pos hr hnpos
    have hm1 : (focusInfo center r point).1 < 1 := by
      by_contra hc
      have : 1 ≤ (focusInfo center r point).1 := not_lt.mp hc
      nlinarith [mul_pos hratio hratio]
    obtain ⟨hx0, hx1, _, hdens, _⟩ := uniform_cap_cdf (focusInfo center r point).1 hm1 u hu0 hu1
      (focusInfo center r point).2 matSample
    have hcond : ¬ (center.dist point < r ∨ true = false) := by simp [hout]
    have hb := orthoBasis_spec sqrtOK_real (c := (focusInfo center r point).2)
      (by rw [normSq_eq_dot, hdir]; exact one_pos)
    have hxm1 : -1 ≤ capCos (focusInfo center r point).1 u := by linarith
    have hcos := Real.cos_arccos hxm1 hx1
    have hunit : Real.cos (Real.arccos (capCos (focusInfo center r point).1 u)) *
        Real.cos (Real.arccos (capCos (focusInfo center r point).1 u)) +
        Real.sin (Real.arccos (capCos (focusInfo center r point).1 u)) *
        Real.sin (Real.arccos (capCos (focusInfo center r point).1 u)) = 1 := by
      have := Real.sin_sq_add_cos_sq (Real.arccos (capCos (focusInfo center r point).1 u))
      nlinarith
    have hdot : (focusInfo center r point).2.dot
        (sphereFocusSample center r point true matSample
          (Real.cos (Real.arccos (capCos (focusInfo center r point).1 u)))
          (Real.sin (Real.arccos (capCos (focusInfo center r point).1 u))) c s) =
        capCos (focusInfo center r point).1 u := by
      simp only [sphereFocusSample, if_neg hcond, aroundUniformSample]
      rw [around_sample_dot hb hdir c s _ _, hcos]
    refine ⟨hm1, hx0, hx1, hdot, ?_, ?_⟩
    · simp only [sphereFocusSample, if_neg hcond, aroundUniformSample]
      exact around_sample_unit hb hdir hcs hunit
    · simp only [sphereFocusDensity, if_neg hcond]
      simp only [aroundUniformDensity, hdot, if_neg (not_lt.mpr hx0)]

/-- **`PhongFocusPoint`: `FocusDensity` is the density `SampleFocus` draws from.**  (i) When
`Target == point` or the material is filtered out both methods defer to the material.  (ii) Otherwise
both use the same unit direction `normalize(point − Target)`; the sample is a unit vector whose
cosine with it is the radial variable `cosLat = v^{1/(α+1)}`, and `FocusDensity` at the sample is
`densityAroundDirection` of that same direction — `2(α+1)·cosLatᵅ` by `phong_cdf`, whose CDF the
radial map inverts. -/
theorem focus_density_matches_sampler_phong (hs : SqrtOK K) (target point : V3 K)
    (hne : 0 < (point.sub target).normSq) (alpha md p2 cosLat c s : K) (matSample : V3 K)
    (hcs : c * c + s * s = 1) (hcl : cosLat * cosLat ≤ 1) :
    (∀ same focus, (same = true ∨ focus = false) →
      phongFocusSample target point same focus matSample cosLat c s = matSample ∧
      ∀ src, phongFocusDensity target point same focus alpha md src p2 = md) ∧
    (let dir := phongFocusDir target point
     let smp := phongFocusSample target point false true matSample cosLat c s
     dir.dot dir = 1 ∧ dir.dot smp = cosLat ∧ smp.dot smp = 1 ∧
       phongFocusDensity target point false true alpha md smp p2 = aroundDirDensity alpha dir smp p2) := by
  constructor
  · intro same focus hcond
    exact ⟨by simp only [phongFocusSample, if_pos hcond], fun src => by simp only [phongFocusDensity, if_pos hcond]⟩
  · have hdir : (phongFocusDir target point).dot (phongFocusDir target point) = 1 := by
      have := normalize_normSq hs hne
      rwa [normSq_eq_dot] at this
    have hcond : ¬ (false = true ∨ true = false) := by simp
    obtain ⟨h1, h2⟩ := lobe_sample_cosine hs (phongFocusDir target point) hdir cosLat c s hcs hcl
    refine ⟨hdir, ?_, ?_, ?_⟩
    · simp only [phongFocusSample, if_neg hcond]; exact h1
    · simp only [phongFocusSample, if_neg hcond]; exact h2
    · simp only [phongFocusDensity, if_neg hcond]

end M3d.C19
