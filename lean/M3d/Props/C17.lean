import M3d.Lemmas.C17Num
import M3d.Lemmas.C17Search
import M3d.Lemmas.C17Bezier
import M3d.Lemmas.C17Split
import M3d.Lemmas.C17Seg
import M3d.Lemmas.C17Svd2
import M3d.Lemmas.C17Vec
import M3d.Lemmas.C17PolyMul
import M3d.Lemmas.C17BiCG
import M3d.Lemmas.C17Lsq
import Mathlib.Algebra.Order.Ring.Basic
import M3d.Gen.Binomial
import M3d.Model.C17Memo
/-!
# C17 — numerical and curve kernels satisfy their defining equations

Property theorems only.  Models: `M3d/Model/Numeric.lean` (matrices, polynomials, angles),
`M3d/Model/Curves.lean` (Bezier, polyline and joined curves, bisection), `M3d/Model/Search.lean`
(grid / line / golden-section searches), `M3d/Gen/Binomial.lean` (table regenerated from the source).
Every theorem is about the generic model instantiated at an arbitrary linearly ordered field
(so at ℚ — the instance the exact-mode correspondence runs — and at ℝ).
-/
namespace M3d.C17
open M3d.Num M3d.Curves M3d.Search

variable {K : Type} [Field K]

/-! ## Matrices (`numerical/matrix2.go`, `matrix3.go`, `matrix4.go`, `model2d/matrix.go`, `model3d/matrix.go`) -/

/-- `Matrix2.Inverse()` is a left inverse whenever `Det() ≠ 0`. -/
theorem mat2_inverse_mul (m : M2 K) (h : m.det ≠ 0) : m.inverse.mul m = M2.one := by
  have key : ((1 : Nat) : K) / m.det * m.det = 1 := by push_cast; exact one_div_mul_cancel h
  simp only [M2.inverse, M2.invertDet, M2.scale, M2.mul, M2.one]
  generalize ((1 : Nat) : K) / m.det = s at key
  simp only [M2.det] at key
  push_cast
  congr 1 <;> first | (linear_combination key) | (linear_combination 0 * key)

/-- … and a right inverse. -/
theorem mat2_mul_inverse (m : M2 K) (h : m.det ≠ 0) : m.mul m.inverse = M2.one := by
  have key : ((1 : Nat) : K) / m.det * m.det = 1 := by push_cast; exact one_div_mul_cancel h
  simp only [M2.inverse, M2.invertDet, M2.scale, M2.mul, M2.one]
  generalize ((1 : Nat) : K) / m.det = s at key
  simp only [M2.det] at key
  push_cast
  congr 1 <;> first | (linear_combination key) | (linear_combination 0 * key)

/-- `Matrix2.MulColumnInv(c, m.Det())` solves `m·x = c`. -/
theorem mat2_mulColumnInv_solves (m : M2 K) (c : V2 K) (h : m.det ≠ 0) :
    m.mulColumn (m.mulColumnInv c m.det) = c := by
  have key : ((1 : Nat) : K) / m.det * m.det = 1 := by push_cast; exact one_div_mul_cancel h
  simp only [M2.mulColumnInv, M2.mulColumn]
  generalize ((1 : Nat) : K) / m.det = s at key
  simp only [M2.det] at key
  obtain ⟨x, y⟩ := c
  congr 1
  · linear_combination x * key
  · linear_combination y * key

/-- `Det` is multiplicative over `Mul`. -/
theorem mat2_det_mul (m n : M2 K) : (m.mul n).det = m.det * n.det := by
  simp only [M2.mul, M2.det]; ring

/-- `Transpose` is an involution, preserves `Det`, and reverses `Mul`. -/
theorem mat2_transpose_involutive (m n : M2 K) :
    m.transpose.transpose = m ∧ m.transpose.det = m.det ∧
      (m.mul n).transpose = n.transpose.mul m.transpose := by
  refine ⟨rfl, ?_, ?_⟩
  · simp only [M2.transpose, M2.det]; ring
  · simp only [M2.transpose, M2.mul]; congr 1 <;> ring

/-- `MulColumn` is the action of `Mul`: `(m·n)·c = m·(n·c)`. -/
theorem mat2_mulColumn_mul (m n : M2 K) (c : V2 K) :
    (m.mul n).mulColumn c = m.mulColumn (n.mulColumn c) := by
  simp only [M2.mul, M2.mulColumn]; congr 1 <;> ring

/-- `Matrix3.Inverse()` is a left inverse whenever `Det() ≠ 0`. -/
theorem mat3_inverse_mul (m : M3 K) (h : m.det ≠ 0) : m.inverse.mul m = M3.one := by
  have key : ((1 : Nat) : K) / m.det * m.det = 1 := by push_cast; exact one_div_mul_cancel h
  simp only [M3.inverse, M3.invertDet, M3.scale, M3.mul, M3.one, M3.adj]
  generalize ((1 : Nat) : K) / m.det = s at key
  simp only [M3.det] at key
  push_cast
  congr 1 <;> first | (linear_combination key) | (linear_combination 0 * key)

/-- … and a right inverse. -/
theorem mat3_mul_inverse (m : M3 K) (h : m.det ≠ 0) : m.mul m.inverse = M3.one := by
  have key : ((1 : Nat) : K) / m.det * m.det = 1 := by push_cast; exact one_div_mul_cancel h
  simp only [M3.inverse, M3.invertDet, M3.scale, M3.mul, M3.one, M3.adj]
  generalize ((1 : Nat) : K) / m.det = s at key
  simp only [M3.det] at key
  push_cast
  congr 1 <;> first | (linear_combination key) | (linear_combination 0 * key)

/-- `Matrix3.MulColumnInv(c, m.Det())` solves `m·x = c`. -/
theorem mat3_mulColumnInv_solves (m : M3 K) (c : V3 K) (h : m.det ≠ 0) :
    m.mulColumn (m.mulColumnInv c m.det) = c := by
  have key : ((1 : Nat) : K) / m.det * m.det = 1 := by push_cast; exact one_div_mul_cancel h
  simp only [M3.mulColumnInv, M3.mulColumn, M3.adj]
  generalize ((1 : Nat) : K) / m.det = s at key
  simp only [M3.det] at key
  obtain ⟨x, y, z⟩ := c
  congr 1
  · linear_combination x * key
  · linear_combination y * key
  · linear_combination z * key

/-- `Det` is multiplicative over `Mul` (3×3). -/
theorem mat3_det_mul (m n : M3 K) : (m.mul n).det = m.det * n.det := by
  simp only [M3.mul, M3.det]; ring

/-- `Transpose` is an involution, preserves `Det`, and reverses `Mul` (3×3). -/
theorem mat3_transpose_involutive (m n : M3 K) :
    m.transpose.transpose = m ∧ m.transpose.det = m.det ∧
      (m.mul n).transpose = n.transpose.mul m.transpose := by
  refine ⟨rfl, ?_, ?_⟩
  · simp only [M3.transpose, M3.det]; ring
  · simp only [M3.transpose, M3.mul]; congr 1 <;> ring

/-- `(m·n)·c = m·(n·c)` (3×3). -/
theorem mat3_mulColumn_mul (m n : M3 K) (c : V3 K) :
    (m.mul n).mulColumn c = m.mulColumn (n.mulColumn c) := by
  simp only [M3.mul, M3.mulColumn]; congr 1 <;> ring

/-- `Matrix4.CharPoly()` evaluated at `x` is `det(x·I − m)` (with `Matrix4.Det`'s own expansion):
the coefficient formulas written out in the source are the characteristic polynomial. -/
theorem mat4_charpoly_coeffs (m : M4 K) (x : K) :
    Poly.eval m.charPoly x = (M4.xIminus x m).det := by
  rw [Poly.eval_eq_spec]
  obtain ⟨a, b, c, d, e, f, g, h, i, j, k, l, m1, n, o, p⟩ := m
  simp only [M4.charPoly, M4.xIminus, M4.det, Poly.evalSpec_cons, Poly.evalSpec_nil]
  push_cast
  ring

/-- `Matrix4.Det` (the 24-term expansion in the source) is multiplicative over `Matrix4.Mul`. -/
theorem mat4_det_mul (x y : M4 K) : (x.mul y).det = x.det * y.det := by
  obtain ⟨a, b, c, d, e, f, g, h, i, j, k, l, m1, n, o, p⟩ := x
  obtain ⟨a', b', c', d', e', f', g', h', i', j', k', l', m1', n', o', p'⟩ := y
  simp only [M4.mul, M4.det]
  ring

/-- `Matrix4.Transpose` is an involution and preserves `Det`. -/
theorem mat4_transpose_involutive (m : M4 K) :
    m.transpose.transpose = m ∧ m.transpose.det = m.det := by
  refine ⟨rfl, ?_⟩
  obtain ⟨a, b, c, d, e, f, g, h, i, j, k, l, m1, n, o, p⟩ := m
  simp only [M4.transpose, M4.det]; ring

/-! ## Scale covariance of the decompositions

"Well-conditioned" is scale-free: `M` and `s·M` have the same condition number.  The theorems below say
how every modelled ingredient of the inverse / eigen / singular-value kernels transforms under
`M ↦ s·M` (`Scale(s)`), so that the verdict on a scaled instance `2^k·M` is the verdict on `M`
(the correspondence kind `scov.f` checks, bit for bit, that the real code follows these laws for exact
powers of two; `resid.v … _scaled` measures the residuals relative to the matrix norm). -/

/-- `Det` of `Scale(s)`: `det(s·M) = s²·det M` (2×2). -/
theorem mat2_smul_det (m : M2 K) (s : K) : (m.scale s).det = s ^ 2 * m.det := by
  simp only [M2.scale, M2.det]; ring

/-- `det(s·M) = s³·det M` (3×3). -/
theorem mat3_smul_det (m : M3 K) (s : K) : (m.scale s).det = s ^ 3 * m.det := by
  simp only [M3.scale, M3.det]; ring

/-- `det(s·M) = s⁴·det M` (`Matrix4.Scale`, `Matrix4.Det`). -/
theorem mat4_smul_det (m : M4 K) (s : K) : (m.scale s).det = s ^ 4 * m.det := by
  obtain ⟨a, b, c, d, e, f, g, h, i, j, k, l, m1, n, o, p⟩ := m
  simp only [M4.scale, M4.det]; ring

/-- `Inverse` is covariant: `(s·M)⁻¹ = s⁻¹·M⁻¹` as computed by the code (adjugate times `1/det`), for
EVERY `s` and `M` (also the degenerate ones, where both sides are the zero matrix of `x/0 = 0`). -/
theorem mat2_smul_inverse (m : M2 K) (s : K) : (m.scale s).inverse = m.inverse.scale s⁻¹ := by
  simp only [M2.inverse, M2.invertDet, M2.scale, M2.det]
  by_cases hs : s = 0
  · subst hs; simp
  by_cases hd : m.m0 * m.m3 - m.m1 * m.m2 = 0
  · have h2 : m.m0 * s * (m.m3 * s) - m.m1 * s * (m.m2 * s) = 0 := by linear_combination s ^ 2 * hd
    rw [hd, h2]; simp
  · have h2 : m.m0 * s * (m.m3 * s) - m.m1 * s * (m.m2 * s) ≠ 0 := by
      intro h; apply hd
      have : s ^ 2 * (m.m0 * m.m3 - m.m1 * m.m2) = 0 := by linear_combination h
      rcases mul_eq_zero.mp this with h' | h'
      · exact absurd (pow_eq_zero_iff (n := 2) (by norm_num) |>.mp h') hs
      · exact h'
    congr 1 <;> (push_cast; field_simp)

example : (M2.scale (⟨1, 2, 3, 5⟩ : M2 ℚ) 4).inverse = (M2.inverse ⟨1, 2, 3, 5⟩).scale (1/4) := by
  decide +kernel

/-- `(s·M)⁻¹ = s⁻¹·M⁻¹` (3×3, as computed: adjugate of `s·M` is `s²·adj M`, `det` is `s³·det M`). -/
theorem mat3_smul_inverse (m : M3 K) (s : K) : (m.scale s).inverse = m.inverse.scale s⁻¹ := by
  have hdet := mat3_smul_det m s
  simp only [M3.inverse, M3.invertDet]
  rw [hdet]
  generalize m.det = d
  simp only [M3.scale, M3.adj]
  by_cases hs : s = 0
  · subst hs; simp
  by_cases hd : d = 0
  · subst hd; simp
  · congr 1 <;> (push_cast; field_simp)

/-- `MulColumnInv` with the scaled determinant: the solution of `(s·M)·x = c` is `s⁻¹` times the
solution of `M·x = c`. -/
theorem mat2_smul_mulColumnInv (m : M2 K) (c : V2 K) (s : K) :
    (m.scale s).mulColumnInv c (m.scale s).det = (m.mulColumnInv c m.det).scale s⁻¹ := by
  rw [mat2_smul_det]
  generalize m.det = d
  simp only [M2.mulColumnInv, M2.mulColumn, M2.scale, V2.scale]
  by_cases hs : s = 0
  · subst hs; simp
  by_cases hd : d = 0
  · subst hd; simp
  · congr 1 <;> (push_cast; field_simp)

/-- … and 3×3. -/
theorem mat3_smul_mulColumnInv (m : M3 K) (c : V3 K) (s : K) :
    (m.scale s).mulColumnInv c (m.scale s).det = (m.mulColumnInv c m.det).scale s⁻¹ := by
  rw [mat3_smul_det]
  generalize m.det = d
  simp only [M3.mulColumnInv, M3.mulColumn, M3.scale, M3.adj, V3.scale]
  by_cases hs : s = 0
  · subst hs; simp
  by_cases hd : d = 0
  · subst hd; simp
  · congr 1 <;> (push_cast; field_simp)

/-- An eigenpair scales: `M·v = λ·v ⇒ (s·M)·v = (s·λ)·v` (2×2). -/
theorem mat2_smul_eigenpair (m : M2 K) (v : V2 K) (lam s : K) (h : m.mulColumn v = v.scale lam) :
    (m.scale s).mulColumn v = v.scale (s * lam) := by
  simp only [M2.mulColumn, V2.scale, V2.mk.injEq] at h
  obtain ⟨h1, h2⟩ := h
  simp only [M2.mulColumn, M2.scale, V2.scale]
  congr 1
  · linear_combination s * h1
  · linear_combination s * h2

/-- `M·v = λ·v ⇒ (s·M)·v = (s·λ)·v` (3×3). -/
theorem mat3_smul_eigenpair (m : M3 K) (v : V3 K) (lam s : K) (h : m.mulColumn v = v.scale lam) :
    (m.scale s).mulColumn v = v.scale (s * lam) := by
  simp only [M3.mulColumn, V3.scale, V3.mk.injEq] at h
  obtain ⟨h1, h2, h3⟩ := h
  simp only [M3.mulColumn, M3.scale, V3.scale]
  congr 1
  · linear_combination s * h1
  · linear_combination s * h2
  · linear_combination s * h3

/-- The quadratic that `Matrix2.Eigenvalues` solves is the characteristic polynomial:
`x² + b·x + c = det(x·I − M)`. -/
theorem mat2_eigen_charpoly (m : M2 K) (x : K) :
    x ^ 2 + m.eigCoeffs.1 * x + m.eigCoeffs.2 = (M2.xIminus x m).det := by
  simp only [M2.eigCoeffs, M2.xIminus, M2.det]; ring

/-- Its coefficients scale like `s`, `s²`; hence `χ_{sM}(s·x) = s²·χ_M(x)`: the eigenvalues of
`s·M` are `s` times those of `M`. -/
theorem mat2_smul_charpoly (m : M2 K) (s x : K) :
    (m.scale s).eigCoeffs = (s * m.eigCoeffs.1, s ^ 2 * m.eigCoeffs.2) ∧
    (M2.xIminus (s * x) (m.scale s)).det = s ^ 2 * (M2.xIminus x m).det := by
  refine ⟨?_, ?_⟩
  · simp only [M2.eigCoeffs, M2.scale, M2.det, Prod.mk.injEq]; constructor <;> ring
  · simp only [M2.xIminus, M2.scale, M2.det]; ring

/-- The cubic that `Matrix3.Eigenvalues` solves (`a = −1`, `b = trace`, `c = ½(tr M² − tr² M)`,
`d = Det()`) is the characteristic polynomial: `−x³ + b·x² + c·x + d = det(M − x·I)`. -/
theorem mat3_eigen_charpoly (m : M3 K) (x : K) (h2 : (2 : K) ≠ 0) :
    -x ^ 3 + m.eigCoeffs.1 * x ^ 2 + m.eigCoeffs.2.1 * x + m.eigCoeffs.2.2 = (m.minusXI x).det := by
  simp only [M3.eigCoeffs, M3.trace, M3.sqTrace, M3.minusXI, M3.det]
  push_cast
  field_simp
  ring

/-- The coefficients scale like `s`, `s²`, `s³`; hence `χ_{sM}(s·x) = s³·χ_M(x)`: the three
eigenvalues of `s·M` are `s` times those of `M` (so an ABSOLUTE threshold on an intermediate of the
cubic formula cannot be right). -/
theorem mat3_smul_charpoly (m : M3 K) (s x : K) :
    (m.scale s).eigCoeffs = (s * m.eigCoeffs.1, s ^ 2 * m.eigCoeffs.2.1, s ^ 3 * m.eigCoeffs.2.2) ∧
    ((m.scale s).minusXI (s * x)).det = s ^ 3 * (m.minusXI x).det := by
  refine ⟨?_, ?_⟩
  · simp only [M3.eigCoeffs, M3.trace, M3.sqTrace, M3.scale, M3.det, Prod.mk.injEq]
    refine ⟨by ring, by ring, by ring⟩
  · simp only [M3.minusXI, M3.scale, M3.det]; ring

/-- `Matrix4.CharPoly` of `s·M`: coefficient `i` is `s^(4−i)` times that of `M`, and therefore
`χ_{sM}(s·x) = s⁴·χ_M(x)`. -/
theorem mat4_smul_charpoly (m : M4 K) (s x : K) :
    (m.scale s).charPoly = List.zipWith (fun (e : Nat) c => s ^ e * c) [4, 3, 2, 1, 0] m.charPoly ∧
    Poly.eval (m.scale s).charPoly (s * x) = s ^ 4 * Poly.eval m.charPoly x := by
  obtain ⟨a, b, c, d, e, f, g, h, i, j, k, l, m1, n, o, p⟩ := m
  refine ⟨?_, ?_⟩
  · simp only [M4.scale, M4.charPoly, List.zipWith_cons_cons, List.zipWith_nil_left, List.cons.injEq, and_true]
    refine ⟨by ring, by ring, by ring, by ring, by ring⟩
  · rw [Poly.eval_eq_spec, Poly.eval_eq_spec]
    simp only [M4.scale, M4.charPoly, Poly.evalSpec_cons, Poly.evalSpec_nil]
    push_cast
    ring

/-- The Gram matrix `MᵀM` (whose eigenvalues `SVD` takes the square roots of) scales by `s²`, so the
singular values scale by `|s|` (2×2, 3×3, 4×4). -/
theorem mat_smul_gram (m2 : M2 K) (m3 : M3 K) (m4 : M4 K) (s : K) :
    (m2.scale s).gram = m2.gram.scale (s ^ 2) ∧ (m3.scale s).gram = m3.gram.scale (s ^ 2) ∧
    (m4.scale s).gram = m4.gram.scale (s ^ 2) := by
  refine ⟨?_, ?_, ?_⟩
  · simp only [M2.gram, M2.scale, M2.transpose, M2.mul]; congr 1 <;> ring
  · simp only [M3.gram, M3.scale, M3.transpose, M3.mul]; congr 1 <;> ring
  · simp only [M4.gram, M4.scale, M4.transpose, M4.mul]; congr 1 <;> ring

/-- A reconstruction `M = U·Σ·Vᵀ` (as the harness multiplies it: `u.Mul(s).Mul(v.Transpose())`) of `M`
is, with `Σ` scaled and the SAME `U`, `V`, a reconstruction of `s·M` (2×2). -/
theorem mat2_svd_smul (u sg v m : M2 K) (s : K) (h : (u.mul sg).mul v.transpose = m) :
    (u.mul (sg.scale s)).mul v.transpose = m.scale s := by
  subst h
  simp only [M2.scale, M2.transpose, M2.mul]; congr 1 <;> ring

/-- … 3×3. -/
theorem mat3_svd_smul (u sg v m : M3 K) (s : K) (h : (u.mul sg).mul v.transpose = m) :
    (u.mul (sg.scale s)).mul v.transpose = m.scale s := by
  subst h
  simp only [M3.scale, M3.transpose, M3.mul]; congr 1 <;> ring

/-- … 4×4. -/
theorem mat4_svd_smul (u sg v m : M4 K) (s : K) (h : (u.mul sg).mul v.transpose = m) :
    (u.mul (sg.scale s)).mul v.transpose = m.scale s := by
  subst h
  simp only [M4.scale, M4.transpose, M4.mul]; congr 1 <;> ring

/-! ## `Matrix2.Eigenvalues`, `symEigDecomp`, `SVD` (`numerical/matrix2.go`, `model2d/matrix.go`)

The faithful models of `M3d/Model/Svd2.lean` (run bit for bit against the real code by the kinds `eig2`, `symeig2`,
`svd2`).  `sqrt` is any function with `sqrt(x)² = x` and `sqrt(x) ≥ 0` on `x ≥ 0` (`SqrtSpec`; the real square
root is one: `sqrt_spec_real`).  No conditioning hypothesis is needed over an exact field: the statements hold for
EVERY matrix, singular and repeated-singular-value cases included. -/

section Svd2
variable [LinearOrder K] [IsStrictOrderedRing K]

/-- `Matrix2.Eigenvalues`, non-negative discriminant: the two returned values are real, they are the roots of
the characteristic polynomial `det(x·I − M)`, ascending, with sum `trace` and product `Det()`. -/
theorem mat2_eigenvalues_real (sqrt : K → K) (hs : SqrtSpec sqrt) (m : M2 K) (hd : 0 ≤ m.eigDisc) :
    (M2.xIminus (m.eigenvalues sqrt).1 m).det = 0 ∧ (M2.xIminus (m.eigenvalues sqrt).2.1 m).det = 0 ∧
      (m.eigenvalues sqrt).1 + (m.eigenvalues sqrt).2.1 = m.m0 + m.m3 ∧
      (m.eigenvalues sqrt).1 * (m.eigenvalues sqrt).2.1 = m.det ∧
      (m.eigenvalues sqrt).1 ≤ (m.eigenvalues sqrt).2.1 ∧ (m.eigenvalues sqrt).2.2 = 0 :=
  M2.eigenvalues_real hs m hd

/-- Negative discriminant: the matrix has NO real eigenvalue, and the returned conjugate pair `re ± i·im`
has `re = trace/2`, `re² + im² = Det()`, `im > 0` — it is the pair of complex roots. -/
theorem mat2_eigenvalues_complex (sqrt : K → K) (hs : SqrtSpec sqrt) (m : M2 K) (hd : m.eigDisc < 0) :
    (∀ x : K, (M2.xIminus x m).det ≠ 0) ∧ (m.eigenvalues sqrt).1 = (m.m0 + m.m3) / 2 ∧
      (m.eigenvalues sqrt).2.1 = (m.m0 + m.m3) / 2 ∧
      (m.eigenvalues sqrt).1 * (m.eigenvalues sqrt).1 + (m.eigenvalues sqrt).2.2 * (m.eigenvalues sqrt).2.2 = m.det ∧
      0 < (m.eigenvalues sqrt).2.2 :=
  M2.eigenvalues_complex hs m hd

/-- A symmetric matrix (every `mᵀ·m` that `SVD` passes in) has a non-negative discriminant. -/
theorem mat2_sym_disc_nonneg (m : M2 K) (h : m.m1 = m.m2) : 0 ≤ m.eigDisc := M2.eigDisc_sym_nonneg m h

/-- **`Matrix2.symEigDecomp` reconstructs every symmetric matrix**: `V·S·Vᵀ = M`, `VᵀV = 1`, `S` diagonal, larger
eigenvalue first, `trace` and `Det()` preserved. -/
theorem mat2_symEigDecomp_reconstructs (sqrt : K → K) (hs : SqrtSpec sqrt) (m : M2 K) (hsym : m.m1 = m.m2) :
    ((m.symEigDecomp sqrt).2.mul (m.symEigDecomp sqrt).1).mul (m.symEigDecomp sqrt).2.transpose = m ∧
      (m.symEigDecomp sqrt).2.transpose.mul (m.symEigDecomp sqrt).2 = M2.one ∧
      (m.symEigDecomp sqrt).1.m1 = 0 ∧ (m.symEigDecomp sqrt).1.m2 = 0 ∧
      (m.symEigDecomp sqrt).1.m3 ≤ (m.symEigDecomp sqrt).1.m0 ∧
      (m.symEigDecomp sqrt).1.m0 + (m.symEigDecomp sqrt).1.m3 = m.m0 + m.m3 ∧
      (m.symEigDecomp sqrt).1.m0 * (m.symEigDecomp sqrt).1.m3 = m.det :=
  M2.symEigDecomp_correct hs m hsym

/-- **`Matrix2.SVD` reconstructs every matrix**: `U·Σ·Vᵀ = M` (multiplied as `u.Mul(s).Mul(v.Transpose())`),
`UᵀU = VᵀV = 1`, `Σ` diagonal with `σ₁ ≥ σ₂ ≥ 0`, `σ₁² + σ₂² = ‖M‖_F²`, `σ₁·σ₂ = |Det()|` — all branches of the
code (vanishing rows in `symEigs`, `M·v1 = 0`, the two sign flips) included. -/
theorem mat2_svd_reconstructs (sqrt : K → K) (hs : SqrtSpec sqrt) (m : M2 K) :
    ((m.svd sqrt).1.mul (m.svd sqrt).2.1).mul (m.svd sqrt).2.2.transpose = m ∧
      (m.svd sqrt).1.transpose.mul (m.svd sqrt).1 = M2.one ∧
      (m.svd sqrt).2.2.transpose.mul (m.svd sqrt).2.2 = M2.one ∧
      (m.svd sqrt).2.1.m1 = 0 ∧ (m.svd sqrt).2.1.m2 = 0 ∧
      0 ≤ (m.svd sqrt).2.1.m3 ∧ (m.svd sqrt).2.1.m3 ≤ (m.svd sqrt).2.1.m0 ∧
      (m.svd sqrt).2.1.m0 * (m.svd sqrt).2.1.m0 + (m.svd sqrt).2.1.m3 * (m.svd sqrt).2.1.m3 =
        m.m0 * m.m0 + m.m1 * m.m1 + m.m2 * m.m2 + m.m3 * m.m3 ∧
      (m.svd sqrt).2.1.m0 * (m.svd sqrt).2.1.m3 = |m.det| :=
  M2.svd_correct hs m

/-- The hypothesis on `sqrt` is satisfiable: the real square root. -/
theorem sqrt_spec_real : SqrtSpec (K := ℝ) Real.sqrt := M2.sqrtSpec_real

end Svd2

/-- A concrete run of the model (a `sqrt` table for the squares that occur): `diag(3, 2)` — the second flip fires. -/
example :
    M2.svd (fun x : ℚ => if x = 25 then 5 else if x = 9 then 3 else if x = 4 then 2 else if x = 1 then 1 else 0)
      ⟨3, 0, 0, 2⟩ = (⟨1, 0, 0, -1⟩, ⟨3, 0, 0, 2⟩, ⟨1, 0, 0, -1⟩) := by decide +kernel
example : M2.eigenvalues (fun x : ℚ => if x = 25 then 5 else 0) ⟨9, 0, 0, 4⟩ = (4, 9, 0) := by decide +kernel
example : M2.eigenvalues (fun x : ℚ => if x = 4 then 2 else 0) ⟨0, -1, 1, 0⟩ = (0, 0, 1) := by decide +kernel

/-! ## Vectors (`numerical/vecs.go`; tied to the regenerated `Vec2/3/4` kernels by `KernelsTieNumeric`) -/

/-- `Vec3.Cross` is orthogonal to both arguments and satisfies Lagrange's identity
`|a×b|² = |a|²|b|² − (a·b)²`. -/
theorem vec3_cross_orthogonal (a b : V3 K) :
    (a.cross b).dot a = 0 ∧ (a.cross b).dot b = 0 ∧
      (a.cross b).dot (a.cross b) = a.dot a * b.dot b - a.dot b * a.dot b := by
  simp only [V3.cross, V3.dot]; refine ⟨by ring, by ring, by ring⟩

/-- `DistSquared` is the squared norm of the difference (2, 3 and 4 components). -/
theorem vec_distSquared_eq (a2 b2 : V2 K) (a3 b3 : V3 K) (a4 b4 : V4 K) :
    a2.distSquared b2 = (a2.sub b2).dot (a2.sub b2) ∧ a3.distSquared b3 = (a3.sub b3).dot (a3.sub b3) ∧
      a4.distSquared b4 = (a4.sub b4).dot (a4.sub b4) := by
  simp only [V2.distSquared, V2.sub, V2.dot, V3.distSquared, V3.sub, V3.dot, V4.distSquared, V4.sub, V4.dot]
  push_cast
  refine ⟨by ring, by ring, by ring⟩

section VecSqrt
variable (sqrtF : K → K)

/-- `Normalize` returns a unit vector for every non-zero vector, for any `sqrt` whose square at the squared
length is that squared length (2, 3, 4 components). -/
theorem vec_normalize_unit (a2 : V2 K) (a3 : V3 K) (a4 : V4 K)
    (h2 : sqrtF (a2.dot a2) * sqrtF (a2.dot a2) = a2.dot a2) (n2 : a2.dot a2 ≠ 0)
    (h3 : sqrtF (a3.dot a3) * sqrtF (a3.dot a3) = a3.dot a3) (n3 : a3.dot a3 ≠ 0)
    (h4 : sqrtF (a4.dot a4) * sqrtF (a4.dot a4) = a4.dot a4) (n4 : a4.dot a4 ≠ 0) :
    (a2.normalize sqrtF).dot (a2.normalize sqrtF) = 1 ∧ (a3.normalize sqrtF).dot (a3.normalize sqrtF) = 1 ∧
      (a4.normalize sqrtF).dot (a4.normalize sqrtF) = 1 := by
  refine ⟨?_, ?_, ?_⟩
  · have hq : sqrtF (a2.dot a2) ≠ 0 := by intro h; rw [h] at h2; exact n2 (by linear_combination -h2)
    simp only [V2.normalize, V2.norm, V2.scale] at *
    generalize sqrtF (a2.dot a2) = q at *
    simp only [V2.dot] at *
    push_cast; field_simp; linear_combination -h2
  · have hq : sqrtF (a3.dot a3) ≠ 0 := by intro h; rw [h] at h3; exact n3 (by linear_combination -h3)
    simp only [V3.normalize, V3.norm, V3.scale] at *
    generalize sqrtF (a3.dot a3) = q at *
    simp only [V3.dot] at *
    push_cast; field_simp; linear_combination -h3
  · have hq : sqrtF (a4.dot a4) ≠ 0 := by intro h; rw [h] at h4; exact n4 (by linear_combination -h4)
    simp only [V4.normalize, V4.norm, V4.scale] at *
    generalize sqrtF (a4.dot a4) = q at *
    simp only [V4.dot] at *
    push_cast; field_simp; linear_combination -h4

/-- `ProjectOut(v1)` removes the component along `v1`: the result is orthogonal to `v1` (3 components;
the 2- and 4-component versions are the same code). -/
theorem vec3_projectOut_orthogonal (a b : V3 K)
    (hb : sqrtF (b.dot b) * sqrtF (b.dot b) = b.dot b) (nb : b.dot b ≠ 0) :
    (a.projectOut sqrtF b).dot b = 0 := by
  have hq : sqrtF (b.dot b) ≠ 0 := by intro h; rw [h] at hb; exact nb (by linear_combination -hb)
  simp only [V3.projectOut, V3.normalize, V3.norm, V3.scale, V3.add] at *
  generalize sqrtF (b.dot b) = q at *
  simp only [V3.dot] at *
  push_cast; field_simp; linear_combination (a.x * b.x + a.y * b.y + a.z * b.z) * hb

end VecSqrt

example : (V3.cross (⟨1, 2, 3⟩ : V3 ℚ) ⟨4, 5, 6⟩) = ⟨-3, 6, -3⟩ := by decide +kernel
example : (V2.normalize (fun _ => (5 : ℚ)) ⟨3, 4⟩) = ⟨3/5, 4/5⟩ := by decide +kernel

/-! ## Vectors of any length (`numerical.Vec`, `numerical/vecs.go`)

`VecN.normSquared scale distSquared norm dist normalize zeros` are tied to the definitions REGENERATED from the
source (loops over slices) by `Lemmas/KernelsTiePoly.lean`; `add sub dot projectOut` are compared by the `vec` kinds. -/

section VecN
variable [LinearOrder K] [IsStrictOrderedRing K]

/-- `Vec.NormSquared` (the loop `res += x*x`) is the sum of the squared components: non-negative, and zero only on
the zero vector. -/
theorem vecN_normSquared_sum (v : List K) :
    VecN.normSquared v = (v.map (fun x => x * x)).sum ∧ 0 ≤ VecN.normSquared v ∧
      (VecN.normSquared v = 0 ↔ ∀ x ∈ v, x = 0) :=
  ⟨VecN.normSquared_eq_sum v, VecN.normSquared_nonneg v, VecN.normSquared_eq_zero_iff v⟩

/-- `Vec.Scale` multiplies every component, so the squared norm scales by `s²`. -/
theorem vecN_scale_normSquared (v : List K) (s : K) :
    VecN.scale v s = v.map (· * s) ∧ VecN.normSquared (VecN.scale v s) = s * s * VecN.normSquared v :=
  ⟨rfl, VecN.normSquared_scale v s⟩

/-- `Vec.Normalize` returns a unit vector for every non-zero vector, for any `sqrt` whose square at the squared
norm is that squared norm. -/
theorem vecN_normalize_unit (sqrtF : K → K) (v : List K)
    (hs : sqrtF (VecN.normSquared v) * sqrtF (VecN.normSquared v) = VecN.normSquared v)
    (hn : VecN.normSquared v ≠ 0) : VecN.normSquared (VecN.normalize sqrtF v) = 1 :=
  VecN.normalize_unit sqrtF v hs hn

/-- `Vec.DistSquared` is the squared norm of the component-wise difference, and symmetric. -/
theorem vecN_distSquared_eq (v w : List K) :
    VecN.distSquared v w = VecN.normSquared (List.zipWith (· - ·) v w) ∧
      VecN.distSquared v w = VecN.distSquared w v :=
  ⟨VecN.distSquared_eq_normSquared v w, VecN.distSquared_comm v w⟩

/-- `Vec.ProjectOut(v1)` removes the component along `v1`: for vectors of equal length (otherwise Go panics) the
result has the same length and its dot product with `v1` is 0. -/
theorem vecN_projectOut_orthogonal (sqrtF : K → K) (v w : List K) (hl : v.length = w.length)
    (hs : sqrtF (VecN.normSquared w) * sqrtF (VecN.normSquared w) = VecN.normSquared w)
    (hn : VecN.normSquared w ≠ 0) :
    ∃ r, VecN.projectOut sqrtF v w = some r ∧ r.length = v.length ∧ VecN.dot r w = some 0 :=
  VecN.projectOut_orthogonal sqrtF v w hl hs hn

end VecN

example : VecN.normalize (fun _ => (5 : ℚ)) [3, 4] = [3/5, 4/5] := by decide +kernel
example : VecN.projectOut (fun _ => (5 : ℚ)) [1, 2] [3, 4] = some [-8/25, 6/25] := by decide +kernel
example : VecN.dot [(-8/25 : ℚ), 6/25] [3, 4] = some 0 := by decide +kernel
example : VecN.distSquared [(1 : ℚ), 2, 3] [3, 2, 1] = 8 := by decide +kernel

/-! ## Polynomials (`numerical/polynomial.go`) -/

/-- `Polynomial.Eval` (the running-power loop) computes the value of the polynomial. -/
theorem poly_eval_spec (p : List K) (x : K) : Poly.eval p x = Poly.evalSpec x p :=
  Poly.eval_eq_spec p x

/-- `Polynomial.Add` (including the trimming of cancelled leading terms) adds values. -/
theorem poly_eval_add [DecidableEq K] (p q : List K) (x : K) :
    Poly.eval (Poly.add p q) x = Poly.eval p x + Poly.eval q x := by
  simp only [Poly.eval_eq_spec, Poly.add, Poly.evalSpec_trimZeros, Poly.evalSpec_addRaw]

/-- `Polynomial.Mul` multiplies values. -/
theorem poly_eval_mul (p q : List K) (x : K) :
    Poly.eval (Poly.mul p q) x = Poly.eval p x * Poly.eval q x := by
  simp only [Poly.eval_eq_spec, Poly.evalSpec_mul]

/-- `Polynomial.Mul` AS WRITTEN — the double loop `res[i+j] += x*y` over a zeroed slice of length
`len p + len p1 − 1`, additions in the order of the loops (`Poly.mulLoop`, the model the bit-mode kind `poly.f mul`
runs at `Float`) — computes the sum of shifted rows `Poly.mul` (the model of `poly_eval_mul`), and so multiplies values. -/
theorem poly_mul_loop_eq (p q : List K) : Poly.mulLoop p q = Poly.mul p q := Poly.mulLoop_eq_mul p q

example : Poly.mulLoop [(1 : ℚ), 2, 3] [4, 5] = [4, 13, 22, 15] := by decide +kernel

/-- `Polynomial.Scale` scales values. -/
theorem poly_eval_scale (p : List K) (c x : K) :
    Poly.eval (Poly.scale p c) x = Poly.eval p x * c := by
  simp only [Poly.eval_eq_spec, Poly.scale, Poly.evalSpec_map_mul_right]

/-- `Polynomial.Derivative` is the formal derivative: it vanishes on constants and satisfies the
product rule for `p(x) = c + x·q(x)`, namely `p' = q + x·q'` (which determines it). -/
theorem poly_eval_derivative (c : K) (q : List K) (x : K) :
    Poly.derivative ([] : List K) = [] ∧ Poly.derivative [c] = [] ∧
    Poly.eval (Poly.derivative (c :: q)) x = Poly.eval q x + x * Poly.eval (Poly.derivative q) x := by
  refine ⟨rfl, rfl, ?_⟩
  simp only [Poly.eval_eq_spec]
  cases q with
  | nil => simp [Poly.derivative, Poly.derivAux]
  | cons c' cs =>
    simp only [Poly.derivative, Poly.derivAux, Poly.evalSpec_cons, Poly.evalSpec_derivAux_succ]
    push_cast; ring

/-- `divideRoot`: for a polynomial with at least three coefficients the result `q` satisfies
`p(y) = (y − r)·q(y) + p(r)` for every `y` — so it is the exact quotient when `r` is a root. -/
theorem divide_root (p : List K) (r y : K) (h : 3 ≤ p.length) :
    ∃ q, Poly.divideRoot p r = some q ∧
      Poly.eval p y = (y - r) * Poly.eval q y + Poly.eval p r := by
  match p, h with
  | a :: b :: c :: rest, _ =>
    refine ⟨(Poly.divAux r (a :: b :: c :: rest)).1, rfl, ?_⟩
    obtain ⟨h1, h2⟩ := Poly.divAux_spec r y (a :: b :: c :: rest) (by simp)
    simp only [Poly.eval_eq_spec]
    rw [← h2]; exact h1

/-- For a *linear* polynomial `divideRoot` returns the constant `1` ("assume that the root is
correct"): that is the exact quotient by `(x − r)` precisely for monic input with root `r`. -/
theorem divide_root_linear (a b r y : K) (hb : b = 1) (hr : a + r * b = 0) :
    Poly.divideRoot [a, b] r = some [1] ∧
      Poly.eval [a, b] y = (y - r) * Poly.eval ([1] : List K) y := by
  refine ⟨by simp [Poly.divideRoot], ?_⟩
  simp only [Poly.eval_eq_spec, Poly.evalSpec_cons, Poly.evalSpec_nil]
  subst hb
  linear_combination hr

example : Poly.divideRoot [(6 : ℚ), -5, 1] 2 = some [-3, 1] := by decide +kernel


/-! ## Closed-form root branches of `IterRealRoots` (degree ≤ 2) -/

section Ordered
variable [LinearOrder K] [IsStrictOrderedRing K]

/-- Zero leading coefficients are dropped first and do not change the answer. -/
theorem roots_leading_zero (sqrt : K → K) (p : List K) :
    Poly.realRootsLow sqrt (p ++ [0]) = Poly.realRootsLow sqrt p := by
  simp only [Poly.realRootsLow, strip_append_zero]

/-- The zero polynomial is reported as "every x is a root" (one NaN in Go); a non-zero constant
has no roots. -/
theorem roots_constant (sqrt : K → K) (c : K) (hc : c ≠ 0) :
    Poly.realRootsLow sqrt ([] : List K) = .all ∧ Poly.realRootsLow sqrt [c] = .some [] := by
  have := strip_of_last_ne [] c hc
  simp only [List.nil_append] at this
  exact ⟨rfl, by simp only [Poly.realRootsLow, this]⟩

/-- Degree 1: exactly the root `−b/a`. -/
theorem linear_root_exact (sqrt : K → K) (a b : K) (ha : a ≠ 0) :
    Poly.realRootsLow sqrt [b, a] = .some [-b / a] ∧ ∀ y, b + a * y = 0 ↔ y = -b / a := by
  constructor
  · have := strip_of_last_ne [b] a ha
    simp only [List.cons_append, List.nil_append] at this
    simp only [Poly.realRootsLow, this]
  · intro y
    constructor
    · intro h; field_simp; linarith
    · intro h; rw [h]; field_simp; ring

/-- Degree 2, negative discriminant: no root is reported and there is none. -/
theorem quadratic_no_roots (sqrt : K → K) (a b c : K) (ha : a ≠ 0) (hd : b * b - 4 * a * c < 0) :
    Poly.realRootsLow sqrt [c, b, a] = .some [] ∧ ∀ y, a * y * y + b * y + c ≠ 0 := by
  constructor
  · have := strip_of_last_ne [c, b] a ha
    simp only [List.cons_append, List.nil_append] at this
    simp only [Poly.realRootsLow, this]
    push_cast
    rw [if_pos hd]
  · intro y h
    have : (2 * a * y + b) ^ 2 = b * b - 4 * a * c := by linear_combination 4 * a * h
    have := sq_nonneg (2 * a * y + b)
    linarith

/-- Degree 2, non-negative discriminant (and `math.Sqrt` returning a square root of it): two
values are reported, in ascending order, and they are exactly the real roots. -/
theorem quadratic_roots_exact (sqrt : K → K) (a b c : K) (ha : a ≠ 0) (hd : 0 ≤ b * b - 4 * a * c)
    (hs : sqrt (b * b - 4 * a * c) * sqrt (b * b - 4 * a * c) = b * b - 4 * a * c) :
    ∃ r1 r2, Poly.realRootsLow sqrt [c, b, a] = .some [r1, r2] ∧ r1 ≤ r2 ∧
      ∀ y, a * y * y + b * y + c = 0 ↔ (y = r1 ∨ y = r2) := by
  have hst := strip_of_last_ne [c, b] a ha
  simp only [List.cons_append, List.nil_append] at hst
  set s := sqrt (b * b - 4 * a * c) with hsdef
  have h2a : (2 : K) * a ≠ 0 := mul_ne_zero two_ne_zero ha
  have key : ∀ y, a * y * y + b * y + c = 0 ↔ (y = (-b - s) / (2 * a) ∨ y = (-b + s) / (2 * a)) := by
    intro y
    have fac : 4 * a * (a * y * y + b * y + c) = (2 * a * y + b - s) * (2 * a * y + b + s) := by
      linear_combination hs
    constructor
    · intro h
      rw [h, mul_zero] at fac
      rcases mul_eq_zero.mp fac.symm with h' | h'
      · right; field_simp; linarith
      · left; field_simp; linarith
    · intro h
      have h4 : (4 : K) * a ≠ 0 := mul_ne_zero four_ne_zero ha
      have : (2 * a * y + b - s) * (2 * a * y + b + s) = 0 := by
        rcases h with h | h
        · have : 2 * a * y + b + s = 0 := by rw [h]; field_simp; ring
          rw [this, mul_zero]
        · have : 2 * a * y + b - s = 0 := by rw [h]; field_simp; ring
          rw [this, zero_mul]
      rw [← fac] at this
      exact (mul_eq_zero.mp this).resolve_left h4
  by_cases hsw : (-b - s) / (2 * a) > (-b + s) / (2 * a)
  · refine ⟨(-b + s) / (2 * a), (-b - s) / (2 * a), ?_, hsw.le, fun y => (key y).trans or_comm⟩
    simp only [Poly.realRootsLow, hst]
    push_cast
    rw [if_neg (not_lt.mpr hd), if_pos hsw]
  · refine ⟨(-b - s) / (2 * a), (-b + s) / (2 * a), ?_, not_lt.mp hsw, key⟩
    simp only [Poly.realRootsLow, hst]
    push_cast
    rw [if_neg (not_lt.mpr hd), if_neg hsw]

example : Poly.realRootsLow (fun _ => (1 : ℚ)) [6, -5, 1] = .some [2, 3] := by decide +kernel

/-- **The bracketing window of `IterRealRoots` (degree ≥ 4) contains every real root**: with leading
coefficient `a ≠ 0`, every root `r` satisfies `|r| < 1 + maxᵢ |aᵢ/a|` — the `absBound` the code
computes ("Cauchy's bound"), whatever the sign of `a`.  (The search between `±absBound` and between
the derivative's roots is libm/iterative code and is validated, not proved: kinds `realroots.q`,
`resid.v roots`.) -/
theorem cauchy_bound_contains_roots (cs : List K) (a r : K) (ha : a ≠ 0)
    (hroot : Poly.evalSpec r (cs ++ [a]) = 0) : |r| < Poly.cauchyBound (cs ++ [a]) := by
  by_contra hnot
  have hge : Poly.cauchyBound (cs ++ [a]) ≤ |r| := not_lt.mp hnot
  simp only [Poly.cauchyBound, List.getLastD_concat, List.dropLast_concat] at hge
  push_cast at hge
  set M := cs.foldl (fun acc x => Poly.maxP acc (Poly.absP (x / a))) (0 : K) with hMdef
  obtain ⟨hM0, hMc⟩ := foldl_max_ge (fun x => Poly.absP (x / a)) cs (0 : K)
  have hapos : 0 < |a| := abs_pos.mpr ha
  have hc : ∀ c ∈ cs, |c| ≤ M * |a| := by
    intro c hcm
    have := hMc c hcm
    rw [absP_eq, abs_div] at this
    rwa [div_le_iff₀ hapos] at this
  have := eval_ge_lead cs a r M hM0 hc (by linarith)
  rw [hroot, abs_zero] at this
  linarith

example : Poly.cauchyBound [(1 : ℚ), 0, 0, 0, -1] = 2 := by decide +kernel


/-! ## Angle helpers (`toolbox3d/angles.go`), period `τ > 0` abstract -/

/-- `CanonicalAngle(θ)` is congruent to `θ` modulo the period and lies in `[0, τ)`. -/
theorem canonical_angle_congruent (trunc : K → Int) (ht : IsTrunc trunc) (τ θ : K) (hτ : 0 < τ) :
    ∃ k : Int, Angle.canonicalAngle trunc τ θ = θ + (k : K) * τ ∧
      0 ≤ Angle.canonicalAngle trunc τ θ ∧ Angle.canonicalAngle trunc τ θ < τ := by
  obtain ⟨n, hn, hpos, hneg⟩ := fmod_spec trunc ht τ θ hτ
  simp only [Angle.canonicalAngle]
  push_cast
  rcases le_total 0 θ with h | h
  · obtain ⟨h1, h2⟩ := hpos h
    rw [if_neg (not_lt.mpr h1)]
    exact ⟨-n, by rw [hn]; push_cast; ring, h1, h2⟩
  · obtain ⟨h1, h2⟩ := hneg h
    split
    · rename_i hlt
      refine ⟨-n + 1, by rw [hn]; push_cast; ring, by linarith, by linarith⟩
    · rename_i hge
      have h0 : Angle.fmod trunc θ τ = 0 := le_antisymm h2 (not_lt.mp hge)
      exact ⟨-n, by rw [hn]; push_cast; ring, by rw [h0], by rw [h0]; exact hτ⟩

/-- `AngleDist(θ₁, θ₂)` is the circular distance: it is `|θ₁ − θ₂ + kτ|` for some integer `k`, and
no integer shift gives a smaller value. -/
theorem angle_dist_circular (trunc : K → Int) (ht : IsTrunc trunc) (τ θ1 θ2 : K) (hτ : 0 < τ) :
    (∃ k : Int, Angle.angleDist trunc τ θ1 θ2 = |θ1 - θ2 + (k : K) * τ|) ∧
      ∀ m : Int, Angle.angleDist trunc τ θ1 θ2 ≤ |θ1 - θ2 + (m : K) * τ| := by
  obtain ⟨k1, e1, a0, a1⟩ := canonical_angle_congruent trunc ht τ θ1 hτ
  obtain ⟨k2, e2, b0, b1⟩ := canonical_angle_congruent trunc ht τ θ2 hτ
  simp only [Angle.angleDist, abs'_eq, min'_eq]
  set a := Angle.canonicalAngle trunc τ θ1
  set b := Angle.canonicalAngle trunc τ θ2
  have hx1 : -τ < a - b := by linarith
  have hx2 : a - b < τ := by linarith
  have ex : a - b = θ1 - θ2 + ((k1 - k2 : Int) : K) * τ := by rw [e1, e2]; push_cast; ring
  constructor
  · rcases le_total |a - b| (τ - |a - b|) with h | h
    · exact ⟨k1 - k2, by rw [min_eq_left h, ex]⟩
    · rw [min_eq_right h]
      rcases le_total 0 (a - b) with hs | hs
      · refine ⟨k1 - k2 - 1, ?_⟩
        rw [abs_of_nonneg hs]
        have : θ1 - θ2 + ((k1 - k2 - 1 : Int) : K) * τ = (a - b) - τ := by rw [ex]; push_cast; ring
        rw [this, abs_of_neg (by linarith)]; ring
      · refine ⟨k1 - k2 + 1, ?_⟩
        rw [abs_of_nonpos hs]
        have : θ1 - θ2 + ((k1 - k2 + 1 : Int) : K) * τ = (a - b) + τ := by rw [ex]; push_cast; ring
        rw [this, abs_of_pos (by linarith)]; ring
  · intro m
    have := circ_min τ (a - b) hτ hx1 hx2 (m - (k1 - k2))
    have e : a - b + ((m - (k1 - k2) : Int) : K) * τ = θ1 - θ2 + (m : K) * τ := by
      rw [ex]; push_cast; ring
    rw [e] at this
    exact this

/-- The truncation the exact-mode driver actually runs (`ratTrunc`, on ℚ) is a truncation toward
zero — so the two theorems above apply to the very function the correspondence executes. -/
theorem rat_trunc_is_trunc : IsTrunc ratTrunc := by
  intro q
  constructor
  · intro h
    have hn : 0 ≤ q.num := Rat.num_nonneg.mpr h
    have e : ratTrunc q = ⌊q⌋ := by
      rw [ratTrunc, Rat.floor_def', Int.tdiv_eq_ediv_of_nonneg hn]
    rw [e]
    exact ⟨Int.floor_le q, Int.lt_floor_add_one q⟩
  · intro h
    have hn : q.num ≤ 0 := Rat.num_nonpos.mpr h
    have e : ratTrunc q = ⌈q⌉ := by
      have h1 : (-q).num.tdiv (-q).den = ⌊-q⌋ := by
        rw [Rat.floor_def', Int.tdiv_eq_ediv_of_nonneg (by simp [hn])]
      rw [Int.floor_neg] at h1
      simp only [Rat.num_neg_eq_neg_num, Rat.neg_den, Int.neg_tdiv] at h1
      rw [ratTrunc]
      omega
    rw [e]
    exact ⟨Int.le_ceil q, by have := Int.ceil_lt_add_one q; linarith⟩

/-- Non-vacuity of `IsTrunc`, and the replay of F14: with period 7, the repaired code maps `−1/2`
to `13/2`, whereas the code as found returned `1/2`. -/
example :
    Angle.canonicalAngle ratTrunc (7 : ℚ) (-1/2) = 13/2 ∧
      Angle.canonicalAngleOld ratTrunc (7 : ℚ) (-1/2) = 1/2 := by
  decide +kernel

end Ordered

/-! ## Search optimisers (`numerical/dense_search.go`, `numerical/gss.go`) -/

section SearchThms
variable {V P B : Type} [LinearOrder V]

/-- **Every recursive sample-and-zoom search** (whatever the lattice generator and the box update
are): the returned point was evaluated, its returned value is the objective's value there, and no
sample evaluated at *any* recursion level has a larger value. -/
theorem search_best_of_samples (gen : B → List P) (shrink : B → P → B) (f : P → V) (r : Nat) (b : B) :
    (trace gen shrink f r b = [] ∧ search gen shrink f r b = none) ∨
      ∃ s, search gen shrink f r b = some (s, f s) ∧ s ∈ trace gen shrink f r b ∧
        ∀ p ∈ trace gen shrink f r b, f p ≤ f s :=
  search_spec gen shrink f r b

end SearchThms

section SearchConcrete
variable [LinearOrder K] [IsStrictOrderedRing K]

/-- `LineSearch.Maximize`: at least as good as every sample of every level. -/
theorem line_search_best_of_samples (stops recs : Nat) (f : K → K) (mn mx : K) (x v : K)
    (h : lineMax stops recs f mn mx = some (x, v)) :
    v = f x ∧ x ∈ lineTrace stops recs f mn mx ∧ ∀ p ∈ lineTrace stops recs f mn mx, f p ≤ v := by
  rcases search_spec (gen1 stops) (shrink1 stops) f recs (mn, mx) with ⟨_, h0⟩ | ⟨s, e, hs, hm⟩
  · simp only [lineMax] at h; rw [h0] at h; cases h
  · simp only [lineMax] at h; rw [e] at h; cases h
    exact ⟨rfl, hs, hm⟩

/-- `LineSearch.Minimize` (= maximise `−f`, negate the value): at most every sample. -/
theorem line_search_min_best_of_samples (stops recs : Nat) (f : K → K) (mn mx : K) (x v : K)
    (h : lineMax stops recs (fun y => -f y) mn mx = some (x, v)) :
    -v = f x ∧ ∀ p ∈ lineTrace stops recs (fun y => -f y) mn mx, -v ≤ f p := by
  obtain ⟨h1, _, h3⟩ := line_search_best_of_samples stops recs (fun y => -f y) mn mx x v h
  refine ⟨by rw [h1]; ring, fun p hp => ?_⟩
  have := h3 p hp
  linarith

/-- `GridSearch2D.Maximize`. -/
theorem grid2_best_of_samples (xs ys recs : Nat) (f : P2 K → K) (mn mx p : P2 K) (v : K)
    (h : grid2Max xs ys recs f mn mx = some (p, v)) :
    v = f p ∧ p ∈ grid2Trace xs ys recs f mn mx ∧ ∀ q ∈ grid2Trace xs ys recs f mn mx, f q ≤ v := by
  rcases search_spec (gen2 xs ys) (shrink2 xs ys) f recs (mn, mx) with ⟨_, h0⟩ | ⟨s, e, hs, hm⟩
  · simp only [grid2Max] at h; rw [h0] at h; cases h
  · simp only [grid2Max] at h; rw [e] at h; cases h
    exact ⟨rfl, hs, hm⟩

/-- `GridSearch3D.Maximize`. -/
theorem grid3_best_of_samples (xs ys zs recs : Nat) (f : P3 K → K) (mn mx p : P3 K) (v : K)
    (h : grid3Max xs ys zs recs f mn mx = some (p, v)) :
    v = f p ∧ p ∈ grid3Trace xs ys zs recs f mn mx ∧
      ∀ q ∈ grid3Trace xs ys zs recs f mn mx, f q ≤ v := by
  rcases search_spec (gen3 xs ys zs) (shrink3 xs ys zs) f recs (mn, mx) with ⟨_, h0⟩ | ⟨s, e, hs, hm⟩
  · simp only [grid3Max] at h; rw [h0] at h; cases h
  · simp only [grid3Max] at h; rw [e] at h; cases h
    exact ⟨rfl, hs, hm⟩

/-- **`RecursiveLineSearch.Maximize`** (`k` dimensions still to search, `Stops ≥ 1`): the returned
value is the objective's value at the returned point, that point was evaluated, and no point of
the N-dimensional objective evaluated at any depth has a larger value. -/
theorem rls_best_of_samples (stops recs : Nat) (hs : 0 < stops) (f : List K → K) (mn mx : List K)
    (k : Nat) (pre : List K) (d : Nat) :
    ∃ y, (rlsMax stops recs f mn mx k pre d).2 = some y ∧
      y = f (rlsMax stops recs f mn mx k pre d).1 ∧
      (rlsMax stops recs f mn mx k pre d).1 ∈ rlsLeaves stops recs f mn mx k pre d ∧
      ∀ p ∈ rlsLeaves stops recs f mn mx k pre d, f p ≤ y :=
  rls_spec stops recs hs f mn mx k pre d

/-- `GSS` (a minimiser): the returned point was evaluated and no evaluated point has a smaller
value — for every objective (unimodal or not), every `phi`, every iteration count. -/
theorem gss_best_of_samples (f : K → K) (phi mn mx : K) (iters : Nat) :
    (gss f phi mn mx iters).1 ∈ (gss f phi mn mx iters).2 ∧
      ∀ p ∈ (gss f phi mn mx iters).2, f (gss f phi mn mx iters).1 ≤ f p :=
  gss_spec f phi mn mx iters

/-- Replay of F15 on the model of the code as found: two stops on `[0,8]`, one recursion, an
objective with bumps of height 2 around 2 and 3 around 6: the old recursion returned `(7/2, 0)`
although it had evaluated `f 6 = 3`; the repaired one returns `(6, 3)`. -/
example :
    let f : ℚ → ℚ := fun x =>
      if x < 3/2 then 0 else if x < 5/2 then 2 else if x < 11/2 then 0 else if x < 13/2 then 3 else 0
    lineMaxOld 2 1 f 0 8 = some (7/2, 0) ∧ lineMax 2 1 f 0 8 = some (6, 3) ∧
      lineTrace 2 1 f 0 8 = [2, 6, 7/2, 13/2] := by
  decide +kernel

end SearchConcrete

/-! ## Bezier curves (`model2d/curves.go`) -/

/-- Executable check of the regenerated table: shape and every entry. -/
def tableCheck (tbl : List (List Nat)) : Bool :=
  (List.range tbl.length).all fun r =>
    (tbl.getD r []).length == r + 2 &&
      (List.range (r + 2)).all fun i => (tbl.getD r []).getD i 0 == (r + 1).choose i

/-- **The `binomialCoeffs` table in the source is Pascal's triangle**: row `r` has `r+2` entries
and entry `i` is `C(r+1, i)`.  Decided by the kernel on the table regenerated from `/repo`. -/
theorem binomial_table_eq_choose :
    ∀ r, r < M3d.Gen.binomialTable.length →
      (M3d.Gen.binomialTable.getD r []).length = r + 2 ∧
        ∀ i, i ≤ r + 1 → (M3d.Gen.binomialTable.getD r []).getD i 0 = (r + 1).choose i := by
  have h : tableCheck M3d.Gen.binomialTable = true := by decide +kernel
  intro r hr
  simp only [tableCheck, List.all_eq_true, List.mem_range, Bool.and_eq_true, beq_iff_eq] at h
  obtain ⟨h1, h2⟩ := h r hr
  exact ⟨h1, fun i hi => h2 i (by omega)⟩

theorem table_ok : TableOK M3d.Gen.binomialTable :=
  fun r hr i hi => (binomial_table_eq_choose r hr).2 i hi

/-- `BezierCurve.Eval` with any correct table and enough fuel is de Casteljau's algorithm. -/
theorem bezEvalFuel_eq (tbl : List (List Nat)) (htbl : TableOK tbl) (t : K) :
    ∀ (fuel : Nat) (b : List K), 2 ≤ b.length → b.length ≤ fuel + tbl.length + 1 →
      bezEvalFuel tbl fuel b t = deCasteljau b t := by
  intro fuel
  induction fuel with
  | zero =>
    intro b h2 hf
    rcases b with _ | ⟨b0, _ | ⟨b1, _ | ⟨b2, _ | ⟨b3, _ | ⟨b4, rest⟩⟩⟩⟩⟩
    · simp at h2
    · simp at h2
    · simp only [bezEvalFuel, deCasteljau, iter, dcStep, List.length_cons, List.length_nil, List.headD]
    · simp only [bezEvalFuel, deCasteljau, iter, dcStep, List.length_cons, List.length_nil, List.headD]
      push_cast; ring
    · simp only [bezEvalFuel, deCasteljau, iter, dcStep, List.length_cons, List.length_nil, List.headD]
      push_cast; ring
    · simp only [bezEvalFuel]
      split
      · rename_i hlt
        push_cast
        rw [fast_eq_bern tbl htbl _ t h2 hlt, ← D_eq_bern, deCasteljau_eq_D _ _ (by simp)]
      · rename_i hge
        exfalso; simp only [List.length_cons] at hge hf; omega
  | succ fuel ih =>
    intro b h2 hf
    rcases b with _ | ⟨b0, _ | ⟨b1, _ | ⟨b2, _ | ⟨b3, _ | ⟨b4, rest⟩⟩⟩⟩⟩
    · simp at h2
    · simp at h2
    · simp only [bezEvalFuel, deCasteljau, iter, dcStep, List.length_cons, List.length_nil, List.headD]
    · simp only [bezEvalFuel, deCasteljau, iter, dcStep, List.length_cons, List.length_nil, List.headD]
      push_cast; ring
    · simp only [bezEvalFuel, deCasteljau, iter, dcStep, List.length_cons, List.length_nil, List.headD]
      push_cast; ring
    · simp only [bezEvalFuel]
      split
      · rename_i hlt
        push_cast
        rw [fast_eq_bern tbl htbl _ t h2 hlt, ← D_eq_bern, deCasteljau_eq_D _ _ (by simp)]
      · rename_i hge
        have hl : (b0 :: b1 :: b2 :: b3 :: b4 :: rest).length = rest.length + 5 := by simp
        rw [ih _ (by rw [List.length_dropLast]; omega) (by rw [List.length_dropLast]; omega),
          ih _ (by rw [List.length_tail]; omega) (by rw [List.length_tail]; omega)]
        push_cast
        exact (deCasteljau_rec _ t h2).symm

/-- **`BezierCurve.Eval` equals repeated linear interpolation for every degree**: the closed forms
for 2, 3, 4 control points, the table branch (`recursiveBezierFast` with the regenerated
`binomialCoeffs`) and the recursive fallback all compute de Casteljau's point, on each coordinate. -/
theorem bezier_eval_eq_decasteljau (b : List K) (t : K) (h : 2 ≤ b.length) :
    bezEval M3d.Gen.binomialTable b t = deCasteljau b t :=
  bezEvalFuel_eq _ table_ok t b.length b h (by omega)

/-- The recursive fallback *is* the de Casteljau recurrence (definitionally the textbook one). -/
theorem bezier_decasteljau_rec (b : List K) (t : K) (h : 2 ≤ b.length) :
    deCasteljau b t = deCasteljau b.dropLast t * (1 - t) + deCasteljau b.tail t * t :=
  deCasteljau_rec b t h

/-- Bernstein form: de Casteljau's point is `Σ C(n,i) (1−t)^(n−i) t^i bᵢ`. -/
theorem bezier_decasteljau_bernstein (b : List K) (t : K) (h : b ≠ []) :
    deCasteljau b t = bern t (b.length - 1) (seqOf b) := by
  rw [deCasteljau_eq_D b t h, D_eq_bern]

example : bezEval M3d.Gen.binomialTable [(0 : ℚ), 4, 4, 0, 8, 8] (1/2) = 27/8 := by decide +kernel


/-- **`BezierCurve.Split(t)`**: evaluating the first returned curve at `u` gives the original curve at
`t·u`, evaluating the second gives it at `t + (1−t)·u` — for every degree (each coordinate). -/
theorem bezier_split_eval (b : List K) (t u : K) (h : b ≠ []) :
    deCasteljau (split b t).1 u = deCasteljau b (t * u) ∧
      deCasteljau (split b t).2 u = deCasteljau b (t + (1 - t) * u) :=
  split_eval b t u h

/-- `Split` keeps the number of control points, the first half starts at `b₀` and the second ends
at the last control point. -/
theorem bezier_split_shape (b : List K) (t : K) :
    (split b t).1.length = b.length - 1 + 1 ∧ (split b t).2.length = b.length - 1 + 1 :=
  split_lengths b t

theorem bezPolyFuel_eq [DecidableEq K] (t : K) :
    ∀ (fuel : Nat) (b : List K), b ≠ [] → b.length ≤ fuel + 1 →
      Poly.eval (bezPolyFuel fuel b) t = deCasteljau b t := by
  intro fuel
  induction fuel with
  | zero =>
    intro b hb hl
    rcases b with _ | ⟨b0, _ | ⟨b1, rest⟩⟩
    · exact absurd rfl hb
    · simp [bezPolyFuel, deCasteljau, iter, Poly.eval_eq_spec]
    · simp at hl
  | succ fuel ih =>
    intro b hb hl
    rcases b with _ | ⟨b0, _ | ⟨b1, rest⟩⟩
    · exact absurd rfl hb
    · simp [bezPolyFuel, deCasteljau, iter, Poly.eval_eq_spec]
    · have h2 : 2 ≤ (b0 :: b1 :: rest).length := by simp
      simp only [bezPolyFuel]
      rw [poly_eval_add, poly_eval_mul, poly_eval_mul,
        ih _ (by simp) (by rw [List.length_dropLast]; simp at hl ⊢; omega),
        ih _ (by simp) (by rw [List.length_tail]; simp at hl ⊢; omega),
        deCasteljau_rec _ t h2]
      simp only [Poly.eval_eq_spec, Poly.evalSpec_cons, Poly.evalSpec_nil]
      push_cast; ring

/-- **Using a curve does not change it**: in any sequence of `Eval` / `Split` calls on one `BezierCurve` value of at
least two control points (the calls share the slice, `bezRun` threads the control points through them), EVERY call
— not only the first — answers for the original control points (`Eval` with de Casteljau's point), and the control
points are the original ones afterwards.  This is what makes `InverseX` (65 evaluations of one curve),
`JoinedCurve.Eval`, `Split`/`Length` after an `Eval` consistent with single evaluations. -/
theorem bezier_ops_sequence (b : List K) (h : 2 ≤ b.length) (ops : List (BezOp K)) :
    bezRun M3d.Gen.binomialTable b ops = (ops.map (bezOpSpec b), b) := by
  induction ops with
  | nil => rfl
  | cons op ops ih =>
    cases op with
    | eval t =>
      simp only [bezRun, bezStep, ih, List.map_cons, bezOpSpec, bezier_eval_eq_decasteljau b t h]
    | split t =>
      simp only [bezRun, bezStep, ih, List.map_cons, bezOpSpec]

/-- A concrete run: the second evaluation of the same 5-point curve is again the value on the original points. -/
example : (bezRun M3d.Gen.binomialTable [(0 : ℚ), 4, 4, 0, 8] [.eval (1/2), .eval (1/2)]).2 = [0, 4, 4, 0, 8] := by
  decide +kernel

/-- **`BezierCurve.Polynomials()`** converts each coordinate into a polynomial whose value at `t`
is the curve's coordinate at `t`. -/
theorem bezier_polynomials_eval [DecidableEq K] (b : List K) (t : K) (h : b ≠ []) :
    Poly.eval (bezPoly b) t = deCasteljau b t :=
  bezPolyFuel_eq t b.length b h (by omega)

/-! ## Polyline and joined curves -/

section CurvesOrdered
variable [LinearOrder K] [IsStrictOrderedRing K]

/-- **`SegmentCurve.Eval(t)` is the point a fraction `t` of the way along the polyline**: the
program (cumulative start offsets computed by `NewSegmentCurve`, `sort.SearchFloat64s`, the
index fix-up, interpolation inside the chosen segment) equals the arclength walk `segSpec`, for
every polyline whose segments have positive length and every `t` (also outside `[0,1]`, where the
first/last segment is extrapolated).  `sqrt` is `math.Sqrt`. -/
theorem segment_curve_eval (sqrt : K → K) (segs : List (Seg K)) (hne : segs ≠ [])
    (hpos : ∀ s ∈ segs, 0 < segLen sqrt s) (t : K) :
    segEval sqrt segs t = segSpec sqrt segs t := by
  have e : segEval sqrt segs t = evalFrom sqrt ((0 : Nat) : K) segs
      (t * (cumulative ((0 : Nat) : K) (segs.map (segLen sqrt))).2) := rfl
  rw [e, evalFrom_eq_walk sqrt segs hne hpos, segSpec]
  congr 1
  push_cast; ring

/-- Replay of F7 (L-shaped polyline, `t = 1/4`): the code as found returned `(4, −2)`; the repaired
code and the specification give `(2, 0)`. -/
example :
    let sq : ℚ → ℚ := fun x => if x = 16 then 4 else 0
    let L : List (Seg ℚ) := [⟨0, 0, 4, 0⟩, ⟨4, 0, 4, 4⟩]
    segEvalOld sq L (1/4) = (4, -2) ∧ segEval sq L (1/4) = (2, 0) ∧ segSpec sq L (1/4) = (2, 0) := by
  decide +kernel

/-- **`SegmentCurve.Eval` on a polyline with repeated vertices.**  `segs` is ANY connected polyline (each
segment starts where the previous one ends), with any number of zero-length segments anywhere — at the start, in
the middle (also several in a row), at the end, or nothing else —, and `t ≥ 0`: the program (start offsets with
repeated entries, `sort.SearchFloat64s` returning the FIRST of equal offsets, the index fix-up, the zero-length
guard before the division) returns the arclength walk `segSpec`, in which a zero-length segment takes up no part
of the curve.  `sqrt` is `math.Sqrt` (`SqrtSpec`: `sqrt(x)² = x`, `sqrt(x) ≥ 0` on `x ≥ 0`).  For `t < 0` the
first segment is extrapolated backwards, which has no meaning when it is a point; that case is left out. -/
theorem segment_curve_eval_repeated (sqrt : K → K) (hs : SqrtSpec sqrt) (segs : List (Seg K)) (hne : segs ≠ [])
    (hc : Connected segs) (t : K) (ht : 0 ≤ t) :
    segEval sqrt segs t = segSpec sqrt segs t := by
  have hs' : SqrtOK sqrt := fun x hx => ⟨(hs x hx).2, (hs x hx).1⟩
  have e : segEval sqrt segs t = evalFrom sqrt ((0 : Nat) : K) segs
      (t * (cumulative ((0 : Nat) : K) (segs.map (segLen sqrt))).2) := rfl
  have htot : 0 ≤ (cumulative ((0 : Nat) : K) (segs.map (segLen sqrt))).2 := by
    rw [cumulative_total]
    push_cast
    rw [zero_add]
    apply List.sum_nonneg
    intro x hx
    obtain ⟨s, _, rfl⟩ := List.mem_map.mp hx
    exact segLen_nonneg sqrt hs' s
  rw [e, evalFrom_eq_walk_connected sqrt hs' segs hne hc _ _ (by simpa using mul_nonneg ht htot), segSpec]
  congr 1
  push_cast; ring

/-- **Repeated vertices do not change the curve**: for `0 ≤ t < 1` on a connected polyline of positive total
length, `SegmentCurve.Eval(t)` is the specification evaluated on the polyline with the zero-length segments
removed (`properSegs`) — which by `segment_curve_eval` is also what `Eval(t)` returns on that polyline. -/
theorem segment_curve_eval_dedup (sqrt : K → K) (hs : SqrtSpec sqrt) (segs : List (Seg K))
    (hc : Connected segs) (t : K) (h0 : 0 ≤ t) (h1 : t < 1)
    (hlen : 0 < (segs.map (segLen sqrt)).sum) :
    segEval sqrt segs t = segSpec sqrt (properSegs sqrt segs) t ∧
      segEval sqrt segs t = segEval sqrt (properSegs sqrt segs) t := by
  have hs' : SqrtOK sqrt := fun x hx => ⟨(hs x hx).2, (hs x hx).1⟩
  have hne : segs ≠ [] := by rintro rfl; simp at hlen
  have hpne : properSegs sqrt segs ≠ [] := by
    intro hnil
    rw [sum_eq_zero_of_properSegs_nil sqrt hs' segs hnil] at hlen
    exact lt_irrefl _ hlen
  have key : segEval sqrt segs t = segSpec sqrt (properSegs sqrt segs) t := by
    rw [segment_curve_eval_repeated sqrt hs segs hne hc t h0]
    simp only [segSpec, cumulative_total, sum_properSegs sqrt hs' segs]
    push_cast
    rw [zero_add]
    exact walk_properSegs sqrt hs' segs _ (mul_nonneg h0 hlen.le) (by nlinarith)
  exact ⟨key, by rw [key, segment_curve_eval sqrt _ hpne (properSegs_pos sqrt segs) t]⟩

/-- Replay of the repeated-vertex defect: polyline `(0,0)-(1,0)-(1,0)-(1,2)`, `t = 1/3` (arclength 1, the
repeated vertex): the code as found divided `0/0` (`none` = `{NaN NaN}`); the repaired code and the specification
give the vertex `(1,0)`; at `t = 2/3` all agree on `(1,1)`. -/
example :
    let sq : ℚ → ℚ := fun x => if x = 1 then 1 else if x = 4 then 2 else 0
    let L : List (Seg ℚ) := [⟨0, 0, 1, 0⟩, ⟨1, 0, 1, 0⟩, ⟨1, 0, 1, 2⟩]
    segEvalNaN sq L (1/3) = none ∧ segEval sq L (1/3) = (1, 0) ∧ segSpec sq L (1/3) = (1, 0) ∧
      segEvalNaN sq L (2/3) = some (1, 1) ∧ segEval sq L (2/3) = (1, 1) ∧ segSpec sq L (2/3) = (1, 1) := by
  decide +kernel

/-- … and that polyline satisfies the hypothesis `Connected`. -/
example : Connected ([⟨0, 0, 1, 0⟩, ⟨1, 0, 1, 0⟩, ⟨1, 0, 1, 2⟩] : List (Seg ℚ)) := ⟨rfl, rfl, rfl, rfl, trivial⟩

/-- **`JoinedCurve.Eval(t)`** for `0 ≤ t ≤ 1` and `n ≥ 1` sub-curves: sub-curve `i` is evaluated at
`u = t·n − i` with `0 ≤ u ≤ 1` (each sub-curve consumes an equal share of `t`; `u = 1` only on the
last one).  `trunc` is Go's `int(·)`. -/
theorem joined_curve_eval (trunc : K → Int) (ht : IsTrunc trunc) (n : Nat) (hn : 0 < n) (t : K)
    (h0 : 0 ≤ t) (h1 : t ≤ 1) :
    ∃ i u, joinedIndex trunc n t = some (i, u) ∧ i < n ∧ u = t * (n : K) - (i : K) ∧
      0 ≤ u ∧ u ≤ 1 ∧ (u < 1 ∨ i = n - 1) := by
  have hnK : (0 : K) < (n : K) := by exact_mod_cast hn
  have hx0 : 0 ≤ t * (n : K) := mul_nonneg h0 hnK.le
  have hx1 : t * (n : K) ≤ (n : K) := by nlinarith
  obtain ⟨hlo, hhi⟩ := (ht (t * (n : K))).1 hx0
  set i0 := trunc (t * (n : K)) with hi0
  have hi0nn : 0 ≤ i0 := by
    have : (-1 : K) < (i0 : K) := by linarith
    have : (-1 : Int) < i0 := by exact_mod_cast this
    omega
  have hi0le : i0 ≤ (n : Int) := by
    have : (i0 : K) ≤ ((n : Int) : K) := by push_cast; linarith
    exact_mod_cast this
  simp only [joinedIndex]
  rw [← hi0]
  by_cases heq : i0 = (n : Int)
  · refine ⟨n - 1, t * (n : K) - ((n - 1 : Nat) : K), ?_, by omega, rfl, ?_, ?_, Or.inr rfl⟩
    · simp only [heq, if_true]
      have hc : ¬ ((n : Int) - 1 < 0 ∨ (n : Int) ≤ (n : Int) - 1) := by omega
      rw [if_neg hc]
      have e1 : ((n : Int) - 1).toNat = n - 1 := by omega
      have e2 : (((n : Int) - 1 : Int) : K) = ((n - 1 : Nat) : K) := by
        have : ((n : Int) - 1 : Int) = ((n - 1 : Nat) : Int) := by omega
        rw [this]; push_cast; rfl
      rw [e1, e2]
    · have : (i0 : K) = (n : K) := by rw [heq]; push_cast; rfl
      have e : ((n - 1 : Nat) : K) = (n : K) - 1 := by
        rw [Nat.cast_sub (by omega)]; simp
      rw [e]; linarith
    · have e : ((n - 1 : Nat) : K) = (n : K) - 1 := by
        rw [Nat.cast_sub (by omega)]; simp
      rw [e]; linarith
  · have hlt : i0 < (n : Int) := lt_of_le_of_ne hi0le heq
    refine ⟨i0.toNat, t * (n : K) - (i0 : K), ?_, by omega, ?_, by linarith, by linarith, Or.inl (by linarith)⟩
    · have hc : ¬ (i0 < 0 ∨ (n : Int) ≤ i0) := by omega
      simp only [if_neg heq, if_neg (not_lt.mpr hi0nn), if_neg hc]
    · have : ((i0.toNat : Nat) : K) = (i0 : K) := by
        have : ((i0.toNat : Nat) : Int) = i0 := Int.toNat_of_nonneg hi0nn
        exact_mod_cast congrArg (fun z : Int => (z : K)) this
      rw [this]

/-- **`bisectionSearch(x, f)`** (behind `CurveInverseX/CurveEvalX`), when neither end hits `x`
exactly: it answers NaN iff both ends are on the same side of `x`; otherwise it returns the midpoint
of a bracket `f lo ≤ x < f hi` of width exactly `2⁻⁶³` inside `[0,1]` (so for a curve monotone in
`x` the returned parameter is within `2⁻⁶⁴` of the solution). -/
theorem bisection_search_bracket (f : K → K) (x : K) (h0 : f 0 ≠ x) (h1 : f 1 ≠ x) :
    ((f 0 ≤ x ↔ f 1 ≤ x) → bisectionSearch f x = none) ∧
    (f 0 ≤ x → ¬ f 1 ≤ x → ∃ lo hi, bisectionSearch f x = some ((lo + hi) / 2) ∧
        f lo ≤ x ∧ ¬ f hi ≤ x ∧ hi - lo = 1 / 2 ^ 63 ∧ 0 ≤ lo ∧ hi ≤ 1) ∧
    (¬ f 0 ≤ x → f 1 ≤ x → ∃ lo hi, bisectionSearch f x = some ((lo + hi) / 2) ∧
        f lo ≤ x ∧ ¬ f hi ≤ x ∧ lo - hi = 1 / 2 ^ 63 ∧ 0 ≤ hi ∧ lo ≤ 1) := by
  refine ⟨?_, ?_, ?_⟩
  · intro hiff
    simp only [bisectionSearch]
    push_cast
    simp only [beq_iff_eq, h0, h1, if_false]
    by_cases a : f 0 ≤ x
    · have b := hiff.mp a
      simp [a, b]
    · have b : ¬ f 1 ≤ x := fun b => a (hiff.mpr b)
      simp [a, b]
  · intro a b
    obtain ⟨i1, i2, i3, i4, _⟩ := bisectLoop_inv f x 63 0 1 a b
    refine ⟨_, _, ?_, i1, i2, by rw [i3]; ring, (i4 zero_le_one).1, (i4 zero_le_one).2⟩
    simp only [bisectionSearch]
    push_cast
    simp [h0, h1, a, b]
  · intro a b
    obtain ⟨i1, i2, i3, _, i5⟩ := bisectLoop_inv f x 63 1 0 b a
    refine ⟨_, _, ?_, i1, i2, by linarith [i3], (i5 zero_le_one).1, (i5 zero_le_one).2⟩
    simp only [bisectionSearch]
    push_cast
    simp [h0, h1, a, b]

/-- **`CurveEvalX(c, x)` / `BezierCurve.EvalX`** (`fx`, `fy` the coordinate functions of the curve): when an end
point has abscissa `x` the answer is its ordinate; otherwise NaN iff both ends are on one side of `x`, and else the
ordinate `fy t` at the midpoint `t` of a bracket `fx lo ≤ x < fx hi` of width `2⁻⁶³` inside `[0,1]` — the inverse
lookup is consistent with evaluation. -/
theorem curve_evalx_bracket (fx fy : K → K) (x : K) :
    (fx 0 = x → curveEvalX fx fy x = some (fy 0)) ∧
    (fx 0 ≠ x → fx 1 = x → curveEvalX fx fy x = some (fy 1)) ∧
    (fx 0 ≠ x → fx 1 ≠ x → (fx 0 ≤ x ↔ fx 1 ≤ x) → curveEvalX fx fy x = none) ∧
    (fx 0 ≠ x → fx 1 ≠ x → ¬ (fx 0 ≤ x ↔ fx 1 ≤ x) → ∃ lo hi, curveEvalX fx fy x = some (fy ((lo + hi) / 2)) ∧
        fx lo ≤ x ∧ ¬ fx hi ≤ x ∧ |hi - lo| = 1 / 2 ^ 63 ∧ 0 ≤ lo ∧ lo ≤ 1 ∧ 0 ≤ hi ∧ hi ≤ 1) := by
  refine ⟨?_, ?_, ?_, ?_⟩
  · intro h
    simp [curveEvalX, bisectionSearch, h]
  · intro h0 h1
    simp [curveEvalX, bisectionSearch, h0, h1]
  · intro h0 h1 hiff
    rw [curveEvalX, (bisection_search_bracket fx x h0 h1).1 hiff]
  · intro h0 h1 hn
    by_cases a : fx 0 ≤ x
    · have b : ¬ fx 1 ≤ x := fun b => hn ⟨fun _ => b, fun _ => a⟩
      obtain ⟨lo, hi, e, c1, c2, c3, c4, c5⟩ := (bisection_search_bracket fx x h0 h1).2.1 a b
      have hpos : (0 : K) < 1 / 2 ^ 63 := by positivity
      refine ⟨lo, hi, by rw [curveEvalX, e], c1, c2, by rw [c3, abs_of_pos hpos], c4, by linarith, by linarith, c5⟩
    · have b : fx 1 ≤ x := by
        by_contra b
        exact hn ⟨fun h => absurd h a, fun h => absurd h b⟩
      obtain ⟨lo, hi, e, c1, c2, c3, c4, c5⟩ := (bisection_search_bracket fx x h0 h1).2.2 a b
      have hpos : (0 : K) < 1 / 2 ^ 63 := by positivity
      refine ⟨lo, hi, by rw [curveEvalX, e], c1, c2, ?_, by linarith, c5, c4, by linarith⟩
      rw [abs_sub_comm, c3, abs_of_pos hpos]

/-- **`CurveMesh(c, n)`** is the polyline through the `n+1` samples `c.Eval(k/n)`, `k = 0 … n`: `n` segments, segment
`i` runs from the sample at `i/n` to the sample at `(i+1)/n` (so consecutive segments share their end points, the
first starts at `Eval(0)` and, for `n > 0`, the last ends at `Eval(1)`). -/
theorem curve_mesh_samples {β : Type} (f : K → β) (n : Nat) :
    (curveMesh f n).length = n ∧
    (∀ i, i < n → (curveMesh f n)[i]? = some (f ((i : K) / (n : K)), f (((i + 1 : Nat) : K) / (n : K)))) ∧
    (0 < n → ((curveMesh f n)[n - 1]?).map Prod.snd = some (f 1)) := by
  have hs : ∀ k, meshSample f n k = f ((k : K) / (n : K)) := by
    intro k
    cases k with
    | zero => simp [meshSample]
    | succ k => rfl
  have h2 : ∀ i, i < n → (curveMesh f n)[i]? = some (f ((i : K) / (n : K)), f (((i + 1 : Nat) : K) / (n : K))) := by
    intro i hi
    simp only [curveMesh, List.getElem?_map, List.getElem?_range hi, Option.map_some, hs]
  refine ⟨by simp [curveMesh], h2, ?_⟩
  intro hn
  rw [h2 (n - 1) (by omega)]
  have e : n - 1 + 1 = n := by omega
  have hne : (n : K) ≠ 0 := by exact_mod_cast (by omega : n ≠ 0)
  simp only [Option.map_some, e, div_self hne]

end CurvesOrdered

/-! ## The iterative solver (`numerical/cg.go`: `BiCGSTAB`, `BiCGSTABSolver`)

Model `M3d/Model/BiCG.lean` (vectors = lists, `Op` a function parameter; run bit for bit against the real code by the
kinds `bicg.f` / `bicgsolve.f` with a dense matrix as `Op`).  Convergence is floating-point / Krylov theory and is NOT
proved; what is proved is that the solver cannot return a wrong answer silently: the residual it tracks is the true one,
its early exits are exact, and the tolerance test of `SolveLinearSystem` is on the true residual of what it returns. -/

section BiCG
open M3d.BiCG
variable [LinearOrder K] [IsStrictOrderedRing K]

/-- **`BiCGSTAB.Iter` tracks the true residual**: for a linear `Op` on vectors of length `n`, any right-hand side and
any initial guess, after any number `k` of `Iter()` calls the solution `x` has length `n` and — until the solver stops —
the stored `r` equals `b − Op(x)` (whatever values the scalars `alpha`, `beta`, `w` took, zero denominators included). -/
theorem bicgstab_residual_invariant (sqrt : K → K) (n : Nat) (op : List K → List K) (hop : LinOp n op) (b : List K)
    (hb : b.length = n) (guess : Option (List K)) (hg : ∀ g, guess = some g → g.length = n) (k : Nat) :
    (iterN sqrt op k (init op b guess)).x.length = n ∧
      ((iterN sqrt op k (init op b guess)).term = false →
        (iterN sqrt op k (init op b guess)).r = vsub b (op (iterN sqrt op k (init op b guess)).x)) := by
  have h := iterN_inv hop hb sqrt k _ (init_inv hop b hb guess hg)
  exact ⟨h.hx, h.res⟩

/-- **The early exits of `Iter` are exact solutions**: when the `k+1`-st call sets `terminate` (because `r.Norm() == 0` or
`t.Norm() == 0`), the solution it returns satisfies `Op(x) = b` exactly — for an injective `Op` and `math.Sqrt` with
`sqrt(x)² = x` (`SqrtSpec`). -/
theorem bicgstab_exit_exact (sqrt : K → K) (hs : SqrtSpec sqrt) (n : Nat) (op : List K → List K) (hop : LinOp n op)
    (hinj : ∀ u, u.length = n → (∀ y ∈ op u, y = 0) → ∀ y ∈ u, y = 0)
    (b : List K) (hb : b.length = n) (guess : Option (List K)) (hg : ∀ g, guess = some g → g.length = n) (k : Nat)
    (h0 : (iterN sqrt op k (init op b guess)).term = false)
    (h1 : (iter sqrt op (iterN sqrt op k (init op b guess))).term = true) :
    op (iter sqrt op (iterN sqrt op k (init op b guess))).x = b := by
  refine iter_term_exact hop hb sqrt ?_ hinj _ (iterN_inv hop hb sqrt k _ (init_inv hop b hb guess hg)) h0 h1
  intro x hx h
  have := (hs x hx).1
  rw [h] at this
  simpa using this.symm

/-- **`BiCGSTABSolver.SolveLinearSystem` returns `x` with `A·x = b` to the stated tolerance, or has used all its
iterations**: the returned vector is the iterate after the reported number `k ≤ MaxIters` of `Iter()` calls; when the
loop was left through the tolerance test then `Σ (A·x − b)ᵢ² < MSETolerance·n` or `Σ |A·x − b|ᵢ < MAETolerance·n` for
the TRUE residual of the returned `x`; otherwise `k = MaxIters`. -/
theorem bicgstab_solver_tolerance (sqrt : K → K) (isNaN : K → Bool) (op : List K → List K) (b : List K) (hb : b ≠ [])
    (guess : Option (List K)) (bound : Nat) (mse mae : K) (sol : List K) (k : Nat) (byTol : Bool)
    (h : solve sqrt (fun x => |x|) isNaN op b guess bound mse mae = .done sol k byTol) :
    k ≤ bound ∧ sol = (iterN sqrt op k (init op b guess)).x ∧
      (byTol = true → ((vsub (op sol) b).map fun e => e * e).sum < mse * (b.length : K) ∨
        ((vsub (op sol) b).map fun e => |e|).sum < mae * (b.length : K)) ∧
      (byTol = false → k = bound) := by
  have hne : b.isEmpty = false := by cases b with | nil => exact absurd rfl hb | cons _ _ => rfl
  simp only [solve, hne] at h
  have hp := solveLoop_spec sqrt (fun x => |x|) isNaN op b mse mae bound 0 (init op b guess)
  simp only [Bool.false_eq_true, if_false] at h
  rw [h] at hp
  obtain ⟨j, e1, e2, e3, e4, e5⟩ := hp
  have ej : j = k := by omega
  subst ej
  refine ⟨e2, e3, fun ht => ?_, e5⟩
  have := e4 ht
  simp only [errSums, errSums_eq, Nat.cast_zero, zero_add] at this
  exact this

/-- The operator the correspondence passes — a dense `n × n` matrix applied row by row — satisfies the hypothesis
`LinOp` of the theorems above. -/
theorem bicgstab_dense_op_linear (n : Nat) (rows : List (List K)) (hn : rows.length = n)
    (hrow : ∀ r ∈ rows, r.length = n) : LinOp n (denseOp rows) :=
  denseOp_linOp n rows hn hrow

end BiCG

/-- A concrete run at ℚ (2×2 system `[[2,0],[0,4]]·x = (2,4)`, zero initial guess, `sqrt` only tested against 0): after one
iteration `x = (8/9, 17/18)` and the tracked residual `(2/9, 2/9)` is `b − A·x`; the second iteration finds `s = 0`,
leaves through the `t.Norm() == 0` exit and returns the exact solution `(1,1)`. -/
example :
    let sq : ℚ → ℚ := fun x => if x = 0 then 0 else 1
    let op := M3d.BiCG.denseOp [[(2 : ℚ), 0], [0, 4]]
    let s1 := M3d.BiCG.iterN sq op 1 (M3d.BiCG.init op [2, 4] none)
    let s2 := M3d.BiCG.iterN sq op 2 (M3d.BiCG.init op [2, 4] none)
    s1.x = [8/9, 17/18] ∧ s1.r = [2/9, 2/9] ∧ M3d.BiCG.vsub [2, 4] (op s1.x) = [2/9, 2/9] ∧ s1.term = false ∧
      s2.x = [1, 1] ∧ s2.term = true ∧ op s2.x = [2, 4] := by
  decide +kernel

/-! ## Round 6: `LeastSquaresReg3` / `LeastSquares3` (`numerical/least_squares.go`) and the cubic branch of
`IterRealRoots` on cubics with `b² = 3ac`

Model `M3d/Model/Lsq.lean`: the assembly loop of the normal equations, the three diagonal updates by `lambda`, the
eigenvalue floor and the final product are modelled as written; `symEigDecomp` (cubic formula through `cmplx.Pow`) is a
function parameter `eig`, constrained only by its documented contract `m = v·s·vᵀ` with `v` orthogonal, `s` diagonal. -/

section Lsq
open M3d.Num.Lsq
variable [LinearOrder K] [IsStrictOrderedRing K]

/-- **What `LeastSquaresReg3` hands to the eigen-decomposition**: after the loop over the rows and the three updates
`leftSide[0] += lambda; leftSide[4] += lambda; leftSide[8] += lambda`, `leftSide = AᵀA + λ·I` entry by entry (row-major,
the penalty on the DIAGONAL `0, 4, 8` and nowhere else), and `rightSide = Aᵀb`.  In particular `leftSide` is symmetric -
the precondition of `symEigDecomp`. -/
theorem lsq_normal_matrix (rows : List (V3 K × K)) (lam : K) :
    normal rows lam = (addDiag (gram rows) lam, rhs rows) ∧
    (normal rows lam).1.m0 = sumBy (fun r => r.1.x * r.1.x) rows + lam ∧
    (normal rows lam).1.m4 = sumBy (fun r => r.1.y * r.1.y) rows + lam ∧
    (normal rows lam).1.m8 = sumBy (fun r => r.1.z * r.1.z) rows + lam ∧
    (normal rows lam).1.m1 = sumBy (fun r => r.1.y * r.1.x) rows ∧
    (normal rows lam).1.m3 = (normal rows lam).1.m1 ∧ (normal rows lam).1.m6 = (normal rows lam).1.m2 ∧
    (normal rows lam).1.m7 = (normal rows lam).1.m5 := by
  rw [normal_eq]
  refine ⟨rfl, rfl, rfl, rfl, rfl, ?_, ?_, ?_⟩ <;>
    (simp only [addDiag, gram, sumBy]
     exact congrArg List.sum (List.map_congr_left fun r _ => by ring))

/-- **`LeastSquaresReg3` returns a solution of the regularised normal equations** `(AᵀA + λ·I)·x = Aᵀb` whenever the
eigen-decomposition it calls keeps its contract on the normal matrix (`vᵀv = 1`, `v·s·vᵀ = leftSide`, `s` diagonal) and every
eigenvalue is above the floor `epsilon ≥ 0`.  Any number of rows (under- and over-determined), any `lambda`. -/
theorem lsq_reg3_normal_equations (eig : M3 K → M3 K × M3 K) (rows : List (V3 K × K)) (lam eps : K)
    (horth : (eig (normal rows lam).1).2.transpose.mul (eig (normal rows lam).1).2 = M3.one)
    (hrec : ((eig (normal rows lam).1).2.mul (eig (normal rows lam).1).1).mul (eig (normal rows lam).1).2.transpose
      = (normal rows lam).1)
    (hd : IsDiag (eig (normal rows lam).1).1) (h0 : 0 ≤ eps)
    (h : eps < (eig (normal rows lam).1).1.m0 ∧ eps < (eig (normal rows lam).1).1.m4 ∧
      eps < (eig (normal rows lam).1).1.m8) :
    (addDiag (gram rows) lam).mulColumn (lsqReg3 eig rows lam eps) = rhs rows := by
  have := solveWith_solves _ _ _ (normal rows lam).2 eps horth hrec hd h0 h
  simp only [lsqReg3]
  rw [normal_eq] at this ⊢
  exact this

/-- **Ridge regression never needs a conditioning hypothesis**: for a penalty above the floor, `0 ≤ epsilon < lambda`,
every eigenvalue of `AᵀA + λ·I` that an orthogonal decomposition reports is `≥ lambda > epsilon`, so the floor never cuts
and the returned vector satisfies `(AᵀA + λ·I)·x = Aᵀb` for EVERY system - rank-deficient, under-determined and empty ones
included (`model3d.DualContouring` with `L2Penalty > 0` relies on this for flat and edge-like cells). -/
theorem lsq_reg3_ridge (eig : M3 K → M3 K × M3 K) (rows : List (V3 K × K)) (lam eps : K)
    (horth : (eig (normal rows lam).1).2.transpose.mul (eig (normal rows lam).1).2 = M3.one)
    (hrec : ((eig (normal rows lam).1).2.mul (eig (normal rows lam).1).1).mul (eig (normal rows lam).1).2.transpose
      = (normal rows lam).1)
    (hd : IsDiag (eig (normal rows lam).1).1) (h0 : 0 ≤ eps) (hl : eps < lam) :
    (addDiag (gram rows) lam).mulColumn (lsqReg3 eig rows lam eps) = rhs rows := by
  have hn := normal_eq rows lam
  have hge := eig_ge_lambda rows lam (eig (normal rows lam).1).1 (eig (normal rows lam).1).2 horth
    (by rw [hrec, hn])
  exact lsq_reg3_normal_equations eig rows lam eps horth hrec hd h0
    ⟨lt_of_lt_of_le hl hge.1, lt_of_lt_of_le hl hge.2.1, lt_of_lt_of_le hl hge.2.2⟩

/-- **Eigenvalues at or below the floor (truncated pseudo-inverse)**, any `lambda`, any `epsilon ≥ 0`, any system: in the
eigenbasis the `eig` contract provides (`vᵀ` has the eigenvectors as rows), along every eigenvector whose eigenvalue is ABOVE
the floor the returned `x` satisfies the normal equations (`(vᵀ·N·x)ᵢ = (vᵀ·Aᵀb)ᵢ`), and along every eigenvector whose eigenvalue
is cut `x` has no component (`(vᵀ·x)ᵢ = 0`) - the minimum-norm least-squares solution on the kept subspace, which is what the
`epsilon` argument is documented to do ("a lower bound for singular values in the pseudoinverse"). -/
theorem lsq_reg3_truncated (eig : M3 K → M3 K × M3 K) (rows : List (V3 K × K)) (lam eps : K)
    (horth : (eig (normal rows lam).1).2.transpose.mul (eig (normal rows lam).1).2 = M3.one)
    (hrec : ((eig (normal rows lam).1).2.mul (eig (normal rows lam).1).1).mul (eig (normal rows lam).1).2.transpose
      = (normal rows lam).1)
    (hd : IsDiag (eig (normal rows lam).1).1) (h0 : 0 ≤ eps) :
    let n := normal rows lam
    let s := (eig n.1).1
    let vt := (eig n.1).2.transpose
    let x := lsqReg3 eig rows lam eps
    ((eps < s.m0 → (vt.mulColumn (n.1.mulColumn x)).x = (vt.mulColumn n.2).x) ∧ (¬ eps < s.m0 → (vt.mulColumn x).x = 0)) ∧
    ((eps < s.m4 → (vt.mulColumn (n.1.mulColumn x)).y = (vt.mulColumn n.2).y) ∧ (¬ eps < s.m4 → (vt.mulColumn x).y = 0)) ∧
    ((eps < s.m8 → (vt.mulColumn (n.1.mulColumn x)).z = (vt.mulColumn n.2).z) ∧ (¬ eps < s.m8 → (vt.mulColumn x).z = 0)) := by
  intro n s vt x
  obtain ⟨c1, c2⟩ := solveWith_coords s (eig n.1).2 n.1 n.2 eps horth hrec hd
  have hx : x = solveWith s (eig n.1).2 eps n.2 := rfl
  rw [← hx] at c1 c2
  have k1 := congrArg V3.x c1; have k2 := congrArg V3.x c2
  have k3 := congrArg V3.y c1; have k4 := congrArg V3.y c2
  have k5 := congrArg V3.z c1; have k6 := congrArg V3.z c2
  simp only at k1 k2 k3 k4 k5 k6
  refine ⟨⟨fun h => ?_, fun h => ?_⟩, ⟨fun h => ?_, fun h => ?_⟩, ⟨fun h => ?_, fun h => ?_⟩⟩
  · rw [k2, pinvEntry_mul eps _ h0 h, one_mul]
  · rw [k1, pinvEntry_cut eps _ h, zero_mul]
  · rw [k4, pinvEntry_mul eps _ h0 h, one_mul]
  · rw [k3, pinvEntry_cut eps _ h, zero_mul]
  · rw [k6, pinvEntry_mul eps _ h0 h, one_mul]
  · rw [k5, pinvEntry_cut eps _ h, zero_mul]

/-- `LeastSquares3` is the `lambda = 0` instance: it solves `AᵀA·x = Aᵀb` when every eigenvalue of `AᵀA` is above the
floor (the "well-conditioned" hypothesis of the property). -/
theorem lsq3_normal_equations (eig : M3 K → M3 K × M3 K) (rows : List (V3 K × K)) (eps : K)
    (horth : (eig (normal rows ((0 : Nat) : K)).1).2.transpose.mul (eig (normal rows ((0 : Nat) : K)).1).2 = M3.one)
    (hrec : ((eig (normal rows ((0 : Nat) : K)).1).2.mul (eig (normal rows ((0 : Nat) : K)).1).1).mul
      (eig (normal rows ((0 : Nat) : K)).1).2.transpose = (normal rows ((0 : Nat) : K)).1)
    (hd : IsDiag (eig (normal rows ((0 : Nat) : K)).1).1) (h0 : 0 ≤ eps)
    (h : eps < (eig (normal rows ((0 : Nat) : K)).1).1.m0 ∧ eps < (eig (normal rows ((0 : Nat) : K)).1).1.m4 ∧
      eps < (eig (normal rows ((0 : Nat) : K)).1).1.m8) :
    (gram rows).mulColumn (lsq3 eig rows eps) = rhs rows := by
  have := lsq_reg3_normal_equations eig rows ((0 : Nat) : K) eps horth hrec hd h0 h
  have e : addDiag (gram rows) ((0 : Nat) : K) = gram rows := by
    simp only [addDiag]; push_cast; simp
  rw [e] at this
  exact this

/-- **The penalty is the ridge penalty**: the normal equations of `(A, b, λ)` are those of the plain least-squares problem
with the three extra rows `√λ·e₁, √λ·e₂, √λ·e₃` and right-hand sides 0, i.e. of `min ‖A·x − b‖² + λ‖x‖²`. -/
theorem lsq_reg3_is_ridge (rows : List (V3 K × K)) (lam sq : K) (h : sq * sq = lam) :
    normal (rows ++ ridgeRows sq) ((0 : Nat) : K) = normal rows lam :=
  normal_ridgeRows rows lam sq h

/-- Non-vacuity (the seeded example C17-14): `A = I`, `b = (1,2,3)`, `λ = 1`: the normal matrix is `2·I` (the penalty sits
on the diagonal), whose eigen-decomposition is `(2·I, I)`; the answer is `b/(1+λ) = (1/2, 1, 3/2)`, and an under-determined
one-row system with `λ = 1`. -/
example :
    let eig : M3 ℚ → M3 ℚ × M3 ℚ := fun m => (m, M3.one)
    let rows : List (V3 ℚ × ℚ) := [(⟨1, 0, 0⟩, 1), (⟨0, 1, 0⟩, 2), (⟨0, 0, 1⟩, 3)]
    (normal rows 1).1 = ⟨2, 0, 0, 0, 2, 0, 0, 0, 2⟩ ∧ lsqReg3 eig rows 1 0 = ⟨1/2, 1, 3/2⟩ ∧
    (normal [((⟨2, 0, 0⟩ : V3 ℚ), (4 : ℚ))] 1).1 = ⟨5, 0, 0, 0, 1, 0, 0, 0, 1⟩ ∧
    lsqReg3 eig [((⟨2, 0, 0⟩ : V3 ℚ), (4 : ℚ))] 1 (1/2) = ⟨8/5, 0, 0⟩ := by
  decide +kernel

end Lsq

section Cubic
variable [LinearOrder K] [IsStrictOrderedRing K]

/-- **`disc0 = b² − 3ac = 0` does not mean "triple root"** (the cubic branch of `IterRealRoots`).  For a cubic
`a·x³ + b·x² + c·x + d`, `a ≠ 0`, with `b² = 3ac`:
* it is `a·(x + b/(3a))³ + disc1/(27a²)` with `disc1 = 2b³ − 9abc + 27a²d` - a shifted pure cubic;
* the inflection point `−b/(3a)` is a root iff `disc1 = 0` (only then is it the triple root);
* it has at most one real root (`x ↦ x³` is injective on an ordered field), and if `w³ = −disc1/(27a³)` then
  `−b/(3a) + w` is that root.
(The closed form in the source computes `w` as `C/(−3a)` with `C = disc1^(1/3)` through `cmplx.Pow`; that step is libm and is
validated by `realroots.q` / `resid.v roots` on exactly these cubics, not proved.) -/
theorem cubic_disc0_zero_roots (a b c d : K) (ha : a ≠ 0) (h0 : b * b - 3 * a * c = 0) :
    let disc1 := 2 * b * b * b - 9 * a * b * c + 27 * a * a * d
    (∀ x, Poly.eval [d, c, b, a] x = a * (x + b / (3 * a)) ^ 3 + disc1 / (27 * a ^ 2)) ∧
    (Poly.eval [d, c, b, a] (-b / (3 * a)) = 0 ↔ disc1 = 0) ∧
    (∀ x y, Poly.eval [d, c, b, a] x = 0 → Poly.eval [d, c, b, a] y = 0 → x = y) ∧
    (∀ w, w ^ 3 = -disc1 / (27 * a ^ 3) → Poly.eval [d, c, b, a] (-b / (3 * a) + w) = 0) := by
  intro disc1
  have h3 : (3 : K) ≠ 0 := by norm_num
  have hform : ∀ x, Poly.eval [d, c, b, a] x = a * (x + b / (3 * a)) ^ 3 + disc1 / (27 * a ^ 2) := by
    intro x
    have hb : b = 3 * a * (b / (3 * a)) := by field_simp
    generalize b / (3 * a) = t at hb ⊢
    have hc : c = 3 * a * t ^ 2 := by
      have e : 3 * a * (c - 3 * a * t ^ 2) = 0 := by
        linear_combination (-1) * h0 + (b + 3 * a * t) * hb
      have := (mul_eq_zero.mp e).resolve_left (mul_ne_zero h3 ha)
      linear_combination this
    have hd1 : disc1 / (27 * a ^ 2) = d - a * t ^ 3 := by
      rw [div_eq_iff (by positivity)]
      simp only [disc1]
      linear_combination (-9 * a * b) * hc + (2 * b ^ 2 + 6 * a * t * b - 9 * a ^ 2 * t ^ 2) * hb
    rw [hd1]
    simp only [Poly.eval_eq_spec, Poly.evalSpec_cons, Poly.evalSpec_nil]
    linear_combination x * hc + x ^ 2 * hb
  refine ⟨hform, ?_, ?_, ?_⟩
  · rw [hform]
    have : -b / (3 * a) + b / (3 * a) = 0 := by ring
    rw [this]
    constructor
    · intro h
      have h' : disc1 / (27 * a ^ 2) = 0 := by linear_combination h
      have hne : (27 * a ^ 2 : K) ≠ 0 := by positivity
      exact (div_eq_zero_iff.mp h').resolve_right hne
    · intro h; rw [h]; ring
  · intro x y hx hy
    rw [hform] at hx hy
    have hcube : (x + b / (3 * a)) ^ 3 = (y + b / (3 * a)) ^ 3 := by
      have : a * ((x + b / (3 * a)) ^ 3 - (y + b / (3 * a)) ^ 3) = 0 := by linear_combination hx - hy
      have := (mul_eq_zero.mp this).resolve_left ha
      linear_combination this
    have := (Odd.pow_inj (by decide : Odd 3)).mp hcube
    linear_combination this
  · intro w hw
    rw [hform]
    have : -b / (3 * a) + w + b / (3 * a) = w := by ring
    rw [this, hw]
    field_simp
    ring

/-- **The cubics the generator draws on purpose**: `p = a·((x − m)³ − w³)` as the coefficient list the code receives.
Its coefficients satisfy `b² = 3ac` EXACTLY (the branch condition `disc0 == 0`), `disc1 = −27a³w³` (non-zero unless
`w = 0`), it factors as `a·(x − (m+w))·((x − (m − w/2))² + 3w²/4)` - the form `lead·(x − r)·((x − h)² + k)` in which the
kind `realroots.q` passes it - and its only real root is `m + w` (NOT the inflection point `m`, unless `w = 0`). -/
theorem cubic_shifted_roots (a m w : K) (ha : a ≠ 0) :
    let p := [a * (-(m ^ 3) - w ^ 3), 3 * a * m ^ 2, -(3 * a * m), a]
    ((-(3 * a * m)) * (-(3 * a * m)) - 3 * a * (3 * a * m ^ 2) = 0) ∧
    (2 * (-(3 * a * m)) * (-(3 * a * m)) * (-(3 * a * m)) - 9 * a * (-(3 * a * m)) * (3 * a * m ^ 2)
        + 27 * a * a * (a * (-(m ^ 3) - w ^ 3)) = -(27 * a ^ 3 * w ^ 3)) ∧
    (∀ x, Poly.eval p x = a * (x - (m + w)) * ((x - (m - w / 2)) ^ 2 + 3 * w ^ 2 / 4)) ∧
    (∀ x, Poly.eval p x = 0 ↔ x = m + w) := by
  intro p
  have hform : ∀ x, Poly.eval p x = a * ((x - m) ^ 3 - w ^ 3) := by
    intro x
    simp only [p, Poly.eval_eq_spec, Poly.evalSpec_cons, Poly.evalSpec_nil]
    ring
  refine ⟨by ring, by ring, fun x => by rw [hform]; ring, fun x => ?_⟩
  rw [hform]
  constructor
  · intro h
    have h1 := (mul_eq_zero.mp h).resolve_left ha
    have hcube : (x - m) ^ 3 = w ^ 3 := by linear_combination h1
    have := (Odd.pow_inj (by decide : Odd 3)).mp hcube
    linear_combination this
  · intro h; rw [h]; ring

/-- A quartic whose derivative is such a cubic (`x⁴ + p·x + q`, shifted): with real roots `r₁ < r₂` and
`h = −(r₁+r₂)/2`, `k = 3h² − r₁r₂`, the product `(x − r₁)(x − r₂)((x − h)² + k)` has NO cubic and NO quadratic term, so its
derivative `4x³ + p` has `b = c = 0`, `disc0 = 0`; for `k > 0` its real roots are exactly `r₁, r₂` (the form in which
`realroots.q` passes it). -/
theorem quartic_pure_cubic_derivative (r1 r2 : K) (hk : 0 < 3 * ((r1 + r2) / 2) ^ 2 - r1 * r2) :
    let h := -(r1 + r2) / 2
    let k := 3 * h ^ 2 - r1 * r2
    (∀ x, (x - r1) * (x - r2) * ((x - h) ^ 2 + k) =
        x ^ 4 + (-(r1 + r2) * (h ^ 2 + k) - 2 * h * (r1 * r2)) * x + r1 * r2 * (h ^ 2 + k)) ∧
    (∀ x, (x - r1) * (x - r2) * ((x - h) ^ 2 + k) = 0 ↔ x = r1 ∨ x = r2) := by
  intro h k
  have hk' : 0 < k := by
    have : k = 3 * ((r1 + r2) / 2) ^ 2 - r1 * r2 := by simp only [k, h]; ring
    rw [this]; exact hk
  refine ⟨fun x => by simp only [k, h]; ring, fun x => ?_⟩
  have hq : (x - h) ^ 2 + k ≠ 0 := by have := sq_nonneg (x - h); intro e; linarith
  constructor
  · intro e
    rcases mul_eq_zero.mp e with e | e
    · rcases mul_eq_zero.mp e with e | e
      · left; linear_combination e
      · right; linear_combination e
    · exact absurd e hq
  · rintro (e | e) <;> (rw [e]; ring)

/-- Non-vacuity: `x³ − 8` and `(x−1)³ − 8 = x³ − 3x² + 3x − 9` (C17-15's examples) have `b² = 3ac`, are not triple roots,
and their real roots are 2 and 3 (not the inflection points 0 and 1). -/
example : Poly.eval [(-8 : ℚ), 0, 0, 1] 2 = 0 ∧ Poly.eval [(-8 : ℚ), 0, 0, 1] 0 ≠ 0 ∧
    Poly.eval [(-9 : ℚ), 3, -3, 1] 3 = 0 ∧ Poly.eval [(-9 : ℚ), 3, -3, 1] 1 ≠ 0 ∧
    ((-3 : ℚ) * (-3) - 3 * 1 * 3 = 0) := by decide +kernel

end Cubic

/-! ## `CacheScalarFunc` / `BezierCurve.CachedEvalX` (`model2d/curves.go`): the memo table refines the function -/

section Memo
open M3d.Memo

variable {A B : Type} [BEq A] [LawfulBEq A]

/-- `cache.Load(x)` on a table all of whose entries `(k, v)` satisfy `v = f k` can only return `f x`
(the key comparison is equality of the arguments themselves — this is what a coarser key, e.g. `float32(x)`, breaks). -/
theorem memo_lookup_sound (f : A → B) (c : List (A × B)) (h : ∀ p ∈ c, p.2 = f p.1) (x : A) (v : B)
    (e : lookup c x = some v) : v = f x := by
  induction c with
  | nil => simp [lookup] at e
  | cons p r ih =>
    obtain ⟨k, w⟩ := p
    simp only [lookup] at e
    split at e
    · rename_i hk
      have hkx : k = x := eq_of_beq hk
      have hw : w = f k := h (k, w) (by simp)
      have e' : w = v := by simpa using e
      rw [← e', hw, hkx]
    · exact ih (fun p hp => h p (List.mem_cons_of_mem _ hp)) e

/-- One call of the closure returned by **`CacheScalarFunc(f)`** returns `f x` and keeps every entry of the table
equal to `f` of its key. -/
theorem memo_call_refines (f : A → B) (c : List (A × B)) (h : ∀ p ∈ c, p.2 = f p.1) (x : A) :
    (call f c x).1 = f x ∧ ∀ p ∈ (call f c x).2, p.2 = f p.1 := by
  cases e : lookup c x with
  | some v =>
    simp only [call, e]
    exact ⟨memo_lookup_sound f c h x v e, h⟩
  | none =>
    simp only [call, e]
    refine ⟨trivial, ?_⟩
    intro p hp
    rcases List.mem_cons.mp hp with rfl | hp
    · rfl
    · exact h p hp

/-- Every history of calls on one cached function, from any table that is consistent with `f`, returns `f` of
each argument. -/
theorem memo_run_eq_map (f : A → B) (xs : List A) :
    ∀ c : List (A × B), (∀ p ∈ c, p.2 = f p.1) → run f c xs = xs.map f := by
  induction xs with
  | nil => intro c _; rfl
  | cons x xs ih =>
    intro c h
    obtain ⟨h1, h2⟩ := memo_call_refines f c h x
    simp only [run, List.map_cons]
    rw [h1, ih _ h2]

/-- **`CacheScalarFunc(f)` / `BezierCurve.CachedEvalX`**: for EVERY history of queries `xs` on one freshly created
cached function (repeated arguments, arguments arbitrarily close to earlier ones, any order), the i-th answer is
`f xs[i]` — the cached function is observationally the uncached one (`EvalX`, whose contract is
`curve_evalx_bracket`).  This is the expected answer of the correspondence kind `cachedevalx`. -/
theorem cache_scalar_func_history (f : A → B) (xs : List A) : run f [] xs = xs.map f :=
  memo_run_eq_map f xs [] (by simp)

/-- Non-vacuity: a history with a repeated argument (cache hit) and a neighbouring one (miss). -/
example : run (fun n : Nat => n * n) [] [3, 4, 3, 5, 4] = [9, 16, 9, 25, 16] ∧
    (call (fun n : Nat => n * n) [(3, 9)] 3).2 = [(3, 9)] := by decide

end Memo

end M3d.C17
